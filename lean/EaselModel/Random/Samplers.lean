import EaselModel.Random.Model
/-! # The derived samplers of esl_random.c (C09): `esl_rnd_UniformPositive`, `esl_rnd_Gaussian`, `esl_rnd_Gamma`
(`gamma_integer`, `gamma_ahrens`, `gamma_fraction`), `esl_rnd_Dirichlet`, `esl_rnd_mem`, `esl_rnd_floatstring`.
Core Lean only.

Every `double` operation goes through `SOps F` (`Float` instance = what the driver runs, same libm as the C code; ordered
fields for the theorems).  The generator is a source `σ` with `next : σ → UInt32 × σ` (`Rng.next` in the driver).
Rejection loops take fuel (`nofuel`); every table access is bounds-checked (`fault`). -/
namespace EaselModel.Random

class SOps (F : Type) where
  ofNat : Nat → F
  add : F → F → F
  sub : F → F → F
  mul : F → F → F
  div : F → F → F
  neg : F → F
  lt : F → F → Bool
  le : F → F → Bool
  beq : F → F → Bool
  floor : F → F
  toNat : F → Nat          -- `(long) x`, `(unsigned int) x` for a non-negative `x`: truncation
  exp : F → F
  log : F → F
  sqrt : F → F
  tan : F → F
  pow : F → F → F
  pi : F                   -- eslCONST_PI
  e : F                    -- eslCONST_E

instance : SOps Float where
  ofNat := Float.ofNat
  add := (· + ·)
  sub := (· - ·)
  mul := (· * ·)
  div := (· / ·)
  neg := fun x => -x
  lt := fun a b => a < b
  le := fun a b => a ≤ b
  beq := fun a b => a == b
  floor := Float.floor
  toNat := fun x => x.toUInt64.toNat
  exp := Float.exp
  log := Float.log
  sqrt := Float.sqrt
  tan := Float.tan
  pow := Float.pow
  pi := 3.14159265358979323846264338328
  e := 2.71828182845904523536028747135

inductive SRes (α : Type) where
  | ok : α → SRes α
  | nofuel : SRes α
  | fault : SRes α

def SRes.bind {α β : Type} : SRes α → (α → SRes β) → SRes β
  | .ok a, f => f a
  | .nofuel, _ => .nofuel
  | .fault, _ => .fault

instance : Monad SRes where
  pure := SRes.ok
  bind := SRes.bind

namespace SOps
variable {F : Type} [SOps F]
def zero : F := ofNat 0
def one : F := ofNat 1
def two : F := ofNat 2
def half : F := div (ofNat 1) (ofNat 2)
end SOps
open SOps

variable {σ F : Type} [SOps F]

/-- `esl_random`: `(double) x / 4294967296.0` -/
def uni (x : UInt32) : F := div (ofNat x.toNat) (ofNat 4294967296)

def uniform (next : σ → UInt32 × σ) (s : σ) : F × σ := (uni (next s).1, (next s).2)

/-- `esl_rnd_UniformPositive`: `do { x = esl_random(r); } while (x == 0.0);` (`x == 0.0` iff the raw word is 0) -/
def uniPos (next : σ → UInt32 × σ) : σ → Nat → SRes (F × σ)
  | _, 0 => .nofuel
  | s, f+1 => if (next s).1 = 0 then uniPos next (next s).2 f else .ok (uni (next s).1, (next s).2)

/-! ## `esl_rnd_Gaussian` -/
structure GaussTables (F : Type) where
  a : Array F
  d : Array F
  t : Array F
  h : Array F

def tget (T : Array F) (i : Nat) : SRes F :=
  match T[i]? with
  | some x => .ok x
  | none => .fault

/-- labels of the centre part: `S40` (with `ustar`), `S80` (with `ustar`, `tt`, `w`) -/
inductive GPhase (F : Type) where
  | p40 : F → GPhase F
  | p80 : F → F → F → GPhase F

/-- centre part (`START CENTER` … `S80`); returns `w` for the exit `S50` -/
def gaussCenter (next : σ → UInt32 × σ) (fu : Nat) (T : GaussTables F) (i : Nat) (aa : F) :
    GPhase F → σ → Nat → SRes (F × σ)
  | _, _, 0 => .nofuel
  | .p40 ustar, s, f+1 =>
    (tget T.t (i-1)).bind fun ti =>
    if le ustar ti then
      (uniPos next s fu).bind fun (us : F × σ) =>
      (tget T.a i).bind fun ai =>
      let w := mul us.1 (sub ai aa)
      let tt := mul (add (mul half w) aa) w
      gaussCenter next fu T i aa (.p80 ustar tt w) us.2 f
    else
      (tget T.h (i-1)).bind fun hi => .ok (mul (sub ustar ti) hi, s)
  | .p80 ustar tt w, s, f+1 =>
    if lt tt ustar then .ok (w, s)
    else
      (uniPos next s fu).bind fun (us : F × σ) =>
      (uniPos next us.2 fu).bind fun (us2 : F × σ) =>
      if le us.1 ustar then gaussCenter next fu T i aa (.p80 us2.1 us.1 w) us2.2 f
      else gaussCenter next fu T i aa (.p40 us2.1) us2.2 f

/-- `S110`/`S120`: `u += u; if (u < 1.0) { aa += d[i-1]; i += 1; } else { u -= 1.0; break }` -/
def gaussTailIdx (T : GaussTables F) : F → F → Nat → Nat → SRes (F × F × Nat)
  | _, _, _, 0 => .nofuel
  | u, aa, i, f+1 =>
    let u2 := add u u
    if lt u2 one then (tget T.d (i-1)).bind fun di => gaussTailIdx T u2 (add aa di) (i+1) f
    else .ok (sub u2 one, aa, i)

/-- labels of the tail part: `S140` (with `u`), `S160` (with `tt`, `w`) -/
inductive TPhase (F : Type) where
  | p140 : F → TPhase F
  | p160 : F → F → TPhase F

def gaussTail (next : σ → UInt32 × σ) (fu : Nat) (T : GaussTables F) (i : Nat) (aa : F) :
    TPhase F → σ → Nat → SRes (F × σ)
  | _, _, 0 => .nofuel
  | .p140 u, s, f+1 =>
    (tget T.d (i-1)).bind fun di =>
    let w := mul u di
    let tt := mul (add (mul half w) aa) w
    gaussTail next fu T i aa (.p160 tt w) s f
  | .p160 tt w, s, f+1 =>
    (uniPos next s fu).bind fun (us : F × σ) =>          -- ustar
    if lt tt us.1 then .ok (w, us.2)
    else
      (uniPos next us.2 fu).bind fun (us2 : F × σ) =>    -- u
      if le us2.1 us.1 then gaussTail next fu T i aa (.p160 us2.1 w) us2.2 f
      else (uniPos next us2.2 fu).bind fun (us3 : F × σ) => gaussTail next fu T i aa (.p140 us3.1) us3.2 f

/-- `s = 0.0; if (u > 0.5) s = 1.0;` -/
def gaussSgn (u0 : F) : F := if lt half u0 then one else zero
/-- `u += (u-s); u = 32.0*u;` -/
def gaussScale (u0 : F) : F := mul (ofNat 32) (add u0 (sub u0 (gaussSgn u0)))
/-- `i = (long) u; if (i == 32) i = 31;` -/
def gaussIndex (u : F) : Nat := if toNat u = 32 then 31 else toNat u
/-- `S50`: `y = aa+w; snorm = y; if (s == 1.0) snorm = -y;` -/
def gaussFin (sgn aa w : F) : F := if beq sgn one then neg (add aa w) else add aa w

/-- everything after the first uniform: tail (`i == 0`, `S100`) or centre -/
def gaussBody (next : σ → UInt32 × σ) (fu fuel : Nat) (T : GaussTables F) (sgn u : F) (i : Nat) (s : σ) : SRes (F × σ) :=
  if i = 0 then
    (tget T.a 31).bind fun a31 =>
    (gaussTailIdx T u a31 6 fuel).bind fun (r : F × F × Nat) =>
    (gaussTail next fu T r.2.2 r.2.1 (.p140 r.1) s fuel).bind fun (ws : F × σ) => .ok (gaussFin sgn r.2.1 ws.1, ws.2)
  else
    (tget T.a (i-1)).bind fun aa =>
    (gaussCenter next fu T i aa (.p40 (sub u (ofNat i))) s fuel).bind fun (ws : F × σ) => .ok (gaussFin sgn aa ws.1, ws.2)

/-- `snorm` of `esl_rnd_Gaussian` (the result is `stddev*snorm + mean`) -/
def gaussSnorm (next : σ → UInt32 × σ) (fu fuel : Nat) (T : GaussTables F) (s0 : σ) : SRes (F × σ) :=
  (uniPos next s0 fu).bind fun (us : F × σ) =>
    gaussBody next fu fuel T (gaussSgn us.1) (gaussScale us.1) (gaussIndex (gaussScale us.1)) us.2

def gaussian (next : σ → UInt32 × σ) (fu fuel : Nat) (T : GaussTables F) (mean stddev : F) (s0 : σ) : SRes (F × σ) :=
  (gaussSnorm next fu fuel T s0).bind fun (r : F × σ) => .ok (add (mul stddev r.1) mean, r.2)

/-! ## `esl_rnd_Gamma` -/
/-- `gamma_integer`: `U = 1.; for (i = 0; i < a; i++) U *= esl_rnd_UniformPositive(r); X = -log(U);` -/
def gammaIntU (next : σ → UInt32 × σ) (fu : Nat) : Nat → F → σ → SRes (F × σ)
  | 0, U, s => .ok (U, s)
  | a+1, U, s => (uniPos next s fu).bind fun (us : F × σ) => gammaIntU next fu a (mul U us.1) us.2

def gammaInteger (next : σ → UInt32 × σ) (fu : Nat) (a : Nat) (s : σ) : SRes (F × σ) :=
  (gammaIntU next fu a one s).bind fun (r : F × σ) => .ok (neg (log r.1), r.2)

/-- inner loop of `gamma_ahrens`: `do { Y = tan(PI*esl_random(r)); X = Y*sqrt(2.*a-1.) + a - 1.; } while (X <= 0.);` -/
def ahrensCand (next : σ → UInt32 × σ) (a : F) : σ → Nat → SRes ((F × F) × σ)
  | _, 0 => .nofuel
  | s, f+1 =>
    let Y := tan (mul pi (uni (next s).1))
    let X := sub (add (mul Y (sqrt (sub (mul two a) one))) a) one
    if le X zero then ahrensCand next a (next s).2 f else .ok ((Y, X), (next s).2)

def gammaAhrens (next : σ → UInt32 × σ) (a : F) : σ → Nat → SRes (F × σ)
  | _, 0 => .nofuel
  | s, f+1 =>
    (ahrensCand next a s (f+1)).bind fun (c : (F × F) × σ) =>
    let Y := c.1.1
    let X := c.1.2
    let V : F := uni (next c.2).1
    let test := mul (add one (mul Y Y))
      (exp (sub (mul (sub a one) (log (div X (sub a one)))) (mul Y (sqrt (sub (mul two a) one)))))
    if lt test V then gammaAhrens next a (next c.2).2 f else .ok (X, (next c.2).2)

/-- `if (U < p) { X = pow(V, 1./a); q = exp(-X); } else { X = 1. - log(V); q = pow(X, a-1.); }` -/
def fracXq (a U p V : F) : F × F :=
  if lt U p then (pow V (div one a), exp (neg (pow V (div one a))))
  else (sub one (log V), pow (sub one (log V)) (sub a one))

/-- `gamma_fraction` (Knuth 3.4.1 ex. 16) -/
def gammaFraction (next : σ → UInt32 × σ) (fu : Nat) (a : F) : σ → Nat → SRes (F × σ)
  | _, 0 => .nofuel
  | s, f+1 =>
    let p := div e (add a e)
    let U : F := uni (next s).1
    (uniPos next (next s).2 fu).bind fun (vs : F × σ) =>
    let V := vs.1
    let Xq : F × F := fracXq a U p V
    let U2 : F := uni (next vs.2).1
    if le Xq.2 U2 then gammaFraction next fu a (next vs.2).2 f else .ok (Xq.1, (next vs.2).2)

/-- `esl_rnd_Gamma(r, a)`; in the mixed regime gcc evaluates `gamma_integer(r, aint)` before `gamma_fraction(r, a-aint)`
    (checked by the differential run: the C standard leaves the order of the two operands of `+` unspecified) -/
def gamma (next : σ → UInt32 × σ) (fu fuel : Nat) (a : F) (s : σ) : SRes (F × σ) :=
  let aint := floor a
  if beq a aint && lt a (ofNat 12) then gammaInteger next fu (toNat a) s
  else if lt (ofNat 3) a then gammaAhrens next a s fuel
  else if lt a one then gammaFraction next fu a s fuel
  else
    (gammaInteger next fu (toNat aint) s).bind fun (g1 : F × σ) =>
    (gammaFraction next fu (sub a aint) g1.2 fuel).bind fun (g2 : F × σ) => .ok (add g1.1 g2.1, g2.2)

/-! ## `esl_rnd_Dirichlet` -/
/-- first loop: `p[i] = esl_rnd_Gamma(rng, alpha ? alpha[i] : 1.0); norm += p[i];` (returns `p` reversed and `norm`) -/
def dirichletDraw (next : σ → UInt32 × σ) (fu fuel : Nat) : List F → List F → F → σ → SRes ((List F × F) × σ)
  | [], acc, norm, s => .ok ((acc, norm), s)
  | al :: rest, acc, norm, s =>
    (gamma next fu fuel al s).bind fun (g : F × σ) => dirichletDraw next fu fuel rest (g.1 :: acc) (add norm g.1) g.2

/-- `esl_rnd_Dirichlet(rng, alpha, K, p)` (`alpha = NULL` is the list of `K` ones) -/
def dirichlet (next : σ → UInt32 × σ) (fu fuel : Nat) (alpha : List F) (s : σ) : SRes (List F × σ) :=
  (dirichletDraw next fu fuel alpha [] zero s).bind fun (r : (List F × F) × σ) =>
    .ok (r.1.1.reverse.map (fun x => div x r.1.2), r.2)

/-! ## `esl_rnd_Roll` on a source, `esl_rnd_mem`, `esl_rnd_floatstring` -/
def rollS (next : σ → UInt32 × σ) (n : Nat) : σ → Nat → SRes (Nat × σ)
  | _, 0 => .nofuel
  | s, f+1 =>
    match rollWord n (next s).1.toNat with
    | some v => .ok (v, (next s).2)
    | none => rollS next n (next s).2 f

/-- `esl_rnd_mem`: `n` rolls of 256 -/
def rndMem (next : σ → UInt32 × σ) (fu : Nat) : Nat → List Nat → σ → SRes (List Nat × σ)
  | 0, acc, s => .ok (acc.reverse, s)
  | n+1, acc, s => (rollS next 256 s fu).bind fun (r : Nat × σ) => rndMem next fu n (r.1 :: acc) r.2

/-- `k` decimal digits `'0' + esl_rnd_Roll(rng, 10)` -/
def rndDigits (next : σ → UInt32 × σ) (fu : Nat) : Nat → List Char → σ → SRes (List Char × σ)
  | 0, acc, s => .ok (acc, s)
  | k+1, acc, s =>
    (rollS next 10 s fu).bind fun (r : Nat × σ) => rndDigits next fu k (acc ++ [Char.ofNat (48 + r.1)]) r.2

/-- `esl_rnd_floatstring(rng, s)`: the characters written before the terminating NUL -/
def floatString (next : σ → UInt32 × σ) (fu : Nat) (s : σ) : SRes (List Char × σ) :=
  (rollS next 2 s fu).bind fun (sg : Nat × σ) =>
  let acc0 : List Char := if sg.1 ≠ 0 then ['-'] else []
  (rollS next 7 sg.2 fu).bind fun (nl : Nat × σ) =>
  -- `s[i++] = (n-- == 0) ? '0' : '0' + (1 + esl_rnd_Roll(rng, 9));  while (n-- > 0) s[i++] = '0' + esl_rnd_Roll(rng, 10);`
  (if nl.1 = 0 then (SRes.ok (acc0 ++ ['0'], nl.2) : SRes (List Char × σ))
   else (rollS next 9 nl.2 fu).bind fun (d1 : Nat × σ) =>
        rndDigits next fu (nl.1 - 1) (acc0 ++ [Char.ofNat (48 + (1 + d1.1))]) d1.2).bind fun (ip : List Char × σ) =>
  (rollS next 2 ip.2 fu).bind fun (fr : Nat × σ) =>
  (if fr.1 ≠ 0 then
     (rollS next 7 fr.2 fu).bind fun (fl : Nat × σ) => rndDigits next fu (1 + fl.1) (ip.1 ++ ['.']) fl.2
   else (SRes.ok (ip.1, fr.2) : SRes (List Char × σ))).bind fun (fp : List Char × σ) =>
  (rollS next 2 fp.2 fu).bind fun (ex : Nat × σ) =>
  if ex.1 ≠ 0 then
    (rollS next 41 ex.2 fu).bind fun (ev : Nat × σ) =>
      .ok (fp.1 ++ ['e'] ++ (toString ((ev.1 : Int) - 20)).toList, ev.2)
  else .ok (fp.1, ex.2)

end EaselModel.Random
