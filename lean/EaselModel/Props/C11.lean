import EaselModel.Stats.HistRat
import EaselModel.Stats.HistQuery
import EaselModel.Stats.HistCens
import EaselModel.Stats.HistMass
import EaselModel.Stats.HistCompose
import EaselModel.Stats.FitReal
import EaselModel.Stats.GumbelConcave
import EaselModel.Stats.MinLemmas
import EaselModel.Stats.MinReal
import EaselModel.Stats.MinCounter
import EaselModel.Stats.MinTrace
import EaselModel.Stats.MinDescent
import EaselModel.Stats.WeibullReal
import EaselModel.Stats.WeiBinnedReal
import EaselModel.Stats.GevReal
import EaselModel.Stats.SxpBinnedReal
import EaselModel.Stats.GammaReal
import EaselModel.Stats.Format
import EaselModel.Stats.ExpTailReal
import EaselModel.Stats.TevdReal
import EaselModel.Stats.ExpBinnedReal
import EaselModel.Stats.HistExpectReal
import EaselModel.Stats.HistPlotRat
import EaselModel.Stats.HistExpectSum
/-! # C11 — property theorems (statements + glue only; lemmas live in `EaselModel/Stats/*`)

Histogram half. `Hist` is the line-by-line model of `esl_histogram.c` (`EaselModel/Stats/Histogram.lean`), run bit-for-bit
against the C code over `Float` on every check; the theorems below are about the same definitions over `ℚ`
(exact arithmetic). Float placement of a value within rounding distance of a bin edge is layer L0 — not a theorem. -/
namespace EaselModel.Props.C11
open EaselModel.Stats

/-- `esl_histogram_Score2Bin` (exact arithmetic, `w > 0`): eslOK exactly when the value is finite and the bin number fits
    an `int` — then the bin is THE bin `b` with `bmin + b·w < x ≤ bmin + (b+1)·w`; otherwise eslERANGE with `*ret_b = 0`
    (never an overflowing conversion). -/
theorem score2bin_interval (h : Hist ℚ) (hw : 0 < h.w) (x : ℚ) :
    let b := ⌈(x - h.bmin) / h.w - 1⌉
    (h.score2bin x = (.ok, b) ∧ inBin h.bmin h.w b x ∧ |x| ≤ dblMaxQ ∧ -2147483648 ≤ b ∧ b ≤ 2147483647) ∨
    (h.score2bin x = (.erange, 0) ∧ (¬ |x| ≤ dblMaxQ ∨ b < -2147483648 ∨ 2147483647 < b)) :=
  score2bin_q h hw x

/-- the half-open bins partition the line: a value lies in exactly one of them -/
theorem bins_partition {bmin w : ℚ} (hw : 0 < w) {i j : Int} {x : ℚ} (hi : inBin bmin w i x) (hj : inBin bmin w j x) : i = j :=
  inBin_unique hw hi hj

/-- memory safety and `int` safety of `esl_histogram_Add`, for EVERY numeric class (so also for binary64):
    from a well-formed histogram `Add` never reads or writes outside `obs[0..nb-1]` / `x[0..nalloc-1]` and never overflows an
    `int` (the model's `.fault` outcome is unreachable); the result is well-formed again. -/
theorem add_never_faults {α : Type} [Num α] (h : Hist α) (hwf : h.WF) (hidx : IdxOK h) (v : α) :
    ∃ st h', h.add v = .val (st, h') ∧ h'.WF := by
  obtain ⟨st, h', e, wf', _⟩ := add_spec h hwf hidx v
  exact ⟨st, h', e, wf'⟩

/-- one `Add` on a histogram that accounts for the values `vs`: refused (status ≠ OK: not finite, bin number beyond `int`,
    histogram finished) and then no count, bound or counter changes — or accepted, and then the histogram accounts for
    `v :: vs`: exactly the bin whose interval contains `v` gained one, whatever re-indexing the growth needed. -/
theorem add_counts_once (h : Hist ℚ) (vs : List ℚ) (acc : Accounts h vs) (v : ℚ) :
    ∃ st h', h.add v = .val (st, h') ∧
      ((st = .ok ∧ Accounts h' (v :: vs)) ∨ (st ≠ .ok ∧ Accounts h' vs ∧ SameData h h')) :=
  add_accounts h vs acc v

/-- **Every value exactly once, however often the histogram grew.** After `Create`/`CreateFull(bmin,bmax,w)` with `w > 0` and ANY
    sequence of `Add` calls `xs`: no fault; the bin grid is the original one (`w` unchanged, `bmin` moved down by a whole number
    of widths, so every boundary `bmin + i·w` is an original boundary); and for EVERY integer `i` the count of bin `i`
    (0 if the bin does not exist) is the number of accepted values in `(bmin + i·w, bmin + (i+1)·w]`; the counts sum to `n`. -/
theorem histogram_accounts (bmin bmax w : ℚ) (hw : 0 < w) (h0 : Hist ℚ)
    (hc : Hist.create bmin bmax w = .val (some h0) ∨ Hist.createFull bmin bmax w = .val (some h0)) (xs : List ℚ) :
    ∃ h vs, Hist.addMany h0 [] xs = .val (h, vs) ∧ Accounts h vs ∧ h.w = w ∧ (∃ k : Nat, h.bmin = bmin - (k : ℚ) * w) ∧
      (∀ i : Int, obsAt h.obs i = vs.countP (fun x => decide (inBin h.bmin h.w i x))) ∧
      total h.obs = h.n ∧ h.n = vs.length := by
  obtain ⟨a0, e1, e2, _⟩ := create_accounts bmin bmax w hw h0 hc
  obtain ⟨h, vs, e, a, ew, ⟨k, eb⟩, _⟩ := addMany_accounts xs h0 [] a0
  exact ⟨h, vs, e, a, by rw [ew, e1], ⟨k, by rw [eb, e1, e2]⟩, a.counts, by rw [a.tot, a.n], a.n⟩

/-- `imin/imax/xmin/xmax/n` are what they say (consequence of `Accounts`): no count outside `imin..imax`, both ends occupied,
    `xmin`/`xmax` are accepted values bounding all accepted values. -/
theorem bookkeeping_true (h : Hist ℚ) (vs : List ℚ) (acc : Accounts h vs) (hne : vs ≠ []) :
    (∀ i : Int, (i < h.imin ∨ h.imax < i) → obsAt h.obs i = 0) ∧ 0 < obsAt h.obs h.imin ∧ 0 < obsAt h.obs h.imax ∧
    h.xmin ∈ vs ∧ h.xmax ∈ vs ∧ (∀ v ∈ vs, h.xmin ≤ v ∧ v ≤ h.xmax) ∧ h.n = vs.length :=
  ⟨fun i hi => hi.elim (acc.below i) (acc.above i), (acc.occ hne).1, (acc.occ hne).2, (acc.xmem hne).1, (acc.xmem hne).2, acc.xlo, acc.n⟩

/-! ### rank and tail queries vs the sorted raw data
`SortedFlagOK h` ("the `is_sorted` flag tells the truth") holds after `Create` and after every `Add` (the flag is cleared),
and is re-established by every query (they sort first). -/

theorem sorted_flag_sound (h : Hist ℚ) :
    (h.isSorted = false → SortedFlagOK h) ∧ (h.isFull = true → SortedFlagOK h → SortedFlagOK h.sort) := by
  constructor
  · intro hf hc; rw [hf] at hc; cases hc
  · intro hf hs _; exact (sort_spec h hf hs).1

/-- `esl_histogram_GetTail(phi)`: `*ret_z` is the number of raw values `≤ phi`, the returned vector is the sorted raw data `> phi`
    (strictly), `*ret_n = n - *ret_z`; no fault (the binary search stays inside `x[0..n-1]` and terminates), histogram finished. -/
theorem tail_query_agrees (h : Hist ℚ) (vs : List ℚ) (acc : Accounts h vs) (hf : h.isFull = true) (hs : SortedFlagOK h) (phi : ℚ) :
    ∃ h' mid, h.getTail phi = .val (.ok, h', mid) ∧ mid = vs.countP (fun x => decide (x ≤ phi)) ∧
      h'.x.toList.Pairwise (· ≤ ·) ∧ h'.x.toList.Perm vs ∧
      (∀ x ∈ h'.x.toList.take mid, x ≤ phi) ∧ (∀ x ∈ h'.x.toList.drop mid, phi < x) ∧ h'.isDone = true ∧ h'.obs = h.obs :=
  getTail_spec h vs acc hf hs phi

/-- **end to end**: `CreateFull(bmin,bmax,w)` with `w > 0`, ANY sequence of `Add` calls (accepted or refused, any growth), then
    `GetTail(phi)`: `*ret_z` = number of accepted values `≤ phi`, and the returned vector is the sorted accepted values `> phi`. -/
theorem collect_then_tail (bmin bmax w : ℚ) (hw : 0 < w) (h0 : Hist ℚ) (hc : Hist.createFull bmin bmax w = .val (some h0)) (xs : List ℚ) (phi : ℚ) :
    ∃ h vs h' mid, Hist.addMany h0 [] xs = .val (h, vs) ∧ h.getTail phi = .val (.ok, h', mid) ∧
      mid = vs.countP (fun x => decide (x ≤ phi)) ∧ h'.x.toList.Pairwise (· ≤ ·) ∧ h'.x.toList.Perm vs ∧
      (∀ x ∈ h'.x.toList.drop mid, phi < x) ∧ (∀ x ∈ h'.x.toList.take mid, x ≤ phi) :=
  collected_tail bmin bmax w hw h0 hc xs phi

/-- `esl_histogram_GetRank(rank)`: eslEINVAL outside `1..n`, otherwise element `n - rank` of the sorted raw data. -/
theorem rank_query_agrees (h : Hist ℚ) (vs : List ℚ) (acc : Accounts h vs) (hf : h.isFull = true) (hs : SortedFlagOK h) (r : Int) :
    (¬ (1 ≤ r ∧ r ≤ vs.length) → ∃ v, h.getRank r = .val (.einval, h, v)) ∧
    (1 ≤ r ∧ r ≤ vs.length → ∃ h' v, h.getRank r = .val (.ok, h', v) ∧ h'.x.toList.Pairwise (· ≤ ·) ∧ h'.x.toList.Perm vs ∧
        ∃ hi : (vs.length - r.toNat) < h'.x.toList.length, v = h'.x.toList[vs.length - r.toNat] ∧ h'.obs = h.obs) :=
  getRank_spec h vs acc hf hs r

/-- `esl_histogram_GetTailByMass(pmass)`: the last `⌊n·pmass⌋` sorted raw values (`0 ≤ pmass ≤ 1`), eslEINVAL otherwise. -/
theorem tailmass_query_agrees (h : Hist ℚ) (vs : List ℚ) (acc : Accounts h vs) (hf : h.isFull = true) (hs : SortedFlagOK h) (p : ℚ) :
    (¬ (0 ≤ p ∧ p ≤ 1) → (h.getTailByMass p).1 = .einval) ∧
    (0 ≤ p ∧ p ≤ 1 → ∃ h' k, h.getTailByMass p = (.ok, h', k) ∧ h'.x.toList.Pairwise (· ≤ ·) ∧ h'.x.toList.Perm vs ∧
        (k : ℚ) ≤ vs.length * p ∧ (vs.length : ℚ) * p < k + 1 ∧ k ≤ vs.length ∧ h'.isDone = true) :=
  getTailByMass_spec h vs acc hf hs p

/-- `esl_histogram_SetTail(phi)` (after commits fd84f7f, 2487976, 9b72a6e): the threshold actually used is the bin boundary
    `bmin + k·w ∈ (phi - w, phi]`, `cmin = max(k,0)`, and the censoring agrees with the raw data: `z` = number of accepted values
    `≤` that threshold, `No = n - z`, `Nc = n`; no read outside the bins. -/
theorem settail_agrees_with_raw_data (h : Hist ℚ) (vs : List ℚ) (acc : Accounts h vs) (phi : ℚ) (hfin : |phi| ≤ dblMaxQ)
    (hr : -2147483648 ≤ ⌈(phi - h.bmin) / h.w - 1⌉ ∧ ⌈(phi - h.bmin) / h.w - 1⌉ < 2147483647) :
    ∃ h' mass k, h.setTail phi = .val (.ok, h', mass) ∧ h'.phi = h.bmin + (k : Int) * h.w ∧ h'.phi ≤ phi ∧ phi - h'.phi < h.w ∧
      h'.cmin = max k 0 ∧ h'.z = vs.countP (fun x => decide (x ≤ h'.phi)) ∧ h'.no = vs.length - h'.z ∧ h'.nc = vs.length ∧
      h'.obs = h.obs ∧ h'.isDone = true ∧ h'.datasetIs = .virtualCensored :=
  setTail_spec h vs acc phi hfin hr

/-- `esl_histogram_SetTailByMass(pmass)`, `0 < pmass ≤ 1`, non-empty data: the cutoff is the lower bound of a bin `b ∈ imin..imax`;
    `No` = number of accepted values above it, `≥ pmass·n`; `z = n - No` = number of accepted values `≤` it; and `b` is the highest
    satisfactory bin (the values above bin `b` alone fall short of the requested mass). -/
theorem settailbymass_agrees_with_raw_data (h : Hist ℚ) (vs : List ℚ) (acc : Accounts h vs) (hne : vs ≠ []) (p : ℚ) (hp0 : 0 < p) (hp1 : p ≤ 1) :
    ∃ h' mass b, h.setTailByMass p = .val (.ok, h', mass) ∧ h.imin ≤ b ∧ b ≤ h.imax ∧ h'.cmin = b ∧ h'.phi = h.bmin + (b : ℚ) * h.w ∧
      h'.no = vs.countP (fun x => decide (h'.phi < x)) ∧ h'.z = vs.countP (fun x => decide (x ≤ h'.phi)) ∧
      p * vs.length ≤ h'.no ∧ (vs.countP (fun x => decide (h.bmin + ((b : ℚ) + 1) * h.w < x)) : ℚ) < p * vs.length ∧
      h'.nc = vs.length ∧ h'.obs = h.obs ∧ h'.isDone = true :=
  setTailByMass_spec h vs acc hne p hp0 hp1

/-- `esl_histogram_DeclareCensoring(z, phi)`: eslEINVAL iff `phi` exceeds some observed value; else `Nc = n + z`, `No = n`. -/
theorem declare_censoring_agrees (h : Hist ℚ) (vs : List ℚ) (acc : Accounts h vs) (hne : vs ≠ []) (z : Int) (hz : 0 ≤ z) (phi : ℚ) :
    ((∃ v ∈ vs, v < phi) → h.declareCensoring z phi = (.einval, h)) ∧
    ((∀ v ∈ vs, phi ≤ v) → ∃ h', h.declareCensoring z phi = (.ok, h') ∧ h'.z = z.toNat ∧ h'.nc = vs.length + z.toNat ∧
        h'.no = vs.length ∧ h'.phi = phi ∧ h'.isDone = true ∧ h'.datasetIs = .trueCensored ∧ h'.obs = h.obs ∧ h'.cmin = h.imin) :=
  declareCensoring_spec h vs acc hne z hz phi

/-- non-vacuity: `Create(0, 10, 1)` succeeds over ℚ (so `histogram_accounts` has instances) -/
example : ∃ h : Hist ℚ, Hist.create (0 : ℚ) 10 1 = .val (some h) := by
  have hq : ((10 : ℚ) - 0) / 1 = ((10 : Int) : ℚ) := by norm_num
  have hfin : Num.isFinite (((10 : Int) : ℚ)) = true := by
    rw [isFinite_q]; exact small_le_dblMaxQ _ (by norm_num)
  unfold Hist.create
  simp only [hq, hfin, toInt_intCast]
  exact ⟨_, rfl⟩

/-! ### round 4: expected counts, goodness of fit, plot tables, rounding declaration (model `HistExpect.lean`, compared with the C code on every run) -/

/-- `esl_histogram_SetExpect`, every cdf and numeric class: fills exactly `expect[0..nb-1]`; `emin` stays, or (from the sentinel `-1`) becomes
    a bin in `0..nb-1`; the histogram is finished and nothing else changes. -/
theorem set_expect_fills_all_bins {α : Type} [Num α] (h : Hist α) (e : Expect α) (cdf : α → α) (hnb : 0 ≤ h.nb) :
    ∃ ex, (h.setExpect e cdf).2.expect = some ex ∧ (ex.size : Int) = h.nb ∧
      ((h.setExpect e cdf).2.emin = e.emin ∨ (e.emin = -1 ∧ 0 ≤ (h.setExpect e cdf).2.emin ∧ (h.setExpect e cdf).2.emin < h.nb)) ∧
      (h.setExpect e cdf).1 = { h with isDone := true } :=
  setExpect_spec h e cdf hnb

/-- **`esl_histogram_SetExpectedTail` never leaves `emin` outside `0..nb`** (the defect repaired in 7d2bcba: a `base_val` outside the binned
    range made `esl_vec_DSet(expect, emin, 0.)` and the fill loop write outside `expect[]`), every `base_val` / mass / cdf / numeric class:
    eslERANGE and nothing changed, or eslOK with `0 ≤ emin ≤ nb`, `expect[]` exactly `nb` long, zero below `emin`, `is_tailfit` and `is_done` set. -/
theorem expected_tail_emin_in_range {α : Type} [Num α] (h : Hist α) (e : Expect α) (baseVal pmass : α) (cdf : α → α) (hnb : 0 ≤ h.nb) :
    let r := h.setExpectedTail e baseVal pmass cdf
    (r.1 = .erange ∧ r.2.1 = h ∧ r.2.2 = e) ∨
    (r.1 = .ok ∧ 0 ≤ r.2.2.emin ∧ r.2.2.emin ≤ h.nb ∧ r.2.2.isTailfit = true ∧ r.2.1 = { h with isDone := true } ∧
      ∃ ex, r.2.2.expect = some ex ∧ (ex.size : Int) = h.nb ∧ ∀ i : Nat, (i : Int) < r.2.2.emin → ex[i]? = some Num.zero) :=
  setExpectedTail_spec h e baseVal pmass cdf hnb

/-- **The expected counts account for the law's mass** (ℝ, any cdf): after `SetExpect` the entries of `expect[]` add up to `Nc·(F(UBound(nb-1)) -
    F(LBound(0)))`; after an accepted `SetExpectedTail` to `pmass·Nc·(F(UBound(nb-1)) - F(LBound(emin)))` — adjacent bins share their boundary, so no
    expected mass is lost or counted twice. (`UBound(nb-1) = LBound(nb)`.) -/
theorem expected_counts_account_for_the_mass (h : Hist ℝ) (e : Expect ℝ) (baseVal pmass : ℝ) (cdf : ℝ → ℝ) (hnb : 0 ≤ h.nb) :
    (∃ ex, (h.setExpect e cdf).2.expect = some ex ∧ ex.toList.sum = (h.nc : ℝ) * (cdf (h.lbound h.nb) - cdf (h.lbound 0))) ∧
    ((h.setExpectedTail e baseVal pmass cdf).1 = .ok →
      ∃ ex, (h.setExpectedTail e baseVal pmass cdf).2.2.expect = some ex ∧
        ex.toList.sum = pmass * (h.nc : ℝ) * (cdf (h.lbound h.nb) - cdf (h.lbound (h.setExpectedTail e baseVal pmass cdf).2.2.emin))) :=
  ⟨setExpect_total h e cdf hnb, setExpectedTail_total h e baseVal pmass cdf hnb⟩

/-- **`esl_histogram_Goodness` is memory-safe.** Every numeric class: on a well-formed histogram with `cmin ≥ 0` and `expect[]` as long as
    `obs[]`, the only way to the model's `.fault` (read outside `obs[]`/`expect[]`, write outside the `2·nb+1` re-bins, division by zero in
    `minc`) is the bin-number formula `2·(int) pow(nobs, 0.4) ≤ 0` for some `nobs ≥ 1`; in exact arithmetic that cannot happen. -/
theorem goodness_never_faults :
    (∀ {α : Type} [Num α] (h : Hist α), h.WF → IdxOK h → 0 ≤ h.cmin → ∀ (e : Expect α), (∀ ex, e.expect = some ex → (ex.size : Int) = h.nb) →
      ∀ nfitted : Int, h.goodness e nfitted = .fault → ∃ nobs : Nat, 0 < nobs ∧ 2 * Num.toInt (Num.pow (Num.ofInt (nobs : Int)) (0.4 : α)) ≤ 0) ∧
    (∀ (h : Hist ℝ), h.WF → IdxOK h → 0 ≤ h.cmin → ∀ (e : Expect ℝ), (∀ ex, e.expect = some ex → (ex.size : Int) = h.nb) →
      ∀ nfitted : Int, h.goodness e nfitted ≠ .fault) :=
  ⟨fun h hwf hidx hc e hex nf hf => goodness_fault_only_from_pow h hwf hidx hc e hex nf hf,
   fun h hwf hidx hc e hex nf => goodness_no_fault_real h hwf hidx hc e hex nf⟩

/-- **`esl_histogram_Goodness` accounts for every count in the range it evaluates** (every numeric class): the observed counts of its re-bins
    add up to `Σ obs[bbase..imax]`, `bbase = max(cmin, emin if is_tailfit)`; eslOK ⇒ `*ret_nbins` is the number of re-bins and at least one
    degree of freedom is left (`nbins - nfitted - 1 > 0`). -/
theorem goodness_accounts_for_its_counts {α : Type} [Num α] (h : Hist α) (e : Expect α) (nfitted : Int) (g : Goodness α) (bins : List (Nat × α))
    (hg : h.goodness e nfitted = .val (g, bins)) (hne : bins ≠ []) :
    goodnessCount h.obs (h.imax + 1 - goodnessBase h e).toNat (goodnessBase h e) 0 = .val (binsObs bins) ∧
    (g.st = .ok → g.nbins = bins.length ∧ 0 < g.nbins - nfitted - 1) :=
  goodness_accounts h e nfitted g bins hg hne

/-- **…and that range is the raw data above its threshold** (ℚ, any history of accepted values): `Σ obs[b..imax]`, the `nobs` of `Goodness`'s first
    loop for a first evaluated bin `0 ≤ b ≤ imax+1` (so, by `goodness_accounts_for_its_counts`, the total of its re-bins), is the number of accepted
    values above `LBound(b)`. -/
theorem goodness_range_is_the_raw_data_above_its_threshold (h : Hist ℚ) (vs : List ℚ) (acc : Accounts h vs) (b : Int) (hb0 : 0 ≤ b) (hb1 : b ≤ h.imax + 1) :
    goodnessCount h.obs (h.imax + 1 - b).toNat b 0 = .val (vs.countP (fun x => decide (h.bmin + b * h.w < x))) :=
  goodnessCount_raw h vs acc b hb0 hb1

/-- non-vacuity of `goodness_never_faults` / `goodness_accounts_for_its_counts`: a histogram over ℝ with one value in one bin and expectation 1
    satisfies the hypotheses, and `esl_histogram_Goodness` gets as far as a non-empty re-binning holding that value -/
example : (h1.WF ∧ IdxOK h1 ∧ 0 ≤ h1.cmin ∧ (∀ ex, e1.expect = some ex → (ex.size : Int) = h1.nb)) ∧
    ∃ g bins, h1.goodness e1 0 = .val (g, bins) ∧ bins ≠ [] ∧ binsObs bins = 1 := ⟨h1_wf, goodness_example⟩

/-- **`esl_histogram_Plot` accounts for the data** (ℚ, any history of accepted values `vs`): no read outside `obs[]`; one row per bin
    `imin..imax`, each with the number of accepted values in that bin's interval; the printed counts add up to `n`. -/
theorem plot_accounts_for_data (h : Hist ℚ) (vs : List ℚ) (acc : Accounts h vs) :
    ∃ rows, h.plotObserved = .val rows ∧ rows.length = (h.imax + 1 - h.imin).toNat ∧ (rows.map (fun r => r.2)).sum = vs.length ∧
      ∀ r ∈ rows, h.imin ≤ r.1 ∧ r.1 ≤ h.imax ∧ r.2 = vs.countP (fun x => decide (inBin h.bmin h.w r.1 x)) :=
  plotObserved_accounts h vs acc

/-- **`esl_histogram_PlotSurvival` accounts for the data**, the empty histogram included (e843eeb): no read outside `obs[]`; nothing printed
    for an empty histogram; the last cumulative count printed is `n`. -/
theorem plot_survival_accounts_for_data (h : Hist ℚ) (vs : List ℚ) (acc : Accounts h vs) :
    ∃ first rows, h.plotSurvival = .val (first, rows) ∧ (vs = [] → first = false ∧ rows = []) ∧
      (first = true → 1 < vs.countP (fun x => decide (inBin h.bmin h.w h.imax x))) ∧ ∀ l ∈ rows.getLast?, l.2 = vs.length :=
  plotSurvival_accounts h vs acc

/-- `esl_histogram_PlotQQ` (observed part), every numeric class: on a well-formed histogram with `0 ≤ cmin ≤ nb` and `emin ≤ nb` (guaranteed by
    `expected_tail_emin_in_range`) it reads only inside `obs[]` and prints one row per bin `bbase..imax-1`. -/
theorem plot_qq_in_bounds {α : Type} [Num α] (h : Hist α) (hwf : h.WF) (hidx : IdxOK h) (hc : 0 ≤ h.cmin) (hcn : h.cmin ≤ h.nb) (e : Expect α)
    (he : e.emin ≤ h.nb) : ∃ rows, h.plotQQ e = .val rows ∧ rows.length = (h.imax - goodnessBase h e).toNat :=
  plotQQ_ok h hwf hidx hc hcn e he

/-- `esl_histogram_DeclareRounding` changes nothing but the flag -/
theorem declare_rounding_keeps_the_data (h : Hist ℚ) (vs : List ℚ) (acc : Accounts h vs) :
    Accounts h.declareRounding vs ∧ h.declareRounding.obs = h.obs ∧ h.declareRounding.isRounded = true :=
  declareRounding_accounts h vs acc

/-! ## Fits (the same model definitions read over ℝ)

Full statement of the property for the fits: *every* fitting routine returns a documented failure status or finite
parameters that maximise its log-likelihood. Proved below: exponential (global maximiser, unique in λ), Gumbel complete /
censored / fixed-λ (μ exact maximiser for the returned λ; λ stationary for the concave profile likelihood within the Newton
tolerance, hence (μ,λ) the global maximiser up to `n·10⁻⁵·|λ'-λ|`; termination). NOT proved (`partial`): binary64 rounding (L0);
the conjugate-gradient fits (Weibull, stretched exponential, truncated Gumbel, GEV) and the gamma generalized-Newton fit,
which are only monitored on the implementation's output. The log-normal `sigma` uses the `n-1` variance (not the ML `n`). -/

/-- `esl_exp_FitComplete` on non-empty data returns eslOK, `mu` = the smallest observation, `lambda = 1/(mean - mu)`. -/
theorem exp_fit_closed_form (xs : Array ℝ) (hn : 0 < xs.size) :
    ∃ mu : ℝ, expFitComplete xs = .res .ok #[mu, 1 / ((xs.toList.map (fun x => x - mu)).sum / xs.size)] ∧
      mu ∈ xs.toList ∧ ∀ x ∈ xs.toList, mu ≤ x :=
  expFitComplete_eq xs hn

/-- that pair is THE maximiser of the exponential log-likelihood `n log λ - λ Σ(xᵢ-μ)` over all admissible `μ' ≤ min xᵢ`, `λ' > 0`
    (data with two distinct values: `Σ(xᵢ - min) > 0`); `λ` is the unique maximiser at `μ = min xᵢ`. -/
theorem exp_fit_is_maximiser (xs : List ℝ) (mu : ℝ) (hmu : ∀ x ∈ xs, mu ≤ x) (hS : 0 < (xs.map (fun x => x - mu)).sum)
    (hn : 0 < xs.length) (mu' lam' : ℝ) (hmu' : mu' ≤ mu) (hl : 0 < lam') :
    llExp xs mu' lam' ≤ llExp xs mu (1 / ((xs.map (fun x => x - mu)).sum / xs.length)) ∧
    (llExp xs mu lam' = llExp xs mu (1 / ((xs.map (fun x => x - mu)).sum / xs.length)) → lam' = 1 / ((xs.map (fun x => x - mu)).sum / xs.length)) :=
  exp_fit_maximises xs mu hmu hS hn mu' lam' hmu' hl

example : (∀ x ∈ [(1 : ℝ), 3], (1 : ℝ) ≤ x) ∧ 0 < (([(1 : ℝ), 3]).map (fun x => x - 1)).sum := by
  constructor
  · intro x hx; simp at hx; rcases hx with rfl | rfl <;> norm_num
  · norm_num

/-- Gumbel, complete (`z = 0`) or left-censored data: for ANY `λ > 0` the location Lawless 4.1.5/4.2.3 computes is the exact
    maximiser of the log-likelihood in `μ`. -/
theorem gumbel_mu_is_maximiser (xs : List ℝ) (z phi lam : ℝ) (hn : 0 < xs.length) (hl : 0 < lam) (hS : 0 < gS xs z phi lam) (mu' : ℝ) :
    llGumbel xs z phi mu' lam ≤ llGumbel xs z phi (-(Real.log (gS xs z phi lam / xs.length)) / lam) lam :=
  gumbel_mu_maximises xs z phi lam hn hl hS mu'

example : 0 < gS [(0 : ℝ), 1] 0 0 1 := by
  unfold gS
  simp only [List.map_cons, List.map_nil, List.sum_cons, List.sum_nil, zero_mul, add_zero]
  positivity

/-- `lawless416` / `lawless422` (as coded) IS the derivative in `λ` of the profile log-likelihood, per sample. -/
theorem lawless_is_derivative (xs : List ℝ) (z phi lam : ℝ) (hn : 0 < xs.length) (hl : 0 < lam) (hS : 0 < gS xs z phi lam) :
    HasDerivAt (fun l => llGumbelProfile xs z phi l) (xs.length * lawlessF xs z phi lam) lam ∧
    llGumbelProfile xs z phi lam = llGumbel xs z phi (-(Real.log (gS xs z phi lam / xs.length)) / lam) lam :=
  ⟨lawless_is_profile_derivative xs z phi lam hn hl hS, llGumbelProfile_eq xs z phi lam hn hl hS⟩

/-- `esl_gumbel_FitComplete` = eslOK ⇒ `|∂profile/∂λ| < n·10⁻⁵` at the returned `λ` and `μ` is the exact `μ`-maximiser for it. -/
theorem gumbel_complete_fit_stationary (xs : Array ℝ) (mu lam : ℝ) (h : gumbelFitComplete xs = .res .ok #[mu, lam]) :
    |lawlessF xs.toList 0 0 lam| < (1e-5 : ℝ) ∧ mu = -(Real.log (gS xs.toList 0 0 lam / xs.size)) / lam :=
  gumbelFitComplete_ok xs mu lam h

/-- the same for `esl_gumbel_FitCensored` (`z` values censored at `phi`). -/
theorem gumbel_censored_fit_stationary (xs : Array ℝ) (z : Int) (phi mu lam : ℝ) (h : gumbelFitCensored xs z phi = .res .ok #[mu, lam]) :
    |lawlessF xs.toList z phi lam| < (1e-5 : ℝ) ∧ mu = -(Real.log (gS xs.toList z phi lam / xs.size)) / lam :=
  gumbelFitCensored_ok xs z phi mu lam h

/-- The Gumbel profile log-likelihood lies below each of its tangents (it is concave in `λ`). -/
theorem gumbel_profile_concave (xs : List ℝ) (z phi lam lam' : ℝ) (hz : 0 ≤ z) (hn : 0 < xs.length) (hl : 0 < lam) (hl' : 0 < lam')
    (hS : 0 < gS xs z phi lam) (hS' : 0 < gS xs z phi lam') :
    llGumbelProfile xs z phi lam' ≤ llGumbelProfile xs z phi lam + xs.length * lawlessF xs z phi lam * (lam' - lam) :=
  profile_below_tangent xs z phi lam lam' hz hn hl hl' hS hS'

/-- **Gumbel complete-data fit = global likelihood maximiser up to the Newton tolerance.** If `esl_gumbel_FitComplete` returns eslOK
    with `(μ, λ)`, `λ > 0`, then for EVERY `μ'` and EVERY `λ' > 0`:  `logL(μ', λ') ≤ logL(μ, λ) + n·10⁻⁵·|λ' - λ|`. -/
theorem gumbel_complete_fit_near_optimal (xs : Array ℝ) (mu lam : ℝ) (h : gumbelFitComplete xs = .res .ok #[mu, lam]) (hl : 0 < lam)
    (mu' lam' : ℝ) (hl' : 0 < lam') :
    llGumbel xs.toList 0 0 mu' lam' ≤ llGumbel xs.toList 0 0 mu lam + xs.size * (1e-5 : ℝ) * |lam' - lam| :=
  gumbelFitComplete_near_optimal xs mu lam h hl mu' lam' hl'

/-- the same for censored data (`z ≥ 0` values censored at `phi`). -/
theorem gumbel_censored_fit_near_optimal (xs : Array ℝ) (z : Int) (hz : 0 ≤ z) (phi mu lam : ℝ)
    (h : gumbelFitCensored xs z phi = .res .ok #[mu, lam]) (hl : 0 < lam) (mu' lam' : ℝ) (hl' : 0 < lam') :
    llGumbel xs.toList z phi mu' lam' ≤ llGumbel xs.toList z phi mu lam + xs.size * (1e-5 : ℝ) * |lam' - lam| :=
  gumbelFitCensored_near_optimal xs z hz phi mu lam h hl mu' lam' hl'

/-- `esl_gumbel_FitCompleteLoc` / `FitCensoredLoc` return exactly that `μ`-maximiser for the caller's `λ`. -/
theorem gumbel_loc_fits_closed_form (xs : Array ℝ) (z : Int) (phi lam : ℝ) (hn : 1 < xs.size) :
    gumbelFitCompleteLoc xs lam = .res .ok #[-(Real.log (gS xs.toList 0 0 lam / xs.size)) / lam] ∧
    gumbelFitCensoredLoc xs z phi lam = .res .ok #[-(Real.log (gS xs.toList z phi lam / xs.size)) / lam] :=
  ⟨gumbelFitCompleteLoc_eq xs lam hn, gumbelFitCensoredLoc_eq xs z phi lam hn⟩

/-- `esl_lognormal_FitComplete` over ℝ (its Kahan summation is the plain sum): `mu` = mean of `log xᵢ` — which for ANY `σ` is the exact
    maximiser of the log-normal log-likelihood in `μ` (`lognormal_mu_is_maximiser`) — and `sigma² = Σ(log xᵢ - mu)²/(n-1)`, the
    unbiased variance: `√(n/(n-1))` times the likelihood maximiser `Σ(…)²/n`, by the routine's design (not the ML estimate). -/
theorem lognormal_fit_closed_form (xs : Array ℝ) :
    lognormalFitComplete xs = .res .ok #[(xs.toList.map Real.log).sum / xs.size,
      Real.sqrt ((xs.toList.map (fun x => (Real.log x - (xs.toList.map Real.log).sum / xs.size) * (Real.log x - (xs.toList.map Real.log).sum / xs.size))).sum / ((xs.size : ℝ) - 1))] :=
  lognormalFitComplete_eq xs

theorem lognormal_mu_is_maximiser (a : List ℝ) (hn : 0 < a.length) (mu' : ℝ) :
    (a.map (fun x => (x - a.sum / a.length) * (x - a.sum / a.length))).sum ≤ (a.map (fun x => (x - mu') * (x - mu'))).sum :=
  mean_minimises_squares a hn mu'

/-- termination: Newton (100) and bisection (100) are capped in the code and total in the model; the one uncapped loop
    (`while (fx > 0.) right *= 2.`) ends within 2200 rounds whenever `right > 0` and `right·2²¹⁹⁹ > 1000` (every positive binary64),
    and `FitCensored` refuses `right ≤ 0` (commit b44f0f8) — the model's `.hang` outcome is unreachable. -/
theorem gumbel_fits_terminate (f : ℝ → ℝ × ℝ) (variance : ℝ) (b : Bool)
    (hr : b = true ∨ 0 < piConst / Num.sqrt ((6.0 : ℝ) * variance))
    (hbig : 0 < piConst / Num.sqrt ((6.0 : ℝ) * variance) → 1000 < piConst / Num.sqrt ((6.0 : ℝ) * variance) * 2 ^ 2199) :
    gumbelLambda f variance b ≠ .fault :=
  gumbelLambda_no_hang f variance b hr hbig

/-! ## The conjugate-gradient fits (model `Minimizer.lean` + `FitCG.lean`, compared with the C code on every run)

(Also modelled and compared: the gamma generalized-Newton fits and the count-histogram fits.) For these routines the property is claimed as: always a documented status, the location is the smallest observation, and a
return of eslOK means the optimiser's stopping rule held. That the point reached is the global likelihood maximiser is NOT a
theorem (monitored on the implementation: local pattern search + recovery on exact quantile grids). -/

/-- `esl_min_ConjugateGradientDescent`, for EVERY objective, gradient, configuration, start point and numeric class: the outcome is a
    status in {eslOK, eslENOHALT, eslERANGE, eslENORESULT}; eslOK ⇒ the stopping rule held (zero start gradient, or
    `esl_DCompare(fx, oldfx, cg_rtol, cg_atol)`, or a zero conjugate direction) and `fx` is finite; failures carry no "converged" claim. -/
theorem cg_return_means_stopping_rule {α : Type} [Num α] (cfg : MinCfg α) (f : Array α → α) (df : Option (Array α → Array α)) (x0 : Array α) :
    CGPost cfg (cgd cfg f df x0) :=
  cgd_post cfg f df x0

/-- termination: the main loop (`max_iterations`) and `bracket()` (`brack_maxiter`) are capped in the code and total in the model; the one
    uncapped loop is `brent()`'s `while (1)`: the model's `.hang` outcome arises ONLY from a line search exceeding 4·10⁸ passes
    (never observed; the C side is watched by a timer). Since bad2f4e a non-finite interval ends that loop at once. -/
theorem cg_hangs_only_in_brent {α : Type} [Num α] (cfg : MinCfg α) (f : Array α → α) (df : Option (Array α → Array α)) (x0 : Array α)
    (h : (cgd cfg f df x0).1 = .hang) : ∃ (fline : α → α) (a b : α), brentCG cfg fline a b = none :=
  cgd_hang cfg f df x0 h

/-- `esl_wei_FitComplete` and `esl_sxp_FitComplete`: documented status, `mu = esl_vec_DMin(x)`, eslOK ⇒ stopping rule. -/
theorem weibull_sxp_fit_post {α : Type} [Num α] (xs : Array α) (st : St) (ps : Array α) :
    (weiFitComplete xs = .res st ps →
      (st = .ok ∨ st = .enohalt ∨ st = .erange ∨ st = .enoresult) ∧ ps.getD 0 Num.zero = vmin xs ∧ ps.size = 3 ∧
      (st = .ok → (weiCG xs).2.2 = .converged ∨ (weiCG xs).2.2 = .zeroDirection ∨ (weiCG xs).2.2 = .zeroGradient)) ∧
    (sxpFitComplete xs = .res st ps →
      (st = .ok ∨ st = .enohalt ∨ st = .erange ∨ st = .enoresult) ∧ ps.getD 0 Num.zero = vmin xs ∧ ps.size = 3 ∧
      (st = .ok → (sxpCG xs).2.2 = .converged ∨ (sxpCG xs).2.2 = .zeroDirection ∨ (sxpCG xs).2.2 = .zeroGradient)) :=
  ⟨weiFit_post xs st ps, sxpFit_post xs st ps⟩

/-- `esl_gumbel_FitTruncated`: status in {eslOK, eslEINVAL (n ≤ 1), eslENORESULT (all values equal, or no convergence), eslERANGE};
    every failure returns `(0, 0)`; eslOK ⇒ stopping rule. -/
theorem truncated_gumbel_fit_post {α : Type} [Num α] (xs : Array α) (phi : α) (st : St) (ps : Array α)
    (h : gumbelFitTruncated xs phi = .res st ps) :
    (st = .ok ∨ st = .einval ∨ st = .enoresult ∨ st = .erange) ∧ ps.size = 2 ∧ (st ≠ .ok → ps = #[Num.zero, Num.zero]) ∧
    (st = .ok → (tevdCG xs phi).2 = .converged ∨ (tevdCG xs phi).2 = .zeroDirection ∨ (tevdCG xs phi).2 = .zeroGradient) :=
  gumbelFitTruncated_post xs phi st ps h

/-- `esl_wei_FitCompleteBinned`: documented status, documented location (`phi` after `SetExpectedTail` (`is_tailfit`), else `xmin`, or
    `LBound(imin)` for rounded data). -/
theorem weibull_binned_fit_post {α : Type} [Num α] (h : Hist α) (tailfit : Bool) (st : St) (ps : Array α) (hr : weiFitCompleteBinned h tailfit = .res st ps) :
    (st = .ok ∨ st = .enohalt ∨ st = .erange ∨ st = .enoresult) ∧ ps.size = 3 ∧
    ps.getD 0 Num.zero = (if tailfit then h.phi else if h.isRounded then h.lbound h.imin else h.xmin) :=
  weiFitBinned_post h tailfit st ps hr

/-- `esl_gam_FitCompleteBinned` (moments of the bin midpoints, then ≤100 bracketing and ≤100 bisection steps on `tau_function`): total;
    status in {eslOK, eslEINVAL, eslENOHALT}. -/
theorem gamma_binned_fit_post {α : Type} [Num α] (h : Hist α) (st : St) (ps : Array α) (hr : gamFitCompleteBinned h = .res st ps) :
    (st = .ok ∨ st = .einval ∨ st = .enohalt) ∧ ps.size = 3 :=
  gamFitBinned_post h st ps hr

/-- the gamma fits (`esl_gam_FitComplete`, `esl_gam_FitCountHistogram` via `gam_fitting_engine`, generalized Newton): at most 100 rounds
    (total), status in {eslOK, eslENOHALT, eslERANGE}; eslOK ⇒ `(lambda, tau) = (tau/xbar, tau)` and both stopping tests
    `esl_DCompare(old_tau, tau, 1e-6, 1e-6)`, `esl_DCompare(old_fx, fx, 1e-6, 1e-6)` held. -/
theorem gamma_engine_post {α : Type} [Num α] (xbar logxbar : α) (st : St) (ps : Array α) (h : gamFittingEngine xbar logxbar = .res st ps) :
    (st = .ok ∨ st = .enohalt ∨ st = .erange) ∧ ps.size = 2 ∧
    (st = .ok → ∃ tau oldtau fx oldfx : α, ps = #[tau / xbar, tau] ∧ dcompare oldtau tau (1e-6 : α) (1e-6 : α) = true ∧
        dcompare oldfx fx (1e-6 : α) (1e-6 : α) = true) :=
  gamFittingEngine_post xbar logxbar st ps h


/-! ## The solvers themselves: `esl_rootfinder.c` and the line searches of `esl_minimizer.c` (models `Rootfinder.lean`, `Minimizer.lean`;
driven bit-for-bit against the C functions — including the static `bracket()` and `brent()` — on shared objective families) -/

/-- `esl_root_Bisection`, every function, configuration and numeric class (binary64 included): total — at most `max_iter - R->iter` rounds —
    with status eslOK, eslEINVAL (`f(xl)·f(xr) ≥ 0`; `*ret_x = 0`, counter untouched) or eslENOHALT (`*ret_x = 0`, `R->iter = max_iter + 1`). -/
theorem bisection_total_documented_status {α : Type} [Num α] (cfg : RootCfg α) (f : α → α) (iter0 : Int) (xl xr : α) :
    let r := rootBisection cfg f iter0 xl xr
    r.st = .ok ∨ (r.st = .einval ∧ r.x = Num.zero ∧ r.iter = iter0 ∧ Num.geb (f xl * f xr) Num.zero = true) ∨
    (r.st = .enohalt ∧ r.x = Num.zero ∧ r.iter = iter0 + (cfg.maxIter - iter0).toNat + 1) :=
  rootBisection_status cfg f iter0 xl xr

/-- **Bisection keeps the root bracketed and halves the bracket** (ℝ; any function, continuous or not). From `xl < xr`: eslEINVAL iff
    `f(xl)·f(xr) ≥ 0`; otherwise the final `R->xl < R->xr` lie inside `[xl, xr]`, still satisfy `f(R->xl)·f(R->xr) < 0`, and after `j` narrowing
    steps `(R->xr - R->xl)·2^j = xr - xl`; eslOK ⇒ `*ret_x` is the midpoint of that bracket and the stopping rule held; eslENOHALT ⇒ all
    `max_iter - iter` rounds were used. -/
theorem bisection_keeps_root_bracketed (cfg : RootCfg ℝ) (f : ℝ → ℝ) (iter0 : Int) (xl xr : ℝ) (hlt : xl < xr) :
    let r := rootBisection cfg f iter0 xl xr
    (0 ≤ f xl * f xr ∧ r.st = .einval) ∨
    (f xl * f xr < 0 ∧ f r.xl * f r.xr < 0 ∧ xl ≤ r.xl ∧ r.xr ≤ xr ∧ r.xl < r.xr ∧
      ∃ j : Nat, j ≤ (cfg.maxIter - iter0).toNat ∧ (r.xr - r.xl) * 2 ^ j = xr - xl ∧ r.iter = iter0 + j + 1 ∧
        ((r.st = .ok ∧ r.x = (r.xl + r.xr) / 2 ∧ (f r.x = 0 ∨ r.xr - r.xl < bisTol cfg r.xl r.xr r.x ∨ |f r.x| < cfg.residTol)) ∨
         (r.st = .enohalt ∧ j = (cfg.maxIter - iter0).toNat ∧ r.x = 0))) := by
  simp only []
  unfold rootBisection
  simp only []
  by_cases h : 0 ≤ f xl * f xr
  · have : Num.geb (f xl * f xr) (Num.zero : ℝ) = true := by rw [geb_r, zero_r]; exact h
    simp only [this, if_true]
    exact Or.inl ⟨h, trivial⟩
  · have : Num.geb (f xl * f xr) (Num.zero : ℝ) = false := by
      rw [Bool.eq_false_iff]; intro hc; rw [geb_r, zero_r] at hc; exact h hc
    simp only [this, Bool.false_eq_true, if_false]
    exact Or.inr ⟨not_le.1 h, bisectionLoop_spec cfg f _ iter0 xl xr hlt (not_le.1 h)⟩

example : (-1 : ℝ) < 1 ∧ (fun x : ℝ => x) (-1) * (fun x : ℝ => x) 1 < 0 := by norm_num

/-- `esl_root_NewtonRaphson`, every function, configuration and numeric class: total (at most `max_iter - R->iter` steps); eslOK exactly through
    the stopping rule (`f(x) == 0`, or `|x - x0|` below the step threshold, or `|f(x)| < residual_tol`), otherwise eslENOHALT. -/
theorem newton_root_total_documented_status {α : Type} [Num α] (cfg : RootCfg α) (fdf : α → α × α) (iter0 : Int) (x0 guess : α) :
    let r := rootNewton cfg fdf iter0 x0 guess
    (r.st = .ok ∧ (Num.eqb (fdf r.x).1 Num.zero = true ∨
        (Num.ltb (Num.abs (r.x - r.xl)) (newtonTol cfg r.x) || Num.ltb (Num.abs (fdf r.x).1) cfg.residTol) = true)) ∨
    (r.st = .enohalt ∧ r.iter = iter0 + (cfg.maxIter - iter0).toNat + 1) :=
  rootNewton_status cfg fdf iter0 x0 guess

/-- **Bisection succeeds wherever the root lies** (ℝ, any function; the repair 8354c02 removed the implicit "root must be positive" condition):
    `abs_tolerance > 0`, `rel_tolerance ≥ 0`, `xl < xr` with a sign change, and enough rounds left that `xr - xl < abs_tolerance·2^k`
    (`k + 1 ≤ max_iter - R->iter`; 100 rounds and 1e-12 cover every bracket narrower than 6·10¹⁷) ⇒ eslOK, `*ret_x` is the midpoint of a
    sub-bracket of `[xl, xr]` across which `f` still changes sign. -/
theorem bisection_converges (cfg : RootCfg ℝ) (f : ℝ → ℝ) (iter0 : Int) (xl xr : ℝ) (k : Nat) (ha : 0 < cfg.absTol) (hr : 0 ≤ cfg.relTol)
    (hlt : xl < xr) (hs : f xl * f xr < 0) (hk : (cfg.maxIter - iter0).toNat = k + 1) (hw : xr - xl < cfg.absTol * 2 ^ k) :
    let r := rootBisection cfg f iter0 xl xr
    r.st = .ok ∧ r.x = (r.xl + r.xr) / 2 ∧ xl ≤ r.xl ∧ r.xr ≤ xr ∧ r.xl < r.xr ∧ f r.xl * f r.xr < 0 := by
  have hb := bisection_keeps_root_bracketed cfg f iter0 xl xr hlt
  simp only [] at hb ⊢
  have hok : (rootBisection cfg f iter0 xl xr).st = .ok := by
    unfold rootBisection
    simp only []
    have : Num.geb (f xl * f xr) (Num.zero : ℝ) = false := by
      rw [Bool.eq_false_iff]; intro hc; rw [geb_r, zero_r] at hc; linarith
    simp only [this, Bool.false_eq_true, if_false]
    rw [hk]
    exact bisectionLoop_converges cfg f ha hr k iter0 xl xr _ _ hw
  rcases hb with ⟨h1, _⟩ | ⟨_, a, b, c, d, j, _, _, _, hcase⟩
  · exfalso; linarith
  · rcases hcase with ⟨_, hx, _⟩ | ⟨he, _, _⟩
    · exact ⟨hok, hx, b, c, d, a⟩
    · rw [hok] at he; cases he

example : (0 : ℝ) < (RootCfg.default : RootCfg ℝ).absTol ∧ (0 : ℝ) ≤ (RootCfg.default : RootCfg ℝ).relTol := by
  constructor <;> (simp only [RootCfg.default]; norm_num)

/-- regression theorem for 8354c02, exact arithmetic: `x² - 2` on `[-3,-1]` converges exactly as on `[1,3]` (mirror-image roots) -/
theorem bisection_negative_root_regression :
    (rootBisection (RootCfg.default : RootCfg ℚ) sq2 0 (-3) (-1)).st = .ok ∧
    (rootBisection (RootCfg.default : RootCfg ℚ) sq2 0 1 3).st = .ok ∧
    (rootBisection (RootCfg.default : RootCfg ℚ) sq2 0 (-3) (-1)).x = -(rootBisection (RootCfg.default : RootCfg ℚ) sq2 0 1 3).x :=
  bisection_negative_root_converges

/-- **`bracket()` post-condition** (ℝ; any line function `t ↦ f(ori + t·d)`, any non-zero first step, any `brack_maxiter`): a returned triplet has
    `a < b < c`, carries the function values at those abscissae, `f(b) ≤ f(a)`, `f(b) ≤ f(c)`, and `f(b) ≤ f(0)` — the middle point is never
    worse than the point the line search starts from. (No result ⇒ eslENORESULT after `brack_maxiter + 1` rounds; total by the cap.) -/
theorem bracket_postcondition (cfg : MinCfg ℝ) (fline : ℝ → ℝ) (firststep : ℝ) (hfs : firststep ≠ 0) (b : Bracket ℝ)
    (h : bracketCG cfg fline (fline 0) firststep = some b) :
    b.ax < b.bx ∧ b.bx < b.cx ∧ (b.fa = fline b.ax ∧ b.fb = fline b.bx ∧ b.fc = fline b.cx) ∧
    b.fb ≤ b.fa ∧ b.fb ≤ b.fc ∧ b.fb ≤ fline 0 :=
  bracketCG_spec cfg fline firststep hfs b h

/-- **`brent()` descends from ITS start point** (ℝ; any line function, any interval and tolerances): the returned `fx` is the line function at the
    returned abscissa and `fx ≤ f(a + c·(b-a))`, the golden-section point the search starts from. That point is not `bracket()`'s `bx`. -/
theorem brent_descends_from_its_start (cfg : MinCfg ℝ) (fline : ℝ → ℝ) (a b x fx : ℝ) (h : brentCG cfg fline a b = some (x, fx)) :
    fx = fline x ∧ fx ≤ fline (a + goldC * (b - a)) :=
  brentCG_descent cfg fline a b x fx h

/-- what happens on NaN/∞ input (the non-termination repaired in bad2f4e), every numeric class: a non-finite interval midpoint or start point
    ends `brent()` at once with `fx = +inf` (which `esl_min_ConjugateGradientDescent` turns into eslERANGE). -/
theorem brent_nonfinite_interval_exits {α : Type} [Num α] (cfg : MinCfg α) (fline : α → α) (a b : α)
    (h : Num.isFinite ((0.5 : α) * (a + b)) = false ∨ Num.isFinite (a + goldC * (b - a)) = false) :
    brentCG cfg fline a b = some (a + goldC * (b - a), Num.one / Num.zero) :=
  brent_nonfinite_exit cfg fline a b h

/-- **`*opt_fx` is the objective at the returned point**: whenever `esl_min_ConjugateGradientDescent` answers eslOK or eslENOHALT, `fx = f(x)`
    — every objective, gradient, configuration, start point, and every numeric class in which `1/0` tests non-finite (binary64) or in which
    nothing is non-finite (ℝ, ℚ). (`max_iterations < 1`: `f(x0)` since 6da6a89; before, an uninitialised stack slot.) -/
theorem cg_value_is_objective_at_result {α : Type} [Num α] (hinf : InfOK α) (cfg : MinCfg α) (f : Array α → α)
    (df : Option (Array α → Array α)) (x0 : Array α) (st : St) (x : Array α) (fx : α)
    (h : (cgd cfg f df x0).1 = .res st x fx) (hst : st = .ok ∨ st = .enohalt) : fx = f x :=
  cgd_value hinf cfg f df x0 st x fx h hst

example : InfOK ℝ := infOK_r

/-- **DESCENT IS NOT A PROPERTY OF THE CODE.** Exact arithmetic, default configuration: started at the global minimiser `0` of the needle
    `f(0) = 0, f(x) = 1 + 2x (x > 0), 1 - x (x < 0)`, `esl_min_ConjugateGradientDescent` returns eslOK with `fx > f(x0)`. What IS proved:
    `bracket_postcondition` (`f(bx) ≤ f(start)`) and `brent_descends_from_its_start`; the gap is that `brent()` restarts from the golden-section
    point of `[ax, cx]` instead of `bx`. Reproduced bit-for-bit by the C code (corpus `cgd-not-a-descent-method`). -/
theorem cg_is_not_a_descent_method : cgWorse (cgd (MinCfg.null : MinCfg ℚ) needle1 none #[0]).1 (needle1 #[0]) = true :=
  cgd_needle_worse_than_start

/-! ### round 4: the run statistics (`ESL_MIN_DAT`), the iteration bound, and where descent can fail -/

/-- the driver prints — and the check compares with the C code's `ESL_MIN_DAT` table (`niter`, `fx[]`, `brack_n[]`, `brent_n[]`, `nfunc[]`) —
    the statistics of `cgdT`; dropping the statistics gives exactly `cgd`, the function all theorems here are about. Every numeric class. -/
theorem cg_statistics_are_of_the_proved_run {α : Type} [Num α] (cfg : MinCfg α) (f : Array α → α) (df : Option (Array α → Array α)) (x0 : Array α) :
    (cgdT cfg f df x0).1 = cgd cfg f df x0 :=
  cgdT_fst cfg f df x0

/-- **termination within `max_iterations`**, every objective / gradient / configuration / start / numeric class: the table has at most
    `max_iterations` completed rows and every `bracket()` call used at most `brack_maxiter` extension rounds (`brent()`: see
    `cg_hangs_only_in_brent`); with `cg_return_means_stopping_rule`: the status is eslENOHALT exactly when the rows ran out. -/
theorem cg_terminates_within_max_iterations {α : Type} [Num α] (cfg : MinCfg α) (f : Array α → α) (df : Option (Array α → Array α)) (x0 : Array α) :
    (cgdT cfg f df x0).2.rows.length ≤ cfg.maxIter ∧ ∀ r ∈ (cgdT cfg f df x0).2.rows, r.brackN ≤ cfg.brackMaxIter :=
  cgdT_bounds cfg f df x0

/-- **Monotone descent, as far as it is true.** Full statement wanted: `*opt_fx ≤ f(x₀)` for every run. That is false
    (`cg_is_not_a_descent_method`). Proved (ℝ, every objective, gradient, configuration, start): on eslOK / eslENOHALT either
    `*opt_fx ≤ f(x₀)`, or the run contains a line search in which `brent()` returned a value strictly above the `f(bx)` that `bracket()`
    had just found on the same line (`bx` is never worse than the line's origin: `bracket_postcondition`). So the one and only way to
    lose ground is `brent()` restarting from the golden-section point of `[ax, cx]` instead of from `bx`. The C side's `fx[]` trace is
    compared with the model's on every run and the number of non-monotone traces is reported in the evidence. -/
theorem cg_descends_unless_brent_loses_the_bracket_point (cfg : MinCfg ℝ) (f : Array ℝ → ℝ) (df : Option (Array ℝ → Array ℝ)) (x0 : Array ℝ)
    (st : St) (x : Array ℝ) (fx : ℝ) (h : (cgd cfg f df x0).1 = .res st x fx) (hst : st = .ok ∨ st = .enohalt) :
    fx ≤ f x0 ∨ BrentLostBracketPoint cfg :=
  cgd_descent cfg f df x0 st x fx h hst

/-- non-vacuity: `max_iterations = 0` on `f(x) = x₀·x₀` (numeric gradient non-zero at 1) returns eslENOHALT with `fx = f(x₀)` -/
example : (cgd ({ (MinCfg.null : MinCfg ℝ) with maxIter := 0 }) (fun x => x.getD 0 0 * x.getD 0 0) (some (fun x => #[2 * x.getD 0 0])) #[1]).1
    = .res .enohalt #[1] 1 := by
  have h : ¬ ((1.0 : ℝ) = 0) := by norm_num
  simp [cgd, cgLoop, negGradient, allZero, Num.isFinite, h]

/-! ### round 4: the Weibull and gamma likelihoods (what the conjugate-gradient / generalized-Newton fits optimise)

Full statement of the property for these fits: the returned `(λ, τ)` maximise the log-likelihood. Proved: what the objective is, its
derivatives, positivity of the returned parameters, and that stationarity ⇒ GLOBAL maximum for the Weibull (concavity in `(τ, τ log λ)`),
with an explicit bound on the shortfall in terms of the derivatives at the returned point. NOT proved (`_partial`): that the optimiser's
stopping rule (`esl_DCompare(fx, oldfx, 1e-5, 1e-10)`) makes those derivatives small — it tests the decrease of `f`, not the gradient. -/

/-- `wei_func` (the objective `esl_wei_FitComplete` hands to the optimiser) over ℝ: minus the Weibull log-likelihood, in `w = log λ` and
    `τ = exp v`, of the samples above `mu` (samples equal to `mu` are skipped when `τ ≠ 1`: the code's convention since 935fded). -/
theorem weibull_objective_is_neg_loglik (xs : Array ℝ) (mu w v : ℝ) (hmu : ∀ x ∈ xs.toList, mu ≤ x) (hv : Real.exp v ≠ 1) :
    weiFunc xs mu #[w, v] = -(llWei ((xs.toList.filter (fun x => decide (x ≠ mu))).map (fun x => Real.log (x - mu))) w (Real.exp v)) :=
  weiFunc_eq xs mu w v hmu hv

example : (∀ x ∈ (#[(1 : ℝ), 2, 4] : Array ℝ).toList, (1 : ℝ) ≤ x) ∧ Real.exp (1 : ℝ) ≠ 1 := by
  constructor
  · intro x hx; simp at hx; rcases hx with rfl | rfl | rfl <;> norm_num
  · intro h; have := Real.add_one_le_exp (1 : ℝ); linarith

/-- the partial derivatives of the Weibull log-likelihood in `log λ` and in `τ` (`HasDerivAt`, any data) -/
theorem weibull_loglik_derivatives (ls : List ℝ) (w tau : ℝ) (ht : 0 < tau) :
    HasDerivAt (fun w => llWei ls w tau) (llWeiDw ls w tau) w ∧ HasDerivAt (fun t => llWei ls w t) (llWeiDtau ls w tau) tau :=
  ⟨llWei_hasDerivAt_w ls w tau, llWei_hasDerivAt_tau ls w tau ht⟩

/-- **Weibull: the distance of ANY point from the global maximum is bounded by its derivatives** (concavity in `(τ, θ = τ log λ)`): for
    every data set, every `(w, τ)`, `τ > 0`, and every competitor `(w', τ')`, `τ' > 0`:
    `logL(w', τ') ≤ logL(w, τ) + (∂τ - w·∂w/τ)(τ' - τ) + (∂w/τ)(τ'w' - τw)`. -/
theorem weibull_fit_optimality_certificate (ls : List ℝ) (w tau w' tau' : ℝ) (ht : 0 < tau) (ht' : 0 < tau') :
    llWei ls w' tau' ≤ llWei ls w tau + (llWeiDtau ls w tau - w * (llWeiDw ls w tau / tau)) * (tau' - tau)
      + (llWeiDw ls w tau / tau) * (tau' * w' - tau * w) :=
  llWei_near_optimal ls w tau w' tau' ht ht'

/-- **Weibull: a stationary point is THE global maximum** — whatever the data, the likelihood has no other local maxima, saddle points
    or plateaus for the optimiser to stop at. (That the conjugate-gradient result IS stationary is the part not proved: `_partial`.) -/
theorem weibull_stationary_is_global_maximiser_partial (ls : List ℝ) (w tau : ℝ) (ht : 0 < tau) (hw : llWeiDw ls w tau = 0)
    (hτ : llWeiDtau ls w tau = 0) (w' tau' : ℝ) (ht' : 0 < tau') : llWei ls w' tau' ≤ llWei ls w tau :=
  llWei_stationary_is_max ls w tau ht hw hτ w' tau' ht'

/-- **…and it is the ONLY maximiser** (at least one sample above `mu`): every other admissible `(w', τ')` has a strictly smaller log-likelihood. -/
theorem weibull_stationary_point_is_unique_maximiser_partial (ls : List ℝ) (hls : ls ≠ []) (w tau : ℝ) (ht : 0 < tau) (hw : llWeiDw ls w tau = 0)
    (hτ : llWeiDtau ls w tau = 0) (w' tau' : ℝ) (ht' : 0 < tau') (hne : tau' ≠ tau ∨ w' ≠ w) : llWei ls w' tau' < llWei ls w tau :=
  llWei_stationary_unique ls hls w tau ht hw hτ w' tau' ht' hne

/-- the reparameterisation the code relies on: whatever the optimiser returns, `esl_wei_FitComplete` and `esl_sxp_FitComplete` hand back
    `mu` = the smallest observation, `lambda = exp(p[0]) > 0` and `tau = exp(p[1]) > 0` (ℝ) -/
theorem weibull_sxp_fit_parameters_positive (xs : Array ℝ) (st : St) (ps : Array ℝ)
    (h : weiFitComplete xs = .res st ps ∨ sxpFitComplete xs = .res st ps) :
    ps.size = 3 ∧ ps.getD 0 0 = vmin xs ∧ 0 < ps.getD 1 0 ∧ 0 < ps.getD 2 0 := by
  rcases h with h | h
  · exact fit2Result_pos (weiCG xs).1 (weiCG xs).2 st ps h
  · exact fit2Result_pos (sxpCG xs).1 (sxpCG xs).2 st ps h

/-- gamma (`esl_gam_FitComplete`, `gam_fitting_engine`): for EVERY shape `τ > 0` the rate `λ = τ/x̄` the engine returns (`gamma_engine_post`)
    is THE maximiser in `λ` of the log-likelihood, and `gam_nll(τ)`, whose decrease the engine monitors, is minus that profile
    log-likelihood per sample. (`lg` stands for `logΓ(τ)`, a constant in `λ`.) Stationarity in `τ` involves the digamma function, which the
    code approximates by its own series (`esl_stats_Psi`): not proved. -/
theorem gamma_rate_is_maximiser (xbar logxbar lg tau lam : ℝ) (hx : 0 < xbar) (ht : 0 < tau) (hl : 0 < lam) :
    (llGam1 xbar logxbar lg lam tau ≤ llGam1 xbar logxbar lg (tau / xbar) tau ∧
      (llGam1 xbar logxbar lg lam tau = llGam1 xbar logxbar lg (tau / xbar) tau → lam = tau / xbar)) ∧
    gamNll xbar logxbar tau = some (-(llGam1 xbar logxbar (logGamma tau) (tau / xbar) tau)) :=
  ⟨gamma_rate_max xbar logxbar lg tau lam hx ht hl, gamNll_is_profile xbar logxbar tau hx ht⟩

/-- **`tevd_grad` IS the gradient of `tevd_func`** (`esl_gumbel_FitTruncated` — the one fit that gives the optimiser an analytic gradient). ℝ, any data,
    in the regime where neither routine takes a numerical shortcut (`λ(φ-μ) ≤ 50`; `|exp(-y)| ≥ 5e-9` and `|exp(-exp(-y))| ≥ 5e-9` in
    `esl_gumbel_surv/logsurv`): the objective is the truncated-Gumbel negative log-likelihood `tevdNll` in `(μ, w = log λ)`, and the two numbers
    `tevd_grad` returns are its partial derivatives. (Inside the shortcut branches the code uses asymptotic forms: not claimed.) -/
theorem truncated_gumbel_gradient_is_derivative (xs : Array ℝ) (phi mu w : ℝ)
    (h0 : ¬ (50 : ℝ) < Real.exp w * (phi - mu))
    (h1 : ¬ |-(Real.exp (-(Real.exp w * (phi - mu))))| < (5e-9 : ℝ))
    (h2 : ¬ |Real.exp (-(Real.exp (-(Real.exp w * (phi - mu)))))| < (5e-9 : ℝ)) :
    tevdFunc xs phi #[mu, w] = tevdNll xs.toList phi mu w ∧
    ∃ gm gw, tevdGrad xs phi #[mu, w] = #[gm, gw] ∧
      HasDerivAt (fun m => tevdNll xs.toList phi m w) gm mu ∧ HasDerivAt (fun v => tevdNll xs.toList phi mu v) gw w :=
  ⟨tevdFunc_eq xs phi mu w h1 h2, _, _, tevdGrad_eq xs phi mu w h0 h1, tevdNll_hasDerivAt_mu xs.toList phi mu w, tevdNll_hasDerivAt_w xs.toList phi mu w⟩

/-- non-vacuity: `φ = μ = 0`, `λ = 1` lies in that regime -/
example : ¬ (50 : ℝ) < Real.exp 0 * ((0 : ℝ) - 0) ∧ ¬ |-(Real.exp (-(Real.exp 0 * ((0 : ℝ) - 0))))| < (5e-9 : ℝ) ∧
    ¬ |Real.exp (-(Real.exp (-(Real.exp 0 * ((0 : ℝ) - 0)))))| < (5e-9 : ℝ) := tevd_regime_example

/-- **`esl_exp_FitCompleteBinned` returns THE maximiser of the binned exponential likelihood** (a binned-histogram variant of the property, at
    full strength over ℝ). Complete or virtually censored histogram whose evaluated bins `cmin..imax` lie inside `obs[]`, `w > 0`: eslOK, the
    documented `μ` (`xmin`; `LBound(imin)` for rounded data; `phi` for a tail), `λ = (1/w)(log(S + N·w) - log S)` with `S = Σ nᵢ(aᵢ-μ)`, `N = Σ nᵢ`,
    and for EVERY `λ' > 0` the binned log-likelihood `Σ nᵢ log(e^{-λ'(aᵢ-μ)} - e^{-λ'(aᵢ+w-μ)}) = -λ'S + N log(1 - e^{-λ'w})` is not larger than at `λ`. -/
theorem exp_binned_fit_is_maximiser (h : Hist ℝ) (hds : h.datasetIs ≠ .trueCensored) (hc : 0 ≤ h.cmin) (hcn : h.cmin ≤ h.obs.size)
    (hi : h.imax < h.obs.size) (hw : 0 < h.w) :
    let mu := match h.datasetIs with | .complete => if h.isRounded then h.lbound h.imin else h.xmin | _ => h.phi
    let k := (h.imax - h.cmin + 1).toNat
    let S := wsum h.obs (fun j => h.lbound j - mu) k h.cmin
    let N := wsum h.obs (fun _ => 1) k h.cmin
    expFitCompleteBinned h = .res .ok #[mu, 1 / h.w * (Real.log (S + N * h.w) - Real.log S)] ∧
    (0 < S → 0 < N → ∀ lam' : ℝ, 0 < lam' → llExpBinned S N h.w lam' ≤ llExpBinned S N h.w (1 / h.w * (Real.log (S + N * h.w) - Real.log S))) :=
  expFitCompleteBinned_max h hds hc hcn hi hw

/-- the closed form IS the per-bin likelihood: `log(e^{-λ(a-μ)} - e^{-λ(a+δ-μ)}) = -λ(a-μ) + log(1 - e^{-λδ})` (`λ, δ > 0`) -/
theorem exp_binned_loglik_closed_form (a mu delta lam : ℝ) (hl : 0 < lam) (hd : 0 < delta) :
    Real.log (Real.exp (-lam * (a - mu)) - Real.exp (-lam * (a + delta - mu))) = -lam * (a - mu) + Real.log (1 - Real.exp (-lam * delta)) :=
  log_bin_prob a mu delta lam hl hd

/-- over ℝ, `esl_vec_DMin` is the smallest observation (non-empty data) -/
theorem cg_fit_location_is_minimum (xs : Array ℝ) (hn : 0 < xs.size) : vmin xs ∈ xs.toList ∧ ∀ x ∈ xs.toList, vmin xs ≤ x := by
  have hx0 : xs.getD 0 Num.zero ∈ xs.toList := by
    rw [Array.getD_eq_getD_getElem?]
    have : xs[0]? = some xs[0] := by simp [hn]
    rw [this]; simp
  obtain ⟨⟨_, h2⟩, h3⟩ := foldl_min xs.toList (xs.getD 0 Num.zero)
  unfold vmin minOf
  rw [← Array.foldl_toList]
  exact ⟨h3.elim (fun e => by rw [e]; exact hx0) id, h2⟩

/-! ## round 6: stretched exponential and the binned Weibull objective -/

/-- `sxp_complete_func` (the objective `esl_sxp_FitComplete` hands to the optimiser) over ℝ, data `≥ mu`: minus the stretched-exponential
    log-likelihood `n(log λ + log τ - logΓ(1/τ)) - Σ (λ(xᵢ-μ))^τ` of ALL `n` samples, in `w = p[0] = log λ`, `τ = exp p[1]`, with the code's own
    `esl_stats_LogGamma` as `logΓ` (samples equal to `mu` contribute the normaliser only). -/
theorem sxp_objective_is_neg_loglik (xs : Array ℝ) (mu w v : ℝ) (hmu : ∀ x ∈ xs.toList, mu ≤ x) :
    sxpFunc xs mu #[w, v] = -(llSxp (logGamma (1 / Real.exp v)) (xs.size : ℝ)
        ((xs.toList.filter (fun x => decide (x ≠ mu))).map (fun x => Real.log (x - mu))) w (Real.exp v)) :=
  sxpFunc_eq xs mu w v hmu

example : ∀ x ∈ (#[(1 : ℝ), 2, 4] : Array ℝ).toList, (1 : ℝ) ≤ x := by
  intro x hx; simp at hx; rcases hx with rfl | rfl | rfl <;> norm_num

/-- **Stretched exponential, shape in `λ`** (any data, any shape `τ`, any normaliser): `llSxpDw` is `∂/∂ log λ` of the log-likelihood; the
    log-likelihood lies below each of its tangents in `log λ` (concave), so the shortfall in `λ` of ANY point is bounded by the derivative
    there; a rate where the derivative vanishes is a global maximiser in `λ`, and the only one when a sample lies above `μ` and `τ ≠ 0`. -/
theorem sxp_rate_is_maximiser (lg n : ℝ) (ls : List ℝ) (w tau : ℝ) :
    HasDerivAt (fun w => llSxp lg n ls w tau) (llSxpDw n ls w tau) w ∧
    (∀ w' : ℝ, llSxp lg n ls w' tau ≤ llSxp lg n ls w tau + llSxpDw n ls w tau * (w' - w)) ∧
    (llSxpDw n ls w tau = 0 → ∀ w' : ℝ, llSxp lg n ls w' tau ≤ llSxp lg n ls w tau) ∧
    (llSxpDw n ls w tau = 0 → ls ≠ [] → tau ≠ 0 → ∀ w' : ℝ, w' ≠ w → llSxp lg n ls w' tau < llSxp lg n ls w tau) :=
  ⟨llSxp_hasDerivAt_w lg n ls w tau, fun w' => llSxp_below_tangent_w lg n ls w tau w', fun hst w' => llSxp_rate_max lg n ls w tau hst w',
   fun hst hls ht w' hw => llSxp_rate_unique lg n ls hls w tau ht hst w' hw⟩

/-- **…and that rate in closed form**: `λ^τ = n / (τ Σ (xᵢ-μ)^τ)` (`n > 0`, `τ > 0`, a sample above `μ`) is the stationary — hence, by
    `sxp_rate_is_maximiser`, THE maximising — rate for the shape `τ`. -/
theorem sxp_rate_closed_form (n : ℝ) (ls : List ℝ) (tau : ℝ) (hn : 0 < n) (ht : 0 < tau)
    (hS : 0 < (ls.map (fun l => Real.exp (tau * l))).sum) :
    llSxpDw n ls (Real.log (n / (tau * (ls.map (fun l => Real.exp (tau * l))).sum)) / tau) tau = 0 :=
  llSxp_rate_closed_form n ls tau hn ht hS

example : (0 : ℝ) < 2 ∧ (0 : ℝ) < 1 ∧ 0 < (([(0 : ℝ), 1]).map (fun l => Real.exp (1 * l))).sum := by
  refine ⟨by norm_num, by norm_num, ?_⟩
  simp only [List.map_cons, List.map_nil, List.sum_cons, List.sum_nil]
  have := Real.exp_pos (1 * 0); have := Real.exp_pos (1 * 1); linarith

/-- **`wei_binned_func` (objective of `esl_wei_FitCompleteBinned`) = `-Σ_b obs[b]·log(F(ub_b) - F(max(lb_b, μ)))`** over ℝ, `F = esl_wei_cdf`
    at `(μ, λ = e^w, τ = e^v)`: minus the multinomial log-likelihood of the binned counts, for any histogram, bin list, `μ`, `w`, `v`, provided
    every occupied bin has positive probability (otherwise the code answers `eslINFINITY`). -/
theorem weibull_binned_objective_is_neg_loglik (h : Hist ℝ) (bins : List (Int × Nat)) (mu w v : ℝ)
    (hpos : ∀ ic ∈ bins, ic.2 ≠ 0 → 0 < weiBinProb h mu (Real.exp w) (Real.exp v) ic.1) :
    weiBinnedFunc h bins mu #[w, v] = -(llWeiBinned h bins mu (Real.exp w) (Real.exp v)) :=
  weiBinnedFunc_eq h bins mu w v hpos

/-- non-vacuity: a bin list without occupied bins satisfies the hypothesis for every histogram (and the objective is then `0`) -/
example (h : Hist ℝ) : ∀ ic ∈ [((3 : Int), (0 : Nat))], ic.2 ≠ 0 → 0 < weiBinProb h 0 (Real.exp 0) (Real.exp 0) ic.1 := by
  intro ic hic h0; simp at hic; subst hic; exact absurd rfl h0

/-- `esl_wei_cdf` over ℝ is the Weibull distribution function: `0` at and below `μ`; above, `1 - exp(-(λ(x-μ))^τ)` (written with
    `(λ(x-μ))^τ = exp(τ(log λ + log(x-μ)))`) outside the small-argument branch, and the first-order term `(λ(x-μ))^τ` inside it. -/
theorem weibull_cdf_is_distribution_function (x mu w tau : ℝ) :
    weiCdf x mu (Real.exp w) tau =
      if x ≤ mu then 0
      else if Real.exp (tau * (w + Real.log (x - mu))) < 5e-9 then Real.exp (tau * (w + Real.log (x - mu)))
      else 1 - Real.exp (-(Real.exp (tau * (w + Real.log (x - mu))))) :=
  weiCdf_r x mu w tau

/-! ## round 6: the generalized-extreme-value fits (`esl_gev.c`) -/

/-- `esl_gev_FitComplete` / `esl_gev_FitCensored` (`cens = some (z, phi)`), every data set and numeric class (binary64 with libm's `log1p`
    included): unless `brent()` hangs, the status is one of eslOK / eslENOHALT / eslERANGE / eslENORESULT, three parameters come back, and
    eslOK means the conjugate-gradient stopping rule held. -/
theorem gev_fit_post {α : Type} [Num α] [Log1p α] (xs : Array α) (cens : Option (Int × α)) (st : St) (ps : Array α)
    (h : gevFittingEngine xs cens = .res st ps) :
    (st = .ok ∨ st = .enohalt ∨ st = .erange ∨ st = .enoresult) ∧ ps.size = 3 ∧
    (st = .ok → (gevCG xs cens).2 = .converged ∨ (gevCG xs cens).2 = .zeroDirection ∨ (gevCG xs cens).2 = .zeroGradient) :=
  gevFit_post xs cens st ps h

/-- **`gev_func` is minus the GEV log-likelihood** (ℝ, `log1p x = log(1+x)`; complete data, every sample in the main branch of
    `esl_gev_logpdf`: `|αλ(x-μ)| ≥ 1e-12` and `1 + αλ(x-μ) > 0`): `Σ [log λ - (1+1/α)·log(1+αy) - exp(-log(1+αy)/α)]`, `y = λ(x-μ)`, `λ = e^w`. -/
theorem gev_objective_is_neg_loglik (xs : Array ℝ) (mu w a : ℝ) (h : ∀ x ∈ xs.toList, GevMain x mu w a) :
    gevFunc xs none #[mu, w, a] = gevNll xs.toList mu w a :=
  gevFunc_eq xs mu w a h

/-- **`gev_gradient` IS the gradient of `gev_func`** (ℝ; complete data, every sample in the main branch, `α ≠ 0`): the three components the
    code computes are the partial derivatives (`HasDerivAt`) of the objective in `μ`, in `w = log λ` and in `α`. -/
theorem gev_gradient_is_derivative (xs : Array ℝ) (mu w a : ℝ) (ha : a ≠ 0) (h : ∀ x ∈ xs.toList, GevMain x mu w a) :
    ∃ g0 g1 g2 : ℝ, gevGrad xs none #[mu, w, a] = #[g0, g1, g2] ∧
      HasDerivAt (fun m => gevNll xs.toList m w a) g0 mu ∧ HasDerivAt (fun v => gevNll xs.toList mu v a) g1 w ∧
      HasDerivAt (fun b => gevNll xs.toList mu w b) g2 a :=
  ⟨_, _, _, gevGrad_eq xs mu w a h, gevNll_hasDerivAt_mu xs.toList mu w a ha (fun x hx => (h x hx).2),
    gevNll_hasDerivAt_w xs.toList mu w a ha (fun x hx => (h x hx).2), gevNll_hasDerivAt_a xs.toList mu w a ha (fun x hx => (h x hx).2)⟩

/-- non-vacuity: `x = 1`, `μ = 0`, `λ = 1`, `α = 1` lies in the main branch (`αy = 1`, `1 + αy = 2`) -/
example : ∀ x ∈ (#[(1 : ℝ)] : Array ℝ).toList, GevMain x 0 0 1 := by
  intro x hx; simp at hx; subst hx
  unfold GevMain gevU
  simp only [Real.exp_zero]
  constructor
  · norm_num
  · norm_num

/-! ## round 6: `esl_sxp_FitCompleteBinned` -/

/-- `esl_sxp_FitCompleteBinned`, every histogram state and numeric class: documented status, three parameters, documented location (`phi`
    after `SetExpectedTail` (`is_tailfit`), else `xmin`, or `LBound(imin)` for rounded data). -/
theorem sxp_binned_fit_post {α : Type} [Num α] (h : Hist α) (tailfit : Bool) (st : St) (ps : Array α) (hr : sxpFitCompleteBinned h tailfit = .res st ps) :
    (st = .ok ∨ st = .enohalt ∨ st = .erange ∨ st = .enoresult) ∧ ps.size = 3 ∧
    ps.getD 0 Num.zero = (if tailfit then h.phi else if h.isRounded then h.lbound h.imin else h.xmin) :=
  sxpFitBinned_post h tailfit st ps hr

/-- **`sxp_complete_binned_func` = `-Σ_b obs[b]·log(F(ub_b) - F(max(lb_b, μ)))`** over ℝ, `F = esl_sxp_cdf` at `(μ, λ = e^w, τ = e^v)`: minus the
    multinomial log-likelihood of the binned counts, provided no occupied bin has probability exactly `0` (then the code answers `eslINFINITY`). -/
theorem sxp_binned_objective_is_neg_loglik (h : Hist ℝ) (bins : List (Int × Nat)) (mu w v : ℝ)
    (hpos : ∀ ic ∈ bins, ic.2 ≠ 0 → sxpBinProb h mu (Real.exp w) (Real.exp v) ic.1 ≠ 0) :
    sxpBinnedFunc h bins mu #[w, v] = -(llSxpBinned h bins mu (Real.exp w) (Real.exp v)) :=
  sxpBinnedFunc_eq h bins mu w v hpos

example (h : Hist ℝ) : ∀ ic ∈ [((3 : Int), (0 : Nat))], ic.2 ≠ 0 → sxpBinProb h 0 (Real.exp 0) (Real.exp 0) ic.1 ≠ 0 := by
  intro ic hic h0; simp at hic; subst hic; exact absurd rfl h0

/-! ## round 6: the gamma fit in the shape `τ` -/

/-- **Gamma: the likelihood equation in `τ`** (true Γ = Mathlib's `Real.Gamma`, `ψ = Γ'/Γ`): the profile log-likelihood `τ ↦ logL(λ = τ/x̄, τ)` per
    sample has derivative `log τ - log x̄ - ψ(τ) + mean log(x-μ)`, and for a fixed rate `λ` the derivative in `τ` is `log λ - ψ(τ) + mean log(x-μ)`. -/
theorem gamma_shape_likelihood_equation (xbar logxbar lam tau : ℝ) (hx : 0 < xbar) (ht : 0 < tau) :
    HasDerivAt (fun t => llGam1 xbar logxbar (Real.log (Real.Gamma t)) (t / xbar) t) (Real.log tau - Real.log xbar - digammaR tau + logxbar) tau ∧
    HasDerivAt (fun t => llGam1 xbar logxbar (Real.log (Real.Gamma t)) lam t) (Real.log lam - digammaR tau + logxbar) tau :=
  ⟨gamma_profile_hasDerivAt xbar logxbar tau hx ht, gamma_loglik_hasDerivAt_tau xbar logxbar lam tau ht⟩

example : (0 : ℝ) < 2 ∧ (0 : ℝ) < 1 := by norm_num

/-- **`gam_fitting_engine`'s iteration stops moving exactly at a root of its likelihood equation**: the update the model computes,
    `τ' = 1/(1/τ + g/d)` with `g = mean log(x-μ) - log x̄ + log τ - Ψ(τ)` and `d = τ - τ²Ψ'(τ) ≠ 0` (`Ψ`, `Ψ'` = whatever `esl_stats_Psi` /
    `esl_stats_Trigamma` return), satisfies `τ' = τ ↔ g = 0`. With `Ψ = ψ` that is `gamma_shape_likelihood_equation`'s derivative `= 0`;
    that the code's series equals `ψ` is NOT proved (`_partial`). -/
theorem gamma_engine_fixed_point_is_stationary_partial (xbar logxbar tau psi tg : ℝ) (hd : tau - tau * tau * tg ≠ 0) :
    (Num.one : ℝ) / (Num.one / tau + (logxbar - Num.log xbar + Num.log tau - psi) / (tau - tau * tau * tg)) = tau ↔
      logxbar - Real.log xbar + Real.log tau - psi = 0 := by
  rw [gamma_update_is_newton]; exact gamma_update_fixed_point tau _ _ hd

example : (2 : ℝ) - 2 * 2 * 1 ≠ 0 := by norm_num

/-- **`gev_func` on censored data** (`esl_gev_FitCensored`: `z` values censored at `φ`; ℝ, samples and `φ` in the main branch): the complete-data
    negative log-likelihood minus `z·log F(φ)` with `log F(φ) = -(1 + αλ(φ-μ))^(-1/α)`. -/
theorem gev_censored_objective_is_neg_loglik (xs : Array ℝ) (z : Int) (phi mu w a : ℝ) (h : ∀ x ∈ xs.toList, GevMain x mu w a)
    (hphi : GevMain phi mu w a) :
    gevFunc xs (some (z, phi)) #[mu, w, a] = gevNll xs.toList mu w a - (z : ℝ) * -Real.exp (-Real.log (gevU phi mu w a) / a) :=
  gevFunc_censored_eq xs z phi mu w a h hphi

/-- **Stretched exponential: the likelihood equation in `τ`** (true Γ = Mathlib's `Real.Gamma`, `ψ = Γ'/Γ`, any data, `τ > 0`): the derivative in `τ`
    of `n(log λ + log τ - logΓ(1/τ)) - Σ (λ(xᵢ-μ))^τ` is `n(1/τ + ψ(1/τ)/τ²) - Σ log(λ(xᵢ-μ))·(λ(xᵢ-μ))^τ`. (The code's `esl_stats_LogGamma` in place
    of `logΓ` is what `sxp_objective_is_neg_loglik` is about; that it approximates `logΓ` is not proved.) -/
theorem sxp_shape_likelihood_equation (n : ℝ) (ls : List ℝ) (w tau : ℝ) (ht : 0 < tau) :
    HasDerivAt (fun t => llSxp (Real.log (Real.Gamma (1 / t))) n ls w t) (llSxpDtau n ls w tau) tau :=
  llSxp_hasDerivAt_tau n ls w tau ht

example : (0 : ℝ) < 1 := by norm_num

/-- the reparameterisation `λ = exp(w)`: whatever the optimiser returns (any status), the GEV fits hand back a positive scale (ℝ) -/
theorem gev_fit_scale_positive (xs : Array ℝ) (cens : Option (Int × ℝ)) (st : St) (ps : Array ℝ) (h : gevFittingEngine xs cens = .res st ps) :
    0 < ps.getD 1 0 :=
  gevFit_scale_pos xs cens st ps h

/-- **`gev_gradient` IS the gradient of `gev_func` on censored data too** (`esl_gev_FitCensored`; ℝ, samples and `φ` in the main branch, `α ≠ 0`):
    objective `gevNll - z·log F(φ)` (`gev_censored_objective_is_neg_loglik`), and the three components the code computes are its partial
    derivatives in `μ`, `w = log λ`, `α`. -/
theorem gev_censored_gradient_is_derivative (xs : Array ℝ) (z : Int) (phi mu w a : ℝ) (ha : a ≠ 0) (h : ∀ x ∈ xs.toList, GevMain x mu w a)
    (hphi : GevMain phi mu w a) :
    ∃ g0 g1 g2 : ℝ, gevGrad xs (some (z, phi)) #[mu, w, a] = #[g0, g1, g2] ∧
      HasDerivAt (fun m => gevNll xs.toList m w a - (z : ℝ) * gevLogF phi m w a) g0 mu ∧
      HasDerivAt (fun v => gevNll xs.toList mu v a - (z : ℝ) * gevLogF phi mu v a) g1 w ∧
      HasDerivAt (fun b => gevNll xs.toList mu w b - (z : ℝ) * gevLogF phi mu w b) g2 a := by
  have hp : ∀ x ∈ xs.toList, 0 < gevU x mu w a := fun x hx => (h x hx).2
  refine ⟨_, _, _, gevGrad_censored_eq xs z phi mu w a h hphi, ?_, ?_, ?_⟩
  · exact ((gevNll_hasDerivAt_mu xs.toList mu w a ha hp).sub ((gevLogF_hasDerivAt_mu phi mu w a ha hphi.2).const_mul (z : ℝ))).congr_deriv (by ring)
  · exact ((gevNll_hasDerivAt_w xs.toList mu w a ha hp).sub ((gevLogF_hasDerivAt_w phi mu w a ha hphi.2).const_mul (z : ℝ))).congr_deriv (by ring)
  · exact ((gevNll_hasDerivAt_a xs.toList mu w a ha hp).sub ((gevLogF_hasDerivAt_a phi mu w a ha hphi.2).const_mul (z : ℝ))).congr_deriv (by ring)

/-- the `"%f"` model behind the byte-exact tie of `esl_histogram_Plot`'s text (`Stats/Format.lean`) rounds the exact binary value half-even to six
    decimals: `2⁻⁷ = 0.0078125 ↦ 0.007812` (tie, even), `3·2⁻⁷ = 0.0234375 ↦ 0.023438` (tie, odd), `2⁻¹⁰ = 0.0009765625 ↦ 0.000977`, `-2.5`;
    NaN/∞ are not bin bounds -/
theorem plot_number_format_rounds_half_even :
    fmtFBits 0x3f80000000000000 = some "0.007812" ∧ fmtFBits 0x3f98000000000000 = some "0.023438" ∧ fmtFBits 0x3f50000000000000 = some "0.000977" ∧
    fmtFBits 0xc004000000000000 = some "-2.500000" ∧ fmtFBits 0x7ff0000000000000 = none := by decide

/-! ## round 6b: the exponential TAIL fit in terms of the raw data -/

/-- **`esl_histogram_SetTail(phi)` followed by `esl_exp_FitCompleteBinned` is the maximum-likelihood fit of exactly the accepted values above the
    threshold** — whatever was added before, however the histogram grew, with occupied bins below the threshold or not. `SetTail` succeeds with the
    bin boundary `φ' ∈ (phi - w, phi]`; if `φ'` is not above every occupied bin, the fit on the resulting histogram (the exact histogram read over ℝ,
    `Hist.toR`) answers eslOK, location `φ'`, `λ = (1/w)(log(S + N·w) - log S)` with `N` = the NUMBER OF ACCEPTED VALUES `> φ'` (the bins below
    `cmin` contribute nothing) and `S = Σ_{b ≥ cmin} obs[b]·(LBound(b) - φ')`; that `λ` maximises `-λ'S + N log(1 - e^{-λ'w})` over all `λ' > 0`. -/
theorem exp_tail_fit_is_ml_of_the_raw_tail (h : Hist ℚ) (vs : List ℚ) (acc : Accounts h vs) (phi : ℚ) (hfin : |phi| ≤ dblMaxQ)
    (hr : -2147483648 ≤ ⌈(phi - h.bmin) / h.w - 1⌉ ∧ ⌈(phi - h.bmin) / h.w - 1⌉ < 2147483647) :
    ∃ h' mass, h.setTail phi = .val (.ok, h', mass) ∧ h'.phi ≤ phi ∧ phi - h'.phi < h.w ∧
      (h'.cmin ≤ h.imax + 1 →
        let hR := h'.toR
        let k := (hR.imax - hR.cmin + 1).toNat
        let S := wsum hR.obs (fun j => hR.lbound j - hR.phi) k hR.cmin
        let N : ℝ := ((vs.countP (fun x => decide (h'.phi < x)) : Nat) : ℝ)
        expFitCompleteBinned hR = .res .ok #[((h'.phi : ℚ) : ℝ), 1 / hR.w * (Real.log (S + N * hR.w) - Real.log S)] ∧
        (0 < S → 0 < N → ∀ lam' : ℝ, 0 < lam' →
          llExpBinned S N hR.w lam' ≤ llExpBinned S N hR.w (1 / hR.w * (Real.log (S + N * hR.w) - Real.log S)))) :=
  exp_tail_fit_of_raw_data h vs acc phi hfin hr

/-- the count behind it, for any cutoff bin `0 ≤ b ≤ imax+1` of any history: `Σ obs[b..imax]` (the `N` of the closed form) is the number of accepted
    values above `LBound(b)` -/
theorem exp_tail_counts_only_the_tail (h : Hist ℚ) (vs : List ℚ) (acc : Accounts h vs) (b : Int) (hb0 : 0 ≤ b) (hb1 : b ≤ h.imax + 1) :
    wsum h.obs (fun _ => 1) (h.imax - b + 1).toNat b = ((vs.countP (fun x => decide (h.bmin + b * h.w < x)) : Nat) : ℝ) :=
  exp_tail_N_counts_raw h vs acc b hb0 hb1

/-- **…and for a tail declared by mass** (`esl_histogram_SetTailByMass(pmass)`, `0 < pmass ≤ 1`, non-empty data, any history): the threshold is the
    lower bound `φ'` of an occupied-range bin; the exponential fit answers eslOK, location `φ'`, `λ = (1/w)(log(S + N·w) - log S)` with
    `N = No` = the number of accepted values `> φ'` (`≥ pmass·n`), and `λ` maximises the binned likelihood of exactly those values. -/
theorem exp_tail_fit_by_mass_is_ml_of_the_raw_tail (h : Hist ℚ) (vs : List ℚ) (acc : Accounts h vs) (hne : vs ≠ []) (p : ℚ) (hp0 : 0 < p) (hp1 : p ≤ 1) :
    ∃ h' mass, h.setTailByMass p = .val (.ok, h', mass) ∧ h'.no = vs.countP (fun x => decide (h'.phi < x)) ∧ p * vs.length ≤ h'.no ∧
      (let hR := h'.toR
       let k := (hR.imax - hR.cmin + 1).toNat
       let S := wsum hR.obs (fun j => hR.lbound j - hR.phi) k hR.cmin
       let N : ℝ := ((h'.no : Nat) : ℝ)
       expFitCompleteBinned hR = .res .ok #[((h'.phi : ℚ) : ℝ), 1 / hR.w * (Real.log (S + N * hR.w) - Real.log S)] ∧
       (0 < S → 0 < N → ∀ lam' : ℝ, 0 < lam' →
         llExpBinned S N hR.w lam' ≤ llExpBinned S N hR.w (1 / hR.w * (Real.log (S + N * hR.w) - Real.log S)))) :=
  exp_tail_fit_by_mass_of_raw_data h vs acc hne p hp0 hp1

end EaselModel.Props.C11
