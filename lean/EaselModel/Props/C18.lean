import EaselModel.Shuffle.Lemmas
import EaselModel.Shuffle.LemmasRev
import EaselModel.Shuffle.LemmasMsa
import EaselModel.Shuffle.LemmasKmer
import EaselModel.Shuffle.LemmasMarkov1
import EaselModel.Shuffle.LemmasDP
import EaselModel.Shuffle.LemmasBEST
import EaselModel.Shuffle.LemmasQrna
import EaselModel.Shuffle.LemmasVShuffle
import EaselModel.Shuffle.LemmasRetry
import EaselModel.Shuffle.LemmasSample
import EaselModel.Shuffle.LemmasUniform
import EaselModel.Shuffle.LemmasUniform2
import EaselModel.Shuffle.LemmasTermination
import EaselModel.Shuffle.LemmasProgress
import EaselModel.Shuffle.LemmasIndex
import EaselModel.Shuffle.LemmasStorage
import EaselModel.Shuffle.LawfulRat
import EaselModel.Shuffle.MarkovRat
import EaselModel.Shuffle.IeeeCarrier
import EaselModel.Shuffle.MarkovIeee
import EaselModel.Shuffle.ZeroRoll
/-! # C18 — property theorems (statements + glue only; lemmas live in Shuffle/*.lean)

Every theorem quantifies over every input and every generator state `r : Rng` (hence every seed and every history of
the generator). Determinism is by construction: every routine is a function of its input and `r`, and returns the
advanced generator state. `Array.Perm a b` is `List.Perm a.toList b.toList`: the same multiset of entries. -/
namespace EaselModel.Props.C18
open EaselModel.Random EaselModel.Shuffle

/-! ## plain shuffles -/
/-- `esl_rsq_CShuffle` (and `esl_vec_{D,F,I,L}Shuffle`): same length, same residue counts -/
theorem cShuffle_perm {α : Type} (s : Array α) (r : Rng) :
    (cShuffle s r).1.size = s.size ∧ (cShuffle s r).1.Perm s := by
  have h := fyLoop_inv (fun (a : Array α) i j => a.swapIfInBounds i j) 0 s.size (RegionPerm 0 s.size s)
    (fun a i j ha _ hi _ hj => ha.swap (Nat.le_refl _) i j (by omega) (by omega) (by omega) (by omega))
    s.size (Nat.le_refl _) s r (RegionPerm.refl _ _ _)
  exact ⟨h.size, h.perm_all⟩

/-- `esl_rsq_XShuffle(r, dsq, L, shuffled)` on the whole array `dsq[0..L+1]`: length kept, both sentinels (everything
    outside `1..L`) untouched, residues `1..L` permuted -/
theorem xShuffle_spec (dsq : Bytes) (L : Nat) (h : L + 2 ≤ dsq.size) (r : Rng) :
    RegionPerm 1 (1 + L) dsq (xShuffle dsq L r).1 :=
  xShuffle_regionPerm dsq L h r

/-! ## window shuffles: same residue counts inside every window -/
/-- `esl_rsq_CShuffleWindows(r, s, w, shuffled)`, `w ≥ 1`: window `k` = positions `[k·w, min(L,(k+1)·w))` -/
theorem cShuffleWindows_spec {α : Type} (s : Array α) (w : Nat) (hw : 0 < w) (r : Rng) :
    WinPerm w 0 s.size s (cShuffleWindows s w r).1 :=
  winOuter_winPerm cWinD w 0 s.size cWinD_le hw s (by omega) s.size r

/-- `esl_rsq_XShuffleWindows(r, dsq, L, w, shuffled)`: window `k` = array positions `[1+k·w, min(1+L, 1+(k+1)·w))`;
    sentinels untouched -/
theorem xShuffleWindows_spec (dsq : Bytes) (L w : Nat) (hw : 0 < w) (h : L + 2 ≤ dsq.size) (r : Rng) :
    WinPerm w 1 L dsq (xShuffleWindows dsq L w r).1 :=
  winOuter_winPerm xWinD w 1 L xWinD_le hw dsq (by omega) L r

/-! ## reversal = mirror image, in place or not -/
/-- `esl_rsq_CReverse(s, rev)` with separate storage `rev` (any previous content) -/
theorem cReverse_spec {α : Type} [Inhabited α] (s rev : Array α) (h : s.size ≤ rev.size) :
    ((reverse false s rev 0 s.size).extract 0 s.size).toList = s.toList.reverse := by
  have := reverse_toList false s rev 0 s.size (by omega) (by omega) (by simp)
  simpa using this

/-- `esl_rsq_CReverse(s, s)`: in place -/
theorem cReverse_inplace_spec {α : Type} [Inhabited α] (s : Array α) :
    (reverse true s s 0 s.size).toList = s.toList.reverse := by
  have h1 := reverse_toList true s s 0 s.size (by omega) (by omega) (by simp)
  have h2 := (reverse_spec true s s 0 s.size (by omega) (by omega) (by simp)).1
  generalize reverse true s s 0 s.size = R at h1 h2
  have e : R.extract 0 (0 + s.size) = R := by rw [Nat.zero_add, ← h2]; simp
  rw [e] at h1
  simpa using h1

/-- `esl_rsq_XReverse(dsq, L, rev)`: residues `1..L` mirrored (in place or not); the C code then sets both sentinels -/
theorem xReverse_spec (al : Bool) (dsq rev : Bytes) (L : Nat) (h : L + 2 ≤ dsq.size) (h' : L + 2 ≤ rev.size)
    (hal : al = true → rev = dsq) :
    ((reverse al dsq rev 1 L).extract 1 (1 + L)).toList = ((dsq.extract 1 (1 + L)).toList).reverse :=
  reverse_toList al dsq rev 1 L (by omega) (by omega) hal

/-- in place = out of place, on the residues -/
theorem reverse_inplace_eq {α : Type} [Inhabited α] (src dst : Array α) (base L : Nat)
    (hsrc : base + L ≤ src.size) (hdst : base + L ≤ dst.size) :
    (reverse true src src base L).extract base (base + L) = (reverse false src dst base L).extract base (base + L) := by
  apply Array.toList_inj.mp
  rw [reverse_toList true src src base L hsrc hsrc (by simp), reverse_toList false src dst base L hsrc hdst (by simp)]

/-! ## in place = separate output storage
`Out.inPlace`: `shuffled == s`; `Out.separate d`: other storage of the input's size with ANY previous content `d`. The
routines copy the input into separate storage first and work there (`Out.load`); the result — output and generator state —
does not depend on `d` and equals the in-place result. (`reverse_inplace_eq`, `vShuffle_inplace_eq` are the alias-aware
cases where input cells are read after output cells were written; DP shuffle and Markov resamplers read the whole input
before they write; bootstrap cannot be called in place.) -/
theorem shuffle_inplace_eq_separate {α : Type} (s d : Array α) (h : d.size = s.size) (r : Rng) :
    cShuffleOut s (.separate d) r = cShuffleOut s .inPlace r ∧ cShuffleOut s .inPlace r = cShuffle s r :=
  cShuffleOut_eq s d h r

theorem xShuffle_inplace_eq_separate (dsq d : Bytes) (L : Nat) (h : d.size = dsq.size) (r : Rng) :
    xShuffleOut dsq L (.separate d) r = xShuffleOut dsq L .inPlace r ∧ xShuffleOut dsq L .inPlace r = xShuffle dsq L r :=
  xShuffleOut_eq dsq d L h r

/-- k-mer shuffles (the seeded change C18-a broke exactly this for fewer than two words) -/
theorem shuffleKmers_inplace_eq_separate {α : Type} (base : Nat) (a d : Array α) (L K : Nat) (h : d.size = a.size) (r : Rng) :
    shuffleKmersOut base a L K (.separate d) r = shuffleKmersOut base a L K .inPlace r ∧
      shuffleKmersOut base a L K .inPlace r = shuffleKmers base a L K r :=
  shuffleKmersOut_eq base a d L K h r

theorem shuffleWindows_inplace_eq_separate {α : Type} (s d : Array α) (w : Nat) (h : d.size = s.size) (r : Rng) :
    cShuffleWindowsOut s w (.separate d) r = cShuffleWindowsOut s w .inPlace r ∧
      cShuffleWindowsOut s w .inPlace r = cShuffleWindows s w r :=
  cShuffleWindowsOut_eq s d w h r

theorem xShuffleWindows_inplace_eq_separate (dsq d : Bytes) (L w : Nat) (h : d.size = dsq.size) (r : Rng) :
    xShuffleWindowsOut dsq L w (.separate d) r = xShuffleWindowsOut dsq L w .inPlace r ∧
      xShuffleWindowsOut dsq L w .inPlace r = xShuffleWindows dsq L w r :=
  xShuffleWindowsOut_eq dsq d L w h r

/-- `esl_msashuffle_Shuffle(r, msa, shuf)` with `shuf` a different alignment of the same shape = `shuf == msa` -/
theorem msaShuffle_inplace_eq_separate {α : Type} (base : Nat) (rows shuf : Array (Array α)) (alen : Nat)
    (hsz : shuf.size = rows.size) (hrow : ∀ i (h : i < rows.size), (shuf[i]'(hsz ▸ h)).size = rows[i].size) (r : Rng) :
    msaShuffleOut base rows alen (some shuf) r = msaShuffleOut base rows alen none r :=
  msaShuffleOut_eq base rows shuf alen hsz hrow r

/-- `esl_msashuffle_{C,X}QRNA(r, abc, x, y, xs, ys)`: `xs == x` or not, `ys == y` or not, independently — all four calls compute
    the result of the fully in-place call (to which `qrna_keeps_classes` / `qrna_class_perm` apply) -/
theorem qrna_inplace_eq_separate (isGap : UInt8 → Bool) (x y : Bytes) (ox oy : Out UInt8) (base L : Nat) (r : Rng)
    (hx : ∀ d, ox = .separate d → d.size = x.size) (hy : ∀ d, oy = .separate d → d.size = y.size) :
    qrnaOut isGap x y ox oy base L r = qrna isGap x y base L r :=
  qrnaOut_eq isGap x y ox oy base L r hx hy

/-- the whole call `esl_msashuffle_{C,X}QRNA`: `eslEINVAL` exactly when the two lengths differ, `eslEMEM` exactly for two
    zero-length sequences (Easel's zero-size-allocation exception), the generator untouched on both error paths, otherwise
    `eslOK` with the result of `qrnaOut` (to which `qrna_inplace_eq_separate`, `qrna_keeps_classes`, `qrna_class_perm` apply) -/
theorem qrna_status (isGap : UInt8 → Bool) (x y : Bytes) (ox oy : Out UInt8) (base : Nat) (r : Rng) :
    ((qrnaCall isGap x y ox oy base r).1 = .einval ↔ x.size - 2 * base ≠ y.size - 2 * base) ∧
    ((qrnaCall isGap x y ox oy base r).1 = .emem ↔ x.size - 2 * base = y.size - 2 * base ∧ x.size - 2 * base = 0) ∧
    ((qrnaCall isGap x y ox oy base r).1 = .einval ∨ (qrnaCall isGap x y ox oy base r).1 = .emem → (qrnaCall isGap x y ox oy base r).2 = r) ∧
    (x.size - 2 * base = y.size - 2 * base → x.size - 2 * base ≠ 0 →
      qrnaCall isGap x y ox oy base r =
        (.ok (qrnaOut isGap x y ox oy base (x.size - 2 * base) r).1.1 (qrnaOut isGap x y ox oy base (x.size - 2 * base) r).1.2,
         (qrnaOut isGap x y ox oy base (x.size - 2 * base) r).2)) :=
  qrnaCall_status isGap x y ox oy base r

/-! ## alignment shufflers -/
/-- `esl_msashuffle_Shuffle` (`base = 0` text, `base = 1` digital): the output columns are the input columns, each exactly
    once (a permutation of the list of columns, entries of a column kept together); other columns (the digital
    sentinels), the number of rows and the row lengths are untouched -/
theorem msaShuffle_spec {α : Type} (base alen : Nat) (rows : Array (Array α))
    (hlen : ∀ k (hk : k < rows.size), base + alen ≤ rows[k].size) (r : Rng) :
    RowsInv base alen rows (msaShuffle base rows alen r).1 :=
  fy_multiSwap_spec base alen rows hlen r

/-- `esl_msashuffle_PermuteSequenceOrder`: `arrays` are the per-sequence arrays (aseq/ax, sqname, wgt, sqacc, sqdesc, ss,
    sa, pp, sqlen, …, gs[tag], gr[tag]); "column" `i` is the record of sequence `i` across all of them. The output
    records are a permutation of the input records: every row keeps its name, weight and annotation. -/
theorem permuteSeqOrder_spec {α : Type} (nseq : Nat) (arrays : Array (Array α))
    (hlen : ∀ k (hk : k < arrays.size), nseq ≤ arrays[k].size) (r : Rng) :
    RowsInv 0 nseq arrays (permuteSeqOrder arrays nseq r).1 :=
  fy_multiSwap_spec 0 nseq arrays (by simpa using hlen) r

/-- the name index that `esl_msashuffle_PermuteSequenceOrder` rebuilds at the end (`esl_keyhash_Reuse` + `Store` of every
    `sqname[i]` in the new order, status ignored): for pairwise different names — `names` is the `sqname` array before the call,
    the array after it is the plain shuffle of it on the drawn rolls (`msaShuffle_via_rolls`) — the names stay pairwise
    different and looking up the name of NEW row `i` answers `i`, for every generator state. (With a duplicated name the
    second `Store` is refused and every later name gets a number one too small; the model and the differential run follow
    the code there, the theorem does not apply.) -/
theorem permuteSeqOrder_index_spec {κ : Type} [BEq κ] [LawfulBEq κ] (names : Array κ) (nseq : Nat)
    (hn : names.toList.Nodup) (r : Rng) :
    let names' := (fyRolls aswap 0 nseq names (fyDraw nseq r)).toList
    names'.Nodup ∧ ∀ (i : Nat) (hi : i < names'.length), indexLookup (rebuildIndex names') names'[i] = some i := by
  intro names'
  have hp : names'.Perm names.toList := (fyRolls_perm 0 nseq names (fyDraw nseq r)).toList
  have hnd : names'.Nodup := hp.nodup_iff.2 hn
  exact ⟨hnd, fun i hi => indexLookup_rebuild names' hnd i hi⟩

/-- `esl_msashuffle_Bootstrap`: every output column is one of the input columns -/
theorem bootstrap_only_input_columns (base alen : Nat) (msa boot : Array Bytes) (hsz : boot.size = msa.size)
    (hm : ∀ k (hk : k < msa.size), base + alen ≤ msa[k].size)
    (hb : ∀ k (hk : k < boot.size), base + alen ≤ boot[k].size) (r : Rng) :
    ∀ p, p < alen → ∃ col, col < alen ∧ column (bootstrap base alen msa boot r).1 (base + p) = column msa (base + col) :=
  (bootstrap_spec base alen msa boot hsz hm hb r).done



/-- `esl_msashuffle_VShuffle` (digital; `msa` rows are the arrays `ax[i][0..alen+1]`, `gap` = the alphabet's gap code `K`),
    called with `shuf` = `msa` (in place) or a clone of it: every column `1..alen` of the result has the same multiset of
    symbols as the input column and the same gap positions; sentinel columns, row count and row lengths are untouched.
    The result does not depend on `inplace`'s reading path (both read the still-unmodified column). -/
theorem vShuffle_spec (gap : UInt8) (inplace : Bool) (alen : Nat) (msa : Array Bytes)
    (hrows : ∀ i (h : i < msa.size), alen + 2 ≤ msa[i].size) (r : Rng) :
    VInv gap msa (alen + 1) (vShuffle gap inplace alen msa msa r).1 :=
  vShuffleLoop_inv gap inplace msa alen hrows alen 1 msa r (Nat.le_refl _) (by omega)
    ⟨rfl, fun _ _ => rfl, fun c h1 h2 => by omega, fun _ _ => rfl⟩

/-- `esl_msashuffle_VShuffle(rng, msa, msa)` (in place) computes exactly what it computes into a clone -/
theorem vShuffle_inplace_eq (gap : UInt8) (alen : Nat) (msa : Array Bytes)
    (hrows : ∀ i (h : i < msa.size), alen + 2 ≤ msa[i].size) (r : Rng) :
    vShuffle gap true alen msa msa r = vShuffle gap false alen msa msa r :=
  vShuffleLoop_inplace_eq gap msa alen hrows alen 1 msa r (Nat.le_refl _) (by omega)
    ⟨rfl, fun _ _ => rfl, fun c h1 h2 => by omega, fun _ _ => rfl⟩

/-- `esl_msashuffle_CQRNA` (`base = 0`, `isGap c` = `c` is one of the alphabet's gap characters) and
    `esl_msashuffle_XQRNA` (`base = 1`, `isGap c` = `c == abc->K`), for `x`, `y` of equal length: lengths kept; every
    column keeps its class `(isGap x[i], isGap y[i])` — so every gap stays where it was; the multiset of columns
    `(x[i], y[i])` is the input's (hence also the multiset inside each class); positions outside the `L` columns untouched -/
theorem qrna_keeps_classes (isGap : UInt8 → Bool) (x y : Bytes) (base L : Nat) (hfit : base + L ≤ x.size) (hy : y.size = x.size) (r : Rng) :
    QInv isGap x y base L (qrna isGap x y base L r).1.1 (qrna isGap x y base L r).1.2 :=
  qrna_spec isGap x y base L hfit hy r

/-- per-class form: for each of the classes, the columns of that class are a permutation of the input's columns of that class -/
theorem qrna_class_perm (isGap : UInt8 → Bool) (x y : Bytes) (base L : Nat) (hfit : base + L ≤ x.size) (hy : y.size = x.size) (r : Rng)
    (gx gy : Bool) :
    ((((qrna isGap x y base L r).1.1).zip ((qrna isGap x y base L r).1.2)).toList.filter (fun c => isGap c.1 == gx && isGap c.2 == gy)).Perm
      ((x.zip y).toList.filter (fun c => isGap c.1 == gx && isGap c.2 == gy)) :=
  ((qrna_spec isGap x y base L hfit hy r).zip.toList).filter _


/-! ## the retry loops return the first accepted draw -/
/-- `esl_rnd_Roll(r, n)` (as used by every shuffler): the value is the image `x / (UINT32_MAX / n)` of the first raw word
    `x` of the stream that the rejection test accepts, every earlier word was rejected, and the generator has advanced by
    exactly the words examined. (Second disjunct: none of the first `rollFuel = 10^6` words is accepted — the C loop
    would keep drawing; the model then answers `(0, r)`.) Termination with probability 1 is not a theorem. -/
theorem roll_returns_first_accepted (r : Rng) (n : Nat) :
    (∃ k, k < rollFuel ∧ rollWord n (rngWord r k).toNat = some (roll r n).1 ∧ (roll r n).2 = rngAfter r (k+1) ∧
        ∀ j, j < k → rollWord n (rngWord r j).toNat = none) ∨
    ((∀ j, j < rollFuel → rollWord n (rngWord r j).toNat = none) ∧ roll r n = (0, r)) :=
  roll_first_accepted r n

/-- the `while (!is_eulerian)` loop of the DP shuffle: the edge ordering it leaves is the one produced by the first pass
    of last-edge selection that the code's connectivity test accepts (all earlier passes were rejected, their swaps and
    rolls are kept, exactly as in the C loop); `none` iff none of the first `fuel` passes is accepted -/
theorem dpFind_returns_first_accepted (K sf fuel : Nat) (E : Edges) (r : Rng) :
    match dpFind K sf fuel E r with
    | some s => ∃ k, k < fuel ∧ s = dpAttempt K sf (E, r) (k+1) ∧ dpAccepted K sf s.1 = true ∧
                  ∀ j, j < k → dpAccepted K sf (dpAttempt K sf (E, r) (j+1)).1 = false
    | none => ∀ j, j < fuel → dpAccepted K sf (dpAttempt K sf (E, r) (j+1)).1 = false :=
  dpFind_first_accepted K sf fuel E r

/-! ## uniformity: Fisher–Yates as coded is a bijection from in-range roll vectors onto arrangements

`ValidRolls n rs`: `rs` has `n-1` entries, the first `< n`, the next `< n-1`, …, the last `< 2` — the `n!` possible outcomes of
the loop's calls `Roll(n), Roll(n-1), …, Roll(2)`. Each value of a roll has the same number of raw generator words
(`C09.roll_unbiased32`), so under a uniform word stream the `n!` vectors are equally likely; by the theorems below they
are in one-to-one correspondence with the `n!` arrangements. Permutation-preservation alone (`cShuffle_perm`) cannot see
a loop with a wrong range (`Roll(n-1)`: never a fixed point; swap partner `n` instead of `n-1`; `Roll(L)` at every step):
such loops still permute but are not bijective on rolls. -/

/-- `esl_rsq_CShuffle` / `esl_vec_{D,F,I,L}Shuffle` compute `cShuffleRolls` on the roll vector the generator delivers, and that
    vector is always in range -/
theorem cShuffle_via_rolls {α : Type} (s : Array α) (r : Rng) :
    (cShuffle s r).1 = cShuffleRolls s (fyDraw s.size r) ∧ ValidRolls s.size (fyDraw s.size r) ∧
      (fyDraw s.size r).length = s.size - 1 :=
  ⟨fyLoop_eq_fyRolls _ 0 s.size s r, fyDraw_valid s.size r, validRolls_length _ _ (fyDraw_valid s.size r)⟩

/-- **bijection**: for an array of distinct entries and every arrangement `t` of it there is exactly one in-range roll
    vector that makes the loop of `esl_rsq_CShuffle` produce `t` -/
theorem cShuffle_bijective_on_rolls {α : Type} (s t : Array α) (hs : s.toList.Nodup) (ht : t.Perm s) :
    ∃ rs, (ValidRolls s.size rs ∧ cShuffleRolls s rs = t) ∧
      ∀ rs', ValidRolls s.size rs' → cShuffleRolls s rs' = t → rs' = rs :=
  fyRolls_bijective 0 s.size s t (by omega) hs ht (fun p hp => by
    have h1 : s.size ≤ p := by omega
    rw [Array.getElem?_eq_none h1, Array.getElem?_eq_none (by rw [ht.size_eq]; exact h1)])

/-- for ANY array (repeated entries allowed) the output is the input read through the arrangement of the index array
    `0,1,…,L-1` produced by the same rolls — to which the bijection applies (`Array.range` has distinct entries) -/
theorem cShuffle_natural {α : Type} [Inhabited α] (s : Array α) (rs : List Nat) :
    cShuffleRolls s rs = (cShuffleRolls (Array.range s.size) rs).map (fun k => s[k]!) := by
  have := fyRolls_natural 0 s.size s rs
  simpa [cShuffleRolls] using this

/-- `esl_rsq_XShuffle` computes `xShuffleRolls` on the in-range roll vector the generator delivers -/
theorem xShuffle_via_rolls (dsq : Bytes) (L : Nat) (r : Rng) :
    (xShuffle dsq L r).1 = xShuffleRolls dsq L (fyDraw L r) ∧ ValidRolls L (fyDraw L r) :=
  ⟨fyLoop_eq_fyRolls _ 1 L dsq r, fyDraw_valid L r⟩

/-- **bijection, digital**: on the index array `0..n-1` (`n ≥ L+2`), for every arrangement `t` that fixes everything outside
    positions `1..L` exactly one in-range roll vector makes the loop of `esl_rsq_XShuffle` produce `t`; any `dsq` is read
    through that arrangement (`xShuffle_natural`) -/
theorem xShuffle_bijective_on_rolls (n L : Nat) (hL : L + 2 ≤ n) (t : Array Nat) (ht : t.Perm (Array.range n))
    (hout : ∀ p, (p < 1 ∨ 1 + L ≤ p) → t[p]? = (Array.range n)[p]?) :
    ∃ rs, (ValidRolls L rs ∧ fyRolls aswap 1 L (Array.range n) rs = t) ∧
      ∀ rs', ValidRolls L rs' → fyRolls aswap 1 L (Array.range n) rs' = t → rs' = rs :=
  fyRolls_bijective 1 L (Array.range n) t (by simp; omega) (by simpa using List.nodup_range) ht hout

theorem xShuffle_natural (dsq : Bytes) (L : Nat) (rs : List Nat) :
    xShuffleRolls dsq L rs = (fyRolls aswap 1 L (Array.range dsq.size) rs).map (fun k => dsq[k]!) :=
  fyRolls_natural 1 L dsq rs

/-- `esl_msashuffle_Shuffle` (and `esl_msashuffle_PermuteSequenceOrder` with `base = 0`, rows = per-sequence arrays): every
    row is rearranged by the one plain shuffle that the drawn roll vector defines — the column (record) permutation is the
    bijective image of the rolls -/
theorem msaShuffle_via_rolls {α : Type} (base alen : Nat) (rows : Array (Array α)) (r : Rng) :
    (msaShuffle base rows alen r).1 = rows.map (fun row => fyRolls aswap base alen row (fyDraw alen r)) ∧
      ValidRolls alen (fyDraw alen r) := by
  refine ⟨?_, fyDraw_valid alen r⟩
  rw [← fyRolls_multiSwap]
  exact fyLoop_eq_fyRolls _ base alen rows r

/-- one window of `esl_rsq_XShuffleWindows` (and of `esl_rsq_CShuffleWindows` once it draws `Roll(j-i+1)`): the inner loop
    over the `m+1` positions `i..i+m` IS the Fisher–Yates loop on them, on the in-range rolls the generator delivers -/
theorem shuffleWindow_via_rolls {α : Type} (i m : Nat) (a : Array α) (r : Rng) :
    (winInner 1 i m a r).1 = fyRolls aswap i (m+1) a (fyDraw (m+1) r) ∧ ValidRolls (m+1) (fyDraw (m+1) r) := by
  rw [winInner_one_eq_fyLoop]
  exact ⟨fyLoop_eq_fyRolls _ i (m+1) a r, fyDraw_valid (m+1) r⟩

/-- … hence bijective per window: for distinct entries every arrangement of the window `[i, i+m]` that leaves the rest
    alone is produced by exactly one in-range roll vector -/
theorem xShuffleWindows_window_bijective_on_rolls {α : Type} (i m : Nat) (a t : Array α) (hfit : i + (m + 1) ≤ a.size)
    (hnd : a.toList.Nodup) (ht : t.Perm a) (hout : ∀ p, (p < i ∨ i + (m + 1) ≤ p) → t[p]? = a[p]?) :
    ∃ rs, (ValidRolls (m+1) rs ∧ fyRolls aswap i (m+1) a rs = t) ∧
      ∀ rs', ValidRolls (m+1) rs' → fyRolls aswap i (m+1) a rs' = t → rs' = rs :=
  fyRolls_bijective i (m+1) a t hfit hnd ht hout

/-- **`esl_rsq_CShuffleWindows` as it stands is NOT a uniform shuffle of each window** (proved counterexample; the residue
    counts per window, i.e. the C18 statement, hold all the same — `cShuffleWindows_spec`): it draws `Roll(j-i)`, so a
    window of two residues is swapped for EVERY generator state — `esl-shuffle -w 2` prints the same sequence for every
    seed. (`cWinD` is read from the working tree on every run; the hypothesis holds on the pinned tree and stops holding
    when the call becomes `Roll(j-i+1)`, after which `shuffleWindow_via_rolls` applies to the text version too.) -/
theorem cShuffleWindows_pair_always_swapped {α : Type} (h : cWinD = 0) (a b : α) (r : Rng) :
    (cShuffleWindows #[a, b] 2 r).1 = #[b, a] := by
  unfold cShuffleWindows
  rw [h]
  have e : (roll r 1).1 = 0 := by have := roll_lt r 1 (by omega); omega
  simp [winOuter, winInner, e, Array.swapIfInBounds]

/-- `esl_rsq_{C,X}ShuffleKmers` (`base = 0` / `1`): the array of the `W = L / K` words of the output is the plain shuffle
    (`cShuffleRolls`) of the array of the input's words on the in-range roll vector the generator delivers — so the
    bijection `cShuffle_bijective_on_rolls` applies to the words: when the input's `K`-mers are distinct, every arrangement
    of them is produced by exactly one roll vector -/
theorem shuffleKmers_via_rolls {α : Type} (base : Nat) (a : Array α) (L K : Nat) (hfit : base + L ≤ a.size) (r : Rng) :
    chunks K (base + L % K) (L / K) (shuffleKmers base a L K r).1 =
      cShuffleRolls (chunks K (base + L % K) (L / K) a) (fyDraw (L / K) r) ∧ ValidRolls (L / K) (fyDraw (L / K) r) := by
  refine ⟨?_, fyDraw_valid _ r⟩
  have hdm : K * (L / K) + L % K = L := Nat.div_add_mod L K
  have hfit' : base + L % K + (L / K) * K ≤ a.size := by rw [Nat.mul_comm]; omega
  unfold shuffleKmers cShuffleRolls
  simp only []
  rw [fyLoop_eq_fyRolls, fyRolls_blockSwap_chunks K (base + L % K) (L / K) (L / K) (Nat.le_refl _) a _ hfit' (fyDraw_valid _ r)]
  simp [chunks]

/-- **counting form**: there are exactly `n!` in-range roll vectors (`allRolls n` lists each once); `esl_rsq_CShuffle`'s loop
    maps them to pairwise different arrangements of `0..n-1`, and every arrangement occurs: the `n!` equally likely roll
    vectors hit each of the `n!` arrangements exactly once -/
theorem cShuffle_counts (n : Nat) :
    (allRolls n).length = fact n ∧ (allRolls n).Nodup ∧ (∀ rs, rs ∈ allRolls n ↔ ValidRolls n rs) ∧
    ((allRolls n).map (cShuffleRolls (Array.range n))).Nodup ∧
    ∀ t : Array Nat, t.Perm (Array.range n) ↔ t ∈ (allRolls n).map (cShuffleRolls (Array.range n)) := by
  have hnd : (Array.range n).toList.Nodup := by simpa using List.nodup_range
  refine ⟨allRolls_length n, allRolls_nodup n, mem_allRolls n, ?_, fun t => ⟨fun ht => ?_, fun ht => ?_⟩⟩
  · rw [List.Nodup, List.pairwise_map]
    refine List.Pairwise.imp_of_mem ?_ (allRolls_nodup n)
    intro rs rs' h1 h2 hne e
    apply hne
    have v1 := (mem_allRolls n rs).1 h1
    have v2 := (mem_allRolls n rs').1 h2
    have hp : (cShuffleRolls (Array.range n) rs').Perm (Array.range n) := fyRolls_perm 0 _ _ _
    obtain ⟨rs0, _, hu⟩ := cShuffle_bijective_on_rolls (Array.range n) _ hnd hp
    simp only [Array.size_range] at hu
    rw [hu rs v1 e, hu rs' v2 rfl]
  · obtain ⟨rs0, ⟨hv, he⟩, _⟩ := cShuffle_bijective_on_rolls (Array.range n) t hnd ht
    simp only [Array.size_range] at hv
    exact List.mem_map.2 ⟨rs0, (mem_allRolls n rs0).2 hv, he⟩
  · obtain ⟨rs, _, rfl⟩ := List.mem_map.1 ht
    exact fyRolls_perm 0 _ _ _

/-- every Fisher–Yates instance of the library is the skeleton `fyLoop` with some swap action (`esl_vec_*Shuffle`, the
    per-vertex edge shuffle of step 5 of the DP shuffle, the per-column `esl_rsq_XShuffle` of `esl_msashuffle_VShuffle`, …):
    it computes `fyRolls` on the in-range roll vector the generator delivers -/
theorem fisherYates_via_rolls {σ : Type} (sw : σ → Nat → Nat → σ) (base n : Nat) (s : σ) (r : Rng) :
    (fyLoop sw base n s r).1 = fyRolls sw base n s (fyDraw n r) ∧ ValidRolls n (fyDraw n r) :=
  ⟨fyLoop_eq_fyRolls sw base n s r, fyDraw_valid n r⟩

/-- … and with the array swap it is a bijection from in-range roll vectors onto the arrangements of positions
    `[base, base+n)` (distinct entries; everything outside untouched) -/
theorem fisherYates_bijective_on_rolls {α : Type} (base n : Nat) (a t : Array α) (hfit : base + n ≤ a.size)
    (hnd : a.toList.Nodup) (ht : t.Perm a) (hout : ∀ p, (p < base ∨ base + n ≤ p) → t[p]? = a[p]?) :
    ∃ rs, (ValidRolls n rs ∧ fyRolls aswap base n a rs = t) ∧
      ∀ rs', ValidRolls n rs' → fyRolls aswap base n a rs' = t → rs' = rs :=
  fyRolls_bijective base n a t hfit hnd ht hout

/-- `esl_vec_{D,F,I,L}Shuffle64`: the same loop on the rolls of the 64-bit generator, always in range — the bijection
    `cShuffle_bijective_on_rolls` applies unchanged -/
theorem vecShuffle64_via_rolls {α : Type} (v : Array α) (r : Rng64) :
    (vecShuffle64 v r).1 = cShuffleRolls v (fyDraw64 v.size r) ∧ ValidRolls v.size (fyDraw64 v.size r) :=
  ⟨fyLoop64_eq_fyRolls _ 0 v.size v r, fyDraw64_valid v.size r⟩

/-- `esl_rsq_Sample` samples uniformly from the class: the output is `c[i₁] … c[i_L]` for the `L` in-range rolls
    `i_k = Roll(n)` the generator delivers, where the table `c` lists every 7-bit member of the class exactly once -/
theorem rsqSample_uniform (flag L : Nat) (cls : Nat → Bool) (h : sampleClass flag = some cls) (r : Rng) :
    ∃ rolls : List Nat, rolls.length = L ∧ (∀ i ∈ rolls, i < (sampleTable cls).size) ∧
      (rsqSample flag L r).1 = some (rolls.map (fun i => (sampleTable cls).getD i 0)).toArray ∧
      (sampleTable cls).toList.Nodup ∧ ∀ x, x ∈ sampleTable cls ↔ x < 128 ∧ cls x = true := by
  obtain ⟨h1, h2⟩ := sampleDraw_lt (sampleTable cls).size (sampleTable_nonempty flag cls h) L r
  refine ⟨sampleDraw (sampleTable cls).size L r, h1, h2, ?_, sampleTable_nodup cls, sampleTable_iff cls⟩
  simp only [rsqSample, h]
  rw [sampleLoop_eq]
  simp

/-- `esl_rsq_xIID(r, NULL, K, L, dsq)`: the residues ARE the `L` rolls `Roll(K)` -/
theorem iidUniform_exact (K L : Nat) (r : Rng) : (iidUniform K L r #[]).1 = (sampleDraw K L r).toArray := by
  rw [iidUniform_eq]; simp

/-- `esl_msashuffle_Bootstrap` samples columns with replacement through `Roll(alen)`: output column `p` IS input column
    `i_p`, where `i_0 … i_{alen-1}` are the `alen` in-range rolls the generator delivers (strengthens
    `bootstrap_only_input_columns`) -/
theorem bootstrap_exact (base alen : Nat) (msa boot : Array Bytes) (hsz : boot.size = msa.size)
    (hm : ∀ k (hk : k < msa.size), base + alen ≤ msa[k].size)
    (hb : ∀ k (hk : k < boot.size), base + alen ≤ boot[k].size) (r : Rng) :
    ∃ cols : List Nat, cols.length = alen ∧ (∀ i ∈ cols, i < alen) ∧
      ∀ p, p < alen → column (bootstrap base alen msa boot r).1 (base + p) = column msa (base + cols.getD p 0) := by
  refine ⟨sampleDraw alen alen r, ?_, ?_, fun p hp => ?_⟩
  · by_cases h0 : alen = 0
    · subst h0; rfl
    · exact (sampleDraw_lt alen (by omega) alen r).1
  · by_cases h0 : alen = 0
    · subst h0; intro i hi; simp [sampleDraw] at hi
    · exact (sampleDraw_lt alen (by omega) alen r).2
  · have := bootLoop_exact base alen msa hm alen 0 boot r (by omega) hsz hb (base + p)
    unfold bootstrap
    rw [this, if_pos (by omega)]
    simp

/-! ## the two probabilistically terminating loops -/
/-- `esl_rnd_Roll(r, n)` for every `int n > 0`: the rejected raw words are exactly the top interval `[n·f, 2^32)` with
    `f = (2^32-1)/n`; it has at most `n` and fewer than `2^31` of the `2^32` words: every draw is accepted with
    probability `> 1/2` -/
theorem roll_rejects_less_than_half (n : Nat) (hn : 0 < n) (hn' : n < 2^31) :
    (∀ x, rollWord n x = none ↔ n * ((2^32-1)/n) ≤ x) ∧ n * ((2^32-1)/n) ≤ 2^32 - 1 ∧
      2^32 - n * ((2^32-1)/n) ≤ n ∧ 2^32 - n * ((2^32-1)/n) < 2^31 := by
  obtain ⟨h1, h2, h3⟩ := reject_count_gen (2^32-1) n hn (by omega)
  exact ⟨fun x => rollWord_none_iff n x hn (by omega), h3, by omega, by omega⟩

/-- `esl_rand64_Roll`: at most half of the `2^64` words are rejected, and at most `n` -/
theorem roll64_rejects_at_most_half (n : Nat) (hn : 0 < n) (hn' : n < 2^64) :
    (∀ x, rollWord64 n x = none ↔ n * ((2^64-1)/n) ≤ x) ∧
      2^64 - n * ((2^64-1)/n) ≤ n ∧ 2 * (2^64 - n * ((2^64-1)/n)) ≤ 2^64 := by
  obtain ⟨h1, h2, h3⟩ := reject_count_gen (2^64-1) n hn (by omega)
  exact ⟨fun x => rollWord64_none_iff n x hn hn', by omega, by omega⟩

/-- the fuel of the model's rejection loop is exhausted only by `fuel` consecutive raw words that all lie in the rejection
    interval (probability `< 2^-fuel` under a uniform stream, by the previous theorem) -/
theorem roll_fuel_exhausted_only_by_rejected_run (r : Rng) (n fuel : Nat) (hn : 0 < n) (hn' : n < 2^31)
    (h : r.roll n fuel = none) : ∀ j, j < fuel → n * ((2^32-1)/n) ≤ (rngWord r j).toNat :=
  Rng_roll_none_run r n fuel hn (by omega) h

/-- one pass of last-edge selection (step 2 of the DP shuffle) computes `dpSelectLastRolls` on the in-range roll vector the
    generator delivers -/
theorem dpSelectLast_via_rolls (sf K : Nat) (E : Edges) (r : Rng) :
    (dpSelectLast sf (List.range K) E r).1 = dpSelectLastRolls sf (List.range K) E (dpDrawLast sf (List.range K) E r) ∧
      DpValidRolls sf (List.range K) E (dpDrawLast sf (List.range K) E r) :=
  dpSelectLast_eq_rolls sf (List.range K) E r

/-- **the `while (!is_eulerian)` loop can always succeed**: for every valid non-empty input and every edge ordering `E` that
    a pass can start from (the edge lists built from the input, each list permuted) there exists an in-range roll vector
    for which the code's own connectivity test accepts the selected last edges (witness: for each vertex the successor of
    its last occurrence in the input — the original sequence's own last edges) -/
theorem exists_accepting_rolls (K : Nat) (codes : List Nat) (hK : ∀ c ∈ codes, c < K) (hne : codes ≠ [])
    (E : Edges) (hp : PermEdges E (dpBuild K codes)) :
    ∃ rs, DpValidRolls (codes.getLastD 0) (List.range K) E rs ∧
      dpAccepted K (codes.getLastD 0) (dpSelectLastRolls (codes.getLastD 0) (List.range K) E rs) = true :=
  exists_accepting_rolls' K codes hK hne E hp

/-- … in particular at the start of every pass `k` of the retry loop, whatever the generator did before: each pass is
    accepted with positive probability (finitely many in-range rolls, each value of positive probability) -/
theorem dpRetry_every_pass_can_accept (K : Nat) (codes : List Nat) (hK : ∀ c ∈ codes, c < K) (hne : codes ≠ [])
    (r : Rng) (k : Nat) :
    ∃ rs, DpValidRolls (codes.getLastD 0) (List.range K) (dpAttempt K (codes.getLastD 0) (dpBuild K codes, r) k).1 rs ∧
      dpAccepted K (codes.getLastD 0)
        (dpSelectLastRolls (codes.getLastD 0) (List.range K) (dpAttempt K (codes.getLastD 0) (dpBuild K codes, r) k).1 rs) = true :=
  exists_accepting_rolls' K codes hK hne _ (dpAttempt_perm K _ (dpBuild K codes, r) k)

/-! ## progress of the two unbounded loops, on the raw word stream

`rollOn n ws` is `esl_rnd_Roll`'s `do { u = word / factor; } while (u >= n);` reading its raw 32-bit words from the finite list
`ws` (`none` = every word so far was rejected, the loop is still running). The generator is deterministic, so "it
terminates for every state" is a statement about MT19937 nobody can prove; what IS proved, for every `n` an `int` can hold:
partial correctness (`roll_returns_spec`), that the model on the C09 generator is this loop on the words the generator
delivers (`roll_on_generator_words`), and progress: after ANY finite run of rejected words more than half of all possible
next words make it return (`roll_progress`), so it runs forever only on a stream that stays inside the rejection interval
forever. -/

/-- the model's rejection loop on generator state `r` with fuel `k` = `rollOn` on the first `k` words `r` delivers; the
    generator advances by exactly the words read -/
theorem roll_on_generator_words (n fuel : Nat) (r : Rng) :
    r.roll n fuel = (rollOn n (rngWords r fuel)).map (fun p => (p.1, rngAfter r (fuel - p.2.length))) :=
  Rng_roll_eq_rollOn n fuel r

/-- **if `esl_rnd_Roll` returns, the result satisfies its spec**: `v < n`, `v = x / (UINT32_MAX / n)` for the first accepted
    word `x`, every earlier word was rejected, and exactly the words up to `x` were consumed -/
theorem roll_returns_spec (n : Nat) (ws : List Nat) (v : Nat) (rest : List Nat) (h : rollOn n ws = some (v, rest)) :
    ∃ pre x, ws = pre ++ x :: rest ∧ (∀ y ∈ pre, rollWord n y = none) ∧ rollWord n x = some v ∧
      v < n ∧ v = x / ((2^32 - 1) / n) :=
  rollOn_spec n ws v rest h

/-- **progress**: for every `int n > 0` and every finite history `ws` of raw words on which the loop is still running there
    EXISTS a continuation on which it returns — one more word suffices, any of the `n·f > 2^31` words below `n·f` (e.g. `0`) -/
theorem roll_progress (n : Nat) (hn : 0 < n) (hn' : n < 2^31) (ws : List Nat) (h : rollOn n ws = none) :
    (∀ w, w < n * ((2^32-1)/n) → ∃ v, rollOn n (ws ++ [w]) = some (v, []) ∧ v < n) ∧
      2^31 < n * ((2^32-1)/n) ∧ n * ((2^32-1)/n) ≤ 2^32 - 1 := by
  obtain ⟨_, h2, _, h4⟩ := roll_rejects_less_than_half n hn hn'
  exact ⟨fun w hw => rollOn_progress n hn (by omega) ws h w hw, by omega, h2⟩

/-- … and every value `v < n` is reachable from every such history by one more 32-bit word (`v·f`) -/
theorem roll_reaches_every_value (n : Nat) (hn : 0 < n) (hn' : n < 2^32) (ws : List Nat) (h : rollOn n ws = none)
    (v : Nat) (hv : v < n) :
    v * ((2^32-1)/n) < 2^32 ∧ rollOn n (ws ++ [v * ((2^32-1)/n)]) = some (v, []) :=
  ⟨mul_factor_lt n v hv, rollOn_reach n hn hn' ws h v hv []⟩

/-- the word-stream existential realised on generator states: from EVERY state of the Mersenne Twister (a table of 624 words)
    the state that differs from it only in the ONE table word tempered next (`Rng.pokeRaw`, the harness's `poke` hook; set to
    `0`, and `temper(0) = 0`) makes `esl_rnd_Roll(r, n)` return at its first draw, for every `n > 0` -/
theorem roll_returns_from_poked_state (r : Rng) (hk : r.kind = .mersenne) (hs : r.st.mt.size = 624) (n fuel : Nat) (hn : 0 < n) :
    ∃ r', (r.pokeRaw 0).roll n (fuel+1) = some (0, r') :=
  roll_returns_after_poke r hk hs n fuel hn

/-- `esl_rand64_Roll` (used by `esl_vec_*Shuffle64`): the model's loop is `rollOn64` on the generator's 64-bit words; a returned
    value is in range; after any finite run of rejected words every next word below `n·f` — at least half of all words —
    makes it return -/
theorem roll64_progress (n : Nat) (hn : 0 < n) (hn' : n < 2^64) :
    (∀ fuel (r : Rng64), r.roll n fuel = (rollOn64 n (rng64Words r fuel)).map (fun p => (p.1, rng64After r (fuel - p.2.length)))) ∧
    (∀ ws v rest, rollOn64 n ws = some (v, rest) → v < n) ∧
    (∀ ws, rollOn64 n ws = none → ∀ w, w < n * ((2^64-1)/n) → ∃ v, rollOn64 n (ws ++ [w]) = some (v, []) ∧ v < n) ∧
    2^64 ≤ 2 * (n * ((2^64-1)/n)) := by
  obtain ⟨_, h2, h3⟩ := reject_count_gen (2^64-1) n hn (by omega)
  exact ⟨Rng64_roll_eq_rollOn64 n, rollOn64_lt n, fun ws h w hw => rollOn64_progress n hn hn' ws h w hw, by omega⟩

/-- **the `while (!is_eulerian)` retry, on raw words**: for every valid non-empty input (each vertex with fewer than `2^32`
    edges) and every edge ordering a pass can start from there is a finite list of 32-bit words on which the pass — reading
    every roll through the rejection loop — consumes the list and selects last edges that the code's own connectivity test
    accepts (witness: the input's own last edges, word `pos·f` for roll `pos`) -/
theorem dpRetry_accepting_words_exist (K : Nat) (codes : List Nat) (hK : ∀ c ∈ codes, c < K) (hne : codes ≠ [])
    (E : Edges) (hp : PermEdges E (dpBuild K codes)) (hb : ∀ v, (elist E v).length < 2^32) :
    ∃ ws E', (∀ w ∈ ws, w < 2^32) ∧ dpSelectLastOn (codes.getLastD 0) (List.range K) E ws = some (E', []) ∧
      dpAccepted K (codes.getLastD 0) E' = true :=
  exists_accepting_words K codes hK hne E hp hb

/-- a pass on a word list, when it returns, has computed `dpSelectLastRolls` on an in-range roll vector — the same function
    of the rolls as the pass on the generator (`dpSelectLast_via_rolls`) -/
theorem dpPass_on_words_via_rolls (sf : Nat) (xs : List Nat) (E : Edges) (ws : List Nat) (E' : Edges) (rest : List Nat)
    (h : dpSelectLastOn sf xs E ws = some (E', rest)) :
    ∃ rs, DpValidRolls sf xs E rs ∧ E' = dpSelectLastRolls sf xs E rs :=
  dpSelectLastOn_eq_rolls sf xs E ws E' rest h

/-! ## 64-bit vector shuffles and random character strings -/
/-- `esl_vec_{D,F,I,L}Shuffle64` (generator `ESL_RAND64`): same length, same multiset, for every generator state -/
theorem vecShuffle64_perm {α : Type} (v : Array α) (r : Rng64) :
    (vecShuffle64 v r).1.size = v.size ∧ (vecShuffle64 v r).1.Perm v := by
  have h := fyLoop64_inv (fun (a : Array α) i j => a.swapIfInBounds i j) 0 v.size (RegionPerm 0 v.size v)
    (fun a i j ha _ hi _ hj => ha.swap (Nat.le_refl _) i j (by omega) (by omega) (by omega) (by omega))
    v.size (Nat.le_refl _) v r (RegionPerm.refl _ _ _)
  exact ⟨h.size, h.perm_all⟩

/-- `esl_rsq_Sample(rng, allowed_chars, L, &s)`: an invalid flag is `eslEINVAL`; otherwise exactly `L` characters, each a
    7-bit code belonging to the requested `<ctype.h>` class (C locale) -/
theorem rsqSample_spec (flag L : Nat) (r : Rng) :
    match sampleClass flag with
    | none => (rsqSample flag L r).1 = none
    | some cls => ∃ out, (rsqSample flag L r).1 = some out ∧ out.size = L ∧ ∀ x ∈ out, x < 128 ∧ cls x = true :=
  rsqSample_spec' flag L r

/-! ## k-mer shuffles -/
/-- `esl_rsq_CShuffleKmers(r, s, K, shuffled)`: with `W = L / K` words and `P = L % K` leftover residues, the output's words
    (`K`-mers starting at `P`) are a permutation of the input's consecutive `K`-mers, the leftover prefix `[0,P)` is
    unchanged, length kept -/
theorem cShuffleKmers_spec {α : Type} (s : Array α) (K : Nat) (r : Rng) :
    KmerInv K (s.size % K) (s.size / K) s (shuffleKmers 0 s s.size K r).1 := by
  simpa using shuffleKmers_inv 0 s s.size K (by omega) r

/-- `esl_rsq_XShuffleKmers(r, dsq, L, K, shuffled)` on the array `dsq[0..L+1]`: words start at `1 + P`; sentinel `dsq[0]`,
    the leftover residues `dsq[1..P]` and `dsq[L+1]` are unchanged (the statement that failed before fix fb16019) -/
theorem xShuffleKmers_spec (dsq : Bytes) (L K : Nat) (h : L + 2 ≤ dsq.size) (r : Rng) :
    KmerInv K (1 + L % K) (L / K) dsq (shuffleKmers 1 dsq L K r).1 :=
  shuffleKmers_inv 1 dsq L K (by omega) r


/-! ## doublet-preserving shuffle (Altschul–Erickson)

Full statement of the property: *for every input and seed* the DP shuffle keeps the ordered-pair counts and the first and
last residue. Proved in two halves that together give it for every generator state:
(i) `shuffleDP_ok` — if the routine returns `eslOK` (its two final "reality checks" `x == sf`, `pos == len` passed) the
output has the input's length, first residue, last residue and exactly the input's multiset of ordered adjacent pairs;
(ii) `shuffleDP_checks_never_fire` — the Altschul–Erickson/BEST argument: once the code's connectivity test has accepted
the last-edge graph, the walk ends on `s_f` having used every edge, so the checks cannot fire (`eslEINCONCEIVABLE` is
unreachable). The only residue is the `while (!is_eulerian)` retry loop, modelled with fuel (`nohalt`): it ends with
probability 1, not for every stream. -/
theorem shuffleDP_ok (K : Nat) (codes : List Nat) (hK : ∀ c ∈ codes, c < K) (hlen : 2 < codes.length) (r : Rng)
    (out : Array Nat) (h : (shuffleDPcore K codes r).1 = .ok out) :
    out.size = codes.length ∧ out.toList.head? = codes.head? ∧ out.toList.getLast? = codes.getLast? ∧
      (adjPairs out.toList).Perm (adjPairs codes) :=
  shuffleDPcore_ok K codes hK hlen r out (shuffleDPcore K codes r).2 (by rw [← h])

/-- `esl_rsq_CShuffleDP`: on `eslOK`, either the input has length `≤ 2` and is copied, or the (upper-cased) output keeps
    length, first and last residue and the ordered-pair multiset of the case-folded input -/
theorem cShuffleDP_ok (s : Bytes) (r : Rng) (out : Bytes) (h : (cShuffleDP s r).1 = .ok out) :
    (s.size ≤ 2 ∧ out = s) ∨
    ∃ codes, out = ofCodesText codes ∧ codes.size = s.size ∧ codes.toList.head? = (textCodes s).head? ∧
      codes.toList.getLast? = (textCodes s).getLast? ∧ (adjPairs codes.toList).Perm (adjPairs (textCodes s)) := by
  unfold cShuffleDP at h
  split at h
  · simp at h
  · rename_i halpha
    split at h
    · rename_i h2; simp only [SeqResult.ok.injEq] at h; exact Or.inl ⟨h2, h.symm⟩
    · rename_i h2
      obtain ⟨codes, h1, h3⟩ := ofDP_ok _ _ out h
      have hK : ∀ c ∈ textCodes s, c < 26 := by
        intro c hc
        simp only [textCodes, List.mem_map] at hc
        obtain ⟨b, hb, rfl⟩ := hc
        apply letterCode_lt
        simp only [Array.any_eq_true', not_exists, not_and, Bool.not_eq_true, Bool.not_eq_false'] at halpha
        simpa using halpha b (by simpa using hb)
      obtain ⟨a1, a2, a3, a4⟩ := shuffleDPcore_ok 26 (textCodes s) hK (by simp [textCodes]; omega) r codes _ h1
      exact Or.inr ⟨codes, h3, by simpa [textCodes] using a1, a2, a3, a4⟩

/-- `esl_rsq_XShuffleDP` -/
theorem xShuffleDP_ok (dsq : Bytes) (L K : Nat) (hL : L + 2 ≤ dsq.size) (r : Rng) (out : Bytes) (h : (xShuffleDP dsq L K r).1 = .ok out) :
    (L ≤ 2 ∧ out = dsq) ∨
    ∃ codes, out = ofCodesDigital codes ∧ codes.size = L ∧ codes.toList.head? = (digitalCodes dsq L).head? ∧
      codes.toList.getLast? = (digitalCodes dsq L).getLast? ∧ (adjPairs codes.toList).Perm (adjPairs (digitalCodes dsq L)) := by
  have hlen : (digitalCodes dsq L).length = L := by simp [digitalCodes]; omega
  unfold xShuffleDP at h
  split at h
  · simp at h
  · rename_i hval
    split at h
    · rename_i h2; simp only [SeqResult.ok.injEq] at h; exact Or.inl ⟨h2, h.symm⟩
    · rename_i h2
      obtain ⟨codes, h1, h3⟩ := ofDP_ok _ _ out h
      have hK : ∀ c ∈ digitalCodes dsq L, c < K := by
        intro c hc
        simp only [List.any_eq_true, not_exists, not_and, decide_eq_true_eq, Nat.not_le] at hval
        exact hval c hc
      obtain ⟨a1, a2, a3, a4⟩ := shuffleDPcore_ok K (digitalCodes dsq L) hK (by omega) r codes _ h1
      exact Or.inr ⟨codes, h3, by omega, a2, a3, a4⟩


/-- the reality checks never fire: for every input longer than 2 over vertices `< K` and every generator state the core
    returns `ok` — or `nohalt` when the retry loop exhausted its fuel (the C code would go on drawing) -/
theorem shuffleDP_checks_never_fire (K : Nat) (codes : List Nat) (hK : ∀ c ∈ codes, c < K) (hlen : 2 < codes.length) (r : Rng) :
    (∃ out r', shuffleDPcore K codes r = (.ok out, r')) ∨ shuffleDPcore K codes r = (.nohalt, r) :=
  shuffleDPcore_total K codes hK hlen r

/-- **DP shuffle, full form**: for every valid input and every generator state, unless the retry loop ran out of fuel, the
    output has the input's length, first and last residue and ordered-pair multiset -/
theorem shuffleDP_spec (K : Nat) (codes : List Nat) (hK : ∀ c ∈ codes, c < K) (hlen : 2 < codes.length) (r : Rng) :
    shuffleDPcore K codes r = (.nohalt, r) ∨
    ∃ out r', shuffleDPcore K codes r = (.ok out, r') ∧ out.size = codes.length ∧ out.toList.head? = codes.head? ∧
      out.toList.getLast? = codes.getLast? ∧ (adjPairs out.toList).Perm (adjPairs codes) := by
  rcases shuffleDPcore_total K codes hK hlen r with ⟨out, r', h⟩ | h
  · exact Or.inr ⟨out, r', h, shuffleDPcore_ok K codes hK hlen r out r' h⟩
  · exact Or.inl h

/-- `esl_rsq_CShuffleDP` never returns `eslEINCONCEIVABLE`; it returns `eslEINVAL` exactly for non-alphabetic input -/
theorem cShuffleDP_status (s : Bytes) (r : Rng) :
    (cShuffleDP s r).1 ≠ .einconceivable ∧ (cShuffleDP s r).1 ≠ .fatal ∧
      ((cShuffleDP s r).1 = .einval ↔ s.any (fun c => !isAlpha c) = true) := by
  unfold cShuffleDP
  split
  · rename_i h; simp [h]
  · rename_i halpha
    split
    · simp [halpha]
    · rename_i h2
      have hK : ∀ c ∈ textCodes s, c < 26 := by
        intro c hc
        simp only [textCodes, List.mem_map] at hc
        obtain ⟨b, hb, rfl⟩ := hc
        apply letterCode_lt
        simp only [Array.any_eq_true', not_exists, not_and, Bool.not_eq_true, Bool.not_eq_false'] at halpha
        simpa using halpha b (by simpa using hb)
      rcases shuffleDPcore_total 26 (textCodes s) hK (by simp [textCodes]; omega) r with ⟨out, r', h⟩ | h
      · rw [h]; simp [ofDP, halpha]
      · rw [h]; simp [ofDP, halpha]

/-- `esl_rsq_XShuffleDP` never returns `eslEINCONCEIVABLE`; `eslEINVAL` exactly when a residue code is `≥ K` -/
theorem xShuffleDP_status (dsq : Bytes) (L K : Nat) (hL : L + 2 ≤ dsq.size) (r : Rng) :
    (xShuffleDP dsq L K r).1 ≠ .einconceivable ∧ (xShuffleDP dsq L K r).1 ≠ .fatal ∧
      ((xShuffleDP dsq L K r).1 = .einval ↔ (digitalCodes dsq L).any (fun c => c ≥ K) = true) := by
  have hlen : (digitalCodes dsq L).length = L := by simp [digitalCodes]; omega
  unfold xShuffleDP
  split
  · rename_i h; simp [h]
  · rename_i hval
    split
    · simp [hval]
    · rename_i h2
      have hK : ∀ c ∈ digitalCodes dsq L, c < K := by
        intro c hc
        simp only [List.any_eq_true, not_exists, not_and, decide_eq_true_eq, Nat.not_le] at hval
        exact hval c hc
      rcases shuffleDPcore_total K (digitalCodes dsq L) hK (by omega) r with ⟨out, r', h⟩ | h
      · rw [h]; simp [ofDP, hval]
      · rw [h]; simp [ofDP, hval]

/-- the walk of step (6) consumes each edge of the edge ordering at most once (unconditionally) -/
theorem dpWalk_edges_once (E : Edges) (K c0 : Nat) (hlt : ∀ v y, y ∈ elist E v → y < K) (hc0 : c0 < K)
    (hfirst : 0 < (elist E c0).length) (fuel : Nat) :
    let res := dpWalk E fuel c0 (Array.replicate K 0) #[]
    (adjPairs (res.1.toList ++ [res.2.1])).Perm (usedEdges E res.2.2 K) ∧ (usedEdges E res.2.2 K).Sublist (edgePairs E K) :=
  dpWalk_uses_each_edge_once E K c0 hlt hc0 hfirst fuel

/-! ## i.i.d. generation and Markov resampling (`α` = any lawful number type; the driver runs `α = Float`) -/
section numeric
variable {α : Type} [CNum α] [LawfulCNum α]

/-- `esl_rsq_IID / fIID / xIID / xfIID`, and `esl_rsq_SampleDirty` with a caller-provided probability vector (`Kp` entries):
    `L` symbols, every one of non-zero probability -/
theorem iid_support (p : List α) (L : Nat) (r : Rng) (out : Array Nat) (h : (iidLoop p L r #[]).1 = some out) :
    out.size = L ∧ ∀ k ∈ out, ∃ q, p[k]? = some q ∧ q ≠ CNum.zero := by
  have := iidLoop_support p L r #[] out h (by simp)
  simpa using this


/-- `esl_rsq_SampleDirty`: whatever vector `p` is used (provided by the caller or sampled), if it is zero at the gap code
    `K`, the nonresidue code `Kp-2` and the missing-data code `Kp-1`, none of these three symbols is ever emitted -/
theorem sampleDirty_never_gap (p : List α) (K Kp L : Nat) (r : Rng) (out : Array Nat)
    (h0 : p[K]? = some CNum.zero) (h1 : p[Kp - 2]? = some CNum.zero) (h2 : p[Kp - 1]? = some CNum.zero)
    (h : (iidLoop p L r #[]).1 = some out) : out.size = L ∧ ∀ k ∈ out, k ≠ K ∧ k ≠ Kp - 2 ∧ k ≠ Kp - 1 := by
  obtain ⟨hs, hk⟩ := iid_support p L r out h
  refine ⟨hs, fun k hkm => ?_⟩
  obtain ⟨q, hq1, hq2⟩ := hk k hkm
  refine ⟨?_, ?_, ?_⟩ <;> (intro e; subst e; simp_all)

/-- `esl_rsq_xIID(r, NULL, K, L, dsq)`: uniform residues `< K` -/
theorem iid_uniform (K L : Nat) (hK : 0 < K) (r : Rng) :
    (iidUniform K L r #[]).1.size = L ∧ ∀ k ∈ (iidUniform K L r #[]).1, k < K := by
  have := iidUniform_spec K hK L r #[] (by simp)
  simpa using this

/-- `esl_rsq_CMarkov0`: same length, only residues (case-folded) that occur in the input -/
theorem cMarkov0_spec (s : Bytes) (r : Rng) (out : Bytes) (h : (cMarkov0 α s r).1 = .ok out) :
    ∃ codes, out = ofCodesText codes ∧ codes.size = s.size ∧ ∀ k ∈ codes, k ∈ textCodes s := by
  unfold cMarkov0 at h
  split at h
  · simp at h
  · obtain ⟨codes, h1, h2⟩ := ofOpt_ok _ _ out h
    obtain ⟨h3, h4⟩ := markov0_support 26 (textCodes s) r codes h1
    exact ⟨codes, h2, by simpa [textCodes] using h3, h4⟩

/-- `esl_rsq_XMarkov0` -/
theorem xMarkov0_spec (dsq : Bytes) (L K : Nat) (hL : L + 2 ≤ dsq.size) (r : Rng) (out : Bytes) (h : (xMarkov0 α dsq L K r).1 = .ok out) :
    ∃ codes, out = ofCodesDigital codes ∧ codes.size = L ∧ ∀ k ∈ codes, k ∈ digitalCodes dsq L := by
  unfold xMarkov0 at h
  split at h
  · simp at h
  · obtain ⟨codes, h1, h2⟩ := ofOpt_ok _ _ out h
    obtain ⟨h3, h4⟩ := markov0_support K (digitalCodes dsq L) r codes h1
    refine ⟨codes, h2, ?_, h4⟩
    rw [h3]; simp [digitalCodes]; omega

/-- `esl_rsq_CMarkov1`: inputs of length `≤ 2` are copied; otherwise same length, the first residue occurs in the input and
    every adjacent pair of the output is an adjacent pair of the input read circularly -/
theorem cMarkov1_spec (s : Bytes) (r : Rng) (out : Bytes) (h : (cMarkov1 α s r).1 = .ok out) :
    (s.size ≤ 2 ∧ out = s) ∨
    ∃ codes, out = ofCodesText codes ∧ codes.size = s.size ∧ (∀ pr ∈ adjPairs codes.toList, pr ∈ circPairs (textCodes s)) ∧
      ∃ x, codes.toList.head? = some x ∧ x ∈ textCodes s := by
  unfold cMarkov1 at h
  split at h
  · simp at h
  · split at h
    · rename_i h2; simp only [SeqResult.ok.injEq] at h; exact Or.inl ⟨h2, h.symm⟩
    · rename_i h2
      obtain ⟨codes, h1, h3⟩ := ofOpt_ok _ _ out h
      obtain ⟨h4, h5, h6⟩ := markov1_support 26 (textCodes s) (by simp [textCodes]; omega) r codes h1
      exact Or.inr ⟨codes, h3, by simpa [textCodes] using h4, h5, h6⟩

/-- `esl_rsq_XMarkov1` -/
theorem xMarkov1_spec (dsq : Bytes) (L K : Nat) (hL : L + 2 ≤ dsq.size) (r : Rng) (out : Bytes) (h : (xMarkov1 α dsq L K r).1 = .ok out) :
    (L ≤ 2 ∧ out = dsq) ∨
    ∃ codes, out = ofCodesDigital codes ∧ codes.size = L ∧ (∀ pr ∈ adjPairs codes.toList, pr ∈ circPairs (digitalCodes dsq L)) ∧
      ∃ x, codes.toList.head? = some x ∧ x ∈ digitalCodes dsq L := by
  have hlen : (digitalCodes dsq L).length = L := by simp [digitalCodes]; omega
  unfold xMarkov1 at h
  split at h
  · simp at h
  · split at h
    · rename_i h2; simp only [SeqResult.ok.injEq] at h; exact Or.inl ⟨h2, h.symm⟩
    · rename_i h2
      obtain ⟨codes, h1, h3⟩ := ofOpt_ok _ _ out h
      obtain ⟨h4, h5, h6⟩ := markov1_support K (digitalCodes dsq L) (by omega) r codes h1
      exact Or.inr ⟨codes, h3, by omega, h5, h6⟩
end numeric


/-! ## `esl_fatal("unreached code was reached")` is unreachable (exact arithmetic)

`esl_rnd_DChoose` ends in `esl_fatal` when its scan falls off the vector; the theorems above only speak about runs that
return `eslOK`. Read over ℚ (the proved instance of `LawfulCNum`), for EVERY input and EVERY generator state the Markov
resamplers return `eslEINVAL` (exactly on invalid residues) or `eslOK`, never the fatal branch. For `Markov1` this is the
content of the circularisation `p[x][i0] += 1.0` (`utest_markov1_bug`): a residue that occurs only at the end of the input still
has an outgoing pair, so the chain can never move to a row of zeros. The count matrix is characterised exactly on the
way (`markov1Counts_exact`: entry `(x,y)` = number of circular adjacent pairs `(x,y)`). binary64 needs one more IEEE fact
for this (`norm / norm = 1.0` for a finite positive `norm`; the two loops of `DChoose` add the same numbers in the same
order); the differential run has never seen the fatal branch (it would be a `fault` line). -/

/-- `esl_rnd_DChoose` over ℚ: roll in `[0,1)`, non-negative entries, positive sum ⇒ it returns an index in range whose
    entry is positive -/
theorem dchoose_returns (u : ℚ) (hu0 : 0 ≤ u) (hu1 : u < 1) (p : List ℚ) (hp : ∀ q ∈ p, 0 ≤ q) (hs : 0 < p.sum) :
    ∃ k, dchoose u p = some k ∧ k < p.length ∧ ∃ q, p[k]? = some q ∧ 0 < q :=
  dchoose_total u hu0 hu1 p hp hs

/-- **the chooser is the inverse CDF** (exact arithmetic): `esl_rnd_DChoose` returns `k` only for a roll in
    `[ (p₀+…+p_{k-1})/Σp , (p₀+…+p_k)/Σp )`, an interval of length `p_k/Σp` — under a uniform roll, `k` has probability `p_k/Σp`
    (with `dchoose_returns`: the brackets partition `[0,1)`, every roll is in exactly one) -/
theorem dchoose_inverse_cdf (u : ℚ) (hu0 : 0 ≤ u) (p : List ℚ) (hs : 0 < p.sum) (k : Nat) (h : dchoose u p = some k) :
    (p.take k).sum / p.sum ≤ u ∧ u < (p.take (k+1)).sum / p.sum :=
  dchoose_bracket u hu0 p hs k h

/-- the emission vector of `esl_rsq_{C,X}Markov0` is exactly the input's residue frequencies `count(k) / L` -/
theorem markov0_frequencies_exact (K : Nat) (codes : List Nat) (hne : codes ≠ []) (k : Nat) :
    (markov0P (α := ℚ) K codes)[k]? = if k < K then some ((codes.count k : ℚ) / (codes.length : ℚ)) else none :=
  markov0P_getElem? K codes hne k

/-- the conditional row `p[x]` of `esl_rsq_{C,X}Markov1` for a residue `x` of the input is exactly
    `count of circular pairs (x,y) / count of circular pairs (x,·)` -/
theorem markov1_conditional_exact (K c0 : Nat) (rest : List Nat) (hK : ∀ c ∈ c0 :: rest, c < K) (x : Nat) (hx : x ∈ c0 :: rest) :
    (((markov1P (c0 :: rest).length (markov1Counts (α := ℚ) K (c0 :: rest))).1)[x]!).toList =
      (rowL K (c0 :: rest) x).map (fun v => v / (rowL K (c0 :: rest) x).sum) ∧ 0 < (rowL K (c0 :: rest) x).sum :=
  ⟨markov1P_row K c0 rest x (hK x hx) (rowL_sum_pos K _ hK x hx), rowL_sum_pos K _ hK x hx⟩

/-- `esl_rsq_IID / fIID / xIID / xfIID` (and `esl_rsq_SampleDirty` with a provided vector) over ℚ never fall through -/
theorem iid_never_fatal (p : List ℚ) (hp : ∀ q ∈ p, 0 ≤ q) (hs : 0 < p.sum) (L : Nat) (r : Rng) :
    ∃ out, (iidLoop p L r #[]).1 = some out :=
  iidLoop_total p hp hs L r #[]

/-- over ANY number type (binary64 included): if the vector's sum divided by itself is `1` and every `esl_random()` value is
    `< 1` — the IEEE facts L5 that the op `fplaws` checks on every executed call — the i.i.d. loops never reach `esl_fatal`:
    the scan's last running sum IS the norm (same numbers, same order). No ordering law is used. -/
theorem iid_never_fatal_any_number_type {α : Type} [CNum α] (p : List α) (hp : p ≠ [])
    (hself : CNum.div (p.foldl CNum.add CNum.zero) (p.foldl CNum.add CNum.zero) = CNum.one)
    (hu : ∀ x : Nat, x < 4294967296 → CNum.lt (CNum.div (CNum.ofNat x) (CNum.ofNat 4294967296) : α) CNum.one = true)
    (L : Nat) (r : Rng) : ∃ out, (iidLoop p L r #[]).1 = some out :=
  iidLoop_total_abs p hp hself hu L r #[]

/-- exact first-order counts: entry `(x, y)` is the number of occurrences of `(x, y)` among the circular adjacent pairs -/
theorem markov1_counts_exact (K c0 : Nat) (rest : List Nat) (x y : Nat) :
    ent (markov1Counts (α := ℚ) K (c0 :: rest)) x y =
      if x < K ∧ y < K then some (((circPairs (c0 :: rest)).count (x, y) : Nat) : ℚ) else none :=
  markov1Counts_exact K c0 rest x y

theorem cMarkov0_einval_or_ok (s : Bytes) (r : Rng) :
    ((cMarkov0 ℚ s r).1 = .einval ∧ s.any (fun c => !isAlpha c) = true) ∨
    (¬ (s.any (fun c => !isAlpha c) = true) ∧ ∃ out, (cMarkov0 ℚ s r).1 = .ok out) :=
  cMarkov0_total s r

theorem xMarkov0_einval_or_ok (dsq : Bytes) (L K : Nat) (r : Rng) :
    ((xMarkov0 ℚ dsq L K r).1 = .einval ∧ (digitalCodes dsq L).any (fun c => c ≥ K) = true) ∨
    (¬ ((digitalCodes dsq L).any (fun c => c ≥ K) = true) ∧ ∃ out, (xMarkov0 ℚ dsq L K r).1 = .ok out) :=
  xMarkov0_total dsq L K r

/-- **`esl_rsq_CMarkov1` never reaches `esl_fatal`** (the `markov1_bug` family, for every input) -/
theorem cMarkov1_einval_or_ok (s : Bytes) (r : Rng) :
    ((cMarkov1 ℚ s r).1 = .einval ∧ s.any (fun c => !isAlpha c) = true) ∨
    (¬ (s.any (fun c => !isAlpha c) = true) ∧ ∃ out, (cMarkov1 ℚ s r).1 = .ok out) :=
  cMarkov1_total s r

theorem xMarkov1_einval_or_ok (dsq : Bytes) (L K : Nat) (hL : L + 2 ≤ dsq.size) (r : Rng) :
    ((xMarkov1 ℚ dsq L K r).1 = .einval ∧ (digitalCodes dsq L).any (fun c => c ≥ K) = true) ∨
    (¬ ((digitalCodes dsq L).any (fun c => c ≥ K) = true) ∧ ∃ out, (xMarkov1 ℚ dsq L K r).1 = .ok out) :=
  xMarkov1_total dsq L K hL r

/-- the vector that `esl_rsq_SampleDirty` samples when the caller provides none (binary64 model, executed by the driver)
    has `Kp` entries and is exactly `0.0` at the gap, nonresidue and missing-data codes: the hypotheses of
    `sampleDirty_never_gap` hold for it by construction -/
theorem sampleDirty_sampled_vector_zeros (K Kp : Nat) (h : K + 3 ≤ Kp) (r : Rng) :
    (dirtyP K Kp r).1.size = Kp ∧ (dirtyP K Kp r).1[K]? = some 0.0 ∧ (dirtyP K Kp r).1[Kp - 2]? = some 0.0 ∧
      (dirtyP K Kp r).1[Kp - 1]? = some 0.0 :=
  dirtyP_zeros K Kp h r

/-! ## the binary64 facts L1–L5 over an IEEE-754 carrier (round 6)

`LawfulCNum`'s fields are now stated so that each holds for EVERY binary64 value (the former `a + 0.0 = a` fails at `-0.0`), and
they are PROVED — not trusted — for `Ieee ρ`: NaN, ±inf, ±0 and the non-zero representable rationals, operations = the exact
result delivered through ANY monotone idempotent rounding `ρ` whose representable numbers include the 33-bit integers and the
fractions `k/2^32`, special values by the tables of IEEE 754 §6 (`IeeeCarrier.lean`). So every support theorem of the section
`numeric` holds verbatim for `α = Ieee ρ`, and the "never `esl_fatal`" theorem holds for it without any hypothesis on the
arithmetic. What is left to trust about C `double` / Lean `Float` is that they ARE such a carrier (round-to-nearest-even on 53-bit
significands) — one statement; the op `fplaws` still evaluates the five facts on every executed value, in C and in Lean. -/

/-- **L1–L4** for every value of the carrier, signed zeros / infinities / NaN included, for every monotone rounding -/
theorem ieee_carrier_lawful (ρ : Rounding) : LawfulCNum (Ieee ρ) := ieee_lawful ρ

/-- **L5**: `norm / norm = 1.0` for every finite non-zero `norm`, and `esl_random() = x / 2^32 < 1.0` for every 32-bit `x` -/
theorem ieee_L5 (ρ : Rounding) :
    (∀ (a : Ieee ρ) (q : ℚ), a.1 = .fin q → CNum.div a a = (CNum.one : Ieee ρ)) ∧
    (∀ x : Nat, x < 4294967296 → CNum.lt (CNum.div (CNum.ofNat x) (CNum.ofNat 4294967296) : Ieee ρ) CNum.one = true) :=
  ⟨ieee_div_self ρ, ieee_random_lt_one ρ⟩

/-- i.i.d. generation in ROUNDED arithmetic: `L` symbols, each of non-zero probability (an instance of `iid_support`; `-0.0` is
    not `CNum.zero`, but an entry `-0.0` is never chosen either: `iid_support_ieee_negzero`) -/
theorem iid_support_ieee (ρ : Rounding) (p : List (Ieee ρ)) (L : Nat) (r : Rng) (out : Array Nat)
    (h : (iidLoop p L r #[]).1 = some out) : out.size = L ∧ ∀ k ∈ out, ∃ q, p[k]? = some q ∧ q ≠ CNum.zero :=
  iid_support p L r out h

/-- … at full strength for binary64's two zeros: no emitted symbol has probability `+0.0` OR `-0.0` (`p[k] == 0.0` in C) -/
theorem iid_support_ieee_negzero (ρ : Rounding) (p : List (Ieee ρ)) (L : Nat) (r : Rng) (out : Array Nat)
    (h : (iidLoop p L r #[]).1 = some out) : out.size = L ∧ ∀ k ∈ out, ∃ q, p[k]? = some q ∧ ¬ IsZero ρ q := by
  have := iidLoop_support_notZ (IsZero ρ) (ieee_add_zero_cmp ρ) p
    (fun x => LawfulCNum.not_lt_zero_div x 4294967296 _) L r #[] out h (by simp)
  simpa using this

/-- **never `esl_fatal`, in rounded arithmetic**: whatever the rounding, if the vector's computed sum is a finite non-zero value,
    `esl_rsq_IID / fIID / xIID / xfIID` return — entries of any sign, zeros, even NaN entries are allowed as long as the sum is finite -/
theorem iid_never_fatal_ieee (ρ : Rounding) (p : List (Ieee ρ)) (hp : p ≠ []) (q : ℚ)
    (hnorm : (p.foldl CNum.add CNum.zero).1 = .fin q) (L : Nat) (r : Rng) : ∃ out, (iidLoop p L r #[]).1 = some out :=
  iidLoop_total_abs p hp (ieee_div_self ρ _ q hnorm) (ieee_random_lt_one ρ) L r #[]

/-- **`esl_rsq_{C,X}Markov0` never reach `esl_fatal` in ROUNDED arithmetic** (any monotone rounding, every input of at most `2^32`
    residues, every generator state): the counts are exact integers, `count/L` is `+0.0` or in `[2^-32, 1]`, the running sums stay
    finite and turn positive at the first non-zero entry, so `norm/norm = 1.0 > esl_random()`. `eslEINVAL` exactly on invalid input. -/
theorem cMarkov0_einval_or_ok_ieee (ρ : Rounding) (s : Bytes) (hs : s.size ≤ 4294967296) (r : Rng) :
    ((cMarkov0 (Ieee ρ) s r).1 = .einval ∧ s.any (fun c => !isAlpha c) = true) ∨
    (¬ (s.any (fun c => !isAlpha c) = true) ∧ ∃ out, (cMarkov0 (Ieee ρ) s r).1 = .ok out) :=
  cMarkov0_total_ieee ρ s hs r

theorem xMarkov0_einval_or_ok_ieee (ρ : Rounding) (dsq : Bytes) (L K : Nat) (hL : L ≤ 4294967296) (hK : K ≤ 4294967296) (r : Rng) :
    ((xMarkov0 (Ieee ρ) dsq L K r).1 = .einval ∧ (digitalCodes dsq L).any (fun c => c ≥ K) = true) ∨
    (¬ ((digitalCodes dsq L).any (fun c => c ≥ K) = true) ∧ ∃ out, (xMarkov0 (Ieee ρ) dsq L K r).1 = .ok out) :=
  xMarkov0_total_ieee ρ dsq L K hL hK r

/-- **`esl_rsq_{C,X}Markov1` never reach `esl_fatal` in ROUNDED arithmetic** — the `markov1_bug` family closed for binary64-like
    arithmetic, not only over ℚ: the circularised counts are exact integers, every residue of the input has a circular successor, so
    its row sum `p0[x]` is an exact positive integer `≤ L`, its conditional row has entries in `{+0.0} ∪ [2^-32, 1]` with a positive one,
    the computed `norm` is finite and positive, and the residue `DChoose` returns is again a residue of the input -/
theorem cMarkov1_einval_or_ok_ieee (ρ : Rounding) (s : Bytes) (hs : s.size ≤ 4294967296) (r : Rng) :
    ((cMarkov1 (Ieee ρ) s r).1 = .einval ∧ s.any (fun c => !isAlpha c) = true) ∨
    (¬ (s.any (fun c => !isAlpha c) = true) ∧ ∃ out, (cMarkov1 (Ieee ρ) s r).1 = .ok out) :=
  cMarkov1_total_ieee ρ s hs r

theorem xMarkov1_einval_or_ok_ieee (ρ : Rounding) (dsq : Bytes) (L K : Nat) (hL : L + 2 ≤ dsq.size) (hLb : L ≤ 4294967296)
    (hKb : K ≤ 4294967296) (r : Rng) :
    ((xMarkov1 (Ieee ρ) dsq L K r).1 = .einval ∧ (digitalCodes dsq L).any (fun c => c ≥ K) = true) ∨
    (¬ ((digitalCodes dsq L).any (fun c => c ≥ K) = true) ∧ ∃ out, (xMarkov1 (Ieee ρ) dsq L K r).1 = .ok out) :=
  xMarkov1_total_ieee ρ dsq L K hL hLb hKb r

/-- the count matrix in rounded arithmetic holds the exact integers (entry = number of circular adjacent pairs) -/
theorem markov1_counts_exact_ieee (ρ : Rounding) (K c0 : Nat) (rest : List Nat) (hlen : (c0 :: rest).length ≤ 4294967296) (x y : Nat) :
    ent (markov1Counts (α := Ieee ρ) K (c0 :: rest)) x y =
      if x < K ∧ y < K then some (CNum.ofNat ((circPairs (c0 :: rest)).count (x, y))) else none :=
  markov1Counts_ieee ρ K c0 rest hlen x y

/-- i.i.d. generation from a probability-like vector in ROUNDED arithmetic (at most `2^32` entries, each `+0.0` or in `(0,1]`, one
    positive; the computed sum need not be `1.0`): `esl_rsq_IID / fIID / xIID / xfIID` return, and emit only symbols of non-zero probability -/
theorem iid_complete_ieee (ρ : Rounding) (p : List (Ieee ρ)) (hlen : p.length ≤ 4294967296) (hent : ∀ q ∈ p, Sm 1 q.1)
    (hpos : ∃ q ∈ p, Pos q.1) (L : Nat) (r : Rng) :
    ∃ out, (iidLoop p L r #[]).1 = some out ∧ out.size = L ∧ ∀ k ∈ out, ∃ q, p[k]? = some q ∧ ¬ IsZero ρ q := by
  obtain ⟨out, h⟩ := iidLoop_total_ieee ρ p hlen hent hpos L r #[]
  exact ⟨out, h, iid_support_ieee_negzero ρ p L r out h⟩

/-- hypotheses of `iid_complete_ieee` on a concrete vector under a lossy rounding: `[1/3, +0.0, 1/3]` -/
example : Sm 1 (CNum.div (CNum.ofNat 1) (CNum.ofNat 3) : Ieee gridRounding).1 ∧ Pos (CNum.div (CNum.ofNat 1) (CNum.ofNat 3) : Ieee gridRounding).1 ∧
    Sm 1 (CNum.zero : Ieee gridRounding).1 :=
  ⟨(ratio_ieee gridRounding 1 3 (by norm_num) (by norm_num) (by norm_num)).1,
   (ratio_ieee gridRounding 1 3 (by norm_num) (by norm_num) (by norm_num)).2 (by norm_num), Or.inl rfl⟩

/-- **order-1 Markov resampling, complete statement in rounded arithmetic**: for every alphabetic text of at most `2^32` characters,
    every generator state and every monotone rounding, `esl_rsq_CMarkov1` returns `eslOK`, and the output is the input itself
    (length `≤ 2`) or has the input's length, starts with a residue of the input and contains only adjacent pairs of the input read circularly -/
theorem cMarkov1_complete_ieee (ρ : Rounding) (s : Bytes) (hs : s.size ≤ 4294967296) (hal : ¬ (s.any (fun c => !isAlpha c) = true)) (r : Rng) :
    ∃ out, (cMarkov1 (Ieee ρ) s r).1 = .ok out ∧
      ((s.size ≤ 2 ∧ out = s) ∨
       ∃ codes, out = ofCodesText codes ∧ codes.size = s.size ∧ (∀ pr ∈ adjPairs codes.toList, pr ∈ circPairs (textCodes s)) ∧
         ∃ x, codes.toList.head? = some x ∧ x ∈ textCodes s) := by
  rcases cMarkov1_einval_or_ok_ieee ρ s hs r with ⟨_, h⟩ | ⟨_, out, h⟩
  · exact absurd h hal
  · exact ⟨out, h, cMarkov1_spec s r out h⟩

theorem xMarkov1_complete_ieee (ρ : Rounding) (dsq : Bytes) (L K : Nat) (hL : L + 2 ≤ dsq.size) (hLb : L ≤ 4294967296) (hKb : K ≤ 4294967296)
    (hval : ¬ ((digitalCodes dsq L).any (fun c => c ≥ K) = true)) (r : Rng) :
    ∃ out, (xMarkov1 (Ieee ρ) dsq L K r).1 = .ok out ∧
      ((L ≤ 2 ∧ out = dsq) ∨
       ∃ codes, out = ofCodesDigital codes ∧ codes.size = L ∧ (∀ pr ∈ adjPairs codes.toList, pr ∈ circPairs (digitalCodes dsq L)) ∧
         ∃ x, codes.toList.head? = some x ∧ x ∈ digitalCodes dsq L) := by
  rcases xMarkov1_einval_or_ok_ieee ρ dsq L K hL hLb hKb r with ⟨_, h⟩ | ⟨_, out, h⟩
  · exact absurd h hval
  · exact ⟨out, h, xMarkov1_spec dsq L K hL r out h⟩

/-- order-0, same form: `eslOK`, same length, only residues of the input -/
theorem cMarkov0_complete_ieee (ρ : Rounding) (s : Bytes) (hs : s.size ≤ 4294967296) (hal : ¬ (s.any (fun c => !isAlpha c) = true)) (r : Rng) :
    ∃ out, (cMarkov0 (Ieee ρ) s r).1 = .ok out ∧
      ∃ codes, out = ofCodesText codes ∧ codes.size = s.size ∧ ∀ k ∈ codes, k ∈ textCodes s := by
  rcases cMarkov0_einval_or_ok_ieee ρ s hs r with ⟨_, h⟩ | ⟨_, out, h⟩
  · exact absurd h hal
  · exact ⟨out, h, cMarkov0_spec s r out h⟩

theorem xMarkov0_complete_ieee (ρ : Rounding) (dsq : Bytes) (L K : Nat) (hL : L + 2 ≤ dsq.size) (hLb : L ≤ 4294967296) (hKb : K ≤ 4294967296)
    (hval : ¬ ((digitalCodes dsq L).any (fun c => c ≥ K) = true)) (r : Rng) :
    ∃ out, (xMarkov0 (Ieee ρ) dsq L K r).1 = .ok out ∧
      ∃ codes, out = ofCodesDigital codes ∧ codes.size = L ∧ ∀ k ∈ codes, k ∈ digitalCodes dsq L := by
  rcases xMarkov0_einval_or_ok_ieee ρ dsq L K hLb hKb r with ⟨_, h⟩ | ⟨_, out, h⟩
  · exact absurd h hval
  · exact ⟨out, h, xMarkov0_spec dsq L K hL r out h⟩

/-- non-vacuity: an alphabetic text, a valid digital sequence -/
example : ¬ ((#[65, 66, 67, 65] : Bytes).any (fun c => !isAlpha c) = true) := by decide +kernel
example : ¬ ((digitalCodes (#[255, 0, 1, 2, 255] : Bytes) 3).any (fun c => c ≥ 4) = true) := by decide +kernel
/-- non-vacuity of the size hypotheses -/
example : (#[65, 66, 65] : Bytes).size ≤ 4294967296 := by decide

/-- non-vacuity: a rounding that really rounds (half up to multiples of `2^-32`, overflow above `2^32`); `1/3` is not representable;
    a sum in it; the chooser on `[1/3, 1/3, 1/3]` (computed sum `4294967295/4294967296`, not `1`) with roll `1/2` -/
example : Rounding := gridRounding
example : (CNum.div (CNum.ofNat 1) (CNum.ofNat 3) : Ieee gridRounding).1 = .fin (1431655765 / 4294967296) := by decide +kernel
example : (([CNum.ofNat 1, CNum.ofNat 3] : List (Ieee gridRounding)).foldl CNum.add CNum.zero).1 = .fin 4 := by decide +kernel
example : let t : Ieee gridRounding := CNum.div (CNum.ofNat 1) (CNum.ofNat 3)
    ([t, t, t].foldl CNum.add CNum.zero).1 = .fin (4294967295 / 4294967296) ∧
    dchoose (CNum.div (CNum.ofNat 1) (CNum.ofNat 2)) [t, t, t] = some 1 := by decide +kernel
/-- the law that was wrong for binary64: `-0.0 + 0.0` is `+0.0`, not `-0.0` (so `a + 0.0 = a` is not a law), while the comparison form holds -/
example : Raw.add exactRounding (.zero true) (.zero false) = .zero false ∧ Raw.zero true ≠ Raw.zero false := by decide

/-! ## roll exactly `0.0` (round 6b)
`esl_random() = 0.0` (raw generator word 0) sits on the boundary of the scan's strict `<`: leading entries of probability zero must be
skipped. The differential run forces this roll at EVERY draw of IID / Markov-0 / Markov-1 (`poke raw=0 n=620`, cases `zero-roll-*`)
and the plug-in's monitor demands exactly the output these theorems describe. -/

/-- over ℚ: non-negative entries, positive sum, roll `0` ⇒ the chooser returns the FIRST positive entry -/
theorem dchoose_zero_roll_first_positive (p : List ℚ) (hp : ∀ q ∈ p, 0 ≤ q) (hs : 0 < p.sum) :
    ∃ k, dchoose (0 : ℚ) p = some k ∧ (∀ j, j < k → ∀ q, p[j]? = some q → q = 0) ∧ ∃ q, p[k]? = some q ∧ 0 < q :=
  dchoose_zero_roll p hp hs

/-- in rounded arithmetic: the value of `esl_random()` for the raw word 0 is `+0.0`; leading `+0.0` / `-0.0` entries are skipped and
    the first finite entry whose computed quotient by `norm` is positive is returned -/
theorem dchoose_zero_roll_first_positive_ieee (ρ : Rounding) (zs : List (Ieee ρ)) (pk : Ieee ρ) (rest : List (Ieee ρ)) (s : ℚ)
    (hz : ∀ z ∈ zs, IsZero ρ z) (hpk : pk.1 = .fin s)
    (hlt : CNum.lt (CNum.zero : Ieee ρ) (CNum.div pk ((zs ++ pk :: rest).foldl CNum.add CNum.zero)) = true) :
    dchoose (CNum.div (CNum.ofNat 0) (CNum.ofNat 4294967296) : Ieee ρ) (zs ++ pk :: rest) = some zs.length :=
  dchoose_zero_roll_ieee ρ zs pk rest s hz hpk hlt

/-- non-vacuity: `[0, 0, 1/4, 3/4]` over ℚ; `[+0, -0, 1/3, 1/3]` under the lossy `gridRounding` (roll 0 selects index 2) -/
example : (∀ q ∈ ([0, 0, 1/4, 3/4] : List ℚ), 0 ≤ q) ∧ 0 < ([0, 0, 1/4, 3/4] : List ℚ).sum ∧ dchoose (0 : ℚ) [0, 0, 1/4, 3/4] = some 2 := by
  refine ⟨?_, by norm_num, by decide +kernel⟩
  intro q hq; simp at hq; rcases hq with h | h | h <;> rw [h] <;> norm_num
example : let t : Ieee gridRounding := CNum.div (CNum.ofNat 1) (CNum.ofNat 3)
    let nz : Ieee gridRounding := ⟨.zero true, trivial⟩
    t.1 = .fin (1431655765 / 4294967296) ∧ IsZero gridRounding nz ∧
    CNum.lt (CNum.zero : Ieee gridRounding) (CNum.div t (([CNum.zero, nz] ++ t :: [t]).foldl CNum.add CNum.zero)) = true ∧
    dchoose (CNum.div (CNum.ofNat 0) (CNum.ofNat 4294967296) : Ieee gridRounding) ([CNum.zero, nz] ++ t :: [t]) = some 2 :=
  ⟨by decide +kernel, ⟨true, rfl⟩, by decide +kernel, by decide +kernel⟩

/-- non-vacuity: the rationals are a lawful number type, so the theorems above apply to the code read in exact arithmetic -/
example : LawfulCNum ℚ := inferInstance

/-! non-vacuity: concrete instances of the hypotheses -/
example : (3 : Nat) + 2 ≤ (#[255, 1, 2, 3, 255] : Bytes).size := by decide
example : ∀ k (hk : k < (#[#[1, 2, 3], #[4, 5, 6]] : Array Bytes).size), 0 + 3 ≤ (#[#[1, 2, 3], #[4, 5, 6]] : Array Bytes)[k].size := by decide
/-- a run of the DP shuffle that returns `ok` (legacy LCG generator, seed 1): hypotheses of `shuffleDP_ok` are satisfiable -/
example : (shuffleDPcore 3 [0,1,2,0,1,0] (Rng.create .fast 1)).1 = .ok #[0, 1, 0, 1, 2, 0] := by decide +kernel
example : (∀ c ∈ [0,1,2,0,1,0], c < 3) ∧ 2 < [0,1,2,0,1,0].length := by decide
example : (reverse false (#[1, 2, 3] : Array Nat) #[0, 0, 0] 0 3) = #[3, 2, 1] := by decide
example : (reverse true (#[1, 2, 3, 4] : Array Nat) #[1, 2, 3, 4] 0 4) = #[4, 3, 2, 1] := by decide

/-- hypotheses of the bijection theorems are satisfiable: distinct entries, a target arrangement, the frame condition -/
example : (#[0,1,2] : Array Nat).toList.Nodup ∧ (#[2,0,1] : Array Nat).toList.Perm (#[0,1,2] : Array Nat).toList := by decide
example : ∃ rs, ValidRolls 3 rs ∧ cShuffleRolls (#[0,1,2] : Array Nat) rs = #[2,0,1] := ⟨[1,0], by simp [ValidRolls], by decide⟩
example : (#[0,2,1,3] : Array Nat).toList.Perm (Array.range 4).toList ∧
    ∀ p, (p < 1 ∨ 1 + 2 ≤ p) → (#[0,2,1,3] : Array Nat)[p]? = (Array.range 4)[p]? := by
  refine ⟨by decide, fun p hp => ?_⟩
  rcases hp with hp | hp
  · have : p = 0 := by omega
    subst this; rfl
  · by_cases h3 : p = 3
    · subst h3; rfl
    · rw [Array.getElem?_eq_none (by simp; omega), Array.getElem?_eq_none (by simp; omega)]
example : sampleClass 5 = some isDigitB ∧ (sampleTable isDigitB).size = 10 := ⟨rfl, by decide⟩
/-- the six in-range roll vectors of a 3-element shuffle give the six arrangements -/
example : ([[0,0],[0,1],[1,0],[1,1],[2,0],[2,1]].map (cShuffleRolls #[0,1,2])).Nodup ∧
    cShuffleRolls #[10,20,30] [0,0] = #[20,30,10] := by decide
example : cWinD = 0 ∨ cWinD = 1 := by decide
example : fact 4 = 24 ∧ (allRolls 4).length = 24 ∧ [3,1,0] ∈ allRolls 4 := by decide
example : ValidRolls 3 [2,1] ∧ ¬ ValidRolls 3 [3,0] ∧ ¬ ValidRolls 3 [0,2] := by simp [ValidRolls]
/-- a biased variant (`Roll(n)` with the same `n` at every step: roll vectors from `{0,1,2}²` for three elements, 9 vectors
    onto 6 arrangements) is not injective on its rolls — the kind of loop the bijection theorem excludes -/
example : cShuffleRolls #[0,1,2] [0,2] = cShuffleRolls #[0,1,2] [1,0] := by decide
/-- the rejection interval of `Roll(3)`: only the word `2^32-1` is rejected -/
example : rollWord 3 (2^32-1) = none ∧ rollWord 3 (2^32-2) = some 2 := by decide
/-- input `0 1 2 1 2 0` over 3 vertices (edge lists `0:[1] 1:[2,2] 2:[1,0]`, `sf = 0`): selecting `2→1` is rejected by the
    connectivity test (the retry loop is live), selecting `2→0` is accepted -/
example : dpAccepted 3 0 (dpSelectLastRolls 0 (List.range 3) (dpBuild 3 [0,1,2,1,2,0]) [0, 0]) = false ∧
    dpAccepted 3 0 (dpSelectLastRolls 0 (List.range 3) (dpBuild 3 [0,1,2,1,2,0]) [0, 1]) = true := by decide
example : ∃ rs, DpValidRolls 0 (List.range 3) (dpBuild 3 [0,1,2,1,2,0]) rs ∧
    dpAccepted 3 0 (dpSelectLastRolls 0 (List.range 3) (dpBuild 3 [0,1,2,1,2,0]) rs) = true :=
  exists_accepting_rolls 3 [0,1,2,1,2,0] (by decide) (by decide) _ (PermEdges.refl _)

/-- `Roll(3)` on a word stream: two rejected words (only `2^32-1` is rejected), then `5` is accepted with value `0`;
    a still-running history; the hypotheses of `dpRetry_accepting_words_exist` on a concrete input -/
example : rollOn 3 [2^32-1, 2^32-1, 5, 7] = some (0, [7]) ∧ rollOn 3 [2^32-1, 2^32-1] = none := by decide
example : ∃ ws E', (∀ w ∈ ws, w < 2^32) ∧ dpSelectLastOn 0 (List.range 3) (dpBuild 3 [0,1,2,1,2,0]) ws = some (E', []) ∧
    dpAccepted 3 0 E' = true :=
  dpRetry_accepting_words_exist 3 [0,1,2,1,2,0] (by decide) (by decide) _ (PermEdges.refl _) (by
    intro v
    by_cases h : v < 3
    · have : v = 0 ∨ v = 1 ∨ v = 2 := by omega
      rcases this with e | e | e <;> subst e <;> decide
    · have : (dpBuild 3 [0,1,2,1,2,0])[v]! = #[] := by
        rw [getElem!_neg]; · rfl
        · simpa [dpBuild] using h
      simp [elist, this])

/-- the rebuilt index on distinct names, and what the code does with a duplicated one (`b` gets number 1 although it is row 2) -/
example : rebuildIndex ["a", "b", "c"] = ["a", "b", "c"] ∧ indexLookup (rebuildIndex ["a", "a", "b"]) "b" = some 1 := by decide

example : (cShuffleOut (#[1, 2, 3] : Array Nat) (.separate #[9, 9, 9]) (Rng.create .fast 1)).1 =
    (cShuffleOut (#[1, 2, 3] : Array Nat) .inPlace (Rng.create .fast 1)).1 := by decide +kernel

/-- a seeded generator is such a state -/
example : (Rng.create .mersenne 42).kind = .mersenne ∧ (Rng.create .mersenne 42).st.mt.size = 624 := by decide +kernel

/-- hypotheses of `dchoose_returns` / `iid_never_fatal` on a concrete vector; the markov1_bug input `AAAAAAAAAB` has the pair
    `(B, A)` only through the circularisation -/
example : (∀ q ∈ ([0, 1/4, 3/4, 0] : List ℚ), 0 ≤ q) ∧ 0 < ([0, 1/4, 3/4, 0] : List ℚ).sum := by
  constructor
  · intro q hq; simp at hq; rcases hq with h | h | h | h <;> rw [h] <;> norm_num
  · norm_num
example : (1, 0) ∈ circPairs [0,0,0,0,0,0,0,0,0,1] ∧ (1, 0) ∉ adjPairs [0,0,0,0,0,0,0,0,0,1] := by decide

/-- the hypotheses of `iid_never_fatal_any_number_type` hold for the rationals (vector `[1/2, 1/2]`) -/
example : ∃ out, (iidLoop ([1/2, 1/2] : List ℚ) 3 (Rng.create .fast 1) #[]).1 = some out :=
  iid_never_fatal_any_number_type _ (by simp)
    (by show ((0 : ℚ) + 1/2 + 1/2) / ((0 : ℚ) + 1/2 + 1/2) = 1; norm_num)
    (fun x hx => by
      show decide (((x : ℚ)) / ((4294967296 : Nat) : ℚ) < 1) = true
      rw [decide_eq_true_iff, div_lt_one (by positivity)]
      exact_mod_cast hx) 3 _

/-- hypotheses of `dchoose_inverse_cdf` (the roll `1/2` on `[1/4, 3/4]` selects index 1: `1/4 ≤ 1/2 < 1`), of
    `qrna_inplace_eq_separate` / `msaShuffle_inplace_eq_separate` (separate storage of the input's size) and of `markov1_conditional_exact` -/
example : dchoose (1/2 : ℚ) [1/4, 3/4] = some 1 ∧ 0 < ([1/4, 3/4] : List ℚ).sum := by
  constructor
  · decide +kernel
  · norm_num
example : ∀ d, (Out.separate (#[1, 2] : Bytes)) = .separate d → d.size = (#[3, 4] : Bytes).size := by
  intro d h; cases h; rfl
example : (#[#[9, 9], #[9, 9]] : Array Bytes).size = (#[#[1, 2], #[3, 4]] : Array Bytes).size := rfl
example : (∀ c ∈ [0, 1, 0], c < 2) ∧ 1 ∈ [0, 1, 0] := by decide

/-- how small the per-pass acceptance of the `while (!is_eulerian)` loop gets on sorted runs: for `A⁴B` exactly 1 of the 4 in-range
    last-edge rolls is accepted, for `A³B³C` exactly 1 of the 9 roll vectors — in general 1 of (product of the run lengths), so
    the expected number of passes of `esl_rsq_{C,X}ShuffleDP` on `A^1250 C^1250 G^1250 T^1250` is about `2·10⁹`
    (termination with probability 1 holds, `dpRetry_every_pass_can_accept`; the running time is another matter) -/
example : ((List.range 4).filter (fun pos =>
    dpAccepted 2 1 (dpSelectLastRolls 1 (List.range 2) (dpBuild 2 [0,0,0,0,1]) [pos]))) = [3] := by decide
example : ((List.range 3).flatMap (fun p0 => (List.range 3).map (fun p1 => (p0, p1)))).filter (fun pr =>
    dpAccepted 3 2 (dpSelectLastRolls 2 (List.range 3) (dpBuild 3 [0,0,0,1,1,1,2]) [pr.1, pr.2])) = [(2, 2)] := by decide

end EaselModel.Props.C18
