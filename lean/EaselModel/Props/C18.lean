import EaselModel.Shuffle.Lemmas
import EaselModel.Shuffle.LemmasRev
import EaselModel.Shuffle.LemmasMsa
import EaselModel.Shuffle.LemmasKmer
import EaselModel.Shuffle.LemmasMarkov1
import EaselModel.Shuffle.LemmasDP
import EaselModel.Shuffle.LemmasBEST
import EaselModel.Shuffle.LemmasQrna
import EaselModel.Shuffle.LemmasVShuffle
import EaselModel.Shuffle.LemmasRetry
import EaselModel.Shuffle.LemmasSample
import EaselModel.Shuffle.LawfulRat
/-! # C18 — property theorems (statements + glue only; lemmas live in Shuffle/*.lean)

Every theorem quantifies over every input and every generator state `r : Rng` (hence every seed and every history of
the generator). Determinism is by construction: every routine is a function of its input and `r`, and returns the
advanced generator state. `Array.Perm a b` is `List.Perm a.toList b.toList`: the same multiset of entries. -/
namespace EaselModel.Props.C18
open EaselModel.Random EaselModel.Shuffle

/-! ## plain shuffles -/
/-- `esl_rsq_CShuffle` (and `esl_vec_{D,F,I,L}Shuffle`): same length, same residue counts -/
theorem cShuffle_perm {α : Type} (s : Array α) (r : Rng) :
    (cShuffle s r).1.size = s.size ∧ (cShuffle s r).1.Perm s := by
  have h := fyLoop_inv (fun (a : Array α) i j => a.swapIfInBounds i j) 0 s.size (RegionPerm 0 s.size s)
    (fun a i j ha _ hi _ hj => ha.swap (Nat.le_refl _) i j (by omega) (by omega) (by omega) (by omega))
    s.size (Nat.le_refl _) s r (RegionPerm.refl _ _ _)
  exact ⟨h.size, h.perm_all⟩

/-- `esl_rsq_XShuffle(r, dsq, L, shuffled)` on the whole array `dsq[0..L+1]`: length kept, both sentinels (everything
    outside `1..L`) untouched, residues `1..L` permuted -/
theorem xShuffle_spec (dsq : Bytes) (L : Nat) (h : L + 2 ≤ dsq.size) (r : Rng) :
    RegionPerm 1 (1 + L) dsq (xShuffle dsq L r).1 :=
  xShuffle_regionPerm dsq L h r

/-! ## window shuffles: same residue counts inside every window -/
/-- `esl_rsq_CShuffleWindows(r, s, w, shuffled)`, `w ≥ 1`: window `k` = positions `[k·w, min(L,(k+1)·w))` -/
theorem cShuffleWindows_spec {α : Type} (s : Array α) (w : Nat) (hw : 0 < w) (r : Rng) :
    WinPerm w 0 s.size s (cShuffleWindows s w r).1 :=
  winOuter_winPerm 0 w 0 s.size (by omega) hw s (by omega) s.size r

/-- `esl_rsq_XShuffleWindows(r, dsq, L, w, shuffled)`: window `k` = array positions `[1+k·w, min(1+L, 1+(k+1)·w))`;
    sentinels untouched -/
theorem xShuffleWindows_spec (dsq : Bytes) (L w : Nat) (hw : 0 < w) (h : L + 2 ≤ dsq.size) (r : Rng) :
    WinPerm w 1 L dsq (xShuffleWindows dsq L w r).1 :=
  winOuter_winPerm 1 w 1 L (by omega) hw dsq (by omega) L r

/-! ## reversal = mirror image, in place or not -/
/-- `esl_rsq_CReverse(s, rev)` with separate storage `rev` (any previous content) -/
theorem cReverse_spec {α : Type} [Inhabited α] (s rev : Array α) (h : s.size ≤ rev.size) :
    ((reverse false s rev 0 s.size).extract 0 s.size).toList = s.toList.reverse := by
  have := reverse_toList false s rev 0 s.size (by omega) (by omega) (by simp)
  simpa using this

/-- `esl_rsq_CReverse(s, s)`: in place -/
theorem cReverse_inplace_spec {α : Type} [Inhabited α] (s : Array α) :
    (reverse true s s 0 s.size).toList = s.toList.reverse := by
  have h1 := reverse_toList true s s 0 s.size (by omega) (by omega) (by simp)
  have h2 := (reverse_spec true s s 0 s.size (by omega) (by omega) (by simp)).1
  generalize reverse true s s 0 s.size = R at h1 h2
  have e : R.extract 0 (0 + s.size) = R := by rw [Nat.zero_add, ← h2]; simp
  rw [e] at h1
  simpa using h1

/-- `esl_rsq_XReverse(dsq, L, rev)`: residues `1..L` mirrored (in place or not); the C code then sets both sentinels -/
theorem xReverse_spec (al : Bool) (dsq rev : Bytes) (L : Nat) (h : L + 2 ≤ dsq.size) (h' : L + 2 ≤ rev.size)
    (hal : al = true → rev = dsq) :
    ((reverse al dsq rev 1 L).extract 1 (1 + L)).toList = ((dsq.extract 1 (1 + L)).toList).reverse :=
  reverse_toList al dsq rev 1 L (by omega) (by omega) hal

/-- in place = out of place, on the residues -/
theorem reverse_inplace_eq {α : Type} [Inhabited α] (src dst : Array α) (base L : Nat)
    (hsrc : base + L ≤ src.size) (hdst : base + L ≤ dst.size) :
    (reverse true src src base L).extract base (base + L) = (reverse false src dst base L).extract base (base + L) := by
  apply Array.toList_inj.mp
  rw [reverse_toList true src src base L hsrc hsrc (by simp), reverse_toList false src dst base L hsrc hdst (by simp)]

/-! ## alignment shufflers -/
/-- `esl_msashuffle_Shuffle` (`base = 0` text, `base = 1` digital): the output columns are the input columns, each exactly
    once (a permutation of the list of columns, entries of a column kept together); other columns (the digital
    sentinels), the number of rows and the row lengths are untouched -/
theorem msaShuffle_spec {α : Type} (base alen : Nat) (rows : Array (Array α))
    (hlen : ∀ k (hk : k < rows.size), base + alen ≤ rows[k].size) (r : Rng) :
    RowsInv base alen rows (msaShuffle base rows alen r).1 :=
  fy_multiSwap_spec base alen rows hlen r

/-- `esl_msashuffle_PermuteSequenceOrder`: `arrays` are the per-sequence arrays (aseq/ax, sqname, wgt, sqacc, sqdesc, ss,
    sa, pp, sqlen, …, gs[tag], gr[tag]); "column" `i` is the record of sequence `i` across all of them. The output
    records are a permutation of the input records: every row keeps its name, weight and annotation. -/
theorem permuteSeqOrder_spec {α : Type} (nseq : Nat) (arrays : Array (Array α))
    (hlen : ∀ k (hk : k < arrays.size), nseq ≤ arrays[k].size) (r : Rng) :
    RowsInv 0 nseq arrays (permuteSeqOrder arrays nseq r).1 :=
  fy_multiSwap_spec 0 nseq arrays (by simpa using hlen) r

/-- `esl_msashuffle_Bootstrap`: every output column is one of the input columns -/
theorem bootstrap_only_input_columns (base alen : Nat) (msa boot : Array Bytes) (hsz : boot.size = msa.size)
    (hm : ∀ k (hk : k < msa.size), base + alen ≤ msa[k].size)
    (hb : ∀ k (hk : k < boot.size), base + alen ≤ boot[k].size) (r : Rng) :
    ∀ p, p < alen → ∃ col, col < alen ∧ column (bootstrap base alen msa boot r).1 (base + p) = column msa (base + col) :=
  (bootstrap_spec base alen msa boot hsz hm hb r).done



/-- `esl_msashuffle_VShuffle` (digital; `msa` rows are the arrays `ax[i][0..alen+1]`, `gap` = the alphabet's gap code `K`),
    called with `shuf` = `msa` (in place) or a clone of it: every column `1..alen` of the result has the same multiset of
    symbols as the input column and the same gap positions; sentinel columns, row count and row lengths are untouched.
    The result does not depend on `inplace`'s reading path (both read the still-unmodified column). -/
theorem vShuffle_spec (gap : UInt8) (inplace : Bool) (alen : Nat) (msa : Array Bytes)
    (hrows : ∀ i (h : i < msa.size), alen + 2 ≤ msa[i].size) (r : Rng) :
    VInv gap msa (alen + 1) (vShuffle gap inplace alen msa msa r).1 :=
  vShuffleLoop_inv gap inplace msa alen hrows alen 1 msa r (Nat.le_refl _) (by omega)
    ⟨rfl, fun _ _ => rfl, fun c h1 h2 => by omega, fun _ _ => rfl⟩

/-- `esl_msashuffle_VShuffle(rng, msa, msa)` (in place) computes exactly what it computes into a clone -/
theorem vShuffle_inplace_eq (gap : UInt8) (alen : Nat) (msa : Array Bytes)
    (hrows : ∀ i (h : i < msa.size), alen + 2 ≤ msa[i].size) (r : Rng) :
    vShuffle gap true alen msa msa r = vShuffle gap false alen msa msa r :=
  vShuffleLoop_inplace_eq gap msa alen hrows alen 1 msa r (Nat.le_refl _) (by omega)
    ⟨rfl, fun _ _ => rfl, fun c h1 h2 => by omega, fun _ _ => rfl⟩

/-- `esl_msashuffle_CQRNA` (`base = 0`, `isGap c` = `c` is one of the alphabet's gap characters) and
    `esl_msashuffle_XQRNA` (`base = 1`, `isGap c` = `c == abc->K`), for `x`, `y` of equal length: lengths kept; every
    column keeps its class `(isGap x[i], isGap y[i])` — so every gap stays where it was; the multiset of columns
    `(x[i], y[i])` is the input's (hence also the multiset inside each class); positions outside the `L` columns untouched -/
theorem qrna_keeps_classes (isGap : UInt8 → Bool) (x y : Bytes) (base L : Nat) (hfit : base + L ≤ x.size) (hy : y.size = x.size) (r : Rng) :
    QInv isGap x y base L (qrna isGap x y base L r).1.1 (qrna isGap x y base L r).1.2 :=
  qrna_spec isGap x y base L hfit hy r

/-- per-class form: for each of the classes, the columns of that class are a permutation of the input's columns of that class -/
theorem qrna_class_perm (isGap : UInt8 → Bool) (x y : Bytes) (base L : Nat) (hfit : base + L ≤ x.size) (hy : y.size = x.size) (r : Rng)
    (gx gy : Bool) :
    ((((qrna isGap x y base L r).1.1).zip ((qrna isGap x y base L r).1.2)).toList.filter (fun c => isGap c.1 == gx && isGap c.2 == gy)).Perm
      ((x.zip y).toList.filter (fun c => isGap c.1 == gx && isGap c.2 == gy)) :=
  ((qrna_spec isGap x y base L hfit hy r).zip.toList).filter _


/-! ## the retry loops return the first accepted draw -/
/-- `esl_rnd_Roll(r, n)` (as used by every shuffler): the value is the image `x / (UINT32_MAX / n)` of the first raw word
    `x` of the stream that the rejection test accepts, every earlier word was rejected, and the generator has advanced by
    exactly the words examined. (Second disjunct: none of the first `rollFuel = 10^6` words is accepted — the C loop
    would keep drawing; the model then answers `(0, r)`.) Termination with probability 1 is not a theorem. -/
theorem roll_returns_first_accepted (r : Rng) (n : Nat) :
    (∃ k, k < rollFuel ∧ rollWord n (rngWord r k).toNat = some (roll r n).1 ∧ (roll r n).2 = rngAfter r (k+1) ∧
        ∀ j, j < k → rollWord n (rngWord r j).toNat = none) ∨
    ((∀ j, j < rollFuel → rollWord n (rngWord r j).toNat = none) ∧ roll r n = (0, r)) :=
  roll_first_accepted r n

/-- the `while (!is_eulerian)` loop of the DP shuffle: the edge ordering it leaves is the one produced by the first pass
    of last-edge selection that the code's connectivity test accepts (all earlier passes were rejected, their swaps and
    rolls are kept, exactly as in the C loop); `none` iff none of the first `fuel` passes is accepted -/
theorem dpFind_returns_first_accepted (K sf fuel : Nat) (E : Edges) (r : Rng) :
    match dpFind K sf fuel E r with
    | some s => ∃ k, k < fuel ∧ s = dpAttempt K sf (E, r) (k+1) ∧ dpAccepted K sf s.1 = true ∧
                  ∀ j, j < k → dpAccepted K sf (dpAttempt K sf (E, r) (j+1)).1 = false
    | none => ∀ j, j < fuel → dpAccepted K sf (dpAttempt K sf (E, r) (j+1)).1 = false :=
  dpFind_first_accepted K sf fuel E r

/-! ## 64-bit vector shuffles and random character strings -/
/-- `esl_vec_{D,F,I,L}Shuffle64` (generator `ESL_RAND64`): same length, same multiset, for every generator state -/
theorem vecShuffle64_perm {α : Type} (v : Array α) (r : Rng64) :
    (vecShuffle64 v r).1.size = v.size ∧ (vecShuffle64 v r).1.Perm v := by
  have h := fyLoop64_inv (fun (a : Array α) i j => a.swapIfInBounds i j) 0 v.size (RegionPerm 0 v.size v)
    (fun a i j ha _ hi _ hj => ha.swap (Nat.le_refl _) i j (by omega) (by omega) (by omega) (by omega))
    v.size (Nat.le_refl _) v r (RegionPerm.refl _ _ _)
  exact ⟨h.size, h.perm_all⟩

/-- `esl_rsq_Sample(rng, allowed_chars, L, &s)`: an invalid flag is `eslEINVAL`; otherwise exactly `L` characters, each a
    7-bit code belonging to the requested `<ctype.h>` class (C locale) -/
theorem rsqSample_spec (flag L : Nat) (r : Rng) :
    match sampleClass flag with
    | none => (rsqSample flag L r).1 = none
    | some cls => ∃ out, (rsqSample flag L r).1 = some out ∧ out.size = L ∧ ∀ x ∈ out, x < 128 ∧ cls x = true :=
  rsqSample_spec' flag L r

/-! ## k-mer shuffles -/
/-- `esl_rsq_CShuffleKmers(r, s, K, shuffled)`: with `W = L / K` words and `P = L % K` leftover residues, the output's words
    (`K`-mers starting at `P`) are a permutation of the input's consecutive `K`-mers, the leftover prefix `[0,P)` is
    unchanged, length kept -/
theorem cShuffleKmers_spec {α : Type} (s : Array α) (K : Nat) (r : Rng) :
    KmerInv K (s.size % K) (s.size / K) s (shuffleKmers 0 s s.size K r).1 := by
  simpa using shuffleKmers_inv 0 s s.size K (by omega) r

/-- `esl_rsq_XShuffleKmers(r, dsq, L, K, shuffled)` on the array `dsq[0..L+1]`: words start at `1 + P`; sentinel `dsq[0]`,
    the leftover residues `dsq[1..P]` and `dsq[L+1]` are unchanged (the statement that failed before fix fb16019) -/
theorem xShuffleKmers_spec (dsq : Bytes) (L K : Nat) (h : L + 2 ≤ dsq.size) (r : Rng) :
    KmerInv K (1 + L % K) (L / K) dsq (shuffleKmers 1 dsq L K r).1 :=
  shuffleKmers_inv 1 dsq L K (by omega) r


/-! ## doublet-preserving shuffle (Altschul–Erickson)

Full statement of the property: *for every input and seed* the DP shuffle keeps the ordered-pair counts and the first and
last residue. Proved in two halves that together give it for every generator state:
(i) `shuffleDP_ok` — if the routine returns `eslOK` (its two final "reality checks" `x == sf`, `pos == len` passed) the
output has the input's length, first residue, last residue and exactly the input's multiset of ordered adjacent pairs;
(ii) `shuffleDP_checks_never_fire` — the Altschul–Erickson/BEST argument: once the code's connectivity test has accepted
the last-edge graph, the walk ends on `s_f` having used every edge, so the checks cannot fire (`eslEINCONCEIVABLE` is
unreachable). The only residue is the `while (!is_eulerian)` retry loop, modelled with fuel (`nohalt`): it ends with
probability 1, not for every stream. -/
theorem shuffleDP_ok (K : Nat) (codes : List Nat) (hK : ∀ c ∈ codes, c < K) (hlen : 2 < codes.length) (r : Rng)
    (out : Array Nat) (h : (shuffleDPcore K codes r).1 = .ok out) :
    out.size = codes.length ∧ out.toList.head? = codes.head? ∧ out.toList.getLast? = codes.getLast? ∧
      (adjPairs out.toList).Perm (adjPairs codes) :=
  shuffleDPcore_ok K codes hK hlen r out (shuffleDPcore K codes r).2 (by rw [← h])

/-- `esl_rsq_CShuffleDP`: on `eslOK`, either the input has length `≤ 2` and is copied, or the (upper-cased) output keeps
    length, first and last residue and the ordered-pair multiset of the case-folded input -/
theorem cShuffleDP_ok (s : Bytes) (r : Rng) (out : Bytes) (h : (cShuffleDP s r).1 = .ok out) :
    (s.size ≤ 2 ∧ out = s) ∨
    ∃ codes, out = ofCodesText codes ∧ codes.size = s.size ∧ codes.toList.head? = (textCodes s).head? ∧
      codes.toList.getLast? = (textCodes s).getLast? ∧ (adjPairs codes.toList).Perm (adjPairs (textCodes s)) := by
  unfold cShuffleDP at h
  split at h
  · simp at h
  · rename_i halpha
    split at h
    · rename_i h2; simp only [SeqResult.ok.injEq] at h; exact Or.inl ⟨h2, h.symm⟩
    · rename_i h2
      obtain ⟨codes, h1, h3⟩ := ofDP_ok _ _ out h
      have hK : ∀ c ∈ textCodes s, c < 26 := by
        intro c hc
        simp only [textCodes, List.mem_map] at hc
        obtain ⟨b, hb, rfl⟩ := hc
        apply letterCode_lt
        simp only [Array.any_eq_true', not_exists, not_and, Bool.not_eq_true, Bool.not_eq_false'] at halpha
        simpa using halpha b (by simpa using hb)
      obtain ⟨a1, a2, a3, a4⟩ := shuffleDPcore_ok 26 (textCodes s) hK (by simp [textCodes]; omega) r codes _ h1
      exact Or.inr ⟨codes, h3, by simpa [textCodes] using a1, a2, a3, a4⟩

/-- `esl_rsq_XShuffleDP` -/
theorem xShuffleDP_ok (dsq : Bytes) (L K : Nat) (hL : L + 2 ≤ dsq.size) (r : Rng) (out : Bytes) (h : (xShuffleDP dsq L K r).1 = .ok out) :
    (L ≤ 2 ∧ out = dsq) ∨
    ∃ codes, out = ofCodesDigital codes ∧ codes.size = L ∧ codes.toList.head? = (digitalCodes dsq L).head? ∧
      codes.toList.getLast? = (digitalCodes dsq L).getLast? ∧ (adjPairs codes.toList).Perm (adjPairs (digitalCodes dsq L)) := by
  have hlen : (digitalCodes dsq L).length = L := by simp [digitalCodes]; omega
  unfold xShuffleDP at h
  split at h
  · simp at h
  · rename_i hval
    split at h
    · rename_i h2; simp only [SeqResult.ok.injEq] at h; exact Or.inl ⟨h2, h.symm⟩
    · rename_i h2
      obtain ⟨codes, h1, h3⟩ := ofDP_ok _ _ out h
      have hK : ∀ c ∈ digitalCodes dsq L, c < K := by
        intro c hc
        simp only [List.any_eq_true, not_exists, not_and, decide_eq_true_eq, Nat.not_le] at hval
        exact hval c hc
      obtain ⟨a1, a2, a3, a4⟩ := shuffleDPcore_ok K (digitalCodes dsq L) hK (by omega) r codes _ h1
      exact Or.inr ⟨codes, h3, by omega, a2, a3, a4⟩


/-- the reality checks never fire: for every input longer than 2 over vertices `< K` and every generator state the core
    returns `ok` — or `nohalt` when the retry loop exhausted its fuel (the C code would go on drawing) -/
theorem shuffleDP_checks_never_fire (K : Nat) (codes : List Nat) (hK : ∀ c ∈ codes, c < K) (hlen : 2 < codes.length) (r : Rng) :
    (∃ out r', shuffleDPcore K codes r = (.ok out, r')) ∨ shuffleDPcore K codes r = (.nohalt, r) :=
  shuffleDPcore_total K codes hK hlen r

/-- **DP shuffle, full form**: for every valid input and every generator state, unless the retry loop ran out of fuel, the
    output has the input's length, first and last residue and ordered-pair multiset -/
theorem shuffleDP_spec (K : Nat) (codes : List Nat) (hK : ∀ c ∈ codes, c < K) (hlen : 2 < codes.length) (r : Rng) :
    shuffleDPcore K codes r = (.nohalt, r) ∨
    ∃ out r', shuffleDPcore K codes r = (.ok out, r') ∧ out.size = codes.length ∧ out.toList.head? = codes.head? ∧
      out.toList.getLast? = codes.getLast? ∧ (adjPairs out.toList).Perm (adjPairs codes) := by
  rcases shuffleDPcore_total K codes hK hlen r with ⟨out, r', h⟩ | h
  · exact Or.inr ⟨out, r', h, shuffleDPcore_ok K codes hK hlen r out r' h⟩
  · exact Or.inl h

/-- `esl_rsq_CShuffleDP` never returns `eslEINCONCEIVABLE`; it returns `eslEINVAL` exactly for non-alphabetic input -/
theorem cShuffleDP_status (s : Bytes) (r : Rng) :
    (cShuffleDP s r).1 ≠ .einconceivable ∧ (cShuffleDP s r).1 ≠ .fatal ∧
      ((cShuffleDP s r).1 = .einval ↔ s.any (fun c => !isAlpha c) = true) := by
  unfold cShuffleDP
  split
  · rename_i h; simp [h]
  · rename_i halpha
    split
    · simp [halpha]
    · rename_i h2
      have hK : ∀ c ∈ textCodes s, c < 26 := by
        intro c hc
        simp only [textCodes, List.mem_map] at hc
        obtain ⟨b, hb, rfl⟩ := hc
        apply letterCode_lt
        simp only [Array.any_eq_true', not_exists, not_and, Bool.not_eq_true, Bool.not_eq_false'] at halpha
        simpa using halpha b (by simpa using hb)
      rcases shuffleDPcore_total 26 (textCodes s) hK (by simp [textCodes]; omega) r with ⟨out, r', h⟩ | h
      · rw [h]; simp [ofDP, halpha]
      · rw [h]; simp [ofDP, halpha]

/-- `esl_rsq_XShuffleDP` never returns `eslEINCONCEIVABLE`; `eslEINVAL` exactly when a residue code is `≥ K` -/
theorem xShuffleDP_status (dsq : Bytes) (L K : Nat) (hL : L + 2 ≤ dsq.size) (r : Rng) :
    (xShuffleDP dsq L K r).1 ≠ .einconceivable ∧ (xShuffleDP dsq L K r).1 ≠ .fatal ∧
      ((xShuffleDP dsq L K r).1 = .einval ↔ (digitalCodes dsq L).any (fun c => c ≥ K) = true) := by
  have hlen : (digitalCodes dsq L).length = L := by simp [digitalCodes]; omega
  unfold xShuffleDP
  split
  · rename_i h; simp [h]
  · rename_i hval
    split
    · simp [hval]
    · rename_i h2
      have hK : ∀ c ∈ digitalCodes dsq L, c < K := by
        intro c hc
        simp only [List.any_eq_true, not_exists, not_and, decide_eq_true_eq, Nat.not_le] at hval
        exact hval c hc
      rcases shuffleDPcore_total K (digitalCodes dsq L) hK (by omega) r with ⟨out, r', h⟩ | h
      · rw [h]; simp [ofDP, hval]
      · rw [h]; simp [ofDP, hval]

/-- the walk of step (6) consumes each edge of the edge ordering at most once (unconditionally) -/
theorem dpWalk_edges_once (E : Edges) (K c0 : Nat) (hlt : ∀ v y, y ∈ elist E v → y < K) (hc0 : c0 < K)
    (hfirst : 0 < (elist E c0).length) (fuel : Nat) :
    let res := dpWalk E fuel c0 (Array.replicate K 0) #[]
    (adjPairs (res.1.toList ++ [res.2.1])).Perm (usedEdges E res.2.2 K) ∧ (usedEdges E res.2.2 K).Sublist (edgePairs E K) :=
  dpWalk_uses_each_edge_once E K c0 hlt hc0 hfirst fuel

/-! ## i.i.d. generation and Markov resampling (`α` = any lawful number type; the driver runs `α = Float`) -/
section numeric
variable {α : Type} [CNum α] [LawfulCNum α]

/-- `esl_rsq_IID / fIID / xIID / xfIID`, and `esl_rsq_SampleDirty` with a caller-provided probability vector (`Kp` entries):
    `L` symbols, every one of non-zero probability -/
theorem iid_support (p : List α) (L : Nat) (r : Rng) (out : Array Nat) (h : (iidLoop p L r #[]).1 = some out) :
    out.size = L ∧ ∀ k ∈ out, ∃ q, p[k]? = some q ∧ q ≠ CNum.zero := by
  have := iidLoop_support p L r #[] out h (by simp)
  simpa using this


/-- `esl_rsq_SampleDirty`: whatever vector `p` is used (provided by the caller or sampled), if it is zero at the gap code
    `K`, the nonresidue code `Kp-2` and the missing-data code `Kp-1`, none of these three symbols is ever emitted -/
theorem sampleDirty_never_gap (p : List α) (K Kp L : Nat) (r : Rng) (out : Array Nat)
    (h0 : p[K]? = some CNum.zero) (h1 : p[Kp - 2]? = some CNum.zero) (h2 : p[Kp - 1]? = some CNum.zero)
    (h : (iidLoop p L r #[]).1 = some out) : out.size = L ∧ ∀ k ∈ out, k ≠ K ∧ k ≠ Kp - 2 ∧ k ≠ Kp - 1 := by
  obtain ⟨hs, hk⟩ := iid_support p L r out h
  refine ⟨hs, fun k hkm => ?_⟩
  obtain ⟨q, hq1, hq2⟩ := hk k hkm
  refine ⟨?_, ?_, ?_⟩ <;> (intro e; subst e; simp_all)

/-- `esl_rsq_xIID(r, NULL, K, L, dsq)`: uniform residues `< K` -/
theorem iid_uniform (K L : Nat) (hK : 0 < K) (r : Rng) :
    (iidUniform K L r #[]).1.size = L ∧ ∀ k ∈ (iidUniform K L r #[]).1, k < K := by
  have := iidUniform_spec K hK L r #[] (by simp)
  simpa using this

/-- `esl_rsq_CMarkov0`: same length, only residues (case-folded) that occur in the input -/
theorem cMarkov0_spec (s : Bytes) (r : Rng) (out : Bytes) (h : (cMarkov0 α s r).1 = .ok out) :
    ∃ codes, out = ofCodesText codes ∧ codes.size = s.size ∧ ∀ k ∈ codes, k ∈ textCodes s := by
  unfold cMarkov0 at h
  split at h
  · simp at h
  · obtain ⟨codes, h1, h2⟩ := ofOpt_ok _ _ out h
    obtain ⟨h3, h4⟩ := markov0_support 26 (textCodes s) r codes h1
    exact ⟨codes, h2, by simpa [textCodes] using h3, h4⟩

/-- `esl_rsq_XMarkov0` -/
theorem xMarkov0_spec (dsq : Bytes) (L K : Nat) (hL : L + 2 ≤ dsq.size) (r : Rng) (out : Bytes) (h : (xMarkov0 α dsq L K r).1 = .ok out) :
    ∃ codes, out = ofCodesDigital codes ∧ codes.size = L ∧ ∀ k ∈ codes, k ∈ digitalCodes dsq L := by
  unfold xMarkov0 at h
  split at h
  · simp at h
  · obtain ⟨codes, h1, h2⟩ := ofOpt_ok _ _ out h
    obtain ⟨h3, h4⟩ := markov0_support K (digitalCodes dsq L) r codes h1
    refine ⟨codes, h2, ?_, h4⟩
    rw [h3]; simp [digitalCodes]; omega

/-- `esl_rsq_CMarkov1`: inputs of length `≤ 2` are copied; otherwise same length, the first residue occurs in the input and
    every adjacent pair of the output is an adjacent pair of the input read circularly -/
theorem cMarkov1_spec (s : Bytes) (r : Rng) (out : Bytes) (h : (cMarkov1 α s r).1 = .ok out) :
    (s.size ≤ 2 ∧ out = s) ∨
    ∃ codes, out = ofCodesText codes ∧ codes.size = s.size ∧ (∀ pr ∈ adjPairs codes.toList, pr ∈ circPairs (textCodes s)) ∧
      ∃ x, codes.toList.head? = some x ∧ x ∈ textCodes s := by
  unfold cMarkov1 at h
  split at h
  · simp at h
  · split at h
    · rename_i h2; simp only [SeqResult.ok.injEq] at h; exact Or.inl ⟨h2, h.symm⟩
    · rename_i h2
      obtain ⟨codes, h1, h3⟩ := ofOpt_ok _ _ out h
      obtain ⟨h4, h5, h6⟩ := markov1_support 26 (textCodes s) (by simp [textCodes]; omega) r codes h1
      exact Or.inr ⟨codes, h3, by simpa [textCodes] using h4, h5, h6⟩

/-- `esl_rsq_XMarkov1` -/
theorem xMarkov1_spec (dsq : Bytes) (L K : Nat) (hL : L + 2 ≤ dsq.size) (r : Rng) (out : Bytes) (h : (xMarkov1 α dsq L K r).1 = .ok out) :
    (L ≤ 2 ∧ out = dsq) ∨
    ∃ codes, out = ofCodesDigital codes ∧ codes.size = L ∧ (∀ pr ∈ adjPairs codes.toList, pr ∈ circPairs (digitalCodes dsq L)) ∧
      ∃ x, codes.toList.head? = some x ∧ x ∈ digitalCodes dsq L := by
  have hlen : (digitalCodes dsq L).length = L := by simp [digitalCodes]; omega
  unfold xMarkov1 at h
  split at h
  · simp at h
  · split at h
    · rename_i h2; simp only [SeqResult.ok.injEq] at h; exact Or.inl ⟨h2, h.symm⟩
    · rename_i h2
      obtain ⟨codes, h1, h3⟩ := ofOpt_ok _ _ out h
      obtain ⟨h4, h5, h6⟩ := markov1_support K (digitalCodes dsq L) (by omega) r codes h1
      exact Or.inr ⟨codes, h3, by omega, h5, h6⟩
end numeric


/-- the vector that `esl_rsq_SampleDirty` samples when the caller provides none (binary64 model, executed by the driver)
    has `Kp` entries and is exactly `0.0` at the gap, nonresidue and missing-data codes: the hypotheses of
    `sampleDirty_never_gap` hold for it by construction -/
theorem sampleDirty_sampled_vector_zeros (K Kp : Nat) (h : K + 3 ≤ Kp) (r : Rng) :
    (dirtyP K Kp r).1.size = Kp ∧ (dirtyP K Kp r).1[K]? = some 0.0 ∧ (dirtyP K Kp r).1[Kp - 2]? = some 0.0 ∧
      (dirtyP K Kp r).1[Kp - 1]? = some 0.0 :=
  dirtyP_zeros K Kp h r

/-- non-vacuity: the rationals are a lawful number type, so the theorems above apply to the code read in exact arithmetic -/
example : LawfulCNum ℚ := inferInstance

/-! non-vacuity: concrete instances of the hypotheses -/
example : (3 : Nat) + 2 ≤ (#[255, 1, 2, 3, 255] : Bytes).size := by decide
example : ∀ k (hk : k < (#[#[1, 2, 3], #[4, 5, 6]] : Array Bytes).size), 0 + 3 ≤ (#[#[1, 2, 3], #[4, 5, 6]] : Array Bytes)[k].size := by decide
/-- a run of the DP shuffle that returns `ok` (legacy LCG generator, seed 1): hypotheses of `shuffleDP_ok` are satisfiable -/
example : (shuffleDPcore 3 [0,1,2,0,1,0] (Rng.create .fast 1)).1 = .ok #[0, 1, 0, 1, 2, 0] := by decide +kernel
example : (∀ c ∈ [0,1,2,0,1,0], c < 3) ∧ 2 < [0,1,2,0,1,0].length := by decide
example : (reverse false (#[1, 2, 3] : Array Nat) #[0, 0, 0] 0 3) = #[3, 2, 1] := by decide
example : (reverse true (#[1, 2, 3, 4] : Array Nat) #[1, 2, 3, 4] 0 4) = #[4, 3, 2, 1] := by decide

end EaselModel.Props.C18
