import EaselModel.Sqio.Windows
import EaselModel.Sqio.Tracker
import EaselModel.Sqio.DriverLogic
import EaselModel.Sqio.Agree
import EaselModel.Sqio.Refine
import EaselModel.Sqio.Spec
import EaselModel.Sqio.Sim
import EaselModel.Sqio.Fold
import EaselModel.Sqio.ReadInfo
import EaselModel.Sqio.ParseFasta
import EaselModel.Sqio.Totality
import EaselModel.Sqio.SpecFasta
import EaselModel.Sqio.WindowSeries
import EaselModel.Sqio.BlockSpec
import EaselModel.Sqio.RoundTrip
import EaselModel.Sqio.LineSpec
import EaselModel.Sqio.RevWindowSpec
import EaselModel.Sqio.EmblSpec
import EaselModel.Sqio.EmblAll
import EaselModel.Sqio.FileWindows
import EaselModel.Sqio.EmblWin
import EaselModel.Sqio.RevWindowGeo
import EaselModel.Sqio.TrackerExact
import EaselModel.Sqio.PositionSpec
import EaselModel.Sqio.PositionAny
import EaselModel.Sqio.TrackerChunks
import EaselModel.Sqio.SpecSuffix
import EaselModel.Sqio.PositionCalls
/-! # C04 — all ways of reading a sequence file agree with each other and with the file

Property theorems only (proofs are glue on `Sqio/Windows.lean`, `Sqio/Refine.lean`, `Sqio/Spec.lean`).
Model: `Sqio/Model.lean` — `loadmem loadbuf nextchar seebuf addbuf skipbuf read_nres header_fasta skip_fasta end_fasta
sqascii_Read ReadInfo ReadSequence ReadWindow Position WriteFasta`, read-block size `B` a parameter.

Full statement (DESIGN §5 C04): block-size independence of the block reader (= `parseFasta`), field-by-field agreement of
Read / ReadInfo / ReadSequence, true byte offsets, forward windows tile with context `min(C,·)` and 1-based contiguous
coordinates, reverse strand = reverse complement tiled the same way, independence of line layout, `read (WriteFasta r) = r`.
Proved here for every byte string and every read-block size `B ≥ 1` (FASTA): reading with `sqascii_Read` until the first non-OK
status returns exactly the records and final status of the declarative parser `specFasta` (`read_all_eq_specFasta`; name,
description, residues, true `roff` / `hoff` / `doff` / `eoff`, `L`), hence is block-size independent; `Read`, `ReadInfo`,
`ReadSequence` agree field by field (`read_readInfo_readSequence_agree`); the forward `ReadWindow` series delivers the residues of
`Read` (`windows_eq_read`, `windows_concat_eq_read`, `file_windows_eq_specFasta`); reverse-strand windows are the reverse complement of
the slice of the scanned record (`rev_*_window_eq_revcomp_slice*`) on a schedule that tiles `1..L` (`fwd_windows_tile`,
`rev_windows_tile`); whole-sequence `ReadBlock` (`readBlock_short_eq_read`); write + re-read, text and digital
(`write_read_roundtrip*`); the line-based formats: all five read calls are block-size independent (`read_all_linebased_*`,
`readWindow_readBlock_linebased_*`). Still tied by the exact differential run + monitors only: long-target `ReadBlock`, a declarative
parser (Read = spec) and cross-call agreement for the line-based formats, daemon / hmmpgmd, gzip / stdin sources. -/
namespace EaselModel.Props.C04
open EaselModel.Sqio EaselModel.Sqio.Windows

/-- the first forward window of a record holds residues `1..nres` with no context -/
theorem fwd_first_window (nres : Int) (h : 0 ≤ nres) : Inv (fwdFirst nres) nres := fwdFirst_inv nres h

/-- **Forward windows tile.** For every requested context `C ≥ 0` and every number `nres` of newly read residues: the next
    window's context is the `min C n` residues preceding position `d+1` (`d` = residues delivered so far), its new part is exactly
    residues `d+1 .. d+nres`, coordinates are 1-based and the window holds exactly `start..end`. By induction this holds along
    every window series, for every `(C, W)` sequence (`C`, `W` may change between calls). -/
theorem fwd_windows_tile (w : Win) (C d nres : Int) (hC : 0 ≤ C) (hn : 0 ≤ nres) (h : Inv w d) :
    let w' := fwdNext w C d nres
    Inv w' (d + nres) ∧ w'.C = min C w.n ∧ w'.start + w'.C = d + 1 ∧ w'.end_ = d + nres :=
  fwdNext_tiles w C d nres hC hn h

/-- **Reverse windows, first**: `[start..end]` is the top `min W L` residues of the sequence -/
theorem rev_first_window (L W : Int) (hL : 1 ≤ L) (hW : 1 ≤ W) :
    let r := revInit L W
    r.2 = L ∧ 1 ≤ r.1 ∧ r.1 ≤ L ∧ r.2 - r.1 + 1 = min W L := revInit_spec L W hL hW

/-- **Reverse windows tile downwards**: context = the `min C (L − prevLow + 1)` lowest residues of the previous window, new part
    `[start .. prevLow−1]` non-empty, at most `W`, exactly `W` unless residue 1 is reached (then the next call reports end of data,
    `sq->end == 1`). -/
theorem rev_windows_tile (L C W prevLow : Int) (hC : 0 ≤ C) (hW : 1 ≤ W) (hlo : 2 ≤ prevLow) (hhi : prevLow ≤ L) :
    let r := revNext L C W prevLow
    r.1 = min C (L - prevLow + 1) ∧ r.2.1 = prevLow + r.1 - 1 ∧ r.2.1 ≤ L ∧ 1 ≤ r.2.2.1 ∧
    r.2.2.2 = prevLow - r.2.2.1 ∧ 1 ≤ r.2.2.2 ∧ r.2.2.2 ≤ W ∧ (r.2.2.1 > 1 → r.2.2.2 = W) :=
  revNext_tiles L C W prevLow hC hW hlo hhi

/-- the reverse-strand reader positions with the same three-way arithmetic as `esl_ssi_FindSubseq`, and (after 2dacdd7) uses
    brute force whenever the line geometry is unset or invalidated -/
theorem rev_offset_brute_force (bpl rpl start : Int) (h : bpl ≤ 0 ∨ rpl ≤ 0) : subseqOffset bpl rpl start = (0, 1) := by
  unfold subseqOffset
  have : (decide (bpl ≤ 0) || decide (rpl ≤ 0)) = true := by rcases h with h | h <;> simp [h]
  simp [this]

/-- **Read vs ReadInfo, step 1**: storing the residues of a buffer (`addbuf`, done by Read / ReadSequence / ReadWindow and not by
    ReadInfo) changes nothing of the file handle except the buffer position -/
theorem addbuf_moves_only_bpos (a : Ascii) (sq : Sq) (n : Nat) : ∃ b, (addbuf a sq n).1 = { a with bpos := b } :=
  Agree.addbuf_handle a sq n

/-- **Read vs ReadInfo, step 2**: the next `loadbuf` does not depend on the buffer position (block mode), so the storing and the
    counting scan see the same next block, offsets and end of data. (The loop-level and call-level statements are
    `residue_loop_closed_form` and `read_readInfo_readSequence_agree` below.) -/
theorem loadbuf_ignores_bpos (a : Ascii) (b : Nat) (hb : a.linebased = false) :
    loadbuf { a with bpos := b } = loadbuf a := Agree.loadbuf_bpos a b hb

/-- **Block-size independence of the byte stream** (the refinement "bytes + cursor" for the primitive every header parser is
    written with): for every `B ≥ 1`, `nextchar` delivers `file[pos+1]` and moves the cursor by one, or reports EOF exactly at the
    end of the file; where the block boundaries fall is invisible. (The corollary for whole records is `read_all_eq_specFasta` /
    `read_all_block_size_independent` below.) -/
theorem nextchar_block_size_independent (a : Ascii) (c : UInt8) (h : Refine.WF a) (hb : a.bpos < a.nc) :
    ((nextchar a c).2.1 = .ok ∧ Refine.pos (nextchar a c).1 = Refine.pos a + 1 ∧
        a.file[(Refine.pos a + 1).toNat]? = some (nextchar a c).2.2) ∨
    ((nextchar a c).2.1 = .eof ∧ Refine.pos a + 1 = a.file.size) := by
  rcases (Refine.nextchar_refines a c h hb).2.2.2 with h1 | h1
  · exact Or.inl ⟨h1.1, h1.2.2.1, h1.2.2.2⟩
  · exact Or.inr ⟨h1.1, h1.2.2.1⟩

/-- **Write + re-read, residue level**: the data lines `esl_sqascii_WriteFasta` writes (60 residues per line), with the newlines
    taken out again, are exactly the residues - for every sequence not containing a newline byte, of any length.
    (The whole statement — the reader returns name, description and residues of what the writer wrote — is `write_read_roundtrip` below.) -/
theorem writeFasta_keeps_residues (res : List UInt8) (hnl : ∀ x ∈ res, x ≠ chNl) :
    (chunk60 res (res.length + 1)).filter (fun x => x != chNl) = res :=
  Spec.chunk60_filter (res.length + 1) res (Nat.lt_succ_self _) hnl

/-- **Block-size independence starts at open / Position**: same file, same `FILE*` position, nothing buffered, any two block sizes
    ⇒ after the first `loadbuf` the handles are similar (same absolute cursor, same bookkeeping) and the status is the same. -/
theorem open_block_size_independent (a1 a2 : Ascii) (h1 : Refine.Pre a1) (h2 : Refine.Pre a2)
    (hp : Sim.payload a1 = Sim.payload a2) (hf : a1.fpos = a2.fpos) :
    (loadbuf a1).2 = (loadbuf a2).2 ∧ Sim.Sim (loadbuf a1).1 (loadbuf a2).1 := Sim.loadbuf_sim a1 a2 h1 h2 hp hf

/-- **`header_fasta` is block-size independent** (every file, every pair of block sizes `B₁, B₂ ≥ 1`): from similar handles at the
    start of a record it returns the same status and the same `ESL_SQ` (name, description, `roff`, `hoff`, `doff`) and leaves similar
    handles — i.e. the same absolute position, line number and line-geometry state. Proved by a simulation through `nextchar` and
    every `while (status == eslOK && p(c)) status = nextchar(...)` loop of the parser. -/
theorem header_fasta_block_size_independent (a1 a2 : Ascii) (sq : Sq) (h : Sim.Sim a1 a2) (l1 : Sim.Live a1) (l2 : Sim.Live a2) :
    (headerFasta a1 sq).2 = (headerFasta a2 sq).2 ∧ Sim.Sim (headerFasta a1 sq).1 (headerFasta a2 sq).1 :=
  Sim.headerFasta_sim a1 a2 sq h l1 l2

/-- **`seebuf` is a byte-by-byte fold** over the bytes of the buffer (status, residue count, stop position, line number and the
    bytes/residues-per-line tracker): its batched bookkeeping (`lasteol`, `nres2`) equals the one-byte-at-a-time bookkeeping. -/
theorem seebuf_is_byte_fold (a : Ascii) (maxn : Option Nat) (hr : ∀ i, i < a.nc → ∃ x, a.bufGet i = some x) (hok : Fold.Track.Ok a.trk) :
    let mx := match maxn with | none => a.nc | some m => m
    let f := Fold.scanBytes a.inmap mx (Fold.bufList a a.bpos) ⟨a.trk, a.linenumber, 0⟩ a.bpos
    (seebuf a maxn).2.st = f.2.2 ∧ (seebuf a maxn).2.endpos = f.2.1 ∧ (seebuf a maxn).2.nres = f.1.nres ∧
    (seebuf a maxn).1.linenumber = f.1.ln ∧
    ((seebuf a maxn).2.st ≠ .eformat → (seebuf a maxn).2.st ≠ .fault → (seebuf a maxn).1.trk = f.1.trk) :=
  Fold.seebuf_fold a maxn hr hok

/-- **Where a buffer ends is invisible to the data scan**: folding over `l₁ ++ l₂` is folding over `l₁` and, unless that stopped or
    reached the residue limit, continuing over `l₂` with the state reached. (Composed with the buffer loop of `sqascii_Read` in
    `residue_loop_closed_form` / `read_all_block_size_independent` below.) -/
theorem buffer_cut_invisible (inmap : Bytes) (maxn : Nat) (l1 l2 : List UInt8) (s : Fold.SS) (k : Nat) :
    Fold.scanBytes inmap maxn (l1 ++ l2) s k =
      (if (Fold.scanBytes inmap maxn l1 s k).2.2 = .ok ∧ (Fold.scanBytes inmap maxn l1 s k).2.1 = k + l1.length then
         Fold.scanBytes inmap maxn l2 (Fold.scanBytes inmap maxn l1 s k).1 (k + l1.length)
       else Fold.scanBytes inmap maxn l1 s k) := Fold.scanBytes_append inmap maxn l1 l2 s k

/-- **The residue-counting loop of `sqascii_ReadInfo` is a fold over the file bytes from the cursor on** — for every block size:
    status (`eslEOD` at the next record / `eslEOF` at the end of the file / `eslEFORMAT` at an illegal byte), `sq->eoff`, and — unless
    an illegal byte was met — the residue count added to `L`, the line number and the line-geometry tracker are those of
    `DataScan.dataFold`, which does not mention `B`; at `eslEOD` the stop position is the fold's, inside the buffer. -/
theorem readinfo_loop_is_file_fold (fuel : Nat) (a : Ascii) (sq : Sq) (M : Nat) (h : Refine.WF a) (hok : Fold.Track.Ok a.trk)
    (hm : a.inmap.size = 128) (hM : (DataScan.fileFrom a).length ≤ M)
    (hfuel : (DataScan.fileFrom a).length + (if a.bpos < a.nc then 0 else 1) < fuel) :
    (scanLoop false fuel a sq).2.2.1 = DataScan.finalSt (DataScan.dataFold a M).2.2 ∧
    (scanLoop false fuel a sq).2.1 = { sq with eoff := Refine.pos a + ((DataScan.dataFold a M).2.1 : Int) - 1 } ∧
    ((DataScan.dataFold a M).2.2 ≠ .eformat →
       Refine.WF (scanLoop false fuel a sq).1 ∧
       Sim.payload (scanLoop false fuel a sq).1 =
         Sim.payload { a with L := a.L + ((DataScan.dataFold a M).1.nres : Int), linenumber := (DataScan.dataFold a M).1.ln,
                              trk := (DataScan.dataFold a M).1.trk } ∧
       ((DataScan.dataFold a M).2.2 = .eod →
          (scanLoop false fuel a sq).1.boff + ((scanLoop false fuel a sq).2.2.2 : Int) = Refine.pos a + ((DataScan.dataFold a M).2.1 : Int) ∧
          (scanLoop false fuel a sq).2.2.2 < (scanLoop false fuel a sq).1.nc) ∧
       ((DataScan.dataFold a M).2.2 = .ok →
          Sim.AtEof (scanLoop false fuel a sq).1 ∧ Refine.pos (scanLoop false fuel a sq).1 = (a.file.size : Int))) :=
  DataScan.scanLoop_info fuel a sq M h hok hm hM hfuel

/-- **`sqascii_ReadInfo` on a FASTA file is block-size independent — the whole call** (every file, every pair of block sizes
    `B₁, B₂ ≥ 1`): from similar handles it returns the same status and the same `ESL_SQ` (name, description, offsets, `L`), and when
    it succeeds the handles are similar again (same absolute position, line number, tracker), so the next call starts from similar
    handles. Composition of `header_fasta_block_size_independent`, `readinfo_loop_is_file_fold`, `end_fasta` and the final bookkeeping. -/
theorem readInfo_block_size_independent (a1 a2 : Ascii) (sq : Sq) (h : Sim.Sim a1 a2) (hf : a1.fmt = 1) (hm : a1.inmap.size = 128) :
    (readInfo a1 sq).2 = (readInfo a2 sq).2 ∧
    ((readInfo a1 sq).2.2 = .ok → Sim.Sim (readInfo a1 sq).1 (readInfo a2 sq).1) :=
  DataScan.readInfo_sim a1 a2 sq h hf hm

/-- the same from open: two handles on one FASTA file, nothing buffered, any two block sizes ⇒ the first `ReadInfo` agrees -/
theorem readInfo_after_open_block_size_independent (a1 a2 : Ascii) (sq : Sq) (h1 : Refine.Pre a1) (h2 : Refine.Pre a2)
    (hp : Sim.payload a1 = Sim.payload a2) (hf : a1.fpos = a2.fpos) (hfmt : a1.fmt = 1) (hm : a1.inmap.size = 128) :
    (readInfo (loadbuf a1).1 sq).2 = (readInfo (loadbuf a2).1 sq).2 := by
  have hr := Sim.loadbuf_rest a1 h1
  have e1 : (loadbuf a1).1.fmt = a1.fmt := congrArg (fun p => p.2.2.2.2.2.2.1) hr
  have e2 : (loadbuf a1).1.inmap = a1.inmap := congrArg (fun p => p.2.2.2.2.1) hr
  exact (DataScan.readInfo_sim _ _ sq (Sim.loadbuf_sim a1 a2 h1 h2 hp hf).2 (e1.trans hfmt) (by rw [e2]; exact hm)).1

/-- non-vacuity of the hypotheses of `readInfo_block_size_independent`: `>a\nAC\n` as a text-mode FASTA file opened with B = 2 and B = 5 -/
example : Sim.Sim (loadbuf { file := #[62, 97, 10, 65, 67, 10], B := 2, inmap := inmapFasta 0, fmt := 1 }).1
                  (loadbuf { file := #[62, 97, 10, 65, 67, 10], B := 5, inmap := inmapFasta 0, fmt := 1 }).1 ∧
    (loadbuf { file := #[62, 97, 10, 65, 67, 10], B := 2, inmap := inmapFasta 0, fmt := 1 }).1.fmt = 1 ∧
    (loadbuf { file := #[62, 97, 10, 65, 67, 10], B := 2, inmap := inmapFasta 0, fmt := 1 }).1.inmap.size = 128 :=
  ⟨(Sim.loadbuf_sim { file := #[62, 97, 10, 65, 67, 10], B := 2, inmap := inmapFasta 0, fmt := 1 }
      { file := #[62, 97, 10, 65, 67, 10], B := 5, inmap := inmapFasta 0, fmt := 1 }
      ⟨rfl, by decide, by decide, by decide, by decide⟩ ⟨rfl, by decide, by decide, by decide, by decide⟩ rfl rfl).2,
   by decide +kernel, by decide +kernel⟩

/-- non-vacuity of the simulation: the same 6-byte file opened with B = 2 and with B = 5 -/
example : Sim.Sim (loadbuf { file := #[62, 97, 10, 65, 67, 10], B := 2 }).1 (loadbuf { file := #[62, 97, 10, 65, 67, 10], B := 5 }).1 :=
  (Sim.loadbuf_sim { file := #[62, 97, 10, 65, 67, 10], B := 2 } { file := #[62, 97, 10, 65, 67, 10], B := 5 }
    ⟨rfl, by decide, by decide, by decide, by decide⟩ ⟨rfl, by decide, by decide, by decide, by decide⟩ rfl rfl).2

/-- non-vacuity: windows of W = 5, C = 2 over a 12-residue sequence: 1..5, 4..10, 9..12 (as the real reader returns) -/
example : fwdNext (fwdFirst 5) 2 5 5 = ⟨4, 10, 2, 7⟩ ∧ fwdNext ⟨4, 10, 2, 7⟩ 2 10 2 = ⟨9, 12, 2, 4⟩ := by decide
example : revInit 12 5 = (8, 12) ∧ revNext 12 2 5 8 = (2, 9, 3, 5) ∧ revNext 12 2 5 3 = (2, 4, 1, 2) := by decide


/-! ## Whole-reader refinement (round 3): `sqascii_Read` = the closed form `recL` / `parseFasta`, for every block size

`ReadSpec.recL inmap N sq l` is what one `sqascii_Read` returns when the cursor stands on the list `l` of remaining bytes of a FASTA
file of `N` bytes, written with `dropWhile` / `takeWhile` / `filter` only (`HeaderSpec.headerL`, `ReadSpec.bodyL`); it mentions neither
a buffer nor the block size. `ParseFasta.parseFasta` iterates it over the file. -/

open EaselModel.Sqio.Cursor EaselModel.Sqio.BodySpec EaselModel.Sqio.HeaderSpec EaselModel.Sqio.ReadSpec EaselModel.Sqio.ParseFasta in
/-- **Layer (i)+(iv): the residue loop in closed form, for every `B ≥ 1`.** The `do { seebuf; [GrowTo; addbuf;] … } while (loadbuf == eslOK)`
    loop shared by `sqascii_Read`, `ReadSequence` (`store = true`) and `ReadInfo` (`store = false`), run from a handle whose cursor stands
    on the remaining file bytes `l`, consumes exactly `d = l.takeWhile isData`; ends with `eslEOF` when nothing follows, `eslEOD` on an
    end-of-data byte, `eslEFORMAT` (with a message) on any other byte; appends exactly the residues of `d` (`filter isRes`, mapped) when
    storing; sets `eoff` to the offset of the last consumed byte and `L += #residues`; never faults. -/
theorem residue_loop_closed_form (store : Bool) (fuel : Nat) (a : Ascii) (sq : Sq) (h : Cur a) (hm : a.inmap.size = 128)
    (hmap : store = true → MapOk a.inmap (mapOf a sq)) (hf : (DataScan.fileFrom a).length + 1 < fuel)
    (d r : List UInt8) (hd : d = (DataScan.fileFrom a).takeWhile (isData a.inmap)) (hr : r = (DataScan.fileFrom a).dropWhile (isData a.inmap)) :
    (r = [] → (scanLoop store fuel a sq).2.2.1 = .eof ∧
       (scanLoop store fuel a sq).2.1 = { stored store a.inmap (mapOf a sq) sq d with eoff := Refine.pos a + (d.length : Int) - 1 } ∧
       Cur (scanLoop store fuel a sq).1 ∧ DataScan.fileFrom (scanLoop store fuel a sq).1 = [] ∧
       stat (scanLoop store fuel a sq).1 = stat a ∧ (scanLoop store fuel a sq).1.L = a.L + (nresOf a.inmap d : Int)) ∧
    (∀ c t, r = c :: t → isEod a.inmap c = true → (scanLoop store fuel a sq).2.2.1 = .eod ∧
       (scanLoop store fuel a sq).2.1 = { stored store a.inmap (mapOf a sq) sq d with eoff := Refine.pos a + (d.length : Int) - 1 } ∧
       (∃ b, Refine.WF { (scanLoop store fuel a sq).1 with bpos := b }) ∧ Fold.Track.Ok (scanLoop store fuel a sq).1.trk ∧
       stat (scanLoop store fuel a sq).1 = stat a ∧ (scanLoop store fuel a sq).1.L = a.L + (nresOf a.inmap d : Int) ∧
       (scanLoop store fuel a sq).1.boff + ((scanLoop store fuel a sq).2.2.2 : Int) = Refine.pos a + (d.length : Int) ∧
       (scanLoop store fuel a sq).2.2.2 < (scanLoop store fuel a sq).1.nc) ∧
    (∀ c t, r = c :: t → isEod a.inmap c = false → (scanLoop store fuel a sq).2.2.1 = .eformat ∧
       (scanLoop store fuel a sq).1.haveErr = true) :=
  scanLoop_spec store fuel a sq h hm hmap hf d r hd hr

open EaselModel.Sqio.Cursor EaselModel.Sqio.HeaderSpec in
/-- **Layer (ii): `header_fasta` in closed form, for every `B ≥ 1`**: status, name, description, `roff` / `hoff` / `doff`, allocation growth
    are those of `headerL` — a composition of `dropWhile` / `takeWhile` on the remaining file bytes, offsets being
    `file size − bytes remaining` — and the cursor is left on the bytes `headerL` says. -/
theorem header_fasta_closed_form (a : Ascii) (sq : Sq) (h : Cur a) (hl : Sim.Live a) (hn : 2 ≤ sq.nalloc) (hd : 2 ≤ sq.dalloc) :
    (headerFasta a sq).2 = ((headerL a.file.size sq (DataScan.fileFrom a)).2.1, (headerL a.file.size sq (DataScan.fileFrom a)).1) ∧
    ((headerL a.file.size sq (DataScan.fileFrom a)).1 = .ok → Cur (headerFasta a sq).1 ∧
       DataScan.fileFrom (headerFasta a sq).1 = (headerL a.file.size sq (DataScan.fileFrom a)).2.2 ∧ stat (headerFasta a sq).1 = stat a) ∧
    ((headerL a.file.size sq (DataScan.fileFrom a)).1 = .eformat → (headerFasta a sq).1.haveErr = true) ∧
    ((headerL a.file.size sq (DataScan.fileFrom a)).1 = .eof → Cur (headerFasta a sq).1 ∧ DataScan.fileFrom (headerFasta a sq).1 = [] ∧
       stat (headerFasta a sq).1 = stat a) :=
  headerFasta_spec a sq h hl hn hd

open EaselModel.Sqio.Cursor EaselModel.Sqio.ReadSpec in
/-- **Layer (iii): one `sqascii_Read` = `recL` on the remaining file bytes, for every `B ≥ 1`**: same status; on `eslOK` the same `ESL_SQ`
    (every field) and the cursor on the bytes that `recL` leaves; `eslEFORMAT` comes with a message. -/
theorem read_one_record_closed_form (a : Ascii) (sq : Sq) (R : Ready a sq) :
    (read a sq).2.2 = (recL a.inmap a.file.size sq (DataScan.fileFrom a)).1 ∧
    ((recL a.inmap a.file.size sq (DataScan.fileFrom a)).1 = .ok →
      (read a sq).2.1 = (recL a.inmap a.file.size sq (DataScan.fileFrom a)).2.1 ∧ Cur (read a sq).1 ∧
      DataScan.fileFrom (read a sq).1 = (recL a.inmap a.file.size sq (DataScan.fileFrom a)).2.2 ∧ stat (read a sq).1 = stat a) ∧
    ((recL a.inmap a.file.size sq (DataScan.fileFrom a)).1 = .eformat → (read a sq).1.haveErr = true) ∧
    ((recL a.inmap a.file.size sq (DataScan.fileFrom a)).1 = .eof → Cur (read a sq).1 ∧ DataScan.fileFrom (read a sq).1 = [] ∧
      stat (read a sq).1 = stat a) :=
  read_spec a sq R

open EaselModel.Sqio.ParseFasta in
/-- the handle the theorems start from is the one `esl_sqfile_Open` / `OpenDigital` yields (the driver's `openModel`, which is run
    against the real `esl_sqfile_Open*` on every case) -/
theorem open_is_openFasta (bytes : Bytes) (B abc : Nat) (hne : 0 < bytes.size) (hB : 1 ≤ B) :
    openModel bytes "fa" 1 abc B = some (openFasta bytes B abc, .ok) := openModel_fasta bytes B abc hne hB

open EaselModel.Sqio.ParseFasta in
/-- **Layer (iv), the whole-reader refinement: `Read` loop = `parseFasta` for EVERY byte string and EVERY block size `B ≥ 1`.**
    Reading all records (`while (esl_sqio_Read(sqfp, sq) == eslOK) { …; esl_sq_Reuse(sq); }`) from open on returns exactly the records
    — every `ESL_SQ` field: name, description, residues, `roff` / `hoff` / `doff` / `eoff`, `L`, coordinates, allocations — and the final
    status (`eslEOF` / `eslEFORMAT`) of `parseFasta abc bytes`, a function of the bytes alone. Text mode (`abc = 0`) and DNA / RNA /
    amino digital mode. -/
theorem read_all_eq_parseFasta (bytes : Bytes) (B abc : Nat) (hB : 1 ≤ B) (habc : abc ∈ [0, 1, 2, 3]) :
    readAllM (bytes.size + 2) (openFasta bytes B abc) (freshSq abc) = parseFasta abc bytes :=
  ParseFasta.read_all_eq_parseFasta bytes B abc hB habc

open EaselModel.Sqio.ParseFasta in
/-- **Block-size independence of the whole reader** (was `read_block_size_independent_partial`): any two block sizes give the same
    records and the same final status, for every byte string. -/
theorem read_all_block_size_independent (bytes : Bytes) (B1 B2 abc : Nat) (h1 : 1 ≤ B1) (h2 : 1 ≤ B2) (habc : abc ∈ [0, 1, 2, 3]) :
    readAllM (bytes.size + 2) (openFasta bytes B1 abc) (freshSq abc) = readAllM (bytes.size + 2) (openFasta bytes B2 abc) (freshSq abc) :=
  ParseFasta.read_all_block_size_independent bytes B1 B2 abc h1 h2 habc

open EaselModel.Sqio.ParseFasta EaselModel.Sqio.SpecFasta in
/-- **The whole reader = the declarative parser `specFasta`, for EVERY byte string and EVERY block size `B ≥ 1`.** `specFasta abc bytes`
    (`Sqio/SpecFasta.lean`, 30 lines: `dropWhile` / `takeWhile` / `filter` on the list of file bytes, offsets = `size − bytes remaining`)
    returns `List Record × Status`; a `Record` is name, description, residues, `roff`, `hoff`, `doff`, `eoff`, `L`. Reading with
    `sqascii_Read` from `esl_sqfile_Open` on until the first non-`eslOK` status returns exactly these records and this final status. -/
theorem read_all_eq_specFasta (bytes : Bytes) (B abc : Nat) (hB : 1 ≤ B) (habc : abc ∈ [0, 1, 2, 3]) :
    ((readAllM (bytes.size + 2) (openFasta bytes B abc) (freshSq abc)).1.map toRecord,
     (readAllM (bytes.size + 2) (openFasta bytes B abc) (freshSq abc)).2) = specFasta abc bytes.toList :=
  SpecFasta.read_all_eq_specFasta bytes B abc hB habc

open EaselModel.Sqio.SpecFasta in
/-- sanity of `specFasta` on a CRLF file with a blank-led header and an empty record (`" >a  d1\r\nAC GT\r\nAC\r\n\r\n>b\r\n>c x\r\nacgtn*\r\n"`,
    text mode): three records, the offsets are the true byte positions (`hoff` on the `\r`, `doff` on the first data byte, `eoff` on the
    last `\n` before the next `>`) -/
example :
    let r := specFasta 0 [32, 62, 97, 32, 32, 100, 49, 13, 10, 65, 67, 32, 71, 84, 13, 10, 65, 67, 13, 10, 13, 10, 62, 98, 13, 10, 62, 99,
                          32, 120, 13, 10, 97, 99, 103, 116, 110, 42, 13, 10]
    r.1.map (·.name) = [[97], [98], [99]] ∧ r.1.map (·.desc) = [[100, 49], [], [120]] ∧
    r.1.map (·.seq) = [[65, 67, 71, 84, 65, 67], [], [97, 99, 103, 116, 110, 42]] ∧
    r.1.map (·.roff) = [1, 22, 26] ∧ r.1.map (·.hoff) = [7, 24, 30] ∧ r.1.map (·.doff) = [9, 26, 32] ∧ r.1.map (·.eoff) = [21, 25, 39] ∧
    r.1.map (·.L) = [6, 0, 6] ∧ r.2 = Status.eof := by
  decide +kernel

open EaselModel.Sqio.Cursor EaselModel.Sqio.ReadSpec EaselModel.Sqio.InfoSeqSpec in
/-- **`sqascii_ReadInfo` = `infoL` on the remaining file bytes, for every `B ≥ 1`** (the closed form of the info-only call) -/
theorem readInfo_closed_form (a : Ascii) (sq : Sq) (R : Ready a sq) (hsa : 2 ≤ sq.salloc) :
    (readInfo a sq).2.2 = (infoL a.inmap a.file.size sq (DataScan.fileFrom a)).1 ∧
    ((infoL a.inmap a.file.size sq (DataScan.fileFrom a)).1 = .ok →
      (readInfo a sq).2.1 = (infoL a.inmap a.file.size sq (DataScan.fileFrom a)).2.1 ∧ Cur (readInfo a sq).1 ∧
      DataScan.fileFrom (readInfo a sq).1 = (infoL a.inmap a.file.size sq (DataScan.fileFrom a)).2.2 ∧ stat (readInfo a sq).1 = stat a) ∧
    ((infoL a.inmap a.file.size sq (DataScan.fileFrom a)).1 = .eformat → (readInfo a sq).1.haveErr = true) ∧
    ((infoL a.inmap a.file.size sq (DataScan.fileFrom a)).1 = .eof → Cur (readInfo a sq).1 ∧ DataScan.fileFrom (readInfo a sq).1 = [] ∧
      stat (readInfo a sq).1 = stat a) :=
  readInfo_spec a sq R hsa

open EaselModel.Sqio.Cursor EaselModel.Sqio.ReadSpec EaselModel.Sqio.InfoSeqSpec in
/-- **`sqascii_ReadSequence` = `seqL` on the remaining file bytes, for every `B ≥ 1`** (`skip_fasta` + the residue loop) -/
theorem readSequence_closed_form (a : Ascii) (sq : Sq) (R : Ready a sq) :
    (readSequence a sq).2.2 = (seqL a.inmap a.file.size sq (DataScan.fileFrom a)).1 ∧
    ((seqL a.inmap a.file.size sq (DataScan.fileFrom a)).1 = .ok →
      (readSequence a sq).2.1 = (seqL a.inmap a.file.size sq (DataScan.fileFrom a)).2.1 ∧ Cur (readSequence a sq).1 ∧
      DataScan.fileFrom (readSequence a sq).1 = (seqL a.inmap a.file.size sq (DataScan.fileFrom a)).2.2 ∧ stat (readSequence a sq).1 = stat a) ∧
    ((seqL a.inmap a.file.size sq (DataScan.fileFrom a)).1 = .eformat → (readSequence a sq).1.haveErr = true) ∧
    ((seqL a.inmap a.file.size sq (DataScan.fileFrom a)).1 = .eof → Cur (readSequence a sq).1 ∧ DataScan.fileFrom (readSequence a sq).1 = [] ∧
      stat (readSequence a sq).1 = stat a) :=
  readSequence_spec a sq R

open EaselModel.Sqio.ReadSpec in
/-- **`Read`, `ReadInfo`, `ReadSequence` agree field by field, for every file, cursor position and block size** (was
    `read_readinfo_agree_partial`): whenever the whole-record read succeeds from a ready handle, the info-only and the sequence-only read
    succeed, all three stop on the same file byte, `ReadInfo` reports the same name, description, `roff` / `hoff` / `doff` / `eoff` and
    `L` = the number of residues `Read` stored, and `ReadSequence` the same residues, `roff` / `doff` / `eoff`, `L` and coordinates. -/
theorem read_readInfo_readSequence_agree (a : Ascii) (sq : Sq) (R : Ready a sq) (hs : sq.seq = #[]) (hsa : 2 ≤ sq.salloc)
    (hok : (read a sq).2.2 = .ok) :
    (readInfo a sq).2.2 = .ok ∧ (readSequence a sq).2.2 = .ok ∧
    DataScan.fileFrom (readInfo a sq).1 = DataScan.fileFrom (read a sq).1 ∧
    DataScan.fileFrom (readSequence a sq).1 = DataScan.fileFrom (read a sq).1 ∧
    (readInfo a sq).2.1.name = (read a sq).2.1.name ∧ (readInfo a sq).2.1.desc = (read a sq).2.1.desc ∧
    (readInfo a sq).2.1.roff = (read a sq).2.1.roff ∧ (readInfo a sq).2.1.hoff = (read a sq).2.1.hoff ∧
    (readInfo a sq).2.1.doff = (read a sq).2.1.doff ∧ (readInfo a sq).2.1.eoff = (read a sq).2.1.eoff ∧
    (readInfo a sq).2.1.L = (read a sq).2.1.L ∧ (readInfo a sq).2.1.L = ((read a sq).2.1.seq.size : Int) ∧
    (readSequence a sq).2.1.seq = (read a sq).2.1.seq ∧ (readSequence a sq).2.1.roff = (read a sq).2.1.roff ∧
    (readSequence a sq).2.1.doff = (read a sq).2.1.doff ∧ (readSequence a sq).2.1.eoff = (read a sq).2.1.eoff ∧
    (readSequence a sq).2.1.L = (read a sq).2.1.L ∧ (readSequence a sq).2.1.start = (read a sq).2.1.start ∧
    (readSequence a sq).2.1.end_ = (read a sq).2.1.end_ :=
  Totality.three_calls_agree a sq R hs hsa hok

open EaselModel.Sqio.ParseFasta EaselModel.Sqio.ReadSpec in
/-- non-vacuity of `Ready`: the handle right after opening any file with any `B ≥ 1` in any of the four modes is ready -/
example (bytes : Bytes) (B abc : Nat) (hB : 1 ≤ B) (habc : abc ∈ [0, 1, 2, 3]) : Ready (openFasta bytes B abc) (freshSq abc).reuse :=
  (openFasta_ready bytes B abc hB habc).1

open EaselModel.Sqio.ParseFasta in
/-- non-vacuity / sanity of the closed form: `>a b c\nAC\nG T\n>x\n` (text mode) parses into two records — name `a`, description
    `b c`, residues `ACGT`, `roff = 0`, `hoff = 6`, `doff = 7`, `eoff = 13`, `L = 4`; then name `x`, empty, `roff = 14`, `doff = 17`, `eoff = 16` -/
example :
    let r := parseFasta 0 #[62, 97, 32, 98, 32, 99, 10, 65, 67, 10, 71, 32, 84, 10, 62, 120, 10]
    r.1.map (·.name) = [#[97], #[120]] ∧ r.1.map (·.desc) = [#[98, 32, 99], #[]] ∧ r.1.map (·.seq) = [#[65, 67, 71, 84], #[]] ∧
    r.1.map (·.roff) = [0, 14] ∧ r.1.map (·.hoff) = [6, 16] ∧ r.1.map (·.doff) = [7, 17] ∧ r.1.map (·.eoff) = [13, 16] ∧
    r.1.map (·.L) = [4, 0] ∧ r.2 = Status.eof := by
  decide +kernel


/-! ## Forward windows deliver the residues of `Read` (round 4): `sqascii_ReadWindow` = the declarative window series, for every block size

`WindowSpec.readNres_zero_spec`: `read_nres(sqfp, sq, 0, W)` in closed form on the remaining file bytes (`splitRes`: the shortest prefix
holding `W` residues), for every `B ≥ 1` — through `seebuf(maxn)`, `addbuf`, `loadbuf` at every block boundary, a window ending exactly at
a block end included. `WindowSeries.windows_eq_read` composes it with `header_fasta`, the context slide (`memmove`), `end_fasta`. -/

open EaselModel.Sqio.Cursor EaselModel.Sqio.ReadSpec EaselModel.Sqio.WindowSeries EaselModel.Sqio.WinSpecPure in
/-- **`ReadWindow` series = `specWindows` of the residues `Read` returns.** For every file, cursor position, block size `B ≥ 1`, text or
    digital mode and every request stream `(C_k ≥ 0, W_k ≥ 1)` (context and width may change from call to call): if the whole-record read
    succeeds with residues `R`, the loop `while (esl_sqio_ReadWindow(sqfp, C_k, W_k, sq) == eslOK)` on the same handle returns exactly
    the declarative windows of `R` (`Sqio/WinSpecPure.lean`: context = the `min C_k (previous window size)` preceding residues, `min W_k
    (residues left)` new ones, `start = d − c + 1`, `end = d + w`, residues `R[start..end]`; `F` = any loop bound ≥ `|R| + 2`), then `eslEOD` with `L = |R|` and an empty
    window, reports the same name / accession / description / `roff` / `hoff` / `doff` (`hdrOf`: also mode and string allocations), and
    leaves the cursor on the byte where `Read` leaves it (so the next record starts identically for both: `windows_then_ready`). -/
theorem windows_eq_read (a : Ascii) (sq : Sq) (R : Ready a sq) (hs : sq.seq = #[]) (hst : sq.start = 0)
    (hok : (read a sq).2.2 = .ok) (req : Nat → Int × Int) (hreq : ∀ k, 0 ≤ (req k).1 ∧ 1 ≤ (req k).2)
    (F : Nat) (hF : (read a sq).2.1.seq.size + 2 ≤ F) :
    (readWindowsM req F 0 a sq).1.map toWin =
      specWindows (read a sq).2.1.seq req F 0 0 0 ∧
    (readWindowsM req F 0 a sq).2.2.2 = .eod ∧
    (readWindowsM req F 0 a sq).2.2.1.seq = #[] ∧
    (readWindowsM req F 0 a sq).2.2.1.L = (read a sq).2.1.L ∧
    (readWindowsM req F 0 a sq).2.2.1.start = 0 ∧
    hdrOf (readWindowsM req F 0 a sq).2.2.1 = hdrOf (read a sq).2.1 ∧
    Cur (readWindowsM req F 0 a sq).2.1 ∧
    DataScan.fileFrom (readWindowsM req F 0 a sq).2.1 = DataScan.fileFrom (read a sq).1 ∧
    stat (readWindowsM req F 0 a sq).2.1 = stat a :=
  WindowSeries.windows_eq_read a sq R hs hst hok req hreq F hF

open EaselModel.Sqio.ReadSpec EaselModel.Sqio.WindowSeries in
/-- **the window loop composes over the records of a file**: after the `eslEOD` that ends a record's window series, the handle and the
    `ESL_SQ` are ready for the next record exactly as after `sqascii_Read` + `esl_sq_Reuse` — `Ready` again, cursor on the same byte,
    `start = 0`, no residues — so `windows_eq_read` applies to the next record, and so on through the file -/
theorem windows_then_ready (a : Ascii) (sq : Sq) (R : Ready a sq) (hs : sq.seq = #[]) (hst : sq.start = 0)
    (hok : (read a sq).2.2 = .ok) (req : Nat → Int × Int) (hreq : ∀ k, 0 ≤ (req k).1 ∧ 1 ≤ (req k).2)
    (F : Nat) (hF : (read a sq).2.1.seq.size + 2 ≤ F) :
    Ready (readWindowsM req F 0 a sq).2.1 (readWindowsM req F 0 a sq).2.2.1 ∧
    (readWindowsM req F 0 a sq).2.2.1.seq = #[] ∧
    (readWindowsM req F 0 a sq).2.2.1.start = 0 ∧
    DataScan.fileFrom (readWindowsM req F 0 a sq).2.1 = DataScan.fileFrom (read a sq).1 :=
  WindowSeries.windows_then_ready a sq R hs hst hok req hreq F hF

open EaselModel.Sqio.ReadSpec EaselModel.Sqio.WindowSeries EaselModel.Sqio.WinSpecPure in
/-- **`windows_concat_eq_read`**: the new (non-context) parts of the windows, concatenated in call order, are exactly the residue array
    of the whole-record read — `ReadWindow` and `Read` deliver the same residues, for every block size and window geometry. -/
theorem windows_concat_eq_read (a : Ascii) (sq : Sq) (R : Ready a sq) (hs : sq.seq = #[]) (hst : sq.start = 0)
    (hok : (read a sq).2.2 = .ok) (req : Nat → Int × Int) (hreq : ∀ k, 0 ≤ (req k).1 ∧ 1 ≤ (req k).2) :
    ((readWindowsM req ((read a sq).2.1.seq.size + 2) 0 a sq).1.map toWin).foldl (fun acc x => acc ++ newPart x) #[] =
      (read a sq).2.1.seq :=
  WindowSeries.windows_concat_eq_read a sq R hs hst hok req hreq

open EaselModel.Sqio.ReadSpec EaselModel.Sqio.WindowSeries EaselModel.Sqio.WinSpecPure in
/-- every window is `[start .. end]` (1-based, inside `1..L`) and holds exactly `C + W = end − start + 1` residues -/
theorem windows_coords (a : Ascii) (sq : Sq) (R : Ready a sq) (hs : sq.seq = #[]) (hst : sq.start = 0)
    (hok : (read a sq).2.2 = .ok) (req : Nat → Int × Int) (hreq : ∀ k, 0 ≤ (req k).1 ∧ 1 ≤ (req k).2) :
    ∀ x ∈ (readWindowsM req ((read a sq).2.1.seq.size + 2) 0 a sq).1.map toWin,
      x.end_ - x.start + 1 = x.C + x.W ∧ (x.seq.size : Int) = x.C + x.W ∧ 1 ≤ x.start ∧
      x.end_ ≤ ((read a sq).2.1.seq.size : Int) ∧ 0 ≤ x.C :=
  WindowSeries.windows_coords a sq R hs hst hok req hreq

open EaselModel.Sqio.Cursor EaselModel.Sqio.BodySpec EaselModel.Sqio.WindowSpec in
/-- **`read_nres(sqfp, sq, 0, W)` in closed form, for every `B ≥ 1`** (the residue reader of `ReadWindow` / `FetchSubseq`): on clean data
    (the record's data ends at the end of the file or at `>`), from any well-formed handle — the cursor may even stand at the very end of a
    block — it appends exactly the residues of `splitRes … W` (the shortest prefix of the remaining bytes holding `W` residues, or all
    data bytes if fewer), reports their number, `eslEOD` iff there is none, and leaves the cursor right behind the bytes consumed. -/
theorem read_nres_closed_form (a : Ascii) (sq : Sq) (W : Nat) (hW : 1 ≤ W) (w : Refine.WF a) (tok : Fold.Track.Ok a.trk) (hm : a.inmap.size = 128)
    (heof : a.eofIsOk = true) (hmap : MapOk a.inmap (mapOf a sq)) (hclean : Clean a.inmap (DataScan.fileFrom a))
    (hcap : sq.seq.size + W + (if sq.digital then 2 else 1) ≤ sq.salloc) :
    (readNres a sq 0 W).2.1 = { sq with seq := sq.seq ++ resOf a.inmap (mapOf a sq) (splitRes a.inmap (DataScan.fileFrom a) W).1 } ∧
    (readNres a sq 0 W).2.2.2 = nresOf a.inmap (splitRes a.inmap (DataScan.fileFrom a) W).1 ∧
    (readNres a sq 0 W).2.2.1 = (if nresOf a.inmap (splitRes a.inmap (DataScan.fileFrom a) W).1 = 0 then .eod else .ok) ∧
    Refine.WF (readNres a sq 0 W).1 ∧ DataScan.fileFrom (readNres a sq 0 W).1 = (splitRes a.inmap (DataScan.fileFrom a) W).2 ∧
    stat (readNres a sq 0 W).1 = stat a := by
  obtain ⟨r1, r2, r3, r4, _, r6, r7, _⟩ := WindowSpec.readNres_zero_spec a sq W hW w tok hm heof hmap hclean hcap
  exact ⟨r1, r2, r3, r4, r6, r7⟩

open EaselModel.Sqio.ParseFasta EaselModel.Sqio.WindowSeries EaselModel.Sqio.WinSpecPure in
/-- non-vacuity, on the executable model: `>a\nAC\nGT\n>b\n` opened with B = 2 (text mode), windows requested with `C = 1, W = 3`:
    `[1..3] = ACG` (no context), then `[3..4] = GT` with one residue of context, then `eslEOD` with `L = 4` — and the whole-record read of
    the same handle returns `ACGT` -/
example :
    let a := openFasta #[62, 97, 10, 65, 67, 10, 71, 84, 10, 62, 98, 10] 2 0
    let r := readWindowsM (fun _ => (1, 3)) 6 0 a (freshSq 0).reuse
    r.1.map toWin = [⟨1, 3, 0, 3, #[65, 67, 71]⟩, ⟨3, 4, 1, 1, #[71, 84]⟩] ∧ r.2.2.2 = Status.eod ∧ r.2.2.1.L = 4 ∧
    (read a (freshSq 0).reuse).2.1.seq = #[65, 67, 71, 84] ∧ (read a (freshSq 0).reuse).2.2 = Status.ok := by
  decide +kernel


open EaselModel.Sqio.ParseFasta EaselModel.Sqio.SpecFasta EaselModel.Sqio.FileWindows EaselModel.Sqio.WinSpecPure in
/-- **Windows over a whole file = the declarative windows of the declarative records, from `esl_sqfile_Open` on.** For every byte string
    whose records all parse (`specFasta` ends with `eslEOF`), every mode, every read-block size `B ≥ 1` and every request stream
    `(C_k ≥ 0, W_k ≥ 1)` (restarted at every record): the client loop "for each record: `while (esl_sqio_ReadWindow(...) == eslOK)`, until
    `eslEOF`" (`readFileWindowsM`) returns, record by record, exactly `specWindows` of the residues of the records of `specFasta` — the
    same residues, tiling, context and coordinates that `Read` + slicing would give — and ends with `eslEOF`. -/
theorem file_windows_eq_specFasta (bytes : Bytes) (B abc : Nat) (hB : 1 ≤ B) (habc : abc ∈ [0, 1, 2, 3])
    (req : Nat → Int × Int) (hreq : ∀ k, 0 ≤ (req k).1 ∧ 1 ≤ (req k).2) (hclean : (specFasta abc bytes.toList).2 = .eof) :
    (readFileWindowsM req (bytes.size + 2) (openFasta bytes B abc) (freshSq abc).reuse).1.map (fun ws => ws.map toWin) =
      (specFasta abc bytes.toList).1.map (fun r => specWindows r.seq.toArray req (bytes.size + 2) 0 0 0) ∧
    (readFileWindowsM req (bytes.size + 2) (openFasta bytes B abc) (freshSq abc).reuse).2 = .eof :=
  FileWindows.file_windows_from_open bytes B abc hB habc req hreq hclean

/-! ## `sqascii_ReadBlock`, whole-sequence mode (round 4) -/

open EaselModel.Sqio.BlockSpec EaselModel.Sqio.SpecFasta in
/-- **`ReadBlock` (not `long_target`) delivers the records of `Read`, for every block size `B ≥ 1`.** From a ready handle and a block whose
    slots are as `esl_sq_Reuse` leaves them (each slot with its own allocations): slot `k` holds — name, description, residues, `roff` /
    `hoff` / `doff` / `eoff`, `L` — the `k`-th record of `specBlock` (records of the declarative `specOne` while fewer than `max_sequences`
    records and fewer than `MAX_RESIDUE_COUNT` residues were taken), `count` says how many, these records are a prefix of what a `Read`
    loop yields from the same cursor (`specAll` = the loop of `specFasta`); the status is `eslOK` when at least one record was read,
    else the reader's `eslEOF` / `eslEFORMAT`; never `fault`. -/
theorem readBlock_short_eq_read (dig : Bool) (abc : Nat) (a : Ascii) (b : Block) (maxRes maxSeq : Int) (maxInit : Bool)
    (H : HReady a (if dig then abcInmap abc else a.inmap)) (hls : b.listSize ≤ b.list.size)
    (hslot : ∀ j, j < blockMaxSeq b maxSeq → SlotOk dig abc (b.list.getD j {})) :
    (readBlock a b maxRes maxSeq maxInit false).2.2 =
      (if (specBlock a.inmap (if dig then abcInmap abc else a.inmap) a.file.size (fuelOf a) 0 0 (blockMaxSeq b maxSeq) .ok (DataScan.fileFrom a)).2.1 == .eof &&
          (specBlock a.inmap (if dig then abcInmap abc else a.inmap) a.file.size (fuelOf a) 0 0 (blockMaxSeq b maxSeq) .ok (DataScan.fileFrom a)).1.length > 0
       then .ok
       else (specBlock a.inmap (if dig then abcInmap abc else a.inmap) a.file.size (fuelOf a) 0 0 (blockMaxSeq b maxSeq) .ok (DataScan.fileFrom a)).2.1) ∧
    (readBlock a b maxRes maxSeq maxInit false).2.1.count =
      (specBlock a.inmap (if dig then abcInmap abc else a.inmap) a.file.size (fuelOf a) 0 0 (blockMaxSeq b maxSeq) .ok (DataScan.fileFrom a)).1.length ∧
    (∀ k r, (specBlock a.inmap (if dig then abcInmap abc else a.inmap) a.file.size (fuelOf a) 0 0 (blockMaxSeq b maxSeq) .ok (DataScan.fileFrom a)).1[k]? = some r →
      toRecord ((readBlock a b maxRes maxSeq maxInit false).2.1.list.getD k {}) = r) ∧
    (readBlock a b maxRes maxSeq maxInit false).2.1.complete = true ∧
    (readBlock a b maxRes maxSeq maxInit false).2.2 ≠ .fault ∧
    (specBlock a.inmap (if dig then abcInmap abc else a.inmap) a.file.size (fuelOf a) 0 0 (blockMaxSeq b maxSeq) .ok (DataScan.fileFrom a)).1 <+:
      (specAll a.inmap (if dig then abcInmap abc else a.inmap) a.file.size (fuelOf a) (DataScan.fileFrom a)).1 :=
  BlockSpec.readBlock_short_spec dig abc a b maxRes maxSeq maxInit H hls hslot

open EaselModel.Sqio.ParseFasta EaselModel.Sqio.SpecFasta in
/-- non-vacuity, on the executable model: `>a\nAC\nGT\n>b\nG\n>c\nT\n` (B = 3, text mode), a block of two slots: two records (`a` =
    `ACGT`, `b` = `G`), status `eslOK`; the next call delivers `c` -/
example :
    let a := openFasta #[62, 97, 10, 65, 67, 10, 71, 84, 10, 62, 98, 10, 71, 10, 62, 99, 10, 84, 10] 3 0
    let b : Block := { listSize := 2, list := #[freshSq 0, freshSq 0] }
    let r := readBlock a b (-1) (-1) false false
    r.2.2 = Status.ok ∧ r.2.1.count = 2 ∧ (r.2.1.list.toList.map (fun s => (toRecord s).name)) = [[97], [98]] ∧
    (r.2.1.list.toList.map (fun s => (toRecord s).seq)) = [[65, 67, 71, 84], [71]] := by
  decide +kernel


/-! ## Write + re-read (round 4) -/

open EaselModel.Sqio.RoundTrip EaselModel.Sqio.SpecFasta in
/-- **Writing records out as FASTA and re-reading reproduces them (text mode), for every block size.** For every list of writable records
    (`Good`: non-empty name without white space; description without end-of-line / ctrl-A bytes, not starting with a blank; residues the
    FASTA input map accepts): the text `allText rs` (= the concatenation of what `esl_sqascii_WriteFasta` writes, `writeFasta_is_fastaText`)
    is parsed by `specFasta 0` — which by `read_all_eq_specFasta` is what `sqascii_Read` returns for every `B ≥ 1` — into exactly these
    names, descriptions and residues (`expected`: plus the offsets of the 60-column layout and `L`), followed by `eslEOF`. -/
theorem write_read_roundtrip (rs : List (List UInt8 × List UInt8 × List UInt8)) (hg : ∀ r ∈ rs, Good (inmapFasta 0) r) :
    specFasta 0 (allText rs) = (expected (inmapFasta 0) (allText rs).length rs, .eof) ∧
    (expected (inmapFasta 0) (allText rs).length rs).map (fun x => (x.name, x.desc, x.seq)) = rs := by
  refine ⟨specFasta_allText rs hg, ?_⟩
  generalize (allText rs).length = N
  induction rs with
  | nil => rfl
  | cons r rs ih =>
    simp only [expected, List.map_cons, ih (fun r' hr' => hg r' (by simp [hr'])),
      text_map_id_list r.2.2 (hg r (by simp)).res]

open EaselModel.Sqio.RoundTrip EaselModel.Sqio.SpecFasta EaselModel.Sqio.HeaderSpec in
/-- **Write + re-read in digital mode (DNA / RNA / amino), for every block size**: records whose residues are codes of the alphabet other
    than the gap code are written as symbols (`textize`, what `esl_sqascii_WriteFasta` prints: `writeFasta_is_fastaText_digital`) and
    `specFasta abc` — the reader in the same digital mode, for every `B ≥ 1` — returns the same names, descriptions and CODES. (The gap
    code is excluded because the reader does not accept `-` as a residue; a record that came from a FASTA file never holds one.) -/
theorem write_read_roundtrip_digital (abc : Nat) (habc : abc ∈ [1, 2, 3]) (rs : List (List UInt8 × List UInt8 × List UInt8))
    (hn : ∀ r ∈ rs, r.1 ≠ [] ∧ (∀ c ∈ r.1, isSpace c = false) ∧ (∀ c ∈ r.2.1, pDesc c = true) ∧
      (∀ c t, r.2.1 = c :: t → isBlankTab c = false) ∧ ∀ x ∈ r.2.2, CodeOk abc x) :
    specFasta abc (allText (rs.map fun r => (r.1, r.2.1, textize abc r.2.2))) =
      (expected (abcInmap abc) (allText (rs.map fun r => (r.1, r.2.1, textize abc r.2.2))).length
         (rs.map fun r => (r.1, r.2.1, textize abc r.2.2)), .eof) ∧
    (expected (abcInmap abc) (allText (rs.map fun r => (r.1, r.2.1, textize abc r.2.2))).length
       (rs.map fun r => (r.1, r.2.1, textize abc r.2.2))).map (fun x => (x.name, x.desc, x.seq)) = rs :=
  RoundTrip.specFasta_allText_digital abc habc rs hn

open EaselModel.Sqio.RoundTrip in
theorem writeFasta_is_fastaText_digital (sq : Sq) (hd : sq.digital = true) (ha : cstr sq.acc = #[]) (hn : cstr sq.name = sq.name)
    (hds : cstr sq.desc = sq.desc) : writeFasta sq = fastaText sq.name.toList sq.desc.toList (textize sq.abc sq.seq.toList) :=
  RoundTrip.writeFasta_digital sq hd ha hn hds

open EaselModel.Sqio.RoundTrip in
/-- `allText` is made of what the model of `esl_sqascii_WriteFasta` writes (text mode, no accession, strings without NUL) -/
theorem writeFasta_is_fastaText (sq : Sq) (hd : sq.digital = false) (ha : cstr sq.acc = #[]) (hn : cstr sq.name = sq.name)
    (hds : cstr sq.desc = sq.desc) : writeFasta sq = fastaText sq.name.toList sq.desc.toList sq.seq.toList :=
  RoundTrip.writeFasta_text sq hd ha hn hds

open EaselModel.Sqio.RoundTrip EaselModel.Sqio.SpecFasta in
/-- non-vacuity: two writable records (`a` / `x y` / 61 residues — two data lines — and `b` / no description / no residues) -/
example : Good (inmapFasta 0) ([97], [120, 32, 121], List.replicate 61 65) ∧ Good (inmapFasta 0) ([98], [], []) := by
  refine ⟨⟨by decide, by decide, by decide, ?_, ?_⟩, ⟨by decide, by decide, by decide, ?_, by decide⟩⟩
  · intro c t h; have := (List.cons.inj h).1; rw [← this]; decide
  · skip
    intro c hc
    have : c = 65 := by simpa using List.eq_of_mem_replicate hc
    subst this; decide +kernel
  · intro c t h; cases h


/-! ## Reverse-strand windows end to end (round 4), brute-force addressing -/

open EaselModel.Sqio.ParseFasta EaselModel.Sqio.RevWindowSpec in
/-- **First reverse-strand window = reverse complement of the top `min W L` residues of the scanned record, for every block size.**
    `s` is a record of the sequential scan; `sq` is as the forward pass left it at `eslEOD` (`start = end = 0`, `L`, `doff` of the record);
    `a` any block-mode handle on the file that holds no line geometry (`bpl ≤ 0 ∨ rpl ≤ 0`: unset or invalidated, the brute-force case
    that the repair 2dacdd7 made the fallback). The call returns `esl_sq_ReverseComplement` (`revOf` = `revcomp` of the slice, with its
    status: `eslEINVAL` for a text residue without complement, `eslEINCOMPAT` for an alphabet without one) of `s.seq[start..L]`,
    `start = max 1 (L − W + 1)`, coordinates swapped. -/
theorem rev_first_window_eq_revcomp_slice (bytes : Bytes) (abc : Nat) (habc : abc ∈ [0, 1, 2, 3]) (s : Sq) (hs : s ∈ (parseFasta abc bytes).1)
    (a : Ascii) (hf : a.file = bytes) (hb : a.linebased = false) (hr : a.recording ≠ 1) (hB : 1 ≤ a.B)
    (hi : a.inmap = inmapFasta abc) (heof : a.eofIsOk = true) (hgeo : a.trk.bpl ≤ 0 ∨ a.trk.rpl ≤ 0)
    (sq : Sq) (hdig : sq.digital = (abc != 0)) (hsabc : sq.abc = abc) (hdoff : sq.doff = s.doff)
    (hL : sq.L = s.L) (hL1 : 1 ≤ s.L) (hst : sq.start = 0) (hen : sq.end_ = 0) (C W : Int) (hW : 1 ≤ W) :
    (readWindow a sq C (-W)).2.1 =
      (revOf { sq with start := (revInit sq.L W).1, end_ := (revInit sq.L W).2, C := 0, W := (revInit sq.L W).2 - (revInit sq.L W).1 + 1 } s.seq).1 ∧
    (readWindow a sq C (-W)).2.2 =
      (revOf { sq with start := (revInit sq.L W).1, end_ := (revInit sq.L W).2, C := 0, W := (revInit sq.L W).2 - (revInit sq.L W).1 + 1 } s.seq).2.1 :=
  RevWindowSpec.rev_first_window_brute bytes abc habc s hs a hf hb hr hB hi heof hgeo sq hdig hsabc hdoff hL hL1 hst hen C W hW

open EaselModel.Sqio.ParseFasta EaselModel.Sqio.RevWindowSpec in
/-- **Later reverse-strand windows**: `sq` holds the previous window (`end_` = its lower coordinate, `2 ≤ end_ ≤ L`); the call returns the
    reverse complement of `s.seq[start .. end_ + c − 1]` with the schedule `revNext` (`c = min C (L − end_ + 1)` residues of context; by
    `rev_windows_tile` these windows tile `1..L` downwards) -/
theorem rev_next_window_eq_revcomp_slice (bytes : Bytes) (abc : Nat) (habc : abc ∈ [0, 1, 2, 3]) (s : Sq) (hs : s ∈ (parseFasta abc bytes).1)
    (a : Ascii) (hf : a.file = bytes) (hb : a.linebased = false) (hr : a.recording ≠ 1) (hB : 1 ≤ a.B)
    (hi : a.inmap = inmapFasta abc) (heof : a.eofIsOk = true) (hgeo : a.trk.bpl ≤ 0 ∨ a.trk.rpl ≤ 0)
    (sq : Sq) (hdig : sq.digital = (abc != 0)) (hsabc : sq.abc = abc) (hdoff : sq.doff = s.doff)
    (hL : sq.L = s.L) (hst : sq.start ≠ 0) (hlo : 2 ≤ sq.end_) (hhi : sq.end_ ≤ s.L) (C W : Int) (hC : 0 ≤ C) (hW : 1 ≤ W) :
    (readWindow a sq C (-W)).2.1 =
      (revOf { sq with C := (revNext sq.L C W sq.end_).1, end_ := (revNext sq.L C W sq.end_).2.1,
                       start := (revNext sq.L C W sq.end_).2.2.1, W := (revNext sq.L C W sq.end_).2.2.2 } s.seq).1 ∧
    (readWindow a sq C (-W)).2.2 =
      (revOf { sq with C := (revNext sq.L C W sq.end_).1, end_ := (revNext sq.L C W sq.end_).2.1,
                       start := (revNext sq.L C W sq.end_).2.2.1, W := (revNext sq.L C W sq.end_).2.2.2 } s.seq).2.1 :=
  RevWindowSpec.rev_next_window_brute bytes abc habc s hs a hf hb hr hB hi heof hgeo sq hdig hsabc hdoff hL hst hlo hhi C W hC hW

open EaselModel.Sqio.ParseFasta EaselModel.Sqio.RevWindowSpec EaselModel.Sqio.BodySpec in
/-- **Reverse windows when the handle holds a line geometry (`bpl, rpl > 0`), line addressing (`bpl ≠ rpl + 1`)**: `revTail a sq` is the
    reverse-strand call after the schedule (`revInit` / `revNext`) has set `start`, `end`, `C`, `W` (`readWindow_rev_first` / `_next` are the
    equations; `RevWindowGeo.rev_first_window_line` … the composed forms). If the record's data really begins with `(start−1)/r` complete
    lines of `b` bytes and `r` residues — what `bpl, rpl > 0` is meant to promise, and what the known finding shows the tracker does not
    always deliver — the window is `esl_sq_ReverseComplement` of `s.seq[start..end]`, for every block size. -/
theorem rev_window_eq_revcomp_slice_line (bytes : Bytes) (abc : Nat) (habc : abc ∈ [0, 1, 2, 3]) (s : Sq) (hs : s ∈ (parseFasta abc bytes).1)
    (a : Ascii) (hf : a.file = bytes) (hb : a.linebased = false) (hr : a.recording ≠ 1) (hB : 1 ≤ a.B)
    (hi : a.inmap = inmapFasta abc) (heof : a.eofIsOk = true)
    (b r : Nat) (hbpl : a.trk.bpl = (b : Int)) (hrpl : a.trk.rpl = (r : Int)) (hr0 : 0 < r) (hb0 : 0 < b) (hne : b ≠ r + 1)
    (sq : Sq) (hdig : sq.digital = (abc != 0)) (hsabc : sq.abc = abc) (hdoff : sq.doff = s.doff)
    (h1 : 1 ≤ sq.start) (h2 : sq.start ≤ sq.end_) (h3 : sq.end_ ≤ s.L) (hcw : sq.C + sq.W = sq.end_ - sq.start + 1)
    (lines : List (List UInt8)) (tail : List UInt8) (hgeo : bytes.toList.drop s.doff.toNat = lines.flatten ++ tail)
    (hfull : Geometry.FullLines (isRes (inmapFasta abc)) b r lines)
    (hdat : ∀ c ∈ lines.flatten, isData (inmapFasta abc) c = true) (hl : lines.length = (sq.start.toNat - 1) / r) :
    (revTail a sq).2.1 = (revOf sq s.seq).1 ∧ (revTail a sq).2.2 = (revOf sq s.seq).2.1 :=
  RevWindowGeo.revTail_line bytes abc habc s hs a hf hb hr hB hi heof b r hbpl hrpl hr0 hb0 hne sq hdig hsabc hdoff h1 h2 h3 hcw lines tail
    hgeo hfull hdat hl

open EaselModel.Sqio.ParseFasta EaselModel.Sqio.RevWindowSpec EaselModel.Sqio.BodySpec in
/-- the same under residue addressing (`bpl = rpl + 1`): moreover the line holding residue `start` begins with more than `(start−1) % r`
    residues and nothing else before them -/
theorem rev_window_eq_revcomp_slice_residue (bytes : Bytes) (abc : Nat) (habc : abc ∈ [0, 1, 2, 3]) (s : Sq) (hs : s ∈ (parseFasta abc bytes).1)
    (a : Ascii) (hf : a.file = bytes) (hb : a.linebased = false) (hr : a.recording ≠ 1) (hB : 1 ≤ a.B)
    (hi : a.inmap = inmapFasta abc) (heof : a.eofIsOk = true)
    (r : Nat) (hbpl : a.trk.bpl = ((r + 1 : Nat) : Int)) (hrpl : a.trk.rpl = (r : Int)) (hr0 : 0 < r)
    (sq : Sq) (hdig : sq.digital = (abc != 0)) (hsabc : sq.abc = abc) (hdoff : sq.doff = s.doff)
    (h1 : 1 ≤ sq.start) (h2 : sq.start ≤ sq.end_) (h3 : sq.end_ ≤ s.L) (hcw : sq.C + sq.W = sq.end_ - sq.start + 1)
    (lines : List (List UInt8)) (res tail : List UInt8) (hgeo : bytes.toList.drop s.doff.toNat = lines.flatten ++ (res ++ tail))
    (hfull : Geometry.FullLines (isRes (inmapFasta abc)) (r + 1) r lines)
    (hdat : ∀ c ∈ lines.flatten, isData (inmapFasta abc) c = true) (hres : ∀ c ∈ res, isRes (inmapFasta abc) c = true)
    (hj : (sq.start.toNat - 1) % r ≤ res.length) (hl : lines.length = (sq.start.toNat - 1) / r) :
    (revTail a sq).2.1 = (revOf sq s.seq).1 ∧ (revTail a sq).2.2 = (revOf sq s.seq).2.1 :=
  RevWindowGeo.revTail_residue bytes abc habc s hs a hf hb hr hB hi heof r hbpl hrpl hr0 sq hdig hsabc hdoff h1 h2 h3 hcw lines res tail
    hgeo hfull hdat hres hj hl

open EaselModel.Sqio.ParseFasta in
/-- non-vacuity on the executable model: `>a\nACGTAC\n` (DNA, B = 2): forward pass to `eslEOD`, then reverse windows of 4:
    `GTAC` (= revcomp of residues 3..6, coordinates 6..3), then `GT` + context... here with `C = 0`: `GT` (revcomp of `AC`, 2..1) -/
example :
    let a := openFasta #[62, 97, 10, 65, 67, 71, 84, 65, 67, 10] 2 0
    let r1 := readWindow a (freshSq 0).reuse 0 100
    let r2 := readWindow r1.1 r1.2.1 0 100
    let r3 := readWindow r2.1 r2.2.1 0 (-4)
    let r4 := readWindow r3.1 r3.2.1 0 (-4)
    r2.2.2 = Status.eod ∧ r3.2.2 = Status.ok ∧ r3.2.1.seq = #[71, 84, 65, 67] ∧ r3.2.1.start = 6 ∧ r3.2.1.end_ = 3 ∧
    r4.2.2 = Status.ok ∧ r4.2.1.seq = #[71, 84] ∧ r4.2.1.start = 2 ∧ r4.2.1.end_ = 1 := by
  decide +kernel

/-! ## The line-based formats (EMBL / UniProt / GenBank / DDBJ), round 4: the line loader is block-size independent -/

open EaselModel.Sqio.LineSpec in
/-- **`loadbuf` in line mode delivers the next line of the FILE, for every read-block size `B ≥ 1`** (the `memchr` / `while (nlp == NULL)`
    loop that glues a line together from as many `fread` blocks as it takes): the line buffer is `nextLine rest` — the bytes of the file
    behind the current line up to and including the first `\n`, or all that is left —, `boff` is the true offset of its first byte,
    `nc` its length, the status is `eslEOF` exactly when nothing is left, never `fault`; `B` does not occur. -/
theorem loadbuf_line_closed_form (a : Ascii) (h : LWF a) :
    LWF (loadbuf a).1 ∧ keepL (loadbuf a).1 = keepL a ∧
    (loadbuf a).1.line.toList = (nextLine (a.file.toList.drop (a.boff.toNat + a.nc))).1 ∧
    (loadbuf a).1.nc = (nextLine (a.file.toList.drop (a.boff.toNat + a.nc))).1.length ∧
    (loadbuf a).1.boff = a.boff + a.nc ∧ (loadbuf a).1.bpos = 0 ∧
    (loadbuf a).2 = (if a.file.toList.drop (a.boff.toNat + a.nc) = [] then .eof else .ok) ∧
    a.file.toList.drop ((loadbuf a).1.boff.toNat + (loadbuf a).1.nc) = (nextLine (a.file.toList.drop (a.boff.toNat + a.nc))).2 :=
  LineSpec.loadbuf_line a h

open EaselModel.Sqio.LineSpec in
/-- two line-mode handles on one file with any two block sizes, standing on the same line: after `loadbuf` they stand on the same next
    line (same bytes, same offset, same status) — the simulation that every reader of the line-based formats preserves, since these
    readers touch the handle only through `loadbuf`, the line buffer, `nc` and `boff` -/
theorem loadbuf_line_block_size_independent {a1 a2 : Ascii} (h : LSim a1 a2) :
    LSim (loadbuf a1).1 (loadbuf a2).1 ∧ (loadbuf a1).2 = (loadbuf a2).2 := LineSpec.loadbuf_lsim h

open EaselModel.Sqio.LineSpec in
/-- the handle `esl_sqfile_Open` yields for a line-based format satisfies the invariant and stands on the first line, for every `B ≥ 1` -/
theorem open_line_based (file : Bytes) (B abc fmt : Nat) (eofOk : Bool) (inmap : Bytes) (hB : 1 ≤ B) :
    LWF (loadbuf { file := file, B := B, abc := abc, fmt := fmt, eofIsOk := eofOk, linebased := true, inmap := inmap }).1 ∧
    (loadbuf { file := file, B := B, abc := abc, fmt := fmt, eofIsOk := eofOk, linebased := true, inmap := inmap }).1.line.toList =
      (nextLine file.toList).1 ∧
    (loadbuf { file := file, B := B, abc := abc, fmt := fmt, eofIsOk := eofOk, linebased := true, inmap := inmap }).1.boff = 0 ∧
    (loadbuf { file := file, B := B, abc := abc, fmt := fmt, eofIsOk := eofOk, linebased := true, inmap := inmap }).2 =
      (if file.toList = [] then .eof else .ok) := LineSpec.open_line file B abc fmt eofOk inmap hB


/-! ## EMBL / UniProt / GenBank / DDBJ: the record readers are block-size independent (round 4, `Sqio/EmblSpec.lean`)

By simulation: the readers of the line-based formats touch the handle only through `loadbuf` (one line per call), the line buffer, `nc`
and `boff`; two handles on the same line (`LSim`, any two block sizes) therefore stay on the same line through `skipLinesWhile`,
`emblScan` / `genbankScan` (`ID` / `AC` / `DE` / `SQ`, `LOCUS` / `VERSION` / `DEFINITION` / `ORIGIN` lines), the residue loop (`seebuf` /
`addbuf` read `line[i]`), `end_embl` / `end_genbank`. -/

open EaselModel.Sqio.LineSpec EaselModel.Sqio.EmblSpec in
/-- **`header_embl` / `skip_embl` return the same status and the same `ESL_SQ` for any two block sizes** (`parse = false`: `skip_embl`) -/
theorem header_embl_block_size_independent (parse : Bool) (a1 a2 : Ascii) (sq : Sq) (h : LSim a1 a2) :
    (headerEmbl parse a1 sq).2.2 = (headerEmbl parse a2 sq).2.2 ∧ (headerEmbl parse a1 sq).2.1 = (headerEmbl parse a2 sq).2.1 ∧
    LSim (headerEmbl parse a1 sq).1 (headerEmbl parse a2 sq).1 := EmblSpec.headerEmbl_block_size_independent parse a1 a2 sq h

open EaselModel.Sqio.LineSpec EaselModel.Sqio.EmblSpec in
/-- the same for `header_genbank` / `skip_genbank` -/
theorem header_genbank_block_size_independent (parse : Bool) (a1 a2 : Ascii) (sq : Sq) (h : LSim a1 a2) :
    (headerGenbank parse a1 sq).2.2 = (headerGenbank parse a2 sq).2.2 ∧
    (headerGenbank parse a1 sq).2.1 = (headerGenbank parse a2 sq).2.1 ∧
    LSim (headerGenbank parse a1 sq).1 (headerGenbank parse a2 sq).1 := EmblSpec.headerGenbank_block_size_independent parse a1 a2 sq h

open EaselModel.Sqio.LineSpec EaselModel.Sqio.EmblSpec in
/-- **`sqascii_Read` on an EMBL / UniProt / GenBank / DDBJ file is block-size independent — the whole call, every record field**: from two
    handles on the same line with any two block sizes `B₁, B₂ ≥ 1`, same status, same `ESL_SQ` (name, accession, description, residues,
    `roff` / `hoff` / `doff` / `eoff`, `L`, coordinates, allocations), and the handles are on the same line again — so the statement
    iterates over all records of the file; `open_line_based_sim` starts it at `esl_sqfile_Open`. -/
theorem read_linebased_block_size_independent (a1 a2 : Ascii) (sq : Sq) (h : LSim a1 a2)
    (hf : a1.fmt = 2 ∨ a1.fmt = 3 ∨ a1.fmt = 4 ∨ a1.fmt = 5) :
    (read a1 sq).2.2 = (read a2 sq).2.2 ∧ (read a1 sq).2.1 = (read a2 sq).2.1 ∧ LSim (read a1 sq).1 (read a2 sq).1 :=
  EmblSpec.read_embl_block_size_independent a1 a2 sq h hf

open EaselModel.Sqio.LineSpec EaselModel.Sqio.EmblSpec in
/-- two handles opened on the same line-based file with block sizes `B₁, B₂ ≥ 1` stand on the same first line, same open status -/
theorem open_line_based_sim (file : Bytes) (B1 B2 abc fmt : Nat) (eofOk : Bool) (inmap : Bytes) (h1 : 1 ≤ B1) (h2 : 1 ≤ B2) :
    LSim (loadbuf { file := file, B := B1, abc := abc, fmt := fmt, eofIsOk := eofOk, linebased := true, inmap := inmap }).1
      (loadbuf { file := file, B := B2, abc := abc, fmt := fmt, eofIsOk := eofOk, linebased := true, inmap := inmap }).1 ∧
    (loadbuf { file := file, B := B1, abc := abc, fmt := fmt, eofIsOk := eofOk, linebased := true, inmap := inmap }).2 =
      (loadbuf { file := file, B := B2, abc := abc, fmt := fmt, eofIsOk := eofOk, linebased := true, inmap := inmap }).2 :=
  EmblSpec.open_lsim file B1 B2 abc fmt eofOk inmap h1 h2


open EaselModel.Sqio.EmblAll in
/-- **The whole reader of the line-based formats is block-size independent, from `esl_sqfile_Open` on**: for any two block sizes
    `B₁, B₂ ≥ 1`, reading every record of an EMBL / UniProt / GenBank / DDBJ file with `sqascii_Read` (`openLine` = the handle
    `esl_sqfile_Open` / `OpenDigital` yields for a line format) gives the same records — every `ESL_SQ` field — and the same final status. -/
theorem read_all_linebased_block_size_independent (file : Bytes) (B1 B2 abc fmt : Nat) (eofOk : Bool) (inmap0 inmap1 : Bytes)
    (h1 : 1 ≤ B1) (h2 : 1 ≤ B2) (hf : fmt = 2 ∨ fmt = 3 ∨ fmt = 4 ∨ fmt = 5) (fuel : Nat) (sq : Sq) :
    ParseFasta.readAllM fuel (openLine file B1 abc fmt eofOk inmap0 inmap1) sq =
      ParseFasta.readAllM fuel (openLine file B2 abc fmt eofOk inmap0 inmap1) sq :=
  EmblAll.read_all_linebased_open file B1 B2 abc fmt eofOk inmap0 inmap1 h1 h2 hf fuel sq

open EaselModel.Sqio.LineSpec EaselModel.Sqio.EmblAll in
/-- `sqascii_ReadInfo` and `sqascii_ReadSequence` on the line-based formats: same status, same `ESL_SQ`, same line afterwards, for any two
    block sizes -/
theorem readInfo_readSequence_linebased_block_size_independent (a1 a2 : Ascii) (sq : Sq) (h : LSim a1 a2) (hf : LineFmt a1) :
    ((readInfo a1 sq).2.2 = (readInfo a2 sq).2.2 ∧ (readInfo a1 sq).2.1 = (readInfo a2 sq).2.1 ∧ LSim (readInfo a1 sq).1 (readInfo a2 sq).1) ∧
    ((readSequence a1 sq).2.2 = (readSequence a2 sq).2.2 ∧ (readSequence a1 sq).2.1 = (readSequence a2 sq).2.1 ∧
      LSim (readSequence a1 sq).1 (readSequence a2 sq).1) :=
  ⟨EmblAll.readInfo_block_size_independent a1 a2 sq h hf, EmblAll.readSequence_block_size_independent a1 a2 sq h hf⟩


open EaselModel.Sqio.LineSpec EaselModel.Sqio.EmblAll in
/-- **forward `ReadWindow` and whole-sequence `ReadBlock` on the line-based formats are block-size independent** (first and later window
    calls, any `C`, `W ≥ 0`; `read_nres` with any `nskip`): same status, same `ESL_SQ` / block, same line afterwards, for any two block sizes —
    with `read_linebased_block_size_independent` and `readInfo_readSequence_linebased_block_size_independent` this covers the five read
    calls of the property for EMBL / UniProt / GenBank / DDBJ (reverse-strand windows and long-target blocks excepted) -/
theorem readWindow_readBlock_linebased_block_size_independent (a1 a2 : Ascii) (h : LSim a1 a2) (hf : LineFmt a1) :
    (∀ (sq : Sq) (C W : Int), 0 ≤ W →
      (readWindow a1 sq C W).2.2 = (readWindow a2 sq C W).2.2 ∧ (readWindow a1 sq C W).2.1 = (readWindow a2 sq C W).2.1 ∧
      LSim (readWindow a1 sq C W).1 (readWindow a2 sq C W).1) ∧
    (∀ (b : Block) (maxRes maxSeq : Int) (maxInit : Bool),
      (readBlock a1 b maxRes maxSeq maxInit false).2 = (readBlock a2 b maxRes maxSeq maxInit false).2 ∧
      LSim (readBlock a1 b maxRes maxSeq maxInit false).1 (readBlock a2 b maxRes maxSeq maxInit false).1) :=
  ⟨fun sq C W hW => EmblWin.readWindow_fwd_linebased_block_size_independent a1 a2 sq C W h hf hW,
   fun b maxRes maxSeq maxInit => EmblWin.readBlock_short_linebased_block_size_independent a1 a2 b maxRes maxSeq maxInit h hf⟩

/-! ## The line-geometry tracker of `seebuf` (`seebuf_linegeometry()`, repaired by 283ccd7): the EXACT predicate `bpl, rpl > 0` guarantees

The reverse-window theorems `rev_window_eq_revcomp_slice_line` / `_residue` assume the geometry that `bpl, rpl > 0` is meant to promise.
Here that promise is a theorem, and an `iff`: for every scan of whole records from a fresh handle — a record is `header_*` followed by its
data lines, each seen to its end by `Track.onEol b r` (terminated: `b` bytes with the newline, `r` residues) or, for an unterminated last
line, by `Track.onStop b r` — `bpl` and `rpl` are BOTH positive at the end exactly when the file has the constant geometry. -/
section tracker
open EaselModel.Sqio.TrackerExact

/-- **`rpl = p > 0 ∧ bpl = w > 0` after the scan ⇔ (some line is followed by another line of its record) ∧ (every line that is followed
    by another line of its record has exactly `w` bytes and `p` residues) ∧ (EVERY line — last, only or unterminated line of a record
    included — has at most `p` residues and at most `w − p − 1` ignored bytes besides its newline).** The former exceptions (a one-line
    record, the line at which `rpl` is initialised, an unterminated last line, a blank in a last line under `bpl = rpl + 1`) are gone:
    this replaces the `_partial` soundness statement and the known finding. -/
theorem tracker_iff (recs : List (List Line)) (hok : ∀ rec ∈ recs, ∀ l ∈ rec, l.Ok)
    (hterm : ∀ rec ∈ recs, ∀ l ∈ rec.dropLast, l.eol = true) (p w : Int) (hp : 0 < p) (hw : 0 < w) :
    ((runFile {} recs).rpl = p ∧ (runFile {} recs).bpl = w) ↔
      (∃ rec ∈ recs, ∃ l, l ∈ rec.dropLast) ∧
      (∀ rec ∈ recs, ∀ l ∈ rec.dropLast, l.b = w ∧ l.r = p) ∧
      (∀ rec ∈ recs, ∀ l ∈ rec, l.r ≤ p ∧ l.x ≤ w - p - 1) :=
  TrackerExact.tracker_iff recs hok hterm p w hp hw

/-- **`rpl = bpl = −1` (unset) after the scan ⇔ no line of the file is followed by another line of its record** (every record has at
    most one data line): with `tracker_iff` the three outcomes — unset, a positive geometry, invalidated — are each characterised. -/
theorem tracker_unset_iff (recs : List (List Line)) (hok : ∀ rec ∈ recs, ∀ l ∈ rec, l.Ok)
    (hterm : ∀ rec ∈ recs, ∀ l ∈ rec.dropLast, l.eol = true) :
    ((runFile {} recs).rpl = -1 ∧ (runFile {} recs).bpl = -1) ↔ ∀ rec ∈ recs, rec.dropLast = [] :=
  TrackerExact.tracker_unset_iff recs hok hterm

/-- **Soundness, as the reverse-window / FetchSubseq arithmetic uses it**: with `rpl = p > 0` and `bpl = w > 0` after the scan, in every
    record the lines in front of any line are full lines (`w` bytes, `p` residues: `Geometry.FullLines`), and no line holds more than `p`
    residues — so residue `start` of a record lies on its line `(start − 1) / p`, at byte `((start − 1) / p) · w` + a position within that
    line; under `w = p + 1` (residue addressing) no line has any ignored byte, so residue `i` of a line is its byte `i`. -/
theorem tracker_sound (recs : List (List Line)) (hok : ∀ rec ∈ recs, ∀ l ∈ rec, l.Ok)
    (hterm : ∀ rec ∈ recs, ∀ l ∈ rec.dropLast, l.eol = true) (p w : Int) (hp : 0 < p) (hw : 0 < w)
    (h : (runFile {} recs).rpl = p ∧ (runFile {} recs).bpl = w) :
    (∀ rec ∈ recs, ∀ l ∈ rec.dropLast, l.b = w ∧ l.r = p) ∧ (∀ rec ∈ recs, ∀ l ∈ rec, l.r ≤ p) ∧
    (w = p + 1 → ∀ rec ∈ recs, ∀ l ∈ rec, l.x = 0) := by
  obtain ⟨_, h2, h3⟩ := (TrackerExact.tracker_iff recs hok hterm p w hp hw).mp h
  refine ⟨h2, fun rec hrec l hl => (h3 rec hrec l hl).1, fun hwp rec hrec l hl => ?_⟩
  have a := (h3 rec hrec l hl).2
  have b := (hok rec hrec l hl).2.2
  omega

/-- regressions, the witnesses of the retired finding: `>A\nACGT\nAC\n>B\nACGTAC\n` (one-line record longer than `rpl`),
    `>A\nAC\nACGT\n` (longer line where `rpl` is initialised), `>A\nACGT\nACGTA` (longer unterminated last line),
    `>A\nACGT\nA CG\n` (blank in a last line under `bpl = rpl + 1`): the tracker ends invalidated (0, 0) on each -/
theorem tracker_rejects_former_exceptions :
    ((runFile {} [[⟨5, 4, true⟩, ⟨3, 2, true⟩], [⟨7, 6, true⟩]]).rpl = 0 ∧ (runFile {} [[⟨5, 4, true⟩, ⟨3, 2, true⟩], [⟨7, 6, true⟩]]).bpl = 0) ∧
    ((runFile {} [[⟨3, 2, true⟩, ⟨5, 4, true⟩]]).rpl = 0 ∧ (runFile {} [[⟨3, 2, true⟩, ⟨5, 4, true⟩]]).bpl = 0) ∧
    ((runFile {} [[⟨5, 4, true⟩, ⟨5, 5, false⟩]]).rpl = 0 ∧ (runFile {} [[⟨5, 4, true⟩, ⟨5, 5, false⟩]]).bpl = 0) ∧
    ((runFile {} [[⟨5, 4, true⟩, ⟨5, 3, true⟩]]).rpl = 0 ∧ (runFile {} [[⟨5, 4, true⟩, ⟨5, 3, true⟩]]).bpl = 0) := by decide

/-- non-vacuity: `>A\nACGT\nACGT\nAC\n>B\nACGTAC`-like clean file `>A\nACGT\nACGT\nAC\n>B\nACGT\nA` (last line unterminated): rpl = 4, bpl = 5 -/
example : (runFile {} [[⟨5, 4, true⟩, ⟨5, 4, true⟩, ⟨3, 2, true⟩], [⟨5, 4, true⟩, ⟨1, 1, false⟩]]).rpl = 4 ∧
    (runFile {} [[⟨5, 4, true⟩, ⟨5, 4, true⟩, ⟨3, 2, true⟩], [⟨5, 4, true⟩, ⟨1, 1, false⟩]]).bpl = 5 := by decide

/-- **The tracker does not notice where `seebuf` stops inside a line.** `seebuf` is called buffer by buffer and window by window, so a
    line reaches the tracker in pieces: any number of `Track.onStop` (the tail of a call that ends inside the line; `piece`), then the
    call that completes it. From any point inside a line (`InLine`: counters known, previous line of the record `prev`), any pieces
    `cs` followed by the rest `l` of the line leave the tracker in EXACTLY the state the whole line in one piece leaves it in — so
    `tracker_iff`, stated for lines seen in one piece, holds for every read-block size and every window width. -/
theorem tracker_ignores_where_seebuf_stops (cs : List (Int × Int)) (t : Track) (prev : Option Line) (l : Line)
    (h : TrackerChunks.InLine t prev) (hpn : ∀ q, prev = some q → 0 ≤ q.r ∧ 0 ≤ q.b)
    (hcs : ∀ c ∈ cs, 1 ≤ c.1 ∧ 0 ≤ c.2 ∧ c.2 ≤ c.1) (hb : 0 ≤ l.b) (hr : 0 ≤ l.r) (hx : 0 ≤ l.x) :
    line (cs.foldl TrackerChunks.piece t) l = line t ⟨(cs.map Prod.fst).sum + l.b, (cs.map Prod.snd).sum + l.r, l.eol⟩ :=
  TrackerChunks.chunked_line cs t prev l h hpn hcs hb hr hx

/-- non-vacuity: right after `header_fasta` the tracker is inside (at the start of) a line with no previous line; the line `ACGT\n` seen
    as `AC` | `G` | `T\n` leaves the state of `ACGT\n` seen at once -/
example : TrackerChunks.InLine (hdr {}) none ∧
    line ([(2, 2), (1, 1)].foldl TrackerChunks.piece (hdr {})) ⟨2, 1, true⟩ = line (hdr {}) ⟨5, 4, true⟩ := by
  refine ⟨⟨by decide, by decide, by decide, ⟨rfl, rfl⟩⟩, by decide⟩

end tracker

/-! ## `esl_sqfile_Position` agrees with the sequential reader -/
section position
open EaselModel.Sqio.ParseFasta EaselModel.Sqio.SpecFasta

/-- **Position at a record's offset, then Read = that record, for every block size**: for every record `s` of the sequential scan, every
    block-mode FASTA handle on the file (any `B ≥ 1`, cursor anywhere) and every reused `ESL_SQ` of the right mode:
    `esl_sqfile_Position(sqfp, s.roff)` succeeds and the next `esl_sqio_Read` returns `s` (name, description, residues, the four offsets, `L`). -/
theorem position_then_read_eq_record (bytes : Bytes) (abc : Nat) (habc : abc ∈ [0, 1, 2, 3]) (s : Sq) (hs : s ∈ (parseFasta abc bytes).1)
    (a : Ascii) (hf : a.file = bytes) (hb : a.linebased = false) (hr : a.recording ≠ 1) (hB : 1 ≤ a.B)
    (hi : a.inmap = inmapFasta abc) (hfmt : a.fmt = 1) (heof : a.eofIsOk = true)
    (sq : Sq) (hdig : sq.digital = (abc != 0)) (hsabc : sq.abc = abc) (hseq : sq.seq = #[]) (hna : 2 ≤ sq.nalloc) (hda : 2 ≤ sq.dalloc) :
    (position a s.roff.toNat).2 = .ok ∧
    (read (position a s.roff.toNat).1 sq).2.2 = .ok ∧
    toRecord (read (position a s.roff.toNat).1 sq).2.1 = toRecord s :=
  FetchWhole.fetch_eq_scan bytes abc habc s hs a hf hb hr hB hi hfmt heof sq hdig hsabc hseq hna hda

/-- **Rewind agreement**: `esl_sqfile_Position(sqfp, 0)` on any block-mode FASTA handle on a non-empty file (any block size, cursor
    anywhere), then the read loop, returns exactly the records and the final status of a fresh sequential scan (`parseFasta`, hence
    `specFasta` by `read_all_eq_specFasta`). -/
theorem rewind_then_read_all_eq_parseFasta (bytes : Bytes) (abc : Nat) (habc : abc ∈ [0, 1, 2, 3]) (hne : 0 < bytes.size)
    (a : Ascii) (hf : a.file = bytes) (hb : a.linebased = false) (hr : a.recording ≠ 1) (hB : 1 ≤ a.B)
    (hi : a.inmap = inmapFasta abc) (hfmt : a.fmt = 1) (heof : a.eofIsOk = true) :
    (position a 0).2 = .ok ∧
    readAllM (bytes.size + 2) (position a 0).1 (freshSq abc) = parseFasta abc bytes :=
  PositionSpec.rewind_read_all bytes abc habc hne a hf hb hr hB hi hfmt heof

/-- non-vacuity: the hypotheses are plain conditions on the handle's flags — a block-mode FASTA handle on `>a\nAC\n>b\nG\n` with `B = 3`,
    whatever its buffer and cursor -/
example :
    let a : Ascii := { file := #[62, 97, 10, 65, 67, 10, 62, 98, 10, 71, 10], B := 3, fmt := 1, eofIsOk := true, inmap := inmapFasta 0 }
    a.file = #[62, 97, 10, 65, 67, 10, 62, 98, 10, 71, 10] ∧ a.linebased = false ∧ a.recording ≠ 1 ∧ 1 ≤ a.B ∧
    a.inmap = inmapFasta 0 ∧ a.fmt = 1 ∧ a.eofIsOk = true := ⟨rfl, rfl, by decide, by decide, rfl, rfl, rfl⟩

/-- **The handle after `esl_sqfile_Position(off)` is a ready handle on the bytes from `off`, for every offset inside the file and every
    block size** — so every theorem of this file stated "from every ready handle" (`read_one_record_closed_form`,
    `read_readInfo_readSequence_agree`, `windows_eq_read`, `windows_concat_eq_read`, `readBlock_short_eq_read`, …) holds after any
    `Position`: `ReadInfo`, `ReadSequence`, the forward window series and whole-sequence `ReadBlock` agree with `Read` there too. -/
theorem position_yields_ready_handle (bytes : Bytes) (abc : Nat) (habc : abc ∈ [0, 1, 2, 3]) (off : Nat) (hoff : off < bytes.size)
    (a : Ascii) (hf : a.file = bytes) (hb : a.linebased = false) (hr : a.recording ≠ 1) (hB : 1 ≤ a.B)
    (hi : a.inmap = inmapFasta abc) (hfmt : a.fmt = 1) (heof : a.eofIsOk = true)
    (sq : Sq) (hdig : sq.digital = (abc != 0)) (hsabc : sq.abc = abc) (hna : 2 ≤ sq.nalloc) (hda : 2 ≤ sq.dalloc) :
    (position a off).2 = .ok ∧ ReadSpec.Ready (position a off).1 sq ∧
    DataScan.fileFrom (position a off).1 = bytes.toList.drop off ∧ (position a off).1.B = a.B :=
  PositionAny.position_ready bytes abc habc off hoff a hf hb hr hB hi hfmt heof sq hdig hsabc hna hda

/-- **Position anywhere, then the read loop = the declarative parser on the rest of the file**: for EVERY offset inside the file,
    every block size and every fuel, the records (name, description, residues, `roff` / `hoff` / `doff` / `eoff` counted from the start
    of the file, `L`) and the final status are `specAll` (the parser behind `specFasta`) on `bytes.drop off`. `off = 0`: `specFasta`. -/
theorem position_then_read_all_eq_spec (bytes : Bytes) (abc : Nat) (habc : abc ∈ [0, 1, 2, 3]) (off : Nat) (hoff : off < bytes.size)
    (a : Ascii) (hf : a.file = bytes) (hb : a.linebased = false) (hr : a.recording ≠ 1) (hB : 1 ≤ a.B)
    (hi : a.inmap = inmapFasta abc) (hfmt : a.fmt = 1) (heof : a.eofIsOk = true) (fuel : Nat) :
    (position a off).2 = .ok ∧
    ((readAllM fuel (position a off).1 (freshSq abc)).1.map toRecord, (readAllM fuel (position a off).1 (freshSq abc)).2) =
      specAll (inmapFasta abc) (PositionAny.mapOfMode abc) bytes.size fuel (bytes.toList.drop off) :=
  PositionAny.position_read_all bytes abc habc off hoff a hf hb hr hB hi hfmt heof fuel

/-- **Position at the `roff` of the k-th record of the sequential scan, then the read loop = the records k, k+1, … of that scan and its
    final status, for every block size.** `specFasta abc bytes = (pre ++ r :: post, st)` is what the sequential scan returns
    (`read_all_eq_specFasta`); `pre` are the `k` records in front of `r`. -/
theorem position_at_record_then_read_all_eq_scan_tail (bytes : Bytes) (abc : Nat) (habc : abc ∈ [0, 1, 2, 3])
    (pre : List Record) (r : Record) (post : List Record) (st : Status)
    (hscan : specFasta abc bytes.toList = (pre ++ r :: post, st))
    (a : Ascii) (hf : a.file = bytes) (hb : a.linebased = false) (hr : a.recording ≠ 1) (hB : 1 ≤ a.B)
    (hi : a.inmap = inmapFasta abc) (hfmt : a.fmt = 1) (heof : a.eofIsOk = true) :
    (position a r.roff.toNat).2 = .ok ∧
    ((readAllM (bytes.size + 2 - pre.length) (position a r.roff.toNat).1 (freshSq abc)).1.map toRecord,
     (readAllM (bytes.size + 2 - pre.length) (position a r.roff.toNat).1 (freshSq abc)).2) = (r :: post, st) :=
  SpecSuffix.position_at_record_read_all bytes abc habc pre r post st hscan a hf hb hr hB hi hfmt heof

/-- non-vacuity: the scan of `>a\nAC\n>b\nG\n` (text mode) has two records, at offsets 0 and 6, and ends with `eslEOF`: `pre` = the first,
    `r` = the second, `post = []` -/
example :
    let sc := specFasta 0 [62, 97, 10, 65, 67, 10, 62, 98, 10, 71, 10]
    sc.1.map (·.roff) = [0, 6] ∧ sc.1.map (·.seq) = [[65, 67], [71]] ∧ sc.2 = .eof := by decide +kernel

/-- **`ReadInfo` and `ReadSequence` after Position at a scanned record return that record** (round 6b), for every block size: both
    succeed; `ReadInfo` reports the record's name, description, `roff` / `hoff` / `doff` / `eoff` and `L`; `ReadSequence` its residues,
    `roff` / `doff` / `eoff` and `L` — with `position_then_read_eq_record`: all three record calls agree with the scan after a Position. -/
theorem position_then_readInfo_readSequence_eq_record (bytes : Bytes) (abc : Nat) (habc : abc ∈ [0, 1, 2, 3]) (s : Sq)
    (hs : s ∈ (parseFasta abc bytes).1)
    (a : Ascii) (hf : a.file = bytes) (hb : a.linebased = false) (hr : a.recording ≠ 1) (hB : 1 ≤ a.B)
    (hi : a.inmap = inmapFasta abc) (hfmt : a.fmt = 1) (heof : a.eofIsOk = true)
    (sq : Sq) (hdig : sq.digital = (abc != 0)) (hsabc : sq.abc = abc) (hseq : sq.seq = #[]) (hna : 2 ≤ sq.nalloc) (hda : 2 ≤ sq.dalloc)
    (hsa : 2 ≤ sq.salloc) :
    let p := (position a s.roff.toNat).1
    (readInfo p sq).2.2 = .ok ∧ (readSequence p sq).2.2 = .ok ∧
    (readInfo p sq).2.1.name.toList = s.name.toList ∧ (readInfo p sq).2.1.desc.toList = s.desc.toList ∧
    (readInfo p sq).2.1.roff = s.roff ∧ (readInfo p sq).2.1.hoff = s.hoff ∧ (readInfo p sq).2.1.doff = s.doff ∧
    (readInfo p sq).2.1.eoff = s.eoff ∧ (readInfo p sq).2.1.L = s.L ∧
    (readSequence p sq).2.1.seq = s.seq ∧ (readSequence p sq).2.1.roff = s.roff ∧ (readSequence p sq).2.1.doff = s.doff ∧
    (readSequence p sq).2.1.eoff = s.eoff ∧ (readSequence p sq).2.1.L = s.L :=
  PositionCalls.position_info_seq bytes abc habc s hs a hf hb hr hB hi hfmt heof sq hdig hsabc hseq hna hda hsa

open EaselModel.Sqio.WindowSeries EaselModel.Sqio.WinSpecPure in
/-- **The forward `ReadWindow` series after Position at a scanned record = the declarative windows of that record** (round 6b), for every
    block size and every request stream `(C_k ≥ 0, W_k ≥ 1)` (in particular `C > W`): `specWindows s.seq req`, then `eslEOD` with `L = s.L`. -/
theorem position_then_windows_eq_record_windows (bytes : Bytes) (abc : Nat) (habc : abc ∈ [0, 1, 2, 3]) (s : Sq)
    (hs : s ∈ (parseFasta abc bytes).1)
    (a : Ascii) (hf : a.file = bytes) (hb : a.linebased = false) (hr : a.recording ≠ 1) (hB : 1 ≤ a.B)
    (hi : a.inmap = inmapFasta abc) (hfmt : a.fmt = 1) (heof : a.eofIsOk = true)
    (sq : Sq) (hdig : sq.digital = (abc != 0)) (hsabc : sq.abc = abc) (hseq : sq.seq = #[]) (hna : 2 ≤ sq.nalloc) (hda : 2 ≤ sq.dalloc)
    (hst : sq.start = 0) (req : Nat → Int × Int) (hreq : ∀ k, 0 ≤ (req k).1 ∧ 1 ≤ (req k).2) (F : Nat) (hF : s.seq.size + 2 ≤ F) :
    let p := (position a s.roff.toNat).1
    (readWindowsM req F 0 p sq).1.map toWin = specWindows s.seq req F 0 0 0 ∧
    (readWindowsM req F 0 p sq).2.2.2 = .eod ∧ (readWindowsM req F 0 p sq).2.2.1.L = s.L :=
  PositionCalls.position_windows bytes abc habc s hs a hf hb hr hB hi hfmt heof sq hdig hsabc hseq hna hda hst req hreq F hF

end position

end EaselModel.Props.C04
