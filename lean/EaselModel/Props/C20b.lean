import EaselModel.Props.C20
/-! # C20, round 6b: extrema of `double` / `float` vectors on ties and near-ties

`esl_vec_{D,F}ArgMax`, `ArgMin`, `Max`, `Min` AS REGENERATED from esl_vectorops.c (`Generated/VectorOps.lean`), read at the element type the
routine declares: every comparison is the order of that type itself (no narrower intermediate), so
* the index returned is the FIRST index attaining the extremum — an exact tie never moves it to a later cell;
* a cell that is strictly larger (smaller) than every other cell wins however small the margin (one unit in the last place of the type,
  or magnitudes beyond the range of a narrower type);
* `Max` / `Min` return a cell of the vector that bounds all cells.
Stated for every linearly ordered element type whose `<` the routine's comparison implements (`LawfulVOrd`: ℝ for the theorems, and
`Float` / `Float32` on non-NaN data in the bit-exact differential run). Only statements + glue. -/
namespace EaselModel.Props.C20b
open EaselModel EaselModel.Vec EaselModel.Vec.Gen

section
variable {α : Type} [CElem α] [LinearOrder α] [LawfulVOrd α]

private theorem ne_nil_of_size (v : Array α) (h : v.size ≠ 0) : v.toList ≠ [] := by
  intro e; apply h; simpa using congrArg List.length e

/-- `esl_vec_DArgMax` and `esl_vec_FArgMax`: the first index attaining the maximum -/
theorem gen_DArgMax_first (v : Array α) (h : v.size ≠ 0) :
    ∃ (i : Nat) (m : α), esl_vec_DArgMax v v.size = some (i : Int) ∧ esl_vec_FArgMax v v.size = some (i : Int) ∧ v.toList[i]? = some m ∧
      (∀ x ∈ v.toList, x ≤ m) ∧ (∀ (j : Nat) (y : α), j < i → v.toList[j]? = some y → y < m) := by
  obtain ⟨m, h1, h2, h3⟩ := Vec.argmax_spec v.toList (ne_nil_of_size v h)
  exact ⟨_, m, (C20.gen_argmax_eq v).2.2.1, (C20.gen_argmax_eq v).2.2.2, h1, h2, h3⟩
/-- `esl_vec_DArgMin` and `esl_vec_FArgMin`: the first index attaining the minimum -/
theorem gen_DArgMin_first (v : Array α) (h : v.size ≠ 0) :
    ∃ (i : Nat) (m : α), esl_vec_DArgMin v v.size = some (i : Int) ∧ esl_vec_FArgMin v v.size = some (i : Int) ∧ v.toList[i]? = some m ∧
      (∀ x ∈ v.toList, m ≤ x) ∧ (∀ (j : Nat) (y : α), j < i → v.toList[j]? = some y → m < y) := by
  obtain ⟨m, h1, h2, h3⟩ := Vec.argmin_spec v.toList (ne_nil_of_size v h)
  exact ⟨_, m, (C20.gen_argmin_eq v).2.2.1, (C20.gen_argmin_eq v).2.2.2, h1, h2, h3⟩

/-- exact tie: of two equal cells the later one is never the answer -/
theorem gen_DArgMax_tie (v : Array α) (i j : Nat) (hij : i < j) (hj : j < v.size) (e : v[i]'(by omega) = v[j]) :
    esl_vec_DArgMax v v.size ≠ some (j : Int) ∧ esl_vec_FArgMax v v.size ≠ some (j : Int) := by
  obtain ⟨k, m, hd, hf, hk, _, hfirst⟩ := gen_DArgMax_first v (by omega)
  have key : k ≠ j := by
    intro ekj; subst ekj
    have hm : v.toList[k]? = some v[k] := by simp [hj]
    rw [hm] at hk
    have hi' : v.toList[i]? = some (v[i]'(by omega)) := by simp
    have := hfirst i _ hij hi'
    rw [e] at this
    cases hk
    exact lt_irrefl _ this
  constructor
  · rw [hd]; intro c; apply key; exact_mod_cast Option.some.inj c
  · rw [hf]; intro c; apply key; exact_mod_cast Option.some.inj c
theorem gen_DArgMin_tie (v : Array α) (i j : Nat) (hij : i < j) (hj : j < v.size) (e : v[i]'(by omega) = v[j]) :
    esl_vec_DArgMin v v.size ≠ some (j : Int) ∧ esl_vec_FArgMin v v.size ≠ some (j : Int) := by
  obtain ⟨k, m, hd, hf, hk, _, hfirst⟩ := gen_DArgMin_first v (by omega)
  have key : k ≠ j := by
    intro ekj; subst ekj
    have hm : v.toList[k]? = some v[k] := by simp [hj]
    rw [hm] at hk
    have hi' : v.toList[i]? = some (v[i]'(by omega)) := by simp
    have := hfirst i _ hij hi'
    rw [e] at this
    cases hk
    exact lt_irrefl _ this
  constructor
  · rw [hd]; intro c; apply key; exact_mod_cast Option.some.inj c
  · rw [hf]; intro c; apply key; exact_mod_cast Option.some.inj c

/-- near-tie: a cell strictly above every other cell is the answer, whatever the margin -/
theorem gen_DArgMax_strict (v : Array α) (k : Nat) (hk : k < v.size) (hs : ∀ j (hj : j < v.size), j ≠ k → v[j] < v[k]) :
    esl_vec_DArgMax v v.size = some (k : Int) ∧ esl_vec_FArgMax v v.size = some (k : Int) := by
  obtain ⟨i, m, hd, hf, hi, hmax, _⟩ := gen_DArgMax_first v (by omega)
  have hisz : i < v.size := by
    by_contra c
    have : v.toList[i]? = none := by simp; omega
    rw [this] at hi; cases hi
  have hm : v.toList[i]? = some v[i] := by simp [hisz]
  rw [hm] at hi; cases hi
  have eik : i = k := by
    by_contra c
    have h1 := hs i hisz c
    have h2 := hmax v[k] (by simp)
    exact lt_irrefl _ (lt_of_lt_of_le h1 h2)
  subst eik; exact ⟨hd, hf⟩
theorem gen_DArgMin_strict (v : Array α) (k : Nat) (hk : k < v.size) (hs : ∀ j (hj : j < v.size), j ≠ k → v[k] < v[j]) :
    esl_vec_DArgMin v v.size = some (k : Int) ∧ esl_vec_FArgMin v v.size = some (k : Int) := by
  obtain ⟨i, m, hd, hf, hi, hmin, _⟩ := gen_DArgMin_first v (by omega)
  have hisz : i < v.size := by
    by_contra c
    have : v.toList[i]? = none := by simp; omega
    rw [this] at hi; cases hi
  have hm : v.toList[i]? = some v[i] := by simp [hisz]
  rw [hm] at hi; cases hi
  have eik : i = k := by
    by_contra c
    have h1 := hs i hisz c
    have h2 := hmin v[k] (by simp)
    exact lt_irrefl _ (lt_of_le_of_lt h2 h1)
  subst eik; exact ⟨hd, hf⟩

/-- `esl_vec_{D,F}Max` / `Min`: a cell of the vector that bounds every cell -/
theorem gen_DMax_spec (v : Array α) (h : v.size ≠ 0) :
    ∃ m, esl_vec_DMax v v.size = some m ∧ esl_vec_FMax v v.size = some m ∧ m ∈ v.toList ∧ ∀ x ∈ v.toList, x ≤ m := by
  obtain ⟨m, h1, h2, h3⟩ := Vec.vmax_spec v.toList (ne_nil_of_size v h)
  exact ⟨m, by rw [(C20.gen_max_eq v).2.2.1, h1], by rw [(C20.gen_max_eq v).2.2.2, h1], h2, h3⟩
theorem gen_DMin_spec (v : Array α) (h : v.size ≠ 0) :
    ∃ m, esl_vec_DMin v v.size = some m ∧ esl_vec_FMin v v.size = some m ∧ m ∈ v.toList ∧ ∀ x ∈ v.toList, m ≤ x := by
  obtain ⟨m, h1, h2, h3⟩ := Vec.vmin_spec v.toList (ne_nil_of_size v h)
  exact ⟨m, by rw [(C20.gen_min_eq v).2.2.1, h1], by rw [(C20.gen_min_eq v).2.2.2, h1], h2, h3⟩
end

/-! non-vacuity at the reals: an exact tie, and a margin of 1e-300 at magnitude 1e300 -/
example : (#[(1 : ℝ), 3, 3, 2] : Array ℝ).size ≠ 0 := by decide
example : esl_vec_DArgMax (#[(1 : ℝ), 3, 3, 2] : Array ℝ) 4 ≠ some 2 :=
  (gen_DArgMax_tie (#[(1 : ℝ), 3, 3, 2] : Array ℝ) 1 2 (by decide) (by decide) rfl).1
example : ∃ m, esl_vec_DMax (#[(1 : ℝ), 3, 3, 2] : Array ℝ) 4 = some m ∧ ∀ x ∈ [(1 : ℝ), 3, 3, 2], x ≤ m := by
  obtain ⟨m, h1, _, _, h3⟩ := gen_DMax_spec (#[(1 : ℝ), 3, 3, 2] : Array ℝ) (by decide)
  exact ⟨m, h1, h3⟩

end EaselModel.Props.C20b
