import EaselModel.Msafile.AfaLemmas
import EaselModel.Msafile.A2mLemmas
import EaselModel.Msafile.ClustalLemmas
import EaselModel.Msafile.PsiblastLemmas
import EaselModel.Msafile.PhylipLemmas
import EaselModel.Msafile.SelexLemmas
import EaselModel.Msafile.StockholmLemmas
import EaselModel.Msafile.StoGrowth
import EaselModel.Msafile.StoNum
import EaselModel.Msafile.OpenByName
import EaselModel.Msafile.GzSuffix
import EaselModel.Msafile.OpenGz
import EaselModel.Msafile.AbcTables
import EaselModel.Msafile.GuessLemmas
/-! # C01 — alignment input is total: property theorems (statements + glue; lemmas live in `Msafile/*Lemmas.lean`)

Full statement (properties.jsonl): for every byte string, in each of the ten formats or with autodetection, text or digital
(supplied or guessed alphabet): every call returns a documented normal outcome (ok / eof / eformat with a message /
format-or-alphabet undetermined); never a crash, out-of-object access, UB, leak or internal exception; every alignment
returned with success is well formed.

The theorems below cover all ten formats (aligned FASTA, A2M, Clustal, Clustal-like, PSI-BLAST, PHYLIP interleaved and
sequential, SELEX, Stockholm and Pfam), declared format or format autodetection (section AUTODETECT at the end:
`esl_msafile_GuessFileFormat`, `msafile_check_selex`, `esl_msafile_phylip_CheckFileFormat`), text mode and digital mode
with a supplied or guessed alphabet (`esl_msafile_GuessAlphabet`), for EVERY byte string (no size bound).  Leaks and
allocation failure are outside the model. `Good r` is: `ok m ⇒ m.wellFormed`, `eof`, `eformat msg ⇒ msg ≠ ""`; `fault`
(out-of-bounds access of the bounds-checked model) and `exc` (ESL_EXCEPTION) are NOT good. -/
namespace EaselModel.Props.C01
open EaselModel.Msafile

/-- the four reader configurations the check drives are valid: the input map emits only storable symbols and cannot
    trigger `ESL_EXCEPTION` inside `esl_strmapcat` / `esl_abc_dsqcat` (finite tables regenerated from the C code: `decide`) -/
theorem afa_cfg_text_valid : (afaCfg none).valid := ⟨by decide +kernel, by decide +kernel⟩
theorem afa_cfg_amino_valid : (afaCfg (some abcAmino)).valid := ⟨by decide +kernel, by decide +kernel⟩
theorem afa_cfg_dna_valid : (afaCfg (some abcDna)).valid := ⟨by decide +kernel, by decide +kernel⟩
theorem afa_cfg_rna_valid : (afaCfg (some abcRna)).valid := ⟨by decide +kernel, by decide +kernel⟩

/-- the four configurations of the aligned-FASTA reader -/
def afaConfigs : List Cfg := [afaCfg none, afaCfg (some abcAmino), afaCfg (some abcDna), afaCfg (some abcRna)]

theorem afaConfigs_valid : ∀ cfg ∈ afaConfigs, cfg.valid := by
  intro cfg h
  simp only [afaConfigs, List.mem_cons, List.mem_nil_iff, or_false] at h
  rcases h with h | h | h | h <;> subst h
  · exact afa_cfg_text_valid
  · exact afa_cfg_amino_valid
  · exact afa_cfg_dna_valid
  · exact afa_cfg_rna_valid

/-- **AFA, every byte string, text and digital**: one `esl_msafile_Read` returns ok with a well-formed alignment, eof, or
    eformat with a non-empty message. -/
theorem afa_total (cfg : Cfg) (hc : cfg ∈ afaConfigs) (src : Bytes) : Good (afaRead cfg (splitLines src)).1 :=
  afaRead_good cfg (afaConfigs_valid cfg hc) (splitLines src)

/-- … in particular the model never makes an out-of-bounds access and never raises an internal exception -/
theorem afa_no_fault (cfg : Cfg) (hc : cfg ∈ afaConfigs) (src : Bytes) :
    (afaRead cfg (splitLines src)).1 ≠ .fault ∧ (afaRead cfg (splitLines src)).1 ≠ .exc := by
  have h := afa_total cfg hc src
  constructor <;> intro hr <;> rw [hr] at h <;> exact h

/-- … a format error always carries a message -/
theorem afa_eformat_has_message (cfg : Cfg) (hc : cfg ∈ afaConfigs) (src : Bytes) (msg : String)
    (h : (afaRead cfg (splitLines src)).1 = .eformat msg) : msg ≠ "" := by
  have hg := afa_total cfg hc src
  rw [h] at hg; exact hg

/-- … an alignment returned with eslOK is well formed: ≥ 1 sequence, every row of length `alen` (text rows NUL-free,
    digital rows sentinel-delimited with codes `< Kp`), default weights, and nothing is left unread -/
theorem afa_ok_wellformed (cfg : Cfg) (hc : cfg ∈ afaConfigs) (src : Bytes) (m : Msa)
    (h : (afaRead cfg (splitLines src)).1 = .ok m) :
    m.wellFormed = true ∧ (afaRead cfg (splitLines src)).2 = [] := by
  have hg := afa_total cfg hc src
  rw [h] at hg
  exact ⟨hg, (afaRead_ok_consumes cfg _ m h).1⟩

/-- reading alignments until the end: the second `esl_msafile_Read` after a success returns eslEOF (AFA holds one alignment) -/
theorem afa_read_all_total (cfg : Cfg) (hc : cfg ∈ afaConfigs) (src : Bytes) :
    Good (afaRead cfg (splitLines src)).1 ∧
    (∀ m, (afaRead cfg (splitLines src)).1 = .ok m → (afaRead cfg (afaRead cfg (splitLines src)).2).1 = .eof) :=
  ⟨afa_total cfg hc src, fun m h => (afaRead_ok_consumes cfg _ m h).2⟩

/-- the abstract line reader partitions the input: bodies and terminators concatenate to the input, terminators are
    LF, CRLF or (last line) empty, and no body contains an LF -/
theorem lines_partition (src : Bytes) :
    ((splitLinesT src []).flatMap fun l => l.1 ++ l.2) = src ∧
    (∀ l ∈ splitLinesT src [], l.2 = [10] ∨ l.2 = [13, 10] ∨ l.2 = []) ∧
    (∀ l ∈ splitLinesT src [], (10 : UInt8) ∉ l.1) :=
  ⟨by simpa using splitLinesT_flat src [], splitLinesT_term src [], splitLinesT_body src [] (by simp)⟩

/-- `esl_strmapcat` with a valid text input map never stores a NUL (so `strlen(row)` is the number of stored symbols) -/
theorem strmapcat_length (dest : Option Bytes) (src : Bytes)
    (hd : ∀ d, dest = some d → d.all (· != 0) = true) :
    ∀ d', (strmapcat (afaInmap none) dest src).2 = some d' → d'.all (· != 0) = true :=
  strmapcat_no_nul _ (by decide +kernel) dest src hd

/-- `esl_abc_dsqcat` appends only valid alphabet codes, whatever the input bytes (NUL, ≥ 0x80, control characters …) -/
theorem dsqcat_codes_valid (a : Abc) (ha : a = abcAmino ∨ a = abcDna ∨ a = abcRna) (src : Bytes) :
    ((mapLoop (afaInmap (some a)) src .ok []).2.reverse).all (fun x => decide (x.toNat < a.kp)) = true := by
  rcases ha with h | h | h <;> subst h <;> exact mapLoop_all' _ _ (by decide +kernel) src

/-! ## non-vacuity: concrete inputs on which the theorems speak about each kind of outcome -/

/-- ">a d\nAC-GT\n>b\nAC\nGTT\n" -/
def exGood : Bytes := [62,97,32,100,10,65,67,45,71,84,10,62,98,10,65,67,10,71,84,84,10]
/-- ">a\nACGT\n>b\nAC\n" (ragged) -/
def exRagged : Bytes := [62,97,10,65,67,71,84,10,62,98,10,65,67,10]

example : (afaRead (afaCfg none) (splitLines exGood)).1 matches .ok _ := by decide +kernel
example : (afaRead (afaCfg (some abcDna)) (splitLines exGood)).1 matches .ok _ := by decide +kernel
example : (afaRead (afaCfg (some abcDna)) (splitLines exRagged)).1 matches .eformat _ := by decide +kernel
example : (afaRead (afaCfg none) (splitLines [12])).1 matches .eformat _ := by decide +kernel     -- "\f": DESIGN §7 item 5, fixed behaviour
example : (afaRead (afaCfg none) (splitLines [])).1 matches .eof := by decide +kernel
example : afaCfg (some abcAmino) ∈ afaConfigs := by simp [afaConfigs]

/-! ## A2M (`esl_msafile_a2m_Read` + `a2m_padding_text` / `a2m_padding_digital`) -/

/-- the four A2M configurations are valid: the input map of `esl_msafile_a2m_SetInmap` emits only storable symbols and
    cannot trigger `ESL_EXCEPTION`; and (`A2mValid`) it stores a residue for exactly the bytes the `csflag` loop flags
    (NUL excepted, which the loop rejects), and the padding symbol (`'.'` / the gap code) is storable -/
theorem a2m_cfg_text_valid : (a2mCfg none).valid := ⟨by decide +kernel, by decide +kernel⟩
theorem a2m_cfg_amino_valid : (a2mCfg (some abcAmino)).valid := ⟨by decide +kernel, by decide +kernel⟩
theorem a2m_cfg_dna_valid : (a2mCfg (some abcDna)).valid := ⟨by decide +kernel, by decide +kernel⟩
theorem a2m_cfg_rna_valid : (a2mCfg (some abcRna)).valid := ⟨by decide +kernel, by decide +kernel⟩
theorem a2m_cfg_text_sync : A2mValid (a2mCfg none) := ⟨by decide +kernel, by decide +kernel⟩
theorem a2m_cfg_amino_sync : A2mValid (a2mCfg (some abcAmino)) := ⟨by decide +kernel, by decide +kernel⟩
theorem a2m_cfg_dna_sync : A2mValid (a2mCfg (some abcDna)) := ⟨by decide +kernel, by decide +kernel⟩
theorem a2m_cfg_rna_sync : A2mValid (a2mCfg (some abcRna)) := ⟨by decide +kernel, by decide +kernel⟩

def a2mConfigs : List Cfg := [a2mCfg none, a2mCfg (some abcAmino), a2mCfg (some abcDna), a2mCfg (some abcRna)]

theorem a2mConfigs_valid : ∀ cfg ∈ a2mConfigs, cfg.valid ∧ A2mValid cfg := by
  intro cfg h
  simp only [a2mConfigs, List.mem_cons, List.mem_nil_iff, or_false] at h
  rcases h with h | h | h | h <;> subst h
  · exact ⟨a2m_cfg_text_valid, a2m_cfg_text_sync⟩
  · exact ⟨a2m_cfg_amino_valid, a2m_cfg_amino_sync⟩
  · exact ⟨a2m_cfg_dna_valid, a2m_cfg_dna_sync⟩
  · exact ⟨a2m_cfg_rna_valid, a2m_cfg_rna_sync⟩

/-- **A2M, every byte string, text and digital**: one `esl_msafile_Read` returns ok with a well-formed alignment, eof, or
    eformat with a non-empty message. -/
theorem a2m_total (cfg : Cfg) (hc : cfg ∈ a2mConfigs) (src : Bytes) : Good (a2mRead cfg (splitLines src)).1 :=
  a2mRead_good cfg (a2mConfigs_valid cfg hc).1 (a2mConfigs_valid cfg hc).2 (splitLines src)

/-- … in particular no access outside `csflag[]`, `this_nins[]`, `nins[]`, the old and the new rows (reader and padding
    functions), no read of a never-written cell, and no internal exception -/
theorem a2m_no_fault (cfg : Cfg) (hc : cfg ∈ a2mConfigs) (src : Bytes) :
    (a2mRead cfg (splitLines src)).1 ≠ .fault ∧ (a2mRead cfg (splitLines src)).1 ≠ .exc := by
  have h := a2m_total cfg hc src
  constructor <;> intro hr <;> rw [hr] at h <;> exact h

theorem a2m_eformat_has_message (cfg : Cfg) (hc : cfg ∈ a2mConfigs) (src : Bytes) (msg : String)
    (h : (a2mRead cfg (splitLines src)).1 = .eformat msg) : msg ≠ "" := by
  have hg := a2m_total cfg hc src
  rw [h] at hg; exact hg

/-- … an alignment returned with eslOK is well formed (rows of length `alen` = consensus + insert columns, `rf` of length
    `alen`, default weights), and nothing is left unread -/
theorem a2m_ok_wellformed (cfg : Cfg) (hc : cfg ∈ a2mConfigs) (src : Bytes) (m : Msa)
    (h : (a2mRead cfg (splitLines src)).1 = .ok m) :
    m.wellFormed = true ∧ (a2mRead cfg (splitLines src)).2 = [] := by
  have hg := a2m_total cfg hc src
  rw [h] at hg
  exact ⟨hg, (a2mRead_ok_consumes cfg _ m h).1⟩

theorem a2m_read_all_total (cfg : Cfg) (hc : cfg ∈ a2mConfigs) (src : Bytes) :
    Good (a2mRead cfg (splitLines src)).1 ∧
    (∀ m, (a2mRead cfg (splitLines src)).1 = .ok m → (a2mRead cfg (a2mRead cfg (splitLines src)).2).1 = .eof) :=
  ⟨a2m_total cfg hc src, fun m h => (a2mRead_ok_consumes cfg _ m h).2⟩

/-- ">a\nAc\n>b d\na\nA.\n" -/
def exA2m : Bytes := [62,97,10,65,99,10,62,98,32,100,10,97,10,65,46,10]
/-- ">a\nAA\n>b\nA\n" (different number of consensus columns) -/
def exA2mBad : Bytes := [62,97,10,65,65,10,62,98,10,65,10]
/-- ">a\nAA\n>b\noA\nA\n": before the repair 74356f4 a heap over-read in `a2m_padding_text` (the `csflag` loop flagged
    the `'o'` the input map ignores); ">a\nao\n": returned eslOK with a row shorter than `alen` -/
def exA2mLowerO : Bytes := [62,97,10,65,65,10,62,98,10,111,65,10,65,10]
def exA2mLowerO2 : Bytes := [62,97,10,97,111,10]
/-- ">a\n\0\0\nA\n": before the repair, never-written `csflag` cells were read by the padding phase -/
def exA2mNul : Bytes := [62,97,10,0,0,10,65,10]

example : (a2mRead (a2mCfg none) (splitLines exA2m)).1 matches .ok _ := by decide +kernel
example : (a2mRead (a2mCfg (some abcDna)) (splitLines exA2m)).1 matches .ok _ := by decide +kernel
example : (a2mRead (a2mCfg (some abcDna)) (splitLines exA2mBad)).1 matches .eformat _ := by decide +kernel
example : (a2mRead (a2mCfg none) (splitLines exA2mLowerO)).1 matches .ok _ := by decide +kernel
example : (a2mRead (a2mCfg (some abcAmino)) (splitLines exA2mLowerO2)).1 matches .ok _ := by decide +kernel
example : (a2mRead (a2mCfg none) (splitLines exA2mNul)).1 matches .eformat _ := by decide +kernel
example : (a2mRead (a2mCfg none) (splitLines [])).1 matches .eof := by decide +kernel
example : a2mCfg (some abcRna) ∈ a2mConfigs := by simp [a2mConfigs]


/-! ## Clustal / Clustal-like and PSI-BLAST -/

theorem clustal_cfg_text_valid : (clustalCfg none).valid := ⟨by decide +kernel, by decide +kernel⟩
theorem clustal_cfg_amino_valid : (clustalCfg (some abcAmino)).valid := ⟨by decide +kernel, by decide +kernel⟩
theorem clustal_cfg_dna_valid : (clustalCfg (some abcDna)).valid := ⟨by decide +kernel, by decide +kernel⟩
theorem clustal_cfg_rna_valid : (clustalCfg (some abcRna)).valid := ⟨by decide +kernel, by decide +kernel⟩
theorem psiblast_cfg_text_valid : (psiblastCfg none).valid := ⟨by decide +kernel, by decide +kernel⟩
theorem psiblast_cfg_amino_valid : (psiblastCfg (some abcAmino)).valid := ⟨by decide +kernel, by decide +kernel⟩
theorem psiblast_cfg_dna_valid : (psiblastCfg (some abcDna)).valid := ⟨by decide +kernel, by decide +kernel⟩
theorem psiblast_cfg_rna_valid : (psiblastCfg (some abcRna)).valid := ⟨by decide +kernel, by decide +kernel⟩

def clustalConfigs : List Cfg := [clustalCfg none, clustalCfg (some abcAmino), clustalCfg (some abcDna), clustalCfg (some abcRna)]
def psiblastConfigs : List Cfg := [psiblastCfg none, psiblastCfg (some abcAmino), psiblastCfg (some abcDna), psiblastCfg (some abcRna)]

theorem clustalConfigs_valid : ∀ cfg ∈ clustalConfigs, cfg.valid := by
  intro cfg h
  simp only [clustalConfigs, List.mem_cons, List.mem_nil_iff, or_false] at h
  rcases h with h | h | h | h <;> subst h
  · exact clustal_cfg_text_valid
  · exact clustal_cfg_amino_valid
  · exact clustal_cfg_dna_valid
  · exact clustal_cfg_rna_valid

theorem psiblastConfigs_valid : ∀ cfg ∈ psiblastConfigs, cfg.valid := by
  intro cfg h
  simp only [psiblastConfigs, List.mem_cons, List.mem_nil_iff, or_false] at h
  rcases h with h | h | h | h <;> subst h
  · exact psiblast_cfg_text_valid
  · exact psiblast_cfg_amino_valid
  · exact psiblast_cfg_dna_valid
  · exact psiblast_cfg_rna_valid

/-- **Clustal (`like = false`) and Clustal-like (`like = true`), every byte string, text and digital**: one `esl_msafile_Read`
    returns ok with a well-formed alignment, eof, or eformat with a non-empty message; never an out-of-bounds access
    (`msa->sqname[idx]`, `msa->aseq[idx]`/`msa->ax[idx]`, the name and sequence fields of the line) or an internal exception. -/
theorem clustal_total (like : Bool) (cfg : Cfg) (hc : cfg ∈ clustalConfigs) (src : Bytes) :
    Good (clustalRead like cfg (splitLines src)).1 :=
  clustalRead_good like cfg (clustalConfigs_valid cfg hc) (splitLines src)

theorem clustal_no_fault (like : Bool) (cfg : Cfg) (hc : cfg ∈ clustalConfigs) (src : Bytes) :
    (clustalRead like cfg (splitLines src)).1 ≠ .fault ∧ (clustalRead like cfg (splitLines src)).1 ≠ .exc := by
  have h := clustal_total like cfg hc src
  constructor <;> intro hr <;> rw [hr] at h <;> exact h

/-- **PSI-BLAST, every byte string, text and digital** (the returned alignment carries an RF line of length `alen`) -/
theorem psiblast_total (cfg : Cfg) (hc : cfg ∈ psiblastConfigs) (src : Bytes) :
    Good (psiblastRead cfg (splitLines src)).1 :=
  psiblastRead_good cfg (psiblastConfigs_valid cfg hc) (splitLines src)

theorem psiblast_no_fault (cfg : Cfg) (hc : cfg ∈ psiblastConfigs) (src : Bytes) :
    (psiblastRead cfg (splitLines src)).1 ≠ .fault ∧ (psiblastRead cfg (splitLines src)).1 ≠ .exc := by
  have h := psiblast_total cfg hc src
  constructor <;> intro hr <;> rw [hr] at h <;> exact h

/-- … an alignment returned with eslOK is well formed and nothing is left unread; the next read returns eslEOF -/
theorem clustal_ok_wellformed (like : Bool) (cfg : Cfg) (hc : cfg ∈ clustalConfigs) (src : Bytes) (m : Msa)
    (h : (clustalRead like cfg (splitLines src)).1 = .ok m) :
    m.wellFormed = true ∧ (clustalRead like cfg (splitLines src)).2 = [] ∧
      (clustalRead like cfg (clustalRead like cfg (splitLines src)).2).1 = .eof := by
  have hg := clustal_total like cfg hc src
  rw [h] at hg
  exact ⟨hg, clustalRead_ok_consumes like cfg _ m h⟩

theorem psiblast_ok_wellformed (cfg : Cfg) (hc : cfg ∈ psiblastConfigs) (src : Bytes) (m : Msa)
    (h : (psiblastRead cfg (splitLines src)).1 = .ok m) :
    m.wellFormed = true ∧ (psiblastRead cfg (splitLines src)).2 = [] ∧
      (psiblastRead cfg (psiblastRead cfg (splitLines src)).2).1 = .eof := by
  have hg := psiblast_total cfg hc src
  rw [h] at hg
  exact ⟨hg, psiblastRead_ok_consumes cfg _ m h⟩

/-- "CLUSTAL alignment\n\na AC\nb GT\n  **\n\na A\nb G\n\n" : two blocks -/
def exClustal : Bytes := [67,76,85,83,84,65,76,32,97,108,105,103,110,109,101,110,116,10,10,
  97,32,65,67,10, 98,32,71,84,10, 32,32,42,42,10, 10, 97,32,65,10, 98,32,71,10, 10]
/-- the same with a third row `c T` added to the second block only (the over-read repaired by the landed fix) -/
def exClustalExtraRow : Bytes := [67,76,85,83,84,65,76,32,97,108,105,103,110,109,101,110,116,10,10,
  97,32,65,67,10, 98,32,71,84,10, 32,32,42,42,10, 10, 97,32,65,10, 98,32,71,10, 99,32,84,10, 10]
/-- "a ACg\nb A-g\n\na T\nb T\n" : two PSI-BLAST blocks, third column lower case -/
def exPsi : Bytes := [97,32,65,67,103,10, 98,32,65,45,103,10, 10, 97,32,84,10, 98,32,84,10]
/-- "a AC\nb Ac\n" : case conflict in column 2 -/
def exPsiCase : Bytes := [97,32,65,67,10, 98,32,65,99,10]

example : (clustalRead false (clustalCfg none) (splitLines exClustal)).1 matches .ok _ := by decide +kernel
example : (clustalRead true (clustalCfg (some abcDna)) (splitLines exClustal)).1 matches .ok _ := by decide +kernel
example : (clustalRead false (clustalCfg none) (splitLines exClustalExtraRow)).1 matches .eformat _ := by decide +kernel
example : (clustalRead false (clustalCfg none) (splitLines exPsi)).1 matches .eformat _ := by decide +kernel       -- no header
example : (clustalRead false (clustalCfg none) (splitLines [])).1 matches .eof := by decide +kernel
example : (psiblastRead (psiblastCfg none) (splitLines exPsi)).1 matches .ok _ := by decide +kernel
example : (psiblastRead (psiblastCfg (some abcDna)) (splitLines exPsi)).1 matches .ok _ := by decide +kernel
example : (psiblastRead (psiblastCfg none) (splitLines exPsiCase)).1 matches .eformat _ := by decide +kernel
example : (psiblastRead (psiblastCfg none) (splitLines [10, 32, 10])).1 matches .eof := by decide +kernel
example : clustalCfg (some abcAmino) ∈ clustalConfigs := by simp [clustalConfigs]
example : psiblastCfg (some abcRna) ∈ psiblastConfigs := by simp [psiblastConfigs]


/-! ## ===================== PHYLIP (interleaved `phylip`, sequential `phylips`), declared format =====================

`esl_msafile_phylip_SetInmap`, `esl_msafile_phylip_Read`, `phylip_interleaved_Read`, `phylip_sequential_Read`,
`phylip_rectify_input_name`, `esl_mem_strtoi32`, with the default name width (`fmtd.namewidth = 0` ⇒ 10).
`phylipRead sequential cfg lines` is one `esl_msafile_Read`; its second component is what is left for the next read
(a PHYLIP file may hold several alignments: the header line of the next one is pushed back by `esl_msafile_PutLine`).
Not covered: `esl_msafile_phylip_CheckFileFormat` (autodetection), non-default name widths, allocation failure. -/

theorem phylip_cfg_text_valid : (phylipCfg none).valid := ⟨by decide +kernel, by decide +kernel⟩
theorem phylip_cfg_amino_valid : (phylipCfg (some abcAmino)).valid := ⟨by decide +kernel, by decide +kernel⟩
theorem phylip_cfg_dna_valid : (phylipCfg (some abcDna)).valid := ⟨by decide +kernel, by decide +kernel⟩
theorem phylip_cfg_rna_valid : (phylipCfg (some abcRna)).valid := ⟨by decide +kernel, by decide +kernel⟩

/-- the four configurations of the PHYLIP readers -/
def phylipConfigs : List Cfg := [phylipCfg none, phylipCfg (some abcAmino), phylipCfg (some abcDna), phylipCfg (some abcRna)]

theorem phylipConfigs_valid : ∀ cfg ∈ phylipConfigs, cfg.valid := by
  intro cfg h
  simp only [phylipConfigs, List.mem_cons, List.mem_nil_iff, or_false] at h
  rcases h with h | h | h | h <;> subst h
  · exact phylip_cfg_text_valid
  · exact phylip_cfg_amino_valid
  · exact phylip_cfg_dna_valid
  · exact phylip_cfg_rna_valid

/-- **PHYLIP, both variants, every byte string, text and digital**: one `esl_msafile_Read` returns ok with a well-formed
    alignment, eof, or eformat with a non-empty message.  Stated for every list of lines, hence also for every
    continuation point inside a file holding several alignments. -/
theorem phylip_total (sequential : Bool) (cfg : Cfg) (hc : cfg ∈ phylipConfigs) (lines : List Bytes) :
    Good (phylipRead sequential cfg lines).1 :=
  phylipRead_good sequential cfg (phylipConfigs_valid cfg hc) lines

theorem phylip_total_bytes (sequential : Bool) (cfg : Cfg) (hc : cfg ∈ phylipConfigs) (src : Bytes) :
    Good (phylipRead sequential cfg (splitLines src)).1 :=
  phylip_total sequential cfg hc (splitLines src)

/-- … the accesses to `msa->sqname[idx]`, `msa->aseq[idx]`, `msa->ax[idx]` (arrays of the header's `nseq` entries) stay in
    bounds, the `*cat` helpers are always called with the true length of the stored row, no NULL name or row is
    returned, and no `ESL_EXCEPTION` is raised -/
theorem phylip_no_fault (sequential : Bool) (cfg : Cfg) (hc : cfg ∈ phylipConfigs) (lines : List Bytes) :
    (phylipRead sequential cfg lines).1 ≠ .fault ∧ (phylipRead sequential cfg lines).1 ≠ .exc := by
  have h := phylip_total sequential cfg hc lines
  constructor <;> intro hr <;> rw [hr] at h <;> exact h

theorem phylip_eformat_has_message (sequential : Bool) (cfg : Cfg) (hc : cfg ∈ phylipConfigs) (lines : List Bytes) (msg : String)
    (h : (phylipRead sequential cfg lines).1 = .eformat msg) : msg ≠ "" := by
  have hg := phylip_total sequential cfg hc lines
  rw [h] at hg; exact hg

/-- … an alignment returned with eslOK is well formed: ≥ 1 sequence, every row of length `alen` (text rows NUL-free,
    digital rows sentinel-delimited with codes `< Kp`), default weights; and what is left for the next read is a suffix
    of the lines offered (nothing invented; the pushed-back line is the last line read) -/
theorem phylip_ok_wellformed (sequential : Bool) (cfg : Cfg) (hc : cfg ∈ phylipConfigs) (lines : List Bytes) (m : Msa)
    (h : (phylipRead sequential cfg lines).1 = .ok m) :
    m.wellFormed = true ∧ (phylipRead sequential cfg lines).2 <:+ lines := by
  have hg := phylip_total sequential cfg hc lines
  rw [h] at hg
  exact ⟨hg, phylipRead_rest_suffix sequential cfg lines⟩

/-- reading a whole file alignment by alignment (what the harness and `readAll` do): every read of the sequence is good -/
theorem phylip_read_all_total (sequential : Bool) (cfg : Cfg) (hc : cfg ∈ phylipConfigs) (src : Bytes) :
    Good (phylipRead sequential cfg (splitLines src)).1 ∧
    Good (phylipRead sequential cfg (phylipRead sequential cfg (splitLines src)).2).1 :=
  ⟨phylip_total sequential cfg hc _, phylip_total sequential cfg hc _⟩

/-- `esl_abc_dsqcat` with the PHYLIP input map appends only valid alphabet codes, whatever the input bytes -/
theorem phylip_dsqcat_codes_valid (a : Abc) (ha : a = abcAmino ∨ a = abcDna ∨ a = abcRna) (src : Bytes) :
    ((mapLoop (phylipInmap (some a)) src .ok []).2.reverse).all (fun x => decide (x.toNat < a.kp)) = true := by
  rcases ha with h | h | h <;> subst h <;> exact mapLoop_all' _ _ (by decide +kernel) src

/-! ### non-vacuity and witnesses -/

/-- " 2 4\nseq1      AC\nseq2      A-\n\nGT\n-T\n" : two interleaved blocks -/
def exPhyI : Bytes := str " 2 4\nseq1      AC\nseq2      A-\n\nGT\n-T\n"
/-- "2 4\nseq1      AC\nGT\nseq2      A-\n-T\n" : sequential, records spanning lines -/
def exPhyS : Bytes := str "2 4\nseq1      AC\nGT\nseq2      A-\n-T\n"
/-- two alignments in one file -/
def exPhy2 : Bytes := str "1 2\na b       AC\n 1 3\nc         ACG\n"

example : (phylipRead false (phylipCfg none) (splitLines exPhyI)).1 matches .ok _ := by decide +kernel
example : (phylipRead false (phylipCfg (some abcDna)) (splitLines exPhyI)).1 matches .ok _ := by decide +kernel
example : (phylipRead true (phylipCfg (some abcRna)) (splitLines exPhyS)).1 matches .ok _ := by decide +kernel
example : (phylipRead true (phylipCfg none) (splitLines exPhyI)).1 matches .eformat _ := by decide +kernel        -- wrong variant
example : (phylipRead false (phylipCfg none) (splitLines [])).1 matches .eof := by decide +kernel
example : (phylipRead false (phylipCfg none) (splitLines (str "0 4\nx         ACGT\n"))).1 matches .eformat _ := by decide +kernel   -- nseq < 1 (landed fix)
example : (phylipRead false (phylipCfg none) (splitLines (str "+1 4\nx         ACGT\n"))).1 matches .eformat _ := by decide +kernel  -- '+' is not a sign
example : (phylipRead false (phylipCfg none) (splitLines (str "0x1 04\nx         ACGT\n"))).1 matches .ok _ := by decide +kernel     -- hex / octal header
example : (phylipRead false (phylipCfg none) (splitLines (str "2147483648 4\n"))).1 matches .eformat _ := by decide +kernel        -- eslERANGE
/-- the second alignment is left for the next read: the pushed-back header line and what follows it -/
example : (phylipRead false (phylipCfg none) (splitLines exPhy2)).2 = [str " 1 3", str "c         ACG"] := by decide +kernel
example : (phylipRead false (phylipCfg none) (phylipRead false (phylipCfg none) (splitLines exPhy2)).2).1 matches .ok _ := by decide +kernel
/-- digital mode ignores all ten digits, as text mode does (fix 1a55a73; before it `sym < '9'` left '9' out) -/
example : (phylipRead false (phylipCfg (some abcDna)) (splitLines (str "1 4\nx         AC8GT\n"))).1 matches .ok _ := by decide +kernel
example : (phylipRead false (phylipCfg (some abcDna)) (splitLines (str "1 4\nx         AC9GT\n"))).1 matches .ok _ := by decide +kernel
example : (phylipRead false (phylipCfg none) (splitLines (str "1 4\nx         AC9GT\n"))).1 matches .ok _ := by decide +kernel
example : phylipCfg (some abcAmino) ∈ phylipConfigs := by simp [phylipConfigs]


/-! # ===================== SELEX section (`esl_msafile_selex_Read`) =====================

Model `Msafile/Selex.lean`, lemmas `Msafile/SelexLemmas.lean`.  Beyond `Cfg.valid` the SELEX reader needs the finite table
condition `Cfg.selexOk`: its input map IGNOREs no character (otherwise `selex_append_block` throws "unexpected
inconsistency appending a sequence") and the gap code used for padding is a symbol of the alphabet. -/

theorem selex_cfg_text_valid : (selexCfg none).valid := ⟨by decide +kernel, by decide +kernel⟩
theorem selex_cfg_amino_valid : (selexCfg (some abcAmino)).valid := ⟨by decide +kernel, by decide +kernel⟩
theorem selex_cfg_dna_valid : (selexCfg (some abcDna)).valid := ⟨by decide +kernel, by decide +kernel⟩
theorem selex_cfg_rna_valid : (selexCfg (some abcRna)).valid := ⟨by decide +kernel, by decide +kernel⟩

theorem selex_cfg_text_ok : (selexCfg none).selexOk = true := by decide +kernel
theorem selex_cfg_amino_ok : (selexCfg (some abcAmino)).selexOk = true := by decide +kernel
theorem selex_cfg_dna_ok : (selexCfg (some abcDna)).selexOk = true := by decide +kernel
theorem selex_cfg_rna_ok : (selexCfg (some abcRna)).selexOk = true := by decide +kernel

/-- the four configurations of the SELEX reader -/
def selexConfigs : List Cfg := [selexCfg none, selexCfg (some abcAmino), selexCfg (some abcDna), selexCfg (some abcRna)]

theorem selexConfigs_valid : ∀ cfg ∈ selexConfigs, cfg.valid ∧ cfg.selexOk = true := by
  intro cfg h
  simp only [selexConfigs, List.mem_cons, List.mem_nil_iff, or_false] at h
  rcases h with h | h | h | h <;> subst h
  · exact ⟨selex_cfg_text_valid, selex_cfg_text_ok⟩
  · exact ⟨selex_cfg_amino_valid, selex_cfg_amino_ok⟩
  · exact ⟨selex_cfg_dna_valid, selex_cfg_dna_ok⟩
  · exact ⟨selex_cfg_rna_valid, selex_cfg_rna_ok⟩

/-- **SELEX, every byte string, text and digital**: one `esl_msafile_Read` returns ok with a well-formed alignment, eof, or
    eformat with a non-empty message. -/
theorem selex_total (cfg : Cfg) (hc : cfg ∈ selexConfigs) (src : Bytes) : Good (selexRead cfg (splitLines src)).1 :=
  selexRead_good cfg (selexConfigs_valid cfg hc).1 (selexConfigs_valid cfg hc).2 (splitLines src)

/-- … the model never makes an out-of-bounds access (block arrays, `b->ltype[idx]`, `msa->sqname[seqi]`, `msa->ss[seqi-1]`,
    the reallocated rows) or a NULL dereference, and never raises an internal exception -/
theorem selex_no_fault (cfg : Cfg) (hc : cfg ∈ selexConfigs) (src : Bytes) :
    (selexRead cfg (splitLines src)).1 ≠ .fault ∧ (selexRead cfg (splitLines src)).1 ≠ .exc := by
  have h := selex_total cfg hc src
  constructor <;> intro hr <;> rw [hr] at h <;> exact h

/-- … a format error always carries a message -/
theorem selex_eformat_has_message (cfg : Cfg) (hc : cfg ∈ selexConfigs) (src : Bytes) (msg : String)
    (h : (selexRead cfg (splitLines src)).1 = .eformat msg) : msg ≠ "" := by
  have hg := selex_total cfg hc src
  rw [h] at hg; exact hg

/-- … an alignment returned with eslOK is well formed: ≥ 1 sequence, every row of length `alen` (text rows NUL-free,
    digital rows sentinel-delimited with codes `< Kp`), default weights, and `rf`, `mm`, `ss_cons`, every `ss[i]` and
    `sa[i]` that is present of length `alen` -/
theorem selex_ok_wellformed (cfg : Cfg) (hc : cfg ∈ selexConfigs) (src : Bytes) (m : Msa)
    (h : (selexRead cfg (splitLines src)).1 = .ok m) : m.wellFormed = true := by
  have hg := selex_total cfg hc src
  rw [h] at hg
  exact hg

/-- … and nothing is left unread: the second `esl_msafile_Read` after a success returns eslEOF (a SELEX file holds one alignment) -/
theorem selex_read_all_total (cfg : Cfg) (hc : cfg ∈ selexConfigs) (src : Bytes) :
    Good (selexRead cfg (splitLines src)).1 ∧
    (∀ m, (selexRead cfg (splitLines src)).1 = .ok m →
      (selexRead cfg (splitLines src)).2 = [] ∧ (selexRead cfg (selexRead cfg (splitLines src)).2).1 = .eof) :=
  ⟨selex_total cfg hc src, fun m h => selexRead_ok_consumes cfg _ m h⟩

/-- `esl_strmapcat_noalloc` / `esl_abc_dsqcat_noalloc` with the SELEX input map store exactly one symbol per input byte
    (so `alen == msa->alen + nleft + ntext` and the exception behind it is unreachable) -/
theorem selex_cat_length (cfg : Cfg) (hc : cfg ∈ selexConfigs) (src : Bytes) :
    (mapLoop cfg.inmap src .ok []).2.length = src.length := by
  have hv := selexConfigs_valid cfg hc
  have hs := hv.2
  unfold Cfg.selexOk at hs
  rw [Bool.and_eq_true] at hs
  have := mapLoop_length cfg.inmap hs.1 src .ok [] (mapLoop_noExc cfg.inmap hv.1.noExc src .ok [] (by simp))
  simpa using this

/-! ## non-vacuity -/

/-- "#=RF xx.\n#=MM ..m\ns1 AC-\n#=SS <.>\ns2  CG\n\ns1 A\ns2 CC\n" : two blocks, ragged edges, annotation -/
def exSelex : Bytes :=
  [35,61,82,70,32,120,120,46,10, 35,61,77,77,32,46,46,109,10, 115,49,32,65,67,45,10, 35,61,83,83,32,60,46,62,10,
   115,50,32,32,67,71,10, 10, 35,61,82,70,32,120,10, 35,61,77,77,32,46,10, 115,49,32,65,10, 35,61,83,83,32,60,10, 115,50,32,67,67,10]
/-- "#=SS <>\ns1 AC\n": `#=SS` before any sequence -/
def exSelexBadSS : Bytes := [35,61,83,83,32,60,62,10, 115,49,32,65,67,10]
/-- "s1 AC\n\ns1 AC\ns2 AC\n": a later block with more lines -/
def exSelexMore : Bytes := [115,49,32,65,67,10, 10, 115,49,32,65,67,10, 115,50,32,65,67,10]

example : (selexRead (selexCfg none) (splitLines exSelex)).1 matches .ok _ := by decide +kernel
example : (selexRead (selexCfg (some abcDna)) (splitLines exSelex)).1 matches .ok _ := by decide +kernel
example : (selexRead (selexCfg none) (splitLines exSelexBadSS)).1 matches .eformat _ := by decide +kernel
example : (selexRead (selexCfg none) (splitLines exSelexMore)).1 matches .eformat _ := by decide +kernel
example : (selexRead (selexCfg none) (splitLines [12, 10])).1 matches .eformat _ := by decide +kernel      -- "\f\n": a block without any text
example : (selexRead (selexCfg none) (splitLines [35, 32, 99, 10, 10])).1 matches .eof := by decide +kernel   -- only a comment
example : selexCfg (some abcAmino) ∈ selexConfigs := by simp [selexConfigs]


/-! ## ===================== STOCKHOLM / PFAM =====================

`stockholmRead` (Msafile/Stockholm.lean) is `esl_msafile_stockholm_Read` with `ESL_STOCKHOLM_PARSEDATA`, the six line
parsers, `stockholm_get_seqidx/gc_tagidx/gr_tagidx` and the `esl_msa.c` helpers they call, statement by statement; every
data-dependent array access is bounds-checked against the allocation the C code computes (`sqalloc`, `salloc`, `balloc`,
`ngc`, `ngr`, `alloc_ncomment`, `alloc_ngf`), failure = `.fault`; `ESL_EXCEPTION` = `.exc`.  Pfam is the same reader.
The theorems hold for EVERY list of lines, hence every byte string, text mode and the three digital alphabets.
The reader configuration must satisfy `Cfg.valid` AND ignore no input character (`InMap.noIgnore`): with an ignored
character `stockholm_parse_sq` raises its "implementation assumes that no symbols are ignored in inmap" exception.

The proof rests on the block invariant `StoInv` (Msafile/StockholmInv.lean): with `lens` = all the lengths the parse data
keeps (`sqlen[]`, the five consensus lengths, `sslen/salen/pplen[]`, `ogc_len[]`, `ogr_len[][]`), every length is 0,
`alen` or `alen + alen_b` (`CountInv.tri`); in the first block the number of non-zero lengths is `bi`; in later blocks it
is `npb`, and the number of lengths still equal to `alen` is `npb - bi` — so that at the end of a block with `bi == npb`
nothing is left at `alen`.  The guards `sslen[i] != alen`, `ogc_len[t] != alen`, `ogr_len[t][i] != alen` are what makes a
line move a length from `alen` to `alen + alen_b` (`CountInv.step` needs `LensRel alen (alen+n) …`): weakened to `>`,
a tag renamed between blocks would take a 0 to `n` and `tri` fails. -/

theorem sto_cfg_text_valid : (stockholmCfg none).valid := ⟨by decide +kernel, by decide +kernel⟩
theorem sto_cfg_amino_valid : (stockholmCfg (some abcAmino)).valid := ⟨by decide +kernel, by decide +kernel⟩
theorem sto_cfg_dna_valid : (stockholmCfg (some abcDna)).valid := ⟨by decide +kernel, by decide +kernel⟩
theorem sto_cfg_rna_valid : (stockholmCfg (some abcRna)).valid := ⟨by decide +kernel, by decide +kernel⟩
theorem sto_cfg_text_noIgnore : (stockholmCfg none).inmap.noIgnore = true := by decide +kernel
theorem sto_cfg_amino_noIgnore : (stockholmCfg (some abcAmino)).inmap.noIgnore = true := by decide +kernel
theorem sto_cfg_dna_noIgnore : (stockholmCfg (some abcDna)).inmap.noIgnore = true := by decide +kernel
theorem sto_cfg_rna_noIgnore : (stockholmCfg (some abcRna)).inmap.noIgnore = true := by decide +kernel

/-- the four configurations of the Stockholm / Pfam reader -/
def stoConfigs : List Cfg :=
  [stockholmCfg none, stockholmCfg (some abcAmino), stockholmCfg (some abcDna), stockholmCfg (some abcRna)]

theorem stoConfigs_valid : ∀ cfg ∈ stoConfigs, cfg.valid ∧ cfg.inmap.noIgnore = true := by
  intro cfg h
  simp only [stoConfigs, List.mem_cons, List.mem_nil_iff, or_false] at h
  rcases h with h | h | h | h <;> subst h
  · exact ⟨sto_cfg_text_valid, sto_cfg_text_noIgnore⟩
  · exact ⟨sto_cfg_amino_valid, sto_cfg_amino_noIgnore⟩
  · exact ⟨sto_cfg_dna_valid, sto_cfg_dna_noIgnore⟩
  · exact ⟨sto_cfg_rna_valid, sto_cfg_rna_noIgnore⟩

/-- **Stockholm / Pfam, every byte string, text and digital**: one `esl_msafile_Read` returns ok with a well-formed
    alignment, eof, or eformat with a non-empty message -/
theorem stockholm_total (cfg : Cfg) (hc : cfg ∈ stoConfigs) (src : Bytes) : Good (stockholmRead cfg (splitLines src)).1 :=
  stockholmRead_good cfg (stoConfigs_valid cfg hc).1 (stoConfigs_valid cfg hc).2 (splitLines src)

/-- … and so does every later `esl_msafile_Read` on the same input (a Stockholm file may hold several alignments):
    whatever lines are left, the next read is again total -/
theorem stockholm_total_rest (cfg : Cfg) (hc : cfg ∈ stoConfigs) (lines : List Bytes) :
    Good (stockholmRead cfg lines).1 ∧ Good (stockholmRead cfg (stockholmRead cfg lines).2).1 :=
  ⟨stockholmRead_good cfg (stoConfigs_valid cfg hc).1 (stoConfigs_valid cfg hc).2 lines,
   stockholmRead_good cfg (stoConfigs_valid cfg hc).1 (stoConfigs_valid cfg hc).2 _⟩

/-- … the model never makes an out-of-bounds access / NULL dereference and never raises an internal exception -/
theorem stockholm_no_fault (cfg : Cfg) (hc : cfg ∈ stoConfigs) (src : Bytes) :
    (stockholmRead cfg (splitLines src)).1 ≠ .fault ∧ (stockholmRead cfg (splitLines src)).1 ≠ .exc :=
  let h := stockholmRead_nofault cfg (stoConfigs_valid cfg hc).1 (stoConfigs_valid cfg hc).2 (splitLines src)
  ⟨h.1, h.2.1⟩

/-- … a format error always carries a message -/
theorem stockholm_eformat_has_message (cfg : Cfg) (hc : cfg ∈ stoConfigs) (src : Bytes) (msg : String)
    (h : (stockholmRead cfg (splitLines src)).1 = .eformat msg) : msg ≠ "" :=
  (stockholmRead_nofault cfg (stoConfigs_valid cfg hc).1 (stoConfigs_valid cfg hc).2 (splitLines src)).2.2 msg h

/-- … an alignment returned with eslOK is well formed: ≥ 1 sequence, every row of length `alen`, weights all set or all
    default, and EVERY per-column / per-residue annotation (SS_cons SA_cons PP_cons RF MM, SS SA PP, every unparsed
    #=GC tag, every unparsed #=GR tag of every sequence) absent or of length exactly `alen` -/
theorem stockholm_ok_wellformed (cfg : Cfg) (hc : cfg ∈ stoConfigs) (src : Bytes) (m : Msa)
    (h : (stockholmRead cfg (splitLines src)).1 = .ok m) : m.wellFormed = true := by
  have hg := stockholm_total cfg hc src
  rw [h] at hg
  exact hg

/-! non-vacuity: the Stockholm theorems speak about each kind of outcome -/

/-- "# STOCKHOLM 1.0\n#=GS a WT 2\na AC\n#=GR a XX ..\n#=GC YY xy\n\na GT\n#=GR a XX <>\n#=GC YY zz\n//\n" -/
def exSto : Bytes :=
  [35,32,83,84,79,67,75,72,79,76,77,32,49,46,48,10, 35,61,71,83,32,97,32,87,84,32,50,10, 97,32,65,67,10,
   35,61,71,82,32,97,32,88,88,32,46,46,10, 35,61,71,67,32,89,89,32,120,121,10, 10, 97,32,71,84,10,
   35,61,71,82,32,97,32,88,88,32,60,62,10, 35,61,71,67,32,89,89,32,122,122,10, 47,47,10]
/-- the same with the #=GC tag of the second block renamed (YY -> ZZ): rejected, thanks to `ogc_len[tagidx] != alen` -/
def exStoRenamed : Bytes :=
  [35,32,83,84,79,67,75,72,79,76,77,32,49,46,48,10, 97,32,65,67,10, 35,61,71,67,32,89,89,32,120,121,10, 10, 97,32,71,84,10,
   35,61,71,67,32,90,90,32,122,122,10, 47,47,10]

example : (stockholmRead (stockholmCfg none) (splitLines exSto)).1 matches .ok _ := by decide +kernel
example : (stockholmRead (stockholmCfg (some abcDna)) (splitLines exSto)).1 matches .ok _ := by decide +kernel
example : (stockholmRead (stockholmCfg none) (splitLines exStoRenamed)).1 matches .eformat _ := by decide +kernel
example : (stockholmRead (stockholmCfg none) (splitLines [])).1 matches .eof := by decide +kernel
example : (stockholmRead (stockholmCfg none) (splitLines [35,32,83,84,79,67,75,72,79,76,77,32,49,46,48,10,97,32,65,10])).1 matches .eformat _ := by
  decide +kernel     -- no "//"
example : stockholmCfg (some abcRna) ∈ stoConfigs := by simp [stoConfigs]


/-! ### growth of the per-sequence arrays (`Msafile/StoGrowth.lean`)

`stockholm_get_seqidx` is the only place where `esl_msa_Expand` + `stockholm_parsedata_ExpandSeq` run (17th, 33rd, 65th …
name).  Pointwise statement of the growth bookkeeping, for EVERY state and name: the slots `0 .. salloc-1` of `sqlen`, of
every allocated `sslen/salen/pplen` and of EVERY `ogr_len[tag]` keep their value, the new slots are 0, no tag row appears
or disappears, the consensus lengths and `ogc_len` are untouched.  (The reader's invariant is preserved by the same step:
`expandAll_inv`, used by `stockholm_total`.) -/

theorem sto_growth_keeps_lens (st st' : StoSt) (name : Bytes) (idx : Nat) (h : getSeqIdx st name = .ok (st', idx)) :
    ∃ k, GrownBy k 0 st.sqlen st'.sqlen ∧ st'.ogrLen.length = st.ogrLen.length ∧
      (∀ (t : Nat) (row : List Nat), st.ogrLen[t]? = some row → ∃ row', st'.ogrLen[t]? = some row' ∧ GrownBy k 0 row row') ∧
      (∀ (j : Nat) (lns : List Nat), st.perLen[j]? = some (some lns) → ∃ lns', st'.perLen[j]? = some (some lns') ∧ GrownBy k 0 lns lns') ∧
      st'.consLen = st.consLen ∧ st'.ogcLen = st.ogcLen :=
  getSeqIdx_keeps_lens st st' name idx h

/-- a recorded `#=GR <seq> <tag>` length survives the arrival of any later sequence name -/
theorem sto_growth_keeps_ogr_slot (st st' : StoSt) (name : Bytes) (idx t z len : Nat) (row : List Nat)
    (h : getSeqIdx st name = .ok (st', idx)) (hr : st.ogrLen[t]? = some row) (hz : row[z]? = some len) :
    ∃ row', st'.ogrLen[t]? = some row' ∧ row'[z]? = some len :=
  getSeqIdx_keeps_ogr_slot st st' name idx t z len row h hr hz

/-- `stockholm_parsedata_ExpandSeq` alone, per unparsed tag -/
theorem sto_expandseq_ogr (st : StoSt) (t : Nat) (row : List Nat) (h : st.ogrLen[t]? = some row) :
    ∃ row', (pdExpandSeq st).ogrLen[t]? = some row' ∧ GrownBy (st.sqalloc - st.salloc) 0 row row' :=
  (pdExpandSeq_ogrLen st t).2 row h

/-! non-vacuity: a full MSA (16 names, one unparsed #=GR tag with a recorded length 5 for sequence 0) meets a 17th name:
    the arrays double, slot 0 still holds 5, slots 16..31 are 0 -/
def exFullSt : StoSt :=
  { names := (List.range 16).map (fun i => [UInt8.ofNat (97 + i)]), nseq := 16, grTags := [[84]],
    gr := [List.replicate 16 none], ogrLen := [5 :: List.replicate 15 0] }

example : (match getSeqIdx exFullSt [122] with
    | .ok (st', idx) => idx == 16 && st'.sqalloc == 32 && st'.salloc == 32 && st'.ogrLen == [5 :: List.replicate 31 0] &&
        st'.sqlen.length == 32
    | .error _ => false) = true := by decide +kernel

/-- 17 sequences `a`..`q`, two blocks, `#=GR a T` in both blocks (recorded before the 17th name arrives), names introduced
    by the block itself: accepted -/
def exSto17 : Bytes :=
  [35,32,83,84,79,67,75,72,79,76,77,32,49,46,48,10,97,32,65,10,35,61,71,82,32,97,32,84,32,46,10,98,32,65,10,99,32,65,10,100,32,65,10,101,32,65,10,102,32,65,10,103,32,65,10,104,32,65,10,105,32,65,10,106,32,65,10,107,32,65,10,108,32,65,10,109,32,65,10,110,32,65,10,111,32,65,10,112,32,65,10,113,32,65,10,10,97,32,67,10,35,61,71,82,32,97,32,84,32,42,10,98,32,67,10,99,32,67,10,100,32,67,10,101,32,67,10,102,32,67,10,103,32,67,10,104,32,67,10,105,32,67,10,106,32,67,10,107,32,67,10,108,32,67,10,109,32,67,10,110,32,67,10,111,32,67,10,112,32,67,10,113,32,67,10,47,47,10]

example : (stockholmRead (stockholmCfg none) (splitLines exSto17)).1 matches .ok _ := by decide +kernel
example : (match (stockholmRead (stockholmCfg none) (splitLines exSto17)).1 with
    | .ok m => m.nseq == 17 && m.alen == 2 && m.gr == [([84], some [46, 42] :: List.replicate 16 none)]
    | _ => false) = true := by decide +kernel


/-! ### the numeric payload: `#=GS <seq> WT <w>` weights and `#=GF GA|NC|TC` cut-offs (`Msafile/StoNum.lean`)

`stockholmReadV` = `stockholmRead` + the VALUES `esl_memtod` / `esl_memtof` store (`strtodBits`: glibc `strtod` on the
longest valid prefix of the token — decimal and hexadecimal syntax correctly rounded by exact integer arithmetic,
infinities exact, NaN canonical; `f64ToF32`: the second rounding of `(float) strtod()`).  It is the reader the driver
runs and the harness is compared with, bit for bit.  It is `stockholmRead` up to the payload (`stockholmV_erase`), so
totality, fault-freedom, the message and well-formedness transfer. -/

theorem stockholmV_erase (cfg : Cfg) (lines : List Bytes) :
    ∃ ns, stockholmReadV cfg lines = (patchRes ns (stockholmRead cfg lines).1, (stockholmRead cfg lines).2) :=
  stockholmReadV_erase cfg lines

theorem stockholmV_total (cfg : Cfg) (hc : cfg ∈ stoConfigs) (src : Bytes) : Good (stockholmReadV cfg (splitLines src)).1 :=
  stockholmReadV_good cfg _ (stockholm_total cfg hc src)

theorem stockholmV_total_rest (cfg : Cfg) (hc : cfg ∈ stoConfigs) (lines : List Bytes) :
    Good (stockholmReadV cfg lines).1 ∧ Good (stockholmReadV cfg (stockholmReadV cfg lines).2).1 :=
  ⟨stockholmReadV_good cfg _ (stockholm_total_rest cfg hc lines).1,
   stockholmReadV_good cfg _ (by rw [stockholmReadV_rest]; exact (stockholm_total_rest cfg hc lines).2)⟩

/-- the alignment the value-carrying reader returns is `stockholmRead`'s with `wgt` / `cutoff` patched, and well formed -/
theorem stockholmV_ok_wellformed (cfg : Cfg) (hc : cfg ∈ stoConfigs) (src : Bytes) (m : Msa)
    (h : (stockholmReadV cfg (splitLines src)).1 = .ok m) :
    m.wellFormed = true ∧ ∃ m0 ns, (stockholmRead cfg (splitLines src)).1 = .ok m0 ∧ m = patchMsa ns m0 := by
  have hg := stockholmV_total cfg hc src
  rw [h] at hg
  exact ⟨hg, stockholmReadV_ok cfg _ m h⟩

/-- non-vacuity: "#=GS a WT 2" of `exSto` is read as 2.0; a file with `WT 0.42`, `GA 25.0 1e-3`, `TC 0x1p4` -/
example : (match (stockholmReadV (stockholmCfg none) (splitLines exSto)).1 with
    | .ok m => m.wgt == [Wgt.val 0x4000000000000000] && m.hasw
    | _ => false) = true := by decide +kernel

/-- "# STOCKHOLM 1.0\n#=GF GA 25.0 1e-3\n#=GF TC 0x1p4\n#=GS a WT 0.42\na AC\n//\n" -/
def exStoNum : Bytes :=
  [35,32,83,84,79,67,75,72,79,76,77,32,49,46,48,10, 35,61,71,70,32,71,65,32,50,53,46,48,32,49,101,45,51,10,
   35,61,71,70,32,84,67,32,48,120,49,112,52,10, 35,61,71,83,32,97,32,87,84,32,48,46,52,50,10, 97,32,65,67,10, 47,47,10]

example : (match (stockholmReadV (stockholmCfg none) (splitLines exStoNum)).1 with
    | .ok m => m.wgt == [Wgt.val 0x3fdae147ae147ae1] &&
        m.cutoff == [some 0x41800000, none, some 0x41c80000, some 0x3a83126f, none, none]
    | _ => false) = true := by decide +kernel

/-! # ===================== AUTODETECT section: the open path `msafile_OpenBuffer` =====================

Model `Msafile/Guess.lean` (`openModel` = what `msafile_OpenBuffer` decides: declared or autodetected format, text mode,
supplied or guessed alphabet, then the per-format `SetInmap`), lemmas `Msafile/GuessLemmas.lean`.
`openBytes fsel asel fname src` answers `ok ⟨format, alphabet type, fmtd.namewidth⟩`, `enoformat`, `enoalphabet` (or `fault`:
a bounds-checked access of a guesser failed).  `Opened.cfg` is the reader configuration the open path produces,
`Opened.read` one `esl_msafile_Read` of the resolved reader (PHYLIP: with the autodetected name width). -/

/-- whatever format and alphabet the open path resolves to, the reader configuration it builds (`esl_alphabet_Create(type)` +
    the format's `SetInmap`) is valid: 10 formats × {text, RNA, DNA, amino} -/
theorem cfgOf_valid (fmt : Fmt) (abc : Option AbcType) : (cfgOf fmt (abc.map abcOfType)).valid := by
  cases fmt with
  | stockholm =>
    cases abc with
    | none => exact sto_cfg_text_valid
    | some t =>
      cases t with
      | rna => exact sto_cfg_rna_valid
      | dna => exact sto_cfg_dna_valid
      | amino => exact sto_cfg_amino_valid
  | pfam =>
    cases abc with
    | none => exact sto_cfg_text_valid
    | some t =>
      cases t with
      | rna => exact sto_cfg_rna_valid
      | dna => exact sto_cfg_dna_valid
      | amino => exact sto_cfg_amino_valid
  | a2m =>
    cases abc with
    | none => exact a2m_cfg_text_valid
    | some t =>
      cases t with
      | rna => exact a2m_cfg_rna_valid
      | dna => exact a2m_cfg_dna_valid
      | amino => exact a2m_cfg_amino_valid
  | psiblast =>
    cases abc with
    | none => exact psiblast_cfg_text_valid
    | some t =>
      cases t with
      | rna => exact psiblast_cfg_rna_valid
      | dna => exact psiblast_cfg_dna_valid
      | amino => exact psiblast_cfg_amino_valid
  | selex =>
    cases abc with
    | none => exact selex_cfg_text_valid
    | some t =>
      cases t with
      | rna => exact selex_cfg_rna_valid
      | dna => exact selex_cfg_dna_valid
      | amino => exact selex_cfg_amino_valid
  | afa =>
    cases abc with
    | none => exact afa_cfg_text_valid
    | some t =>
      cases t with
      | rna => exact afa_cfg_rna_valid
      | dna => exact afa_cfg_dna_valid
      | amino => exact afa_cfg_amino_valid
  | clustal =>
    cases abc with
    | none => exact clustal_cfg_text_valid
    | some t =>
      cases t with
      | rna => exact clustal_cfg_rna_valid
      | dna => exact clustal_cfg_dna_valid
      | amino => exact clustal_cfg_amino_valid
  | clustallike =>
    cases abc with
    | none => exact clustal_cfg_text_valid
    | some t =>
      cases t with
      | rna => exact clustal_cfg_rna_valid
      | dna => exact clustal_cfg_dna_valid
      | amino => exact clustal_cfg_amino_valid
  | phylip =>
    cases abc with
    | none => exact phylip_cfg_text_valid
    | some t =>
      cases t with
      | rna => exact phylip_cfg_rna_valid
      | dna => exact phylip_cfg_dna_valid
      | amino => exact phylip_cfg_amino_valid
  | phylips =>
    cases abc with
    | none => exact phylip_cfg_text_valid
    | some t =>
      cases t with
      | rna => exact phylip_cfg_rna_valid
      | dna => exact phylip_cfg_dna_valid
      | amino => exact phylip_cfg_amino_valid

/-- … and satisfies the extra table conditions of the readers that need one -/
theorem cfgOf_a2m_sync (abc : Option AbcType) : A2mValid (cfgOf .a2m (abc.map abcOfType)) := by
  cases abc with
  | none => exact a2m_cfg_text_sync
  | some t =>
    cases t with
    | rna => exact a2m_cfg_rna_sync
    | dna => exact a2m_cfg_dna_sync
    | amino => exact a2m_cfg_amino_sync

theorem cfgOf_selex_ok (abc : Option AbcType) : (cfgOf .selex (abc.map abcOfType)).selexOk = true := by
  cases abc with
  | none => exact selex_cfg_text_ok
  | some t =>
    cases t with
    | rna => exact selex_cfg_rna_ok
    | dna => exact selex_cfg_dna_ok
    | amino => exact selex_cfg_amino_ok

theorem cfgOf_sto_noIgnore (abc : Option AbcType) : (cfgOf .stockholm (abc.map abcOfType)).inmap.noIgnore = true := by
  cases abc with
  | none => exact sto_cfg_text_noIgnore
  | some t =>
    cases t with
    | rna => exact sto_cfg_rna_noIgnore
    | dna => exact sto_cfg_dna_noIgnore
    | amino => exact sto_cfg_amino_noIgnore

/-- the configuration of an opened file is valid -/
theorem opened_cfg_valid (o : Opened) : o.cfg.valid := cfgOf_valid o.fmt o.abc

/-- **every read of an opened file is total**: whatever the open path resolved (format, alphabet, name width) and whatever
    lines are offered, the resolved reader returns ok with a well-formed alignment, eof, or eformat with a message -/
theorem opened_read_good (o : Opened) (lines : List Bytes) : Good (o.read lines).1 := by
  obtain ⟨fmt, abc, nw⟩ := o
  cases fmt
  · exact stockholmRead_good _ (cfgOf_valid .stockholm abc) (cfgOf_sto_noIgnore abc) lines
  · exact stockholmRead_good _ (cfgOf_valid .stockholm abc) (cfgOf_sto_noIgnore abc) lines
  · exact a2mRead_good _ (cfgOf_valid .a2m abc) (cfgOf_a2m_sync abc) lines
  · exact psiblastRead_good _ (cfgOf_valid .psiblast abc) lines
  · exact selexRead_good _ (cfgOf_valid .selex abc) (cfgOf_selex_ok abc) lines
  · exact afaRead_good _ (cfgOf_valid .afa abc) lines
  · exact clustalRead_good false _ (cfgOf_valid .clustal abc) lines
  · exact clustalRead_good true _ (cfgOf_valid .clustal abc) lines
  · exact phylipReadW_good nw false _ (cfgOf_valid .phylip abc) lines
  · exact phylipReadW_good nw true _ (cfgOf_valid .phylip abc) lines

/-- … and so is every read with the numeric payload of Stockholm weights / cut-offs carried along (`Opened.readV`, the
    reader the driver runs) -/
theorem opened_readV_good (o : Opened) (lines : List Bytes) : Good (o.readV lines).1 :=
  Opened.readV_good o lines (opened_read_good o lines)

/-- (1) **the guessers never fault**: format autodetection (its own rules, `msafile_check_selex`, the three PHYLIP deep
    checks) and alphabet guessing (all formats, every name width), for every file name and every list of lines -/
theorem guess_no_fault (fname : Option Bytes) (fmt : Fmt) (namewidth : Nat) (lines : List Bytes) :
    guessFormat fname lines ≠ .fault ∧ phyCheckFileFormat lines ≠ .fault ∧ checkSeqUnknown lines ≠ .fault ∧
    guessAlphabet fmt namewidth lines ≠ .fault :=
  ⟨guessFormat_no_fault fname lines, phyCheckFileFormat_no_fault lines, checkSeqUnknown_no_fault lines,
   guessAlphabet_no_fault fmt namewidth lines⟩

/-- (2) **opening is total, any selection**: for every byte string, file name, format selection and alphabet selection the
    open path answers ok / enoformat / enoalphabet; and when it answers ok, the configuration it built is valid and
    EVERY subsequent `esl_msafile_Read` (on whatever is left of the input) has a good outcome -/
theorem open_total (fsel : FmtSel) (asel : AbcSel) (fname : Option Bytes) (src : Bytes) :
    ((∃ o, openBytes fsel asel fname src = .ok o) ∨ openBytes fsel asel fname src = .enoformat ∨
      openBytes fsel asel fname src = .enoalphabet) ∧
    (∀ o, openBytes fsel asel fname src = .ok o → o.cfg.valid ∧ ∀ lines, Good (o.read lines).1) := by
  refine ⟨?_, fun o _ => ⟨opened_cfg_valid o, opened_read_good o⟩⟩
  have hnf : openBytes fsel asel fname src ≠ .fault := openModel_no_fault fsel asel fname (splitLines src)
  cases h : openBytes fsel asel fname src with
  | ok o => exact Or.inl ⟨o, rfl⟩
  | enoformat => exact Or.inr (Or.inl rfl)
  | enoalphabet => exact Or.inr (Or.inr rfl)
  | fault => exact absurd h hnf

/-- (2') **… also when the caller hands `esl_msafile_Open*` an `ESL_MSAFILE_FMTDATA`** (a PHYLIP name width `nw0`, any value): the
    open path answers ok / enoformat / enoalphabet, never faults, and every read of the opened file is good -/
theorem open_total_fmtd (nw0 : Nat) (fsel : FmtSel) (asel : AbcSel) (fname : Option Bytes) (src : Bytes) :
    ((∃ o, openModelW nw0 fsel asel fname (splitLines src) = .ok o) ∨ openModelW nw0 fsel asel fname (splitLines src) = .enoformat ∨
      openModelW nw0 fsel asel fname (splitLines src) = .enoalphabet) ∧
    (∀ o, openModelW nw0 fsel asel fname (splitLines src) = .ok o → o.cfg.valid ∧ ∀ lines, Good (o.read lines).1) := by
  refine ⟨?_, fun o _ => ⟨opened_cfg_valid o, opened_read_good o⟩⟩
  have hnf := openModelW_no_fault nw0 fsel asel fname (splitLines src)
  cases h : openModelW nw0 fsel asel fname (splitLines src) with
  | ok o => exact Or.inl ⟨o, rfl⟩
  | enoformat => exact Or.inr (Or.inl rfl)
  | enoalphabet => exact Or.inr (Or.inr rfl)
  | fault => exact absurd h hnf

/-- non-vacuity: a PHYLIP file with 4-character names, declared format, name width 4 supplied by the caller: read with it
    (with the default width 10 the same bytes are a format error) -/
example : openModelW 4 (.decl .phylip) .text none (splitLines (str " 2 4\nab  ACGT\ncd  ACGT\n")) = .ok ⟨.phylip, none, 4⟩ := by decide +kernel
example : ((Opened.read ⟨.phylip, none, 4⟩ (splitLines (str " 2 4\nab  ACGT\ncd  ACGT\n"))).1 matches .ok _) = true := by decide +kernel
example : ((Opened.read ⟨.phylip, none, 0⟩ (splitLines (str " 2 4\nab  ACGT\ncd  ACGT\n"))).1 matches .eformat _) = true := by decide +kernel

/-- (2) **format autodetection with alphabet guessing is total** (the instance the property names) -/
theorem auto_total (fname : Option Bytes) (src : Bytes) :
    ((∃ o, openBytes .auto .guess fname src = .ok o) ∨ openBytes .auto .guess fname src = .enoformat ∨
      openBytes .auto .guess fname src = .enoalphabet) ∧
    (∀ o, openBytes .auto .guess fname src = .ok o →
      o.cfg.valid ∧ Good (o.read (splitLines src)).1 ∧ Good (o.read (o.read (splitLines src)).2).1) := by
  have h := open_total .auto .guess fname src
  exact ⟨h.1, fun o ho => ⟨(h.2 o ho).1, (h.2 o ho).2 _, (h.2 o ho).2 _⟩⟩

/-- a status the caller did not ask for cannot come back: eslENOFORMAT only under autodetection, eslENOALPHABET only under
    alphabet guessing; a declared format in text mode or with a supplied alphabet always opens -/
theorem open_status_documented (fsel : FmtSel) (asel : AbcSel) (fname : Option Bytes) (src : Bytes) :
    (openBytes fsel asel fname src = .enoformat → fsel = .auto) ∧
    (openBytes fsel asel fname src = .enoalphabet → asel = .guess) :=
  ⟨openModel_enoformat_auto fsel asel fname _, openModel_enoalphabet_guess fsel asel fname _⟩

/-! ### non-vacuity and witnesses -/

/-- Stockholm by its first line; 12 residues with all of A, C, G, U: RNA -/
example : openBytes .auto .guess none (str "# STOCKHOLM 1.0\nseq1 ACGUACGUACGU\n//\n") = .ok ⟨.stockholm, some .rna, 0⟩ := by decide +kernel
/-- … a ".pfam" suffix turns it into Pfam; 10 residues are too few to guess from -/
example : openBytes .auto .guess (some (str "dir.x/f.pfam")) (str "# STOCKHOLM 1.0\nseq1 ACGUACGUAC\n//\n") = .enoalphabet := by decide +kernel
example : openBytes .auto .text (some (str "dir.x/f.pfam")) (str "# STOCKHOLM 1.0\nseq1 ACGUACGUAC\n//\n") = .ok ⟨.pfam, none, 0⟩ := by decide +kernel
/-- '>' is aligned FASTA unless the file is called ".a2m"; one amino-only letter (E) decides for amino -/
example : openBytes .auto .guess none (str ">a\nACGTACGTACGE\n") = .ok ⟨.afa, some .amino, 0⟩ := by decide +kernel
example : openBytes .auto .guess (some (str "x.a2m")) (str ">a\nACGTACGTACGT\n") = .ok ⟨.a2m, some .dna, 0⟩ := by decide +kernel
/-- SELEX by `msafile_check_selex`, PSI-BLAST only through the ".pb" suffix -/
example : openBytes .auto .text none (str "a ACGT\nb ACGT\n") = .ok ⟨.selex, none, 0⟩ := by decide +kernel
example : openBytes .auto .text (some (str "f.pb")) (str "a ACGT\nb ACGT\n") = .ok ⟨.psiblast, none, 0⟩ := by decide +kernel
example : openBytes .auto .text none (str "a ACGT\nb ACG\n") = .enoformat := by decide +kernel            -- ragged block: not SELEX
/-- PHYLIP: one block = interleaved, strict name width 10 … -/
example : openBytes .auto .text none (str " 2 4\nseq1      ACGT\nseq2      ACGT\n") = .ok ⟨.phylip, none, 10⟩ := by decide +kernel
/-- … name width deduced from the header's `alen` and the column codes (4 here: the blanks behind the name are not part of
    it), and used by the reader -/
example : openBytes .auto .text none (str "2 4\nseq1   ACGT\nseq2   ACGT\n") = .ok ⟨.phylip, none, 4⟩ := by decide +kernel
example : ((⟨.phylip, none, 4⟩ : Opened).read (splitLines (str "2 4\nseq1   ACGT\nseq2   ACGT\n"))).1 matches .ok _ := by decide +kernel
example : ((⟨.phylip, none, 0⟩ : Opened).read (splitLines (str "2 4\nseq1   ACGT\nseq2   ACGT\n"))).1 matches .eformat _ := by decide +kernel
/-- … sequential with two lines per sequence: `phylip_check_sequential_unknown` finds width 11 -/
example : openBytes .auto .text none (str "2 4\nAAAAAAAAAA AC\nGT\nCCCCCCCCCC GT\nAC\n") = .ok ⟨.phylips, none, 11⟩ := by decide +kernel
example : checkSeqUnknown (splitLines (str "2 4\nAAAAAAAAAA AC\nGT\nCCCCCCCCCC GT\nAC\n")) = .ok 11 := by decide +kernel
/-- … a file consistent with both variants (2 interleaved blocks of name width 2, or 2 sequences of 2 lines with name
    width 5) is refused: eslEAMBIGUOUS -/
example : openBytes .auto .text none (str "2 4\nab   AC\nGT\ncd   AC\nGT\n") = .enoformat := by decide +kernel
example : checkInterleaved (splitLines (str "2 4\nab   AC\nGT\ncd   AC\nGT\n")) = some (2, 2) ∧
    checkSeqUnknown (splitLines (str "2 4\nab   AC\nGT\ncd   AC\nGT\n")) = .ok 5 := by decide +kernel
/-- the witness of the over-read repaired by ef67b6d ("1 2\nname AC\n\f": the last line is shorter than the name width) -/
example : openBytes .auto .text none [49, 32, 50, 10, 110, 97, 109, 101, 32, 65, 67, 10, 12] = .ok ⟨.phylips, none, 5⟩ := by decide +kernel
/-- nothing, or nothing but blank lines: no format -/
example : openBytes .auto .guess none [] = .enoformat := by decide +kernel
example : openBytes .auto .guess none (str " \n\t\n") = .enoformat := by decide +kernel
example : openBytes (.decl .clustal) .guess none [] = .enoalphabet := by decide +kernel
/-- the suffix table looks at the last suffix, or at the one before ".gz" -/
example : fmtBySuffix (some (str "a.b/c.sto.gz")) = some .stockholm ∧ fmtBySuffix (some (str "a.sto/c")) = none ∧
    fmtBySuffix (some (str "c.phys")) = some .phylips ∧ fmtBySuffix (some (str "c.PHY")) = none := by decide +kernel


/-! ## `esl_msafile_Open` by name (`Msafile/OpenByName.lean`): the paths before `msafile_OpenBuffer`

Whatever the file system answers for the name (`PathKind`: found nowhere — working directory and `$env` list —, a directory,
or a regular file with any path and any content): the call ends with `eslENOTFOUND` and `afp` in an error state carrying a
non-empty message, exactly when the name is no regular file; otherwise with the open-buffer outcome, which never faults and
whose every later read (numeric payload included) is good. -/
theorem open_by_name_total (nw0 : Nat) (fsel : FmtSel) (asel : AbcSel) (pk : PathKind) :
    (∃ msg, openByName nw0 fsel asel pk = .enotfound msg ∧ msg ≠ "" ∧ ∀ p c, pk ≠ .file p c) ∨
    (∃ r p c, openByName nw0 fsel asel pk = .opened r ∧ pk = .file p c ∧ r ≠ .fault ∧
      ((∃ o, r = .ok o) ∨ r = .enoformat ∨ r = .enoalphabet) ∧
      ∀ o, r = .ok o → o.cfg.valid ∧ ∀ lines, Good (o.readV lines).1) := by
  cases pk with
  | missing => exact Or.inl ⟨_, rfl, (by decide), fun p c h => (by cases h)⟩
  | directory => exact Or.inl ⟨_, rfl, (by decide), fun p c h => (by cases h)⟩
  | file p c =>
    refine Or.inr ⟨_, p, c, rfl, rfl, openModelW_no_fault nw0 fsel asel (some p) (splitLines c), (open_total_fmtd nw0 fsel asel (some p) c).1,
      fun o _ => ⟨opened_cfg_valid o, opened_readV_good o⟩⟩

/-- non-vacuity: the three kinds of answer -/
example : openByName 0 .auto .text .missing matches .enotfound _ := by decide
example : openByName 0 (.decl .afa) .guess .directory matches .enotfound _ := by decide
example : openByName 0 .auto .text (.file (str "d/x.sto") (str "# STOCKHOLM 1.0\na AC\n//\n")) = .opened (.ok ⟨.stockholm, none, 0⟩) := by
  decide +kernel
example : openByName 0 .auto .text (.file (str "x.dat") (str "\n")) = .opened .enoformat := by decide +kernel

/-! ## the `.gz` branch of the suffix rule (`Msafile/GzSuffix.lean`)

A name ending in `.gz` is classified by the suffix before `.gz`, one level only; the name reaches `msafile_OpenBuffer` through
that hint alone, so `x.sfx.gz` opens exactly as `x.sfx` for EVERY content, format selection, alphabet selection and name width. -/
theorem open_gz_name (nw0 : Nat) (fsel : FmtSel) (asel : AbcSel) (f : Bytes) (src : Bytes) (h : fileExtension f 0 ≠ some bGz) :
    openModelW nw0 fsel asel (some (f ++ bGz)) (splitLines src) = openModelW nw0 fsel asel (some f) (splitLines src) :=
  openModelW_gz nw0 fsel asel f (splitLines src) h

theorem suffix_gz_one_level (f : Bytes) :
    fmtBySuffix (some (f ++ bGz)) = suffixFmt (fileExtension f 0) ∧ fmtBySuffix (some (f ++ bGz ++ bGz)) = none :=
  ⟨fmtBySuffix_gz f, fmtBySuffix_gz_gz f⟩

/-- non-vacuity: Stockholm text in `x.pfam.gz` opens as Pfam, in `x.pfam.gz.gz` and in `x.gz` as Stockholm; the hypothesis
    of `open_gz_name` holds for `x.pfam` and fails for `x.gz` -/
example : openModelW 0 .auto .text (some (str "x.pfam.gz")) (splitLines (str "# STOCKHOLM 1.0\na AC\n//\n")) = .ok ⟨.pfam, none, 0⟩ := by
  decide +kernel
example : openModelW 0 .auto .text (some (str "x.pfam.gz.gz")) (splitLines (str "# STOCKHOLM 1.0\na AC\n//\n")) = .ok ⟨.stockholm, none, 0⟩ := by
  decide +kernel
example : fileExtension (str "x.pfam") 0 ≠ some bGz ∧ fileExtension (str "x.gz") 0 = some bGz := by decide +kernel

/-! ## `esl_msafile_Open` on a `.gz` name (`Msafile/OpenGz.lean`): `gzip -dc` as a parameter

Whatever the command does — fails (eslFAIL, `afp` in an error state with a non-empty message) or delivers any bytes: the call is
total, never faults, every later read is good; and a compressed file opens exactly as the plain file of the name without `.gz`. -/
theorem open_gz_total (nw0 : Nat) (fsel : FmtSel) (asel : AbcSel) (path : Bytes) (g : GzKind) :
    (∃ msg, openGz nw0 fsel asel path g = .efail msg ∧ msg ≠ "") ∨
    (∃ r, openGz nw0 fsel asel path g = .opened r ∧ r ≠ .fault ∧ ((∃ o, r = .ok o) ∨ r = .enoformat ∨ r = .enoalphabet) ∧
      ∀ o, r = .ok o → o.cfg.valid ∧ ∀ lines, Good (o.readV lines).1) := by
  cases g with
  | failed => exact Or.inl ⟨_, rfl, (by decide)⟩
  | bytes u =>
    exact Or.inr ⟨_, rfl, openModelW_no_fault nw0 fsel asel (some path) (splitLines u), (open_total_fmtd nw0 fsel asel (some path) u).1,
      fun o _ => ⟨opened_cfg_valid o, opened_readV_good o⟩⟩

theorem open_gz_as_plain (nw0 : Nat) (fsel : FmtSel) (asel : AbcSel) (f unz : Bytes) (h : fileExtension f 0 ≠ some bGz) :
    openGz nw0 fsel asel (f ++ bGz) (.bytes unz) = .opened (openModelW nw0 fsel asel (some f) (splitLines unz)) :=
  openGz_as_plain nw0 fsel asel f unz h

example : openGz 0 .auto .text (str "x.pfam.gz") (.bytes (str "# STOCKHOLM 1.0\na AC\n//\n")) = .opened (.ok ⟨.pfam, none, 0⟩) := by decide +kernel
example : openGz 0 .auto .text (str "x.pfam.gz") .failed matches .efail _ := by decide

end EaselModel.Props.C01
