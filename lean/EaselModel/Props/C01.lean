import EaselModel.Msafile.AfaLemmas
import EaselModel.Msafile.AbcTables
/-! # C01 — alignment input is total: property theorems (statements + glue; lemmas live in `Msafile/*Lemmas.lean`)

Full statement (properties.jsonl): for every byte string, in each of the ten formats or with autodetection, text or digital
(supplied or guessed alphabet): every call returns a documented normal outcome (ok / eof / eformat with a message /
format-or-alphabet undetermined); never a crash, out-of-object access, UB, leak or internal exception; every alignment
returned with success is well formed.

PARTIAL at this revision: the theorems below cover the formats whose reader is modelled (`MODELLED` in props/c01.py:
aligned FASTA), declared format, text mode and digital mode with a supplied alphabet, for EVERY byte string (no size
bound).  The other formats, autodetection and alphabet guessing are covered by the harness monitors only (support, not
proof); leaks are outside the model. `Good r` is: `ok m ⇒ m.wellFormed`, `eof`, `eformat msg ⇒ msg ≠ ""`; `fault`
(out-of-bounds access of the bounds-checked model) and `exc` (ESL_EXCEPTION) are NOT good. -/
namespace EaselModel.Props.C01
open EaselModel.Msafile

/-- the four reader configurations the check drives are valid: the input map emits only storable symbols and cannot
    trigger `ESL_EXCEPTION` inside `esl_strmapcat` / `esl_abc_dsqcat` (finite tables regenerated from the C code: `decide`) -/
theorem afa_cfg_text_valid : (afaCfg none).valid := ⟨by decide +kernel, by decide +kernel⟩
theorem afa_cfg_amino_valid : (afaCfg (some abcAmino)).valid := ⟨by decide +kernel, by decide +kernel⟩
theorem afa_cfg_dna_valid : (afaCfg (some abcDna)).valid := ⟨by decide +kernel, by decide +kernel⟩
theorem afa_cfg_rna_valid : (afaCfg (some abcRna)).valid := ⟨by decide +kernel, by decide +kernel⟩

/-- the four configurations of the aligned-FASTA reader -/
def afaConfigs : List Cfg := [afaCfg none, afaCfg (some abcAmino), afaCfg (some abcDna), afaCfg (some abcRna)]

theorem afaConfigs_valid : ∀ cfg ∈ afaConfigs, cfg.valid := by
  intro cfg h
  simp only [afaConfigs, List.mem_cons, List.mem_nil_iff, or_false] at h
  rcases h with h | h | h | h <;> subst h
  · exact afa_cfg_text_valid
  · exact afa_cfg_amino_valid
  · exact afa_cfg_dna_valid
  · exact afa_cfg_rna_valid

/-- **AFA, every byte string, text and digital**: one `esl_msafile_Read` returns ok with a well-formed alignment, eof, or
    eformat with a non-empty message. -/
theorem afa_total (cfg : Cfg) (hc : cfg ∈ afaConfigs) (src : Bytes) : Good (afaRead cfg (splitLines src)).1 :=
  afaRead_good cfg (afaConfigs_valid cfg hc) (splitLines src)

/-- … in particular the model never makes an out-of-bounds access and never raises an internal exception -/
theorem afa_no_fault (cfg : Cfg) (hc : cfg ∈ afaConfigs) (src : Bytes) :
    (afaRead cfg (splitLines src)).1 ≠ .fault ∧ (afaRead cfg (splitLines src)).1 ≠ .exc := by
  have h := afa_total cfg hc src
  constructor <;> intro hr <;> rw [hr] at h <;> exact h

/-- … a format error always carries a message -/
theorem afa_eformat_has_message (cfg : Cfg) (hc : cfg ∈ afaConfigs) (src : Bytes) (msg : String)
    (h : (afaRead cfg (splitLines src)).1 = .eformat msg) : msg ≠ "" := by
  have hg := afa_total cfg hc src
  rw [h] at hg; exact hg

/-- … an alignment returned with eslOK is well formed: ≥ 1 sequence, every row of length `alen` (text rows NUL-free,
    digital rows sentinel-delimited with codes `< Kp`), default weights, and nothing is left unread -/
theorem afa_ok_wellformed (cfg : Cfg) (hc : cfg ∈ afaConfigs) (src : Bytes) (m : Msa)
    (h : (afaRead cfg (splitLines src)).1 = .ok m) :
    m.wellFormed = true ∧ (afaRead cfg (splitLines src)).2 = [] := by
  have hg := afa_total cfg hc src
  rw [h] at hg
  exact ⟨hg, (afaRead_ok_consumes cfg _ m h).1⟩

/-- reading alignments until the end: the second `esl_msafile_Read` after a success returns eslEOF (AFA holds one alignment) -/
theorem afa_read_all_total (cfg : Cfg) (hc : cfg ∈ afaConfigs) (src : Bytes) :
    Good (afaRead cfg (splitLines src)).1 ∧
    (∀ m, (afaRead cfg (splitLines src)).1 = .ok m → (afaRead cfg (afaRead cfg (splitLines src)).2).1 = .eof) :=
  ⟨afa_total cfg hc src, fun m h => (afaRead_ok_consumes cfg _ m h).2⟩

/-- the abstract line reader partitions the input: bodies and terminators concatenate to the input, terminators are
    LF, CRLF or (last line) empty, and no body contains an LF -/
theorem lines_partition (src : Bytes) :
    ((splitLinesT src []).flatMap fun l => l.1 ++ l.2) = src ∧
    (∀ l ∈ splitLinesT src [], l.2 = [10] ∨ l.2 = [13, 10] ∨ l.2 = []) ∧
    (∀ l ∈ splitLinesT src [], (10 : UInt8) ∉ l.1) :=
  ⟨by simpa using splitLinesT_flat src [], splitLinesT_term src [], splitLinesT_body src [] (by simp)⟩

/-- `esl_strmapcat` with a valid text input map never stores a NUL (so `strlen(row)` is the number of stored symbols) -/
theorem strmapcat_length (dest : Option Bytes) (src : Bytes)
    (hd : ∀ d, dest = some d → d.all (· != 0) = true) :
    ∀ d', (strmapcat (afaInmap none) dest src).2 = some d' → d'.all (· != 0) = true :=
  strmapcat_no_nul _ (by decide +kernel) dest src hd

/-- `esl_abc_dsqcat` appends only valid alphabet codes, whatever the input bytes (NUL, ≥ 0x80, control characters …) -/
theorem dsqcat_codes_valid (a : Abc) (ha : a = abcAmino ∨ a = abcDna ∨ a = abcRna) (src : Bytes) :
    ((mapLoop (afaInmap (some a)) src .ok []).2.reverse).all (fun x => decide (x.toNat < a.kp)) = true := by
  rcases ha with h | h | h <;> subst h <;> exact mapLoop_all' _ _ (by decide +kernel) src

/-! ## non-vacuity: concrete inputs on which the theorems speak about each kind of outcome -/

/-- ">a d\nAC-GT\n>b\nAC\nGTT\n" -/
def exGood : Bytes := [62,97,32,100,10,65,67,45,71,84,10,62,98,10,65,67,10,71,84,84,10]
/-- ">a\nACGT\n>b\nAC\n" (ragged) -/
def exRagged : Bytes := [62,97,10,65,67,71,84,10,62,98,10,65,67,10]

example : (afaRead (afaCfg none) (splitLines exGood)).1 matches .ok _ := by decide +kernel
example : (afaRead (afaCfg (some abcDna)) (splitLines exGood)).1 matches .ok _ := by decide +kernel
example : (afaRead (afaCfg (some abcDna)) (splitLines exRagged)).1 matches .eformat _ := by decide +kernel
example : (afaRead (afaCfg none) (splitLines [12])).1 matches .eformat _ := by decide +kernel     -- "\f": DESIGN §7 item 5, fixed behaviour
example : (afaRead (afaCfg none) (splitLines [])).1 matches .eof := by decide +kernel
example : afaCfg (some abcAmino) ∈ afaConfigs := by simp [afaConfigs]

end EaselModel.Props.C01
