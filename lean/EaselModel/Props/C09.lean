import EaselModel.Random.Lemmas
import EaselModel.Random.Choose
/-! # C09 — property theorems (statements + glue only; lemmas live in Random/*.lean)

Every theorem quantifies over all seeds / all stream positions / all states; none is bounded. -/
namespace EaselModel.Props.C09
open EaselModel.MTP EaselModel.Random

/-- MT19937: after `esl_randomness_Create(seed)` the `k` first outputs are the tempered words `624, 625, …` of the
    reference recurrence `x(k+624) = x(k+397) ⊕ twist(upper x(k) | lower x(k+1))`, `x(0)=seed`, `x(z+1)=69069·x(z)`,
    across any number of table refills. -/
theorem mt19937_stream (seed : UInt32) (k : Nat) :
    ((Rng.create .mersenne seed).draws k).1 = (List.range k).map (fun i => temper32 (ref P32 seed (624 + i))) := by
  rw [Rng.draws_mersenne _ rfl]
  exact stream_eq_spec P32 seed k

/-- MT19937-64 with the reference seeding routine `x(z) = 6364136223846793005·(x(z-1) ⊕ x(z-1)≫62) + z`. -/
theorem mt19937_64_stream (seed : UInt64) (k : Nat) :
    ((Rng64.create seed).draws k).1 = (List.range k).map (fun i => temper64 (ref P64 seed (312 + i))) := by
  rw [Rng64.draws_eq]
  exact stream_eq_spec P64 seed k

/-- the legacy fast generator is the a=69069, c=1 linear congruential sequence -/
theorem fast_stream (seed : UInt32) (k : Nat) :
    ((Rng.create .fast seed).draws k).1 =
      (List.range k).map (fun i => lcg (Rng.create .fast seed).x (i+1)) :=
  Rng.draws_fast _ rfl k

/-- re-initialising any generator (whatever its history) with a seed replays the stream of a fresh generator -/
theorem reinit_replays (r : Rng) (seed : UInt32) (k : Nat) :
    ((r.initWith seed).draws k).1 = ((Rng.create r.kind seed).draws k).1 := by
  cases hk : r.kind with
  | mersenne =>
    rw [Rng.draws_mersenne _ (by simp [Rng.initWith, hk]), Rng.draws_mersenne _ (by simp [Rng.create, Rng.initWith])]
    simp [Rng.initWith, Rng.create, hk]
  | fast =>
    rw [Rng.draws_fast _ (by simp [Rng.initWith, hk]), Rng.draws_fast _ (by simp [Rng.create, Rng.initWith])]
    simp [Rng.initWith, Rng.create, hk]

theorem reinit_reports_seed (r : Rng) (seed : UInt32) : (r.initWith seed).seed = seed := by
  unfold Rng.initWith; split <;> rfl

/-- seed 0 selects a non-zero seed, whatever the clock and pid are -/
theorem seed0_nonzero32 (env : UInt32 × UInt32 × UInt32) : effSeed32 0 env ≠ 0 := by
  simp only [effSeed32, arbitrarySeed32, ↓reduceIte]
  split <;> simp_all

theorem seed0_nonzero64 (env : UInt32 × UInt32 × UInt32) : effSeed64 0 env ≠ 0 := by
  simp only [effSeed64, arbitrarySeed64, ↓reduceIte]
  split <;> simp_all

theorem nonzero_seed_kept (seed : UInt32) (h : seed ≠ 0) (env) : effSeed32 seed env = seed := by
  simp [effSeed32, h]

/-- a roll of `n` lies in `0..n-1` -/
theorem roll_lt (r : Rng) (n fuel v : Nat) (r' : Rng) (h : r.roll n fuel = some (v, r')) : v < n := by
  induction fuel generalizing r with
  | zero => simp [Rng.roll] at h
  | succ fuel ih =>
    simp only [Rng.roll] at h
    split at h
    · rename_i v' hv; cases h; exact rollWord_lt _ _ _ hv
    · exact ih _ h

/-- unbiased rejection mapping (32 bit): for `0 < n < 2^32` and every `v < n`, the raw words mapped to `v` are exactly
    the interval `[v·f, (v+1)·f)`, `f = ⌊(2^32−1)/n⌋` — the same number `f` of words for every `v` — and every such
    interval lies inside the 32-bit range; all other words are rejected. -/
theorem roll_unbiased32 (n : Nat) (hn : 0 < n) (hn' : n < 2^32) (v : Nat) (hv : v < n) (x : Nat) :
    (rollWord n x = some v ↔ v * ((2^32-1)/n) ≤ x ∧ x < (v+1) * ((2^32-1)/n)) ∧ (v+1) * ((2^32-1)/n) ≤ 2^32-1 :=
  ⟨roll_preimage_gen (2^32-1) n hn (by omega) v hv x, roll_intervals_fit _ n hn v hv⟩

theorem roll_unbiased64 (n : Nat) (hn : 0 < n) (hn' : n < 2^64) (v : Nat) (hv : v < n) (x : Nat) :
    (rollWord64 n x = some v ↔ v * ((2^64-1)/n) ≤ x ∧ x < (v+1) * ((2^64-1)/n)) ∧ (v+1) * ((2^64-1)/n) ≤ 2^64-1 :=
  ⟨roll_preimage_gen (2^64-1) n hn (by omega) v hv x, roll_intervals_fit _ n hn v hv⟩

/-- `esl_random` = x/2^32 ∈ [0,1) -/
theorem random_unit (r : Rng) : (r.randomNum).1 < 2^32 := by
  simp only [Rng.randomNum]; exact UInt32.toNat_lt _

/-- `esl_rand64_double` = k/2^53 with k < 2^53 ([0,1)); `_closed` = k/(2^53−1) with k ≤ 2^53−1 ([0,1]);
    `_open` = (2k'+1)/2^53 with 0 < 2k'+1 < 2^53 ((0,1)) -/
theorem rand64_double_ranges (x : UInt64) :
    dblNum x < 2^53 ∧ dblNum x ≤ 2^53 - 1 ∧ 0 < dblOpenNum x ∧ dblOpenNum x < 2^53 := by
  have h1 : (x >>> 11).toNat < 2^53 := by
    rw [UInt64.toNat_shiftRight]
    have := UInt64.toNat_lt x
    simp only [UInt64.reduceToNat, Nat.reduceMod, Nat.shiftRight_eq_div_pow]
    omega
  have h2 : (x >>> 12).toNat < 2^52 := by
    rw [UInt64.toNat_shiftRight]
    have := UInt64.toNat_lt x
    simp only [UInt64.reduceToNat, Nat.reduceMod, Nat.shiftRight_eq_div_pow]
    omega
  simp only [dblNum, dblOpenNum]
  omega

/-- a deal of `m` from `n` (exact-arithmetic acceptance test) is exactly `m` strictly increasing values in `0..n-1`,
    for every generator state, i.e. every seed and history -/
theorem deal_spec (r : Rng) (m n : Nat) (h : m ≤ n) :
    let out := (r.deal m n).1
    out.length = m ∧ (∀ a ∈ out, a < n) ∧ out.Pairwise (· < ·) :=
  dealLoop_spec n m (n+1) 0 0 r [] (by omega) (by omega) (by omega) (by omega) rfl (by simp) List.Pairwise.nil

/-- a categorical choice returns an index of non-zero probability — for any floating type in which `x + 0 = x`
    and for any roll that is not below `0/norm` (true of `esl_random ∈ [0,1)`); the loop mirrors `esl_rnd_DChoose` -/
theorem dchoose_nonzero {F : Type} [FOps F] (hadd : ∀ x : F, FOps.add x FOps.zero = x) (roll : F) (p : List F)
    (hroll : FOps.lt roll (FOps.div FOps.zero (p.foldl FOps.add FOps.zero)) = false)
    (r : Nat) (h : dchoose roll p = some r) : ∃ q, p[r]? = some q ∧ q ≠ FOps.zero := by
  obtain ⟨_, q, hq, hne⟩ := chooseGo_nonzero hadd roll _ p FOps.zero 0 hroll r h
  exact ⟨q, by simpa using hq, hne⟩

/-! non-vacuity -/
example : (0 : Nat) < 6 ∧ 6 < 2^32 ∧ 3 < 6 := by decide
example : rollWord 6 2147483648 = some 3 := by decide

end EaselModel.Props.C09
