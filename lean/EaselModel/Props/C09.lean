import EaselModel.Random.Lemmas
import EaselModel.Random.Choose
import EaselModel.Random.Deal64Fuel
import EaselModel.Random.Deal64Real
import EaselModel.Random.Deal64AbsField
import EaselModel.Random.GaussThm
import EaselModel.Random.SamplersLen
import EaselModel.Random.Replay
import EaselModel.Random.Dump
import EaselModel.Generated.RandTables
import EaselModel.Random.Consts
import EaselModel.Random.UniPosTerm
import EaselModel.Random.LcgTerm
import EaselModel.Random.RollSpec
import EaselModel.Random.SamplersTerm
import EaselModel.Random.Deal64Small
import EaselModel.Random.Deal64Int64
/-! # C09 — property theorems (statements + glue only; lemmas live in Random/*.lean)

Every theorem quantifies over all seeds / all stream positions / all states; none is bounded. -/
namespace EaselModel.Props.C09
open EaselModel.MTP EaselModel.Random

/-- MT19937: after `esl_randomness_Create(seed)` the `k` first outputs are the tempered words `624, 625, …` of the
    reference recurrence `x(k+624) = x(k+397) ⊕ twist(upper x(k) | lower x(k+1))`, `x(0)=seed`, `x(z+1)=69069·x(z)`,
    across any number of table refills. -/
theorem mt19937_stream (seed : UInt32) (k : Nat) :
    ((Rng.create .mersenne seed).draws k).1 = (List.range k).map (fun i => temper32 (ref P32 seed (624 + i))) := by
  rw [Rng.draws_mersenne _ rfl]
  exact stream_eq_spec P32 seed k

/-- MT19937-64 with the reference seeding routine `x(z) = 6364136223846793005·(x(z-1) ⊕ x(z-1)≫62) + z`. -/
theorem mt19937_64_stream (seed : UInt64) (k : Nat) :
    ((Rng64.create seed).draws k).1 = (List.range k).map (fun i => temper64 (ref P64 seed (312 + i))) := by
  rw [Rng64.draws_eq]
  exact stream_eq_spec P64 seed k

/-- the legacy fast generator is the a=69069, c=1 linear congruential sequence -/
theorem fast_stream (seed : UInt32) (k : Nat) :
    ((Rng.create .fast seed).draws k).1 =
      (List.range k).map (fun i => lcg (Rng.create .fast seed).x (i+1)) :=
  Rng.draws_fast _ rfl k

/-- re-initialising any generator (whatever its history) with a seed replays the stream of a fresh generator -/
theorem reinit_replays (r : Rng) (seed : UInt32) (k : Nat) :
    ((r.initWith seed).draws k).1 = ((Rng.create r.kind seed).draws k).1 := by
  cases hk : r.kind with
  | mersenne =>
    rw [Rng.draws_mersenne _ (by simp [Rng.initWith, hk]), Rng.draws_mersenne _ (by simp [Rng.create, Rng.initWith])]
    simp [Rng.initWith, Rng.create, hk]
  | fast =>
    rw [Rng.draws_fast _ (by simp [Rng.initWith, hk]), Rng.draws_fast _ (by simp [Rng.create, Rng.initWith])]
    simp [Rng.initWith, Rng.create, hk]

theorem reinit_reports_seed (r : Rng) (seed : UInt32) : (r.initWith seed).seed = seed := by
  unfold Rng.initWith; split <;> rfl

/-- seed 0 selects a non-zero seed, whatever the clock and pid are -/
theorem seed0_nonzero32 (env : UInt32 × UInt32 × UInt32) : effSeed32 0 env ≠ 0 := by
  simp only [effSeed32, arbitrarySeed32, ↓reduceIte]
  split <;> simp_all

theorem seed0_nonzero64 (env : UInt32 × UInt32 × UInt32) : effSeed64 0 env ≠ 0 := by
  simp only [effSeed64, arbitrarySeed64, ↓reduceIte]
  split <;> simp_all

/-! the replacement `seed == 0 ? 42` is live (a clock/pid combination whose mix is 0), and so is the LCG's `x == 0 ? 42` -/
example : mix3 1901478223 4242 1234 = 0 ∧ arbitrarySeed32 1901478223 4242 1234 = 42 := by decide
example : mix3 1240482182 87654321 12345678 = 0 ∧ (Rng.create .fast 1240482182).x = 42 := by decide

theorem nonzero_seed_kept (seed : UInt32) (h : seed ≠ 0) (env) : effSeed32 seed env = seed := by
  simp [effSeed32, h]

/-- a roll of `n` lies in `0..n-1` -/
theorem roll_lt (r : Rng) (n fuel v : Nat) (r' : Rng) (h : r.roll n fuel = some (v, r')) : v < n := by
  induction fuel generalizing r with
  | zero => simp [Rng.roll] at h
  | succ fuel ih =>
    simp only [Rng.roll] at h
    split at h
    · rename_i v' hv; cases h; exact rollWord_lt _ _ _ hv
    · exact ih _ h

/-- unbiased rejection mapping (32 bit): for `0 < n < 2^32` and every `v < n`, the raw words mapped to `v` are exactly
    the interval `[v·f, (v+1)·f)`, `f = ⌊(2^32−1)/n⌋` — the same number `f` of words for every `v` — and every such
    interval lies inside the 32-bit range; all other words are rejected. -/
theorem roll_unbiased32 (n : Nat) (hn : 0 < n) (hn' : n < 2^32) (v : Nat) (hv : v < n) (x : Nat) :
    (rollWord n x = some v ↔ v * ((2^32-1)/n) ≤ x ∧ x < (v+1) * ((2^32-1)/n)) ∧ (v+1) * ((2^32-1)/n) ≤ 2^32-1 :=
  ⟨roll_preimage_gen (2^32-1) n hn (by omega) v hv x, roll_intervals_fit _ n hn v hv⟩

theorem roll_unbiased64 (n : Nat) (hn : 0 < n) (hn' : n < 2^64) (v : Nat) (hv : v < n) (x : Nat) :
    (rollWord64 n x = some v ↔ v * ((2^64-1)/n) ≤ x ∧ x < (v+1) * ((2^64-1)/n)) ∧ (v+1) * ((2^64-1)/n) ≤ 2^64-1 :=
  ⟨roll_preimage_gen (2^64-1) n hn (by omega) v hv x, roll_intervals_fit _ n hn v hv⟩

/-- `esl_random` = x/2^32 ∈ [0,1) -/
theorem random_unit (r : Rng) : (r.randomNum).1 < 2^32 := by
  simp only [Rng.randomNum]; exact UInt32.toNat_lt _

/-- `esl_rand64_double` = k/2^53 with k < 2^53 ([0,1)); `_closed` = k/(2^53−1) with k ≤ 2^53−1 ([0,1]);
    `_open` = (2k'+1)/2^53 with 0 < 2k'+1 < 2^53 ((0,1)) -/
theorem rand64_double_ranges (x : UInt64) :
    dblNum x < 2^53 ∧ dblNum x ≤ 2^53 - 1 ∧ 0 < dblOpenNum x ∧ dblOpenNum x < 2^53 := by
  have h1 : (x >>> 11).toNat < 2^53 := by
    rw [UInt64.toNat_shiftRight]
    have := UInt64.toNat_lt x
    simp only [UInt64.reduceToNat, Nat.reduceMod, Nat.shiftRight_eq_div_pow]
    omega
  have h2 : (x >>> 12).toNat < 2^52 := by
    rw [UInt64.toNat_shiftRight]
    have := UInt64.toNat_lt x
    simp only [UInt64.reduceToNat, Nat.reduceMod, Nat.shiftRight_eq_div_pow]
    omega
  simp only [dblNum, dblOpenNum]
  omega

/-- `esl_rand64_int64` = `x >> 1` ∈ `0..2^63-1` (a non-negative `int64_t`) for every raw word -/
theorem rand64_int64_range (x : UInt64) : (x >>> 1).toNat < 2 ^ 63 := by
  rw [UInt64.toNat_shiftRight]
  have := UInt64.toNat_lt x
  simp only [UInt64.reduceToNat, Nat.reduceMod, Nat.shiftRight_eq_div_pow]
  omega

/-- a deal of `m` from `n` (exact-arithmetic acceptance test) is exactly `m` strictly increasing values in `0..n-1`,
    for every generator state, i.e. every seed and history -/
theorem deal_spec (r : Rng) (m n : Nat) (h : m ≤ n) :
    let out := (r.deal m n).1
    out.length = m ∧ (∀ a ∈ out, a < n) ∧ out.Pairwise (· < ·) :=
  dealLoop_spec n m (n+1) 0 0 r [] (by omega) (by omega) (by omega) (by omega) rfl (by simp) List.Pairwise.nil

/-- the same for the loop as C computes it — the test `(double)(n-j) * esl_random() < (double)(m-i)` evaluated with the carrier's own
    `mul` and `<` (binary64 in the driver; the exact-arithmetic test above agrees with it only while `(n-j)·x < 2^53`) — over an
    abstract floating-point carrier, assuming the single fact `DealFact`: `(double) a * esl_random() < (double) a` for `1 ≤ a ≤ B` -/
theorem deal_spec_abstract {F : Type} [VOps F] {B : Nat} (hf : DealFact F B) {σ : Type} (next : σ → UInt32 × σ)
    (m n : Nat) (h : m ≤ n) (hnB : n ≤ B) (s : σ) :
    let out := (dealF (F := F) next m n s).1
    out.length = m ∧ (∀ a ∈ out, a < n) ∧ out.Pairwise (· < ·) := dealF_spec hf next m n h hnB s

example (B : ℕ) : DealFact ℝ B := fieldDealFact B

/-- instantiated at the executable model (`Float`) on the 32-bit generator (either kind, any state): `esl_rnd_Deal(m, n)` for
    `m ≤ n ≤ 2^31` is `m` strictly increasing values in `0..n-1`, given only `DealFact Float (2^31)` (evaluated on binary64 each run) -/
theorem deal_spec_binary64 (hf : DealFact Float (2^31)) (r : Rng) (m n : Nat) (h : m ≤ n) (hn : n ≤ 2^31) :
    let out := (dealF (F := Float) Rng.next m n r).1
    out.length = m ∧ (∀ a ∈ out, a < n) ∧ out.Pairwise (· < ·) := deal_spec_abstract hf Rng.next m n h hn r

/-- a categorical choice returns an index of non-zero probability — for any floating type in which `x + 0 = x`
    and for any roll that is not below `0/norm` (true of `esl_random ∈ [0,1)`); the loop mirrors `esl_rnd_DChoose` -/
theorem dchoose_nonzero {F : Type} [FOps F] (hadd : ∀ x : F, FOps.add x FOps.zero = x) (roll : F) (p : List F)
    (hroll : FOps.lt roll (FOps.div FOps.zero (p.foldl FOps.add FOps.zero)) = false)
    (r : Nat) (h : dchoose roll p = some r) : ∃ q, p[r]? = some q ∧ q ≠ FOps.zero := by
  obtain ⟨_, q, hq, hne⟩ := chooseGo_nonzero hadd roll _ p FOps.zero 0 hroll r h
  exact ⟨q, by simpa using hq, hne⟩

/-- `esl_rnd_DChoose` / `FChoose` never reach `esl_fatal("unreached code was reached")`: the loop's final running sum is bit for
    bit `norm`, so the last test is `roll < norm/norm`; when that holds an index is returned — any floating type, no law assumed -/
theorem dchoose_never_fatal {F : Type} [FOps F] (roll : F) (p : List F) (hp : p ≠ [])
    (h1 : FOps.lt roll (FOps.div (p.foldl FOps.add FOps.zero) (p.foldl FOps.add FOps.zero)) = true) :
    ∃ r, dchoose roll p = some r := dchoose_returns roll p hp h1

/-- `esl_rnd_DChooseCDF` / `FChooseCDF` (`last = cdf[N-1]`): the returned index has non-zero probability mass — `cdf[r]` differs
    from `cdf[r-1]` (from 0 when `r = 0`) — and `esl_fatal` is never reached when `roll < cdf[N-1]/cdf[N-1]`; any floating type -/
theorem dchoosecdf_nonzero {F : Type} [FOps F] (roll last : F) (cdf : List F)
    (hroll : FOps.lt roll (FOps.div FOps.zero last) = false) (r : Nat) (h : dchooseCDFgo roll last cdf 0 = some r) :
    ∃ c, cdf[r]? = some c ∧ (r = 0 → c ≠ FOps.zero) ∧ (∀ c', 0 < r → cdf[r - 1]? = some c' → c ≠ c') :=
  dchooseCDF_nonzero roll last cdf hroll r h

theorem dchoosecdf_never_fatal {F : Type} [FOps F] (roll last : F) (cdf : List F) (hl : cdf.getLast? = some last)
    (h1 : FOps.lt roll (FOps.div last last) = true) : ∃ r, dchooseCDFgo roll last cdf 0 = some r :=
  dchooseCDF_returns roll last cdf 0 hl h1

/-! non-vacuity -/
example : (0 : Nat) < 6 ∧ 6 < 2^32 ∧ 3 < 6 := by decide
example : rollWord 6 2147483648 = some 3 := by decide

/-! ## `esl_rand64_Deal` (Vitter's method D) and `vitter_a` (method A)

For every `1 ≤ m ≤ n` and every generator state the deal is exactly `m` strictly increasing values in `[0,n)`.
Proved over ANY ordered field with floor, for ARBITRARY `exp`/`log` oracles satisfying only `0 ≤ exp x`,
`x ≤ 0 → exp x ≤ 1`, `0 ≤ u ≤ 1 → log u ≤ 0`, for any source of raw 64-bit words (any generator state), any fuel.
Everything else the proof uses is a test the code performs (`S < qu1`, `Vprime <= 1.`, `quot > U`, and the clamp
`if (S >= n) S = n-1` of fix ba43348 — proving this theorem exposed that without the clamp an accepted `Vprime == 1.0` makes
the last dealt value `n`; binary64 witness m=2, n=27 kept as regression case `deal64-vprime-one`). -/
theorem rand64_deal_spec {F : Type} [Field F] [LinearOrder F] [IsStrictOrderedRing F] [FloorRing F] [Oracles F]
    (ok : OracleOK F) {σ : Type} (next : σ → UInt64 × σ) (fuel : ℕ) (m n : ℤ) (hm : 1 ≤ m) (hmn : m ≤ n)
    (s : σ) (out : List ℤ) (v : Option F) (s' : σ) (h : deal64Core next fuel m n s = some (out, v, s')) :
    DealOK out m (n - 1) ∧ (∀ x, v = some x → 0 ≤ x ∧ x ≤ 1) :=
  deal64Core_spec ok next fuel m n hm hmn s out v s' h

/-- the same over `ℝ` with the real `exp` and `log`, on the MT19937-64 generator: for every generator state -/
theorem rand64_deal_spec_real (r : Rng64) (fuel : ℕ) (m n : ℤ) (hm : 1 ≤ m) (hmn : m ≤ n)
    (out : List ℤ) (v : Option ℝ) (r' : Rng64) (h : deal64Core (F := ℝ) Rng64.next fuel m n r = some (out, v, r')) :
    DealOK out m (n - 1) :=
  (deal64Core_spec realOracleOK Rng64.next fuel m n hm hmn r out v r' h).1

/-- the clamp is live: whenever the oracle returns exactly 1 for the first `exp(minv·log u)`, `floor(n·Vprime) = n` and a deal
    of 1 from `n` is `n-1` (without the clamp it was the out-of-range `n`) -/
theorem rand64_deal_vprime_one_clamped {F : Type} [Field F] [LinearOrder F] [IsStrictOrderedRing F] [FloorRing F]
    [Oracles F] {σ : Type} (next : σ → UInt64 × σ) (fuel : ℕ) (n : ℤ) (s : σ)
    (h1 : Oracles.exp ((1 / ((1 : ℤ) : F)) * Oracles.log (VOps.dbl (next s).1 : F)) = 1) :
    ⌊(n : F) * 1⌋ = n ∧ deal64Core (F := F) next fuel 1 n s = some ([n - 1], some 1, (next s).2) :=
  deal64Core_one_vprime_one next fuel n s h1

/-- termination with fuel: an answer obtained with some fuel is the answer for every larger fuel (each rejection loop
    returns its first accepted draw); for every numeric vocabulary, in particular binary64 -/
theorem rand64_deal_first_accepted {σ F : Type} [VOps F] (next : σ → UInt64 × σ) (f f' : Nat) (hf : f ≤ f') (m n : Int)
    (s : σ) (r : List Int × Option F × σ) (h : deal64Core next f m n s = some r) : deal64Core next f' m n s = some r :=
  deal64Core_mono next f f' hf m n s r h

/-! non-vacuity: oracles satisfying the three facts exist over `ℚ`-like fields (`exp ≡ 1`, `log ≡ 0`), they also satisfy the
    hypothesis of the counter-example; and `ℝ` with the real functions satisfies the three facts (`realOracleOK`). -/
example : @OracleOK ℚ _ _ _ _ ⟨fun _ => 1, fun _ => 0⟩ :=
  @OracleOK.mk ℚ _ _ _ _ ⟨fun _ => 1, fun _ => 0⟩ (fun _ => zero_le_one) (fun _ _ => le_refl _) (fun _ _ _ => le_refl _)
example : OracleOK ℝ := realOracleOK

/-! ### The same over an ABSTRACT floating-point carrier (no field law assumed)

`F` is any type, `add sub mul div neg exp log floor round < <=` are arbitrary functions on it.  `FloatFacts F B`
(`Random/Deal64Abs.lean`) lists what is assumed of them: sign/monotonicity facts of single rounded operations, exactness of
integers of magnitude `≤ B`, the sign facts of `exp`/`log`, NaN propagation through `*` — each valid for IEEE binary64 with
`B = 2^53` for all operands including `±0`, `±inf`, NaN — and NO real-number identity (`(-X)/n + 1 = Vprime`, associativity, …).
Everything else is a test the code performs (`S < qu1`, `Vprime <= 1.`, `quot > U`, `if (S >= n) S = n-1`). -/
theorem rand64_deal_spec_abstract {F : Type} [VOps F] {B : Int} (ff : FloatFacts F B) {σ : Type} (next : σ → UInt64 × σ)
    (fuel : Nat) (m n : Int) (hm : 1 ≤ m) (hmn : m ≤ n) (hnB : n ≤ B) (s : σ) (out : List Int) (v : Option F) (s' : σ)
    (h : deal64Core next fuel m n s = some (out, v, s')) :
    (out.length : Int) = m ∧ out.Pairwise (· < ·) ∧ ∀ a ∈ out, 0 ≤ a ∧ a < n := by
  obtain ⟨h1, h2, h3⟩ := deal64Core_abs ff next fuel m n hm hmn hnB s out v s' h
  exact ⟨h1, h2, fun a ha => ⟨(h3 a ha).1, by have := (h3 a ha).2; omega⟩⟩

/-- `vitter_a` (method A) terminates for EVERY generator state — no probability involved: each skip loop runs at most `n - m`
    times, because the integer-valued double `top` reaches exactly 0 and then `quot ≤ 0 < U`; fuel `n - m + 1` always suffices.
    (Method D's two rejection loops are genuinely probabilistic: they keep their fuel, see `rand64_deal_first_accepted`.) -/
theorem vitter_a_terminates {F : Type} [VOps F] {B : Int} (ff : FloatFacts F B) {σ : Type} (next : σ → UInt64 × σ)
    (fuel : Nat) (m n j : Int) (acc : List Int) (s : σ) (hm : 1 ≤ m) (hmn : m ≤ n) (hnB : n ≤ B) (hfuel : n - m < fuel) :
    (vitterA (F := F) next fuel m n j acc s).isSome :=
  vaLoop_terminates ff next fuel m.toNat m j n _ _ acc s hm hmn hnB rfl rfl (by omega) hfuel

/-- `esl_rand64_Deal(m, n)` with `n ≤ 13·m` terminates for EVERY generator state: the method-D loop is not entered (`n > threshold`
    fails at once), the sample comes from `vitter_a` (method A) or, for `m = 1`, from the final `floor(n·Vprime)` step; fuel `n-m+1`
    suffices.  (For `n > 13·m` method D's floating-point rejection loops keep their fuel.) -/
theorem rand64_deal_small_terminates {F : Type} [VOps F] {B : Int} (ff : FloatFacts F B) {σ : Type} (next : σ → UInt64 × σ)
    (fuel : Nat) (m n : Int) (hm : 1 ≤ m) (hmn : m ≤ n) (hsmall : n ≤ 13 * m) (hnB : n ≤ B) (hfuel : n - m < fuel) (s : σ) :
    (deal64Core (F := F) next fuel m n s).isSome :=
  deal64Core_small_terminates ff next fuel m n hm hmn hsmall hnB hfuel s

example : (1 : Int) ≤ 5 ∧ (5 : Int) ≤ 52 ∧ (52 : Int) ≤ 13 * 5 ∧ (52 : Int) ≤ 2 ^ 53 := by decide

/-- the `int64_t` skeleton of `esl_rand64_Deal` (kept in `Int` by the model) never leaves the `int64_t` range: for `1 ≤ m ≤ n ≤ 2^53`
    every value `m, n, j, qu1, threshold` take in any pass of the method-D loop, and every dealt value, is below `2^57` in magnitude
    (`threshold = 13·m'`, `1 ≤ m' ≤ n' ≤ n`, `1 ≤ qu1 ≤ n`, `-1 ≤ j < n`), so every sum or difference of two of them that the C code
    forms stays inside `int64_t`: no wrap-around is reachable and the `Int` model computes what the `int64_t` code computes -/
theorem rand64_deal_int64_in_range {F : Type} [VOps F] (ff : FloatFacts F (2 ^ 53)) {σ : Type} (next : σ → UInt64 × σ) (fuel k : Nat)
    (m n : Int) (hm : 1 ≤ m) (hmn : m ≤ n) (hnB : n ≤ 2 ^ 53) (w : UInt64) (s : σ) (st : D64St F) (s' : σ)
    (h : d64Main next fuel k (d64Init m n w) s = some (st, s')) :
    (∀ x ∈ [st.m, st.n, st.j, st.qu1, st.threshold], -(2 : Int) ^ 57 < x ∧ x < 2 ^ 57) ∧ (∀ a ∈ st.acc, 0 ≤ a ∧ a < n) ∧
    st.threshold = 13 * st.m ∧ st.qu1 ≤ st.n := by
  obtain ⟨h1, h2, h3, h4, h5, h6, h7, h8, h9, h10⟩ := d64_state_in_range ff next fuel k m n hm hmn hnB w s st s' h
  have hth := d64Main_threshold next fuel k _ s st s' (by rfl) h
  have hq := (d64Main_abs ff next fuel m n hnB k _ s (d64Init_inv ff m n hm hmn hnB w) st s' h).qu1_eq
  refine ⟨?_, h10, hth, by omega⟩
  intro x hx
  simp only [List.mem_cons, List.not_mem_nil, or_false] at hx
  rcases hx with rfl | rfl | rfl | rfl | rfl <;> omega

/-- and every skip accepted by the method-D loop is `0 ≤ S < qu1 ≤ n` (so `n - S - 1`, `qu1 - S`, `j + S + 1`, `-S` are in range too) -/
theorem rand64_deal_skip_in_range {F : Type} [VOps F] {B : Int} (ff : FloatFacts F B) {σ : Type} (next : σ → UInt64 × σ) (fuel : Nat)
    (m0 n0 : Int) (hn0 : n0 ≤ B) (st : D64St F) (hinv : StInvA B m0 n0 st) (hm2 : 2 ≤ st.m) (s : σ) (S : Int) (V1 : F) (s1 : σ)
    (hacc : d64Accept next st.ctx st.V s fuel = some (S, V1, s1)) : 0 ≤ S ∧ S < st.qu1 ∧ st.qu1 ≤ n0 :=
  d64_skip_in_range ff next fuel m0 n0 hn0 st hinv hm2 s S V1 s1 hacc

/-- non-vacuity of `StInvA`: the initial state of every call with `1 ≤ m ≤ n ≤ B` satisfies it (here over `ℝ`) -/
example (w : UInt64) : StInvA (2 ^ 53) 5 100 (d64Init 5 100 w : D64St ℝ) :=
  d64Init_inv (realFloatFacts _) 5 100 (by decide) (by decide) (by decide) w

/-- instantiated at the EXECUTABLE model the driver runs against the C code (`Float` = binary64, libm `exp`/`log`): whatever
    `esl_rand64_Deal`'s model returns for `1 ≤ m ≤ n ≤ 2^53` on the MT19937-64 generator in any state is `m` strictly increasing
    values in `[0,n)` — the only thing not proved in Lean is `FloatFacts Float (2^53)` itself (`Float` is opaque to the kernel);
    that list is what the plug-in evaluates on binary64 at every run -/
theorem rand64_deal_spec_binary64 (ff : FloatFacts Float (2^53)) (r : Rng64) (fuel m n : Nat) (hm : 1 ≤ m) (hmn : m ≤ n)
    (hnB : n ≤ 2^53) (out : List Int) (r' : Rng64) (h : r.deal64 m n fuel = some (out, r')) :
    (out.length : Int) = m ∧ out.Pairwise (· < ·) ∧ ∀ a ∈ out, 0 ≤ a ∧ a < n := by
  unfold Rng64.deal64 at h
  cases hc : deal64Core (F := Float) Rng64.next fuel (m : Int) (n : Int) r with
  | none => rw [hc] at h; cases h
  | some q =>
    obtain ⟨o, v, r2⟩ := q
    rw [hc] at h
    simp only [Option.some.injEq, Prod.mk.injEq] at h
    obtain ⟨h1, _⟩ := h
    subst h1
    exact rand64_deal_spec_abstract ff Rng64.next fuel m n (by omega) (by omega) (by exact_mod_cast hnB) r o v r2 hc

/-- the code BEFORE fix ba43348 (final step without the clamp), on any carrier: when the first `Vprime` is a value `v` with
    `floor(n·v) = n` — in binary64 that is `v = 1.0`, which the acceptance test `Vprime <= 1.` lets through — the deal of 1
    from `n` is `[n]`, outside `0..n-1` -/
theorem rand64_deal_prefix_out_of_range {F : Type} [VOps F] {σ : Type} (next : σ → UInt64 × σ) (fuel : Nat) (n : Int) (s : σ)
    (h1 : VOps.floorI (VOps.mul (VOps.ofInt n) (VOps.powU (VOps.div VOps.one (VOps.ofInt 1)) (VOps.dbl (next s).1 : F))) = n) :
    deal64PreFix (F := F) next fuel 1 n s = some ([n], (next s).2) ∧ ¬ DealOKz [n] 1 (n - 1) :=
  deal64PreFix_out_of_range next fuel n s h1

/-- … and such a carrier exists among those satisfying ALL of `FloatFacts` (so the clamp is necessary for
    `rand64_deal_spec_abstract`, not implied by the other facts): `ℚ` with `exp ≡ 1`, `log ≡ 0`, any bound, any generator state -/
theorem rand64_deal_prefix_defect_carrier (B : ℤ) {σ : Type} (next : σ → UInt64 × σ) (fuel : ℕ) (n : ℤ) (s : σ) :
    letI : Oracles ℚ := constOracles
    FloatFacts ℚ B ∧ deal64PreFix (F := ℚ) next fuel 1 n s = some ([n], (next s).2) ∧ ¬ DealOKz [n] 1 (n - 1) :=
  prefix_defect_on_a_carrier B next fuel n s

/-! non-vacuity of `FloatFacts`: every ordered field with floor and sign-correct oracles, any bound; in particular `ℝ` -/
example (B : ℤ) : FloatFacts ℝ B := realFloatFacts B
example : (1 : Int) ≤ 2 ∧ (2 : Int) ≤ 27 ∧ (27 : Int) ≤ 2^53 := by decide

/-! ## The derived samplers of esl_random.c (`Random/Samplers.lean`, driven bit for bit through the `Float` instance) -/

/-- `esl_rnd_UniformPositive` (numerator model): the first non-zero draw, `0 < x < 2^32`, i.e. the double lies in (0,1) -/
theorem uniformPositive_pos (r : Rng) (fuel x : Nat) (r' : Rng) (h : r.uniformPositive fuel = some (x, r')) :
    0 < x ∧ x < 2^32 := by
  induction fuel generalizing r with
  | zero => simp [Rng.uniformPositive] at h
  | succ fuel ih =>
    simp only [Rng.uniformPositive] at h
    split at h
    · exact ih _ h
    · rename_i hne
      simp only [Option.some.injEq, Prod.mk.injEq] at h
      rw [← h.1]
      exact ⟨Nat.pos_of_ne_zero hne, random_unit r⟩

/-- the same on the real-valued model: `esl_rnd_UniformPositive ∈ (0,1)` for every source state -/
theorem uniform_positive_unit {σ : Type} (next : σ → UInt32 × σ) (s : σ) (f : ℕ) (u : ℝ) (s' : σ)
    (h : uniPos next s f = .ok (u, s')) : 0 < u ∧ u < 1 := uniPos_unit next s f u s' h

/-- `esl_rnd_Gaussian` never reads its tables `a[32] d[31] t[31] h[31]` out of bounds: for every generator state, any mean and
    standard deviation, any tables of the declared sizes, all fuels (over `ℝ`; the tail index reaches exactly 31 for the
    smallest uniform deviate 2^-32) -/
theorem gaussian_in_bounds {σ : Type} (next : σ → UInt32 × σ) (fu fuel : ℕ) (T : GaussTables ℝ) (hT : TablesOK T)
    (mean sd : ℝ) (s : σ) : gaussian next fu fuel T mean sd s ≠ .fault :=
  gaussian_no_fault next fu fuel T hT mean sd s

/-- the tables regenerated from the working tree have the declared sizes -/
theorem gauss_table_sizes : EaselModel.Generated.RandTables.gaussSizes = [32, 31, 31, 31] := by decide

/-- `esl_rnd_Gamma(a) > 0` for every `a > 0` (all four regimes), every generator state, all fuels — over `ℝ` ONLY, from the accept
    tests the loops perform (`X > 0` in `gamma_ahrens`) and `0 < U < 1` for positive uniform deviates.
    `_real_partial`: the full statement (binary64) is FALSE: for small `a`, `gamma_fraction`'s `X = pow(V, 1./a)` underflows to 0.0
    and is accepted (`q = exp(-0.) = 1 > U`): `esl_randomness_Create(42)`, `esl_rnd_Gamma(r, 0.001)` returns exactly `0.0` at the
    3rd call (≈ 30 % of all calls); regression case `gamma-underflow` (model and code agree bit for bit on it).  What holds in
    binary64 is `≥ 0`. -/
theorem gamma_positive_real_partial {σ : Type} (next : σ → UInt32 × σ) (fu fuel : ℕ) (a : ℝ) (ha : 0 < a) (s : σ) (x : ℝ) (s' : σ)
    (h : gamma next fu fuel a s = .ok (x, s')) : 0 < x := gamma_pos next fu fuel a ha s x s' h

/-- `esl_rnd_Dirichlet`: `K` components, each `> 0`, summing to 1 — in exact arithmetic over `ℝ` ONLY (before rounding).
    `_real_partial`: FALSE in binary64 for small `alpha`: when every component's Gamma deviate underflows to 0.0 (see above) the
    normalisation is `0./0.`: `esl_randomness_Create(42)`, 40 × `esl_rnd_Gamma(r, 0.001)`, then the 2nd
    `esl_rnd_Dirichlet(r, {0.001, 0.001}, 2, p)` returns `p = {NaN, NaN}`; regression case `dirichlet-underflow`.
    (Dirichlet/Gamma are not among the derived draws the property statement lists; reported to the coordinator.) -/
theorem dirichlet_simplex_real_partial {σ : Type} (next : σ → UInt32 × σ) (fu fuel : ℕ) (alpha : List ℝ) (hK : alpha ≠ [])
    (hal : ∀ a ∈ alpha, 0 < a) (s : σ) (p : List ℝ) (s' : σ) (h : dirichlet next fu fuel alpha s = .ok (p, s')) :
    p.length = alpha.length ∧ (∀ x ∈ p, 0 < x) ∧ p.sum = 1 :=
  EaselModel.Random.dirichlet_simplex next fu fuel alpha hK hal s p s' h

/-- `esl_rnd_mem` writes exactly `n` bytes -/
theorem mem_bytes {σ : Type} (next : σ → UInt32 × σ) (fu n : Nat) (s : σ) (bs : List Nat) (s' : σ)
    (h : rndMem next fu n [] s = .ok (bs, s')) : bs.length = n ∧ ∀ b ∈ bs, b < 256 := by
  have := rndMem_spec next fu n [] s bs s' (by simp) h
  simpa using this

/-- `esl_rnd_floatstring` writes between 1 and 19 characters before the NUL: it fits the documented 20-byte buffer -/
theorem floatstring_fits {σ : Type} (next : σ → UInt32 × σ) (fu : Nat) (s : σ) (cs : List Char) (s' : σ)
    (h : floatString next fu s = .ok (cs, s')) : 1 ≤ cs.length ∧ cs.length ≤ 19 := floatString_len next fu s cs s' h

/-- replay: after `esl_randomness_Init(r, seed)` on a generator of ANY history and either kind, every derived sampler returns
    exactly what it returns on a fresh generator of that seed (same value or same non-termination), and the two generators
    stay stream-equivalent — for any numeric vocabulary, in particular binary64 -/
theorem samplers_replay {F : Type} [SOps F] (r : Rng) (seed : UInt32) (fu fuel : Nat) (T : GaussTables F) (mean sd a : F)
    (alpha : List F) (n : Nat) :
    let r1 := r.initWith seed
    let r2 := Rng.create r.kind seed
    RelS Rng.SameStream (gaussian Rng.next fu fuel T mean sd r1) (gaussian Rng.next fu fuel T mean sd r2) ∧
    RelS Rng.SameStream (gamma Rng.next fu fuel a r1) (gamma Rng.next fu fuel a r2) ∧
    RelS Rng.SameStream (dirichlet Rng.next fu fuel alpha r1) (dirichlet Rng.next fu fuel alpha r2) ∧
    RelS Rng.SameStream (uniPos (F := F) Rng.next r1 fu) (uniPos Rng.next r2 fu) ∧
    RelS Rng.SameStream (rndMem Rng.next fu n [] r1) (rndMem Rng.next fu n [] r2) ∧
    RelS Rng.SameStream (floatString Rng.next fu r1) (floatString Rng.next fu r2) :=
  let h := Rng.initWith_sameStream r seed
  let b := Rng.sameStream_bisim
  ⟨gaussian_rel b fu fuel T mean sd _ _ h, gamma_rel b fu fuel a _ _ h, dirichlet_rel b fu fuel alpha _ _ h,
   uniPos_rel b fu _ _ h, rndMem_rel b fu n [] _ _ h, floatString_rel b fu _ _ h⟩

/-- the generator constants of the working tree — PROBED from the compiled `mersenne_twister`, `mersenne_fill_table`,
    `mersenne_seed_table`, `knuth`, `esl_rand64`, `mt64_fill_table`, `mt64_seed_table` on every run (`translate/rand_tables.py`:
    independent of how the source spells them; the prober also validates that the C refill / seeding / tempering ARE the MT
    recurrence with these values) — are the published MT19937 (n=624, m=397, a=0x9908B0DF, upper/lower masks, seeding
    multiplier 69069), LCG (a=69069, c=1) and MT19937-64 (n=312, m=156, a=0xB5026F5AA96619E9, masks, seeding multiplier
    6364136223846793005, shift 62) constants -/
theorem mt_constants_published :
    EaselModel.Generated.RandTables.mt32Consts = [624, 397, 0x9908B0DF, 0x80000000, 0x7FFFFFFF, 69069] ∧
    EaselModel.Generated.RandTables.lcgConsts = [69069, 1] ∧
    EaselModel.Generated.RandTables.mt64Consts =
      [312, 156, 0xB5026F5AA96619E9, 0xFFFFFFFF80000000, 0x7FFFFFFF, 6364136223846793005, 62] := by decide

/-- and the hand model is written with exactly the regenerated values: `P32/twist32/temper32`, `P64/twist64/temper64` and the
    LCG step of `Rng.next` are the MT / LCG with the probed `N, M, A`, masks, seeding constants, and the probed tempering
    (images of all 32 resp. 64 basis words) — no generator constant is taken on trust from the model source -/
theorem model_constants_regenerated :
    (P32.N = c32 0 ∧ P32.M = c32 1 ∧
     (∀ a b c, twist32 a b c = twistOf32 (UInt32.ofNat (c32 2)) (UInt32.ofNat (c32 3)) (UInt32.ofNat (c32 4)) a b c) ∧
     (∀ z x, P32.seedf z x = UInt32.ofNat (c32 5) * x) ∧
     (List.range 32).map (fun i => (temper32 ((1 : UInt32) <<< UInt32.ofNat i)).toNat) = EaselModel.Generated.RandTables.mt32TemperBasis) ∧
    (P64.N = c64 0 ∧ P64.M = c64 1 ∧
     (∀ a b c, twist64 a b c = twistOf64 (UInt64.ofNat (c64 2)) (UInt64.ofNat (c64 3)) (UInt64.ofNat (c64 4)) a b c) ∧
     (∀ z x, P64.seedf z x = UInt64.ofNat (c64 5) * (x ^^^ (x >>> UInt64.ofNat (c64 6))) + UInt64.ofNat (z + 1)) ∧
     (List.range 64).map (fun i => (temper64 ((1 : UInt64) <<< UInt64.ofNat i)).toNat) = EaselModel.Generated.RandTables.mt64TemperBasis) ∧
    (∀ r : Rng, r.kind = .fast → (r.next).1 = r.x * UInt32.ofNat (EaselModel.Generated.RandTables.lcgConsts.getD 0 0)
                                               + UInt32.ofNat (EaselModel.Generated.RandTables.lcgConsts.getD 1 0)) :=
  ⟨⟨model_uses_generated32.1, model_uses_generated32.2.1, model_uses_generated32.2.2.1, model_uses_generated32.2.2.2.1,
    model_uses_generated32.2.2.2.2.1⟩,
   ⟨model_uses_generated64.1, model_uses_generated64.2.1, model_uses_generated64.2.2.1, model_uses_generated64.2.2.2.1,
    model_uses_generated64.2.2.2.2.1⟩,
   fun r h => (model_uses_generated_lcg r h).1⟩

/-- the tempering functions of the model are XOR-linear and fix 0 — the same two facts the prober checks of the compiled C
    tempering on every run — so agreement on the 32 (64) basis words (`model_constants_regenerated`) is agreement everywhere -/
theorem temper_linear (a b : UInt32) (c d : UInt64) :
    temper32 (a ^^^ b) = temper32 a ^^^ temper32 b ∧ temper32 0 = 0 ∧
    temper64 (c ^^^ d) = temper64 c ^^^ temper64 d ∧ temper64 0 = 0 :=
  ⟨temper32_xor a b, temper32_zero, temper64_xor c d, temper64_zero⟩

/-! ## Seed 0 through Create / CreateFast / CreateTimeseeded / Init (both generators), `esl_rand64_Init`, and the Dump functions -/

/-- `esl_randomness_Create(0)`, `_CreateFast(0)`, `_CreateTimeseeded()`: whatever `time()`, `getpid()`, `clock()` answer, the
    seed reported by `GetSeed` is non-zero and the generator IS the generator created with that seed (same whole state, hence
    same stream of every derived draw); `CreateTimeseeded` is `Create(0)` -/
theorem seed0_create_replays (k : Kind) (env : Env) :
    (Rng.createEnv k 0 env).seed ≠ 0 ∧ Rng.createEnv k 0 env = Rng.create k (Rng.createEnv k 0 env).seed ∧
    Rng.createTimeseeded env = Rng.createEnv .mersenne 0 env := by
  have hs : (Rng.createEnv k 0 env).seed = effSeed32 0 env := reinit_reports_seed _ _
  exact ⟨by rw [hs]; exact seed0_nonzero32 env, by rw [hs]; rfl, rfl⟩

/-- `esl_randomness_Init(r, 0)` on a generator of any history: non-zero reported seed, stream = the stream of that seed -/
theorem seed0_init_replays (r : Rng) (env : Env) (k : Nat) :
    (r.initEnv 0 env).seed ≠ 0 ∧
    ((r.initEnv 0 env).draws k).1 = ((Rng.create r.kind (r.initEnv 0 env).seed).draws k).1 := by
  have hs : (r.initEnv 0 env).seed = effSeed32 0 env := reinit_reports_seed _ _
  exact ⟨by rw [hs]; exact seed0_nonzero32 env, by rw [hs]; exact reinit_replays r _ k⟩

/-- the 64-bit generator: `esl_rand64_Init(rng, seed)` on any history replaces the whole state by that of
    `esl_rand64_Create(seed)` (replay), seed 0 selects a non-zero seed that is reported back, non-zero seeds are kept -/
theorem rand64_init_replays (r : Rng64) (seed : UInt64) (env : Env) :
    r.initEnv seed env = Rng64.create (r.initEnv seed env).seed ∧ (r.initEnv 0 env).seed ≠ 0 ∧
    (seed ≠ 0 → (r.initEnv seed env).seed = seed) :=
  ⟨rfl, seed0_nonzero64 env, fun h => by simp [Rng64.initEnv, Rng64.initWith, Rng64.create, effSeed64, h]⟩

/-- `esl_randomness_Dump` / `esl_rand64_Dump` read only inside the state table, for every seed, either kind, after any number
    of draws — in particular with the table exactly used up (`mti == 624`, the state of fix 6211f3f) -/
theorem dump_in_bounds (kind : Kind) (seed : UInt32) (seed64 : UInt64) (k : Nat) :
    ((Rng.create kind seed).draws k).2.dump.isSome ∧ ((Rng64.create seed64).draws k).2.dump.isSome :=
  ⟨Rng.dump_isSome _ (Rng.wf_draws _ (Rng.wf_create kind seed) k), Rng64.dump_isSome _ (Rng64.wf_draws _ (Rng64.wf_create seed64) k)⟩

/-- and after a re-initialisation of any well-formed state -/
theorem dump_in_bounds_reinit (r : Rng) (seed : UInt32) (k : Nat) : ((r.initWith seed).draws k).2.dump.isSome :=
  Rng.dump_isSome _ (Rng.wf_draws _ (Rng.wf_initWith r seed) k)

/-- counter-example kept from before fix 6211f3f: the unguarded read `mt[mti]` is out of bounds after Create + 624 draws,
    for every seed -/
theorem dump_prefix_out_of_bounds (seed : UInt32) : ((Rng.create .mersenne seed).draws 624).2.dumpCurPreFix = none :=
  Rng.dumpCurPreFix_fault_reached seed

/-! non-vacuity of the sampler hypotheses -/
example : TablesOK ⟨Array.replicate 32 0, Array.replicate 31 0, Array.replicate 31 0, Array.replicate 31 0⟩ :=
  ⟨by simp, by simp, by simp, by simp⟩
example : (0:ℝ) < 0.5 ∧ ([0.5, 2] : List ℝ) ≠ [] := ⟨by norm_num, by simp⟩

/-! ## The rejection loops of `esl_rnd_Roll`, `esl_rand64_Roll`, `esl_rnd_UniformPositive` terminate for EVERY seed

Not a probability-1 statement and not a computation over seeds.  A rejected raw word of a roll has its top bit set (for every `n`);
the top bit of the tempered output is the XOR of four state bits; the refill recurrence, read bit by bit, makes every state bit
sequence a solution of ONE linear recurrence `ψ(E) s = 0` over GF(2) with `ψ(1) = 1` (the top bit of the twist constant) and
`deg ψ ≤ 19998` (`Random/LinRec.lean`) — so the top output bit cannot be 1 at 19999 consecutive positions.  For a general word
stream the loops do not terminate (they keep their fuel in the model); for these generators fuel 19999 (Mersenne Twisters),
`2^31 + 1` (LCG: `x ↦ 69069x+1` iterated `2^31` times is `x ↦ x + 2^31`), 624 / 2 (UniformPositive) always suffices. -/

/-- MT19937 / MT19937-64, every seed, every stream position `k`: one of the next 19999 outputs has its top bit clear -/
theorem mt_top_bit_clear_within (seed : UInt32) (seed64 : UInt64) (k : Nat) :
    (∃ i, i ≤ 19998 ∧ (temper32 (ref P32 seed (624 + k + i))).toNat < 2 ^ 31) ∧
    (∃ i, i ≤ 19998 ∧ (temper64 (ref P64 seed64 (312 + k + i))).toNat < 2 ^ 63) :=
  ⟨mt32_top_clear_within seed (624 + k), mt64_top_clear_within seed64 (312 + k)⟩

/-- such a word is accepted by every roll: the rejected words of `esl_rnd_Roll(n)` / `esl_rand64_Roll(n)` all have the top bit set -/
theorem roll_accepts_top_clear (n x : Nat) (hn : 0 < n) :
    (n < 2 ^ 32 → x < 2 ^ 31 → ∃ v, rollWord n x = some v) ∧ (n < 2 ^ 64 → x < 2 ^ 63 → ∃ v, rollWord64 n x = some v) :=
  ⟨fun h hx => rollWord_small n x hn h hx, fun h hx => rollWord64_small n x hn h hx⟩

/-- `esl_rnd_Roll` on the Mersenne Twister: after `esl_randomness_Init(r, seed)` on a generator of any history and ANY seed, and
    any number `k` of draws, a roll of any `0 < n < 2^32` returns (a value `< n`) within 19999 draws -/
theorem roll_terminates_mt19937 (r0 : Rng) (hk : r0.kind = .mersenne) (seed : UInt32) (k n : Nat) (hn : 0 < n) (hn' : n < 2 ^ 32)
    (fuel : Nat) (hf : 19999 ≤ fuel) : ∃ v r', ((r0.initWith seed).draws k).2.roll n fuel = some (v, r') ∧ v < n := by
  have hs := Rng.onStream_draws _ seed 0 (Rng.onStream_initWith r0 hk seed) k
  obtain ⟨v, r', h⟩ := Rng.roll_terminates_onStream _ seed _ hs n hn hn' fuel hf
  exact ⟨v, r', h, roll_lt _ n fuel v r' h⟩

/-- the same for every state on the stream of a seed, and a roll / a positive uniform leaves the generator on that stream (further
    on), so the statement covers histories that interleave draws, rolls and `UniformPositive` calls in any order -/
theorem roll_terminates_on_stream (r : Rng) (seed : UInt32) (k : Nat) (h : r.OnStream seed k) (n : Nat) (hn : 0 < n) (hn' : n < 2 ^ 32)
    (fuel : Nat) (hf : 19999 ≤ fuel) :
    ∃ v r' k', r.roll n fuel = some (v, r') ∧ v < n ∧ k < k' ∧ r'.OnStream seed k' := by
  obtain ⟨v, r', hr⟩ := Rng.roll_terminates_onStream r seed k h n hn hn' fuel hf
  obtain ⟨k', h1, _, h3⟩ := Rng.onStream_roll seed n fuel r k v r' h hr
  exact ⟨v, r', k', hr, roll_lt _ n fuel v r' hr, h1, h3⟩

/-- **`esl_rnd_Roll` as a total function of the reference stream.**  For every seed, every history `Init(seed)` + `k` draws and every
    `0 < n < 2^32` there is a FIRST accepted word among the next 19999 outputs `out32 seed k j = temper(x(624+k+j))` of the MT19937
    reference sequence; the roll returns the rejection map of exactly that word and leaves the generator exactly `i+1` draws
    further, for every fuel `≥ 19999` — "the unbiased rejection mapping of the raw integers", with no fuel caveat -/
theorem roll_is_first_accepted_word (r0 : Rng) (hk : r0.kind = .mersenne) (seed : UInt32) (k n : Nat) (hn : 0 < n) (hn' : n < 2 ^ 32) :
    ∃ i v, i ≤ 19998 ∧ (∀ j, j < i → rollWord n (out32 seed k j) = none) ∧ rollWord n (out32 seed k i) = some v ∧
      ∀ fuel, 19999 ≤ fuel →
        ((r0.initWith seed).draws k).2.roll n fuel = some (v, (((r0.initWith seed).draws k).2.draws (i + 1)).2) := by
  obtain ⟨i, v, hi, hrej, hv⟩ := first_accepted32 seed k n hn hn'
  have hs := Rng.onStream_draws _ seed 0 (Rng.onStream_initWith r0 hk seed) k
  rw [Nat.zero_add] at hs
  exact ⟨i, v, hi, hrej, hv, fun fuel hf => Rng.roll_first n seed v i _ k hs hrej hv fuel (by omega)⟩

/-- the same for `esl_rand64_Roll` on MT19937-64, every seed, every `0 < n < 2^64` -/
theorem roll64_is_first_accepted_word (seed : UInt64) (k n : Nat) (hn : 0 < n) (hn' : n < 2 ^ 64) :
    ∃ i v, i ≤ 19998 ∧ (∀ j, j < i → rollWord64 n (out64 seed k j) = none) ∧ rollWord64 n (out64 seed k i) = some v ∧
      ∀ fuel, 19999 ≤ fuel →
        ((Rng64.create seed).draws k).2.roll n fuel = some (v, (((Rng64.create seed).draws k).2.draws (i + 1)).2) := by
  obtain ⟨i, v, hi, hrej, hv⟩ := first_accepted64 seed k n hn hn'
  have hs := Rng64.onStream_draws _ seed 0 (Rng64.onStream_create seed) k
  rw [Nat.zero_add] at hs
  exact ⟨i, v, hi, hrej, hv, fun fuel hf => Rng64.roll_first n seed v i _ k hs hrej hv fuel (by omega)⟩

/-- the states the termination theorems quantify over are closed under the API: `Init(seed)` puts a Mersenne generator of any
    history on the stream of `seed` at position 0; a raw draw / `esl_random`, a deal, a roll and a positive uniform leave it on that
    stream, further on -/
theorem on_stream_closed (r : Rng) (seed : UInt32) (k : Nat) (h : r.OnStream seed k) :
    (r.next).2.OnStream seed (k + 1) ∧ (∀ m n, ∃ k', k ≤ k' ∧ (r.deal m n).2.OnStream seed k') ∧
    (∀ n fuel v r', r.roll n fuel = some (v, r') → ∃ k', k < k' ∧ r'.OnStream seed k') ∧
    (∀ fuel x r', r.uniformPositive fuel = some (x, r') → ∃ k', k < k' ∧ r'.OnStream seed k') ∧
    (∀ seed', (r.initWith seed').OnStream seed' 0) :=
  ⟨Rng.onStream_next r seed k h, fun m n => Rng.onStream_deal seed r k h m n,
   fun n fuel v r' hr => let ⟨k', a, _, c⟩ := Rng.onStream_roll seed n fuel r k v r' h hr; ⟨k', a, c⟩,
   fun fuel x r' hr => let ⟨k', a, _, c⟩ := Rng.onStream_uniformPositive seed fuel r k x r' h hr; ⟨k', a, c⟩,
   fun seed' => Rng.onStream_initWith r h.1 seed'⟩

/-- `esl_rnd_Roll` on the legacy LCG, every state: within `2^31 + 1` draws -/
theorem roll_terminates_fast (r : Rng) (hk : r.kind = .fast) (n : Nat) (hn : 0 < n) (hn' : n < 2 ^ 32) (fuel : Nat)
    (hf : 2 ^ 31 + 1 ≤ fuel) : ∃ v r', r.roll n fuel = some (v, r') ∧ v < n := by
  obtain ⟨v, r', h⟩ := Rng.roll_terminates_fast r hk n hn hn' fuel hf
  exact ⟨v, r', h, roll_lt _ n fuel v r' h⟩

/-- `esl_rand64_Roll`: after `esl_rand64_Create/Init(seed)` for ANY seed and any number of draws, within 19999 draws -/
theorem roll64_terminates (seed : UInt64) (k n : Nat) (hn : 0 < n) (hn' : n < 2 ^ 64) (fuel : Nat) (hf : 19999 ≤ fuel) :
    ∃ v r' k', ((Rng64.create seed).draws k).2.roll n fuel = some (v, r') ∧ v < n ∧ r'.OnStream seed k' := by
  have hs := Rng64.onStream_draws _ seed 0 (Rng64.onStream_create seed) k
  obtain ⟨v, r', h⟩ := Rng64.roll_terminates_onStream _ seed _ hs n hn hn' fuel hf
  obtain ⟨k', _, _, h3⟩ := Rng64.onStream_roll seed n fuel _ _ v r' hs h
  exact ⟨v, r', k', h, Rng64.roll_lt n fuel _ v r' h, h3⟩

/-- `esl_rnd_UniformPositive`: for every NON-ZERO seed (the seeds the library uses: 0 is replaced, `seed0_nonzero32`) and any
    history of draws, at most 623 zero draws are rejected (a table of 624 zero words is a fixed point of the refill but is not
    reachable from `mt[1] = 69069·seed ≠ 0`); on the LCG at most one -/
theorem uniformPositive_terminates (r0 : Rng) (seed : UInt32) (hs : seed ≠ 0) (k fuel : Nat) (hf : 624 ≤ fuel) :
    ∃ x r', ((r0.initWith seed).draws k).2.uniformPositive fuel = some (x, r') ∧ 0 < x ∧ x < 2 ^ 32 := by
  cases hk : r0.kind with
  | mersenne =>
    have hst := Rng.onStream_draws _ seed 0 (Rng.onStream_initWith r0 hk seed) k
    obtain ⟨x, r', h⟩ := Rng.uniPos_terminates_onStream _ seed hs _ hst fuel hf
    exact ⟨x, r', h, uniformPositive_pos _ fuel x r' h⟩
  | fast =>
    have hkk := Rng.draws_kind_fast _ k ((Rng.initWith_kind r0 seed).trans hk)
    obtain ⟨x, r', h⟩ := Rng.uniPos_terminates_fast _ hkk fuel (by omega)
    exact ⟨x, r', h, uniformPositive_pos _ fuel x r' h⟩

/-- `esl_rnd_UniformPositive` as a total function of the MT19937 stream of a non-zero seed: it returns the FIRST non-zero one of the next
    624 outputs (as `x/2^32 ∈ (0,1)`) and leaves the generator exactly that many draws further, for every fuel `≥ 624` -/
theorem uniformPositive_is_first_nonzero_word (r0 : Rng) (hk : r0.kind = .mersenne) (seed : UInt32) (hs : seed ≠ 0) (k : Nat) :
    ∃ i, i < 624 ∧ (∀ j, j < i → out32 seed k j = 0) ∧ out32 seed k i ≠ 0 ∧
      ∀ fuel, 624 ≤ fuel → ((r0.initWith seed).draws k).2.uniformPositive fuel
          = some (out32 seed k i, (((r0.initWith seed).draws k).2.draws (i + 1)).2) := by
  obtain ⟨i, hi, hz, hne⟩ := first_nonzero32 seed hs k
  have hst := Rng.onStream_draws _ seed 0 (Rng.onStream_initWith r0 hk seed) k
  rw [Nat.zero_add] at hst
  exact ⟨i, hi, hz, hne, fun fuel hf => Rng.uniPos_first seed i _ k hst hz hne fuel (by omega)⟩

/-- `esl_rnd_mem` and `esl_rnd_floatstring` (compositions of rolls) always return on the Mersenne Twister, for EVERY seed and history:
    with fuel `≥ 19999` the model answers `.ok` — never `nofuel`, never `fault` — with exactly `n` bytes resp. 1..19 characters -/
theorem mem_floatstring_total (r0 : Rng) (hk : r0.kind = .mersenne) (seed : UInt32) (k n fu : Nat) (hf : 19999 ≤ fu) :
    (∃ bs r', rndMem Rng.next fu n [] ((r0.initWith seed).draws k).2 = .ok (bs, r') ∧ bs.length = n ∧ ∀ b ∈ bs, b < 256) ∧
    (∃ cs r', floatString Rng.next fu ((r0.initWith seed).draws k).2 = .ok (cs, r') ∧ 1 ≤ cs.length ∧ cs.length ≤ 19) := by
  have hs := Rng.onStream_draws _ seed 0 (Rng.onStream_initWith r0 hk seed) k
  obtain ⟨bs, r1, _, h1, _⟩ := rndMem_tot seed fu hf n [] _ _ hs
  obtain ⟨cs, r2, _, h2, _⟩ := floatString_tot seed fu hf _ _ hs
  exact ⟨⟨bs, r1, h1, mem_bytes Rng.next fu n _ bs r1 h1⟩, ⟨cs, r2, h2, floatstring_fits Rng.next fu _ cs r2 h2⟩⟩

/-- `esl_rnd_UniformPositive` on any numeric carrier, `esl_rnd_Gamma(a)` when the code's own test `a == floor(a) && a < 12` selects
    `gamma_integer`, and `esl_rnd_Dirichlet` on such `alpha` (e.g. `alpha = NULL`): always return, for every NON-ZERO seed and history
    (their only loop is `UniformPositive`); the other Gamma regimes (Ahrens, fraction) and Gaussian have floating-point acceptance
    tests and keep fuel -/
theorem gamma_integer_dirichlet_total {F : Type} [SOps F] (r0 : Rng) (hk : r0.kind = .mersenne) (seed : UInt32) (hs : seed ≠ 0)
    (k fu fuel : Nat) (hf : 624 ≤ fu) (a : F) (ha : (SOps.beq a (SOps.floor a) && SOps.lt a (SOps.ofNat 12)) = true) (alpha : List F)
    (hal : ∀ b ∈ alpha, (SOps.beq b (SOps.floor b) && SOps.lt b (SOps.ofNat 12)) = true) :
    (∃ u r', uniPos (F := F) Rng.next ((r0.initWith seed).draws k).2 fu = .ok (u, r')) ∧
    (∃ x r', gamma Rng.next fu fuel a ((r0.initWith seed).draws k).2 = .ok (x, r')) ∧
    (∃ p r', dirichlet Rng.next fu fuel alpha ((r0.initWith seed).draws k).2 = .ok (p, r')) := by
  have hst := Rng.onStream_draws _ seed 0 (Rng.onStream_initWith r0 hk seed) k
  obtain ⟨u, r1, _, h1, _⟩ := uniPos_tot (F := F) seed hs _ _ hst fu hf
  obtain ⟨x, r2, _, h2, _⟩ := gamma_integer_branch_tot seed hs fu fuel hf a ha _ _ hst
  obtain ⟨p, r3, _, h3, _⟩ := dirichlet_integer_tot seed hs fu fuel hf alpha hal _ _ hst
  exact ⟨⟨u, r1, h1⟩, ⟨x, r2, h2⟩, ⟨p, r3, h3⟩⟩

/-! non-vacuity: the hypotheses are satisfiable (`n = 6`, `seed = 42`), and the bound is about a real phenomenon: the all-zero
    table IS a fixed point of the refill (it is only unreachable), so no bound can hold for an arbitrary table content -/
example : (0 : Nat) < 6 ∧ 6 < 2 ^ 32 ∧ (42 : UInt32) ≠ 0 ∧ (19999 : Nat) ≤ 1000000 := by decide
example : twist32 0 0 0 = 0 ∧ temper32 0 = 0 := by decide
example : (Rng.create .mersenne 42).OnStream 42 0 := Rng.onStream_initWith _ rfl 42
example : (Rng64.create 42).OnStream 42 0 := Rng64.onStream_create 42
/-- the `gamma_integer` test holds of `a = 1` (the `alpha = NULL` case of Dirichlet) over `ℝ` -/
example : (SOps.beq (1 : ℝ) (SOps.floor (1 : ℝ)) && SOps.lt (1 : ℝ) (SOps.ofNat 12)) = true := by
  simp [SOps.beq, SOps.floor, SOps.lt, SOps.ofNat]

end EaselModel.Props.C09
