import EaselModel.Generated.Alphabets
import EaselModel.Alphabet.RevcompLemmas
import EaselModel.Alphabet.ScoreLemmas
import EaselModel.Alphabet.CustomLemmas
import EaselModel.Alphabet.CatLemmas
import EaselModel.Alphabet.SqLemmas
import EaselModel.Alphabet.DealignLemmas
import EaselModel.Alphabet.CustomDegen
import EaselModel.Alphabet.DegenLemmas
import EaselModel.Alphabet.ScVecLemmas
import EaselModel.Alphabet.GuessLemmas
import EaselModel.Alphabet.TypeLemmas
import EaselModel.Alphabet.SqTableLemmas
import EaselModel.Alphabet.ValidateLemmas
import EaselModel.Alphabet.HistoryLemmas
import EaselModel.Alphabet.Sq2Lemmas
import EaselModel.Alphabet.IntScoreLemmas
import EaselModel.Alphabet.Round4Lemmas
import EaselModel.Alphabet.History2Lemmas
import EaselModel.Alphabet.GuessCutoffLemmas
import EaselModel.Alphabet.SqCopyLemmas
import EaselModel.Alphabet.MatchLemmas
import EaselModel.Alphabet.FetchLemmas
import EaselModel.Alphabet.GetAllocLemmas
import EaselModel.Alphabet.ObjLemmas
import EaselModel.Alphabet.CaseLemmas
import EaselModel.Alphabet.ChecksumLemmas
import EaselModel.Alphabet.CopyReuseLemmas
/-! # C08 — property theorems (statements + glue only; lemmas live in Alphabet/*.lean)

`G.dna`, `G.rna`, `G.amino`, `G.coins`, `G.dice` are the tables dumped from the code under check on this run
(`Generated/Alphabets.lean`); `Iupac.*` is the hand-written statement of the IUPAC codes. Table theorems are closed by
`decide` over the whole table. The conversion theorems hold for EVERY alphabet (standard or custom) satisfying the stated
well-formedness predicate and EVERY byte string — no bound on the length. -/
namespace EaselModel.Props.C08
open EaselModel.Alphabet EaselModel.Alphabet.Alphabet EaselModel.Alphabet.Iupac
namespace G
export EaselModel.Generated.Alphabets (dna rna amino coins dice c_SENTINEL c_ILLEGAL c_IGNORED c_EOL c_EOD
  c_eslRNA c_eslDNA c_eslAMINO c_eslCOINS c_eslDICE c_eslNONSTANDARD dna_symlen rna_symlen amino_symlen)
end G

/-! ## tables (finite quantifier ⇒ `decide` is a proof) -/

/-- the hand model of `create_dna()` … `create_dice()` (CreateCustom + SetEquiv + SetCaseInsensitive + SetDegeneracy +
    set_complementarity) reproduces every field of the dumped tables (for the two toy alphabets every field except the
    `type` tag, which no conversion reads: `create_dice()` currently tags itself eslCOINS) -/
theorem ctor_reproduces_tables :
    createDna = some G.dna ∧ createRna = some G.rna ∧ createAmino = some G.amino ∧
    createCoins.map (fun a => { a with type := 0 }) = some { G.coins with type := 0 } ∧
    createDice.map (fun a => { a with type := 0 }) = some { G.dice with type := 0 } := by decide +kernel

theorem constants_agree :
    G.c_SENTINEL = SENTINEL ∧ G.c_ILLEGAL = ILLEGAL ∧ G.c_IGNORED = IGNORED ∧ G.c_EOL = EOL ∧ G.c_EOD = EOD ∧
    G.c_eslRNA = eslRNA ∧ G.c_eslDNA = eslDNA ∧ G.c_eslAMINO = eslAMINO ∧ G.c_eslNONSTANDARD = eslNONSTANDARD ∧
    G.dna_symlen = G.dna.Kp ∧ G.rna_symlen = G.rna.Kp ∧ G.amino_symlen = G.amino.Kp := by decide

/-- symbol strings and the order convention: K canonical residues, gap at K, degeneracies, any at Kp-3, nonresidue at
    Kp-2, missing at Kp-1; canonical residues denote themselves, `any` all of them, gap/nonresidue/missing nothing -/
theorem symbol_order :
    OrderOK .dna G.dna ∧ OrderOK .rna G.rna ∧ OrderOK .amino G.amino ∧ OrderOK .coins G.coins ∧ OrderOK .dice G.dice := by
  decide +kernel

/-- every one of the 128 input characters is read as its canonical (upper-case, synonym-free) symbol, or is illegal -/
theorem inmap_canonical :
    InmapCanonical .dna G.dna ∧ InmapCanonical .rna G.rna ∧ InmapCanonical .amino G.amino ∧
    InmapCanonical .coins G.coins ∧ InmapCanonical .dice G.dice := by decide +kernel

/-- each symbol denotes exactly its documented (IUPAC) set of canonical residues -/
theorem degen_is_iupac :
    DegenIsIupac .dna G.dna ∧ DegenIsIupac .rna G.rna ∧ DegenIsIupac .amino G.amino ∧
    DegenIsIupac .coins G.coins ∧ DegenIsIupac .dice G.dice := by decide +kernel

theorem ndegen_is_card :
    NdegenIsCard .dna G.dna ∧ NdegenIsCard .rna G.rna ∧ NdegenIsCard .amino G.amino ∧
    NdegenIsCard .coins G.coins ∧ NdegenIsCard .dice G.dice := by decide +kernel

/-- the complement table is an involution on the codes (nucleic alphabets); the others have none -/
theorem complement_involutive :
    HasInvolutiveComplement G.dna ∧ HasInvolutiveComplement G.rna ∧
    G.amino.complement = none ∧ G.coins.complement = none ∧ G.dice.complement = none := by decide +kernel

/-- complementing a symbol complements its set: `y ∈ set (comp x)` iff the Watson-Crick partner of `y` is in `set x`;
    gap, nonresidue, missing and `any` are fixed -/
theorem complement_complements_set :
    ComplementComplementsSet .dna G.dna ∧ ComplementComplementsSet .rna G.rna := by decide +kernel

/-- the standard alphabets satisfy the hypotheses of the general theorems below (non-vacuity of `WF`, `WFDegen`) -/
theorem std_wf :
    (G.dna.WF ∧ G.rna.WF ∧ G.amino.WF ∧ G.coins.WF ∧ G.dice.WF) ∧
    (G.dna.WFDegen ∧ G.rna.WFDegen ∧ G.amino.WFDegen ∧ G.coins.WFDegen ∧ G.dice.WFDegen) := by decide +kernel

/-! ## conversions (every alphabet, every string) -/

/-- `esl_abc_Digitize` yields sentinel, the code of every non-ignored character in order (case/synonyms resolved by the
    input map; a character outside the alphabet — including any byte ≥ 0x80 — becomes the `any` code), sentinel; and the
    status is `eslOK` iff every character belongs to the alphabet. No hypothesis on the alphabet. -/
theorem digitize_spec (a : Alphabet) (seq : List Nat) :
    a.digitize seq =
      (if seq.all a.charOK then .ok else .einval, SENTINEL :: seq.filterMap a.code ++ [SENTINEL]) :=
  digitize_eq_spec a seq

/-- invalid input is reported exactly when some character is outside the alphabet -/
theorem digitize_status (a : Alphabet) (seq : List Nat) :
    ((a.digitize seq).1 = .einval ↔ ∃ c ∈ seq, a.charOK c = false) ∧
    ((a.digitize seq).1 = .ok ↔ ∀ c ∈ seq, a.charOK c = true) := by
  rw [digitize_eq_spec]; unfold digitizeSpec
  by_cases h : ∀ c ∈ seq, a.charOK c = true
  · have hall : seq.all a.charOK = true := List.all_eq_true.mpr h
    have hne : ¬ ∃ c ∈ seq, a.charOK c = false := fun ⟨c, hc, hf⟩ => by rw [h c hc] at hf; cases hf
    dsimp only
    rw [if_pos hall]
    exact ⟨⟨fun e => (by cases e), fun e => absurd e hne⟩, ⟨fun _ => h, fun _ => rfl⟩⟩
  · have hall : ¬ seq.all a.charOK = true := fun e => h (List.all_eq_true.mp e)
    have hex : ∃ c ∈ seq, a.charOK c = false := by simpa using h
    dsimp only
    rw [if_neg hall]
    exact ⟨⟨fun _ => hex, fun _ => rfl⟩, ⟨fun e => (by cases e), fun e => absurd e h⟩⟩

/-- the output is sentinel-delimited: every inner code is a valid code `< Kp`, hence no inner byte is a sentinel -/
theorem digitize_sentinels (a : Alphabet) (h : 3 ≤ a.Kp) (hk : a.Kp ≤ 250) (seq : List Nat) :
    (a.digitize seq).2 = mkDsq (seq.filterMap a.code) ∧
    ∀ x ∈ seq.filterMap a.code, x < a.Kp ∧ x ≠ SENTINEL := by
  rw [digitize_eq_spec]
  refine ⟨rfl, fun x hx => ?_⟩
  have := filterMap_code_lt a h seq x hx
  exact ⟨this, by unfold SENTINEL; omega⟩

/-- `esl_abc_Textize` of a digital sequence of valid codes spells each code with its symbol; no out-of-bounds read -/
theorem textize_spec (a : Alphabet) (codes : List Nat) (hc : ∀ x ∈ codes, x < a.sym.length) :
    a.textize (mkDsq codes) codes.length = some (codes.map a.symAt) :=
  textize_mkDsq a codes hc

/-- digitise ∘ textise ∘ digitise = digitise, with status `eslOK` on the second digitisation -/
theorem digitize_textize_digitize (a : Alphabet) (h : a.WF) (seq : List Nat) :
    ∃ t, a.textize (a.digitize seq).2 (seq.filterMap a.code).length = some t ∧
      a.digitize t = (.ok, (a.digitize seq).2) := by
  have hkp : 3 ≤ a.Kp := by have := h.1; omega
  have hlt := filterMap_code_lt a hkp seq
  refine ⟨(seq.filterMap a.code).map a.symAt, ?_, ?_⟩
  · rw [digitize_eq_spec]
    exact textize_mkDsq a _ (fun x hx => by rw [h.2.2.1]; exact hlt x hx)
  · rw [digitize_textized a h _ hlt, digitize_eq_spec]; rfl

/-- textising a digitised string gives the canonical upper-case spelling of every character (`N`/`X` for a character
    outside the alphabet), for the three biosequence alphabets and the two toy alphabets, for every 8-bit string -/
theorem textize_canonical_spelling (seq : List Nat) (hb : ∀ c ∈ seq, c < 256) :
    G.dna.textize (G.dna.digitize seq).2 seq.length = some (seq.map (spell .dna)) ∧
    G.rna.textize (G.rna.digitize seq).2 seq.length = some (seq.map (spell .rna)) ∧
    G.amino.textize (G.amino.digitize seq).2 seq.length = some (seq.map (spell .amino)) ∧
    G.coins.textize (G.coins.digitize seq).2 seq.length = some (seq.map (spell .coins)) ∧
    G.dice.textize (G.dice.digitize seq).2 seq.length = some (seq.map (spell .dice)) := by
  have key : ∀ (k : Kind) (a : Alphabet), SpellOK k a → 3 ≤ a.Kp → a.sym.length = a.Kp →
      a.textize (a.digitize seq).2 seq.length = some (seq.map (spell k)) := by
    intro k a hs hkp hsym
    have hmap := map_symAt_filterMap_code a (spell k) seq (fun c hc => hs c (hb c hc))
    have hlen : (seq.filterMap a.code).length = seq.length := by
      have := congrArg List.length hmap; simpa using this
    rw [digitize_eq_spec]
    have := textize_mkDsq a (seq.filterMap a.code) (fun x hx => by rw [hsym]; exact filterMap_code_lt a hkp seq x hx)
    rw [hlen, hmap] at this
    exact this
  exact ⟨key .dna G.dna (by decide +kernel) (by decide) (by decide), key .rna G.rna (by decide +kernel) (by decide) (by decide),
    key .amino G.amino (by decide +kernel) (by decide) (by decide), key .coins G.coins (by decide +kernel) (by decide) (by decide),
    key .dice G.dice (by decide +kernel) (by decide) (by decide)⟩

/-- `esl_abc_revcomp` (the in-place pairwise swap loop + odd middle element) = reverse the residues and complement each;
    sentinels untouched; no out-of-bounds read for valid codes -/
theorem revcomp_spec (a : Alphabet) (comp : List Nat) (hc : a.complement = some comp) (codes : List Nat)
    (hv : ∀ x ∈ codes, x < comp.length) :
    a.revcomp (mkDsq codes) codes.length = .ok (some (mkDsq (codes.reverse.map (compAt comp)))) := by
  rw [revcomp_eq_spec a comp hc (mkDsq codes) codes.length
    (by simp only [mkDsq, List.length_cons, List.length_append, List.length_nil]; omega) (mkDsq_valid codes _ hv),
    revcompSpec_mkDsq]

/-- reverse-complementing twice is the identity, for every digital sequence of valid codes and every alphabet whose
    complement table is an involution (also for a prefix `n ≤ L`) -/
theorem revcomp_involutive (a : Alphabet) (comp : List Nat) (hc : a.complement = some comp) (hw : a.WFComp comp)
    (codes : List Nat) (hv : ∀ x ∈ codes, x < a.Kp) (n : Nat) (hn : n ≤ codes.length) :
    ∃ d', a.revcomp (mkDsq codes) n = .ok (some d') ∧ a.revcomp d' n = .ok (some (mkDsq codes)) :=
  revcomp_twice a comp hc hw (mkDsq codes) n (by simp [mkDsq]; omega)
    (fun i h1 h2 => mkDsq_valid codes _ hv i h1 (by omega))

/-! ## appending (`esl_abc_dsqcat`, used by every sequence-file reader) and the `esl_sq` conversions -/

/-- `esl_abc_dsqcat_noalloc` with an input map whose entries are codes ≤ 127, ILLEGAL or IGNORED: keeps the old residues,
    appends the code of every non-ignored byte (`inmap[0]` for an illegal or 8-bit byte), terminates with a sentinel, returns
    `eslEINVAL` iff some byte was illegal, and never raises the eslEINCONCEIVABLE exception -/
theorem dsqcat_spec (inmap : List Nat) (h : InmapClean inmap) (codes s : List Nat) :
    dsqcatNoalloc inmap (mkDsq codes) codes.length s =
      .ok (if s.all (catOK inmap) then .ok else .einval, mkDsq (codes ++ s.filterMap (catCode inmap)),
           codes.length + (s.filterMap (catCode inmap)).length) :=
  dsqcatNoalloc_spec inmap h codes s

/-- with the input map a sequence reader derives from an alphabet (`inmap[0] := unknown`), appending a NUL-free line is
    exactly digitising it: same codes as `esl_abc_Digitize`, same status -/
theorem dsqcat_appends_digitization (a : Alphabet)
    (hclean : ∀ c, c < 128 → a.inmapAt c < a.Kp ∨ a.inmapAt c = ILLEGAL ∨ a.inmapAt c = IGNORED)
    (hKp : a.Kp ≤ 128) (hlen : a.inmap.length = 128) (codes s : List Nat) (hnul : ∀ c ∈ s, c ≠ 0) :
    dsqcatNoalloc (a.inmap.set 0 a.unknown) (mkDsq codes) codes.length s =
      .ok ((a.digitize s).1, mkDsq (codes ++ s.filterMap a.code), codes.length + (s.filterMap a.code).length) :=
  dsqcat_is_digitize a hclean hKp hlen codes s hnul

/-- the hypotheses of `dsqcat_appends_digitization` hold for the built-in alphabets -/
theorem std_inmap_clean :
    ∀ a ∈ [G.dna, G.rna, G.amino, G.coins, G.dice], a.Kp ≤ 128 ∧ a.inmap.length = 128 ∧
      ∀ c, c < 128 → a.inmapAt c < a.Kp ∨ a.inmapAt c = ILLEGAL ∨ a.inmapAt c = IGNORED := by decide +kernel

/-- the hand-written `switch` of text-mode `esl_sq_ReverseComplement` agrees, character by character, with the digital
    complement tables of the DNA and RNA alphabets -/
theorem sq_text_complement_table :
    (∀ comp ∈ G.dna.complement, Sq.TextCompOK G.dna comp) ∧ (∀ comp ∈ G.rna.complement, Sq.TextCompOK G.rna comp) := by
  decide +kernel

/-- … hence for every text sequence over characters the switch knows, reverse-complementing in text mode and digitising
    gives the digital sequence whose codes are the reversed complemented codes (= `esl_abc_revcomp`, `revcomp_spec`) -/
theorem sq_text_revcomp_agrees (a : Alphabet) (comp : List Nat) (h : Sq.TextCompOK a comp) (s : List Nat)
    (hs : ∀ c ∈ s, c < 128 ∧ (Sq.compChar c).isSome = true) :
    (Sq.revcompText s).1 = .ok ∧
    a.digitize (Sq.revcompText s).2 = (.ok, mkDsq ((s.filterMap a.code).reverse.map (compAt comp))) :=
  Sq.text_revcomp_digitize a comp h s hs

/-- `esl_abc_CDealign`: the in-place compaction of an annotation string against a digital reference leaves exactly the
    characters aligned to non-gap, non-missing reference positions (`keptOf`), and reports their number -/
theorem cdealign_spec (a : Alphabet) (s refs : List Nat) (hs : SENTINEL ∉ refs) (hl : refs.length ≤ s.length) :
    a.cDealign s (mkDsq refs) = some (keptOf a refs s, (keptOf a refs s).length) :=
  cDealign_spec a s refs hs hl

/-- `esl_abc_XDealign`: the same for a digital sequence, sentinels restored -/
theorem xdealign_spec (a : Alphabet) (xs refs : List Nat) (hs : SENTINEL ∉ refs) (hl : refs.length ≤ xs.length) :
    a.xDealign (mkDsq xs) (mkDsq refs) = some (mkDsq (keptOf a refs xs), (keptOf a refs xs).length) :=
  xDealign_spec a xs refs hs hl

/-! ## custom alphabets -/

/-- `esl_alphabet_CreateCustom` on distinct non-NUL 7-bit symbols (`1 ≤ K`, `K+4 ≤ Kp`) succeeds and gives a well-formed
    alphabet with exactly that symbol string and no complement table -/
theorem custom_create_wf (syms : List Nat) (K : Nat) (hnd : syms.Nodup) (hascii : ∀ s ∈ syms, s < 128)
    (hK : 1 ≤ K) (hKp : K + 4 ≤ syms.length) (h250 : syms.length ≤ 250) :
    ∃ a, createCustom syms K syms.length = some a ∧ a.WF ∧ a.K = K ∧ a.Kp = syms.length ∧ a.sym = syms ∧
      a.complement = none :=
  createCustom_wf syms K hnd hascii hK hKp h250

/-- every custom alphabet (CreateCustom followed by any SetEquiv / SetCaseInsensitive / SetDegeneracy calls, and
    SetIgnored calls that spare the alphabet's own symbols) is well-formed -/
theorem custom_alphabets_wf (a : Alphabet) (h : Built a) : a.WF := built_wf a h

/-- … hence digitising is faithful for every custom alphabet and every string: digitise ∘ textise ∘ digitise = digitise -/
theorem custom_digitize_textize_digitize (a : Alphabet) (h : Built a) (seq : List Nat) :
    ∃ t, a.textize (a.digitize seq).2 (seq.filterMap a.code).length = some t ∧
      a.digitize t = (.ok, (a.digitize seq).2) :=
  digitize_textize_digitize a (built_wf a h) seq

/-- the degeneracy tables of a freshly created custom alphabet are well-formed (so `avg_score_is_mean`,
    `count_splits_equally` … apply to it): a canonical residue denotes itself, `any` (code Kp−3) all K residues -/
theorem custom_create_wfdegen (syms : List Nat) (K : Nat) (a : Alphabet) (hK : 1 ≤ K) (hKp : K + 4 ≤ syms.length)
    (h : createCustom syms K syms.length = some a) :
    a.WFDegen ∧ (∀ x, x < K → a.degenSet x = [x]) ∧ a.degenSet (syms.length - 3) = List.range K :=
  createCustom_wfdegen syms K a hK hKp h

/-- the input-map operations never disturb the degeneracy tables -/
theorem custom_inmap_ops_keep_degen (a : Alphabet) (h : a.WFDegen) (sym c : Nat) (chars : List Nat) :
    (a.setEquiv sym c).2.WFDegen ∧ a.setCaseInsensitive.2.WFDegen ∧ (a.setIgnored chars).WFDegen :=
  ⟨setEquiv_wfdegen a h sym c, setCaseInsensitive_wfdegen a h, setIgnored_wfdegen a h chars⟩

/-- `esl_alphabet_SetDegeneracy(a, c, ds)` that returns eslOK, lists pairwise distinct residues and none that is already
    a member keeps `ndegen[x]` = size of the set of row `x` for every symbol (the C code adds one to `ndegen` per listed
    character without looking at the row, so a repeated or already present residue breaks the equality — the averaging
    theorems then no longer apply; `create_dna/rna/amino` satisfy the hypothesis: `std_wf`) -/
theorem setdegeneracy_keeps_ndegen (a : Alphabet) (h : a.WFDegen) (c : Nat) (ds : List Nat)
    (hok : (a.setDegeneracy c ds).1 = .ok) (hnd : (ds.filterMap a.strchrSym).Nodup)
    (hfresh : ∀ x, a.strchrSym c = some x → ∀ y ∈ ds.filterMap a.strchrSym, (a.degen.getD x []).getD y 0 = 0) :
    (a.setDegeneracy c ds).2.WFDegen :=
  setDegeneracy_wfdegen a h c ds hok hnd hfresh

/-- `esl_abc_{F,D}AvgScVec`: exactly the degenerate slots `K < x ≤ Kp-3` are filled, each with the mean of the canonical
    scores over the set of `x`; canonical scores, gap, nonresidue and missing slots are untouched; no out-of-bounds access -/
theorem avg_scvec_spec (a : Alphabet) (h : a.WFDegen) (hK : a.K + 4 ≤ a.Kp) (sc : List ℚ) (hl : sc.length = a.Kp) :
    ∃ r, a.avgScVec sc = some r ∧ r.length = a.Kp ∧
      ∀ x, r.getD x 0 = if a.K < x ∧ x + 3 ≤ a.Kp
        then ((a.degenSet x).map fun i => sc.getD i 0).sum / ((a.degenSet x).length : ℚ) else sc.getD x 0 :=
  avgScVec_spec a h hK sc hl

/-- `esl_abc_GuessAlphabet` (model): eslOK iff a type was assigned, the type is unknown/RNA/DNA/amino, and a composition
    of ten residues or fewer is never classified -/
theorem guess_alphabet_basic (ct : List Int) :
    (((Guess.guessAlphabet ct).1 = true ↔ (Guess.guessAlphabet ct).2 ≠ 0) ∧ (Guess.guessAlphabet ct).2 ≤ 3) ∧
    (Guess.total ct ≤ 10 → Guess.guessAlphabet ct = (false, 0)) :=
  ⟨Guess.guess_status ct, Guess.guess_small ct⟩


/-! ## `esl_abc_GuessAlphabet` / `esl_sq_GuessAlphabet`: what an answer guarantees

`Guess.guessZ` is the classifier with the tests `d <= 0.02*n` written `50*d ≤ n`; the driver runs it next to the
`Float` model on every generated composition (counts up to 2^33, exact 2 % boundaries) and both against the code.
`Guess.Counts ct`: every counter is in `[0, 2^31)` (the C code reads counters through an `int`). Letter numbers:
A=0 C=2 G=6 N=13 T=19 U=20 X=23; `Guess.aaonly` = EFIJLOPQZ, `Guess.allcanon` = ACG, `Guess.aacanon` = DHKMRSVWY. -/

/-- never an answer on ten residues or fewer — for arbitrary (even negative) counters -/
theorem guess_never_on_small (ct : List Int) (h : Guess.total ct ≤ 10) :
    Guess.guessZ ct = 0 ∧ Guess.guessAlphabet ct = (false, 0) :=
  ⟨Guess.guessZ_small ct h, Guess.guess_small ct h⟩

/-- answer DNA ⇒ > 10 residues and (all-N special case with > 2000 residues, or: no amino-only letter, ≥ 98 % ACGTN, all of
    A, C, G, T occur) -/
theorem guess_dna_guarantee (ct : List Int) (h : Guess.Counts ct) (hg : Guess.guessZ ct = 2) :
    Guess.total ct > 10 ∧
    ((Guess.total ct > 2000 ∧ ct.getD 13 0 = Guess.total ct) ∨
     (Guess.sumOf ct Guess.aaonly = 0 ∧
      50 * (Guess.total ct - (ct.getD 0 0 + ct.getD 2 0 + ct.getD 6 0 + ct.getD 19 0 + ct.getD 13 0)) ≤ Guess.total ct ∧
      ct.getD 0 0 > 0 ∧ ct.getD 2 0 > 0 ∧ ct.getD 6 0 > 0 ∧ ct.getD 19 0 > 0)) :=
  Guess.guessZ_dna ct h hg

/-- answer RNA ⇒ > 10 residues, no amino-only letter, ≥ 98 % ACGUN, all of A, C, G, U occur -/
theorem guess_rna_guarantee (ct : List Int) (h : Guess.Counts ct) (hg : Guess.guessZ ct = 1) :
    Guess.total ct > 10 ∧ Guess.sumOf ct Guess.aaonly = 0 ∧
    50 * (Guess.total ct - (ct.getD 0 0 + ct.getD 2 0 + ct.getD 6 0 + ct.getD 20 0 + ct.getD 13 0)) ≤ Guess.total ct ∧
    ct.getD 0 0 > 0 ∧ ct.getD 2 0 > 0 ∧ ct.getD 6 0 > 0 ∧ ct.getD 20 0 > 0 :=
  Guess.guessZ_rna ct h hg

/-- answer amino ⇒ > 10 residues and (an amino-only letter occurs, or: ≥ 98 % of the residues are ACG, DHKMRSVWY, N, T, X;
    DHKMRSVWY outnumber ACG; at least 15 different letters occur) -/
theorem guess_amino_guarantee (ct : List Int) (h : Guess.Counts ct) (hg : Guess.guessZ ct = 3) :
    Guess.total ct > 10 ∧
    (Guess.sumOf ct Guess.aaonly > 0 ∨
     (50 * (Guess.total ct - (Guess.sumOf ct Guess.allcanon + Guess.sumOf ct Guess.aacanon + ct.getD 13 0 + ct.getD 19 0 +
        ct.getD 23 0)) ≤ Guess.total ct ∧
      Guess.sumOf ct Guess.aacanon > Guess.sumOf ct Guess.allcanon ∧
      Guess.seen ct Guess.aaonly + Guess.seen ct Guess.allcanon + Guess.seen ct Guess.aacanon + Guess.seen ct [13] +
        Guess.seen ct [19] ≥ 15)) :=
  Guess.guessZ_amino ct h hg

/-- **observation (dead rule)**: on counts, the answer is amino iff an amino-only letter (EFIJLOPQZ) occurs in a sample of
    more than 10 residues that is not the all-N special case. The third documented rule (≥ 98 % amino-acid letters, ≥ 15
    different residues) is unreachable: without an amino-only letter at most 3+9+1+1 = 14 different letters are counted. -/
theorem guess_amino_iff_giveaway (ct : List Int) (h : Guess.Counts ct) :
    Guess.guessZ ct = 3 ↔ Guess.total ct > 10 ∧ ¬ (Guess.total ct > 2000 ∧ ct.getD 13 0 = Guess.total ct) ∧
      Guess.sumOf ct Guess.aaonly > 0 :=
  Guess.guessZ_amino_iff ct h

/-- the only answers are unknown/RNA/DNA/amino, and an amino-only letter decides for amino (documented "giveaway") -/
theorem guess_aaonly_decides (ct : List Int) (h : Guess.Counts ct) (hn : Guess.total ct > 10)
    (hN : ¬ (Guess.total ct > 2000 ∧ ct.getD 13 0 = Guess.total ct)) (hp : Guess.sumOf ct Guess.aaonly > 0) :
    Guess.guessZ ct = 3 ∧ ∀ ct', Guess.guessZ ct' ≤ 3 :=
  ⟨Guess.guessZ_aaonly ct h hn hN hp, Guess.guessZ_le⟩

/-- the counting loop of `esl_sq_GuessAlphabet` on a sequence with at most 10000 letters: counter `l` = number of
    occurrences of letter `l` in either case (other bytes, also 8-bit ones, are skipped), and the counters satisfy `Counts`
    (so the three guarantees apply to `esl_sq_GuessAlphabet`) -/
theorem sq_guess_counts (seq : List Nat) (hb : ∀ c ∈ seq, c < 256) (hn : Guess.nLetters seq ≤ 10000) :
    (∀ l, l < 26 → (Guess.sqCount seq (List.replicate 26 0) 0).getD l 0 = ((seq.filter fun c => Guess.isLetter c l).length : Int)) ∧
    Guess.Counts (Guess.sqCount seq (List.replicate 26 0) 0) :=
  ⟨Guess.sqCount_counts seq hb hn, Guess.sqCount_Counts seq hb hn⟩

example : Guess.Counts [30, 0, 25, 0, 0, 0, 28, 0, 0, 0, 0, 0, 0, 1, 0, 0, 0, 0, 0, 27, 0, 0, 0, 0, 0, 0] :=
  Guess.counts_of_all _ (by decide)
example : Guess.guessZ [30, 0, 25, 0, 0, 0, 28, 0, 0, 0, 0, 0, 0, 1, 0, 0, 0, 0, 0, 27, 0, 0, 0, 0, 0, 0] = 2 := by decide
example : Guess.guessZ [30, 0, 25, 0, 0, 0, 28, 0, 0, 0, 0, 0, 0, 1, 0, 0, 0, 0, 0, 0, 27, 0, 0, 0, 0, 0] = 1 := by decide
example : Guess.guessZ [30, 0, 25, 0, 1, 0, 28, 0, 0, 0, 0, 0, 0, 1, 0, 0, 0, 0, 0, 27, 0, 0, 0, 0, 0, 0] = 3 := by decide
example : Guess.guessZ [5, 0, 3, 9, 0, 0, 4, 9, 0, 0, 9, 0, 9, 2, 0, 0, 0, 9, 9, 3, 0, 9, 9, 1, 9, 0] = 0 := by decide
example : Guess.guessZ [49, 0, 49, 3, 0, 0, 49, 0, 0, 0, 0, 0, 0, 0, 0, 0, 0, 0, 0, 0, 0, 0, 0, 0, 0, 0] = 0 := by decide
example : Guess.sqGuessZ (str "acgtACGTacgtN") = 2 := by decide

/-! ## alphabet type codes -/

/-- round trip over the enumerated types: `EncodeType (DecodeType t) = t` for unknown, RNA, DNA, amino, coins, dice, custom;
    other codes have no name (eslEINVAL exception, NULL) -/
theorem type_roundtrip :
    (∀ t ∈ [(0 : Int), 1, 2, 3, 4, 5, 6], (AbcType.decodeType t).map AbcType.encodeType = some t.toNat) ∧
    (∀ t : Int, t < 0 ∨ t > 6 → AbcType.decodeType t = none) :=
  ⟨AbcType.decode_encode, AbcType.decode_none⟩

/-- unknown strings ⇒ eslUNKNOWN, exactly: the answer is eslUNKNOWN iff the string equals none of the six names up to case -/
theorem type_unknown_strings (s : List Nat) :
    AbcType.encodeType s = AbcType.eslUNKNOWN ↔ ∀ p ∈ AbcType.names, AbcType.strcaseEq s p.1 = false :=
  AbcType.encodeType_unknown_iff s

/-- any other answer is the code whose name the string spells (up to case) -/
theorem type_encode_sound (s : List Nat) (h : AbcType.encodeType s ≠ AbcType.eslUNKNOWN) :
    ∃ name, AbcType.decodeType (AbcType.encodeType s) = some name ∧ AbcType.strcaseEq s name = true :=
  AbcType.encodeType_sound s h

/-- `esl_abc_EncodeTypeMem` (its own `toupper` loop, `esl_memstrcmp_case`) answers as `esl_abc_EncodeType` (`strcasecmp`) -/
theorem type_mem_agrees (s : List Nat) : AbcType.encodeTypeMem s = AbcType.encodeType s := AbcType.encodeTypeMem_eq s

/-- `esl_abc_ValidateType(t) = eslOK` iff `1 ≤ t ≤ eslNONSTANDARD` iff `t` has a name and is not eslUNKNOWN -/
theorem type_validate (t : Int) :
    (AbcType.validateType t = true ↔ 1 ≤ t ∧ t ≤ 6) ∧
    (AbcType.validateType t = true ↔ t ≠ 0 ∧ (AbcType.decodeType t).isSome = true) :=
  ⟨AbcType.validateType_iff t, AbcType.validateType_iff_named t⟩

/-- the model of Decode/Encode/ValidateType answers, for the codes 0..8, what the code under check answered on this run -/
theorem type_tables_regenerated :
    (List.range 9).map (fun t : Nat => AbcType.decodeType (Int.ofNat t)) = Generated.AlphabetsAux.decodeType ∧
    (List.range 9).map (fun t : Nat => match AbcType.decodeType (Int.ofNat t) with | some s => AbcType.encodeType s | none => 999)
      = Generated.AlphabetsAux.encodeOfDecode ∧
    (List.range 9).map (fun t : Nat => AbcType.validateType (Int.ofNat t)) = Generated.AlphabetsAux.validType ∧
    Generated.AlphabetsAux.c_eslUNKNOWN = AbcType.eslUNKNOWN :=
  AbcType.tables_agree

example : AbcType.encodeType (str "AmInO") = 3 ∧ AbcType.encodeType (str "protein") = 0 ∧ AbcType.encodeTypeMem (str "Rna") = 1 := by
  decide

/-! ## the text-mode switch of `esl_sq_ReverseComplement`, regenerated -/

/-- the hand-written `switch` of text-mode `esl_sq_ReverseComplement` as read off the code on this run (the function is
    called on all 256 one-byte sequences) is the model's `Sq.compChar`: same case/default decision and same output byte -/
theorem sq_text_switch_regenerated :
    Generated.AlphabetsAux.textRevcomp.length = 256 ∧
    ∀ c, c < 256 → Sq.compChar c = Sq.compCharG c ∧
      (Generated.AlphabetsAux.textRevcomp.getD c (0, 0)).1 = (Sq.compChar c).getD 78 :=
  Sq.compChar_regenerated

/-- for EVERY symbol of the DNA and of the RNA alphabet (canonical, gap, all degenerate IUPAC codes, any, `*`, `~`), in
    upper and in lower case: Textize, complement with the text-mode switch, Digitize = the digital complement; the
    switch preserves case -/
theorem sq_text_revcomp_every_symbol :
    (∀ comp ∈ G.dna.complement, Sq.TextCompSymbols G.dna comp) ∧ (∀ comp ∈ G.rna.complement, Sq.TextCompSymbols G.rna comp) := by
  decide +kernel

/-- the switch has a case for every character the DNA / RNA input map accepts except the synonym `I`/`i` (inosine, read
    as A by the digital alphabets; text mode answers `N` + eslEINVAL) -/
theorem sq_text_switch_covers_alphabet :
    ∀ a ∈ [G.dna, G.rna], ∀ c, c < 128 → a.cIsValid c = true → (Sq.compChar c).isSome = true ∨ c = 73 ∨ c = 105 := by
  decide +kernel

/-! ## `esl_abc_ValidateSeq`, `esl_sq_Digitize`, `esl_abc_ConvertDegen2X`, the Expect ScVec filler -/

/-- `esl_abc_ValidateSeq(a, seq, L, errbuf)` returns eslOK iff no byte is bad (with an alphabet: not `esl_abc_CIsValid`,
    which excludes ignored characters and bytes ≥ 0x80; without one: not 7-bit); otherwise eslEINVAL, and the message is
    "invalid char C at pos P" for one bad byte or "N invalid chars (including C at pos P)" for N > 1, with N the number of
    bad bytes, C the first of them and P its 1-based position -/
theorem validateseq_spec (a : Option Alphabet) (seq : List Nat) :
    (validateSeqMsg a seq =
      let nbad := (seq.filter (isBad a)).length
      let p := firstBad a seq
      if nbad = 0 then (.ok, [])
      else if nbad = 1 then (.einval, str "invalid char " ++ [seq.getD p 0] ++ str s!" at pos {p+1}")
      else (.einval, str s!"{nbad} invalid chars (including " ++ [seq.getD p 0] ++ str s!" at pos {p+1})")) ∧
    ((validateSeqMsg a seq).1 = .ok ↔ ∀ c ∈ seq, isBad a c = false) :=
  ⟨validateSeqMsg_spec a seq, validateSeq_ok_iff a seq⟩

/-- `esl_sq_Digitize`: eslOK iff every character is valid for `esl_abc_ValidateSeq`; then the digital sequence has exactly
    one code per character (`sq->n` stays right: ignored characters are rejected by the validation, none is dropped) and
    the second-stage `esl_abc_Digitize` cannot fail; otherwise eslEINVAL and the sequence is left in text mode -/
theorem sq_digitize_spec (a : Alphabet) (seq : List Nat) :
    Sq.sqDigitize a seq = (if seq.all a.cIsValid then .ok (mkDsq (seq.map a.inmapAt)) else .error .einval) ∧
    Sq.validateSeq a seq = (validateSeqMsg (some a) seq).1 :=
  ⟨sqDigitize_spec a seq, sqValidateSeq_eq a seq⟩

/-- `esl_abc_ConvertDegen2X` (and `esl_sq_ConvertDegen2X`): every degenerate code becomes `any`, all other codes and the
    sentinels stay; the map is idempotent and keeps codes valid -/
theorem convert_degen2x_spec (a : Alphabet) (h : a.K + 4 ≤ a.Kp) (codes : List Nat) (hs : SENTINEL ∉ codes) :
    a.convertDegen2X (mkDsq codes) = some (mkDsq (codes.map fun x => if a.xIsDegenerate x then a.unknown else x)) ∧
    ∀ x, (let f := fun x => if a.xIsDegenerate x then a.unknown else x
          f (f x) = f x ∧ (a.xIsDegenerate x = false → f x = x) ∧ (x < a.Kp → f x < a.Kp)) :=
  ⟨convertDegen2X_spec a codes hs, degen2X_idem a h⟩

/-- `esl_abc_{F,D}ExpectScVec`: exactly the degenerate slots `K < x ≤ Kp-3` are filled, each with the `p`-weighted mean of
    the canonical scores over the set of `x`; all other slots untouched; no out-of-bounds access -/
theorem expect_scvec_spec (a : Alphabet) (h : a.WFDegen) (hK : a.K + 4 ≤ a.Kp) (sc p : List ℚ) (hl : sc.length = a.Kp)
    (hp : a.K ≤ p.length) :
    ∃ r, a.expectScVec sc p = some r ∧ r.length = a.Kp ∧
      ∀ x, r.getD x 0 = if a.K < x ∧ x + 3 ≤ a.Kp
        then ((a.degenSet x).map fun i => sc.getD i 0 * p.getD i 0).sum / ((a.degenSet x).map fun i => p.getD i 0).sum
        else sc.getD x 0 :=
  expectScVec_spec a h hK sc p hl hp

example : G.dna.convertDegen2X (mkDsq [0, 5, 4, 15, 16, 11]) = some (mkDsq [0, 15, 4, 15, 16, 15]) := by decide +kernel
example : (validateSeqMsg (some G.dna) (str "AC!G?")).1 = .einval := by decide +kernel
example : Sq.sqDigitize G.dna (str "acgn") = .ok (mkDsq [0, 1, 2, 15]) := by decide +kernel

/-! ## custom alphabets: histories of constructor calls -/

/-- **`WF` is preserved by EVERY history** of `SetEquiv / SetCaseInsensitive / SetDegeneracy / SetIgnored` calls (any
    arguments, statuses not checked between calls) on a `CreateCustom` alphabet over distinct 7-bit symbols, provided no
    `SetIgnored` names a symbol; sizes and symbol string never change; one status per call -/
theorem custom_history_wf (syms : List Nat) (K : Nat) (hnd : syms.Nodup) (hascii : ∀ s ∈ syms, s < 128)
    (hK : 1 ≤ K) (hKp : K + 4 ≤ syms.length) (h250 : syms.length ≤ 250) (a : Alphabet)
    (h : createCustom syms K syms.length = some a) (hist : List Call) (hs : ∀ c ∈ hist, c.spares syms) :
    (a.run hist).2.WF ∧ (a.run hist).2.K = K ∧ (a.run hist).2.Kp = syms.length ∧ (a.run hist).2.sym = syms ∧
    (a.run hist).1.length = hist.length := by
  obtain ⟨a', h1, hw, e1, e2, e3, _⟩ := createCustom_wf syms K hnd hascii hK hKp h250
  rw [h] at h1; cases h1
  obtain ⟨r1, r2, r3, r4⟩ := run_fields hist a
  exact ⟨run_wf hist a hw (fun c hc => by rw [e3]; exact hs c hc), r1.trans e1, r2.trans e2, r3.trans e3, r4⟩

/-- … and after every history (no side condition at all) the order convention still holds: canonical residues denote
    themselves, `any` all `K` residues — `SetDegeneracy` can only ever touch the rows `K < x < Kp-3` -/
theorem custom_history_order (syms : List Nat) (K : Nat) (a : Alphabet) (hK : 1 ≤ K) (hKp : K + 4 ≤ syms.length)
    (h : createCustom syms K syms.length = some a) (hist : List Call) :
    (∀ x, x < K → (a.run hist).2.degenSet x = [x] ∧ (a.run hist).2.ndegen.getD x 0 = 1) ∧
    (a.run hist).2.degenSet (syms.length - 3) = List.range K ∧ (a.run hist).2.ndegen.getD (syms.length - 3) 0 = K :=
  run_order syms K a hK hKp h hist

/-- documented statuses: CreateCustom fails (NULL) iff the string length is not Kp, Kp < K+4 or K = 0; SetEquiv is eslOK iff
    the new character is not yet a symbol and the target is one (else eslEINVAL, alphabet unchanged) -/
theorem custom_create_setequiv_status (a : Alphabet) (syms : List Nat) (K Kp sym c : Nat) (hs : sym ≠ 0) (hc : c ≠ 0) :
    (createCustom syms K Kp = none ↔ syms.length ≠ Kp ∨ Kp < K + 4 ∨ K = 0) ∧
    ((a.setEquiv sym c).1 = .ok ↔ sym ∉ a.sym ∧ c ∈ a.sym) ∧
    ((a.setEquiv sym c).1 ≠ .ok → (a.setEquiv sym c).1 = .einval ∧ (a.setEquiv sym c).2 = a) ∧
    ((a.setEquiv sym c).1 = .ok → (a.setEquiv sym c).2 = { a with inmap := a.inmap.set sym (a.sym.idxOf c) }) :=
  ⟨createCustom_none_iff syms K Kp, setEquiv_status a sym c hs hc⟩

/-- SetDegeneracy is eslOK iff the symbol is one of the degenerate symbols `K < x < Kp-3` (not canonical, gap, `any`,
    nonresidue, missing or foreign) and every listed residue is a canonical symbol, else eslEINVAL;
    SetCaseInsensitive raises eslECORRUPT at a letter iff both cases are valid and map to different codes -/
theorem custom_setdegeneracy_caseins_status (a : Alphabet) (c : Nat) (ds : List Nat) (lc : Nat) :
    ((a.setDegeneracy c ds).1 = .ok ↔
      ∃ x, a.strchrSym c = some x ∧ a.K < x ∧ x + 3 < a.Kp ∧ ∀ d ∈ ds, ∃ y, a.strchrSym d = some y ∧ y < a.K) ∧
    ((a.setDegeneracy c ds).1 = .ok ∨ (a.setDegeneracy c ds).1 = .einval) ∧
    (a.caseStep lc = none ↔ a.cIsValid lc = true ∧ a.cIsValid (toUpper lc) = true ∧ a.inmapAt (toUpper lc) ≠ a.inmapAt lc) ∧
    (a.setCaseInsensitive.1 = .ok ∨ a.setCaseInsensitive.1 = .ecorrupt) :=
  ⟨(setDegeneracy_status a c ds).1, (setDegeneracy_status a c ds).2, caseStep_none_iff a lc, caseLoop_status _ a⟩


/-! ## growing a sequence residue by residue, checksum, residue counts (esl_sq.c) -/

/-- `esl_sq_CreateDigital` + `esl_sq_XAddResidue` per code + the terminating sentinel = `sentinel, codes, sentinel` with
    `n = |codes|`; with the allocation size in the model (`esl_sq_Grow`: 256 cells, doubled on demand), no store is ever
    outside the allocation. Text mode (`esl_sq_Create` + `esl_sq_CAddResidue` + NUL) likewise. -/
theorem sq_add_residue_spec (codes bytes : List Nat) (hs : SENTINEL ∉ codes) (hb : 0 ∉ bytes) :
    (∃ g, (Sq.addAll Sq.xAddResidue Sq.createDigital codes).bind (fun g => Sq.xAddResidue g SENTINEL) = some g ∧
      g.buf = mkDsq codes ∧ g.n = codes.length ∧ g.n + 2 ≤ g.salloc) ∧
    (∃ g, (Sq.addAll Sq.cAddResidue Sq.createText bytes).bind (fun g => Sq.cAddResidue g 0) = some g ∧
      g.buf = bytes ++ [0] ∧ g.n = bytes.length ∧ g.n + 1 ≤ g.salloc) :=
  ⟨Sq.xAdd_spec codes hs, Sq.cAdd_spec bytes hb⟩

/-- `esl_sq_CountResidues` (digital mode, `K`-long vector, valid codes, range inside the sequence): counter `y` grows by the
    sum over the positions `start … start+L-1` of the position's share for `y` — 1 for the residue itself, `1/|set|` for
    each member of a degenerate code's set, 0 for gap, nonresidue, missing; no access outside `f[0..K-1]` -/
theorem sq_count_residues_spec (a : Alphabet) (h : a.WFDegen) (codes : List Nat) (hv : ∀ x ∈ codes, x < a.Kp)
    (start L : Nat) (hs : 1 ≤ start) (hr : start + L ≤ codes.length + 1) (f : List ℚ) (hf : f.length = a.K) (y : Nat) :
    ∃ f', Sq.countResidues a (mkDsq codes) codes.length start L f = some (some f') ∧ f'.length = a.K ∧
      f'.getD y 0 = f.getD y 0 + (((codes.drop (start - 1)).take L).map fun x => Sq.share a x y).sum :=
  Sq.countResidues_spec a h codes hv start L hs hr f hf y

/-- `esl_sq_Checksum`: on 7-bit text the text-mode checksum is the same function of the bytes as the digital-mode checksum
    is of the codes (the two modes differ only through the values summed; bytes ≥ 0x80 are sign-extended in text mode) -/
theorem sq_checksum_ascii (bytes : List Nat) (h : ∀ c ∈ bytes, c < 128) :
    Sq.checksumText bytes = Sq.checksumDigital bytes := Sq.checksumText_ascii bytes h

example : Sq.countResidues G.dna (mkDsq [0, 5, 4, 15]) 4 1 4 ([0, 0, 0, 0] : List ℚ) = some (some [7/4, 1/4, 3/4, 1/4]) := by
  decide +kernel
example : Sq.countResidues G.dna (mkDsq [0, 5, 4, 15]) 4 2 4 ([0, 0, 0, 0] : List ℚ) = none := by decide +kernel

/-! ## round 4: the decision function of `esl_abc_GuessAlphabet`, `esl_msa_GuessAlphabet` -/

/-- **`guess_spec`**: on counts in `[0, 2^31)` the answer of `esl_abc_GuessAlphabet` is EXACTLY this decision list of the 26
    letter counts (sums `sumOf` and numbers of occurring letters `seen` over the documented letter classes; 0 = unknown,
    1 = RNA, 2 = DNA, 3 = amino) -/
theorem guess_spec (ct : List Int) (h : Guess.Counts ct) : Guess.guessZ ct =
    if Guess.total ct ≤ 10 then 0
    else if Guess.total ct > 2000 ∧ ct.getD 13 0 = Guess.total ct then 2
    else if Guess.sumOf ct Guess.aaonly > 0 then 3
    else if 50 * (Guess.total ct - (Guess.sumOf ct Guess.allcanon + ct.getD 19 0 + ct.getD 13 0)) ≤ Guess.total ct ∧
        Guess.seen ct Guess.allcanon + Guess.seen ct [19] = 4 then 2
    else if 50 * (Guess.total ct - (Guess.sumOf ct Guess.allcanon + ct.getD 20 0 + ct.getD 13 0)) ≤ Guess.total ct ∧
        Guess.seen ct Guess.allcanon + Guess.seen ct [20] = 4 then 1
    else if 50 * (Guess.total ct - (Guess.sumOf ct Guess.aaonly + Guess.sumOf ct Guess.allcanon + Guess.sumOf ct Guess.aacanon +
          ct.getD 13 0 + ct.getD 19 0 + ct.getD 23 0)) ≤ Guess.total ct ∧
        Guess.sumOf ct Guess.aacanon > Guess.sumOf ct Guess.allcanon ∧
        Guess.seen ct Guess.aaonly + Guess.seen ct Guess.allcanon + Guess.seen ct Guess.aacanon + Guess.seen ct [13] +
          Guess.seen ct [19] ≥ 15 then 3
    else 0 :=
  Guess.guessZ_eq ct h

/-- **`esl_msa_GuessAlphabet` on a text-mode alignment** (any rows, any bytes, any classifier `g` of a composition): the vote
    over the per-row answers if it decides; otherwise the answer for the composition of the rows laid end to end, counted
    by the loop of `esl_sq_GuessAlphabet` (same 10000-letter cutoff). The model's bounds-checked counter store never fails:
    the answer is never a fault (the `'['` = `'A'+26` store to `ct[26]` was repaired in 9b7e276). -/
theorem msa_guess_spec (g : List Int → Nat) (rows : List (List Nat)) :
    Guess.msaGuess g rows = some (
      let t := Guess.msaVote (rows.map fun r => g (Guess.sqCount r (List.replicate 26 0) 0))
      if t ≠ 0 then (true, t)
      else (decide (g (Guess.sqCount rows.flatten (List.replicate 26 0) 0) ≠ 0),
            g (Guess.sqCount rows.flatten (List.replicate 26 0) 0))) :=
  Guess.msaGuess_spec g rows

/-- the vote: amino iff some row is amino and none nucleic; DNA iff some row is DNA and none amino (RNA rows are outvoted);
    RNA iff some row is RNA and none DNA or amino; undecided iff no row is classified or amino and nucleic rows both occur -/
theorem msa_vote_spec (types : List Nat) :
    (Guess.msaVote types = 3 ↔ 3 ∈ types ∧ 2 ∉ types ∧ 1 ∉ types) ∧
    (Guess.msaVote types = 2 ↔ 2 ∈ types ∧ 3 ∉ types) ∧
    (Guess.msaVote types = 1 ↔ 1 ∈ types ∧ 2 ∉ types ∧ 3 ∉ types) ∧
    (Guess.msaVote types = 0 ↔ (3 ∉ types ∧ 2 ∉ types ∧ 1 ∉ types) ∨ (3 ∈ types ∧ (2 ∈ types ∨ 1 ∈ types))) :=
  Guess.msaVote_spec types

example : Guess.msaGuess Guess.guessZ [str "AC[GT-", str "ACGGT-"] = some (false, 0) ∧
    Guess.msaGuess Guess.guessZ [str "AC[GTAC", str "ACGGTTA"] = some (true, 2) := by decide +kernel
example : Guess.msaGuess Guess.guessZ [str "ACGUACGUACGU", str "ACGTACGTACGT", str "NNNN--------"] = some (true, 2) := by
  decide +kernel
/-- **observation**: the documentation says an alignment with an amino row and a nucleic row is indeterminate (eslUNKNOWN); in
    the code an undecided vote always falls through to the pooled second pass, which here answers amino -/
example : Guess.msaVote [Guess.guessZ (Guess.sqCount (str "ACGUACGUACGU") (List.replicate 26 0) 0),
      Guess.guessZ (Guess.sqCount (str "ACDEFGHIKLMN") (List.replicate 26 0) 0)] = 0 ∧
    Guess.msaGuess Guess.guessZ [str "ACGUACGUACGU", str "ACDEFGHIKLMN"] = some (true, 3) := by decide +kernel

/-- **`esl_msa_GuessAlphabet`, both forms** (round 6): `strict = false` is `msa_guess_spec` above (an undecided vote always falls
    through to the pooled pass); `strict = true` is what the header documents — rows called amino AND rows called nucleic ⇒
    indeterminate; the pooled pass only when NO row was classified. The driver runs the form the tree has (next theorem). -/
theorem msa_guess_both_forms (strict : Bool) (g : List Int → Nat) (rows : List (List Nat)) :
    Guess.msaGuessV strict g rows = some (
      let types := rows.map fun r => g (Guess.sqCount r (List.replicate 26 0) 0)
      let t := Guess.msaVote types
      if t ≠ 0 then (true, t)
      else if strict && types.any (· != 0) then (false, 0)
      else (decide (g (Guess.sqCount rows.flatten (List.replicate 26 0) 0) ≠ 0),
            g (Guess.sqCount rows.flatten (List.replicate 26 0) 0))) ∧
    Guess.msaGuessV false g rows = Guess.msaGuess g rows :=
  ⟨Guess.msaGuessV_spec strict g rows, Guess.msaGuessV_false g rows⟩

/-- which form the tree has is regenerated on every run: `msaMixedProbe` = the code's answer on `ACGUACGUACGU` / `ACDEFGHIKLMN`
    (eslAMINO = 3: falls through; eslUNKNOWN = 0: documented behaviour); the model run in that form gives the same answer — any
    third behaviour fails this proof -/
theorem msa_mixed_probe_regenerated :
    (Guess.msaGuessV (Generated.AlphabetsAux.msaMixedProbe == 0) Guess.guessZ [str "ACGUACGUACGU", str "ACDEFGHIKLMN"]).map (·.2) =
      some Generated.AlphabetsAux.msaMixedProbe := by decide +kernel

example : Guess.msaGuessV true Guess.guessZ [str "ACGUACGUACGU", str "ACDEFGHIKLMN"] = some (false, 0) ∧
    Guess.msaGuessV true Guess.guessZ [str "ACGU", str "ACGU", str "ACGU"] = some (true, 1) ∧
    Guess.msaGuessV true Guess.guessZ [str "ACGUACGUACGU", str "ACGTACGTACGT"] = some (true, 2) := by decide +kernel

/-- **the counting loop of `esl_sq_GuessAlphabet` (= the per-row loop and, by `msa_guess_spec`, the pooled loop of
    `esl_msa_GuessAlphabet`) on EVERY 8-bit string** — no bound on the number of letters: counter `l` = occurrences (either
    case) of letter `l` in the shortest prefix holding 10001 letters (`Guess.takeLetters`: the loop breaks after counting the
    10001st letter), and the counters satisfy `Counts`; so `guess_spec` and the three guarantees apply to every sequence.
    Discharges the `≤ 10000 letters` hypothesis of `sq_guess_counts`. -/
theorem sq_guess_counts_all (seq : List Nat) (hb : ∀ c ∈ seq, c < 256) :
    (∀ l, l < 26 → (Guess.sqCount seq (List.replicate 26 0) 0).getD l 0 =
      (((Guess.takeLetters 10001 seq).filter fun c => Guess.isLetter c l).length : Int)) ∧
    Guess.Counts (Guess.sqCount seq (List.replicate 26 0) 0) ∧
    (∃ rest, seq = Guess.takeLetters 10001 seq ++ rest) ∧ Guess.nLetters (Guess.takeLetters 10001 seq) ≤ 10001 ∧
    (Guess.nLetters seq ≤ 10000 → Guess.takeLetters 10001 seq = seq) :=
  ⟨(Guess.sqCount_all seq hb).1, (Guess.sqCount_all seq hb).2, Guess.takeLetters_prefix 10001 seq,
   Guess.nLetters_takeLetters 10001 seq, fun h => Guess.takeLetters_all 10001 seq (by omega)⟩

example : Guess.takeLetters 3 (str "a-c.GT") = str "a-c.G" := by decide

/-! ## round 4: integer scores — `esl_abc_IAvgScore` / `IExpectScore` round half away from zero -/

/-- the closing `if (result < 0) return (int)(result - 0.5); else return (int)(result + 0.5);` over ℚ is rounding to the
    nearest integer with ties away from zero (`RoundHalfAway m n`: `m ∈ [n-1/2, n+1/2)` for `m ≥ 0`, `m ∈ (n-1/2, n+1/2]` for
    `m < 0`); that integer is unique, lies within 1/2 of `m`, has the larger magnitude in a tie, and the rounding is odd -/
theorem round_half_away (m : ℚ) :
    RoundHalfAway m (roundHalfQ m) ∧ (∀ n, RoundHalfAway m n → n = roundHalfQ m) ∧
    |((roundHalfQ m : Int) : ℚ) - m| ≤ 1/2 ∧ (|((roundHalfQ m : Int) : ℚ) - m| = 1/2 → |m| < |((roundHalfQ m : Int) : ℚ)|) ∧
    roundHalfQ (-m) = - roundHalfQ m :=
  ⟨roundHalfQ_spec m, fun n hn => roundHalfAway_unique m n _ hn (roundHalfQ_spec m),
   (roundHalfAway_abs m _ (roundHalfQ_spec m)).1, (roundHalfAway_abs m _ (roundHalfQ_spec m)).2, roundHalfQ_neg m⟩

/-- **`iavg_score_rounding`**: `esl_abc_IAvgScore(a, x, sc)` = the exact mean of the integer scores over the set of `x`,
    rounded half away from zero; gap, nonresidue, missing and invalid codes score 0 -/
theorem iavg_score_rounding (a : Alphabet) (h : a.WFDegen) (x : Nat) (sc : List Int) (hsc : a.K ≤ sc.length) :
    (x < a.Kp → a.xIsResidue x = true → iAvgScore ℚ a x sc =
      some (roundHalfQ (((a.degenSet x).map fun i => ((sc.getD i 0 : Int) : ℚ)).sum / ((a.degenSet x).length : ℚ)))) ∧
    (a.xIsResidue x = false → iAvgScore ℚ a x sc = some 0) :=
  ⟨fun hx hres => iAvgScore_round a h x hx hres sc hsc, fun hres => iAvgScore_nonresidue a x hres sc⟩

/-- `esl_abc_IExpectScore(a, x, sc, p)` = the `p`-weighted mean over the set, rounded half away from zero -/
theorem iexpect_score_rounding (a : Alphabet) (h : a.WFDegen) (x : Nat) (hx : x < a.Kp) (hres : a.xIsResidue x = true)
    (sc : List Int) (p : List ℚ) (hsc : a.K ≤ sc.length) (hp : a.K ≤ p.length) :
    iExpectScore a x sc p =
      some (roundHalfQ (((a.degenSet x).map fun i => ((sc.getD i 0 : Int) : ℚ) * p.getD i 0).sum /
        ((a.degenSet x).map fun i => p.getD i 0).sum)) :=
  iExpectScore_round a h x hx hres sc p hsc hp

/-- `esl_abc_IAvgScVec` / `esl_abc_IExpectScVec` on a `Kp`-long `int` vector: exactly the degenerate slots `K < x ≤ Kp-3`
    are filled, each with the rounded (weighted) mean of the canonical scores; every other slot keeps its value; no
    out-of-bounds access -/
theorem iscvec_spec (a : Alphabet) (h : a.WFDegen) (hK : a.K + 4 ≤ a.Kp) (sc : List Int) (hl : sc.length = a.Kp)
    (p : List ℚ) (hp : a.K ≤ p.length) :
    (∃ r, iAvgScVec ℚ a sc = some r ∧ r.length = a.Kp ∧
      ∀ x, r.getD x 0 = if a.K < x ∧ x + 3 ≤ a.Kp
        then roundHalfQ (((a.degenSet x).map fun i => ((sc.getD i 0 : Int) : ℚ)).sum / ((a.degenSet x).length : ℚ))
        else sc.getD x 0) ∧
    (∃ r, iExpectScVec a sc p = some r ∧ r.length = a.Kp ∧
      ∀ x, r.getD x 0 = if a.K < x ∧ x + 3 ≤ a.Kp
        then roundHalfQ (((a.degenSet x).map fun i => ((sc.getD i 0 : Int) : ℚ) * p.getD i 0).sum /
          ((a.degenSet x).map fun i => p.getD i 0).sum)
        else sc.getD x 0) :=
  ⟨iAvgScVec_spec a h hK sc hl, iExpectScVec_spec a h hK sc p hl hp⟩

/-- ties go away from zero in both directions: DNA `R` = {A, G} with scores 1, 2 → 3/2 → 2, with −1, −2 → −3/2 → −2 -/
example : roundHalfQ (3/2) = 2 := roundHalfQ_eq _ 2 (by unfold RoundHalfAway; norm_num)
example : roundHalfQ (-3/2) = -2 := roundHalfQ_eq _ (-2) (by unfold RoundHalfAway; norm_num)
example : roundHalfQ (1/2) = 1 := roundHalfQ_eq _ 1 (by unfold RoundHalfAway; norm_num)
example : roundHalfQ (-1/2) = -1 := roundHalfQ_eq _ (-1) (by unfold RoundHalfAway; norm_num)
example : roundHalfQ (7/3) = 2 := roundHalfQ_eq _ 2 (by unfold RoundHalfAway; norm_num)

/-- the routines themselves on the dumped DNA table: `R` = {A, G} with 1, 2 → 2; with −1, −2 → −2; the vector filler -/
example : iAvgScore ℚ G.dna 5 [1, 0, 2, 0] = some 2 ∧ iAvgScore ℚ G.dna 5 [-1, 0, -2, 0] = some (-2) ∧
    iAvgScore ℚ G.dna 4 [1, 0, 2, 0] = some 0 := by decide +kernel
example : iAvgScVec ℚ G.dna [1, 0, 2, 0, 9, 0, 0, 0, 0, 0, 0, 0, 0, 0, 0, 0, 7, 8] =
    some [1, 0, 2, 0, 9, 2, 0, 1, 1, 1, 1, 0, 1, 1, 1, 1, 7, 8] := by decide +kernel

/-! ## round 4: text-mode `esl_sq_CountResidues`, `esl_abc_TextizeN` windows, `dsqrlen`, `dsqdup`, plain counts -/

/-- **text-mode `esl_sq_CountResidues`** (after fix 10c7a99) for EVERY byte string: eslERANGE iff `start < 0` or
    `start+L > n`; inside the range no out-of-bounds access, and counter `y` grows by the sum over the bytes
    `start … start+L-1` of `shareC` — the share of the byte's code if the byte is a character of the alphabet, 0 for any other
    byte (7-bit junk, bytes ≥ 0x80); and for a sequence of valid characters that is the digital-mode count of the
    digitised sequence, position by position -/
theorem sq_count_residues_text_spec (a : Alphabet) (h : a.WFDegen) (seq : List Nat) (f : List ℚ) (hf : f.length = a.K) (y : Nat) :
    (∀ start L : Nat, start + L ≤ seq.length →
      ∃ f', Sq.countResiduesText a seq start L f = some (some f') ∧ f'.length = a.K ∧
        f'.getD y 0 = f.getD y 0 + (((seq.drop start).take L).map fun c => Sq.shareC a c y).sum) ∧
    (∀ start L : Int, Sq.countResiduesText a seq start L f = none ↔ start < 0 ∨ start + L > (seq.length : Int)) ∧
    ((∀ c ∈ seq, a.cIsValid c = true) →
      seq.map (fun c => Sq.shareC a c y) = (seq.map a.inmapAt).map fun x => Sq.share a x y) :=
  ⟨fun start L hr => Sq.countResiduesText_spec a h seq start L hr f hf y,
   fun start L => (Sq.countResiduesText_range a seq start L f).1, fun hv => Sq.shareC_valid a seq hv y⟩

example : Sq.countResiduesText G.dna (str "Ar-n") 0 4 ([0, 0, 0, 0] : List ℚ) = some (some [7/4, 1/4, 3/4, 1/4]) := by
  decide +kernel
example : Sq.countResiduesText G.dna [33, 233, 65] 0 3 ([0, 0, 0, 0] : List ℚ) = some (some [1, 0, 0, 0]) := by decide +kernel
example : Sq.countResiduesText G.dna (str "ACGT") 1 4 ([0, 0, 0, 0] : List ℚ) = none := by decide +kernel

/-- **`esl_abc_TextizeN(a, dsq + off, L, buf)`** on a digital sequence of valid codes, every `off ≤ n+1` (either sentinel
    included) and every `L`: the window is spelled up to its first sentinel; a window holding a sentinel gets a NUL there and
    nothing after it; a window inside the residues gets exactly `L` symbols and no NUL; a window reaching the closing sentinel
    gets the remaining residues and a NUL. No out-of-bounds read. -/
theorem textizen_spec (a : Alphabet) (codes : List Nat) (hs : SENTINEL ∉ codes) (hv : ∀ x ∈ codes, x < a.sym.length)
    (off L : Nat) (hoff : off ≤ codes.length + 1) :
    a.textizeN (mkDsq codes) off L 0 [] =
      some ((((((mkDsq codes).drop off).take L).takeWhile (· ≠ SENTINEL)).map a.symAt) ++
        (if SENTINEL ∈ ((mkDsq codes).drop off).take L then [0] else [])) ∧
    (1 ≤ off → off + L ≤ codes.length + 1 →
      a.textizeN (mkDsq codes) off L 0 [] = some (((codes.drop (off - 1)).take L).map a.symAt)) ∧
    (1 ≤ off → codes.length + 1 < off + L →
      a.textizeN (mkDsq codes) off L 0 [] = some ((codes.drop (off - 1)).map a.symAt ++ [0])) :=
  ⟨textizeN_window a codes hv off L hoff, fun h1 h2 => textizeN_inside a codes hs hv off L h1 h2,
   fun h1 h2 => textizeN_reaching a codes hs hv off L h1 hoff h2⟩

example : G.dna.textizeN (mkDsq [0, 1, 2, 3]) 2 2 0 [] = some (str "CG") ∧
    G.dna.textizeN (mkDsq [0, 1, 2, 3]) 3 5 0 [] = some (str "GT" ++ [0]) ∧
    G.dna.textizeN (mkDsq [0, 1, 2, 3]) 0 3 0 [] = some [0] ∧ G.dna.textizeN (mkDsq [0, 1, 2, 3]) 5 1 0 [] = some [0] := by
  decide +kernel

/-- `esl_abc_dsqrlen` = number of residue codes (canonical or degenerate; not gap, nonresidue, missing);
    `esl_abc_dsqdup` copies the whole array with both sentinels whether or not the length is given, and maps NULL to NULL -/
theorem dsqrlen_dsqdup_spec (a : Alphabet) (codes : List Nat) (hs : SENTINEL ∉ codes) :
    a.dsqrlen (mkDsq codes) = some (codes.filter a.xIsResidue).length ∧
    dsqdup (some (mkDsq codes)) none = some (some (mkDsq codes)) ∧
    dsqdup (some (mkDsq codes)) (some codes.length) = some (some (mkDsq codes)) ∧ (∀ L, dsqdup none L = some none) :=
  ⟨dsqrlen_spec a codes hs, dsqdup_spec codes hs⟩

/-- `esl_abc_{F,D}Count` on the codes that are not degenerate: a canonical residue or the gap adds the whole weight to its own
    counter (the gap needs a vector of `K+1` counters: with `K` counters the store is out of bounds); nonresidue and missing
    data change nothing -/
theorem count_nondegenerate_codes (a : Alphabet) (hK : a.K + 4 ≤ a.Kp) (ct : List ℚ) (wt : ℚ) (x : Nat) :
    (x ≤ a.K → x < ct.length → a.count ct x wt = some (ct.set x (ct.getD x 0 + wt))) ∧
    (x ≤ a.K → ct.length ≤ x → a.count ct x wt = none) ∧
    ((x = a.Kp - 2 ∨ x = a.Kp - 1) → a.count ct x wt = some ct) :=
  count_simple a hK ct wt x

/-! ## round 4: `esl_sq_Copy` between text and digital mode -/

/-- **`esl_sq_Copy`, all four mode combinations** (with the validation pre-pass of fix 6b1a313): text → digital is eslOK iff
    every character is a character of the alphabet (ignored characters and bytes ≥ 0x80 refused, as in `esl_sq_Digitize`);
    then the copy holds one code per character and `n` = text length = digital length; otherwise eslEINVAL and an emptied
    `dst`. Text → text copies; digital → text spells each code; digital → digital copies when the alphabet types agree, else
    the eslEINCOMPAT exception. Every eslOK copy passes the length test of `esl_sq_Validate` (`Copied.consistent`). -/
theorem sq_copy_spec (a : Alphabet) (hKp : a.Kp ≤ 250) (txt codes : List Nat) (hs : SENTINEL ∉ codes)
    (hv : ∀ x ∈ codes, x < a.sym.length) (sameType : Bool) :
    (Sq.sqCopy true a (.inl txt) true sameType = some (.ok (
       if txt.all a.cIsValid then (.ok, { n := txt.length, buf := mkDsq (txt.map a.inmapAt) }) else (.einval, Sq.reused true))) ∧
     (txt.all a.cIsValid = true → ({ n := txt.length, buf := mkDsq (txt.map a.inmapAt) } : Sq.Copied).consistent true = true)) ∧
    Sq.sqCopy true a (.inl txt) false true = some (.ok (.ok, { n := txt.length, buf := txt })) ∧
    Sq.sqCopy true a (.inr (mkDsq codes, codes.length)) false true = some (.ok (.ok, { n := codes.length, buf := codes.map a.symAt })) ∧
    Sq.sqCopy true a (.inr (mkDsq codes, codes.length)) true true = some (.ok (.ok, { n := codes.length, buf := mkDsq codes })) ∧
    Sq.sqCopy true a (.inr (mkDsq codes, codes.length)) true false = some (.error .eincompat) ∧
    ({ n := codes.length, buf := mkDsq codes } : Sq.Copied).consistent true = true ∧
    ({ n := codes.length, buf := codes.map a.symAt } : Sq.Copied).consistent false = true :=
  ⟨⟨(Sq.sqCopy_text_digital a hKp txt sameType).1, (Sq.sqCopy_text_digital a hKp txt sameType).2.1⟩,
   Sq.sqCopy_others a txt codes hs hv true⟩

/-- why the pre-pass is needed (the defect repaired in 6b1a313): without it, a text with a character the alphabet ignores is
    copied with eslOK and `n` = 10 although only 8 codes were written — the object fails `esl_sq_Validate`; with it: eslEINVAL -/
example :
    Sq.sqCopy false (G.dna.setIgnored (str " \t")) (.inl (str "AC GT ACGT")) true true =
      some (.ok (.ok, { n := 10, buf := mkDsq [0, 1, 2, 3, 0, 1, 2, 3] })) ∧
    ({ n := 10, buf := mkDsq [0, 1, 2, 3, 0, 1, 2, 3] } : Sq.Copied).consistent true = false ∧
    Sq.sqCopy true (G.dna.setIgnored (str " \t")) (.inl (str "AC GT ACGT")) true true = some (.ok (.einval, Sq.reused true)) ∧
    Sq.sqCopy true (G.dna.setIgnored (str " \t")) (.inl (str "ACGTACGT")) true true =
      some (.ok (.ok, { n := 8, buf := mkDsq [0, 1, 2, 3, 0, 1, 2, 3] })) := by
  decide +kernel

/-! ## round 4: `esl_sq_FetchFromMSA` — dealigning a row in text mode and in digital mode -/

/-- **fetching a sequence from an alignment commutes with digitising**, for every alphabet that reads exactly the gap
    characters "-_.~" as gap / missing data (`Sq.GapCharsOK`: true of the five built-in alphabets), every aligned row of
    characters of the alphabet and every SS line of the same length: text mode (`esl_strdealign` against "-_.~") keeps the row
    without those columns; digital mode (`esl_abc_XDealign` / `esl_abc_CDealign` against gap and missing-data codes) keeps
    the codes of exactly the same columns; digitising the text result gives the digital result — same `n`, same SS line;
    the nonresidue `*` is kept in both modes -/
theorem fetch_from_msa_modes_agree (a : Alphabet) (hg : Sq.GapCharsOK a) (hKp : a.Kp ≤ 250) (row ss : List Nat)
    (hv : ∀ c ∈ row, a.cIsValid c = true) (hss : ss.length = row.length) :
    Sq.fetchText row (some ss) =
      some { seq := Sq.keptText row row, ss := some (Sq.keptText row ss), n := (Sq.keptText row row).length } ∧
    Sq.fetchDigital a (mkDsq (row.map a.inmapAt)) (some ss) =
      some { seq := mkDsq ((Sq.keptText row row).map a.inmapAt), ss := some (Sq.keptText row ss),
             n := (Sq.keptText row row).length } ∧
    a.digitize (Sq.keptText row row) = (.ok, mkDsq ((Sq.keptText row row).map a.inmapAt)) :=
  Sq.fetch_modes_agree a hg hKp row ss hv hss

/-- `esl_strdealign` alone, for any two strings: exactly the columns without a gap character are kept (no bound on bytes) -/
theorem strdealign_spec (s aseq : List Nat) (hl : aseq.length ≤ s.length) :
    Sq.strdealign s aseq = some (Sq.keptText aseq s, (Sq.keptText aseq s).length) :=
  Sq.strdealign_spec s aseq hl

theorem std_gapchars_ok :
    Sq.GapCharsOK G.dna ∧ Sq.GapCharsOK G.rna ∧ Sq.GapCharsOK G.amino ∧ Sq.GapCharsOK G.coins ∧ Sq.GapCharsOK G.dice := by
  decide +kernel

example : Sq.fetchText (str "A-c.*~G_") (some (str "<.>.,.:.")) = some { seq := str "Ac*G", ss := some (str "<>,:"), n := 4 } ∧
    Sq.fetchDigital G.dna (mkDsq [0, 4, 1, 4, 16, 17, 2, 4]) (some (str "<.>.,.:.")) =
      some { seq := mkDsq [0, 1, 16, 2], ss := some (str "<>,:"), n := 4 } := by decide +kernel

/-- **the ss buffer of a reused `ESL_SQ` across `esl_sq_GetFromMSA` calls** (`Sq.getAlloc`: `esl_sq_GrowTo` + first allocation +
    `strcpy`; a NULL `sq->ss` is allocated with `salloc` cells since fix 4807e60 — `exact = false`, what the driver mirrors):
    NO history of calls — any widths, SS line present or absent in any call, text (`extra = 1`) or digital (`extra = 2`) mode —
    copies past the buffer. Before the fix the buffer had the exact SS-line length (`exact = true`): the `example` below is the
    overflow this check found (10 columns, then 100, both with an SS line). -/
theorem get_from_msa_ss_buffer_safe (extra : Nat) (hist : List (Nat × Bool)) (st : Sq.SsAlloc) (h : Sq.SsInv st) :
    (Sq.getAllocRun false extra st hist).isSome = true :=
  Sq.getAllocRun_safe extra hist st h

example : Sq.SsInv { salloc := 256, ssCap := none } := Or.inl rfl
example : Sq.getAllocRun true 1 { salloc := 256, ssCap := none } [(10, true), (100, true)] = none ∧
    Sq.getAllocRun true 2 { salloc := 256, ssCap := none } [(10, true), (100, true)] = none ∧
    Sq.getAllocRun true 1 { salloc := 256, ssCap := none } [(10, true), (300, true), (20, false), (300, true)] =
      some { salloc := 301, ssCap := some 301 } ∧
    Sq.getAllocRun false 1 { salloc := 256, ssCap := none } [(10, true), (100, true)] = some { salloc := 256, ssCap := some 256 } := by
  decide

/-! ## round 4: more tables regenerated from the tree -/

/-- the character-class macros `esl_abc_CIs*` on all 256 (signed) chars and `esl_abc_XIs*` on all 256 codes, and
    `esl_abc_XGet{Gap,Unknown,Nonresidue,Missing}`, as evaluated by the code under check on this run for the five built-in
    alphabets, are the model's `cClass` / `xClass` / `gap … missing` (these classes decide what text-mode
    `esl_sq_CountResidues`, `esl_abc_ValidateSeq`, `esl_sq_Digitize`, `dsqrlen`, the dealigners and the counters skip) -/
theorem char_classes_regenerated :
    ((List.range 256).map G.dna.cClass = Generated.AlphabetsAux.cClass_dna ∧ (List.range 256).map G.dna.xClass = Generated.AlphabetsAux.xClass_dna ∧
      [G.dna.gap, G.dna.unknown, G.dna.nonresidue, G.dna.missing] = Generated.AlphabetsAux.xGet_dna) ∧
    ((List.range 256).map G.rna.cClass = Generated.AlphabetsAux.cClass_rna ∧ (List.range 256).map G.rna.xClass = Generated.AlphabetsAux.xClass_rna ∧
      [G.rna.gap, G.rna.unknown, G.rna.nonresidue, G.rna.missing] = Generated.AlphabetsAux.xGet_rna) ∧
    ((List.range 256).map G.amino.cClass = Generated.AlphabetsAux.cClass_amino ∧ (List.range 256).map G.amino.xClass = Generated.AlphabetsAux.xClass_amino ∧
      [G.amino.gap, G.amino.unknown, G.amino.nonresidue, G.amino.missing] = Generated.AlphabetsAux.xGet_amino) ∧
    ((List.range 256).map G.coins.cClass = Generated.AlphabetsAux.cClass_coins ∧ (List.range 256).map G.coins.xClass = Generated.AlphabetsAux.xClass_coins ∧
      [G.coins.gap, G.coins.unknown, G.coins.nonresidue, G.coins.missing] = Generated.AlphabetsAux.xGet_coins) ∧
    ((List.range 256).map G.dice.cClass = Generated.AlphabetsAux.cClass_dice ∧ (List.range 256).map G.dice.xClass = Generated.AlphabetsAux.xClass_dice ∧
      [G.dice.gap, G.dice.unknown, G.dice.nonresidue, G.dice.missing] = Generated.AlphabetsAux.xGet_dice) := by
  decide +kernel

/-- the letter classes and thresholds of `esl_abc_GuessAlphabet` read off the code: on 3 × 26 probe compositions (a DNA, an RNA
    and an empty background plus a few copies of one letter) and 12 threshold probes (10 / 11 residues, all-N 2000 / 2001, 2 % of
    100 and of 101, a missing canonical residue, U next to T) the code under check answered on this run what the integer model
    answers; with the DNA background the answer is amino exactly for the letters of `Guess.aaonly` (EFIJLOPQZ) -/
theorem guess_probe_regenerated :
    (List.range 78).map (fun i => Guess.guessZ (Guess.probe i)) ++ Guess.thresholdProbes.map Guess.guessZ =
      Generated.AlphabetsAux.guessProbe ∧
    (∀ l, l < 26 → (Generated.AlphabetsAux.guessProbe.getD l 0 = 3 ↔ l ∈ Guess.aaonly)) ∧
    Guess.thresholdProbes.map Guess.guessZ = [0, 2, 0, 2, 2, 0, 2, 0, 0, 2, 0, 1] := by
  decide +kernel

/-! ## round 4: custom alphabets — what a rejected call leaves behind, and the documented postcondition of each setter -/

/-- **rejected calls**: a rejected `SetEquiv` changes nothing (`custom_create_setequiv_status`); a rejected `SetDegeneracy`
    either changes nothing (the symbol is not a degenerate symbol `K < x < Kp-3`) or — the loop over `ds` stops at the first
    character `d` that is not a canonical residue symbol — leaves the alphabet exactly as the ACCEPTED call with the prefix of
    `ds` before `d` leaves it; a rejected `SetCaseInsensitive` (eslECORRUPT) leaves it as the accepted loop over the letters
    before the offending one, whose two cases are valid with different codes. (The C code does not roll back; mirrored.) -/
theorem custom_rejected_calls (a : Alphabet) (c : Nat) (ds : List Nat) :
    ((a.setDegeneracy c ds).1 ≠ .ok →
      (a.setDegeneracy c ds).2 = a ∨
      ∃ pre d post, ds = pre ++ d :: post ∧ (∀ e ∈ pre, a.canonSym e) ∧ ¬ a.canonSym d ∧
        (a.setDegeneracy c pre).1 = .ok ∧ (a.setDegeneracy c ds).2 = (a.setDegeneracy c pre).2) ∧
    (a.setCaseInsensitive.1 ≠ .ok →
      ∃ pre lc post, (List.range 26).map (· + 97) = pre ++ lc :: post ∧ (a.caseLoop pre).1 = .ok ∧
        (a.caseLoop pre).2.caseStep lc = none ∧ a.setCaseInsensitive.2 = (a.caseLoop pre).2) :=
  ⟨setDegeneracy_rejected a c ds, caseLoop_rejected _ a⟩

/-- **postcondition of an accepted `SetDegeneracy(a, c, ds)`**: row `x` (the code of `c`, `K < x < Kp-3`) flags exactly its
    old members and the residues listed in `ds`; `ndegen[x]` grew by `|ds|`; all other rows and counts, the input map, the
    symbols and the sizes are unchanged -/
theorem custom_setdegeneracy_post (a : Alphabet) (h : a.WFDegen) (c : Nat) (ds : List Nat) (hok : (a.setDegeneracy c ds).1 = .ok) :
    ∃ x, a.strchrSym c = some x ∧ a.K < x ∧ x + 3 < a.Kp ∧
      (∀ y, (((a.setDegeneracy c ds).2.degen.getD x []).getD y 0 ≠ 0 ↔
        ((a.degen.getD x []).getD y 0 ≠ 0 ∨ y ∈ ds.filterMap a.strchrSym))) ∧
      (a.setDegeneracy c ds).2.ndegen.getD x 0 = a.ndegen.getD x 0 + ds.length ∧
      (∀ x', x' ≠ x → (a.setDegeneracy c ds).2.degen.getD x' [] = a.degen.getD x' [] ∧
        (a.setDegeneracy c ds).2.ndegen.getD x' 0 = a.ndegen.getD x' 0) ∧
      (a.setDegeneracy c ds).2.inmap = a.inmap ∧ (a.setDegeneracy c ds).2.sym = a.sym ∧
      (a.setDegeneracy c ds).2.K = a.K ∧ (a.setDegeneracy c ds).2.Kp = a.Kp :=
  setDegeneracy_post a h c ds hok

/-- **postcondition of `SetIgnored(a, chars)`**: exactly the listed 7-bit characters map to `eslDSQ_IGNORED` (so digitising
    skips them), every other entry of the input map and every other table is unchanged;
    **of an accepted `SetCaseInsensitive(a)`**: for all 26 letters both cases are valid or both invalid and valid pairs share
    their code; every character that was valid keeps its code; nothing but letters changes -/
theorem custom_ignored_caseins_post (a : Alphabet) (hl : a.inmap.length = 128) (hk : a.Kp ≤ 250) (chars : List Nat) :
    ((∀ c, c < 128 → (a.setIgnored chars).inmapAt c = if c ∈ chars then IGNORED else a.inmapAt c) ∧
     (∀ c, c < 128 → c ∈ chars → (a.setIgnored chars).code c = none) ∧
     (a.setIgnored chars).sym = a.sym ∧ (a.setIgnored chars).degen = a.degen ∧ (a.setIgnored chars).ndegen = a.ndegen) ∧
    (a.setCaseInsensitive.1 = .ok →
      (∀ lc, 97 ≤ lc → lc ≤ 122 → a.setCaseInsensitive.2.cIsValid lc = a.setCaseInsensitive.2.cIsValid (lc - 32) ∧
        (a.setCaseInsensitive.2.cIsValid lc = true →
          a.setCaseInsensitive.2.inmapAt lc = a.setCaseInsensitive.2.inmapAt (lc - 32))) ∧
      (∀ c, a.cIsValid c = true → a.setCaseInsensitive.2.inmapAt c = a.inmapAt c) ∧
      (∀ c, ¬ (97 ≤ c ∧ c ≤ 122) → ¬ (65 ≤ c ∧ c ≤ 90) → a.setCaseInsensitive.2.inmapAt c = a.inmapAt c)) :=
  ⟨⟨(setIgnored_post a hl chars).1, fun c hc hm => setIgnored_code a hl hk chars c hc hm, rfl, rfl, rfl⟩,
   fun hok => setCaseInsensitive_post a hl hok⟩

example : G.dna.inmap.length = 128 ∧ G.dna.Kp ≤ 250 ∧ G.dna.setCaseInsensitive.1 = .ok ∧ G.amino.WFDegen := by decide +kernel

/-- non-vacuity: on the demo alphabet "ACGT-N*~" with K=4 there is no degenerate symbol, so take "ACGT-RYN*~": `R` := "AG!" is
    rejected at `!` and leaves `R` = {A, G} exactly as `R` := "AG" does; `SetCaseInsensitive` after `a`→C is eslECORRUPT -/
example :
    let a := (createCustom (str "ACGT-RYN*~") 4 10).getD G.dna
    (a.setDegeneracy (ch 'R') (str "AG!")).1 = .einval ∧
    (a.setDegeneracy (ch 'R') (str "AG!")).2 = (a.setDegeneracy (ch 'R') (str "AG")).2 ∧
    (a.setDegeneracy (ch 'R') (str "AG")).1 = .ok ∧ (a.setDegeneracy (ch 'R') (str "AG")).2.degenSet 5 = [0, 2] ∧
    ((a.setEquiv (ch 'a') (ch 'C')).2.setCaseInsensitive).1 = .ecorrupt ∧
    ((a.setIgnored (str " \t")).digitize (str "A C\tG")) = (.ok, mkDsq [0, 1, 2]) := by decide +kernel

/-! ## round 6: `esl_sq_Grow` / `esl_sq_GrowTo` allocation sizes; an `ESL_SQ` with `ss` + `xr` markup through every mode change -/

/-- **`esl_sq_Grow(sq, &nsafe)`** for ANY `n` (the "keep doubling" loop, not only "one cell short"; `n+2 ≤ 2^64`) and any
    `salloc ≥ 1`: `nsafe ≥ 1`; the new allocation is exactly `n + nsafe` cells (text) / `n + 1 + nsafe` (digital) — the `nsafe`
    cells the caller may write next, the NUL / sentinel counted as a residue, lie inside it —; it never shrinks, is the old
    size doubled `k` times, and is unchanged when there already was room -/
theorem sq_grow_covers (digital : Bool) (salloc n : Nat) (h1 : 1 ≤ salloc) (hn : n + 2 ≤ 2 ^ 64) :
    1 ≤ (Sq.sqGrowN digital salloc n).1 ∧
    ((Sq.sqGrowN digital salloc n).2 : Int) = n + (if digital then 1 else 0) + (Sq.sqGrowN digital salloc n).1 ∧
    salloc ≤ (Sq.sqGrowN digital salloc n).2 ∧ (∃ k, (Sq.sqGrowN digital salloc n).2 = salloc * 2 ^ k) ∧
    (n + (if digital then 2 else 1) ≤ salloc → (Sq.sqGrowN digital salloc n).2 = salloc) ∧
    (Sq.sqGrowN digital salloc n).2 = Sq.sqGrow digital salloc n :=
  ⟨(Sq.sqGrowN_spec digital salloc n h1 hn).1, (Sq.sqGrowN_spec digital salloc n h1 hn).2.1, (Sq.sqGrowN_spec digital salloc n h1 hn).2.2.1,
   (Sq.sqGrowN_spec digital salloc n h1 hn).2.2.2.1, (Sq.sqGrowN_spec digital salloc n h1 hn).2.2.2.2, Sq.sqGrowN_snd digital salloc n⟩

/-- **`esl_sq_GrowTo(sq, n)`**: the allocation afterwards holds `n` residues + NUL (text) / + both sentinels (digital), never
    shrinks, and is either unchanged or exactly that size -/
theorem sq_growto_covers (digital : Bool) (salloc n : Nat) :
    n + (if digital then 2 else 1) ≤ Sq.sqGrowTo digital salloc n ∧ salloc ≤ Sq.sqGrowTo digital salloc n ∧
    (Sq.sqGrowTo digital salloc n = salloc ∨ Sq.sqGrowTo digital salloc n = n + (if digital then 2 else 1)) :=
  Sq.sqGrowTo_spec digital salloc n

example : Sq.sqGrowN false 256 256 = (256, 512) ∧ Sq.sqGrowN true 256 255 = (256, 512) ∧ Sq.sqGrowN true 256 254 = (1, 256) ∧
    Sq.sqGrowN false 4 100 = (28, 128) ∧ Sq.sqGrowTo true 256 255 = 257 ∧ Sq.sqGrowTo false 256 255 = 256 := by decide

/-- `Sq.SqObj.Inv` (room for the residues and their terminators, every markup buffer of `salloc` cells, markup strings as long
    as the sequence) holds for what `esl_sq_CreateFrom` / `esl_sq_CreateDigitalFrom` build and is kept by Grow and GrowTo,
    which change nothing but the allocation (sequence and ALL markup buffers together) -/
theorem sq_object_grow_keeps_invariant (o : Sq.SqObj) (h : o.Inv) (hn : o.n + 2 ≤ 2 ^ 64) (k : Nat) :
    (o.grow.2.Inv ∧ 1 ≤ o.grow.1 ∧ (o.grow.2.salloc : Int) = o.n + (if o.digital then 1 else 0) + o.grow.1 ∧
      o.grow.2 = { o with salloc := o.grow.2.salloc, mcap := o.grow.2.salloc }) ∧
    ((o.growTo k).Inv ∧ k + (if o.digital then 2 else 1) ≤ (o.growTo k).salloc ∧
      o.growTo k = { o with salloc := (o.growTo k).salloc, mcap := (o.growTo k).salloc }) :=
  ⟨Sq.SqObj.grow_inv o h hn, Sq.SqObj.growTo_inv o h k⟩

/-- **appending a residue the way the sequence readers do** (`esl_sq_Grow`, store the residue and one character in EVERY markup
    buffer, `n++`, `esl_sq_Grow`, terminate everything), in either mode, at any length (`n + 3 ≤ 2^64`): both stores and both
    terminators are inside the allocations Grow left, the invariant is kept, exactly one residue and one markup character were
    appended, the allocation never shrinks — "after Grow the allocation covers what the caller will write" at object level -/
theorem sq_object_append_spec (o : Sq.SqObj) (h : o.Inv) (hn : o.n + 3 ≤ 2 ^ 64) (r m : Nat) :
    ∃ ns o', Sq.SqObj.append o r m = some (ns, o') ∧ o'.Inv ∧ o'.res = o.res ++ [r] ∧ o'.ss = o.ss.map (· ++ [m]) ∧
      o'.xr = o.xr.map (· ++ [m]) ∧ o'.digital = o.digital ∧ o.salloc ≤ o'.salloc :=
  Sq.SqObj.append_spec o h hn r m

/-- **`esl_sq_Digitize` / `esl_sq_Textize` on an object with `ss` and `xr` markup**: Digitize leaves a digital object alone,
    rejects text with a character outside the alphabet (eslEINVAL, object untouched), and on valid text gives one code per
    character with `salloc` raised to `n+2` when `esl_sq_CreateFrom`'s `n+1` was one short; Textize spells valid codes; in both
    the markup strings, `start`, `end` are unchanged and the `memmove` shifting EVERY markup buffer by one cell stays inside
    its allocation (the model's bounds check never fires: `≠ none`); the invariant is kept -/
theorem sq_object_digitize_textize (a : Alphabet) (o : Sq.SqObj) (h : o.Inv) :
    ((o.digital = true → Sq.SqObj.digitize a o = some (.ok, o)) ∧
     (o.digital = false → o.res.all a.cIsValid = false → Sq.SqObj.digitize a o = some (.einval, o)) ∧
     (o.digital = false → o.res.all a.cIsValid = true →
       Sq.SqObj.digitize a o = some (.ok, o.digitized a) ∧ (o.digitized a).Inv)) ∧
    (o.digital = true → (∀ x ∈ o.res, x < a.sym.length) →
      Sq.SqObj.textize a o = some (.ok, { o with digital := false, res := o.res.map a.symAt }) ∧
      ({ o with digital := false, res := o.res.map a.symAt } : Sq.SqObj).Inv) :=
  ⟨Sq.SqObj.digitize_spec a o h, fun hd hv => Sq.SqObj.textize_spec a o h hd hv⟩

/-- **Digitize then Textize on an object**: for a well-formed alphabet and valid text the round trip gives the canonical spelling
    of every character, the SAME `ss` / `xr` markup, `start`, `end`, and an allocation raised to at least `n+2` -/
theorem sq_object_roundtrip (a : Alphabet) (hw : a.WF) (o : Sq.SqObj) (h : o.Inv) (hd : o.digital = false)
    (hv : o.res.all a.cIsValid = true) :
    (Sq.SqObj.digitize a o).bind (fun r => Sq.SqObj.textize a r.2) =
      some (.ok, { o with res := o.res.map (fun c => a.symAt (a.inmapAt c)), salloc := o.dsz, mcap := o.dsz }) := by
  obtain ⟨e1, i1⟩ := (Sq.SqObj.digitize_spec a o h).2.2 hd hv
  rw [e1, Option.bind_some]
  have hcodes : ∀ x ∈ (o.digitized a).res, x < a.sym.length := by
    intro x hx
    have hx' : x ∈ o.res.map a.inmapAt := hx
    obtain ⟨c, hc, rfl⟩ := List.mem_map.mp hx'
    have := List.all_eq_true.mp hv c hc
    rw [hw.2.2.1]
    unfold cIsValid at this
    simp only [Bool.and_eq_true, decide_eq_true_eq] at this
    exact this.2
  rw [(Sq.SqObj.textize_spec a (o.digitized a) i1 rfl hcodes).1]
  simp [Sq.SqObj.digitized, hd, List.map_map, Function.comp_def]

example :
    let o : Sq.SqObj := { digital := false, res := str "acgu", salloc := 5, mcap := 5, ss := some (str "<..>"), xr := [str "1234"], start := 1, stop := 4 }
    (Sq.SqObj.digitize G.dna o).bind (fun r => Sq.SqObj.textize G.dna r.2) =
      some (.ok, { o with res := str "ACGT", salloc := 6, mcap := 6 }) := by decide +kernel

/-- **`esl_sq_ReverseComplement` and the markup**: in text mode (always; eslEINVAL when a non-nucleic character became `N`) and
    in digital mode with a complement table, the sequence becomes its reverse complement (same length), `ss` is NULL, ALL extra
    residue markup is dropped (`nxr = 0`: c71354f), `start`/`end` are swapped, the allocation is unchanged; a digital alphabet
    without complement answers eslEINCOMPAT and the object, markup included, is untouched -/
theorem sq_revcomp_markup (a : Alphabet) (o : Sq.SqObj) (h : o.Inv) :
    (o.digital = false → ∃ st, (st = .ok ∨ st = .einval) ∧
      Sq.SqObj.revcomp a o = some (st, { o with res := (Sq.revcompText o.res).2, ss := none, xr := [], start := o.stop, stop := o.start }) ∧
      (Sq.revcompText o.res).2.length = o.n ∧
      ({ o with res := (Sq.revcompText o.res).2, ss := none, xr := [], start := o.stop, stop := o.start } : Sq.SqObj).Inv) ∧
    (o.digital = true → a.complement = none → Sq.SqObj.revcomp a o = some (.eincompat, o)) ∧
    (o.digital = true → ∀ comp, a.complement = some comp → (∀ x ∈ o.res, x < comp.length) →
      Sq.SqObj.revcomp a o = some (.ok, { o with res := o.res.reverse.map (compAt comp), ss := none, xr := [], start := o.stop, stop := o.start }) ∧
      ({ o with res := o.res.reverse.map (compAt comp), ss := none, xr := [], start := o.stop, stop := o.start } : Sq.SqObj).Inv) :=
  Sq.SqObj.revcomp_markup a o h

/-- **`esl_sq_Copy` into a fresh object, all four mode combinations, markup included** (text → digital copies the extra residue
    markup whether or not there is an `ss` line since fix cdfb777 — the defect this round's model found): an eslOK copy holds the
    converted residues, the SAME `ss` and `xr` strings, `start`, `end`, an allocation of `max(256, n+1 | n+2)` cells for the
    sequence and for every markup buffer (every `strcpy` fits) and satisfies the invariant; text → digital of text with a
    character outside the alphabet answers eslEINVAL and leaves the emptied destination of `esl_sq_Reuse` -/
theorem sq_object_copy_spec (a : Alphabet) (o : Sq.SqObj) (h : o.Inv) (toDigital : Bool) :
    let salloc := Sq.sqGrowTo toDigital Sq.eslSQ_SEQCHUNK o.n
    (o.digital = false → toDigital = false →
      Sq.SqObj.copyTo a o toDigital = some (.ok, { o with salloc := salloc, mcap := salloc })) ∧
    (o.digital = true → toDigital = true →
      Sq.SqObj.copyTo a o toDigital = some (.ok, { o with salloc := salloc, mcap := salloc })) ∧
    (o.digital = false → toDigital = true → o.res.all a.cIsValid = true →
      Sq.SqObj.copyTo a o toDigital = some (.ok, { o with digital := true, res := o.res.map a.inmapAt, salloc := salloc, mcap := salloc })) ∧
    (o.digital = false → toDigital = true → o.res.all a.cIsValid = false →
      Sq.SqObj.copyTo a o toDigital = some (.einval, Sq.SqObj.reusedDst true salloc o.ss.isSome)) ∧
    (o.digital = true → toDigital = false → (∀ x ∈ o.res, x < a.sym.length) →
      Sq.SqObj.copyTo a o toDigital = some (.ok, { o with digital := false, res := o.res.map a.symAt, salloc := salloc, mcap := salloc })) ∧
    (∀ o', (o.digital = true → toDigital = false → ∀ x ∈ o.res, x < a.sym.length) →
      Sq.SqObj.copyTo a o toDigital = some (.ok, o') → o'.Inv ∧ o'.ss = o.ss ∧ o'.xr = o.xr ∧ o'.n = o.n ∧
      o'.start = o.start ∧ o'.stop = o.stop ∧ o'.digital = toDigital) :=
  Sq.SqObj.copyTo_spec a o h toDigital

/-- non-vacuity: `esl_sq_CreateFrom("ACGT", ss "<..>")` + two markup lines satisfies the invariant; Digitize raises `salloc` 5 → 6
    and keeps all markup; ReverseComplement drops it and swaps the coordinates; the copy to digital mode keeps it -/
example :
    let o : Sq.SqObj := { digital := false, res := str "ACGT", salloc := 5, mcap := 5, ss := some (str "<..>"),
                          xr := [str "1234", str "abcd"], start := 1, stop := 4 }
    Sq.mkObj false false (str "ACGT") (some (str "<..>")) [str "1234", str "abcd"] = some o ∧
    Sq.SqObj.digitize G.dna o = some (.ok, { o with digital := true, res := [0, 1, 2, 3], salloc := 6, mcap := 6 }) ∧
    Sq.SqObj.revcomp G.dna o = some (.ok, { o with res := str "ACGT", ss := none, xr := [], start := 4, stop := 1 }) ∧
    Sq.SqObj.revcomp G.amino { o with digital := true, res := [0, 1, 2, 3], salloc := 6, mcap := 6 } =
      some (.eincompat, { o with digital := true, res := [0, 1, 2, 3], salloc := 6, mcap := 6 }) ∧
    Sq.SqObj.copyTo G.dna { o with ss := none } true =
      some (.ok, { o with digital := true, res := [0, 1, 2, 3], salloc := 256, mcap := 256, ss := none }) := by decide +kernel
example : (Sq.mkObj false false (str "ACGT") (some (str "<..>")) [str "1234"]).all (fun o => decide (o.salloc = 5 ∧ o.mcap = 5)) = true := by
  decide
example (o : Sq.SqObj) (h : Sq.mkObj true false [0, 1, 2] (some (str "<.>")) [] = some o) : o.Inv :=
  Sq.SqObj.mkObj_inv true [0, 1, 2] (some (str "<.>")) [] (by decide) (by decide) o h

/-- **`esl_abc_CreateDsq` / `esl_abc_dsqlen`**: `CreateDsq` allocates `strlen(seq)+2` codes and calls `Digitize`: the digitised array
    never has more than `|seq| + 2` cells (ignored characters only shorten it), and `esl_abc_dsqlen` of the result is the number
    of non-ignored characters — for every alphabet and every string -/
theorem createdsq_allocation_dsqlen (a : Alphabet) (h : 3 ≤ a.Kp) (hk : a.Kp ≤ 250) (seq : List Nat) :
    (a.digitize seq).2.length ≤ seq.length + 2 ∧ dsqlen (a.digitize seq).2 = some (seq.filterMap a.code).length := by
  have hd := (digitize_sentinels a h hk seq)
  rw [hd.1]
  refine ⟨?_, dsqlen_mkDsq _ (fun hm => (hd.2 _ hm).2 rfl)⟩
  simp only [mkDsq, List.length_cons, List.length_append, List.length_nil]
  have := List.length_filterMap_le a.code seq
  omega

example : dsqlen (G.dna.digitize (str "AC GT")).2 = some 5 ∧ dsqlen ((G.dna.setIgnored [32]).digitize (str "AC GT")).2 = some 4 := by
  decide +kernel

/-! ## round 6b: `esl_sq_Copy` into a REUSED destination, `esl_sq_Reuse` -/

/-- **`esl_sq_Copy(src, dst)` into ANY consistent destination (repaired form `fixed = true`)**: whatever `dst` held before — a longer or
    shorter sequence, an `ss` line or none, any number of `xr` lines, straight after `esl_sq_Reuse` or not — and whatever the answer
    (eslOK, or eslEINVAL for text → digital with a character outside the alphabet), `dst` is left a consistent object of its own mode:
    allocation never shrunk and = GrowTo(`src->n`), every markup buffer of that size, markup strings as long as the sequence; after
    eslOK it has EXACTLY the source's `ss` / `xr` strings (none if the source has none), `n`, `start`, `end`. `esl_sq_Reuse` and the
    constructors keep / establish the invariant; into a fresh destination this is `sq_object_copy_spec`'s `copyTo` (both forms). -/
theorem sq_copy_reused_destination (a : Alphabet) (o dst : Sq.SqObj) (h : o.Inv) (hd : dst.Inv)
    (hcodes : o.digital = true → dst.digital = false → ∀ x ∈ o.res, x < a.sym.length) (st : Status) (o' : Sq.SqObj)
    (e : Sq.SqObj.copyInto true a o dst = some (st, o')) :
    (o'.Inv ∧ o'.digital = dst.digital ∧ dst.salloc ≤ o'.salloc ∧ o'.salloc = Sq.sqGrowTo dst.digital dst.salloc o.n ∧
      (st = .ok ∨ st = .einval) ∧
      (st = .ok → o'.ss = o.ss ∧ o'.xr = o.xr ∧ o'.n = o.n ∧ o'.start = o.start ∧ o'.stop = o.stop) ∧
      (st ≠ .ok → o'.n = 0 ∧ o'.xr = [] ∧ o.digital = false ∧ dst.digital = true ∧ o.res.all a.cIsValid = false)) ∧
    dst.reuse.Inv ∧ (∀ m, (Sq.SqObj.fresh m).Inv) ∧
    (∀ f m, Sq.SqObj.copyInto f a o (Sq.SqObj.fresh m) = Sq.SqObj.copyTo a o m) :=
  ⟨Sq.SqObj.copyInto_fixed_spec a o dst h hd hcodes st o' e, Sq.SqObj.reuse_inv dst hd, Sq.SqObj.fresh_inv,
   fun f m => Sq.SqObj.copyInto_fresh f a o m⟩

/-- the two sources of the regenerated probe: "ACGTACGT" with an SS line, then "ACG" without -/
def reuseSrc1 : Sq.SqObj := { digital := false, res := str "ACGTACGT", salloc := 9, mcap := 9, ss := some (str "<<....>>"), xr := [], start := 1, stop := 8 }
def reuseSrc2 : Sq.SqObj := { digital := false, res := str "ACG", salloc := 4, mcap := 4, ss := none, xr := [], start := 1, stop := 3 }

/-- which form the tree has is regenerated every run (`sqCopyReusedProbe` = 1: the destination keeps a stale `ss`; 0: released): the model
    in that form answers what the code answered. In the STALE form the copy is NOT a consistent object — 3 residues under the previous
    sequence's 8-character structure line (`esl_sq_Validate` fails): the defect found in round 6b (patch `C08-sqcopy-reused-dst-stale-markup`) -/
theorem sq_copy_reused_probe_regenerated :
    ((Sq.SqObj.copyInto (Generated.AlphabetsAux.sqCopyReusedProbe == 0) G.dna reuseSrc1 (Sq.SqObj.fresh false)).bind fun r =>
      (Sq.SqObj.copyInto (Generated.AlphabetsAux.sqCopyReusedProbe == 0) G.dna reuseSrc2 r.2).map fun r2 => r2.2.ss.isSome) =
      some (Generated.AlphabetsAux.sqCopyReusedProbe == 1) ∧
    ((Sq.SqObj.copyInto false G.dna reuseSrc1 (Sq.SqObj.fresh false)).bind fun r =>
      (Sq.SqObj.copyInto false G.dna reuseSrc2 r.2).map fun r2 => (r2.2.n, r2.2.ss)) = some (3, some (str "<<....>>")) ∧
    ((Sq.SqObj.copyInto true G.dna reuseSrc1 (Sq.SqObj.fresh false)).bind fun r =>
      (Sq.SqObj.copyInto true G.dna reuseSrc2 r.2).map fun r2 => (r2.2.n, r2.2.ss)) = some (3, none) := by decide +kernel

example : reuseSrc1.Inv ∧ reuseSrc2.Inv :=
  ⟨⟨by decide, rfl, fun s hs => by cases hs; rfl, fun s hs => (by cases hs)⟩, ⟨by decide, rfl, fun s hs => (by cases hs), fun s hs => (by cases hs)⟩⟩

/-! ## round 6: case-insensitivity of the input map; the value of `esl_sq_Checksum` -/

/-- `esl_alphabet_CreateCustom("ACGT-N*~", 4, 8)` -/
def demoCustomBase : Alphabet := (createCustom (str "ACGT-N*~") 4 8).getD G.dna

/-- **built-in alphabets, regenerated tables**: for ALL 26 letters the upper-case and the lower-case ENTRY of the input map
    are equal (same code, or both `eslDSQ_ILLEGAL`) — no built-in constructor leaves a symbol or synonym whose two cases map
    differently; hence each table is `CaseInsensitive` in the sense used for custom alphabets -/
theorem std_case_insensitive :
    (∀ a ∈ [G.dna, G.rna, G.amino, G.coins, G.dice], a.sameCaseEntries = true) ∧
    (∀ a ∈ [G.dna, G.rna, G.amino, G.coins, G.dice], a.CaseInsensitive) := by
  have h : ∀ a ∈ [G.dna, G.rna, G.amino, G.coins, G.dice], a.sameCaseEntries = true := by decide +kernel
  exact ⟨h, fun a ha => caseInsensitive_of_entries a (h a ha)⟩

/-- **custom alphabets, every history**: whatever calls came first (`pre`, any statuses), once `SetCaseInsensitive` returns eslOK
    the input map reads both cases of every letter alike — this covers every mapping, symbol or synonym, present when it ran —,
    and it still does after ANY further calls that do not name a letter as a new synonym or ignored character (the documented
    order: synonyms first, `SetCaseInsensitive` last); a later letter synonym does break it (`later_letter_synonym_breaks`) -/
theorem custom_history_case_insensitive (a : Alphabet) (pre post : List Call) (hl : (a.run pre).2.inmap.length = 128)
    (hok : (a.run pre).2.setCaseInsensitive.1 = .ok) (hpost : ∀ c ∈ post, c.keepsCase) :
    (a.run (pre ++ Call.caseins :: post)).2.CaseInsensitive ∧
    (∃ b : Alphabet, b.CaseInsensitive ∧ ¬ (b.setEquiv 98 65).2.CaseInsensitive) :=
  ⟨history_case_insensitive a pre post hl hok hpost, later_letter_synonym_breaks⟩

example : (demoCustomBase.run [.equiv 49 45, .equiv 110 78]).2.inmap.length = 128 ∧
    (demoCustomBase.run [.equiv 49 45, .equiv 110 78]).2.setCaseInsensitive.1 = .ok ∧
    (∀ c ∈ [Call.degen 78 [65], .ignored [32, 9], .equiv 38 126, .caseins], c.keepsCase) := by
  refine ⟨by decide +kernel, by decide +kernel, ?_⟩
  intro c hc
  simp only [List.mem_cons, List.not_mem_nil, or_false] at hc
  rcases hc with rfl | rfl | rfl | rfl <;> simp [Call.keepsCase]

/-- **custom alphabets, every history: `ndegen[x]` = size of the set of `x` and every row has exactly `K` flags (a subset of the
    canonical residues)** after CreateCustom and ANY history of calls in any order with any statuses, provided each
    `SetDegeneracy` lists pairwise distinct residues not yet in the set (`cleanRun`: checked at the moment of the call; a
    rejected call leaves the effect of its accepted prefix, also clean) — so the averaging / counting theorems apply -/
theorem custom_history_wfdegen (syms : List Nat) (K : Nat) (a : Alphabet) (hK : 1 ≤ K) (hKp : K + 4 ≤ syms.length)
    (h : createCustom syms K syms.length = some a) (hist : List Call) (hc : cleanRun a hist) :
    (a.run hist).2.WFDegen ∧
    ∀ x, x < (a.run hist).2.Kp → ((a.run hist).2.degen.getD x []).length = (a.run hist).2.K ∧
      (a.run hist).2.ndegen.getD x 0 = ((a.run hist).2.degenSet x).length := by
  have hw := run_wfdegen hist a (createCustom_wfdegen syms K a hK hKp h).1 hc
  exact ⟨hw, hw.2.2⟩

example : cleanRun (createCustom (str "ACGT-RYN*~") 4 10 |>.getD G.dna)
    [.degen 82 (str "AG"), .equiv 117 84, .degen 89 (str "CT!"), .caseins, .degen 65 (str "C"), .ignored [32]] := by
  decide +kernel

/-- **`esl_sq_Checksum`'s value** (the model is the exact `uint32_t` computation, compared with the code on every generated
    sequence): each step `val += x; val += val << 10; val ^= val >> 6` is a bijection of the state for a fixed residue and
    injective in the residue, the final mixing is a bijection — so the checksum tells apart ANY two sequences that differ in
    exactly one residue, in digital mode and in text mode (bytes ≥ 0x80 are sign-extended there) -/
theorem sq_checksum_detects_substitution (pre post : List Nat) (x y : Nat) (hx : x < 256) (hy : y < 256) (hne : x ≠ y) :
    Sq.checksumDigital (pre ++ x :: post) ≠ Sq.checksumDigital (pre ++ y :: post) ∧
    Sq.checksumText (pre ++ x :: post) ≠ Sq.checksumText (pre ++ y :: post) :=
  Sq.checksum_substitution pre post x y hx hy hne

/-- the state maps themselves: injective in the state, injective in the residue, final mixing injective -/
theorem sq_checksum_steps_injective (v w b c : UInt32) :
    (Sq.ckStep v b = Sq.ckStep w b → v = w) ∧ (Sq.ckStep v b = Sq.ckStep v c → b = c) ∧ (Sq.ckFinal v = Sq.ckFinal w → v = w) :=
  ⟨Sq.ckStep_inj_left v w b, Sq.ckStep_inj_right v b c, Sq.ckFinal_inj v w⟩

example : Sq.checksumDigital [] = 0 ∧ Sq.checksumText (str "ACGT") = Sq.checksumDigital (str "ACGT") ∧
    Sq.checksumDigital [0, 1, 2, 3] ≠ Sq.checksumDigital [0, 1, 2, 2] ∧ Sq.checksumText [65, 200] ≠ Sq.checksumDigital [65, 200] := by
  decide

/-! ## degenerate scores and counts (over ℚ: the code as a rational function; IEEE rounding is L0, compared bit-exactly
      against the real code by the correspondence run) -/

/-- `esl_abc_{F,D}AvgScore(a, x, sc)` = the mean of `sc` over the set of canonical residues `x` stands for
    (for a canonical `x` the set is `{x}`: its own score; for `any` all `K` residues) -/
theorem avg_score_is_mean (a : Alphabet) (h : a.WFDegen) (x : Nat) (hx : x < a.Kp) (hres : a.xIsResidue x = true)
    (sc : List ℚ) (hsc : a.K ≤ sc.length) :
    a.avgScore x sc = some (((a.degenSet x).map fun i => sc.getD i 0).sum / ((a.degenSet x).length : ℚ)) :=
  avgScore_mean a h x hx hres sc hsc

/-- gap, nonresidue, missing and invalid codes score 0 -/
theorem avg_score_nonresidue (a : Alphabet) (x : Nat) (hres : a.xIsResidue x = false) (sc : List ℚ) :
    a.avgScore x sc = some 0 := avgScore_nonresidue a x hres sc

/-- `esl_abc_{F,D}ExpectScore` = the `p`-weighted average over the set -/
theorem expect_score_is_weighted_mean (a : Alphabet) (h : a.WFDegen) (x : Nat) (hx : x < a.Kp)
    (hres : a.xIsResidue x = true) (sc p : List ℚ) (hsc : a.K ≤ sc.length) (hp : a.K ≤ p.length) :
    a.expectScore x sc p = some (((a.degenSet x).map fun i => sc.getD i 0 * p.getD i 0).sum /
      ((a.degenSet x).map fun i => p.getD i 0).sum) :=
  expectScore_weighted a h x hx hres sc p hsc hp

/-- `esl_abc_{F,D}Count` of a degenerate code splits `wt` equally: each member of the set gets `wt/|set|`, every other
    counter is unchanged, and the shares sum to `wt` -/
theorem count_splits_equally (a : Alphabet) (h : a.WFDegen) (x : Nat) (hx : x < a.Kp) (hdeg : a.xIsDegenerate x = true)
    (ct : List ℚ) (hct : a.K ≤ ct.length) (wt : ℚ) :
    ∃ ct', a.count ct x wt = some ct' ∧ ct'.length = ct.length ∧
      (∀ y, ct'.getD y 0 = ct.getD y 0 + (if y ∈ a.degenSet x then wt / ((a.degenSet x).length : ℚ) else 0)) ∧
      ((a.degenSet x).length ≠ 0 → ((a.degenSet x).map fun _ => wt / ((a.degenSet x).length : ℚ)).sum = wt) :=
  count_equal_split a h x hx hdeg ct hct wt

/-- `esl_abc_Match(abc, x, y, p)` for two residue codes at least one of which is degenerate: the probability that residues
    drawn from `p` restricted to the two sets are identical, Σ_{i ∈ S(x)∩S(y)} p_i² / (Σ_{S(x)} p_i · Σ_{S(y)} p_i)
    (`flagSum`/`flagSum2` = sums over the flagged entries of the `degen` rows) -/
theorem match_formula (a : Alphabet) (h : a.WFDegen) (x y : Nat) (hx : x < a.Kp) (hy : y < a.Kp)
    (hrx : a.xIsResidue x = true) (hry : a.xIsResidue y = true) (hnc : (a.xIsCanonical x && a.xIsCanonical y) = false)
    (p : List ℚ) (hp : a.K ≤ p.length) :
    a.matchProb x y (some p) =
      some (flagSum2 (a.degen.getD x []) (a.degen.getD y []) (fun j => p.getD j 0 * p.getD j 0) 0 a.K /
        (flagSum (a.degen.getD x []) (fun j => p.getD j 0) 0 a.K * flagSum (a.degen.getD y []) (fun j => p.getD j 0) 0 a.K)) :=
  matchProb_formula a h x y hx hy hrx hry hnc p hp

/-- `esl_abc_Match(abc, x, y, NULL)` (uniform background) for two residue codes at least one of which is degenerate:
    |S(x) ∩ S(y)| / (|S(x)| · |S(y)|) — the probability that residues drawn uniformly from the two sets are identical -/
theorem match_uniform (a : Alphabet) (h : a.WFDegen) (hK : 1 ≤ a.K) (x y : Nat) (hx : x < a.Kp) (hy : y < a.Kp)
    (hrx : a.xIsResidue x = true) (hry : a.xIsResidue y = true) (hnc : (a.xIsCanonical x && a.xIsCanonical y) = false) :
    a.matchProb x y (none : Option (List ℚ)) =
      some (((a.commonSet x y).length : ℚ) / (((a.degenSet x).length : ℚ) * ((a.degenSet y).length : ℚ))) :=
  matchProb_uniform a h hK x y hx hy hrx hry hnc

/-- DNA: R = {A,G} against N = {A,C,G,T}: 2 / (2·4); R against Y = {C,T}: 0 -/
example : G.dna.commonSet 5 15 = [0, 2] ∧ G.dna.commonSet 5 6 = [] ∧ G.dna.matchProb 5 15 (none : Option (List ℚ)) = some (1/4) := by
  decide +kernel

/-- canonical pairs match iff equal; anything involving a gap, nonresidue, missing or invalid code scores 0 -/
theorem match_easy_cases (a : Alphabet) (x y : Nat) (p : Option (List ℚ)) :
    ((a.xIsCanonical x && a.xIsCanonical y) = true → a.matchProb x y p = some (if x = y then 1 else 0)) ∧
    ((a.xIsCanonical x && a.xIsCanonical y) = false → (a.xIsResidue x = false ∨ a.xIsResidue y = false) →
      a.matchProb x y p = some 0) := by
  refine ⟨fun h => ?_, fun h1 h2 => ?_⟩
  · unfold matchProb; rw [if_pos h]; by_cases e : x = y <;> simp [e]
  · unfold matchProb
    rw [if_neg (by simp [h1])]
    rcases h2 with h2 | h2 <;> simp [h2]

/-- the degeneracy set read off the dumped table is the IUPAC set (as residue indices): ties `degenSet` above to
    `degen_is_iupac` — e.g. DNA `R` ↦ [A, G] = [0, 2], `N` ↦ [0,1,2,3]; amino `B` ↦ [D, N] = [2, 11] -/
theorem degen_set_examples :
    G.dna.degenSet 5 = [0, 2] ∧ G.dna.degenSet 15 = [0, 1, 2, 3] ∧ G.dna.degenSet 4 = [] ∧ G.amino.degenSet 21 = [2, 11] ∧
    G.amino.degenSet 22 = [7, 9] ∧ G.amino.degenSet 23 = [3, 13] ∧ G.amino.degenSet 24 = [8] ∧ G.amino.degenSet 25 = [1] := by
  decide +kernel

/-! ## non-vacuity -/
/-- the custom alphabet of the unit test `utest_SetEquiv`: "ACGT-N*~" + three synonyms + case-insensitivity -/
def demoCustom : Alphabet :=
  (((((createCustom (str "ACGT-N*~") 4 8).getD G.dna).setEquiv (ch 'a') (ch 'A')).2.setEquiv (ch '1') (ch '-')).2.setEquiv
    (ch '&') (ch '~')).2.setCaseInsensitive.2
example : Built demoCustom := by
  have h0 : createCustom (str "ACGT-N*~") 4 8 = some ((createCustom (str "ACGT-N*~") 4 8).getD G.dna) := by decide +kernel
  exact Built.caseins _ (Built.equiv _ (Built.equiv _ (Built.equiv _
    (Built.create (str "ACGT-N*~") 4 (by decide) (by decide) (by decide) (by decide) (by decide) _ h0) _ _) _ _) _ _)
example : (demoCustom.run [.equiv 50 65, .degen 78 [65], .caseins, .ignored [32, 9], .degen 65 [67], .equiv 65 67]).1 =
    [.ok, .einval, .ok, .ok, .einval, .einval] := by decide +kernel
example : demoCustom.digitize (str "a1&") = (.ok, [255, 0, 4, 7, 255]) := by decide +kernel
example : G.dna.WFDegen ∧ G.dna.xIsResidue 5 = true ∧ G.dna.xIsDegenerate 5 = true := by decide +kernel
example : G.dna.WF := by decide +kernel
example : G.dna.WFComp [3, 2, 1, 0, 4, 6, 5, 8, 7, 9, 10, 14, 13, 12, 11, 15, 16, 17] := by decide +kernel
example : G.dna.digitize (str "acgu nX-.") = (.einval, [255, 0, 1, 2, 3, 15, 15, 15, 4, 4, 255]) := by decide +kernel
example : G.dna.revcomp (mkDsq [0, 5, 15, 3, 3]) 5 = .ok (some (mkDsq [0, 0, 15, 6, 3])) := by rfl

end EaselModel.Props.C08
