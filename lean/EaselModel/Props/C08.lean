import EaselModel.Generated.Alphabets
import EaselModel.Alphabet.RevcompLemmas
import EaselModel.Alphabet.ScoreLemmas
import EaselModel.Alphabet.CustomLemmas
import EaselModel.Alphabet.CatLemmas
import EaselModel.Alphabet.SqLemmas
import EaselModel.Alphabet.DealignLemmas
import EaselModel.Alphabet.CustomDegen
import EaselModel.Alphabet.DegenLemmas
import EaselModel.Alphabet.ScVecLemmas
import EaselModel.Alphabet.GuessLemmas
/-! # C08 — property theorems (statements + glue only; lemmas live in Alphabet/*.lean)

`G.dna`, `G.rna`, `G.amino`, `G.coins`, `G.dice` are the tables dumped from the code under check on this run
(`Generated/Alphabets.lean`); `Iupac.*` is the hand-written statement of the IUPAC codes. Table theorems are closed by
`decide` over the whole table. The conversion theorems hold for EVERY alphabet (standard or custom) satisfying the stated
well-formedness predicate and EVERY byte string — no bound on the length. -/
namespace EaselModel.Props.C08
open EaselModel.Alphabet EaselModel.Alphabet.Alphabet EaselModel.Alphabet.Iupac
namespace G
export EaselModel.Generated.Alphabets (dna rna amino coins dice c_SENTINEL c_ILLEGAL c_IGNORED c_EOL c_EOD
  c_eslRNA c_eslDNA c_eslAMINO c_eslCOINS c_eslDICE c_eslNONSTANDARD dna_symlen rna_symlen amino_symlen)
end G

/-! ## tables (finite quantifier ⇒ `decide` is a proof) -/

/-- the hand model of `create_dna()` … `create_dice()` (CreateCustom + SetEquiv + SetCaseInsensitive + SetDegeneracy +
    set_complementarity) reproduces every field of the dumped tables (for the two toy alphabets every field except the
    `type` tag, which no conversion reads: `create_dice()` currently tags itself eslCOINS) -/
theorem ctor_reproduces_tables :
    createDna = some G.dna ∧ createRna = some G.rna ∧ createAmino = some G.amino ∧
    createCoins.map (fun a => { a with type := 0 }) = some { G.coins with type := 0 } ∧
    createDice.map (fun a => { a with type := 0 }) = some { G.dice with type := 0 } := by decide +kernel

theorem constants_agree :
    G.c_SENTINEL = SENTINEL ∧ G.c_ILLEGAL = ILLEGAL ∧ G.c_IGNORED = IGNORED ∧ G.c_EOL = EOL ∧ G.c_EOD = EOD ∧
    G.c_eslRNA = eslRNA ∧ G.c_eslDNA = eslDNA ∧ G.c_eslAMINO = eslAMINO ∧ G.c_eslNONSTANDARD = eslNONSTANDARD ∧
    G.dna_symlen = G.dna.Kp ∧ G.rna_symlen = G.rna.Kp ∧ G.amino_symlen = G.amino.Kp := by decide

/-- symbol strings and the order convention: K canonical residues, gap at K, degeneracies, any at Kp-3, nonresidue at
    Kp-2, missing at Kp-1; canonical residues denote themselves, `any` all of them, gap/nonresidue/missing nothing -/
theorem symbol_order :
    OrderOK .dna G.dna ∧ OrderOK .rna G.rna ∧ OrderOK .amino G.amino ∧ OrderOK .coins G.coins ∧ OrderOK .dice G.dice := by
  decide +kernel

/-- every one of the 128 input characters is read as its canonical (upper-case, synonym-free) symbol, or is illegal -/
theorem inmap_canonical :
    InmapCanonical .dna G.dna ∧ InmapCanonical .rna G.rna ∧ InmapCanonical .amino G.amino ∧
    InmapCanonical .coins G.coins ∧ InmapCanonical .dice G.dice := by decide +kernel

/-- each symbol denotes exactly its documented (IUPAC) set of canonical residues -/
theorem degen_is_iupac :
    DegenIsIupac .dna G.dna ∧ DegenIsIupac .rna G.rna ∧ DegenIsIupac .amino G.amino ∧
    DegenIsIupac .coins G.coins ∧ DegenIsIupac .dice G.dice := by decide +kernel

theorem ndegen_is_card :
    NdegenIsCard .dna G.dna ∧ NdegenIsCard .rna G.rna ∧ NdegenIsCard .amino G.amino ∧
    NdegenIsCard .coins G.coins ∧ NdegenIsCard .dice G.dice := by decide +kernel

/-- the complement table is an involution on the codes (nucleic alphabets); the others have none -/
theorem complement_involutive :
    HasInvolutiveComplement G.dna ∧ HasInvolutiveComplement G.rna ∧
    G.amino.complement = none ∧ G.coins.complement = none ∧ G.dice.complement = none := by decide +kernel

/-- complementing a symbol complements its set: `y ∈ set (comp x)` iff the Watson-Crick partner of `y` is in `set x`;
    gap, nonresidue, missing and `any` are fixed -/
theorem complement_complements_set :
    ComplementComplementsSet .dna G.dna ∧ ComplementComplementsSet .rna G.rna := by decide +kernel

/-- the standard alphabets satisfy the hypotheses of the general theorems below (non-vacuity of `WF`, `WFDegen`) -/
theorem std_wf :
    (G.dna.WF ∧ G.rna.WF ∧ G.amino.WF ∧ G.coins.WF ∧ G.dice.WF) ∧
    (G.dna.WFDegen ∧ G.rna.WFDegen ∧ G.amino.WFDegen ∧ G.coins.WFDegen ∧ G.dice.WFDegen) := by decide +kernel

/-! ## conversions (every alphabet, every string) -/

/-- `esl_abc_Digitize` yields sentinel, the code of every non-ignored character in order (case/synonyms resolved by the
    input map; a character outside the alphabet — including any byte ≥ 0x80 — becomes the `any` code), sentinel; and the
    status is `eslOK` iff every character belongs to the alphabet. No hypothesis on the alphabet. -/
theorem digitize_spec (a : Alphabet) (seq : List Nat) :
    a.digitize seq =
      (if seq.all a.charOK then .ok else .einval, SENTINEL :: seq.filterMap a.code ++ [SENTINEL]) :=
  digitize_eq_spec a seq

/-- invalid input is reported exactly when some character is outside the alphabet -/
theorem digitize_status (a : Alphabet) (seq : List Nat) :
    ((a.digitize seq).1 = .einval ↔ ∃ c ∈ seq, a.charOK c = false) ∧
    ((a.digitize seq).1 = .ok ↔ ∀ c ∈ seq, a.charOK c = true) := by
  rw [digitize_eq_spec]; unfold digitizeSpec
  by_cases h : ∀ c ∈ seq, a.charOK c = true
  · have hall : seq.all a.charOK = true := List.all_eq_true.mpr h
    have hne : ¬ ∃ c ∈ seq, a.charOK c = false := fun ⟨c, hc, hf⟩ => by rw [h c hc] at hf; cases hf
    dsimp only
    rw [if_pos hall]
    exact ⟨⟨fun e => (by cases e), fun e => absurd e hne⟩, ⟨fun _ => h, fun _ => rfl⟩⟩
  · have hall : ¬ seq.all a.charOK = true := fun e => h (List.all_eq_true.mp e)
    have hex : ∃ c ∈ seq, a.charOK c = false := by simpa using h
    dsimp only
    rw [if_neg hall]
    exact ⟨⟨fun _ => hex, fun _ => rfl⟩, ⟨fun e => (by cases e), fun e => absurd e h⟩⟩

/-- the output is sentinel-delimited: every inner code is a valid code `< Kp`, hence no inner byte is a sentinel -/
theorem digitize_sentinels (a : Alphabet) (h : 3 ≤ a.Kp) (hk : a.Kp ≤ 250) (seq : List Nat) :
    (a.digitize seq).2 = mkDsq (seq.filterMap a.code) ∧
    ∀ x ∈ seq.filterMap a.code, x < a.Kp ∧ x ≠ SENTINEL := by
  rw [digitize_eq_spec]
  refine ⟨rfl, fun x hx => ?_⟩
  have := filterMap_code_lt a h seq x hx
  exact ⟨this, by unfold SENTINEL; omega⟩

/-- `esl_abc_Textize` of a digital sequence of valid codes spells each code with its symbol; no out-of-bounds read -/
theorem textize_spec (a : Alphabet) (codes : List Nat) (hc : ∀ x ∈ codes, x < a.sym.length) :
    a.textize (mkDsq codes) codes.length = some (codes.map a.symAt) :=
  textize_mkDsq a codes hc

/-- digitise ∘ textise ∘ digitise = digitise, with status `eslOK` on the second digitisation -/
theorem digitize_textize_digitize (a : Alphabet) (h : a.WF) (seq : List Nat) :
    ∃ t, a.textize (a.digitize seq).2 (seq.filterMap a.code).length = some t ∧
      a.digitize t = (.ok, (a.digitize seq).2) := by
  have hkp : 3 ≤ a.Kp := by have := h.1; omega
  have hlt := filterMap_code_lt a hkp seq
  refine ⟨(seq.filterMap a.code).map a.symAt, ?_, ?_⟩
  · rw [digitize_eq_spec]
    exact textize_mkDsq a _ (fun x hx => by rw [h.2.2.1]; exact hlt x hx)
  · rw [digitize_textized a h _ hlt, digitize_eq_spec]; rfl

/-- textising a digitised string gives the canonical upper-case spelling of every character (`N`/`X` for a character
    outside the alphabet), for the three biosequence alphabets and the two toy alphabets, for every 8-bit string -/
theorem textize_canonical_spelling (seq : List Nat) (hb : ∀ c ∈ seq, c < 256) :
    G.dna.textize (G.dna.digitize seq).2 seq.length = some (seq.map (spell .dna)) ∧
    G.rna.textize (G.rna.digitize seq).2 seq.length = some (seq.map (spell .rna)) ∧
    G.amino.textize (G.amino.digitize seq).2 seq.length = some (seq.map (spell .amino)) ∧
    G.coins.textize (G.coins.digitize seq).2 seq.length = some (seq.map (spell .coins)) ∧
    G.dice.textize (G.dice.digitize seq).2 seq.length = some (seq.map (spell .dice)) := by
  have key : ∀ (k : Kind) (a : Alphabet), SpellOK k a → 3 ≤ a.Kp → a.sym.length = a.Kp →
      a.textize (a.digitize seq).2 seq.length = some (seq.map (spell k)) := by
    intro k a hs hkp hsym
    have hmap := map_symAt_filterMap_code a (spell k) seq (fun c hc => hs c (hb c hc))
    have hlen : (seq.filterMap a.code).length = seq.length := by
      have := congrArg List.length hmap; simpa using this
    rw [digitize_eq_spec]
    have := textize_mkDsq a (seq.filterMap a.code) (fun x hx => by rw [hsym]; exact filterMap_code_lt a hkp seq x hx)
    rw [hlen, hmap] at this
    exact this
  exact ⟨key .dna G.dna (by decide +kernel) (by decide) (by decide), key .rna G.rna (by decide +kernel) (by decide) (by decide),
    key .amino G.amino (by decide +kernel) (by decide) (by decide), key .coins G.coins (by decide +kernel) (by decide) (by decide),
    key .dice G.dice (by decide +kernel) (by decide) (by decide)⟩

/-- `esl_abc_revcomp` (the in-place pairwise swap loop + odd middle element) = reverse the residues and complement each;
    sentinels untouched; no out-of-bounds read for valid codes -/
theorem revcomp_spec (a : Alphabet) (comp : List Nat) (hc : a.complement = some comp) (codes : List Nat)
    (hv : ∀ x ∈ codes, x < comp.length) :
    a.revcomp (mkDsq codes) codes.length = .ok (some (mkDsq (codes.reverse.map (compAt comp)))) := by
  rw [revcomp_eq_spec a comp hc (mkDsq codes) codes.length
    (by simp only [mkDsq, List.length_cons, List.length_append, List.length_nil]; omega) (mkDsq_valid codes _ hv),
    revcompSpec_mkDsq]

/-- reverse-complementing twice is the identity, for every digital sequence of valid codes and every alphabet whose
    complement table is an involution (also for a prefix `n ≤ L`) -/
theorem revcomp_involutive (a : Alphabet) (comp : List Nat) (hc : a.complement = some comp) (hw : a.WFComp comp)
    (codes : List Nat) (hv : ∀ x ∈ codes, x < a.Kp) (n : Nat) (hn : n ≤ codes.length) :
    ∃ d', a.revcomp (mkDsq codes) n = .ok (some d') ∧ a.revcomp d' n = .ok (some (mkDsq codes)) :=
  revcomp_twice a comp hc hw (mkDsq codes) n (by simp [mkDsq]; omega)
    (fun i h1 h2 => mkDsq_valid codes _ hv i h1 (by omega))

/-! ## appending (`esl_abc_dsqcat`, used by every sequence-file reader) and the `esl_sq` conversions -/

/-- `esl_abc_dsqcat_noalloc` with an input map whose entries are codes ≤ 127, ILLEGAL or IGNORED: keeps the old residues,
    appends the code of every non-ignored byte (`inmap[0]` for an illegal or 8-bit byte), terminates with a sentinel, returns
    `eslEINVAL` iff some byte was illegal, and never raises the eslEINCONCEIVABLE exception -/
theorem dsqcat_spec (inmap : List Nat) (h : InmapClean inmap) (codes s : List Nat) :
    dsqcatNoalloc inmap (mkDsq codes) codes.length s =
      .ok (if s.all (catOK inmap) then .ok else .einval, mkDsq (codes ++ s.filterMap (catCode inmap)),
           codes.length + (s.filterMap (catCode inmap)).length) :=
  dsqcatNoalloc_spec inmap h codes s

/-- with the input map a sequence reader derives from an alphabet (`inmap[0] := unknown`), appending a NUL-free line is
    exactly digitising it: same codes as `esl_abc_Digitize`, same status -/
theorem dsqcat_appends_digitization (a : Alphabet)
    (hclean : ∀ c, c < 128 → a.inmapAt c < a.Kp ∨ a.inmapAt c = ILLEGAL ∨ a.inmapAt c = IGNORED)
    (hKp : a.Kp ≤ 128) (hlen : a.inmap.length = 128) (codes s : List Nat) (hnul : ∀ c ∈ s, c ≠ 0) :
    dsqcatNoalloc (a.inmap.set 0 a.unknown) (mkDsq codes) codes.length s =
      .ok ((a.digitize s).1, mkDsq (codes ++ s.filterMap a.code), codes.length + (s.filterMap a.code).length) :=
  dsqcat_is_digitize a hclean hKp hlen codes s hnul

/-- the hypotheses of `dsqcat_appends_digitization` hold for the built-in alphabets -/
theorem std_inmap_clean :
    ∀ a ∈ [G.dna, G.rna, G.amino, G.coins, G.dice], a.Kp ≤ 128 ∧ a.inmap.length = 128 ∧
      ∀ c, c < 128 → a.inmapAt c < a.Kp ∨ a.inmapAt c = ILLEGAL ∨ a.inmapAt c = IGNORED := by decide +kernel

/-- the hand-written `switch` of text-mode `esl_sq_ReverseComplement` agrees, character by character, with the digital
    complement tables of the DNA and RNA alphabets -/
theorem sq_text_complement_table :
    (∀ comp ∈ G.dna.complement, Sq.TextCompOK G.dna comp) ∧ (∀ comp ∈ G.rna.complement, Sq.TextCompOK G.rna comp) := by
  decide +kernel

/-- … hence for every text sequence over characters the switch knows, reverse-complementing in text mode and digitising
    gives the digital sequence whose codes are the reversed complemented codes (= `esl_abc_revcomp`, `revcomp_spec`) -/
theorem sq_text_revcomp_agrees (a : Alphabet) (comp : List Nat) (h : Sq.TextCompOK a comp) (s : List Nat)
    (hs : ∀ c ∈ s, c < 128 ∧ (Sq.compChar c).isSome = true) :
    (Sq.revcompText s).1 = .ok ∧
    a.digitize (Sq.revcompText s).2 = (.ok, mkDsq ((s.filterMap a.code).reverse.map (compAt comp))) :=
  Sq.text_revcomp_digitize a comp h s hs

/-- `esl_abc_CDealign`: the in-place compaction of an annotation string against a digital reference leaves exactly the
    characters aligned to non-gap, non-missing reference positions (`keptOf`), and reports their number -/
theorem cdealign_spec (a : Alphabet) (s refs : List Nat) (hs : SENTINEL ∉ refs) (hl : refs.length ≤ s.length) :
    a.cDealign s (mkDsq refs) = some (keptOf a refs s, (keptOf a refs s).length) :=
  cDealign_spec a s refs hs hl

/-- `esl_abc_XDealign`: the same for a digital sequence, sentinels restored -/
theorem xdealign_spec (a : Alphabet) (xs refs : List Nat) (hs : SENTINEL ∉ refs) (hl : refs.length ≤ xs.length) :
    a.xDealign (mkDsq xs) (mkDsq refs) = some (mkDsq (keptOf a refs xs), (keptOf a refs xs).length) :=
  xDealign_spec a xs refs hs hl

/-! ## custom alphabets -/

/-- `esl_alphabet_CreateCustom` on distinct non-NUL 7-bit symbols (`1 ≤ K`, `K+4 ≤ Kp`) succeeds and gives a well-formed
    alphabet with exactly that symbol string and no complement table -/
theorem custom_create_wf (syms : List Nat) (K : Nat) (hnd : syms.Nodup) (hascii : ∀ s ∈ syms, s < 128)
    (hK : 1 ≤ K) (hKp : K + 4 ≤ syms.length) (h250 : syms.length ≤ 250) :
    ∃ a, createCustom syms K syms.length = some a ∧ a.WF ∧ a.K = K ∧ a.Kp = syms.length ∧ a.sym = syms ∧
      a.complement = none :=
  createCustom_wf syms K hnd hascii hK hKp h250

/-- every custom alphabet (CreateCustom followed by any SetEquiv / SetCaseInsensitive / SetDegeneracy calls, and
    SetIgnored calls that spare the alphabet's own symbols) is well-formed -/
theorem custom_alphabets_wf (a : Alphabet) (h : Built a) : a.WF := built_wf a h

/-- … hence digitising is faithful for every custom alphabet and every string: digitise ∘ textise ∘ digitise = digitise -/
theorem custom_digitize_textize_digitize (a : Alphabet) (h : Built a) (seq : List Nat) :
    ∃ t, a.textize (a.digitize seq).2 (seq.filterMap a.code).length = some t ∧
      a.digitize t = (.ok, (a.digitize seq).2) :=
  digitize_textize_digitize a (built_wf a h) seq

/-- the degeneracy tables of a freshly created custom alphabet are well-formed (so `avg_score_is_mean`,
    `count_splits_equally` … apply to it): a canonical residue denotes itself, `any` (code Kp−3) all K residues -/
theorem custom_create_wfdegen (syms : List Nat) (K : Nat) (a : Alphabet) (hK : 1 ≤ K) (hKp : K + 4 ≤ syms.length)
    (h : createCustom syms K syms.length = some a) :
    a.WFDegen ∧ (∀ x, x < K → a.degenSet x = [x]) ∧ a.degenSet (syms.length - 3) = List.range K :=
  createCustom_wfdegen syms K a hK hKp h

/-- the input-map operations never disturb the degeneracy tables -/
theorem custom_inmap_ops_keep_degen (a : Alphabet) (h : a.WFDegen) (sym c : Nat) (chars : List Nat) :
    (a.setEquiv sym c).2.WFDegen ∧ a.setCaseInsensitive.2.WFDegen ∧ (a.setIgnored chars).WFDegen :=
  ⟨setEquiv_wfdegen a h sym c, setCaseInsensitive_wfdegen a h, setIgnored_wfdegen a h chars⟩

/-- `esl_alphabet_SetDegeneracy(a, c, ds)` that returns eslOK, lists pairwise distinct residues and none that is already
    a member keeps `ndegen[x]` = size of the set of row `x` for every symbol (the C code adds one to `ndegen` per listed
    character without looking at the row, so a repeated or already present residue breaks the equality — the averaging
    theorems then no longer apply; `create_dna/rna/amino` satisfy the hypothesis: `std_wf`) -/
theorem setdegeneracy_keeps_ndegen (a : Alphabet) (h : a.WFDegen) (c : Nat) (ds : List Nat)
    (hok : (a.setDegeneracy c ds).1 = .ok) (hnd : (ds.filterMap a.strchrSym).Nodup)
    (hfresh : ∀ x, a.strchrSym c = some x → ∀ y ∈ ds.filterMap a.strchrSym, (a.degen.getD x []).getD y 0 = 0) :
    (a.setDegeneracy c ds).2.WFDegen :=
  setDegeneracy_wfdegen a h c ds hok hnd hfresh

/-- `esl_abc_{F,D}AvgScVec`: exactly the degenerate slots `K < x ≤ Kp-3` are filled, each with the mean of the canonical
    scores over the set of `x`; canonical scores, gap, nonresidue and missing slots are untouched; no out-of-bounds access -/
theorem avg_scvec_spec (a : Alphabet) (h : a.WFDegen) (hK : a.K + 4 ≤ a.Kp) (sc : List ℚ) (hl : sc.length = a.Kp) :
    ∃ r, a.avgScVec sc = some r ∧ r.length = a.Kp ∧
      ∀ x, r.getD x 0 = if a.K < x ∧ x + 3 ≤ a.Kp
        then ((a.degenSet x).map fun i => sc.getD i 0).sum / ((a.degenSet x).length : ℚ) else sc.getD x 0 :=
  avgScVec_spec a h hK sc hl

/-- `esl_abc_GuessAlphabet` (model): eslOK iff a type was assigned, the type is unknown/RNA/DNA/amino, and a composition
    of ten residues or fewer is never classified -/
theorem guess_alphabet_basic (ct : List Int) :
    (((Guess.guessAlphabet ct).1 = true ↔ (Guess.guessAlphabet ct).2 ≠ 0) ∧ (Guess.guessAlphabet ct).2 ≤ 3) ∧
    (Guess.total ct ≤ 10 → Guess.guessAlphabet ct = (false, 0)) :=
  ⟨Guess.guess_status ct, Guess.guess_small ct⟩

/-! ## degenerate scores and counts (over ℚ: the code as a rational function; IEEE rounding is L0, compared bit-exactly
      against the real code by the correspondence run) -/

/-- `esl_abc_{F,D}AvgScore(a, x, sc)` = the mean of `sc` over the set of canonical residues `x` stands for
    (for a canonical `x` the set is `{x}`: its own score; for `any` all `K` residues) -/
theorem avg_score_is_mean (a : Alphabet) (h : a.WFDegen) (x : Nat) (hx : x < a.Kp) (hres : a.xIsResidue x = true)
    (sc : List ℚ) (hsc : a.K ≤ sc.length) :
    a.avgScore x sc = some (((a.degenSet x).map fun i => sc.getD i 0).sum / ((a.degenSet x).length : ℚ)) :=
  avgScore_mean a h x hx hres sc hsc

/-- gap, nonresidue, missing and invalid codes score 0 -/
theorem avg_score_nonresidue (a : Alphabet) (x : Nat) (hres : a.xIsResidue x = false) (sc : List ℚ) :
    a.avgScore x sc = some 0 := avgScore_nonresidue a x hres sc

/-- `esl_abc_{F,D}ExpectScore` = the `p`-weighted average over the set -/
theorem expect_score_is_weighted_mean (a : Alphabet) (h : a.WFDegen) (x : Nat) (hx : x < a.Kp)
    (hres : a.xIsResidue x = true) (sc p : List ℚ) (hsc : a.K ≤ sc.length) (hp : a.K ≤ p.length) :
    a.expectScore x sc p = some (((a.degenSet x).map fun i => sc.getD i 0 * p.getD i 0).sum /
      ((a.degenSet x).map fun i => p.getD i 0).sum) :=
  expectScore_weighted a h x hx hres sc p hsc hp

/-- `esl_abc_{F,D}Count` of a degenerate code splits `wt` equally: each member of the set gets `wt/|set|`, every other
    counter is unchanged, and the shares sum to `wt` -/
theorem count_splits_equally (a : Alphabet) (h : a.WFDegen) (x : Nat) (hx : x < a.Kp) (hdeg : a.xIsDegenerate x = true)
    (ct : List ℚ) (hct : a.K ≤ ct.length) (wt : ℚ) :
    ∃ ct', a.count ct x wt = some ct' ∧ ct'.length = ct.length ∧
      (∀ y, ct'.getD y 0 = ct.getD y 0 + (if y ∈ a.degenSet x then wt / ((a.degenSet x).length : ℚ) else 0)) ∧
      ((a.degenSet x).length ≠ 0 → ((a.degenSet x).map fun _ => wt / ((a.degenSet x).length : ℚ)).sum = wt) :=
  count_equal_split a h x hx hdeg ct hct wt

/-- `esl_abc_Match(abc, x, y, p)` for two residue codes at least one of which is degenerate: the probability that residues
    drawn from `p` restricted to the two sets are identical, Σ_{i ∈ S(x)∩S(y)} p_i² / (Σ_{S(x)} p_i · Σ_{S(y)} p_i)
    (`flagSum`/`flagSum2` = sums over the flagged entries of the `degen` rows) -/
theorem match_formula (a : Alphabet) (h : a.WFDegen) (x y : Nat) (hx : x < a.Kp) (hy : y < a.Kp)
    (hrx : a.xIsResidue x = true) (hry : a.xIsResidue y = true) (hnc : (a.xIsCanonical x && a.xIsCanonical y) = false)
    (p : List ℚ) (hp : a.K ≤ p.length) :
    a.matchProb x y (some p) =
      some (flagSum2 (a.degen.getD x []) (a.degen.getD y []) (fun j => p.getD j 0 * p.getD j 0) 0 a.K /
        (flagSum (a.degen.getD x []) (fun j => p.getD j 0) 0 a.K * flagSum (a.degen.getD y []) (fun j => p.getD j 0) 0 a.K)) :=
  matchProb_formula a h x y hx hy hrx hry hnc p hp

/-- canonical pairs match iff equal; anything involving a gap, nonresidue, missing or invalid code scores 0 -/
theorem match_easy_cases (a : Alphabet) (x y : Nat) (p : Option (List ℚ)) :
    ((a.xIsCanonical x && a.xIsCanonical y) = true → a.matchProb x y p = some (if x = y then 1 else 0)) ∧
    ((a.xIsCanonical x && a.xIsCanonical y) = false → (a.xIsResidue x = false ∨ a.xIsResidue y = false) →
      a.matchProb x y p = some 0) := by
  refine ⟨fun h => ?_, fun h1 h2 => ?_⟩
  · unfold matchProb; rw [if_pos h]; by_cases e : x = y <;> simp [e]
  · unfold matchProb
    rw [if_neg (by simp [h1])]
    rcases h2 with h2 | h2 <;> simp [h2]

/-- the degeneracy set read off the dumped table is the IUPAC set (as residue indices): ties `degenSet` above to
    `degen_is_iupac` — e.g. DNA `R` ↦ [A, G] = [0, 2], `N` ↦ [0,1,2,3]; amino `B` ↦ [D, N] = [2, 11] -/
theorem degen_set_examples :
    G.dna.degenSet 5 = [0, 2] ∧ G.dna.degenSet 15 = [0, 1, 2, 3] ∧ G.dna.degenSet 4 = [] ∧ G.amino.degenSet 21 = [2, 11] ∧
    G.amino.degenSet 22 = [7, 9] ∧ G.amino.degenSet 23 = [3, 13] ∧ G.amino.degenSet 24 = [8] ∧ G.amino.degenSet 25 = [1] := by
  decide +kernel

/-! ## non-vacuity -/
/-- the custom alphabet of the unit test `utest_SetEquiv`: "ACGT-N*~" + three synonyms + case-insensitivity -/
def demoCustom : Alphabet :=
  (((((createCustom (str "ACGT-N*~") 4 8).getD G.dna).setEquiv (ch 'a') (ch 'A')).2.setEquiv (ch '1') (ch '-')).2.setEquiv
    (ch '&') (ch '~')).2.setCaseInsensitive.2
example : Built demoCustom := by
  have h0 : createCustom (str "ACGT-N*~") 4 8 = some ((createCustom (str "ACGT-N*~") 4 8).getD G.dna) := by decide +kernel
  exact Built.caseins _ (Built.equiv _ (Built.equiv _ (Built.equiv _
    (Built.create (str "ACGT-N*~") 4 (by decide) (by decide) (by decide) (by decide) (by decide) _ h0) _ _) _ _) _ _)
example : demoCustom.digitize (str "a1&") = (.ok, [255, 0, 4, 7, 255]) := by decide +kernel
example : G.dna.WFDegen ∧ G.dna.xIsResidue 5 = true ∧ G.dna.xIsDegenerate 5 = true := by decide +kernel
example : G.dna.WF := by decide +kernel
example : G.dna.WFComp [3, 2, 1, 0, 4, 6, 5, 8, 7, 9, 10, 14, 13, 12, 11, 15, 16, 17] := by decide +kernel
example : G.dna.digitize (str "acgu nX-.") = (.einval, [255, 0, 1, 2, 3, 15, 15, 15, 4, 4, 255]) := by decide +kernel
example : G.dna.revcomp (mkDsq [0, 5, 15, 3, 3]) 5 = .ok (some (mkDsq [0, 0, 15, 6, 3])) := by rfl

end EaselModel.Props.C08
