import EaselModel.Weights.Lemmas
import EaselModel.Weights.Linkage
import EaselModel.Weights.PB
import EaselModel.Weights.Sort
import EaselModel.Weights.Blosum
import EaselModel.Weights.PBCounts
import EaselModel.Weights.PBPerm
import EaselModel.Weights.GSC
import EaselModel.Weights.Mx
import EaselModel.Weights.BlosumPerm
import EaselModel.Weights.Rounding
import EaselModel.Weights.FindMin
import EaselModel.Weights.FilterOrder
import EaselModel.Weights.GSCPerm
import EaselModel.Weights.AdvLemmas
import EaselModel.Weights.TreeLemmas
import EaselModel.Weights.DistanceLemmas
import EaselModel.Weights.EngineLemmas
import EaselModel.Weights.PrefLemmas
import EaselModel.Weights.ConsLemmas
import EaselModel.Weights.SampleLemmas
import EaselModel.Weights.Transfer
import EaselModel.Weights.TieRule
import EaselModel.Weights.TreeOpsLemmas
import EaselModel.Weights.FloatCarrier
import EaselModel.Weights.PathMetric
/-! # C16 — sequence weights, identity filtering and clustering follow their definitions

  Theorems about the `ℚ` instance of the executable model `EaselModel.Weights` (the `Float` instance of the same
  definitions is what the driver runs bit-exactly against the C code). `Mode` = text (isalpha / toupper) or digital
  (esl_abc_XIsResidue / exact code); every statement holds for both.  Specs: `nidSpec` (identical residue pairs),
  `lenSpec` (ungapped length), `pidSpec`, `Reach` (connectivity in the link graph), `pbTerms` (the 1/(r·c) terms).

  Coverage of the statement of C16 (properties.jsonl):
  * PB, BLOSUM, GSC weights ≥ 0 and Σ = N ............ `pb_nonneg` `pb_sum` `blosum_sum_nonneg` `gsc_sum_nonneg`
  * identical sequences ⇒ identical weights ........... `pb_identical_rows` `blosum_identical_rows`;
      GSC: FALSE for the code, `gsc_identical_rows_fails_at` (known finding); `gsc_identical_rows_tie_free` when no UPGMA
      pass ties
  * PB = per-column 1/(r·c) formula / residue count ... `pb_formula` + `pb_counts_digital` `pb_counts_text`
  * BLOSUM = one over cluster size (scaled N/#clusters)  `blosum_formula`
  * relisting permutes the weights .................... `pb_relisting_digital` `pb_relisting_text` `blosum_relisting`;
      GSC with tie-free pairwise distances: FALSE for the code, `gsc_relisting_fails_at` (known finding); TRUE and proved
      under the hypothesis that is actually needed, "no tie for the minimum in any UPGMA pass": `gsc_relisting_tie_free`
  * pairwise identity ................................. `pairId_spec` `pairId_symm` `pairId_self` `pairId_empty`
      `pairId_unaligned` `pairId_range` `pairIdMx_spec`
  * identity filtering: independent and maximal ....... `idFilter_independent_maximal` `idFilterText_spec`
      `idFilterDigital_spec` (+ `quicksort_permutation`)
  * single linkage = connected components, sizes/count  `singleLinkage_components` `singleLinkage_assignment`
      `singleLinkage_numbering` `singleLinkage_sizes` `msaSingleLinkage_components`
  All over exact rationals (L1); binary64 rounding of the results is outside the theorems (L0). -/
namespace EaselModel.Props.C16
open EaselModel.Weights

/-! ## pairwise identity -/

/-- esl_dst_{C,X}PairId on aligned sequences: identical residue pairs / shorter ungapped length (0 if that is 0),
    with the counts returned in `opt_nid`, `opt_n` -/
theorem pairId_spec (m : Mode) (a b : Row) (h : a.length = b.length) :
    pairId (α := ℚ) m a b = some (pidSpec m a b, nidSpec m a b, min (lenSpec m a) (lenSpec m b)) :=
  pairId_aligned m a b h

example : pairId (α := ℚ) Mode.text [65, 67, 45, 97] [97, 71, 45, 65] = some (2/3, 2, 3) := by decide +kernel

/-- sequences of different length: eslEINVAL -/
theorem pairId_unaligned (m : Mode) (a b : Row) (h : a.length ≠ b.length) : pairId (α := ℚ) m a b = none :=
  pairId_unaligned' m a b h

theorem pairId_symm (m : Mode) (a b : Row) : pid (α := ℚ) m a b = pid m b a := pid_comm m a b

/-- 1 on equal sequences with at least one residue -/
theorem pairId_self (m : Mode) (a : Row) (h : 0 < lenSpec m a) : pid (α := ℚ) m a a = 1 := by
  rw [pid_eq m a a rfl, pidSpec, nidSpec_self, Nat.min_self, if_neg (by omega)]
  have : ((lenSpec m a : ℕ) : ℚ) ≠ 0 := by exact_mod_cast (by omega : lenSpec m a ≠ 0)
  exact div_self this

/-- 0 when either sequence has no residue -/
theorem pairId_empty (m : Mode) (a b : Row) (hl : a.length = b.length) (h : lenSpec m a = 0 ∨ lenSpec m b = 0) :
    pid (α := ℚ) m a b = 0 := by
  rw [pid_eq m a b hl, pidSpec, if_pos (by omega)]

theorem pairId_range (m : Mode) (a b : Row) (hl : a.length = b.length) :
    0 ≤ pid (α := ℚ) m a b ∧ pid (α := ℚ) m a b ≤ 1 := by
  rw [pid_eq m a b hl]; exact ⟨pidSpec_nonneg m a b, pidSpec_le_one m a b⟩

/-! ## single-linkage clustering -/

/-- esl_cluster_SingleLinkage with any symmetric link function on n vertices: the clusters partition 0..n-1, none is
    empty, and each cluster is exactly the connected component of each of its members -/
theorem singleLinkage_components (link : Nat → Nat → Bool) (hsym : ∀ x y, link x y = link y x) (n : Nat) :
    (singleLinkage link n).flatten.Perm (List.range n) ∧
    (∀ cl ∈ singleLinkage link n, cl ≠ []) ∧
    (∀ cl ∈ singleLinkage link n, ∀ u ∈ cl, ∀ w, w < n → (w ∈ cl ↔ Reach link n u w)) := by
  have inv := singleLinkage_inv hsym n
  exact ⟨by simpa using inv.perm, inv.ne, inv.comp⟩

/-- the assignment array: equal cluster numbers iff connected -/
theorem singleLinkage_assignment (link : Nat → Nat → Bool) (hsym : ∀ x y, link x y = link y x) (n u w : Nat)
    (hu : u < n) (hw : w < n) :
    clusterIndex (singleLinkage link n) u = clusterIndex (singleLinkage link n) w ↔ Reach link n u w :=
  assignment_eq_iff hsym n u w hu hw

/-- cluster numbers are exactly 0..nc-1 (`*ret_C` = number of components) -/
theorem singleLinkage_numbering (link : Nat → Nat → Bool) (hsym : ∀ x y, link x y = link y x) (n : Nat) :
    (∀ u, u < n → clusterIndex (singleLinkage link n) u < (singleLinkage link n).length) ∧
    (∀ k, k < (singleLinkage link n).length → ∃ u, u < n ∧ clusterIndex (singleLinkage link n) u = k) :=
  assignment_range hsym n

/-- cluster numbers are NOT in order of first appearance in general (the swap-delete of the available stack reorders it):
    four vertices, only 0–3 linked: vertex 2 is numbered before vertex 1 -/
theorem singleLinkage_numbering_not_first_seen :
    assignment (singleLinkage (fun x y => (x == 0 && y == 3) || (x == 3 && y == 0)) 4) 4 = [0, 2, 1, 0] := by
  decide +kernel

/-- esl_msacluster_SingleLinkage: components of the graph linking rows with identity ≥ maxid -/
theorem msaSingleLinkage_components (m : Mode) (maxid : ℚ) (rows : List Row) (u w : Nat)
    (hu : u < rows.length) (hw : w < rows.length) :
    clusterIndex (msaSingleLinkage m maxid rows) u = clusterIndex (msaSingleLinkage m maxid rows) w ↔
      Reach (fun v x => decide (maxid ≤ pid (α := ℚ) m (rows.getD v []) (rows.getD x []))) rows.length u w :=
  assignment_eq_iff (fun x y => by show decide _ = decide _; rw [pid_comm]) rows.length u w hu hw

example : singleLinkage (fun x y => (x + y) % 2 == 0 && x != y) 5 = [[0, 4, 2], [3, 1]] := by
  simp [singleLinkage, slClusters, slGrow, slScan, rot, List.range, List.range.loop]
example : ∀ x y : Nat, ((x + y) % 2 == 0 && x != y) = ((y + x) % 2 == 0 && y != x) := by
  intro x y; rw [Nat.add_comm]; congr 1; simp [bne, eq_comm]

/-! ## identity filtering -/

/-- the greedy pass over distinct candidates in any preference order: kept rows are candidates, no kept row reaches the
    threshold with a row kept before it, and every dropped candidate reaches it with some kept row -/
theorem idFilter_independent_maximal (link : Nat → Nat → Bool) (order : List Nat) (hnd : order.Nodup) :
    (∀ x ∈ filterGreedy link order [], x ∈ order) ∧
    (filterGreedy link order []).Pairwise (fun k r => link r k = false) ∧
    (∀ r ∈ order, r ∉ filterGreedy link order [] → ∃ k ∈ filterGreedy link order [], link r k = true) := by
  refine ⟨?_, ?_, filterGreedy_maximal link order []⟩
  · intro x hx
    rcases filterGreedy_subset link order [] x hx with h | h
    · simp at h
    · exact h
  · exact filterGreedy_independent link order [] hnd (by simp) List.Pairwise.nil

/-- msaweight_IDFilter_txt: rows in original order -/
theorem idFilterText_spec (maxid : ℚ) (rows : List Row) :
    let kept := idFilterText maxid rows
    (∀ x ∈ kept, x < rows.length) ∧
    kept.Pairwise (fun k r => pid (α := ℚ) Mode.text (rows.getD r []) (rows.getD k []) < maxid) ∧
    (∀ r, r < rows.length → r ∉ kept → ∃ k ∈ kept, maxid ≤ pid (α := ℚ) Mode.text (rows.getD r []) (rows.getD k [])) := by
  have h := idFilter_independent_maximal
    (fun r k => linked Mode.text maxid (rows.getD r []) (rows.getD k [])) (List.range rows.length) List.nodup_range
  refine ⟨fun x hx => List.mem_range.mp (h.1 x hx), ?_, ?_⟩
  · refine List.Pairwise.imp ?_ h.2.1
    intro k r hl
    simpa [linked] using hl
  · intro r hr hnot
    obtain ⟨k, hk, hl⟩ := h.2.2 r (List.mem_range.mpr hr) hnot
    exact ⟨k, hk, by simpa [linked] using hl⟩

example : filterGreedy (fun x y => (x + y) % 2 == 0) [3, 1, 2, 0] [] = [3, 2] := by decide

/-! ## position-based weights (both modes: `PBParams.text` with all columns, `PBParams.digital` with consensus columns) -/

/-- Σw = N -/
theorem pb_sum (p : PBParams) (stats : List ColStat) (rows : List Row) (hne : rows ≠ []) :
    (pbWeights (α := ℚ) p stats rows).sum = rows.length := pbWeights_sum p stats rows hne

/-- w ≥ 0 -/
theorem pb_nonneg (p : PBParams) (stats : List ColStat) (rows : List Row) :
    ∀ w ∈ pbWeights (α := ℚ) p stats rows, 0 ≤ w := pbWeights_nonneg p stats rows

/-- raw weight of a row = Σ over used columns where it has a canonical residue of 1/(r·c), divided by the number of
    those columns (its residue count there); weight = raw / Σraw · N, or 1 when all raw weights vanish -/
theorem pb_formula (p : PBParams) (stats : List ColStat) (rows : List Row) (hn : rows.length ≠ 1)
    (i : Nat) (hi : i < rows.length) (hi' : i < (pbWeights (α := ℚ) p stats rows).length) :
    (pbWeights (α := ℚ) p stats rows)[i] =
      (if (rows.map (pbRaw (α := ℚ) p stats)).sum = 0 then 1
       else pbRaw p stats rows[i] / (rows.map (pbRaw (α := ℚ) p stats)).sum * rows.length) ∧
    pbRaw (α := ℚ) p stats rows[i] =
      (if (pbTerms p stats rows[i]).length = 0 then 0
       else (pbTerms p stats rows[i]).sum / (pbTerms p stats rows[i]).length) :=
  ⟨pbWeights_getElem p stats rows hn i hi hi', pbRaw_eq p stats rows[i]⟩

/-- identical rows ⇒ identical weights -/
theorem pb_identical_rows (p : PBParams) (stats : List ColStat) (rows : List Row)
    (i j : Nat) (hi : i < rows.length) (hj : j < rows.length) (h : rows[i] = rows[j])
    (hi' : i < (pbWeights (α := ℚ) p stats rows).length) (hj' : j < (pbWeights (α := ℚ) p stats rows).length) :
    (pbWeights (α := ℚ) p stats rows)[i] = (pbWeights (α := ℚ) p stats rows)[j] :=
  pbWeights_eq_of_eq p stats rows i j hi hj h hi' hj'

/-- the two entry points are instances of `pbWeights` -/
theorem pbText_is (rows : List Row) : pbText (α := ℚ) rows = pbWeights PBParams.text (txtStats rows) rows := rfl
theorem pbDigital_is (abc : Abc) (rule : Nat → Nat → Bool) (minspan : Int) (rf : Option Row) (rows : List Row) :
    pbDigital (α := ℚ) abc rule minspan rf rows =
      pbWeights (PBParams.digital abc) (digStats abc (rows.map (rowInfo abc minspan))
        (pbConsensus abc rule rf (rows.map (rowInfo abc minspan)) (alenOf rows)).cols) rows := rfl

example : pbText (α := ℚ) [[65, 65], [65, 67], [45, 67]] = [4/3, 1, 2/3] := by decide +kernel

/-! ## M2: sizes, BLOSUM, digital filter with any preference order, true counts, relisting, GSC -/

/-- cluster sizes as counted from the assignment array (`nin[]`, `nmem[]`) are the sizes of the clusters, and add up to n -/
theorem singleLinkage_sizes (link : Nat → Nat → Bool) (hsym : ∀ x y, link x y = link y x) (n : Nat) :
    (∀ k (hk : k < (singleLinkage link n).length),
      (clusterSizes (assignment (singleLinkage link n) n) (singleLinkage link n).length).getD k 0 = (singleLinkage link n)[k].length) ∧
    ((singleLinkage link n).map List.length).sum = n :=
  ⟨fun _ hk => (singleLinkage_isPartition hsym n).clusterSizes_getElem hk, (singleLinkage_isPartition hsym n).sizes_sum⟩

/-- esl_msaweight_IDFilter_adv for ANY preference vector (conscover / random / original order / anything else) and
    whatever esl_quicksort does with it: the kept rows are pairwise below the threshold and no dropped row could be added -/
theorem idFilterDigital_spec (abc : Abc) (maxid : ℚ) (sortwgt : List ℚ) (rows : List Row) :
    let kept := idFilterDigital abc maxid sortwgt rows
    (∀ x ∈ kept, x < rows.length) ∧
    kept.Pairwise (fun k r => pid (α := ℚ) (Mode.digital abc) (rows.getD r []) (rows.getD k []) < maxid) ∧
    (∀ r, r < rows.length → r ∉ kept →
      ∃ k ∈ kept, maxid ≤ pid (α := ℚ) (Mode.digital abc) (rows.getD r []) (rows.getD k [])) := by
  have h := idFilter_independent_maximal
    (fun r k => linked (Mode.digital abc) maxid (rows.getD r []) (rows.getD k []))
    (quicksort (cmpDecreasing sortwgt) rows.length) (quicksort_nodup _ _)
  refine ⟨fun x hx => (mem_quicksort _ _ _).mp (h.1 x hx), ?_, ?_⟩
  · refine List.Pairwise.imp ?_ h.2.1
    intro k r hl
    simpa [linked] using hl
  · intro r hr hnot
    obtain ⟨k, hk, hl⟩ := h.2.2 r ((mem_quicksort _ _ _).mpr hr) hnot
    exact ⟨k, hk, by simpa [linked] using hl⟩

/-- esl_quicksort returns a permutation of 0..n-1 for any comparison function -/
theorem quicksort_permutation (cmp : Nat → Nat → Int) (n : Nat) : (quicksort cmp n).Perm (List.range n) :=
  quicksort_perm cmp n

/-- BLOSUM: `w_i = (N / #clusters) / |cluster(i)|` -/
theorem blosum_formula (m : Mode) (maxid : ℚ) (rows : List Row) (hn : rows.length ≠ 1) (i : Nat) (hi : i < rows.length)
    (hi' : i < (blosum m maxid rows).length) :
    (blosum m maxid rows)[i] =
      (rows.length : ℚ) / (msaSingleLinkage m maxid rows).length /
        ((msaSingleLinkage m maxid rows).getD (clusterIndex (msaSingleLinkage m maxid rows) i) []).length :=
  blosum_getElem m maxid rows hn i hi hi'

theorem blosum_sum_nonneg (m : Mode) (maxid : ℚ) (rows : List Row) (hne : rows ≠ []) :
    (blosum m maxid rows).sum = rows.length ∧ ∀ w ∈ blosum m maxid rows, 0 ≤ w :=
  ⟨blosum_sum m maxid rows hne, blosum_nonneg m maxid rows⟩

/-- digital PB: the count table entry used for a canonical residue is the number of rows with that residue in the column
    and `r` is the number of different canonical residues there — the fragment rule does not touch them -/
theorem pb_counts_digital (abc : Abc) (minspan : Int) (rows : List Row) (apos : Nat) (hK : abc.K ≤ abc.Kp)
    (hrect : ∀ row ∈ rows, apos < row.length) :
    (∀ a, a < abc.K →
      (mkStat (PBParams.digital abc) apos (digCol (rows.map (rowInfo abc minspan)) apos)).ct.getD a 0 =
        rows.countP (fun row => (row.getD apos 0).toNat == a)) ∧
    (mkStat (PBParams.digital abc) apos (digCol (rows.map (rowInfo abc minspan)) apos)).r =
      (List.range abc.K).countP (fun a => rows.countP (fun row => (row.getD apos 0).toNat == a) > 0) :=
  ⟨fun a ha => digital_ct_true abc minspan rows apos a hK ha hrect, digital_r_true abc minspan rows apos hK hrect⟩

/-- text PB: same for the 26 letters, case-insensitively -/
theorem pb_counts_text (rows : List Row) (apos : Nat) :
    (∀ a, a < 26 →
      (mkStat PBParams.text apos (rows.map fun row => PBParams.text.sym (row.getD apos 0))).ct.getD a 0 =
        rows.countP (fun row => PBParams.text.sym (row.getD apos 0) == some a)) ∧
    (mkStat PBParams.text apos (rows.map fun row => PBParams.text.sym (row.getD apos 0))).r =
      (List.range 26).countP (fun a => rows.countP (fun row => PBParams.text.sym (row.getD apos 0) == some a) > 0) :=
  ⟨fun a ha => text_ct_true rows apos a ha, text_r_true rows apos⟩

/-- relisting the rows of a (rectangular) alignment permutes the PB weights accordingly: one weight function of the
    row serves both orders. Any consensus rule, fragment threshold and RF line. -/
theorem pb_relisting_digital (abc : Abc) (rule : Nat → Nat → Bool) (minspan : Int) (rf : Option Row) {rows rows' : List Row}
    (hp : rows.Perm rows') (hne : rows ≠ []) (L : Nat) (hrect : ∀ row ∈ rows, row.length = L) :
    ∃ f : Row → ℚ, pbDigital (α := ℚ) abc rule minspan rf rows = rows.map f ∧
                   pbDigital (α := ℚ) abc rule minspan rf rows' = rows'.map f :=
  pbDigital_perm abc rule minspan rf hp hne L hrect

theorem pb_relisting_text {rows rows' : List Row} (hp : rows.Perm rows') (hne : rows ≠ []) (L : Nat)
    (hrect : ∀ row ∈ rows, row.length = L) :
    ∃ f : Row → ℚ, pbText (α := ℚ) rows = rows.map f ∧ pbText (α := ℚ) rows' = rows'.map f :=
  pbText_perm hp hne L hrect

example : ([[65, 65], [65, 67]] : List Row).Perm [[65, 67], [65, 65]] ∧
    ∀ row ∈ ([[65, 65], [65, 67]] : List Row), row.length = 2 := by
  refine ⟨List.Perm.swap _ _ _, ?_⟩
  intro row h; simp at h; rcases h with rfl | rfl <;> rfl

/-- GSC weights (distance matrix, UPGMA, clade sizes, both traversals, normalisation) are ≥ 0 and sum to N -/
theorem gsc_sum_nonneg (m : Mode) (rows : List Row) (hne : rows ≠ []) :
    (gsc (α := ℚ) m rows).sum = rows.length ∧ ∀ w ∈ gsc (α := ℚ) m rows, 0 ≤ w :=
  ⟨gsc_sum' m rows hne, gsc_nonneg' m rows⟩

/-- KNOWN FINDING `C16:gsc:identical-rows-split-by-zero-distance-ties`: "identical sequences get identical GSC weights"
    is FALSE for the code as written. Witness (rows 1 and 4 are both `ACDEFGHI`):
    `--DE----`, `ACDEFGHI`, `---EF---`, `---EFGH-`, `ACDEFGHI`  ↦  5/4, 5/4, 5/6, 5/6, 5/6 -/
theorem gsc_identical_rows_fails_at :
    gsc (α := ℚ) Mode.text
      [[45,45,68,69,45,45,45,45], [65,67,68,69,70,71,72,73], [45,45,45,69,70,45,45,45], [45,45,45,69,70,71,72,45],
       [65,67,68,69,70,71,72,73]] = [5/4, 5/4, 5/6, 5/6, 5/6] := by decide +kernel

/-- BLOSUM: identical rows ⇒ identical weights (rows with the same content lie in the same cluster or in two singletons) -/
theorem blosum_identical_rows (m : Mode) (maxid : ℚ) (rows : List Row) (i j : Nat) (hi : i < rows.length)
    (hj : j < rows.length) (h : rows[i] = rows[j])
    (hi' : i < (blosum m maxid rows).length) (hj' : j < (blosum m maxid rows).length) :
    (blosum m maxid rows)[i] = (blosum m maxid rows)[j] :=
  blosum_eq_of_rows_eq m maxid rows i j hi hj h hi' hj'

/-- esl_dst_{C,X}PairIdMx: 1 on the diagonal, the pairwise identity elsewhere, symmetric -/
theorem pairIdMx_spec (m : Mode) (rows : List Row) (i j : Nat) (hi : i < rows.length) (hj : j < rows.length) :
    (((pairIdMx (α := ℚ) m rows).getD i []).getD j 0 =
      if i = j then 1 else pid (α := ℚ) m (rows.getD i []) (rows.getD j [])) ∧
    ((pairIdMx (α := ℚ) m rows).getD i []).getD j 0 = ((pairIdMx (α := ℚ) m rows).getD j []).getD i 0 :=
  ⟨pairIdMx_entry m rows i j hi hj, pairIdMx_symm m rows i j hi hj⟩

/-- relisting the rows permutes the BLOSUM weights accordingly: one weight function of the row content serves both orders -/
theorem blosum_relisting (m : Mode) (maxid : ℚ) {rows rows' : List Row} (hp : rows.Perm rows') (hne : rows ≠ []) :
    ∃ f : Row → ℚ, blosum m maxid rows = rows.map f ∧ blosum m maxid rows' = rows'.map f :=
  blosum_perm m maxid hp hne

/-- KNOWN FINDING `C16:gsc:relisting-changes-weights-on-derived-distance-ties`: "relisting permutes the GSC weights
    whenever no two pairwise distances tie" is FALSE for the code as written. The four rows below have pairwise
    distances 5/6, 1/2, 3/4, 7/12, 2/3, 5/12 (all distinct); after rows 2,3 merge, both remaining rows are at averaged
    distance 5/8 from the new cluster and the first one LISTED joins: swapping rows 0 and 1 leaves the weight vector
    unchanged, i.e. the two sequences exchange their weights 15/14 and 8/7. -/
theorem gsc_relisting_fails_at :
    let r0 : Row := [67, 69, 68, 65, 65, 68, 69, 65, 68, 69, 65, 65]
    let r1 : Row := [69, 65, 67, 65, 68, 65, 68, 69, 68, 65, 69, 68]
    let r2 : Row := [68, 65, 69, 65, 68, 68, 69, 65, 68, 69, 68, 68]
    let r3 : Row := [69, 65, 65, 68, 68, 68, 65, 65, 67, 69, 68, 68]
    gsc (α := ℚ) Mode.text [r0, r1, r2, r3] = [15/14, 8/7, 25/28, 25/28] ∧
    gsc (α := ℚ) Mode.text [r1, r0, r2, r3] = [15/14, 8/7, 25/28, 25/28] ∧
    (diffMx (α := ℚ) Mode.text [r0, r1, r2, r3]).toList =
      [0, 5/6, 1/2, 3/4, 5/6, 0, 7/12, 2/3, 1/2, 7/12, 0, 5/12, 3/4, 2/3, 5/12, 0] := by
  decide +kernel

/-- UPGMA (`cluster_engine`, mode eslUPGMA): every pass joins a pair of clusters at minimum distance among the active ones,
    at height half that distance (ties: the first minimum in row-major order of the current positions — the source of
    the two GSC findings) -/
theorem upgma_joins_minimum (st : KState ℚ) (hN : 2 ≤ st.act.size) :
    kPosI st < kPosJ st ∧ kPosJ st < st.act.size ∧
    (∀ r c, r < c → c < st.act.size → kdist st.rows (kI st) (kJ st) ≤ kdist st.rows (st.act.getD r 0) (st.act.getD c 0)) ∧
    kH st = kdist st.rows (kI st) (kJ st) / 2 :=
  kstep_joins_minimum st hN

/-- L0 bridge for thresholds equal to an attained identity: with ANY monotone rounding `fl` of the quotient whose error
    on [0,1] is at most ε, the test `fl(p/q) ≤ fl(nid/n)` (what `pid >= maxid` computes when `maxid` is the rounded
    identity p/q of some pair) decides exactly like the rational comparison as long as 2·ε·n·q < 1
    (binary64: ε = 2⁻⁵³, n, q ≤ 400). That IEEE division is such a rounding is trusted. -/
theorem threshold_at_attained_identity (fl : ℚ → ℚ) (ε : ℚ)
    (hmono : ∀ x y, x ≤ y → fl x ≤ fl y) (herr : ∀ x, 0 ≤ x → x ≤ 1 → |fl x - x| ≤ ε)
    (nid n p q : ℕ) (hn : 0 < n) (hq : 0 < q) (hnid : nid ≤ n) (hp : p ≤ q) (hsmall : 2 * ε * (n * q) < 1) :
    fl ((p : ℚ) / q) ≤ fl ((nid : ℚ) / n) ↔ (p : ℚ) / q ≤ (nid : ℚ) / n :=
  threshold_decision_exact fl ε hmono herr nid n p q hn hq hnid hp hsmall

example : ∃ (fl : ℚ → ℚ) (ε : ℚ), (∀ x y, x ≤ y → fl x ≤ fl y) ∧ (∀ x, 0 ≤ x → x ≤ 1 → |fl x - x| ≤ ε) ∧
    2 * ε * ((400 : ℕ) * (400 : ℕ)) < 1 :=
  ⟨id, 0, fun _ _ h => h, fun x _ _ => by simp, by norm_num⟩

/-! non-vacuity of the remaining hypotheses -/
example : 0 < lenSpec Mode.text [65, 45] := by decide
example : lenSpec (Mode.digital Abc.amino) [20, 28] = 0 := by decide
example : ([3, 1, 2, 0] : List Nat).Nodup := by decide
example : Abc.amino.K ≤ Abc.amino.Kp ∧ Abc.dna.K ≤ Abc.dna.Kp := by decide
example : ([[65, 65], [65, 67]] : List Row) ≠ [] ∧ ([[65, 65], [65, 67]] : List Row).length ≠ 1 := by decide

/-- the filter prefers what comes first in the preference order: a dropped candidate is linked to a row that was tried
    before it and kept (any order, any link function) -/
theorem idFilter_dropped_by_earlier (link : Nat → Nat → Bool) (pre post : List Nat) (r : Nat)
    (h : r ∉ filterGreedy link (pre ++ r :: post) []) :
    ∃ k ∈ filterGreedy link pre [], link r k = true ∧ k ∈ filterGreedy link (pre ++ r :: post) [] :=
  filterGreedy_dropped_by_earlier link pre post r h

/-- text mode ("keep the earlier sequence and discard the later"): a dropped row reaches the threshold with a kept row
    of smaller index -/
theorem idFilterText_keeps_earlier (maxid : ℚ) (rows : List Row) (r : Nat) (hr : r < rows.length)
    (h : r ∉ idFilterText maxid rows) :
    ∃ k ∈ idFilterText maxid rows, k < r ∧ maxid ≤ pid (α := ℚ) Mode.text (rows.getD r []) (rows.getD k []) :=
  idFilterText_dropped_by_earlier maxid rows r hr h

example : (1 : Nat) ∉ filterGreedy (fun x y => (x + y) % 2 == 0) ([3] ++ 1 :: [2, 0]) [] := by decide

/-- digital mode, any preference vector: a dropped row reaches the threshold with a kept row that esl_quicksort ranked
    before it -/
theorem idFilterDigital_keeps_better_ranked (abc : Abc) (maxid : ℚ) (sortwgt : List ℚ) (rows : List Row) (r : Nat)
    (hr : r < rows.length) (h : r ∉ idFilterDigital abc maxid sortwgt rows) :
    ∃ pre post k, quicksort (cmpDecreasing sortwgt) rows.length = pre ++ r :: post ∧ k ∈ pre ∧
      k ∈ idFilterDigital abc maxid sortwgt rows ∧
      maxid ≤ pid (α := ℚ) (Mode.digital abc) (rows.getD r []) (rows.getD k []) := by
  obtain ⟨pre, post, hsplit⟩ := List.append_of_mem ((mem_quicksort (cmpDecreasing sortwgt) rows.length r).mpr hr)
  unfold idFilterDigital idFilterOrder at h ⊢
  rw [hsplit] at h ⊢
  obtain ⟨k, hk, hl, hkept⟩ := filterGreedy_dropped_by_earlier _ _ _ r h
  refine ⟨pre, post, k, rfl, ?_, hkept, by simpa [linked] using hl⟩
  rcases filterGreedy_subset _ _ _ k hk with h' | h'
  · simp at h'
  · exact h'

/-! ## GSC, the positive part: no tie for the minimum in any UPGMA pass (`TieFree`; `tieFreeB` is its executable form) -/

/-- relisting the rows permutes the GSC weights accordingly whenever no pass of UPGMA has a tie for the minimum:
    row x of the relisted alignment `p.map (rows[·])` gets the weight row p[x] had. (Distinct pairwise distances are not
    enough — `gsc_relisting_fails_at` — because averaged distances can tie; this is the hypothesis that is.) -/
theorem gsc_relisting_tie_free (m : Mode) (rows : List Row) (p : List Nat) (hp : p.Perm (List.range rows.length))
    (htf : TieFree m rows) :
    gsc (α := ℚ) m (p.map fun i => rows.getD i []) = p.map (fun i => (gsc (α := ℚ) m rows).getD i 0) :=
  gsc_perm m rows p hp htf

/-- identical rows ⇒ identical GSC weights whenever no pass of UPGMA has a tie for the minimum (identical rows do not
    exclude that: their distance 0 can be the unique minimum of its pass) -/
theorem gsc_identical_rows_tie_free (m : Mode) (rows : List Row) (htf : TieFree m rows) (i j : Nat)
    (hi : i < rows.length) (hj : j < rows.length) (h : rows.getD i [] = rows.getD j []) :
    (gsc (α := ℚ) m rows).getD i 0 = (gsc (α := ℚ) m rows).getD j 0 :=
  gsc_eq_of_rows_eq m rows htf i j hi hj h

/-- the hypothesis can be checked by computation -/
theorem tieFree_checkable (m : Mode) (rows : List Row) (h : tieFreeB m rows = true) : TieFree m rows :=
  tieFree_of_check m rows h

/-- non-vacuity: AAAA, AAAC, ACCC (distances 1/4, 3/4, 1/2) and, with two identical rows, AAAA, AAAA, ACCC, CCCG -/
example : TieFree Mode.text [[65, 65, 65, 65], [65, 65, 65, 67], [65, 67, 67, 67]] :=
  tieFree_of_check _ _ (by decide +kernel)
example : TieFree Mode.text [[65, 65, 65, 65], [65, 65, 65, 65], [65, 67, 67, 67], [67, 67, 67, 71]] :=
  tieFree_of_check _ _ (by decide +kernel)
/-- the two known-finding witnesses are outside the hypothesis -/
example : tieFreeB Mode.text
    [[67, 69, 68, 65, 65, 68, 69, 65, 68, 69, 65, 65], [69, 65, 67, 65, 68, 65, 68, 69, 68, 65, 69, 68],
     [68, 65, 69, 65, 68, 68, 69, 65, 68, 69, 68, 68], [69, 65, 65, 68, 68, 68, 65, 65, 67, 69, 68, 68]] = false := by
  decide +kernel

/-! ## `ESL_MSAWEIGHT_CFG`: every configuration of `esl_msaweight_PB_adv` / `esl_msaweight_IDFilter_adv`, incl. the consensus
    determined on a random SAMPLE of rows (`consensus_by_sample`, taken when `allow_samp && nseq > sampthresh`).
    `deal m n` is the sampler (`esl_rand64_Deal` in the driver): the statements hold for every function. -/

/-- whatever the configuration and the sample: the weights are the PB rule applied to SOME list of consensus columns
    (consensus columns are chosen per alignment, not per row) -/
theorem pbAdv_is (abc : Abc) (cfg : WCfg) (deal : Nat → Nat → List Nat) (rf : Option Row) (rows : List Row) :
    pbAdv (α := ℚ) abc cfg deal rf rows =
      pbWeights (PBParams.digital abc) (digStats abc (rows.map (rowInfo abc cfg.minspan))
        (pbConsensusAdv abc cfg deal rf rows).cols) rows := rfl

/-- Σw = N and w ≥ 0 for every configuration, every RF line and every sample -/
theorem pbAdv_sum_nonneg (abc : Abc) (cfg : WCfg) (deal : Nat → Nat → List Nat) (rf : Option Row) (rows : List Row)
    (hne : rows ≠ []) :
    (pbAdv (α := ℚ) abc cfg deal rf rows).sum = rows.length ∧ ∀ w ∈ pbAdv (α := ℚ) abc cfg deal rf rows, 0 ≤ w :=
  ⟨pbWeights_sum _ _ rows hne, pbWeights_nonneg _ _ rows⟩

/-- identical rows ⇒ identical weights, also with a sampled consensus (even if only one of the two rows was sampled) -/
theorem pbAdv_identical_rows (abc : Abc) (cfg : WCfg) (deal : Nat → Nat → List Nat) (rf : Option Row) (rows : List Row)
    (i j : Nat) (hi : i < rows.length) (hj : j < rows.length) (h : rows[i] = rows[j])
    (hi' : i < (pbAdv (α := ℚ) abc cfg deal rf rows).length) (hj' : j < (pbAdv (α := ℚ) abc cfg deal rf rows).length) :
    (pbAdv (α := ℚ) abc cfg deal rf rows)[i] = (pbAdv (α := ℚ) abc cfg deal rf rows)[j] :=
  pbWeights_eq_of_eq _ _ rows i j hi hj h hi' hj'

/-- the 1/(r·c) formula with true column counts holds on the sampled consensus columns as on any others
    (`pb_formula`, `pb_counts_digital` are stated for every column list) -/
theorem pbAdv_formula (abc : Abc) (cfg : WCfg) (deal : Nat → Nat → List Nat) (rf : Option Row) (rows : List Row)
    (hn : rows.length ≠ 1) (i : Nat) (hi : i < rows.length) (hi' : i < (pbAdv (α := ℚ) abc cfg deal rf rows).length) :
    let stats := digStats abc (rows.map (rowInfo abc cfg.minspan)) (pbConsensusAdv abc cfg deal rf rows).cols
    (pbAdv (α := ℚ) abc cfg deal rf rows)[i] =
      (if (rows.map (pbRaw (α := ℚ) (PBParams.digital abc) stats)).sum = 0 then 1
       else pbRaw (PBParams.digital abc) stats rows[i] / (rows.map (pbRaw (α := ℚ) (PBParams.digital abc) stats)).sum * rows.length) :=
  pbWeights_getElem _ _ rows hn i hi hi'

/-- without the sampling branch (`allow_samp` off, or `nseq ≤ sampthresh` — the documented range with the default 50 000)
    the configured routine is `pbDigital`, the model of the default path, with the RF line dropped when `ignore_rf` -/
theorem pbAdv_no_sampling (abc : Abc) (cfg : WCfg) (deal : Nat → Nat → List Nat) (rf : Option Row) (rows : List Row)
    (h : (cfg.allowSamp && decide ((rows.length : Int) > cfg.sampthresh)) = false) :
    pbAdv (α := ℚ) abc cfg deal rf rows =
      pbDigital abc cfg.rule cfg.minspan (if cfg.ignoreRf then none else rf) rows :=
  pbAdv_eq_pbDigital abc cfg deal rf rows h

example : ((({ minspan := 5, rule := fun g t => 2 * g < t } : WCfg).allowSamp &&
    decide (((3 : Nat) : Int) > ({ minspan := 5, rule := fun g t => 2 * g < t } : WCfg).sampthresh)) = false) := by decide

/-- with a sampled consensus, relisting the rows does NOT permute the weights: the sample is a set of row POSITIONS.
    Three rows `A-`, `AA`, `-A`, sample = the first row: listed as (0,1,2) the consensus is column 1 and row `A-` gets 3/2;
    listed as (2,1,0) the consensus is column 2 and the same row gets 0. (Outside the stated range of C16 for the default
    configuration: it needs nseq > sampthresh.) -/
theorem pb_relisting_fails_with_sampling :
    let cfg : WCfg := { minspan := 0, rule := fun g t => 2 * g < t, sampthresh := 2, nsamp := 1 }
    let deal : Nat → Nat → List Nat := fun m _ => List.range m
    pbAdv (α := ℚ) Abc.amino cfg deal none [[0, 20], [0, 0], [20, 0]] = [3/2, 3/2, 0] ∧
    pbAdv (α := ℚ) Abc.amino cfg deal none [[20, 0], [0, 0], [0, 20]] = [3/2, 3/2, 0] := by decide +kernel

/-- esl_msaweight_IDFilter_adv, every configuration, every preference rule (conscover on RF / sampled / full consensus,
    random, original order): the kept rows are pairwise below the threshold and no dropped row could be added -/
theorem idFilterAdv_spec (abc : Abc) (cfg : WCfg) (deal : Nat → Nat → List Nat) (pref : FilterPref) (maxid : ℚ)
    (rf : Option Row) (rows : List Row) :
    let kept := idFilterAdv abc cfg deal pref maxid rf rows
    (∀ x ∈ kept, x < rows.length) ∧
    kept.Pairwise (fun k r => pid (α := ℚ) (Mode.digital abc) (rows.getD r []) (rows.getD k []) < maxid) ∧
    (∀ r, r < rows.length → r ∉ kept →
      ∃ k ∈ kept, maxid ≤ pid (α := ℚ) (Mode.digital abc) (rows.getD r []) (rows.getD k [])) :=
  idFilterDigital_spec abc maxid _ rows

/-- the preference rule decides WHICH representative of a redundant pair survives: rows `-A-` and `AAA` (identity 1):
    "conscover" keeps the row spanning more consensus columns, "origorder" the one listed first -/
theorem idFilterAdv_preference_picks_representative :
    let cfg : WCfg := { minspan := 0, rule := fun _ _ => true }
    idFilterAdv (α := ℚ) Abc.amino cfg (fun m _ => List.range m) .conscover (1/2) none [[20, 0, 20], [0, 0, 0]] = [1] ∧
    idFilterAdv (α := ℚ) Abc.amino cfg (fun m _ => List.range m) .origorder (1/2) none [[20, 0, 20], [0, 0, 0]] = [0] ∧
    idFilterAdv (α := ℚ) Abc.amino cfg (fun m _ => List.range m) (.random [1, 5]) (1/2) none [[20, 0, 20], [0, 0, 0]] = [1] := by
  decide +kernel

/-! ## the tree behind GSC: `esl_tree_UPGMA` on EVERY distance matrix, and the two traversals on EVERY tree

  `upgma n d` = the state of `cluster_engine` after its n−1 passes on the symmetric matrix with entries `d x y` (x < y; the C
  code reads the upper triangle only). Clusters 0..n−1 are the taxa, n+s is the node created in pass s (C node n−2−s);
  `created = (upgma n d).nodes.reverse`; `toCTree` lays the result out as `ESL_TREE` does (compared exactly with the real
  `esl_tree_UPGMA` + `esl_tree_SetTaxaParents` + `esl_tree_SetCladesizes` by op `upgma`). -/

/-- (a) the result is a rooted binary tree on the n taxa, for every matrix (ties, zeros, negative entries — anything): n−1
    nodes, each joining two different clusters created before it, every taxon and every node but the root a child exactly
    once -/
theorem upgma_well_formed (n : Nat) (hn : 2 ≤ n) (d : Nat → Nat → ℚ) : WellFormed n (upgma n d).nodes.reverse :=
  upgma_wellFormed' n hn d

/-- (a) parent/child arrays are consistent and in preorder: every cluster but the root has its parent node at a smaller C
    index, and that node names it as left or right child (`parent[]`, `taxaparent[]` of `toCTree` are `parentIdx`) -/
theorem upgma_parent_child (n : Nat) (hn : 2 ≤ n) (d : Nat → Nat → ℚ) (c : Nat) (hc : c < 2 * n - 2) :
    ∃ h : parentIdx (upgma n d).nodes c < (upgma n d).nodes.length,
      (((upgma n d).nodes[parentIdx (upgma n d).nodes c]).I = c ∨ ((upgma n d).nodes[parentIdx (upgma n d).nodes c]).J = c) ∧
      c < 2 * n - 2 - parentIdx (upgma n d).nodes c :=
  parentIdx_spec (upgma_wellFormed' n hn d) hn c hc

/-- (a) with distances in [0, U] (U = 1 for `esl_dst_{C,X}DiffMx`): taxa have height 0, all heights lie in [0, U/2], every
    branch length `ld`/`rd` is exactly the height difference between the node and its child (the `ESL_MAX(0., …)` clamp never
    acts in exact arithmetic) and is ≥ 0, and heights never decrease from one created node to the next (UPGMA is
    reducible: a size-weighted mean of two distances ≥ the current minimum is ≥ it) -/
theorem upgma_heights (n : Nat) (hn : 2 ≤ n) (d : Nat → Nat → ℚ) (U : ℚ)
    (hd : ∀ x y, x < y → y < n → 0 ≤ d x y ∧ d x y ≤ U) (hU : 0 ≤ U) :
    (∀ t, t < n → (upgma n d).hgt.getD t 0 = 0) ∧
    (∀ c, 0 ≤ (upgma n d).hgt.getD c 0 ∧ (upgma n d).hgt.getD c 0 ≤ U / 2) ∧
    ∀ s (h : s < (upgma n d).nodes.reverse.length),
      ((upgma n d).nodes.reverse[s]).l = (upgma n d).hgt.getD (n + s) 0 - (upgma n d).hgt.getD ((upgma n d).nodes.reverse[s]).I 0 ∧
      ((upgma n d).nodes.reverse[s]).r = (upgma n d).hgt.getD (n + s) 0 - (upgma n d).hgt.getD ((upgma n d).nodes.reverse[s]).J 0 ∧
      0 ≤ ((upgma n d).nodes.reverse[s]).l ∧ 0 ≤ ((upgma n d).nodes.reverse[s]).r ∧
      (0 < s → (upgma n d).hgt.getD (n + s - 1) 0 ≤ (upgma n d).hgt.getD (n + s) 0) :=
  upgma_heights' n hn d U hd hU

/-- the distances GSC feeds in satisfy the hypothesis with U = 1 -/
theorem diffMx_in_unit_interval (m : Mode) (rows : List Row) (x y : Nat) :
    0 ≤ (1 : ℚ) - pid (α := ℚ) m (rows.getD x []) (rows.getD y []) ∧ (1 : ℚ) - pid (α := ℚ) m (rows.getD x []) (rows.getD y []) ≤ 1 := by
  have := pid_range' m (rows.getD x []) (rows.getD y [])
  constructor <;> linarith [this.1, this.2]

/-- (a) `esl_tree_SetCladesizes` = number of taxa below the node (`leafSets`: a taxon is below itself, a node has the taxa of
    its two children) = the `nin[]` the UPGMA average used; below the root every taxon occurs exactly once -/
theorem upgma_cladesizes (n : Nat) (hn : 2 ≤ n) (d : Nat → Nat → ℚ) :
    (∀ c, (kclades n (upgma n d).nodes.reverse).getD c 0 = ((leafSets n (upgma n d).nodes.reverse).getD c []).length) ∧
    (∀ c, (upgma n d).size.getD c 0 = (kclades n (upgma n d).nodes.reverse).getD c 0) ∧
    ((leafSets n (upgma n d).nodes.reverse).getD (2 * n - 2) []).Perm (List.range n) :=
  upgma_cladesizes' n hn d

/-- `esl_tree_SetCladesizes` counts the taxa below on ANY node list, well formed or not -/
theorem cladesizes_count_leaves (n : Nat) (created : List (KNode ℚ)) (c : Nat) :
    (kclades n created).getD c 0 = ((leafSets n created).getD c []).length :=
  (kclades_eq_leaves n created).2 c

/-- (b) the two GSC traversals + normalisation on ANY tree with branch lengths ≥ 0 (not only UPGMA's; incl. the
    zero-length-subtree rule `lw+rw == 0` ⇒ split by clade size): n weights, all ≥ 0, summing to n -/
theorem gscTree_sum_nonneg (n : Nat) (hn : 0 < n) (nodes : List (KNode ℚ)) (h : ∀ nd ∈ nodes, 0 ≤ nd.l ∧ 0 ≤ nd.r) :
    (gscTree n nodes).length = n ∧ (gscTree n nodes).sum = n ∧ ∀ w ∈ gscTree n nodes, 0 ≤ w :=
  ⟨gscTree_length n nodes, gscTree_sum n nodes hn, gscTree_nonneg n nodes h⟩

/-- `esl_msaweight_GSC` is `gscTree` of the UPGMA tree of the difference matrix -/
theorem gsc_is_gscTree_of_upgma (m : Mode) (rows : List Row) (h : (rows.length == 1) = false) :
    gsc (α := ℚ) m rows =
      gscTree rows.length (upgma rows.length (fun x y => WNum.ofNat 1 - pid m (rows.getD x []) (rows.getD y []))).nodes :=
  gsc_eq_gscTree m rows h

/-! non-vacuity: four taxa with distances 1/4, 3/4, 1, 1/2, 1, 1/2 (and a tie in the second pass) -/
def exD : Nat → Nat → ℚ := fun x y => ([[0, 1/4, 3/4, 1], [0, 0, 1/2, 1], [0, 0, 0, 1/2]].getD x []).getD y 0
example : ∀ x y, x < y → y < 4 → 0 ≤ exD x y ∧ exD x y ≤ 1 := by
  have h : ∀ y, y < 4 → ∀ x, x < y → 0 ≤ exD x y ∧ exD x y ≤ 1 := by decide +kernel
  exact fun x y hxy hy => h y hy x hxy
example : wellFormedB 4 (upgma 4 exD).nodes.reverse = true := by decide +kernel
example : ((upgma 4 exD).nodes.reverse.map fun nd => (nd.I, nd.J, nd.l, nd.r)) =
    [(0, 1, 1/8, 1/8), (2, 3, 1/4, 1/4), (4, 5, 9/32, 5/32)] := by decide +kernel
example : (toCTree 4 (upgma 4 exD)).left = [2, -2, 0] ∧ (toCTree 4 (upgma 4 exD)).right = [1, -3, -1] ∧
    (toCTree 4 (upgma 4 exD)).parent = [0, 0, 0] ∧ (toCTree 4 (upgma 4 exD)).taxaparent = [2, 2, 1, 1] ∧
    (toCTree 4 (upgma 4 exD)).cladesize = [4, 2, 2] := by decide +kernel
/-- a tree that is not UPGMA's (not ultrametric), and one with a zero-length subtree (the clade-size rule) -/
example : gscTree (α := ℚ) 3 [⟨0, 3, 2, 1⟩, ⟨1, 2, 1, 1⟩] = [6/5, 9/10, 9/10] ∧
    gscTree (α := ℚ) 3 [⟨0, 3, 1, 1⟩, ⟨1, 2, 0, 0⟩] = [3/2, 3/4, 3/4] := by decide +kernel
example : ∀ nd ∈ ([⟨0, 3, 1, 1⟩, ⟨1, 2, 0, 0⟩] : List (KNode ℚ)), 0 ≤ nd.l ∧ 0 ≤ nd.r := by
  intro nd h; simp at h; rcases h with rfl | rfl <;> constructor <;> norm_num

/-! ## `cluster_engine` in every mode: `esl_tree_UPGMA`, `esl_tree_WPGMA`, `esl_tree_SingleLinkage`, `esl_tree_CompleteLinkage`

  `linkTree L n d` = the state after the n−1 passes in mode `L` (`Weights/Engine.lean`); `linkTree .upgma = upgma` (the GSC tree).
  Compared exactly (whole `ESL_TREE`: N, is_linkage_tree, left, right, parent, ld, rd, taxaparent, cladesize, Validate) by op
  `upgma link=0..3`. All statements for EVERY matrix — ties, zeros, negative entries — unless a hypothesis says otherwise. -/

theorem linkage_is_upgma (n : Nat) (d : Nat → Nat → ℚ) : linkTree .upgma n d = upgma n d := linkTree_upgma n d

/-- every linkage returns a rooted binary tree on the n taxa: n−1 nodes, each joining two different clusters created before
    it, every taxon and every node but the root a child exactly once -/
theorem linkage_well_formed (L : Link) (n : Nat) (hn : 2 ≤ n) (d : Nat → Nat → ℚ) :
    WellFormed n (linkTree L n d).nodes.reverse := linkTree_wellFormed L n hn d

/-- `parent[]` / `taxaparent[]` (`parentIdx`) name a node at a smaller C index that has the cluster as left or right child -/
theorem linkage_parent_child (L : Link) (n : Nat) (hn : 2 ≤ n) (d : Nat → Nat → ℚ) (c : Nat) (hc : c < 2 * n - 2) :
    ∃ h : parentIdx (linkTree L n d).nodes c < (linkTree L n d).nodes.length,
      (((linkTree L n d).nodes[parentIdx (linkTree L n d).nodes c]).I = c ∨
       ((linkTree L n d).nodes[parentIdx (linkTree L n d).nodes c]).J = c) ∧
      c < 2 * n - 2 - parentIdx (linkTree L n d).nodes c :=
  parentIdx_spec (linkTree_wellFormed L n hn d) hn c hc

/-- `esl_tree_SetCladesizes` on the result counts the taxa below each node (`cladesizes_count_leaves` holds for any node list) -/
theorem linkage_cladesizes (L : Link) (n : Nat) (d : Nat → Nat → ℚ) (c : Nat) :
    (kclades n (linkTree L n d).nodes.reverse).getD c 0 = ((leafSets n (linkTree L n d).nodes.reverse).getD c []).length :=
  (kclades_eq_leaves n _).2 c

/-- heights, for EVERY matrix and EVERY mode: taxa are at 0; the first node is recorded at the minimum entry of the matrix
    (halved in an additive tree); `ld`/`rd` are the node's own value in a linkage tree and EXACTLY the height difference to
    the child in an additive tree (the `ESL_MAX(0., …)` clamp never acts over ℚ); a child node is never recorded higher than
    its parent; and the recorded values never decrease from one created node to the next — single linkage included: all four
    merge rules are reducible. -/
theorem linkage_heights (L : Link) (n : Nat) (hn : 2 ≤ n) (d : Nat → Nat → ℚ) :
    (∀ t, t < n → (linkTree L n d).hgt.getD t 0 = 0) ∧
    (linkTree L n d).hgt.getD n 0 = L.hOf (kMin (kinitMx n d)).1 ∧
    ∀ s (h : s < (linkTree L n d).nodes.reverse.length),
      ((linkTree L n d).nodes.reverse[s]).l =
        (if L.isLinkage then (linkTree L n d).hgt.getD (n + s) 0
         else (linkTree L n d).hgt.getD (n + s) 0 - (linkTree L n d).hgt.getD ((linkTree L n d).nodes.reverse[s]).I 0) ∧
      ((linkTree L n d).nodes.reverse[s]).r =
        (if L.isLinkage then (linkTree L n d).hgt.getD (n + s) 0
         else (linkTree L n d).hgt.getD (n + s) 0 - (linkTree L n d).hgt.getD ((linkTree L n d).nodes.reverse[s]).J 0) ∧
      (n ≤ ((linkTree L n d).nodes.reverse[s]).I →
        (linkTree L n d).hgt.getD ((linkTree L n d).nodes.reverse[s]).I 0 ≤ (linkTree L n d).hgt.getD (n + s) 0) ∧
      (n ≤ ((linkTree L n d).nodes.reverse[s]).J →
        (linkTree L n d).hgt.getD ((linkTree L n d).nodes.reverse[s]).J 0 ≤ (linkTree L n d).hgt.getD (n + s) 0) ∧
      (0 < s → (linkTree L n d).hgt.getD (n + s - 1) 0 ≤ (linkTree L n d).hgt.getD (n + s) 0) :=
  linkTree_heights' L n hn d

/-- every merge rule keeps the new distances between the two it merges' common bounds -/
theorem linkage_merge_reducible (L : Link) (rows : Array (Array ℚ)) (nI nJ I J x : Nat) (hI : 0 < nI) (hJ : 0 < nJ) (lo : ℚ)
    (h1 : lo ≤ kdist rows I x) (h2 : lo ≤ kdist rows J x) : lo ≤ lmerged L rows nI nJ I J x :=
  lmerged_lower L rows nI nJ I J x hI hJ h1 h2

/-- branch lengths are ≥ 0 in every mode when no distance is negative … -/
theorem linkage_branch_lengths_nonneg (L : Link) (n : Nat) (hn : 2 ≤ n) (d : Nat → Nat → ℚ)
    (hd : ∀ x y, x < y → y < n → 0 ≤ d x y) (s : Nat) (h : s < (linkTree L n d).nodes.reverse.length) :
    0 ≤ ((linkTree L n d).nodes.reverse[s]).l ∧ 0 ≤ ((linkTree L n d).nodes.reverse[s]).r :=
  linkTree_branch_nonneg L n hn d hd s h

/-- … and NOT on any input: `esl_tree_UPGMA` on two taxa at distance −1 returns `ld = rd = −1/2` (only a child NODE's height
    is clamped away; `esl_tree_Validate` rejects that tree) -/
theorem linkage_branch_lengths_negative_at :
    ((linkTree (α := ℚ) .upgma 2 (fun _ _ => -1)).nodes.map fun nd => (nd.I, nd.J, nd.l, nd.r)) = [(0, 1, -1/2, -1/2)] ∧
    ((linkTree (α := ℚ) .single 2 (fun _ _ => -1)).nodes.map fun nd => (nd.I, nd.J, nd.l, nd.r)) = [(0, 1, -1, -1)] := by
  decide +kernel

/-! non-vacuity: the four modes on `exD` (1/4, 3/4, 1, 1/2, 1, 1/2) (a tie in the second pass of single linkage: the first minimum in position order joins) -/
example : ((linkTree .wpgma 4 exD).nodes.reverse.map fun nd => (nd.I, nd.J, nd.l, nd.r)) =
    [(0, 1, 1/8, 1/8), (2, 3, 1/4, 1/4), (4, 5, 9/32, 5/32)] := by decide +kernel
example : ((linkTree .single 4 exD).nodes.reverse.map fun nd => (nd.I, nd.J, nd.l, nd.r)) =
    [(0, 1, 1/4, 1/4), (2, 3, 1/2, 1/2), (4, 5, 1/2, 1/2)] := by decide +kernel
example : ((linkTree .complete 4 exD).nodes.reverse.map fun nd => (nd.I, nd.J, nd.l, nd.r)) =
    [(0, 1, 1/4, 1/4), (2, 3, 1/2, 1/2), (4, 5, 1, 1)] := by decide +kernel
example : (toCTree 4 (linkTree .single 4 exD)).left = [2, -2, 0] ∧ (toCTree 4 (linkTree .single 4 exD)).right = [1, -3, -1] ∧
    (toCTree 4 (linkTree .single 4 exD)).cladesize = [4, 2, 2] := by decide +kernel

/-! ## the other pairwise functions of esl_distance.c -/

/-- esl_dst_{C,X}PairMatch on aligned sequences: columns where both cells are residues over columns where at least one is
    (0 if there is none), with the counts returned in `opt_nm`, `opt_n`; different lengths: eslEINVAL -/
theorem pairMatch_spec (m : Mode) (a b : Row) :
    (a.length = b.length → pairMatch (α := ℚ) m a b = some (pmSpec m a b, nmSpec m a b, eitherSpec m a b)) ∧
    (a.length ≠ b.length → pairMatch (α := ℚ) m a b = none) :=
  ⟨pairMatch_aligned m a b, pairMatch_unaligned' m a b⟩

/-- symmetric, in [0,1]; and identities ≤ matches ≤ columns with a residue -/
theorem pairMatch_symm_range (m : Mode) (a b : Row) :
    pmatch (α := ℚ) m a b = pmatch m b a ∧ 0 ≤ pmatch (α := ℚ) m a b ∧ pmatch (α := ℚ) m a b ≤ 1 ∧
    nidSpec m a b ≤ nmSpec m a b ∧ nmSpec m a b ≤ eitherSpec m a b :=
  ⟨pmatch_comm m a b, (pmatch_range' m a b).1, (pmatch_range' m a b).2, nidSpec_le_nm m a b, nmSpec_le_either m a b⟩

example : pairMatch (α := ℚ) Mode.text [65, 67, 45, 97] [97, 45, 45, 65] = some (2/3, 2, 3) := by decide +kernel

/-- esl_dst_{C,X}JukesCantor: the counts do not depend on the order of the two sequences; unaligned: eslEINVAL -/
theorem jukesCantor_symm (j : JCMode) (K : Nat) (a b : Row) :
    jukesCantor (α := ℝ) j K a b = jukesCantor j K b a ∧ (a.length ≠ b.length → jukesCantor (α := ℝ) j K a b = .einval) := by
  refine ⟨by unfold jukesCantor; rw [jcCounts_comm], fun h => by unfold jukesCantor; rw [jcCounts_none j a b h]⟩

/-- static `jukescantor()` over ℝ, alphabet size K ≥ 2, n1 identities and n2 substitutions: no compared column ⇒
    eslEDIVZERO; D = n2/(n1+n2) ≥ (K−1)/K ⇒ saturation (distance = variance = HUGE_VAL); otherwise
    d = −(K/(K−1))·ln(1 − D·K/(K−1)) ≥ 0, variance = e^{2Kd/(K−1)}·D(1−D)/N ≥ 0, and both are 0 when n2 = 0 -/
theorem jukescantor_spec (n1 n2 K : Nat) (hK : 2 ≤ K) :
    (n1 + n2 = 0 → jukescantor (α := ℝ) n1 n2 K = .edivzero) ∧
    (0 < n1 + n2 → (n1 + n2) * (K - 1) ≤ n2 * K → jukescantor (α := ℝ) n1 n2 K = .saturated) ∧
    (0 < n1 + n2 → n2 * K < (n1 + n2) * (K - 1) → ∃ d v : ℝ, jukescantor (α := ℝ) n1 n2 K = .ok d v ∧
      d = -Real.log (1 - ((n2 : ℝ) / ((n1 + n2 : Nat) : ℝ)) * K / ((K : ℝ) - 1)) * K / ((K : ℝ) - 1) ∧
      v = Real.exp (2 * K * d / ((K : ℝ) - 1)) * ((n2 : ℝ) / ((n1 + n2 : Nat) : ℝ)) *
            (1 - (n2 : ℝ) / ((n1 + n2 : Nat) : ℝ)) / ((n1 + n2 : Nat) : ℝ) ∧
      0 ≤ d ∧ 0 ≤ v ∧ (n2 = 0 → d = 0 ∧ v = 0)) :=
  ⟨fun h => by unfold jukescantor; simp [h], fun hp => (jukescantor_spec' n1 n2 K hK hp).1,
   fun hp => (jukescantor_spec' n1 n2 K hK hp).2⟩

/-- non-vacuity: DNA, 3 identities + 1 substitution is below saturation, 1 + 3 is at it -/
example : (1 : Nat) * 4 < (3 + 1) * (4 - 1) ∧ (1 + 3) * (4 - 1) ≤ 3 * 4 := by decide
example : jcCounts JCMode.text [65, 67, 71, 84, 45] [97, 67, 71, 65, 65] 0 0 = some (3, 1) := by decide

/-- esl_dst_{C,X}Average{Id,Match} (`f` = pairwise identity resp. match fraction; `sampled` = the pairs the sampling
    branch draws from `esl_randomness_Create(42)`): 1 for fewer than two rows; otherwise the plain mean over all pairs
    i < j when N² ≤ 2·max_comparisons — THAT is the code's test, not "N(N−1)/2 ≤ max_comparisons" as documented —
    else the mean over the sampled pairs -/
theorem average_spec (f : Row → Row → ℚ) (rows : List Row) (maxc : Nat) (sampled : List (Nat × Nat)) :
    (rows.length ≤ 1 → average f rows maxc sampled = 1) ∧
    (2 ≤ rows.length → average f rows maxc sampled =
      if rows.length * rows.length ≤ 2 * maxc then
        ((allPairs rows.length).map fun p => f (rows.getD p.1 []) (rows.getD p.2 [])).sum /
          ((rows.length * (rows.length - 1) / 2 : Nat) : ℚ)
      else (sampled.map fun p => f (rows.getD p.1 []) (rows.getD p.2 [])).sum / (maxc : ℚ)) ∧
    (allPairs rows.length).length = rows.length * (rows.length - 1) / 2 :=
  ⟨average_single f rows maxc sampled, average_value f rows maxc sampled, allPairs_length rows.length⟩

/-- four rows have six pairs, yet `max_comparisons = 6` sends the code into the sampling branch (16 > 12) -/
example : exhaustive 4 6 = false ∧ 4 * (4 - 1) / 2 ≤ 6 ∧ exhaustive 4 8 = true := by decide

/-- the average identity / match fraction lies in [0,1] in both branches, for EVERY list of `max_comparisons` ≥ 1 sampled
    pairs (any generator state) -/
theorem averageId_range (m : Mode) (rows : List Row) (maxc : Nat) (sampled : List (Nat × Nat))
    (hs : sampled.length = maxc) (hm : 1 ≤ maxc) :
    (0 ≤ averageId (α := ℚ) m rows maxc sampled ∧ averageId (α := ℚ) m rows maxc sampled ≤ 1) ∧
    (0 ≤ averageMatch (α := ℚ) m rows maxc sampled ∧ averageMatch (α := ℚ) m rows maxc sampled ≤ 1) :=
  ⟨average_range _ (pid_range' m) rows maxc sampled hs hm, average_range _ (pmatch_range' m) rows maxc sampled hs hm⟩

example : averageId (α := ℚ) Mode.text [[65, 67], [65, 71], [84, 71]] 5 [] = 1/3 ∧
    averageId (α := ℚ) Mode.text [[65, 67], [65, 71], [84, 71]] 2 [(0, 1), (2, 0)] = 1/4 := by decide +kernel

/-! ## esl_distance.c, every public function, for `esl_dst_C…` (m = `Mode.text`, j = `JCMode.text`) and `esl_dst_X…`
    (m = `Mode.digital abc`, j = `JCMode.digital abc`) alike; "empty" = no residue (all gaps / missing data / non-residue symbols) -/

/-- `esl_dst_CPairId` and `esl_dst_XPairId`, named explicitly: symmetric, in [0,1], and 0 as soon as EITHER sequence is empty
    (whichever argument it is) -/
theorem cPairId_xPairId_symm_range_empty (abc : Abc) (a b : Row) (hl : a.length = b.length) :
    ∀ m ∈ [Mode.text, Mode.digital abc],
      pid (α := ℚ) m a b = pid m b a ∧ (0 ≤ pid (α := ℚ) m a b ∧ pid (α := ℚ) m a b ≤ 1) ∧
      (lenSpec m a = 0 ∨ lenSpec m b = 0 → pid (α := ℚ) m a b = 0) :=
  fun m _ => ⟨pairId_symm m a b, pairId_range m a b hl, pairId_empty m a b hl⟩

example : pid (α := ℚ) (Mode.digital Abc.amino) [0, 1, 2] [20, 28, 27] = 0 ∧
    pid (α := ℚ) (Mode.digital Abc.amino) [20, 28, 27] [0, 1, 2] = 0 ∧ pid (α := ℚ) Mode.text [65, 67] [45, 126] = 0 := by
  decide +kernel

/-- `esl_dst_{C,X}PairMatch`: 0 as soon as either aligned sequence is empty (symmetry and range: `pairMatch_symm_range`) -/
theorem pairMatch_empty (m : Mode) (a b : Row) (hl : a.length = b.length) (h : lenSpec m a = 0 ∨ lenSpec m b = 0) :
    pmatch (α := ℚ) m a b = 0 := pmatch_empty m a b hl h

/-- `esl_dst_{C,X}JukesCantor`: a sequence without any canonical residue (text: letter) leaves no column to compare:
    eslEDIVZERO, distance and variance HUGE_VAL — over every numeric instance -/
theorem jukesCantor_empty (j : JCMode) (K : Nat) (a b : Row) (hl : a.length = b.length)
    (h : (∀ x ∈ a, j.ok x = false) ∨ (∀ x ∈ b, j.ok x = false)) :
    jukesCantor (α := ℝ) j K a b = .edivzero ∧ jukesCantor (α := Float) j K a b = .edivzero :=
  ⟨EaselModel.Weights.jukesCantor_empty j K a b hl h, EaselModel.Weights.jukesCantor_empty j K a b hl h⟩

/-- the Jukes-Cantor distance is infinite exactly when the fraction of identical columns n1/(n1+n2) is at most 1/K -/
theorem jukescantor_infinite_iff (n1 n2 K : Nat) (hK : 2 ≤ K) (hpos : 0 < n1 + n2) :
    jukescantor (α := ℝ) n1 n2 K = .saturated ↔ n1 * K ≤ n1 + n2 :=
  jukescantor_saturated_iff n1 n2 K hK hpos

example : (1 : Nat) * 4 ≤ 1 + 3 ∧ ¬ (2 * 4 ≤ 2 + 2) := by decide

/-- `esl_dst_{C,X}DiffMx` (row-major N×N): 0 on the diagonal, 1 − pairwise identity elsewhere, symmetric, in [0,1]; an empty
    row is at distance exactly 1 from every other row -/
theorem diffMx_spec (m : Mode) (rows : List Row) (i j : Nat) (hi : i < rows.length) (hj : j < rows.length) :
    ((diffMx (α := ℚ) m rows).getD (i * rows.length + j) 0 =
      if i = j then 0 else 1 - pid (α := ℚ) m (rows.getD i []) (rows.getD j [])) ∧
    (diffMx (α := ℚ) m rows).getD (i * rows.length + j) 0 = (diffMx (α := ℚ) m rows).getD (j * rows.length + i) 0 ∧
    (0 ≤ (diffMx (α := ℚ) m rows).getD (i * rows.length + j) 0 ∧ (diffMx (α := ℚ) m rows).getD (i * rows.length + j) 0 ≤ 1) ∧
    (i ≠ j → (rows.getD i []).length = (rows.getD j []).length →
      lenSpec m (rows.getD i []) = 0 ∨ lenSpec m (rows.getD j []) = 0 →
      (diffMx (α := ℚ) m rows).getD (i * rows.length + j) 0 = 1) := by
  refine ⟨diffMx_entry m rows i j hi hj, (diffMx_symm_range m rows i j hi hj).1, (diffMx_symm_range m rows i j hi hj).2, ?_⟩
  intro hne hl he
  rw [diffMx_entry m rows i j hi hj, if_neg hne, pairId_empty m _ _ hl he]; norm_num

/-- `esl_dst_{C,X}JukesCantorMx`: symmetric entries; it fails (both matrices NULL) exactly when the distance call of some
    pair i < j fails (eslEINVAL unaligned / eslEDIVZERO no compared column — e.g. an empty row, `jukesCantor_empty`) -/
theorem jukesCantorMx_spec (j : JCMode) (K : Nat) (rows : List Row) :
    (∀ a b, jcMxEntry (α := ℝ) j K rows a b = jcMxEntry j K rows b a) ∧
    (jcMxError (α := ℝ) j K rows = none ↔
      ∀ a b, a < b → b < rows.length →
        jukesCantor (α := ℝ) j K (rows.getD a []) (rows.getD b []) ≠ .einval ∧
        jukesCantor (α := ℝ) j K (rows.getD a []) (rows.getD b []) ≠ .edivzero) :=
  ⟨jcMxEntry_symm j K rows, jcMxError_none_iff j K rows⟩

/-- `esl_dst_XAvgConnectivity` (`f` = pairwise identity, `sampled` = the max_comparisons pairs drawn from the Mersenne Twister
    seeded with 42): the identity half IS `esl_dst_XAverageId`; the connectivity half is a fraction in [0,1]; in the exhaustive
    branch it is the number of pairs i < j with identity STRICTLY above the threshold over N(N−1)/2 -/
theorem avgConnectivity_spec (f : Row → Row → ℚ) (rows : List Row) (maxc : Nat) (thresh : ℚ) (sampled : List (Nat × Nat))
    (hs : sampled.length = maxc) :
    (avgConnectivity f rows maxc thresh sampled).1 = average f rows maxc sampled ∧
    (0 ≤ (avgConnectivity f rows maxc thresh sampled).2 ∧ (avgConnectivity f rows maxc thresh sampled).2 ≤ 1) ∧
    (2 ≤ rows.length → rows.length * rows.length ≤ 2 * maxc →
      (avgConnectivity f rows maxc thresh sampled).2 =
        (((allPairs rows.length).countP fun p => decide (thresh < f (rows.getD p.1 []) (rows.getD p.2 [])) : Nat) : ℚ) /
          ((rows.length * (rows.length - 1) / 2 : Nat) : ℚ)) :=
  ⟨(EaselModel.Weights.avgConnectivity_spec f rows maxc thresh sampled hs).1,
   (EaselModel.Weights.avgConnectivity_spec f rows maxc thresh sampled hs).2,
   fun hN hx => avgConnectivity_exhaustive f rows maxc thresh sampled hN hx⟩

/-- `esl_dst_XAvgSubsetConnectivity` on the index list V is `esl_dst_XAvgConnectivity` on the rows V names, in V's order -/
theorem avgSubsetConnectivity_is (f : Row → Row → ℚ) (rows : List Row) (V : List Nat) (maxc : Nat) (thresh : ℚ)
    (sampled : List (Nat × Nat)) :
    avgSubsetConnectivity f rows V maxc thresh sampled = avgConnectivity f (V.map fun v => rows.getD v []) maxc thresh sampled :=
  rfl

example : avgConnectivity (pid (α := ℚ) Mode.text) [[65, 67], [65, 71], [84, 71]] 5 (1/4) [] = (1/3, 2/3) ∧
    avgSubsetConnectivity (pid (α := ℚ) Mode.text) [[65, 67], [65, 71], [84, 71]] [2, 0] 5 0 [] = (0, 0) := by decide +kernel

/-! ## `esl_quicksort` sorts; the three preference rules of `esl_msaweight_IDFilter_adv`; consensus-column selection -/

/-- `esl_quicksort` SORTS (not only permutes): for every comparison function that is reflexive, total and transitive on
    0..n−1, `sorted_at[x]` never compares after `sorted_at[y]` for x < y. (The median-of-three no-op, the Hoare loop and the
    recursion order are those of the C code; the model's fuel provably never runs out.) -/
theorem quicksort_sorts (cmp : Nat → Nat → Int) (n : Nat) (hc : CmpOK cmp (· < n)) (x y : Nat) (hxy : x < y) (hy : y < n) :
    cmp ((quicksort cmp n).getD x 0) ((quicksort cmp n).getD y 0) ≤ 0 := quicksort_sorted hc x y hxy hy

/-- `sort_doubles_decreasing` on any weight vector is such a comparison, so the weights along `sorted_at[]` never increase -/
theorem quicksort_decreasing_weights (w : List ℚ) :
    CmpOK (cmpDecreasing w) (· < w.length) ∧
    ∀ x y, x < y → y < w.length →
      w.getD ((quicksort (cmpDecreasing w) w.length).getD y 0) 0 ≤ w.getD ((quicksort (cmpDecreasing w) w.length).getD x 0) 0 :=
  ⟨cmpDecreasing_ok w, fun x y hxy hy => quicksort_decreasing w x y hxy hy⟩

example : quicksort (cmpDecreasing ([3, 1, 4, 1, 5, 9, 2, 6] : List ℚ)) 8 = [5, 7, 4, 2, 0, 6, 3, 1] := by decide +kernel

/-- every preference rule: a dropped row reaches the threshold with a DIFFERENT kept row that the rule prefers at least as
    much (`sortwgt[k] ≥ sortwgt[r]`) -/
theorem idFilterAdv_keeps_preferred (abc : Abc) (cfg : WCfg) (deal : Nat → Nat → List Nat) (pref : FilterPref) (maxid : ℚ)
    (rf : Option Row) (rows : List Row) (r : Nat) (hr : r < rows.length)
    (h : r ∉ idFilterAdv abc cfg deal pref maxid rf rows) :
    ∃ k ∈ idFilterAdv abc cfg deal pref maxid rf rows, k ≠ r ∧ k < rows.length ∧
      (sortwgtOf (α := ℚ) abc cfg deal rf rows pref).getD r 0 ≤ (sortwgtOf (α := ℚ) abc cfg deal rf rows pref).getD k 0 ∧
      maxid ≤ pid (α := ℚ) (Mode.digital abc) (rows.getD r []) (rows.getD k []) :=
  idFilterDigital_keeps_preferred abc maxid _ rows (sortwgtOf_length abc cfg deal rf rows pref) r hr h

/-- eslMSAWEIGHT_FILT_CONSCOVER: the surviving representative spans at least as many consensus columns as the dropped row -/
theorem idFilterAdv_conscover (abc : Abc) (cfg : WCfg) (deal : Nat → Nat → List Nat) (maxid : ℚ) (rf : Option Row)
    (rows : List Row) (r : Nat) (hr : r < rows.length) (h : r ∉ idFilterAdv abc cfg deal .conscover maxid rf rows) :
    ∃ k ∈ idFilterAdv abc cfg deal .conscover maxid rf rows, k ≠ r ∧
      conscover abc (filterConsensusAdv abc cfg deal rf rows) (rows.getD r []) ≤
        conscover abc (filterConsensusAdv abc cfg deal rf rows) (rows.getD k []) ∧
      maxid ≤ pid (α := ℚ) (Mode.digital abc) (rows.getD r []) (rows.getD k []) := by
  obtain ⟨k, hk, hne, hklt, hw, hl⟩ := idFilterAdv_keeps_preferred abc cfg deal .conscover maxid rf rows r hr h
  rw [(sortwgtOf_getD abc cfg deal rf rows r hr).1, (sortwgtOf_getD abc cfg deal rf rows k hklt).1] at hw
  exact ⟨k, hk, hne, by exact_mod_cast hw, hl⟩

/-- eslMSAWEIGHT_FILT_RANDOM: the surviving representative drew at least as large a random number -/
theorem idFilterAdv_random (abc : Abc) (cfg : WCfg) (deal : Nat → Nat → List Nat) (nums : List Nat) (maxid : ℚ)
    (rf : Option Row) (rows : List Row) (r : Nat) (hr : r < rows.length)
    (h : r ∉ idFilterAdv abc cfg deal (.random nums) maxid rf rows) :
    ∃ k ∈ idFilterAdv abc cfg deal (.random nums) maxid rf rows, k ≠ r ∧ nums.getD r 0 ≤ nums.getD k 0 ∧
      maxid ≤ pid (α := ℚ) (Mode.digital abc) (rows.getD r []) (rows.getD k []) := by
  obtain ⟨k, hk, hne, hklt, hw, hl⟩ := idFilterAdv_keeps_preferred abc cfg deal (.random nums) maxid rf rows r hr h
  rw [(sortwgtOf_getD abc cfg deal rf rows r hr).2.1 nums, (sortwgtOf_getD abc cfg deal rf rows k hklt).2.1 nums] at hw
  refine ⟨k, hk, hne, ?_, hl⟩
  have h2 : ((nums.getD r 0 : Nat) : ℚ) ≤ ((nums.getD k 0 : Nat) : ℚ) := by
    have hpos : (0 : ℚ) < 9007199254740992 := by norm_num
    exact (div_le_div_iff_of_pos_right hpos).mp hw
  exact_mod_cast h2

/-- eslMSAWEIGHT_FILT_ORIGORDER: the sort leaves the rows in their original order, so the digital filter IS the text-mode
    rule "keep the earlier row, drop the later": a dropped row reaches the threshold with a kept row of smaller index -/
theorem idFilterAdv_origorder (abc : Abc) (cfg : WCfg) (deal : Nat → Nat → List Nat) (maxid : ℚ) (rf : Option Row)
    (rows : List Row) :
    idFilterAdv abc cfg deal .origorder maxid rf rows =
      idFilterOrder (Mode.digital abc) maxid rows (List.range rows.length) ∧
    ∀ r, r < rows.length → r ∉ idFilterAdv abc cfg deal .origorder maxid rf rows →
      ∃ k ∈ idFilterAdv abc cfg deal .origorder maxid rf rows, k < r ∧
        maxid ≤ pid (α := ℚ) (Mode.digital abc) (rows.getD r []) (rows.getD k []) := by
  refine ⟨?_, ?_⟩
  · unfold idFilterAdv idFilterDigital
    show idFilterOrder _ _ _ (quicksort (cmpDecreasing ((List.range rows.length).map fun i => ((rows.length - i : Nat) : ℚ)))
      rows.length) = _
    rw [quicksort_origorder]
  · intro r hr h
    obtain ⟨k, hk, hne, hklt, hw, hl⟩ := idFilterAdv_keeps_preferred abc cfg deal .origorder maxid rf rows r hr h
    rw [(sortwgtOf_getD abc cfg deal rf rows r hr).2.2, (sortwgtOf_getD abc cfg deal rf rows k hklt).2.2] at hw
    have h2 : rows.length - r ≤ rows.length - k := by exact_mod_cast hw
    exact ⟨k, hk, by omega, hl⟩

/-- consensus columns, `consensus_by_all` (and the second half of `consensus_by_sample`): column `apos` is selected iff the
    documented rule `gaps / (residues + gaps) < symfrac` holds of its two counts, where a full-length row counts everywhere
    and a fragment (span < ceil(fragthresh·alen)) only between its first and last residue -/
theorem consensus_by_all_selects (abc : Abc) (rule : Nat → Nat → Bool) (infos : List RowInfo) (alen apos : Nat)
    (hK : abc.K < abc.Kp) :
    (apos ∈ consByAll abc rule infos alen ↔ apos < alen ∧ rule (colGap abc infos apos) (colTot abc infos apos) = true) ∧
    (consByAll abc rule infos alen).Pairwise (· < ·) :=
  ⟨consByAll_mem abc rule infos alen apos hK, consByAll_sorted abc rule infos alen⟩

/-- `consensus_by_rf`: exactly the columns whose RF character is not a gap symbol, in increasing order -/
theorem consensus_by_rf_selects (rf : Row) (alen apos : Nat) :
    (apos ∈ consByRf rf alen ↔ apos < alen ∧ isGapChar (rf.getD apos 45) = false) ∧ (consByRf rf alen).Pairwise (· < ·) :=
  ⟨consByRf_mem rf alen apos, consByRf_sorted rf alen⟩

/-- `consensus_by_sample` on ANY sample of row indices (any `esl_rand64` state): the fragment count is that of the sampled
    rows; the sample is rejected iff it exceeds `maxfrag` (then no column); otherwise exactly the columns meeting the rule on
    the counts over the SAMPLED rows -/
theorem consensus_by_sample_selects (abc : Abc) (cfg : WCfg) (rows : List Row) (samp : List Nat) (alen : Nat)
    (hK : abc.K < abc.Kp) :
    let infos := samp.map fun idx => rowInfo abc cfg.minspan (rows.getD idx [])
    (consBySample abc cfg rows samp alen).nfrag = infos.countP (·.frag) ∧
    ((consBySample abc cfg rows samp alen).rejected = true ↔ cfg.maxfrag < (infos.countP (·.frag) : Int)) ∧
    ((consBySample abc cfg rows samp alen).rejected = true → (consBySample abc cfg rows samp alen).cols = []) ∧
    ((consBySample abc cfg rows samp alen).rejected = false → ∀ apos,
      apos ∈ (consBySample abc cfg rows samp alen).cols ↔
        apos < alen ∧ cfg.rule (colGap abc infos apos) (colTot abc infos apos) = true) :=
  consBySample_spec abc cfg rows samp alen hK

/-- the cascade of `esl_msaweight_PB_adv`: RF (unless ignored) or a sample (when allowed and nseq > sampthresh); if that
    gave no column, `consensus_by_all` on all rows; if that gave none either, every column -/
theorem pbAdv_consensus_cascade (abc : Abc) (cfg : WCfg) (deal : Nat → Nat → List Nat) (rf : Option Row) (rows : List Row) :
    (pbConsensusAdv abc cfg deal rf rows).cols =
      (let early := match consWay cfg rf rows.length with
        | .byRf r => consByRf r (alenOf rows)
        | .bySample => (consBySample abc cfg rows (sampleRows cfg deal rows.length) (alenOf rows)).cols
        | .neither => []
       let all := consByAll abc cfg.rule (rows.map (rowInfo abc cfg.minspan)) (alenOf rows)
       if early.isEmpty then (if all.isEmpty then List.range (alenOf rows) else all) else early) := by
  unfold pbConsensusAdv
  cases consWay cfg rf rows.length <;> simp only [] <;> split <;> simp_all

example : Abc.amino.K < Abc.amino.Kp ∧ Abc.dna.K < Abc.dna.Kp := by decide
/-- rows `A-`, `AA`, `-A`: with minspan 2 the first and third are fragments and do not count the column of their outer gap;
    with minspan 0 every row counts everywhere -/
example : colGap Abc.amino ([[0, 20], [0, 0], [20, 0]].map (rowInfo Abc.amino 2)) 0 = 0 ∧
    colTot Abc.amino ([[0, 20], [0, 0], [20, 0]].map (rowInfo Abc.amino 2)) 0 = 2 ∧
    colGap Abc.amino ([[0, 20], [0, 0], [20, 0]].map (rowInfo Abc.amino 0)) 0 = 1 ∧
    consByAll Abc.amino (fun g t => 2 * g < t) ([[0, 20], [0, 0], [20, 0]].map (rowInfo Abc.amino 2)) 2 = [0, 1] := by
  decide +kernel

/-- the sampling branch of `esl_dst_{C,X}Average{Id,Match}` / `XAvg(Subset)Connectivity` for EVERY state of the C09 generator
    (`esl_randomness_Create(42)` in the code): each pair drawn names two DIFFERENT rows inside the alignment (no read outside
    `as[]`/`ax[]`, no self-comparison), and at most `max_comparisons` pairs are drawn -/
theorem average_sampling_in_bounds (N maxc : Nat) (r : EaselModel.Random.Rng) :
    (∀ p ∈ samplePairs N maxc r [], p.1 < N ∧ p.2 < N ∧ p.2 ≠ p.1) ∧ (samplePairs N maxc r []).length ≤ maxc := by
  have h := samplePairs_valid N maxc r [] (by simp)
  exact ⟨h.1, by simpa using h.2⟩

/-- an alignment (N ≥ 2) in which no row has a residue: average identity and average match fraction are 0 in both branches -/
theorem average_all_empty (m : Mode) (rows : List Row) (L maxc : Nat) (sampled : List (Nat × Nat))
    (hrect : ∀ a ∈ rows, a.length = L) (he : ∀ a ∈ rows, lenSpec m a = 0) (hN : 2 ≤ rows.length)
    (hs : ∀ p ∈ sampled, p.1 < rows.length ∧ p.2 < rows.length) :
    averageId (α := ℚ) m rows maxc sampled = 0 ∧ averageMatch (α := ℚ) m rows maxc sampled = 0 :=
  ⟨average_all_zero _ rows maxc sampled
      (fun a ha b hb => pairId_empty m a b ((hrect a ha).trans (hrect b hb).symm) (Or.inl (he a ha))) hN hs,
   average_all_zero _ rows maxc sampled
      (fun a ha b hb => pmatch_empty m a b ((hrect a ha).trans (hrect b hb).symm) (Or.inl (he a ha))) hN hs⟩

/-- UPGMA and WPGMA trees are ultrametric over ℚ: below every node both children are at the same depth -/
theorem linkage_additive_ultrametric (L : Link) (hL : L.isLinkage = false) (n : Nat) (hn : 2 ≤ n) (d : Nat → Nat → ℚ) (s : Nat)
    (h : s < (linkTree L n d).nodes.reverse.length) :
    ((linkTree L n d).nodes.reverse[s]).l + (linkTree L n d).hgt.getD ((linkTree L n d).nodes.reverse[s]).I 0 =
      ((linkTree L n d).nodes.reverse[s]).r + (linkTree L n d).hgt.getD ((linkTree L n d).nodes.reverse[s]).J 0 := by
  obtain ⟨h1, h2, _⟩ := (linkTree_heights' L n hn d).2.2 s h
  rw [h1, h2, hL]; simp

/-- the cascade of `esl_msaweight_IDFilter_adv` (conscover preference): RF (unless ignored), or a sample (when allowed and
    nseq > sampthresh), or `consensus_by_all` on all rows; if that gave no column — a rejected sample included — every column
    (there is NO `consensus_by_all` retry after an empty RF / rejected sample here, unlike in `PB_adv`) -/
theorem idFilterAdv_consensus_cascade (abc : Abc) (cfg : WCfg) (deal : Nat → Nat → List Nat) (rf : Option Row) (rows : List Row) :
    filterConsensusAdv abc cfg deal rf rows =
      (let c := match consWay cfg rf rows.length with
        | .byRf r => consByRf r (alenOf rows)
        | .bySample => (consBySample abc cfg rows (sampleRows cfg deal rows.length) (alenOf rows)).cols
        | .neither => consByAll abc cfg.rule (rows.map (rowInfo abc cfg.minspan)) (alenOf rows)
       if c.isEmpty then List.range (alenOf rows) else c) := rfl

/-- clade sizes in every mode: the `nin[]` the engine keeps is `esl_tree_SetCladesizes`'s value, the root's clade consists of
    all n taxa, each exactly once, and `cladesize[0] = n` -/
theorem linkage_cladesizes_root (L : Link) (n : Nat) (hn : 2 ≤ n) (d : Nat → Nat → ℚ) :
    (∀ c, (linkTree L n d).size.getD c 0 = (kclades n (linkTree L n d).nodes.reverse).getD c 0) ∧
    ((leafSets n (linkTree L n d).nodes.reverse).getD (2 * n - 2) []).Perm (List.range n) ∧
    (kclades n (linkTree L n d).nodes.reverse).getD (2 * n - 2) 0 = n :=
  linkTree_cladesizes' L n hn d

/-- the documented fragment rule: "a sequence is a fragment if (length from first to last aligned residue) / alen < fragthresh";
    the code's integer test `span < ceil(fragthresh · alen)` says the same over ℚ (the driver evaluates the ceiling in binary32
    exactly as the C code does) -/
theorem fragment_rule_documented (ft : ℚ) (alen : Nat) (span : Int) (h : 0 < alen) :
    span < ⌈ft * (alen : ℚ)⌉ ↔ (span : ℚ) / (alen : ℚ) < ft := by
  have hpos : (0 : ℚ) < (alen : ℚ) := by exact_mod_cast h
  rw [Int.lt_ceil, div_lt_iff₀ hpos]

/-- the text and the digital definition of pairwise identity AGREE: `esl_dst_XPairId` on the image of two sequences under ANY
    symbol map `φ` that preserves "is a residue" and "same residue" on the symbols `S` they use returns the same
    (pid, nid, n) as `esl_dst_CPairId` on the originals — over every numeric instance (so also bit for bit in binary64) -/
theorem pairId_text_digital_agree {α} [WNum α] (m m' : Mode) (φ : UInt8 → UInt8) (S : UInt8 → Prop)
    (hres : ∀ c, S c → m'.isRes (φ c) = m.isRes c)
    (hkey : ∀ c c', S c → S c' → m.isRes c = true → m.isRes c' = true → (m'.key (φ c) == m'.key (φ c')) = (m.key c == m.key c'))
    (a b : Row) (ha : ∀ c ∈ a, S c) (hb : ∀ c ∈ b, S c) :
    pairId (α := α) m' (a.map φ) (b.map φ) = pairId m a b :=
  pairId_map m m' φ S hres hkey a b ha hb

/-- the instance "DNA text ↦ eslDNA codes" (A C G T in either case ↦ 0..3, every non-letter ↦ gap) satisfies the hypotheses -/
theorem pairId_text_digital_agree_dna (a b : Row) (ha : ∀ c ∈ a, dnaOK c) (hb : ∀ c ∈ b, dnaOK c) :
    pairId (α := ℚ) (Mode.digital Abc.dna) (a.map digitizeDna) (b.map digitizeDna) = pairId Mode.text a b ∧
    pairId (α := Float) (Mode.digital Abc.dna) (a.map digitizeDna) (b.map digitizeDna) = pairId Mode.text a b :=
  ⟨pairId_text_eq_digital_dna a b ha hb, pairId_text_eq_digital_dna a b ha hb⟩

example : ∀ c ∈ ([65, 99, 45, 116, 46] : Row), dnaOK c := by decide

/-! ## thresholds at or below 0: everything is linked — residue-free rows included (their identity is 0, not NaN) -/

/-- `esl_msacluster_SingleLinkage` at maxid ≤ 0 puts ALL rows into one cluster, whatever they contain -/
theorem msaSingleLinkage_one_cluster_at_zero (m : Mode) (maxid : ℚ) (hm : maxid ≤ 0) (rows : List Row) (u w : Nat)
    (hu : u < rows.length) (hw : w < rows.length) :
    clusterIndex (msaSingleLinkage m maxid rows) u = clusterIndex (msaSingleLinkage m maxid rows) w := by
  rw [msaSingleLinkage_components m maxid rows u w hu hw]
  apply Reach.single hu hw
  have := (pid_range' m (rows.getD u []) (rows.getD w [])).1
  simp only [decide_eq_true_eq]; linarith

/-- `esl_msaweight_IDFilter` (text mode) at maxid ≤ 0 keeps exactly the first row -/
theorem idFilterText_keeps_first_at_zero (maxid : ℚ) (hm : maxid ≤ 0) (rows : List Row) (hne : rows ≠ []) :
    idFilterText maxid rows = [0] := by
  unfold idFilterText idFilterOrder
  obtain ⟨n, hn⟩ : ∃ n, rows.length = n + 1 := ⟨rows.length - 1, by have := List.length_pos_iff.mpr hne; omega⟩
  rw [hn, List.range_succ_eq_map, filterGreedy]
  simp only [List.any_nil, Bool.false_eq_true, if_false, List.nil_append]
  apply filterGreedy_all_linked
  intro r k
  have := (pid_range' Mode.text (rows.getD r []) (rows.getD k [])).1
  simp only [linked, leb_rat, decide_eq_true_eq]; linarith

/-- at maxid ≤ 0 there is exactly one cluster and it holds all N rows, so every BLOSUM weight is 1 -/
theorem blosum_all_one_at_zero (m : Mode) (maxid : ℚ) (hm : maxid ≤ 0) (rows : List Row) (hn : 2 ≤ rows.length) (i : Nat)
    (hi : i < rows.length) (hi' : i < (blosum m maxid rows).length) : (blosum m maxid rows)[i] = 1 := by
  have hsym : ∀ x y, (fun v w => linked m maxid (rows.getD v []) (rows.getD w [])) x y =
      (fun v w => linked m maxid (rows.getD v []) (rows.getD w [])) y x := by
    intro x y; simp only [linked]; rw [pid_comm]
  have hone := msaSingleLinkage_one_cluster_at_zero m maxid hm rows
  obtain ⟨hlt, hsurj⟩ := singleLinkage_numbering _ hsym rows.length
  have hsz := singleLinkage_sizes _ hsym rows.length
  have hms : singleLinkage (fun v w => linked m maxid (rows.getD v []) (rows.getD w [])) rows.length =
      msaSingleLinkage m maxid rows := rfl
  rw [hms] at hlt hsurj hsz
  -- exactly one cluster
  have hlen : (msaSingleLinkage m maxid rows).length = 1 := by
    have h0 : clusterIndex (msaSingleLinkage m maxid rows) 0 < (msaSingleLinkage m maxid rows).length := hlt 0 (by omega)
    by_contra hne
    have h2 : 2 ≤ (msaSingleLinkage m maxid rows).length := by omega
    obtain ⟨u0, hu0, e0⟩ := hsurj 0 (by omega)
    obtain ⟨u1, hu1, e1⟩ := hsurj 1 (by omega)
    have := hone u0 u1 hu0 hu1
    omega
  rw [blosum_formula m maxid rows (by omega) i hi hi', hlen]
  have hci : clusterIndex (msaSingleLinkage m maxid rows) i = 0 := by
    have := hlt i hi
    omega
  rw [hci]
  have hsum := hsz.2
  obtain ⟨c, hc⟩ := List.length_eq_one_iff.mp hlen
  rw [hc] at hsum ⊢
  simp only [List.map_cons, List.map_nil, List.sum_cons, List.sum_nil, Nat.add_zero] at hsum
  simp only [List.getD_cons_zero, List.length_cons, List.length_nil, Nat.cast_one, div_one]
  rw [hsum]
  have : ((rows.length : ℕ) : ℚ) ≠ 0 := by exact_mod_cast (by omega : rows.length ≠ 0)
  exact div_self this

/-- `esl_msaweight_IDFilter(_adv)` (digital mode, any preference vector) at maxid ≤ 0 keeps exactly one row: the one
    `esl_quicksort` ranks first -/
theorem idFilterDigital_keeps_top_at_zero (abc : Abc) (maxid : ℚ) (hm : maxid ≤ 0) (sortwgt : List ℚ) (rows : List Row)
    (hne : rows ≠ []) :
    idFilterDigital abc maxid sortwgt rows = [(quicksort (cmpDecreasing sortwgt) rows.length).getD 0 0] := by
  unfold idFilterDigital idFilterOrder
  have hlen : (quicksort (cmpDecreasing sortwgt) rows.length).length = rows.length := by
    rw [(quicksort_permutation _ _).length_eq]; simp
  cases hq : quicksort (cmpDecreasing sortwgt) rows.length with
  | nil => rw [hq] at hlen; have := List.length_pos_iff.mpr hne; simp at hlen; omega
  | cons x rest =>
    rw [filterGreedy]
    simp only [List.any_nil, Bool.false_eq_true, if_false, List.nil_append, List.getD_cons_zero]
    apply filterGreedy_all_linked
    intro r k
    have := (pid_range' (Mode.digital abc) (rows.getD r []) (rows.getD k [])).1
    simp only [linked, leb_rat, decide_eq_true_eq]; linarith

/-! non-vacuity of the hypotheses of the round-4 theorems -/
example : (∀ x ∈ ([45, 46, 126] : Row), JCMode.text.ok x = false) ∧
    (∀ x ∈ ([4, 16, 17, 15] : Row), (JCMode.digital Abc.dna).ok x = false) := by decide
example : (∀ a ∈ ([[45, 45], [46, 126]] : List Row), a.length = 2) ∧
    (∀ a ∈ ([[45, 45], [46, 126]] : List Row), lenSpec Mode.text a = 0) := by decide
example : (1 : Nat) ∉ idFilterAdv (α := ℚ) Abc.amino { minspan := 0, rule := fun _ _ => true } (fun m _ => List.range m)
    .origorder (1/2) none [[0, 0, 0], [20, 0, 20]] := by decide +kernel
example : (Link.upgma).isLinkage = false ∧ (Link.wpgma).isLinkage = false ∧ (Link.single).isLinkage = true := by decide
example : unalignedVisited [[65], [65, 67], [71]] (visitedPairs 3 10 []) = true ∧
    unalignedVisited [[65], [65, 67], [71]] (visitedPairs 3 1 [(0, 2)]) = false := by decide

/-! ## round 6: can a better TIE RULE in `cluster_engine` repair the two GSC findings? No.

  `gscWith pick` = `esl_msaweight_GSC` with the minimum search of `cluster_engine` replaced by `pick`, ANY function of the
  whole engine state (distance matrix, cluster sizes, heights, position table, tree so far) that returns a pair of matrix
  positions at minimum distance (`TieRule`). -/

/-- the family contains the code: the first-minimum rule is a tie rule and `gscWith firstMin` is `esl_msaweight_GSC` -/
theorem gsc_tieRule_family_contains_code (m : Mode) (rows : List Row) (hne : rows ≠ []) :
    TieRule firstMin ∧ gscWith firstMin m rows = gsc (α := ℚ) m rows :=
  ⟨firstMin_tieRule, gscWith_firstMin m rows hne⟩

/-- where no pass of UPGMA ties, every tie rule returns the weights of the code (so the positive theorems
    `gsc_relisting_tie_free`, `gsc_identical_rows_tie_free` are about every rule, and a rule can matter at ties only) -/
theorem gsc_tieRule_irrelevant_without_ties (pick : KState ℚ → Nat × Nat) (hp : TieRule pick) (m : Mode)
    (rows : List Row) (hne : rows ≠ []) (htf : TieFree m rows) : gscWith pick m rows = gsc (α := ℚ) m rows :=
  gscWith_eq_gsc_of_tieFree pick hp m rows hne htf

/-- GSC weights are N numbers ≥ 0 summing to N WHATEVER pair each pass of `cluster_engine` joins (`pick` is unconstrained: it
    need not even return a minimum). So sum and non-negativity also hold along the decisions the binary64 code takes at
    ties and near-ties, where rounding may make it leave the exact-arithmetic run (`gsc_sum_nonneg` is the instance
    `firstMin`). The reason is the clamp `ESL_MAX(0., height − child height)`: branch lengths are ≥ 0 in any join order. -/
theorem gsc_sum_nonneg_any_join_order (pick : KState ℚ → Nat × Nat) (m : Mode) (rows : List Row) (hne : rows ≠ []) :
    (gscWith pick m rows).length = rows.length ∧ (gscWith pick m rows).sum = rows.length ∧
      ∀ w ∈ gscWith pick m rows, 0 ≤ w :=
  gscWith_sum_nonneg pick m rows hne

/-- NO tie rule makes the GSC weights follow the rows under relisting, not even on alignments whose rows are pairwise
    different: for every rule, `AAAA, AABB, BBBB` listed in reverse does not get the reversed weights (the reversed
    alignment has the same distance matrix entry for entry, so a deterministic rule returns the same weight vector — either
    15/16, 15/16, 9/8 or 9/8, 15/16, 15/16 — while the outer rows have exchanged places). A repair of the findings
    `C16:gsc:*` therefore cannot be a tie-breaking rule for pairwise joins (by taxon index, cluster size, …); it needs
    simultaneous joins of all tied clusters, i.e. another clustering algorithm and a non-binary tree. -/
theorem gsc_no_tieRule_is_relisting_invariant :
    ¬ ∃ pick : KState ℚ → Nat × Nat, TieRule pick ∧
      ∀ (m : Mode) (rows : List Row) (p : List Nat), p.Perm (List.range rows.length) →
        (∀ i j, i < j → j < rows.length → rows.getD i [] ≠ rows.getD j []) →
        gscWith pick m (p.map fun i => rows.getD i []) = p.map (fun i => (gscWith pick m rows).getD i 0) := by
  rintro ⟨pick, hp, h⟩
  exact tieRule_fails_on_witness pick hp (h Mode.text tw0 [2, 1, 0] (by decide) tw0_distinct)

/-- non-vacuity of `TieRule` beyond the code's rule: "last minimum" differs from `firstMin` on the witness state -/
example : MinPair tS0 (0, 1) ∧ MinPair tS0 (1, 2) ∧ firstMin tS0 = (0, 1) := by
  refine ⟨⟨by decide, by decide +kernel, ?_⟩, ⟨by decide, by decide +kernel, ?_⟩, by decide +kernel⟩ <;>
  · intro r c hrc hc
    have hs : tS0.act.size = 3 := by decide +kernel
    rw [hs] at hc
    have : (r = 0 ∧ c = 1) ∨ (r = 0 ∧ c = 2) ∨ (r = 1 ∧ c = 2) := by omega
    rcases this with ⟨rfl, rfl⟩ | ⟨rfl, rfl⟩ | ⟨rfl, rfl⟩ <;> decide +kernel

/-! ## round 6: `esl_tree_Simulate` (takes the generator) never leaves its arrays, for every generator state

  The model `eSimulate` (`Weights/TreeOps.lean`, compared bit-exactly with the C code from `esl_randomness_Create(seed)`) is a
  fold of `simStep` over the draws (split time, active branch). The C code indexes `T->parent[node]`,
  `T->left/right/ld/rd[branchpapa[·]]`, `branchpapa/branchside[bidx | nactive-1 | nactive]` unchecked. -/

/-- every generator state: `esl_rnd_Roll(r, nactive)` names an active branch -/
theorem simulate_roll_names_active_branch (r : EaselModel.Random.Rng) (nactive fuel b : Nat) (r' : EaselModel.Random.Rng)
    (h : r.roll nactive fuel = some (b, r')) : b < nactive :=
  roll_lt r nactive fuel b r' h

/-- after any number k ≤ N-2 of turns with branch indices that name active branches: nactive = k+2 = node+1 ≤ N, all arrays
    keep their sizes, every active branch hangs off an existing node (`SimOK`) -/
theorem simulate_invariant (N : Nat) (hN : 2 ≤ N) (draws : List (ℚ × Nat)) (hlen : draws.length ≤ N - 2)
    (hd : drawsOK 2 draws) :
    SimOK N (draws.foldl (fun s x => simStep s x.1 x.2) (simInit N)) ∧
      (draws.foldl (fun s x => simStep s x.1 x.2) (simInit N)).nactive = 2 + draws.length :=
  simRun_ok draws (simInit_ok N hN) (by show 2 + draws.length ≤ N; omega) hd

/-- in such a state every index the next turn of `while (nactive < N)` uses is inside its array -/
theorem simulate_step_in_bounds {N : Nat} {s : SimSt ℚ} (h : SimOK N s) (hlt : s.nactive < N) {bidx : Nat}
    (hb : bidx < s.nactive) :
    s.node < s.T.parent.size ∧ bidx < s.papa.size ∧ bidx < s.side.size ∧
    s.papa.getD bidx 0 < s.T.left.size ∧ s.papa.getD bidx 0 < s.T.right.size ∧
    s.papa.getD bidx 0 < s.T.ld.size ∧ s.papa.getD bidx 0 < s.T.rd.size ∧
    s.nactive - 1 < s.papa.size ∧ s.nactive < s.papa.size ∧
    (∀ b, b < s.nactive - 1 → (s.papa.swapIfInBounds bidx (s.nactive - 1)).getD b 0 < s.T.ld.size) :=
  simStep_in_bounds h hlt hb

/-- and so is every index of the final loop that hangs the N taxa onto the N active branches -/
theorem simulate_finish_in_bounds {N : Nat} {s : SimSt ℚ} (h : SimOK N s) (hN : s.nactive = N) (b : Nat) (hb : b < N) :
    b < s.papa.size ∧ b < s.side.size ∧ s.papa.getD b 0 < s.T.left.size ∧ s.papa.getD b 0 < s.T.right.size ∧
      s.papa.getD b 0 < s.T.ld.size ∧ s.papa.getD b 0 < s.T.rd.size :=
  simFinish_in_bounds h hN b hb

/-- non-vacuity: N = 4, two turns (branch 1, then branch 2), and the tree that results -/
example : drawsOK (α := ℚ) 2 [(1/2, 1), (1/3, 2)] := ⟨by decide, by decide, trivial⟩
example : (eSimulate (α := ℚ) 4 [(1/2, 1), (1/3, 2)] (1/4)).left = #[0, -1, -2] ∧
    (eSimulate (α := ℚ) 4 [(1/2, 1), (1/3, 2)] (1/4)).right = #[1, 2, -3] ∧
    (eSimulate (α := ℚ) 4 [(1/2, 1), (1/3, 2)] (1/4)).parent = #[0, 0, 1] ∧
    (eSimulate (α := ℚ) 4 [(1/2, 1), (1/3, 2)] (1/4)).ld = #[13/12, 7/12, 1/4] ∧
    (eSimulate (α := ℚ) 4 [(1/2, 1), (1/3, 2)] (1/4)).rd = #[1/2, 1/3, 1/4] := by decide +kernel

/-- `esl_tree_Compare(T, T)` returns eslOK on every tree whose link tables agree (taxon children are found by
    `esl_tree_SetTaxaParents`, internal children have larger numbers and point back through `parent[]`) — whatever the branch
    lengths, numbering order among siblings, or size -/
theorem compare_self_ok (t : ETree ℚ) (h : LinksAgree t) : eCompare t t = true := eCompare_self t h

/-- non-vacuity: the simulated tree above has agreeing link tables -/
example : LinksAgree (eSimulate (α := ℚ) 4 [(1/2, 1), (1/3, 2)] (1/4)) := by
  intro g hg
  have hN : (eSimulate (α := ℚ) 4 [(1/2, 1), (1/3, 2)] (1/4)).N - 1 = 3 := by decide +kernel
  rw [hN] at hg
  have : g = 0 ∨ g = 1 ∨ g = 2 := by omega
  rcases this with rfl | rfl | rfl <;> (unfold ChildOK; decide +kernel)

/-! ## round 6b: thresholds exactly AT an attained identity, over a rounded number carrier

  `Rd fl` = the model's number class with the division rounded by `fl`; `RoundingOK fl ε B`: `fl` monotone, exact at 0,
  within ε on [0,1], and 2·ε·B² < 1 (binary64 division: ε = 2⁻⁵³; that it is such a rounding is trusted). The threshold is
  `fl(p/q)`, 0 < q ≤ B, p ≤ q — e.g. the identity `(double) nid / (double) n` the code itself computed for some pair, or 0. -/

/-- the test `pid >= maxid` of the link callbacks and of both filters, evaluated with rounded quotients, links exactly the
    pairs whose EXACT identity reaches p/q — including the pair(s) whose identity IS p/q, and rows without residues (pid = 0,
    linked iff p = 0) -/
theorem threshold_linked_rounded_eq_exact {fl : ℚ → ℚ} {ε : ℚ} {B : Nat} (h : RoundingOK fl ε B) (m : Mode) (p q : Nat)
    (hq : 0 < q) (hqB : q ≤ B) (hp : p ≤ q) (a b : Row) (ha : a.length ≤ B) :
    linked (α := Rd fl) m ⟨fl ((p : ℚ) / q)⟩ a b = linked (α := ℚ) m ((p : ℚ) / q) a b :=
  linked_rd h m p q hq hqB hp a b ha

/-- hence `esl_msacluster_SingleLinkage` run with rounded quotients returns the clusters of the exact run: two rows share a
    cluster iff they are connected in the graph linking rows of EXACT identity ≥ p/q -/
theorem singleLinkage_rounded_threshold_components {fl : ℚ → ℚ} {ε : ℚ} {B : Nat} (h : RoundingOK fl ε B) (m : Mode)
    (p q : Nat) (hq : 0 < q) (hqB : q ≤ B) (hp : p ≤ q) (rows : List Row) (hB : ∀ r ∈ rows, r.length ≤ B) (u w : Nat)
    (hu : u < rows.length) (hw : w < rows.length) :
    clusterIndex (msaSingleLinkage (α := Rd fl) m ⟨fl ((p : ℚ) / q)⟩ rows) u =
        clusterIndex (msaSingleLinkage (α := Rd fl) m ⟨fl ((p : ℚ) / q)⟩ rows) w ↔
      Reach (fun v x => decide ((p : ℚ) / q ≤ pid (α := ℚ) m (rows.getD v []) (rows.getD x []))) rows.length u w := by
  rw [msaSingleLinkage_rd h m p q hq hqB hp rows hB]
  exact msaSingleLinkage_components m _ rows u w hu hw

/-- the identity filters (text: rows in order; digital / `_adv`: ANY order of trial) keep the same rows as the exact run -/
theorem idFilter_rounded_threshold {fl : ℚ → ℚ} {ε : ℚ} {B : Nat} (h : RoundingOK fl ε B) (m : Mode) (p q : Nat)
    (hq : 0 < q) (hqB : q ≤ B) (hp : p ≤ q) (rows : List Row) (hB : ∀ r ∈ rows, r.length ≤ B) :
    (∀ order, idFilterOrder (α := Rd fl) m ⟨fl ((p : ℚ) / q)⟩ rows order = idFilterOrder (α := ℚ) m ((p : ℚ) / q) rows order) ∧
    idFilterText (α := Rd fl) ⟨fl ((p : ℚ) / q)⟩ rows = idFilterText (α := ℚ) ((p : ℚ) / q) rows :=
  ⟨fun order => idFilterOrder_rd h m p q hq hqB hp rows hB order,
   idFilterOrder_rd h Mode.text p q hq hqB hp rows hB _⟩

/-- the clusters behind the BLOSUM weights are those of the exact run; each weight is then 1/|cluster| rounded once, normalised -/
theorem blosum_rounded_threshold_clusters {fl : ℚ → ℚ} {ε : ℚ} {B : Nat} (h : RoundingOK fl ε B) (m : Mode) (p q : Nat)
    (hq : 0 < q) (hqB : q ≤ B) (hp : p ≤ q) (rows : List Row) (hB : ∀ r ∈ rows, r.length ≤ B) :
    blosum (α := Rd fl) m ⟨fl ((p : ℚ) / q)⟩ rows =
      if rows.length == 1 then [WNum.ofNat 1] else
      normalizeToN ((assignment (msaSingleLinkage (α := ℚ) m ((p : ℚ) / q) rows) rows.length).map fun c =>
        (WNum.ofNat 1 : Rd fl) / WNum.ofNat ((clusterSizes (assignment (msaSingleLinkage (α := ℚ) m ((p : ℚ) / q) rows) rows.length)
          (msaSingleLinkage (α := ℚ) m ((p : ℚ) / q) rows).length).getD c 0)) :=
  blosum_rd h m p q hq hqB hp rows hB

/-- non-vacuity: a lossy rounding (every quotient shrunk by the relative amount 2⁻²⁰) meets the hypotheses for alignments
    up to 400 columns; and at the threshold 2/3 = the identity of rows 0,1 the rounded run links them -/
example : RoundingOK flRel (1 / 1048576) 400 := flRel_ok
example : linked (α := Rd flRel) Mode.text ⟨flRel ((2 : ℕ) / (3 : ℕ))⟩ [65, 67, 45, 97] [97, 71, 45, 65] = true := by
  rw [linked_rd flRel_ok Mode.text 2 3 (by decide) (by decide) (by decide) _ _ (by decide)]
  decide +kernel

/-! ## round 6b: `esl_tree_ToDistanceMatrix` returns the path metric of the tree

  `TreePath t a b w` (Weights/PathMetric.lean) specifies path length between internal nodes without reference to the
  algorithm: 0 from a node to itself; if a is not an ancestor-or-self of b the path starts with the branch above a; likewise
  for b. `ParentsSmaller`: Easel's numbering (root 0, parents numbered before their children — what `cluster_engine`,
  `esl_tree_Simulate` and `esl_tree_RenumberNodes` produce). -/

/-- every entry (i, j) of the matrix is defined (the unbounded `while (a != b)` loop ends) and equals the two terminal
    branches plus the length of a tree path between the two parent nodes -/
theorem toDistanceMatrix_is_path_metric {t : ETree ℚ} (h : ParentsSmaller t) (tp : Array Int) (i j : Nat)
    (hi : (tp.getD i 0).toNat < t.N) (hj : (tp.getD j 0).toNat < t.N) :
    ∃ w, TreePath t (tp.getD i 0).toNat (tp.getD j 0).toNat w ∧
      eDist t tp i j = some
        ((if t.l (tp.getD i 0).toNat == -(i : Int) then t.dl (tp.getD i 0).toNat else t.dr (tp.getD i 0).toNat) +
         (if t.l (tp.getD j 0).toNat == -(j : Int) then t.dl (tp.getD j 0).toNat else t.dr (tp.getD j 0).toNat) + w) :=
  eDist_path h tp i j hi hj

/-- the LCA loop by itself: whatever it returns is the start value plus a tree-path length, and it returns for a + b < fuel -/
theorem lcaLoop_path_and_terminates {t : ETree ℚ} (h : ParentsSmaller t) (fuel a b : Nat) (d : ℚ) :
    (∀ r, eLca t fuel a b d = some r → ∃ w, TreePath t a b w ∧ r = d + w) ∧
    (a + b < fuel → (eLca t fuel a b d).isSome = true) :=
  ⟨fun r hr => eLca_path h fuel a b d r hr, eLca_terminates h fuel a b d⟩

/-- non-vacuity: the 4-taxon simulated tree of the example above is numbered parents-first; taxa 0 and 3 are 13/6 apart
    (both at depth 13/12 below the root, which is their last common ancestor) -/
def exT : ETree ℚ := ⟨4, #[0, -1, -2], #[1, 2, -3], #[0, 0, 1], #[13/12, 7/12, 1/4], #[1/2, 1/3, 1/4]⟩
example : ParentsSmaller exT := by
  refine ⟨by decide +kernel, ?_⟩
  intro v hv
  by_cases h3 : v < 3
  · have : v = 1 ∨ v = 2 := by omega
    rcases this with rfl | rfl <;> decide +kernel
  · have : exT.p v = 0 := by
      unfold ETree.p
      rw [Array.getD_eq_getD_getElem?, Array.getElem?_eq_none (by show 3 ≤ v; omega)]; rfl
    omega
example : eDist exT (eTaxaParents exT) 0 3 = some (13/6) ∧ eDist exT (eTaxaParents exT) 2 3 = some (1/2) := by decide +kernel

end EaselModel.Props.C16
