import EaselModel.Sqio.Geometry
import EaselModel.Sqio.Tracker
/-! # C07 — fetching by key, number or coordinates returns what a sequential scan returns

Property theorems only (proofs are glue on `Sqio/Geometry.lean`, `Sqio/Tracker.lean`).
Model: `Sqio/Fetch.lean` (`findSubseq` = `esl_ssi_FindSubseq`, `fetchSubseq` = `sqascii_FetchSubseq`), `Sqio/Model.lean`.

Full statement (DESIGN §5 C07): (1) if after a scan `bpl>0 ∧ rpl>0` then every non-final data line of every record has exactly
`rpl` residues and `bpl` bytes [and every final line at most that]; (2) under that geometry, positioning at the returned `doff`
and skipping `start − actual_start` residues lands on residue `start` in each addressing case; (3) `FetchSubseq key s e =
(scan key)[s..e]`; (4) absent key ⇒ `eslENOTFOUND`, `start,end ∉ 1..L` ⇒ error.
Proved here: (2) for every layout satisfying the geometry (`lands_on_start_line`, `lands_on_start_residue`), (4) on the model, and
the part of (1) that the code really guarantees (`bplrpl_sound_partial`: lines followed by another terminated line). The bracketed
half of (1) is FALSE for the code (`bplrpl_unsound_*`, known finding `C07:seebuf:line-geometry-accepts-long-last-line`);
(3) is tied by the differential run and the fetch = slice-of-scan monitor. -/
namespace EaselModel.Props.C07
open EaselModel.Sqio EaselModel.Sqio.Geometry EaselModel.Sqio.Tracker

/-- (4a) a key that is neither a primary key nor an alias: `eslENOTFOUND`, for every requested start -/
theorem findSubseq_absent (s : Ssi) (key : Bytes) (start : Int) (h : s.findName key = none) :
    findSubseq s key start = .error .enotfound := by
  simp [findSubseq, h]

/-- (4b) a start outside `1..L` is `eslERANGE` (with the `requested_start < 1` repair 0ad0e40), never an offset -/
theorem findSubseq_out_of_range (s : Ssi) (key : Bytes) (start : Int) (e : SsiEntry) (h : s.findName key = some e)
    (hr : start < 1 ∨ start > e.len) : findSubseq s key start = .error .erange := by
  simp only [findSubseq, h]
  have : (decide (start < 1) || decide (start > e.len)) = true := by
    rcases hr with h1 | h1 <;> simp [h1]
  simp [this]

/-- (4c) `sqascii_FetchSubseq` of an absent key returns `eslENOTFOUND` and no data, whatever the file and the coordinates -/
theorem fetchSubseq_absent (a : Ascii) (s : Ssi) (sq : Sq) (key : Bytes) (start end_ : Int) (h : s.findName key = none) :
    (fetchSubseq a s sq key start end_).2.2 = .enotfound := by
  simp [fetchSubseq, findSubseq_absent s key start h]

/-- (4d) `sqascii_FetchSubseq` with `start ∉ 1..L` returns `eslERANGE` -/
theorem fetchSubseq_start_out_of_range (a : Ascii) (s : Ssi) (sq : Sq) (key : Bytes) (start end_ : Int) (e : SsiEntry)
    (h : s.findName key = some e) (hr : start < 1 ∨ start > e.len) :
    (fetchSubseq a s sq key start end_).2.2 = .erange := by
  simp [fetchSubseq, findSubseq_out_of_range s key start e h hr]

/-- the three addressing cases of `esl_ssi_FindSubseq` for an in-range start: (data offset, actual_start) -/
theorem findSubseq_cases (s : Ssi) (key : Bytes) (start : Int) (e : SsiEntry) (h : s.findName key = some e)
    (h1 : 1 ≤ start) (h2 : start ≤ e.len) (hb : s.bpl ≠ 0) (hr : s.rpl ≠ 0) :
    findSubseq s key start = .ok (
      if e.doff = 0 ∨ s.fast = false then (e.roff, e.doff, e.len, 1)
      else if s.bpl = s.rpl + 1 then (e.roff, e.doff + (start - 1) / s.rpl * s.bpl + (start - 1) % s.rpl, e.len, start)
      else (e.roff, e.doff + (start - 1) / s.rpl * s.bpl, e.len, 1 + (start - 1) / s.rpl * s.rpl)) := by
  have hn : (decide (start < 1) || decide (start > e.len)) = false := by simp; omega
  simp only [findSubseq, h, hn]
  by_cases hd : e.doff = 0
  · simp [hd]
  · by_cases hf : s.fast = false
    · simp [hf]
    · have hf' : s.fast = true := by cases hfv : s.fast <;> simp_all
      simp [hd, hf', hb, hr]
      split <;> rfl

/-- (2, line addressing) `start ≥ 1`, `r > 0`; the record's data begins with `l = (start−1)/r` complete lines of `b` bytes and
    `r` residues. Seeking to `doff + l*b` and skipping `start − actual_start` residues (`actual_start = 1 + l*r`) delivers the
    residues from residue `start` on: "lands on residue `start`". `p` is the residue class of the input map. -/
theorem lands_on_start_line {α : Type} (p : α → Bool) (b r start : Nat) (lines : List (List α)) (rest : List α)
    (_hs : 1 ≤ start) (_hr : 0 < r) (hl : lines.length = (start - 1) / r) (h : FullLines p b r lines) :
    (dropRes p (start - (1 + lines.length * r)) ((lines.flatten ++ rest).drop (lines.length * b))).filter p
      = ((lines.flatten ++ rest).filter p).drop (start - 1) := by
  rw [line_addressing p b r lines rest _ h, filter_dropRes]
  congr 1
  have := Nat.div_add_mod (start - 1) r
  have h2 : lines.length * r = r * ((start - 1) / r) := by rw [hl, Nat.mul_comm]
  omega

/-- (2, residue addressing) moreover the line holding residue `start` begins with more than `(start−1) % r` residues and nothing
    else before them: seeking to `doff + l*b + (start−1)%r` and skipping nothing (`actual_start = start`) lands on residue `start`. -/
theorem lands_on_start_residue {α : Type} (p : α → Bool) (b r start : Nat) (lines : List (List α)) (res tail : List α)
    (_hs : 1 ≤ start) (_hr : 0 < r) (hl : lines.length = (start - 1) / r) (h : FullLines p b r lines)
    (hres : ∀ x ∈ res, p x = true) (hj : (start - 1) % r ≤ res.length) :
    ((lines.flatten ++ (res ++ tail)).drop (lines.length * b + (start - 1) % r)).filter p
      = ((lines.flatten ++ (res ++ tail)).filter p).drop (start - 1) := by
  rw [residue_addressing p b r lines res tail _ h hres hj, filter_dropRes]
  congr 1
  have := Nat.div_add_mod (start - 1) r
  have h2 : lines.length * r = r * ((start - 1) / r) := by rw [hl, Nat.mul_comm]
  omega

/-- (2, no addressing) `actual_start = 1`, offset `doff`: skipping `start − 1` residues from the start of the data -/
theorem lands_on_start_none {α : Type} (p : α → Bool) (start : Nat) (data : List α) :
    (dropRes p (start - 1) data).filter p = (data.filter p).drop (start - 1) := filter_dropRes p _ _

/-- (1, the part the code guarantees) if a scan ends with `rpl = p > 0`, every line followed by another terminated line of the
    same record has exactly `p` residues.
    FULL STATEMENT NOT PROVABLE: last / only / unterminated lines longer than `p` are not detected, see below. -/
theorem bplrpl_sound_partial (pre post : List Ev) (b1 r1 b2 r2 : Int) (p : Int)
    (hpre : pre ≠ []) (hr1 : r1 ≥ 0) (hp : p > 0)
    (h : (run {} (pre ++ [Ev.eol b1 r1, Ev.eol b2 r2] ++ post)).rpl = p) : r1 = p :=
  checked_lines_have_rpl pre post b1 r1 b2 r2 {} p hpre hr1 hp h

/-- counter-example 1 (witness `>A\nACGT\nAC\n>B\nACGTAC\n`): the single line of record B has 6 residues, the tracker ends with rpl = 4, bpl = 5 -/
theorem bplrpl_unsound_single_line :
    (run {} (events [[(5, 4), (3, 2)], [(7, 6)]])).rpl = 4 ∧ (run {} (events [[(5, 4), (3, 2)], [(7, 6)]])).bpl = 5 := by decide

/-- counter-example 2 (witness `>A\nAC\nACGT\n`): the line at whose end rpl is initialised is longer than rpl -/
theorem bplrpl_unsound_at_init :
    (run {} (events [[(3, 2), (5, 4)]])).rpl = 2 ∧ (run {} (events [[(3, 2), (5, 4)]])).bpl = 3 := by decide

/-- non-vacuity of `bplrpl_sound_partial`: a clean three-line record ends with rpl = 4 -/
example : (run {} ([Ev.hdr] ++ [Ev.eol 5 4, Ev.eol 5 4] ++ [Ev.eol 3 2])).rpl = 4 := by decide

/-- non-vacuity of `lands_on_start_line`: two complete lines `AC␣\n`-like (b = 3, r = 2), start = 5 -/
example : FullLines (fun c : Nat => c != 0) 3 2 [[1, 1, 0], [1, 1, 0]] ∧ [[1, 1, 0], [1, 1, 0]].length = (5 - 1) / 2 := by
  refine ⟨⟨?_, ?_⟩, by decide⟩ <;> (intro ln h; simp at h; rcases h with rfl | rfl <;> decide)

end EaselModel.Props.C07
