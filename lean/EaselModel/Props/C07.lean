import EaselModel.Sqio.Geometry
import EaselModel.Sqio.Tracker
import EaselModel.Sqio.AfetchMain
import EaselModel.Sqio.EchoSpec
import EaselModel.Sqio.FetchSpec
import EaselModel.Sqio.FetchWhole
import EaselModel.Sqio.FetchMore
import EaselModel.Sqio.GeomBridge
import EaselModel.Sqio.TrackBytes
import EaselModel.Sqio.TrackReader
import EaselModel.Sqio.TrackHeader
import EaselModel.Sqio.TrackIndex
/-! # C07 — fetching by key, number or coordinates returns what a sequential scan returns

Property theorems only (proofs are glue on `Sqio/Geometry.lean`, `Sqio/Tracker.lean`).
Model: `Sqio/Fetch.lean` (`findSubseq` = `esl_ssi_FindSubseq`, `fetchSubseq` = `sqascii_FetchSubseq`), `Sqio/Model.lean`.

Full statement (DESIGN §5 C07): (1) if after a scan `bpl>0 ∧ rpl>0` then every non-final data line of every record has exactly
`rpl` residues and `bpl` bytes [and every final line at most that]; (2) under that geometry, positioning at the returned `doff`
and skipping `start − actual_start` residues lands on residue `start` in each addressing case; (3) `FetchSubseq key s e =
(scan key)[s..e]`; (4) absent key ⇒ `eslENOTFOUND`, `start,end ∉ 1..L` ⇒ error.
Proved here: (2) for every layout satisfying the geometry (`lands_on_start_line`, `lands_on_start_residue`), (4) on the model, and
the part of (1) that the code really guarantees (`bplrpl_sound_partial`: lines followed by another terminated line). The bracketed
half of (1) is FALSE for the code (`bplrpl_unsound_*`, known finding `C07:seebuf:line-geometry-accepts-long-last-line`);
(3) whole-record fetch through `sqascii_Echo` (what `esl-sfetch` prints for a key): `echo_eq_scan_bytes` /
`echo_of_scanned_record` — the bytes `roff..eoff` of the record the sequential scan found, for every block size; the subsequence
clause of (3): `fetchSubseq_eq_scan_slice_brute` (no fast-subseq flag: unconditional), `fetchSubseq_eq_scan_slice_line` /
`_residue` (under the line geometry the index promises — exactly the hypothesis the known finding shows the tracker does not always
deliver), `fetchSubseq_end_out_of_range`; all for every read-block size, FASTA.
(5) esl-afetch: `afetch_*` below (model `Sqio/AfetchModel.lean`, over the C06 index model and a Stockholm database as bytes). -/
namespace EaselModel.Props.C07
open EaselModel.Sqio EaselModel.Sqio.Geometry EaselModel.Sqio.Tracker

/-- (4a) a key that is neither a primary key nor an alias: `eslENOTFOUND`, for every requested start -/
theorem findSubseq_absent (s : Ssi) (key : Bytes) (start : Int) (h : s.findName key = none) :
    findSubseq s key start = .error .enotfound := by
  simp [findSubseq, h]

/-- (4b) a start outside `1..L` is `eslERANGE` (with the `requested_start < 1` repair 0ad0e40), never an offset -/
theorem findSubseq_out_of_range (s : Ssi) (key : Bytes) (start : Int) (e : SsiEntry) (h : s.findName key = some e)
    (hr : start < 1 ∨ start > e.len) : findSubseq s key start = .error .erange := by
  simp only [findSubseq, h]
  have : (decide (start < 1) || decide (start > e.len)) = true := by
    rcases hr with h1 | h1 <;> simp [h1]
  simp [this]

/-- (4c) `sqascii_FetchSubseq` of an absent key returns `eslENOTFOUND` and no data, whatever the file and the coordinates -/
theorem fetchSubseq_absent (a : Ascii) (s : Ssi) (sq : Sq) (key : Bytes) (start end_ : Int) (h : s.findName key = none) :
    (fetchSubseq a s sq key start end_).2.2 = .enotfound := by
  simp [fetchSubseq, findSubseq_absent s key start h]

/-- (4d) `sqascii_FetchSubseq` with `start ∉ 1..L` returns `eslERANGE` -/
theorem fetchSubseq_start_out_of_range (a : Ascii) (s : Ssi) (sq : Sq) (key : Bytes) (start end_ : Int) (e : SsiEntry)
    (h : s.findName key = some e) (hr : start < 1 ∨ start > e.len) :
    (fetchSubseq a s sq key start end_).2.2 = .erange := by
  simp [fetchSubseq, findSubseq_out_of_range s key start e h hr]

/-- the three addressing cases of `esl_ssi_FindSubseq` for an in-range start: (data offset, actual_start) -/
theorem findSubseq_cases (s : Ssi) (key : Bytes) (start : Int) (e : SsiEntry) (h : s.findName key = some e)
    (h1 : 1 ≤ start) (h2 : start ≤ e.len) (hb : s.bpl ≠ 0) (hr : s.rpl ≠ 0) :
    findSubseq s key start = .ok (
      if e.doff = 0 ∨ s.fast = false then (e.roff, e.doff, e.len, 1)
      else if s.bpl = s.rpl + 1 then (e.roff, e.doff + (start - 1) / s.rpl * s.bpl + (start - 1) % s.rpl, e.len, start)
      else (e.roff, e.doff + (start - 1) / s.rpl * s.bpl, e.len, 1 + (start - 1) / s.rpl * s.rpl)) := by
  have hn : (decide (start < 1) || decide (start > e.len)) = false := by simp; omega
  simp only [findSubseq, h, hn]
  by_cases hd : e.doff = 0
  · simp [hd]
  · by_cases hf : s.fast = false
    · simp [hf]
    · have hf' : s.fast = true := by cases hfv : s.fast <;> simp_all
      simp [hd, hf', hb, hr]
      split <;> rfl

/-- (2, line addressing) `start ≥ 1`, `r > 0`; the record's data begins with `l = (start−1)/r` complete lines of `b` bytes and
    `r` residues. Seeking to `doff + l*b` and skipping `start − actual_start` residues (`actual_start = 1 + l*r`) delivers the
    residues from residue `start` on: "lands on residue `start`". `p` is the residue class of the input map. -/
theorem lands_on_start_line {α : Type} (p : α → Bool) (b r start : Nat) (lines : List (List α)) (rest : List α)
    (_hs : 1 ≤ start) (_hr : 0 < r) (hl : lines.length = (start - 1) / r) (h : FullLines p b r lines) :
    (dropRes p (start - (1 + lines.length * r)) ((lines.flatten ++ rest).drop (lines.length * b))).filter p
      = ((lines.flatten ++ rest).filter p).drop (start - 1) := by
  rw [line_addressing p b r lines rest _ h, filter_dropRes]
  congr 1
  have := Nat.div_add_mod (start - 1) r
  have h2 : lines.length * r = r * ((start - 1) / r) := by rw [hl, Nat.mul_comm]
  omega

/-- (2, residue addressing) moreover the line holding residue `start` begins with more than `(start−1) % r` residues and nothing
    else before them: seeking to `doff + l*b + (start−1)%r` and skipping nothing (`actual_start = start`) lands on residue `start`. -/
theorem lands_on_start_residue {α : Type} (p : α → Bool) (b r start : Nat) (lines : List (List α)) (res tail : List α)
    (_hs : 1 ≤ start) (_hr : 0 < r) (hl : lines.length = (start - 1) / r) (h : FullLines p b r lines)
    (hres : ∀ x ∈ res, p x = true) (hj : (start - 1) % r ≤ res.length) :
    ((lines.flatten ++ (res ++ tail)).drop (lines.length * b + (start - 1) % r)).filter p
      = ((lines.flatten ++ (res ++ tail)).filter p).drop (start - 1) := by
  rw [residue_addressing p b r lines res tail _ h hres hj, filter_dropRes]
  congr 1
  have := Nat.div_add_mod (start - 1) r
  have h2 : lines.length * r = r * ((start - 1) / r) := by rw [hl, Nat.mul_comm]
  omega

/-- (2, no addressing) `actual_start = 1`, offset `doff`: skipping `start − 1` residues from the start of the data -/
theorem lands_on_start_none {α : Type} (p : α → Bool) (start : Nat) (data : List α) :
    (dropRes p (start - 1) data).filter p = (data.filter p).drop (start - 1) := filter_dropRes p _ _

/-- **(1) Soundness of the line-geometry tracker, FULL (since the repair 283ccd7).** `recs`: any file as the scan sees it — per
    record its terminated data lines (bytes incl. the newline, residues) and possibly an unterminated last stretch (record ending at
    EOF or at the EOD character). If the scan ends with `rpl = p > 0` and `bpl = q > 0` (what `esl-sfetch --index` / `easel index`
    test before setting `eslSSI_FASTSUBSEQ`), then EVERY record has the geometry `(q, p)`: every line that is followed by another
    line of its record has exactly `q` bytes and `p` residues, and no line at all — last, only, unterminated — has more than `p`
    residues or more ignored bytes than a full line (`q − p − 1`; so with `q = p + 1` residue `i` of a line is its byte `i`). -/
theorem bplrpl_sound (recs : List Rec) (hw : ∀ rc ∈ recs, rc.WF) (p q : Int) (hp : 0 < p) (hq : 0 < q)
    (hr : (scanFile recs).rpl = p) (hb : (scanFile recs).bpl = q) : ∀ rc ∈ recs, Geom q p rc :=
  tracker_sound recs hw p q hp hq hr hb

/-- `scanFile` is the event-by-event run of the tracker model (`Track.onEol` / `Track.onStop` of `Sqio/Model.lean`, the functions the
    executable model of `seebuf` calls) -/
theorem scanFile_is_run (recs : List Rec) : scanFile recs = run {} (recs.flatMap Rec.events) := scanFile_eq_run recs

/-- **the objects of `bplrpl_sound` are what `seebuf` computes.** `Sqio/Fold.lean` (`seebuf_fold`) shows that `seebuf`, however the
    file is cut into read blocks, leaves the tracker that folding `stepByte` over the bytes leaves; on a byte of sequence data `stepByte`
    succeeds and updates the tracker by `trkByte` (first statement); and folding `trkByte` over the data bytes of a record — terminated
    lines `segs`, each a stretch without end-of-line bytes followed by one, then an unterminated `rest` — from the state `header_*`
    leaves is `scanRec` on the record's line counts `recOf` (second statement): the per-record step of `scanFile`. -/
theorem tracker_over_bytes_is_tracker_over_counts (inmap : Bytes) :
    (inmap.size = 128 → ∀ (s : Fold.SS) (c : UInt8), BodySpec.isData inmap c = true →
      (Fold.stepByte inmap s c).2 = .ok ∧ (Fold.stepByte inmap s c).1.trk = TrackBytes.trkByte inmap s.trk c) ∧
    (∀ (segs : List (List UInt8)) (rest : List UInt8), (∀ l ∈ segs, TrackBytes.Terminated inmap l) →
      (∀ c ∈ rest, BodySpec.code inmap c ≠ Tables.dsqEol) → ∀ t : Track,
      (segs.flatten ++ rest).foldl (TrackBytes.trkByte inmap) (Tracker.step t Ev.hdr)
        = scanRec t (GeomBridge.recOf (BodySpec.isRes inmap) segs rest)) :=
  ⟨fun hm s c hd => TrackBytes.stepByte_trk inmap hm s c hd,
   fun segs rest hs hr t => TrackBytes.fold_record inmap segs rest hs hr t⟩

/-- **the reader loop of `create_ssi_index`, for EVERY read-block size, computes the per-record step of `scanFile`.** `scanLoop false`
    is the body loop of `sqascii_ReadInfo` (`loadbuf` / `seebuf` until the record's data end). From any well-formed block-mode handle
    standing behind a record's header, the tracker just reset by `header_*` (`a.trk = step t hdr`), whatever the block size and
    wherever the blocks cut the lines, the loop leaves `scanRec t` of the line counts of the record's data bytes — the bytes from the
    cursor up to the first byte that is not sequence data, cut at their newlines (`TrackReader.recOfData`). Composes
    `DataScan.scanLoop_info` (C04: the loop = the byte fold over the file), `TrackReader.scanBytes_trk` (the byte fold stops at the
    first non-data byte), `TrackReader.splitEol_spec` and `TrackBytes.fold_record`. Together with `bplrpl_sound` (whose `scanFile` folds
    exactly this `scanRec` over the records) only "`header_*` changes nothing but prv/cur" and the final read of bpl / rpl by the tool
    remain tied by the differential run alone. -/
theorem readInfo_body_tracker (a : Ascii) (sq : Sq) (t : Track) (fuel : Nat) (h : Refine.WF a) (ht : a.trk = Tracker.step t Ev.hdr)
    (hm : a.inmap.size = 128) (hfuel : (DataScan.fileFrom a).length + 1 < fuel)
    (hst : (DataScan.dataFold a (DataScan.fileFrom a).length).2.2 ≠ .eformat) :
    (scanLoop false fuel a sq).1.trk
      = scanRec t (TrackReader.recOfData a.inmap ((DataScan.fileFrom a).takeWhile (BodySpec.isData a.inmap))) :=
  TrackReader.infoBody_trk a sq t fuel h ht hm hfuel hst

/-- `header_fasta`, when it succeeds, resets `prv*` / `cur*` and changes NOTHING else of the tracker (`loadmem`, `loadbuf`, `nextchar` and
    the header loops never touch it): the widths and the two maxima survive from record to record -/
theorem header_resets_only_prv_cur (a : Ascii) (sq : Sq) (h : (headerFasta a sq).2.2 = .ok) :
    (headerFasta a sq).1.trk = Tracker.step a.trk Ev.hdr :=
  TrackHeader.headerFasta_trk a sq h

/-- **one `sqascii_ReadInfo` of `create_ssi_index` = one step of `scanFile`, for EVERY read-block size.** From a ready FASTA handle
    standing in front of a record (`ReadSpec.Ready`: any block size, cursor on a byte), a successful `ReadInfo` — header, counting loop
    over as many read blocks as it takes, end of record — leaves the tracker `scanRec (tracker before) (line counts of the record's data
    bytes)`; the data bytes are the file bytes behind the header line (`headerL` = the header parser of `C04.read_all_eq_parseFasta`)
    up to the first byte that is not sequence data. So the index-building scan computes `scanFile` of the records' line counts, and
    `bplrpl_sound` is a statement about the `bpl`, `rpl` that `create_ssi_index` reads off the handle (that last read and the
    induction over the records are the only steps left to the differential run). -/
theorem readInfo_tracker_step (a : Ascii) (sq : Sq) (R : ReadSpec.Ready a sq) (hl : Sim.Live a) (hok : (readInfo a sq).2.2 = .ok) :
    (readInfo a sq).1.trk =
      scanRec a.trk (TrackReader.recOfData a.inmap
        (((HeaderSpec.headerL a.file.size sq (DataScan.fileFrom a)).2.2).takeWhile (BodySpec.isData a.inmap))) :=
  TrackHeader.readInfo_trk a sq R hl hok

/-- **the whole index-building scan = `scanFile`, for EVERY read-block size.** `buildIndexLoop` is the `ReadInfo` loop of
    `create_ssi_index`; from any ready FASTA handle, when it ends at EOF the widths `rpl`, `bpl` and the two maxima in the handle are
    those of the fold of `scanRec` over `countsL` = the line counts of the records on the remaining file bytes (induction over the
    records with `readInfo_tracker_step`; a `ReadInfo` answering EOF leaves them untouched). -/
theorem index_scan_tracker (fuel : Nat) (a : Ascii) (s : Ssi) (a' : Ascii) (s' : Ssi) (R : ReadSpec.Ready a ({} : Sq))
    (h : buildIndexLoop fuel a s = some (a', s')) :
    TrackIndex.core a'.trk
      = TrackIndex.core ((TrackIndex.countsL a.inmap a.file.size fuel (DataScan.fileFrom a)).foldl scanRec a.trk) :=
  TrackIndex.buildIndex_trk fuel a s a' s' R h

/-- **(1) END TO END: the index-building scan is sound (FASTA, every read-block size).** A fresh handle, the `ReadInfo` loop of
    `create_ssi_index` run to EOF: if the handle then holds `rpl = p > 0` and `bpl = q > 0` — the very test `esl-sfetch --index` /
    `easel index` make before `esl_newssi_SetSubseq` — then EVERY record the scan went over has the line geometry `(q, p)`:
    `bplrpl_sound` composed with the reader loop, the header parser and the byte fold of `seebuf`. (What remains tied only by the
    differential run: that `recOfData` of a record's bytes in `countsL` and the `segs`/`rest` of `fetchSubseq_eq_scan_slice_*_tracked`
    name the same bytes — `recOfData_lines` — and that the tool stores the two numbers it read.) -/
theorem index_scan_sound (fuel : Nat) (a : Ascii) (s : Ssi) (a' : Ascii) (s' : Ssi) (R : ReadSpec.Ready a ({} : Sq)) (h0 : a.trk = {})
    (h : buildIndexLoop fuel a s = some (a', s')) (p q : Int) (hp : 0 < p) (hq : 0 < q) (hr : a'.trk.rpl = p) (hb : a'.trk.bpl = q) :
    ∀ rc ∈ TrackIndex.countsL a.inmap a.file.size fuel (DataScan.fileFrom a), Geom q p rc :=
  TrackIndex.buildIndex_sound fuel a s a' s' R h0 h p q hp hq hr hb

/-- non-vacuity: the model's index-building scan of `>a\nACGT\nACGT\nAC\n` with read blocks of 2 bytes ends with rpl = 4, bpl = 5 -/
example : (buildIndexLoop 8 (ParseFasta.openFasta FetchSpec.demoA 2 0) {}).map (fun r => (r.1.trk.rpl, r.1.trk.bpl)) = some (4, 5) := by
  decide +kernel

/-- the data bytes of a record really are terminated lines followed by an unterminated rest, and `recOfData` counts exactly them -/
theorem recOfData_lines (inmap : Bytes) (d : List UInt8) :
    d = (TrackReader.splitEol inmap d []).1.flatten ++ (TrackReader.splitEol inmap d []).2 ∧
    (∀ l ∈ (TrackReader.splitEol inmap d []).1, TrackBytes.Terminated inmap l) ∧
    (∀ c ∈ (TrackReader.splitEol inmap d []).2, BodySpec.code inmap c ≠ Tables.dsqEol) ∧
    TrackReader.recOfData inmap d
      = GeomBridge.recOf (BodySpec.isRes inmap) (TrackReader.splitEol inmap d []).1 (TrackReader.splitEol inmap d []).2 := by
  obtain ⟨s1, s2, s3⟩ := TrackReader.splitEol_spec inmap d [] (by simp)
  exact ⟨by simpa using s1, s2, s3, rfl⟩

/-- non-vacuity: `ACGT\nAC\nA` (bytes of a FASTA record's data) is the lines (5, 4), (3, 2) and the unterminated rest (1, 1) -/
example : TrackReader.recOfData (inmapFasta 0) [65, 67, 71, 84, 10, 65, 67, 10, 65] = ⟨[(5, 4), (3, 2)], some (1, 1)⟩ := by
  decide +kernel

/-- **(the "neither" case) line-based formats are always fetched by brute force.** EMBL / UniProt / GenBank / DDBJ map the newline to
    "ignored", so their data scanner produces no end-of-line event (only `header_*` resets and the tail update of `seebuf`): the tracker
    keeps rpl = bpl = −1 whatever the file, `esl-sfetch --index` never sets `eslSSI_FASTSUBSEQ`, and `esl_ssi_FindSubseq` answers
    `(doff, actual_start = 1)` — the case `fetchSubseq_eq_scan_slice_brute` covers unconditionally. -/
theorem linebased_never_fast (evs : List Ev) (h : ∀ e ∈ evs, e = Ev.hdr ∨ ∃ b r, e = Ev.stop b r) :
    (run {} evs).rpl = -1 ∧ (run {} evs).bpl = -1 :=
  no_eol_no_geometry evs h

/-- non-vacuity: `>A\nACGT\nACGT\nAC\n>B\nACG` (last line unterminated) ends with rpl = 4, bpl = 5 and both records are well-formed -/
example : (scanFile [⟨[(5, 4), (5, 4), (3, 2)], none⟩, ⟨[], some (3, 3)⟩]).rpl = 4 ∧
          (scanFile [⟨[(5, 4), (5, 4), (3, 2)], none⟩, ⟨[], some (3, 3)⟩]).bpl = 5 ∧
          (∀ rc ∈ [(⟨[(5, 4), (5, 4), (3, 2)], none⟩ : Rec), ⟨[], some (3, 3)⟩], rc.WF) := by
  refine ⟨by decide, by decide, ?_⟩
  intro rc h
  simp only [List.mem_cons, List.not_mem_nil, or_false] at h
  rcases h with rfl | rfl <;> (constructor <;> simp <;> omega)

/-- the six shapes of the retired known finding, as files: each ends with rpl = bpl = 0 (fast subsequence addressing off) -/
theorem bplrpl_witnesses_invalidate :
    (scanFile [⟨[(5, 4), (3, 2)], none⟩, ⟨[(7, 6)], none⟩]).rpl = 0 ∧          -- >A ACGT/AC  >B ACGTAC : single line longer than rpl
    (scanFile [⟨[(3, 2), (5, 4)], none⟩]).rpl = 0 ∧                           -- >A AC/ACGT : longer line where rpl is initialised
    (scanFile [⟨[(5, 4), (5, 4)], some (6, 6)⟩]).rpl = 0 ∧                    -- unterminated longer last line
    (scanFile [⟨[(5, 4), (5, 3)], none⟩]).rpl = 0 ∧                           -- >A ACGT/"A CG" : blank in the last line, bpl = rpl + 1
    (scanFile [⟨[(5, 4), (3, 2)], some (4, 4)⟩]).rpl = 0 ∧                    -- unterminated line after a short line
    (scanFile [⟨[(7, 6)], none⟩, ⟨[(5, 4), (3, 2)], none⟩]).rpl = 0 := by     -- longer single line BEFORE rpl is set
  decide

/-- regression (known finding retired by 283ccd7; witness `>A\nACGT\nAC\n>B\nACGTAC\n`): the single line of record B has 6 residues; the tracker
    used to end with rpl = 4, bpl = 5, it now invalidates both -/
theorem bplrpl_single_line_invalidates :
    (run {} (events [[(5, 4), (3, 2)], [(7, 6)]])).rpl = 0 ∧ (run {} (events [[(5, 4), (3, 2)], [(7, 6)]])).bpl = 0 := by decide

/-- regression (witness `>A\nAC\nACGT\n`): the line at whose end rpl is initialised is longer than rpl: invalidated -/
theorem bplrpl_at_init_invalidates :
    (run {} (events [[(3, 2), (5, 4)]])).rpl = 0 ∧ (run {} (events [[(3, 2), (5, 4)]])).bpl = 0 := by decide

/-- regression (witness `>A\nACGT\nACGT\nACGTAC`, no final newline): an unterminated longer last line invalidates -/
theorem bplrpl_unterminated_invalidates :
    (run {} ([Ev.hdr, Ev.eol 5 4, Ev.eol 5 4, Ev.stop 6 6])).rpl = 0 ∧ (run {} ([Ev.hdr, Ev.eol 5 4, Ev.eol 5 4, Ev.stop 6 6])).bpl = 0 := by decide

/-- a clean three-line record ends with rpl = 4, bpl = 5 -/
example : (run {} ([Ev.hdr] ++ [Ev.eol 5 4, Ev.eol 5 4] ++ [Ev.eol 3 2])).rpl = 4 ∧
          (run {} ([Ev.hdr] ++ [Ev.eol 5 4, Ev.eol 5 4] ++ [Ev.eol 3 2])).bpl = 5 := by decide

/-- non-vacuity of `lands_on_start_line`: two complete lines `AC␣\n`-like (b = 3, r = 2), start = 5 -/
example : FullLines (fun c : Nat => c != 0) 3 2 [[1, 1, 0], [1, 1, 0]] ∧ [[1, 1, 0], [1, 1, 0]].length = (5 - 1) / 2 := by
  refine ⟨⟨?_, ?_⟩, by decide⟩ <;> (intro ln h; simp at h; rcases h with rfl | rfl <;> decide)

/-! ## (3) whole-record fetch: `sqascii_Echo` regurgitates exactly the bytes `roff..eoff`, for every block size -/
section echo
open EaselModel.Sqio.EchoSpec

/-- **`sqascii_Echo` = the bytes `roff..eoff` of the file, for EVERY read-block size `B ≥ 1`**: from any block-mode handle on the file
    (wherever its cursor stands), with `0 ≤ roff ≤ eoff < size`, `Echo` returns `eslOK` and exactly `file[roff..eoff]` — buffer by buffer
    through `loadbuf`, last buffer cut at `eoff` — and leaves the handle positioned at `roff` with line number and `L` restored. -/
theorem echo_eq_scan_bytes (a : Ascii) (sq : Sq) (hb : a.linebased = false) (hr : a.recording ≠ 1) (hB : 1 ≤ a.B)
    (h0 : 0 ≤ sq.roff) (h1 : sq.roff ≤ sq.eoff) (h2 : sq.eoff < (a.file.size : Int)) :
    (echo a sq).2.1 = .ok ∧
    (echo a sq).2.2 = a.file.extract sq.roff.toNat (sq.eoff.toNat + 1) ∧
    Refine.WF (echo a sq).1 ∧ Refine.pos (echo a sq).1 = sq.roff ∧ (echo a sq).1.bpos = 0 ∧ 0 < (echo a sq).1.nc ∧
    (echo a sq).1.file = a.file ∧ (echo a sq).1.B = a.B ∧
    (echo a sq).1.linenumber = a.linenumber ∧ (echo a sq).1.L = a.L :=
  EchoSpec.echo_eq_scan_bytes a sq hb hr hB h0 h1 h2

/-- offsets never set (`-1`): `eslEINVAL`, nothing written -/
theorem echo_unset_offsets (a : Ascii) (sq : Sq) (h : sq.roff = -1 ∨ sq.eoff = -1) :
    (echo a sq).2.1 = .einval ∧ (echo a sq).2.2 = #[] := EchoSpec.echo_unset_offsets a sq h

/-- **FETCH (whole record) = SCAN**: every record `s` that the sequential scan of a FASTA file yields (`parseFasta`, which by
    `C04.read_all_eq_parseFasta` is what `sqascii_Read` returns for every block size) has `0 ≤ roff ≤ eoff < size`, and `Echo` of it —
    through a handle with ANY block size — is exactly the byte range of that record in the file. -/
theorem echo_of_scanned_record (bytes : Bytes) (abc : Nat) (s : Sq) (hs : s ∈ (ParseFasta.parseFasta abc bytes).1)
    (a : Ascii) (hf : a.file = bytes) (hb : a.linebased = false) (hr : a.recording ≠ 1) (hB : 1 ≤ a.B) :
    (0 ≤ s.roff ∧ s.roff ≤ s.eoff ∧ s.eoff < (bytes.size : Int)) ∧
    (echo a s).2.1 = .ok ∧ (echo a s).2.2 = bytes.extract s.roff.toNat (s.eoff.toNat + 1) :=
  ⟨EchoSpec.scanned_record_offsets bytes abc s hs, EchoSpec.echo_of_scanned_record bytes abc s hs a hf hb hr hB⟩

/-- the same for a record read with block size `B₁` and echoed with any other block size -/
theorem echo_of_read_record (bytes : Bytes) (abc B1 : Nat) (hB1 : 1 ≤ B1) (habc : abc ∈ [0, 1, 2, 3]) (s : Sq)
    (hs : s ∈ (ParseFasta.readAllM (bytes.size + 2) (ParseFasta.openFasta bytes B1 abc) (freshSq abc)).1)
    (a : Ascii) (hf : a.file = bytes) (hb : a.linebased = false) (hr : a.recording ≠ 1) (hB : 1 ≤ a.B) :
    (echo a s).2.1 = .ok ∧ (echo a s).2.2 = bytes.extract s.roff.toNat (s.eoff.toNat + 1) :=
  EchoSpec.echo_of_read_record bytes abc B1 hB1 habc s hs a hf hb hr hB

/-- non-vacuity: `>a\nAC\n>b\nG\n` with B = 2: the second record is bytes 6..10 -/
example : (echo { file := demoFile, B := 2 } { roff := 6, eoff := 10 }).2 = (.ok, #[62, 98, 10, 71, 10]) := by decide +kernel
example : (ParseFasta.parseFasta 0 demoFile).1.map (fun s => (s.roff, s.eoff)) = [(0, 5), (6, 10)] := by decide +kernel

end echo

/-! ## (3) subsequence fetch: `sqascii_FetchSubseq key start..end` = residues `start..end` of the scanned record, for every block size

`s` is a record of the sequential scan (`parseFasta abc bytes`, which by `C04.read_all_eq_parseFasta` is what `sqascii_Read` returns for
every block size); `e` the index entry stored for it (`roff`, `doff`, `L`, as `create_ssi_index` stores them); `a` ANY block-mode handle on
the file (any `B ≥ 1`, cursor anywhere); `sq` a reused `ESL_SQ` of the right mode. The fetched object then holds exactly
`s.seq[start..end]`, coordinates `start..end`, `L`, the description, `source = key`, `name = key/start-end`. -/
section fetchsub
open EaselModel.Sqio.FetchSpec EaselModel.Sqio.ParseFasta EaselModel.Sqio.BodySpec

/-- **(3, brute force) the index does not promise a line geometry (`eslSSI_FASTSUBSEQ` off): FETCH = slice of SCAN, unconditionally** -/
theorem fetchSubseq_eq_scan_slice_brute (bytes : Bytes) (abc : Nat) (habc : abc ∈ [0, 1, 2, 3]) (s : Sq) (hs : s ∈ (parseFasta abc bytes).1)
    (ssi : Ssi) (key : Bytes) (e : SsiEntry) (he : ssi.findName key = some e) (her : e.roff = s.roff) (hed : e.doff = s.doff)
    (hel : e.len = s.L) (hfast : ssi.fast = false) (start end_ : Int)
    (a : Ascii) (hf : a.file = bytes) (hb : a.linebased = false) (hr : a.recording ≠ 1) (hB : 1 ≤ a.B)
    (hi : a.inmap = inmapFasta abc) (hfmt : a.fmt = 1) (heof : a.eofIsOk = true)
    (sq : Sq) (hdig : sq.digital = (abc != 0)) (hsabc : sq.abc = abc) (hseq : sq.seq = #[]) (hna : 2 ≤ sq.nalloc) (hda : 2 ≤ sq.dalloc)
    (h1 : 1 ≤ start) (h2 : start ≤ end_) (h3 : end_ ≤ s.L) :
    (fetchSubseq a ssi sq key start end_).2.2 = .ok ∧
    (fetchSubseq a ssi sq key start end_).2.1.seq = s.seq.extract (start - 1).toNat end_.toNat ∧
    (fetchSubseq a ssi sq key start end_).2.1.start = start ∧ (fetchSubseq a ssi sq key start end_).2.1.end_ = end_ ∧
    (fetchSubseq a ssi sq key start end_).2.1.L = s.L ∧ (fetchSubseq a ssi sq key start end_).2.1.desc = s.desc ∧
    (fetchSubseq a ssi sq key start end_).2.1.source = key ∧
    (fetchSubseq a ssi sq key start end_).2.1.name = key ++ #[47] ++ decBytes start ++ #[45] ++ decBytes end_ :=
  FetchSpec.fetchSubseq_eq_slice_brute bytes abc habc s hs ssi key e he her hed hel hfast start end_ a hf hb hr hB hi hfmt heof sq hdig hsabc
    hseq hna hda h1 h2 h3

/-- **(3, line addressing)** `bpl = b ≠ rpl + 1`: if the record's data really begins with `(start−1)/r` complete lines of `b` bytes and `r`
    residues (all of them data bytes) — what `bpl, rpl > 0` is meant to promise — FETCH = slice of SCAN -/
theorem fetchSubseq_eq_scan_slice_line (bytes : Bytes) (abc : Nat) (habc : abc ∈ [0, 1, 2, 3]) (s : Sq) (hs : s ∈ (parseFasta abc bytes).1)
    (ssi : Ssi) (key : Bytes) (e : SsiEntry) (he : ssi.findName key = some e) (her : e.roff = s.roff) (hed : e.doff = s.doff)
    (hel : e.len = s.L) (hfast : ssi.fast = true) (b r : Nat) (hbpl : ssi.bpl = (b : Int)) (hrpl : ssi.rpl = (r : Int))
    (hr0 : 0 < r) (hb0 : 0 < b) (hne : b ≠ r + 1) (start end_ : Int)
    (a : Ascii) (hf : a.file = bytes) (hb : a.linebased = false) (hr : a.recording ≠ 1) (hB : 1 ≤ a.B)
    (hi : a.inmap = inmapFasta abc) (hfmt : a.fmt = 1) (heof : a.eofIsOk = true)
    (sq : Sq) (hdig : sq.digital = (abc != 0)) (hsabc : sq.abc = abc) (hseq : sq.seq = #[]) (hna : 2 ≤ sq.nalloc) (hda : 2 ≤ sq.dalloc)
    (h1 : 1 ≤ start) (h2 : start ≤ end_) (h3 : end_ ≤ s.L)
    (lines : List (List UInt8)) (tail : List UInt8) (hgeo : bytes.toList.drop s.doff.toNat = lines.flatten ++ tail)
    (hfull : Geometry.FullLines (isRes (inmapFasta abc)) b r lines)
    (hdat : ∀ c ∈ lines.flatten, isData (inmapFasta abc) c = true) (hl : lines.length = (start.toNat - 1) / r) :
    (fetchSubseq a ssi sq key start end_).2.2 = .ok ∧
    (fetchSubseq a ssi sq key start end_).2.1.seq = s.seq.extract (start - 1).toNat end_.toNat ∧
    (fetchSubseq a ssi sq key start end_).2.1.start = start ∧ (fetchSubseq a ssi sq key start end_).2.1.end_ = end_ ∧
    (fetchSubseq a ssi sq key start end_).2.1.L = s.L ∧ (fetchSubseq a ssi sq key start end_).2.1.desc = s.desc ∧
    (fetchSubseq a ssi sq key start end_).2.1.source = key ∧
    (fetchSubseq a ssi sq key start end_).2.1.name = key ++ #[47] ++ decBytes start ++ #[45] ++ decBytes end_ :=
  FetchSpec.fetchSubseq_eq_slice_line bytes abc habc s hs ssi key e he her hed hel hfast b r hbpl hrpl hr0 hb0 hne start end_ a hf hb hr hB hi
    hfmt heof sq hdig hsabc hseq hna hda h1 h2 h3 lines tail hgeo hfull hdat hl

/-- **(3, residue addressing)** `bpl = rpl + 1`: moreover the line holding residue `start` begins with more than `(start−1) % r` residues
    and nothing else before them -/
theorem fetchSubseq_eq_scan_slice_residue (bytes : Bytes) (abc : Nat) (habc : abc ∈ [0, 1, 2, 3]) (s : Sq) (hs : s ∈ (parseFasta abc bytes).1)
    (ssi : Ssi) (key : Bytes) (e : SsiEntry) (he : ssi.findName key = some e) (her : e.roff = s.roff) (hed : e.doff = s.doff)
    (hel : e.len = s.L) (hfast : ssi.fast = true) (r : Nat) (hbpl : ssi.bpl = ((r + 1 : Nat) : Int)) (hrpl : ssi.rpl = (r : Int))
    (hr0 : 0 < r) (start end_ : Int)
    (a : Ascii) (hf : a.file = bytes) (hb : a.linebased = false) (hr : a.recording ≠ 1) (hB : 1 ≤ a.B)
    (hi : a.inmap = inmapFasta abc) (hfmt : a.fmt = 1) (heof : a.eofIsOk = true)
    (sq : Sq) (hdig : sq.digital = (abc != 0)) (hsabc : sq.abc = abc) (hseq : sq.seq = #[]) (hna : 2 ≤ sq.nalloc) (hda : 2 ≤ sq.dalloc)
    (h1 : 1 ≤ start) (h2 : start ≤ end_) (h3 : end_ ≤ s.L)
    (lines : List (List UInt8)) (res tail : List UInt8) (hgeo : bytes.toList.drop s.doff.toNat = lines.flatten ++ (res ++ tail))
    (hfull : Geometry.FullLines (isRes (inmapFasta abc)) (r + 1) r lines)
    (hdat : ∀ c ∈ lines.flatten, isData (inmapFasta abc) c = true) (hres : ∀ c ∈ res, isRes (inmapFasta abc) c = true)
    (hj : (start.toNat - 1) % r ≤ res.length) (hl : lines.length = (start.toNat - 1) / r) :
    (fetchSubseq a ssi sq key start end_).2.2 = .ok ∧
    (fetchSubseq a ssi sq key start end_).2.1.seq = s.seq.extract (start - 1).toNat end_.toNat ∧
    (fetchSubseq a ssi sq key start end_).2.1.start = start ∧ (fetchSubseq a ssi sq key start end_).2.1.end_ = end_ ∧
    (fetchSubseq a ssi sq key start end_).2.1.L = s.L ∧ (fetchSubseq a ssi sq key start end_).2.1.desc = s.desc ∧
    (fetchSubseq a ssi sq key start end_).2.1.source = key ∧
    (fetchSubseq a ssi sq key start end_).2.1.name = key ++ #[47] ++ decBytes start ++ #[45] ++ decBytes end_ :=
  FetchSpec.fetchSubseq_eq_slice_residue bytes abc habc s hs ssi key e he her hed hel hfast r hbpl hrpl hr0 start end_ a hf hb hr hB hi
    hfmt heof sq hdig hsabc hseq hna hda h1 h2 h3 lines res tail hgeo hfull hdat hres hj hl

/-- (4e) `end < start` or `end > L`: `eslERANGE`, never data -/
theorem fetchSubseq_end_out_of_range (a : Ascii) (ssi : Ssi) (sq : Sq) (key : Bytes) (start end_ roff doff len actualStart : Int)
    (hfs : findSubseq ssi key start = .ok (roff, doff, len, actualStart)) (he0 : end_ ≠ 0)
    (h : start > end_ ∨ (0 < len ∧ end_ > len)) :
    (fetchSubseq a ssi sq key start end_).2.2 = .erange :=
  FetchSpec.fetchSubseq_erange a ssi sq key start end_ roff doff len actualStart hfs he0 h

open EaselModel.Sqio.SpecFasta in
/-- **(3, whole record) FETCH = SCAN: `sqascii_Position(roff)` + `sqascii_Read` — what `esl_sqio_Fetch`, `PositionByKey` / `ByNumber` + `Read`
    and `esl-sfetch`'s whole-record path do — returns the record the sequential scan yields, for every block size**: for every record `s`
    of the scan, every block-mode handle on the file (any `B ≥ 1`, cursor anywhere) and every reused `ESL_SQ` of the right mode, positioning
    at `s.roff` succeeds, the read succeeds and returns `s`: name, description, residues, `roff` / `hoff` / `doff` / `eoff`, `L` (`toRecord`). -/
theorem fetch_eq_scan (bytes : Bytes) (abc : Nat) (habc : abc ∈ [0, 1, 2, 3]) (s : Sq) (hs : s ∈ (parseFasta abc bytes).1)
    (a : Ascii) (hf : a.file = bytes) (hb : a.linebased = false) (hr : a.recording ≠ 1) (hB : 1 ≤ a.B)
    (hi : a.inmap = inmapFasta abc) (hfmt : a.fmt = 1) (heof : a.eofIsOk = true)
    (sq : Sq) (hdig : sq.digital = (abc != 0)) (hsabc : sq.abc = abc) (hseq : sq.seq = #[]) (hna : 2 ≤ sq.nalloc) (hda : 2 ≤ sq.dalloc) :
    (position a s.roff.toNat).2 = .ok ∧
    (read (position a s.roff.toNat).1 sq).2.2 = .ok ∧
    toRecord (read (position a s.roff.toNat).1 sq).2.1 = toRecord s :=
  FetchWhole.fetch_eq_scan bytes abc habc s hs a hf hb hr hB hi hfmt heof sq hdig hsabc hseq hna hda

/-- what the scan says about every record it returns: offsets inside the file, the header re-parses at `roff`, the residues are the
    residues of the data bytes at `doff`, `L` is their number -/
theorem scanned_record_shape (bytes : Bytes) (abc : Nat) (s : Sq) (hs : s ∈ (parseFasta abc bytes).1) :
    0 ≤ s.roff ∧ s.roff < (bytes.size : Int) ∧ 0 < s.doff ∧ s.doff ≤ (bytes.size : Int) ∧ s.L = (s.seq.size : Int) :=
  let h := FetchSpec.record_shape bytes abc s hs
  ⟨h.1, h.2.1, h.2.2.1, h.2.2.2.1, h.2.2.2.2.2.2.1⟩

/-- **(3, fetch to the end) `end = 0`** is `end = L`: `sqascii_FetchSubseq(key, start, 0)` is literally the call with `end = L`, the
    length the index stored — same handle, same `ESL_SQ`, same status, name `key/start-L` — for every file, index, key and start -/
theorem fetchSubseq_end_zero (a : Ascii) (ssi : Ssi) (sq : Sq) (key : Bytes) (start roff doff len actualStart : Int)
    (hfs : findSubseq ssi key start = .ok (roff, doff, len, actualStart)) :
    fetchSubseq a ssi sq key start 0 = fetchSubseq a ssi sq key start len :=
  FetchMore.fetchSubseq_end_zero a ssi sq key start roff doff len actualStart hfs

/-- … so FETCH `start..0` = residues `start..L` of the SCAN (stated for the brute-force index; the line / residue cases compose the same
    way with `fetchSubseq_eq_scan_slice_line` / `_residue`) -/
theorem fetchSubseq_to_end_eq_scan_suffix (bytes : Bytes) (abc : Nat) (habc : abc ∈ [0, 1, 2, 3]) (s : Sq) (hs : s ∈ (parseFasta abc bytes).1)
    (ssi : Ssi) (key : Bytes) (e : SsiEntry) (he : ssi.findName key = some e) (her : e.roff = s.roff) (hed : e.doff = s.doff)
    (hel : e.len = s.L) (hfast : ssi.fast = false) (start : Int)
    (a : Ascii) (hf : a.file = bytes) (hb : a.linebased = false) (hr : a.recording ≠ 1) (hB : 1 ≤ a.B)
    (hi : a.inmap = inmapFasta abc) (hfmt : a.fmt = 1) (heof : a.eofIsOk = true)
    (sq : Sq) (hdig : sq.digital = (abc != 0)) (hsabc : sq.abc = abc) (hseq : sq.seq = #[]) (hna : 2 ≤ sq.nalloc) (hda : 2 ≤ sq.dalloc)
    (h1 : 1 ≤ start) (h2 : start ≤ s.L) :
    (fetchSubseq a ssi sq key start 0).2.2 = .ok ∧
    (fetchSubseq a ssi sq key start 0).2.1.seq = s.seq.extract (start - 1).toNat s.L.toNat ∧
    (fetchSubseq a ssi sq key start 0).2.1.start = start ∧ (fetchSubseq a ssi sq key start 0).2.1.end_ = s.L ∧
    (fetchSubseq a ssi sq key start 0).2.1.name = key ++ #[47] ++ decBytes start ++ #[45] ++ decBytes s.L := by
  have hfs := FetchSpec.findSubseq_brute ssi key start e he hfast h1 (by omega)
  rw [FetchMore.fetchSubseq_end_zero a ssi sq key start _ _ _ _ hfs, hel]
  obtain ⟨r1, r2, r3, r4, _, _, _, r8⟩ :=
    FetchSpec.fetchSubseq_eq_slice_brute bytes abc habc s hs ssi key e he her hed hel hfast start s.L a hf hb hr hB hi hfmt heof sq hdig hsabc
      hseq hna hda h1 h2 (Int.le_refl _)
  exact ⟨r1, r2, r3, r4, r8⟩

/-- **(3, FetchInfo) FETCHINFO = the info of the scanned record, for every block size**: `sqascii_Position(roff)` + `sqascii_ReadInfo`
    (what `esl_sqio_FetchInfo` does) succeeds and returns the name, description, the four offsets and the length `L` of the record the
    sequential scan yields — `L` being the number of residues `Read` delivers -/
theorem fetchInfo_eq_scan (bytes : Bytes) (abc : Nat) (habc : abc ∈ [0, 1, 2, 3]) (s : Sq) (hs : s ∈ (parseFasta abc bytes).1)
    (a : Ascii) (hf : a.file = bytes) (hb : a.linebased = false) (hr : a.recording ≠ 1) (hB : 1 ≤ a.B)
    (hi : a.inmap = inmapFasta abc) (hfmt : a.fmt = 1) (heof : a.eofIsOk = true)
    (sq : Sq) (hdig : sq.digital = (abc != 0)) (hsabc : sq.abc = abc) (hseq : sq.seq = #[]) (hna : 2 ≤ sq.nalloc) (hda : 2 ≤ sq.dalloc)
    (hsa : 2 ≤ sq.salloc) :
    (position a s.roff.toNat).2 = .ok ∧
    (readInfo (position a s.roff.toNat).1 sq).2.2 = .ok ∧
    (readInfo (position a s.roff.toNat).1 sq).2.1.name.toList = s.name.toList ∧
    (readInfo (position a s.roff.toNat).1 sq).2.1.desc.toList = s.desc.toList ∧
    (readInfo (position a s.roff.toNat).1 sq).2.1.roff = s.roff ∧ (readInfo (position a s.roff.toNat).1 sq).2.1.hoff = s.hoff ∧
    (readInfo (position a s.roff.toNat).1 sq).2.1.doff = s.doff ∧ (readInfo (position a s.roff.toNat).1 sq).2.1.eoff = s.eoff ∧
    (readInfo (position a s.roff.toNat).1 sq).2.1.L = s.L ∧ s.L = (s.seq.size : Int) :=
  FetchWhole.fetchInfo_eq_scan bytes abc habc s hs a hf hb hr hB hi hfmt heof sq hdig hsabc hseq hna hda hsa

open EaselModel.Sqio.SpecFasta in
/-- **(3, by number) FETCH BY NUMBER = SCAN**: `esl_ssi_FindNumber(n)` is the `n`-th primary key in index order
    (`findNumber_index_order`); when that entry carries the record offset of the scanned record `s`, `sqascii_PositionByNumber(n)` +
    `sqascii_Read` returns `s`, for every block size -/
theorem fetch_by_number_eq_scan (bytes : Bytes) (abc : Nat) (habc : abc ∈ [0, 1, 2, 3]) (s : Sq) (hs : s ∈ (parseFasta abc bytes).1)
    (ssi : Ssi) (n : Nat) (e : SsiEntry) (hn : findNumber ssi n = some e) (her : e.roff = s.roff)
    (a : Ascii) (hf : a.file = bytes) (hb : a.linebased = false) (hr : a.recording ≠ 1) (hB : 1 ≤ a.B)
    (hi : a.inmap = inmapFasta abc) (hfmt : a.fmt = 1) (heof : a.eofIsOk = true)
    (sq : Sq) (hdig : sq.digital = (abc != 0)) (hsabc : sq.abc = abc) (hseq : sq.seq = #[]) (hna : 2 ≤ sq.nalloc) (hda : 2 ≤ sq.dalloc) :
    e ∈ ssi.prim.toList ∧ (positionByNumber a ssi n).2 = .ok ∧
    (read (positionByNumber a ssi n).1 sq).2.2 = .ok ∧
    toRecord (read (positionByNumber a ssi n).1 sq).2.1 = toRecord s :=
  FetchMore.fetch_by_number_eq_scan bytes abc habc s hs ssi n e hn her a hf hb hr hB hi hfmt heof sq hdig hsabc hseq hna hda

/-- index order: the entries `FindNumber` enumerates are exactly the primary keys (a permutation), in non-decreasing byte-wise key
    order; a number `≥ nprimary` is `eslENOTFOUND` and leaves the handle untouched -/
theorem findNumber_index_order (ssi : Ssi) :
    (sortedPrim ssi).Perm ssi.prim.toList ∧ (sortedPrim ssi).Pairwise (fun x y => x.key.toList ≤ y.key.toList) ∧
    (∀ n, findNumber ssi n = (sortedPrim ssi)[n]?) ∧
    (∀ (a : Ascii) (n : Nat), ssi.prim.size ≤ n → positionByNumber a ssi n = (a, .enotfound)) :=
  ⟨FetchMore.sortedPrim_perm ssi, FetchMore.sortedPrim_sorted ssi, fun _ => rfl,
   fun a n h => FetchMore.positionByNumber_out_of_range a ssi n h⟩

/-- non-vacuity: the keys `b`, `a` (in file order) are enumerated as `a`, `b`; number 2 is absent -/
example : ((List.range 3).map fun n => (findNumber { prim := #[⟨#[98], 10, 13, 4⟩, ⟨#[97], 0, 3, 4⟩] } n).map (·.roff))
    = [some 0, some 10, none] := by
  have h : ¬ (([98] : List UInt8) ≤ [97]) := by decide
  simp [findNumber, sortedPrim, List.mergeSort, keyLe, List.range, List.range.loop, h]

/-- **(3, whole record, every size)** the size of what `Echo` writes is `eoff − roff + 1`, for every record size and every block
    size (in particular records of `k·4096 − 1`, `k·4096`, `k·4096 + 1` bytes read with `B = 4096`) -/
theorem echo_size (a : Ascii) (sq : Sq) (hb : a.linebased = false) (hr : a.recording ≠ 1) (hB : 1 ≤ a.B)
    (h0 : 0 ≤ sq.roff) (h1 : sq.roff ≤ sq.eoff) (h2 : sq.eoff < (a.file.size : Int)) :
    ((echo a sq).2.2.size : Int) = sq.eoff - sq.roff + 1 := by
  rw [(EchoSpec.echo_eq_scan_bytes a sq hb hr hB h0 h1 h2).2.1, Array.size_extract]
  omega

/-- **(1) ⇒ (3): the tracker's verdict IS the geometry hypothesis of the line-addressing theorem.** `recs`: the file as the
    tracker counts it (one `Rec` per record); the scan ends with `rpl = r > 0`, `bpl = b > 0`, `b ≠ r + 1` — what `esl-sfetch --index`
    then stores with `eslSSI_FASTSUBSEQ`; `s`: a record of the sequential scan whose data (the bytes from `s.doff` up to the next
    record or the end of the file) are the terminated lines `segs` followed by the unterminated `rest`, counted as the member
    `recOf … segs rest` of `recs`. Then FETCH `start..end` = residues `start..end` of the SCAN, for every block size — the geometry
    is no longer assumed but concluded from the tracker (`bplrpl_sound` + `GeomBridge.bridge_line`).
    Not composed (tied by the differential run): that the counts `recs` are those the byte-level `seebuf` loop accumulates
    (`Sqio/Fold.lean`: `seebuf` = byte fold = one tracker update per line) and that `create_ssi_index` stores exactly them. -/
theorem fetchSubseq_eq_scan_slice_line_tracked (bytes : Bytes) (abc : Nat) (habc : abc ∈ [0, 1, 2, 3]) (s : Sq) (hs : s ∈ (parseFasta abc bytes).1)
    (recs : List Rec) (hw : ∀ rc ∈ recs, rc.WF) (b r : Nat) (hr0 : 0 < r) (hb0 : 0 < b) (hne : b ≠ r + 1)
    (htr : (scanFile recs).rpl = (r : Int)) (htb : (scanFile recs).bpl = (b : Int))
    (segs : List (List UInt8)) (rest : List UInt8)
    (hdata : (bytes.toList.drop s.doff.toNat).takeWhile (isData (inmapFasta abc)) = segs.flatten ++ rest)
    (hmem : GeomBridge.recOf (isRes (inmapFasta abc)) segs rest ∈ recs)
    (ssi : Ssi) (key : Bytes) (e : SsiEntry) (he : ssi.findName key = some e) (her : e.roff = s.roff) (hed : e.doff = s.doff)
    (hel : e.len = s.L) (hfast : ssi.fast = true) (hbpl : ssi.bpl = (b : Int)) (hrpl : ssi.rpl = (r : Int)) (start end_ : Int)
    (a : Ascii) (hf : a.file = bytes) (hb : a.linebased = false) (hr : a.recording ≠ 1) (hB : 1 ≤ a.B)
    (hi : a.inmap = inmapFasta abc) (hfmt : a.fmt = 1) (heof : a.eofIsOk = true)
    (sq : Sq) (hdig : sq.digital = (abc != 0)) (hsabc : sq.abc = abc) (hseq : sq.seq = #[]) (hna : 2 ≤ sq.nalloc) (hda : 2 ≤ sq.dalloc)
    (h1 : 1 ≤ start) (h2 : start ≤ end_) (h3 : end_ ≤ s.L) :
    (fetchSubseq a ssi sq key start end_).2.2 = .ok ∧
    (fetchSubseq a ssi sq key start end_).2.1.seq = s.seq.extract (start - 1).toNat end_.toNat ∧
    (fetchSubseq a ssi sq key start end_).2.1.start = start ∧ (fetchSubseq a ssi sq key start end_).2.1.end_ = end_ ∧
    (fetchSubseq a ssi sq key start end_).2.1.L = s.L ∧ (fetchSubseq a ssi sq key start end_).2.1.desc = s.desc ∧
    (fetchSubseq a ssi sq key start end_).2.1.source = key ∧
    (fetchSubseq a ssi sq key start end_).2.1.name = key ++ #[47] ++ decBytes start ++ #[45] ++ decBytes end_ := by
  have hgeomAll := bplrpl_sound recs hw r b (by omega) (by omega) htr htb
  have hg := hgeomAll _ hmem
  obtain ⟨_, _, _, _, _, r6, r7, _⟩ := FetchSpec.record_shape bytes abc s hs
  have hL : s.L = (((segs.flatten ++ rest).filter (isRes (inmapFasta abc))).length : Int) := by
    rw [r7, r6, BodySpec.resOf_size, hdata]
  have hst : start.toNat ≤ ((segs.flatten ++ rest).filter (isRes (inmapFasta abc))).length := by omega
  obtain ⟨k1, k2, k3⟩ := GeomBridge.bridge_line (isRes (inmapFasta abc)) segs rest b r hr0 hg start.toNat (by omega) hst
  have hsplit := List.takeWhile_append_dropWhile (p := isData (inmapFasta abc)) (l := bytes.toList.drop s.doff.toNat)
  have hgeo : bytes.toList.drop s.doff.toNat = (segs.take ((start.toNat - 1) / r)).flatten ++
      (((segs.drop ((start.toNat - 1) / r)).flatten ++ rest) ++ (bytes.toList.drop s.doff.toNat).dropWhile (isData (inmapFasta abc))) := by
    rw [← List.append_assoc, ← k3, ← hdata]; exact hsplit.symm
  have hdat : ∀ c ∈ (segs.take ((start.toNat - 1) / r)).flatten, isData (inmapFasta abc) c = true := by
    intro c hc
    have : c ∈ (bytes.toList.drop s.doff.toNat).takeWhile (isData (inmapFasta abc)) := by
      rw [hdata, k3]; exact List.mem_append_left _ hc
    exact GeomBridge.mem_takeWhile_imp this
  exact fetchSubseq_eq_scan_slice_line bytes abc habc s hs ssi key e he her hed hel hfast b r hbpl hrpl hr0 hb0 hne start end_ a hf hb hr hB hi
    hfmt heof sq hdig hsabc hseq hna hda h1 h2 h3 _ _ hgeo k1 hdat k2

/-- non-vacuity of `fetchSubseq_eq_scan_slice_line_tracked`: the file `>a\nACGT \nACGT \nAC\n` (`FetchSpec.demoB`): its one record is
    counted as three lines (6, 4), (6, 4), (3, 2); the tracker ends with rpl = 4, bpl = 6 ≠ rpl + 1; the data cut into lines -/
example : GeomBridge.recOf (isRes (inmapFasta 0)) [[65, 67, 71, 84, 32, 10], [65, 67, 71, 84, 32, 10], [65, 67, 10]] []
            = ⟨[(6, 4), (6, 4), (3, 2)], none⟩ ∧
          (scanFile [⟨[(6, 4), (6, 4), (3, 2)], none⟩]).rpl = 4 ∧ (scanFile [⟨[(6, 4), (6, 4), (3, 2)], none⟩]).bpl = 6 ∧
          (FetchSpec.demoB.toList.drop 3).takeWhile (isData (inmapFasta 0))
            = [[65, 67, 71, 84, 32, 10], [65, 67, 71, 84, 32, 10], [65, 67, 10]].flatten ++ [] := by
  refine ⟨by decide +kernel, by decide, by decide, by decide +kernel⟩

/-- **(1) ⇒ (3), residue addressing** (`bpl = rpl + 1`): the same with the tracker's verdict `rpl = r`, `bpl = r + 1`; every terminated
    line of the record ends with its newline (a non-residue byte). The tracker's bound on ignored bytes (`≤ bpl − rpl − 1 = 0` on every
    line, last / unterminated lines included) is what makes "residue `i` of a line is its byte `i`" true on the line holding `start`. -/
theorem fetchSubseq_eq_scan_slice_residue_tracked (bytes : Bytes) (abc : Nat) (habc : abc ∈ [0, 1, 2, 3]) (s : Sq) (hs : s ∈ (parseFasta abc bytes).1)
    (recs : List Rec) (hw : ∀ rc ∈ recs, rc.WF) (r : Nat) (hr0 : 0 < r)
    (htr : (scanFile recs).rpl = (r : Int)) (htb : (scanFile recs).bpl = (r : Int) + 1)
    (segs : List (List UInt8)) (rest : List UInt8)
    (hdata : (bytes.toList.drop s.doff.toNat).takeWhile (isData (inmapFasta abc)) = segs.flatten ++ rest)
    (hterm : ∀ l ∈ segs, ∃ body e, l = body ++ [e] ∧ isRes (inmapFasta abc) e = false)
    (hmem : GeomBridge.recOf (isRes (inmapFasta abc)) segs rest ∈ recs)
    (ssi : Ssi) (key : Bytes) (e : SsiEntry) (he : ssi.findName key = some e) (her : e.roff = s.roff) (hed : e.doff = s.doff)
    (hel : e.len = s.L) (hfast : ssi.fast = true) (hbpl : ssi.bpl = ((r + 1 : Nat) : Int)) (hrpl : ssi.rpl = (r : Int)) (start end_ : Int)
    (a : Ascii) (hf : a.file = bytes) (hb : a.linebased = false) (hr : a.recording ≠ 1) (hB : 1 ≤ a.B)
    (hi : a.inmap = inmapFasta abc) (hfmt : a.fmt = 1) (heof : a.eofIsOk = true)
    (sq : Sq) (hdig : sq.digital = (abc != 0)) (hsabc : sq.abc = abc) (hseq : sq.seq = #[]) (hna : 2 ≤ sq.nalloc) (hda : 2 ≤ sq.dalloc)
    (h1 : 1 ≤ start) (h2 : start ≤ end_) (h3 : end_ ≤ s.L) :
    (fetchSubseq a ssi sq key start end_).2.2 = .ok ∧
    (fetchSubseq a ssi sq key start end_).2.1.seq = s.seq.extract (start - 1).toNat end_.toNat ∧
    (fetchSubseq a ssi sq key start end_).2.1.start = start ∧ (fetchSubseq a ssi sq key start end_).2.1.end_ = end_ ∧
    (fetchSubseq a ssi sq key start end_).2.1.L = s.L ∧ (fetchSubseq a ssi sq key start end_).2.1.desc = s.desc ∧
    (fetchSubseq a ssi sq key start end_).2.1.source = key ∧
    (fetchSubseq a ssi sq key start end_).2.1.name = key ++ #[47] ++ decBytes start ++ #[45] ++ decBytes end_ := by
  have hg := bplrpl_sound recs hw r ((r : Int) + 1) (by omega) (by omega) htr htb _ hmem
  obtain ⟨_, _, _, _, _, r6, r7, _⟩ := FetchSpec.record_shape bytes abc s hs
  have hL : s.L = (((segs.flatten ++ rest).filter (isRes (inmapFasta abc))).length : Int) := by
    rw [r7, r6, BodySpec.resOf_size, hdata]
  have hst : start.toNat ≤ ((segs.flatten ++ rest).filter (isRes (inmapFasta abc))).length := by omega
  obtain ⟨res, tail, k1, k2, k3, k4, k5⟩ :=
    GeomBridge.bridge_residue (isRes (inmapFasta abc)) segs rest r hr0 hg hterm start.toNat (by omega) hst
  have hsplit := List.takeWhile_append_dropWhile (p := isData (inmapFasta abc)) (l := bytes.toList.drop s.doff.toNat)
  have hgeo : bytes.toList.drop s.doff.toNat = (segs.take ((start.toNat - 1) / r)).flatten ++
      (res ++ (tail ++ (bytes.toList.drop s.doff.toNat).dropWhile (isData (inmapFasta abc)))) := by
    rw [← List.append_assoc res, ← List.append_assoc, ← k3, ← hdata]; exact hsplit.symm
  have hdat : ∀ c ∈ (segs.take ((start.toNat - 1) / r)).flatten, isData (inmapFasta abc) c = true := by
    intro c hc
    have : c ∈ (bytes.toList.drop s.doff.toNat).takeWhile (isData (inmapFasta abc)) := by
      rw [hdata, k3]; exact List.mem_append_left _ hc
    exact GeomBridge.mem_takeWhile_imp this
  exact fetchSubseq_eq_scan_slice_residue bytes abc habc s hs ssi key e he her hed hel hfast r hbpl hrpl hr0 start end_ a hf hb hr hB hi
    hfmt heof sq hdig hsabc hseq hna hda h1 h2 h3 _ res _ hgeo k1 hdat k4 k5 k2

/-- non-vacuity of `fetchSubseq_eq_scan_slice_residue_tracked`: the file `>a\nACGT\nACGT\nAC\n` (`FetchSpec.demoA`) -/
example : GeomBridge.recOf (isRes (inmapFasta 0)) [[65, 67, 71, 84, 10], [65, 67, 71, 84, 10], [65, 67, 10]] []
            = ⟨[(5, 4), (5, 4), (3, 2)], none⟩ ∧
          (scanFile [⟨[(5, 4), (5, 4), (3, 2)], none⟩]).rpl = 4 ∧ (scanFile [⟨[(5, 4), (5, 4), (3, 2)], none⟩]).bpl = 4 + 1 ∧
          (FetchSpec.demoA.toList.drop 3).takeWhile (isData (inmapFasta 0))
            = [[65, 67, 71, 84, 10], [65, 67, 71, 84, 10], [65, 67, 10]].flatten ++ [] ∧
          (∀ l ∈ [[65, 67, 71, 84, 10], [65, 67, 71, 84, 10], [(65 : UInt8), 67, 10]],
            ∃ body e, l = body ++ [e] ∧ isRes (inmapFasta 0) e = false) := by
  refine ⟨by decide +kernel, by decide, by decide, by decide +kernel, ?_⟩
  intro l hl
  simp only [List.mem_cons, List.not_mem_nil, or_false] at hl
  rcases hl with rfl | rfl | rfl
  · exact ⟨[65, 67, 71, 84], 10, rfl, by decide +kernel⟩
  · exact ⟨[65, 67, 71, 84], 10, rfl, by decide +kernel⟩
  · exact ⟨[65, 67], 10, rfl, by decide +kernel⟩

end fetchsub

/-! ## (5) esl-afetch: fetching a named alignment from a multi-alignment Stockholm file

`Afetch.createIndex` = `create_ssi_index()` of `miniapps/esl-afetch.c` (scan with `esl_msafile_Read`, `msa->offset`, name as primary key,
accession as alias, `esl_newssi_Write`), `Afetch.onefetch` = `esl_msafile_PositionByKey` + `regurgitate_one_stockholm_entry`,
`Afetch.seqFetch` = the specification (text of the first alignment a sequential pass finds under that name or accession);
the database is `dbBytes rs trail`: the bytes of any list `rs` of well-formed records (`SRec.WF`: any skipped lines, header, body lines the
parser continues on, terminator indented by any blanks/TABs, LF or CR LF line ends), followed by any skipped lines. -/
section afetch
open EaselModel.Afetch EaselModel.Msafile

/-- (5a) the indexing scan stores, for every alignment, the offset at which its `esl_msafile_Read` began (just behind the previous
    terminator line), its name and its accession — for every database of well-formed records -/
theorem afetch_scan_offsets (rs : List SRec) (trail : List TLine) (h : ∀ r ∈ rs, r.WF)
    (ht : ∀ l ∈ trail, leadLine l.1 = true ∧ LineWF l) :
    scanDb (dbBytes rs trail) = some ((entries 0 rs).map (·.1)) :=
  scanDb_records rs trail h ht

/-- (5b) `esl-afetch --index` succeeds iff all names and accessions TOGETHER are pairwise distinct — no name twice, no accession
    twice, no accession that is also a name (e2f2f44) — otherwise `esl_newssi_Write` reports the duplicate and the tool ends
    without an index -/
theorem afetch_index_built_iff (fname : Msafile.Bytes) (rs : List SRec) (trail : List TLine) (h : DbOk fname rs trail) :
    (createIndex fname (dbBytes rs trail)).isSome = true ↔ (rs.map SRec.name ++ rs.filterMap SRec.acc).Nodup :=
  createIndex_isSome_iff fname rs trail h

/-- (5c) FETCH = SCAN.  For every database of well-formed records and the index the tool itself built for it, fetching by name or
    by accession returns exactly the text of the alignment a sequential scan finds under that key (every line once, LF-terminated,
    skipped lines in front of its header included, nothing of the next alignment), and an absent key is `not found`.
    No side condition on the keys: an index exists only when all names and accessions are distinct (`afetch_index_built_iff`;
    the former hypothesis "no accession equals a name" went with the C06 repair e2f2f44). -/
theorem afetch_eq_scan (fname : Msafile.Bytes) (rs : List SRec) (trail : List TLine) (h : DbOk fname rs trail) (ssi : Msafile.Bytes)
    (hc : createIndex fname (dbBytes rs trail) = some ssi) (key : Msafile.Bytes) :
    onefetch (dbBytes rs trail) ssi key = match seqFetch rs key with | some t => .ok t | none => .notfound :=
  onefetch_eq_seqFetch fname rs trail h ssi hc key

/-- (5d) absent key ⇒ not found, never other data -/
theorem afetch_absent_notfound (fname : Msafile.Bytes) (rs : List SRec) (trail : List TLine) (h : DbOk fname rs trail) (ssi : Msafile.Bytes)
    (hc : createIndex fname (dbBytes rs trail) = some ssi) (key : Msafile.Bytes)
    (hk : ∀ r ∈ rs, r.name ≠ key ∧ r.acc ≠ some key) :
    onefetch (dbBytes rs trail) ssi key = .notfound := by
  rw [onefetch_eq_seqFetch fname rs trail h ssi hc key]
  have : seqFetch rs key = none := by
    unfold seqFetch
    rw [Option.map_eq_none_iff, List.find?_eq_none]
    intro e he
    obtain ⟨r, hr, hn, ha⟩ := entries_mem rs 0 e he
    have := hk r hr
    simp only [Bool.or_eq_true, beq_iff_eq, not_or]
    exact ⟨by rw [hn]; exact this.1, by rw [ha]; exact this.2⟩
  rw [this]

/-- (5e) the only clause of `SRec.WF` that is about the fetch path (`noStop`) is implied by the others when the tool skips exactly
    what the parser skips (`skipKind = 1`: the tree since the repair 7a79192; `Generated/AfetchSrc.lean` is re-derived from the source
    on every run) -/
theorem afetch_noStop_of_parser_skip (hk : EaselModel.Generated.AfetchSrc.skipKind = 1) (b : Msafile.Bytes) (h : bodyLineOk b = true) :
    regurgStop b = false :=
  noStop_of_parser_skip hk b h

/-- … and NOT with `isspace()` (986143b as it stood, `skipKind = 2`): the sequence line `"\f//x ACGU"` is an ordinary line for the
    parser and ends the copy of the fetch (the defect found with this model and repaired by 7a79192; regression case in the corpus) -/
theorem regurg_stops_early_witness : EaselModel.Generated.AfetchSrc.skipKind = 2 →
    bodyLineOk [12, 47, 47, 120, 32, 65, 67, 71, 85] = true ∧ regurgStop [12, 47, 47, 120, 32, 65, 67, 71, 85] = true := by
  decide

/-! non-vacuity: a two-alignment database (blank line in front, accession, terminator indented and CR LF-terminated) -/
def exA : SRec :=
  { lead := [([], [10])], hdr := ([35, 32, 83, 84, 79, 67, 75, 72, 79, 76, 77, 32, 49, 46, 48], [10]),
    body := [([35, 61, 71, 70, 32, 73, 68, 32, 111, 110, 101], [10]), ([35, 61, 71, 70, 32, 65, 67, 32, 80, 70, 49], [13, 10]),
             ([115, 49, 32, 65, 67, 71, 85], [10])],
    term := ([32, 32, 47, 47], [13, 10]) }
def exB : SRec :=
  { lead := [], hdr := ([35, 32, 83, 84, 79, 67, 75, 72, 79, 76, 77, 32, 49, 46, 48], [10]),
    body := [([35, 61, 71, 70, 32, 73, 68, 32, 116, 119, 111], [10]), ([115, 49, 32, 65, 67, 71, 85], [10])],
    term := ([47, 47], [10]) }

instance (l : TLine) : Decidable (LineWF l) := by unfold LineWF; infer_instance
instance (k : Msafile.Bytes) : Decidable (KeyOk k) := by unfold KeyOk EaselModel.Ssi.KeyChars; infer_instance

theorem exA_wf : exA.WF := by constructor <;> decide
theorem exB_wf : exB.WF := by constructor <;> decide

example : DbOk [100, 98] [exA, exB] [([35, 32, 99], [10])] := by
  refine ⟨?_, by decide, by decide, ?_, by decide, by decide⟩
  · intro r hr; simp only [List.mem_cons, List.not_mem_nil, or_false] at hr; rcases hr with rfl | rfl; exact exA_wf; exact exB_wf
  · intro r hr
    simp only [List.mem_cons, List.not_mem_nil, or_false] at hr
    rcases hr with rfl | rfl
    · refine ⟨by decide, ?_⟩
      intro a ha
      have e : exA.acc = some [80, 70, 49] := by decide
      rw [e] at ha; cases ha; decide
    · refine ⟨by decide, ?_⟩
      intro a ha
      have e : exB.acc = none := by decide
      rw [e] at ha; cases ha

example : exA.name = [111, 110, 101] ∧ exA.acc = some [80, 70, 49] ∧ exB.name = [116, 119, 111] ∧ exB.acc = none := by decide
example : ([exA, exB].map SRec.name ++ [exA, exB].filterMap SRec.acc).Nodup := by decide
/-- the scan finds `exA` under its accession, with the blank line in front and the indented terminator, LF-normalised -/
example : seqFetch [exA, exB] [80, 70, 49] = some (linesText exA.lines) ∧ seqFetch [exA, exB] [80, 70] = none := by decide
/-- the executable model on that database: the index is built, and the fetch by accession returns that text -/
example : (entries 0 [exA, exB]).map (·.1) = [⟨0, [111, 110, 101], some [80, 70, 49]⟩, ⟨56, [116, 119, 111], none⟩] := by decide

end afetch

end EaselModel.Props.C07
