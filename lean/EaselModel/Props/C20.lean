import EaselModel.Simd.Lemmas
import EaselModel.Simd.LogExpLemmas
import EaselModel.Simd.RealLanes
import EaselModel.Vec.Real
import EaselModel.Vec.XReal
import EaselModel.Vec.Rounded
import EaselModel.Vec.Kahan
import EaselModel.Vec.Mat
import EaselModel.Vec.GenOrder
import EaselModel.Vec.CompareReal
import EaselModel.Vec.GenFloat
import EaselModel.Vec.GenReal
import EaselModel.Vec.GenMix
import EaselModel.Vec.GenRet
/-! # C20 — vector and SIMD numeric kernels compute their definition for every input

Property theorems only (proofs are glue on the lemmas of `Simd/Lemmas.lean`, `Simd/LogExpLemmas.lean`, `Vec/Real.lean`, `Vec/XReal.lean`).

* Part A (`Gen.*` = the helper inlines of esl_sse.h / esl_avx.h / esl_avx512.h, REGENERATED from the working tree on every
  run by translate/simd2lean.py; intrinsics = the reviewed table `Simd/Intrinsics.lean`): every helper equals the scalar
  loop over its lanes, for EVERY lane pattern.  Integer lanes are arbitrary `BitVec`s; float lanes are an arbitrary type with
  arbitrary operations `O` (so the statements hold in particular for IEEE-754 binary32 including NaN, as far as the
  intrinsic table defines it); the reductions are "= the scalar left-to-right loop" under associativity+commutativity of
  the operation (true of real addition / of max on a NaN-free order; float addition is not associative, so for binary32 the
  statement that holds is a fixed shuffle tree; it is checked bit-for-bit by the differential run and bounded by a monitor).
* Part B (`Gen.esl_sse_logf_lane`, `Gen.esl_sse_expf_lane` regenerated from esl_sse.c): documented special values for all
  2^32 bit patterns, for ANY float arithmetic `L`.  NOT a theorem (measured, see evidence): "within a few ulp of libm
  elsewhere" — the comment after `expf_nan` below keeps the unproved part of the statement visible.
* Part C (hand model `Vec/Model.lean`, tied by the differential run): the routines over ℝ / any linear order. -/
namespace EaselModel.Props.C20
open EaselModel.Simd EaselModel.Simd.Gen EaselModel.Simd.Spec EaselModel.Vec

/-! ## A. horizontal maxima -/
theorem sse_hmax_epu8 (a : Vector (BitVec 8) 16) : (esl_sse_hmax_epu8 a).toNat = hmaxU a := Simd.sse_hmax_epu8 a
theorem sse_hmax_epi8 (a : Vector (BitVec 8) 16) : (esl_sse_hmax_epi8 a).toInt = hmaxS a := Simd.sse_hmax_epi8 a
theorem sse_hmax_epi16 (a : Vector (BitVec 16) 8) : (esl_sse_hmax_epi16 a).toInt = hmaxS a := Simd.sse_hmax_epi16 a
theorem avx_hmax_epu8 (a : Vector (BitVec 8) 32) : (esl_avx_hmax_epu8 a).toNat = hmaxU a := Simd.avx_hmax_epu8 a
theorem avx_hmax_epi8 (a : Vector (BitVec 8) 32) : (esl_avx_hmax_epi8 a).toInt = hmaxS a := Simd.avx_hmax_epi8 a
theorem avx_hmax_epi16 (a : Vector (BitVec 16) 16) : (esl_avx_hmax_epi16 a).toInt = hmaxS a := Simd.avx_hmax_epi16 a
theorem avx512_hmax_epu8 (a : Vector (BitVec 8) 64) : (esl_avx512_hmax_epu8 a).toNat = hmaxU a := Simd.avx512_hmax_epu8 a
theorem avx512_hmax_epi8 (a : Vector (BitVec 8) 64) : (esl_avx512_hmax_epi8 a).toInt = hmaxS a := Simd.avx512_hmax_epi8 a
theorem avx512_hmax_epi16 (a : Vector (BitVec 16) 32) : (esl_avx512_hmax_epi16 a).toInt = hmaxS a := Simd.avx512_hmax_epi16 a

/-- what `hmaxU` / `hmaxS` (the scalar loops) are: an upper bound of every lane that is attained by a lane -/
theorem hmaxU_spec {w n : Nat} (a : Vector (BitVec w) n) :
    (∀ i : Fin n, a[i].toNat ≤ hmaxU a) ∧ (0 < n → ∃ i : Fin n, hmaxU a = a[i].toNat) := Simd.hmaxU_spec a
theorem hmaxS_spec {w n : Nat} (a : Vector (BitVec w) n) :
    (∀ i : Fin n, a[i].toInt ≤ hmaxS a) ∧ (0 < n → ∃ i : Fin n, hmaxS a = a[i].toInt) := Simd.hmaxS_spec a

example : hmaxU (Vector.ofFn (n := 16) fun i => BitVec.ofNat 8 (if i.val = 13 then 255 else i.val)) = 255 := by decide
example : hmaxS (Vector.ofFn (n := 8) fun i => BitVec.ofNat 16 (if i.val = 5 then 0x8001 else 0x8000)) = -32767 := by decide

/-! ## A. horizontal float reductions -/
section
variable {α : Type} (O : F32Ops α)
theorem sse_hsum_ps (hc : ∀ x y, O.add x y = O.add y x) (ha : ∀ x y z, O.add (O.add x y) z = O.add x (O.add y z)) (a : Vector α 4) :
    esl_sse_hsum_ps O a = foldLanes O.add O.zero a := Simd.sse_hsum_ps O hc ha a
theorem avx_hsum_ps (hc : ∀ x y, O.add x y = O.add y x) (ha : ∀ x y z, O.add (O.add x y) z = O.add x (O.add y z)) (a : Vector α 8) :
    esl_avx_hsum_ps O a = foldLanes O.add O.zero a := Simd.avx_hsum_ps O hc ha a
theorem avx512_hsum_ps (hc : ∀ x y, O.add x y = O.add y x) (ha : ∀ x y z, O.add (O.add x y) z = O.add x (O.add y z)) (a : Vector α 16) :
    esl_avx512_hsum_ps O a = foldLanes O.add O.zero a := Simd.avx512_hsum_ps O hc ha a
theorem sse_hmax_ps (hc : ∀ x y, O.max x y = O.max y x) (ha : ∀ x y z, O.max (O.max x y) z = O.max x (O.max y z)) (a : Vector α 4) :
    esl_sse_hmax_ps O a = foldLanes O.max O.zero a := Simd.sse_hmax_ps O hc ha a
theorem sse_hmin_ps (hc : ∀ x y, O.min x y = O.min y x) (ha : ∀ x y z, O.min (O.min x y) z = O.min x (O.min y z)) (a : Vector α 4) :
    esl_sse_hmin_ps O a = foldLanes O.min O.zero a := Simd.sse_hmin_ps O hc ha a
end

/-- lanes read as reals (exact `+`, NaN-free order): the horizontal sum is the sum of the lanes, hmax/hmin the max/min -/
theorem sse_hsum_ps_real (a : Vector ℝ 4) : esl_sse_hsum_ps realOps a = (List.ofFn fun i : Fin 4 => a[i]).sum := Simd.sse_hsum_ps_real a
theorem avx_hsum_ps_real (a : Vector ℝ 8) : esl_avx_hsum_ps realOps a = (List.ofFn fun i : Fin 8 => a[i]).sum := Simd.avx_hsum_ps_real a
theorem avx512_hsum_ps_real (a : Vector ℝ 16) : esl_avx512_hsum_ps realOps a = (List.ofFn fun i : Fin 16 => a[i]).sum := Simd.avx512_hsum_ps_real a
theorem sse_hmax_ps_real (a : Vector ℝ 4) : esl_sse_hmax_ps realOps a = max (max (max a[0] a[1]) a[2]) a[3] := Simd.sse_hmax_ps_real a
theorem sse_hmin_ps_real (a : Vector ℝ 4) : esl_sse_hmin_ps realOps a = min (min (min a[0] a[1]) a[2]) a[3] := Simd.sse_hmin_ps_real a

/-- non-vacuity of the AC hypotheses: integers with `+`, `max`, `min` -/
def intOps : F32Ops Int := { add := (· + ·), max := max, min := min, gt := fun a b => decide (a > b), zero := 0, ones := -1, msb := fun a => decide (a < 0) }
example : esl_sse_hsum_ps intOps #v[1, 2, 3, 4] = 10 := by
  rw [sse_hsum_ps intOps (fun x y => Int.add_comm x y) (fun x y z => Int.add_assoc x y z)]; decide
example : esl_avx512_hsum_ps intOps (Vector.ofFn fun i => (i.val : Int)) = 120 := by
  rw [avx512_hsum_ps intOps (fun x y => Int.add_comm x y) (fun x y z => Int.add_assoc x y z)]; decide

/-! ## A. any_gt -/
theorem sse_any_gt_epu8 (a b : Vector (BitVec 8) 16) : esl_sse_any_gt_epu8 a b = anyGtU a b := Simd.sse_any_gt_epu8 a b
theorem sse_any_gt_epi16 (a b : Vector (BitVec 16) 8) : esl_sse_any_gt_epi16 a b = anyGtS a b := Simd.sse_any_gt_epi16 a b
theorem avx_any_gt_epi16 (a b : Vector (BitVec 16) 16) : esl_avx_any_gt_epi16 a b = anyGtS a b := Simd.avx_any_gt_epi16 a b
theorem sse_any_gt_ps {α : Type} (O : F32Ops α) (h1 : O.msb O.ones = true) (h0 : O.msb O.zero = false) (a b : Vector α 4) :
    esl_sse_any_gt_ps O a b = anyGtF O a b := Simd.sse_any_gt_ps O h1 h0 a b
example : intOps.msb intOps.ones = true ∧ intOps.msb intOps.zero = false := by decide
example : F32.ops.msb F32.ops.ones = true ∧ F32.ops.msb F32.ops.zero = false := by decide

/-! ## A. select and shifts -/
section
variable {α : Type} (O : F32Ops α)
theorem sse_select_ps (a b mask : Vector α 4) :
    esl_sse_select_ps O a b mask = select O.zero (fun z => O.msb (lane mask O.zero z)) a b := Simd.sse_select_ps O a b mask
theorem sse_rightshiftz_float (a : Vector α 4) : esl_sse_rightshiftz_float O a = shiftRight O.zero a := Simd.sse_rightshiftz_float O a
theorem sse_leftshiftz_float (a : Vector α 4) : esl_sse_leftshiftz_float O a = shiftLeft O.zero a := Simd.sse_leftshiftz_float O a
theorem avx_rightshiftz_float (a : Vector α 8) : esl_avx_rightshiftz_float O a = shiftRight O.zero a := Simd.avx_rightshiftz_float O a
theorem avx_leftshiftz_float (a : Vector α 8) : esl_avx_leftshiftz_float O a = shiftLeft O.zero a := Simd.avx_leftshiftz_float O a
theorem avx512_rightshiftz_float (a : Vector α 16) : esl_avx512_rightshiftz_float O a = shiftRight O.zero a := Simd.avx512_rightshiftz_float O a
theorem avx512_leftshiftz_float (a : Vector α 16) : esl_avx512_leftshiftz_float O a = shiftLeft O.zero a := Simd.avx512_leftshiftz_float O a
theorem sse_rightshift_ps (a b : Vector α 4) : esl_sse_rightshift_ps O a b = shiftRight (lane b O.zero 0) a := Simd.sse_rightshift_ps O a b
theorem sse_leftshift_ps (a b : Vector α 4) : esl_sse_leftshift_ps O a b = shiftLeft (lane b O.zero 0) a := Simd.sse_leftshift_ps O a b
end
/-- `{ a0 .. a14 a15 }`, mask `{ -inf, 0 .. 0 }`  ↦  `{ -inf, a0 .. a14 }` (stated for any mask: lanes are OR-ed) -/
theorem sse_rightshift_int8 (a m : Vector (BitVec 8) 16) : esl_sse_rightshift_int8 a m = or_si (shiftRight 0 a) m := Simd.sse_rightshift_int8 a m
theorem sse_rightshift_int16 (a m : Vector (BitVec 16) 8) : esl_sse_rightshift_int16 a m = or_si (shiftRight 0 a) m := Simd.sse_rightshift_int16 a m
theorem avx_rightshift_int8 (a m : Vector (BitVec 8) 32) : esl_avx_rightshift_int8 a m = or_si (shiftRight 0 a) m := Simd.avx_rightshift_int8 a m
theorem avx_rightshift_int16 (a m : Vector (BitVec 16) 16) : esl_avx_rightshift_int16 a m = or_si (shiftRight 0 a) m := Simd.avx_rightshift_int16 a m
theorem avx512_rightshift_int8 (a m : Vector (BitVec 8) 64) : esl_avx512_rightshift_int8 a m = or_si (shiftRight 0 a) m := Simd.avx512_rightshift_int8 a m
theorem avx512_rightshift_int16 (a m : Vector (BitVec 16) 32) : esl_avx512_rightshift_int16 a m = or_si (shiftRight 0 a) m := Simd.avx512_rightshift_int16 a m

/-- with the documented mask `{ -inf, 0, …, 0 }` the integer right shifts fill lane 0 with `-inf`: `{ -inf, a0 … a(n-2) }` -/
theorem rightshift_fill {w n : Nat} (a : Vector (BitVec w) n) (fill : BitVec w) :
    or_si (shiftRight 0 a) (Vector.ofFn fun i => if i.val = 0 then fill else 0) = shiftRight fill a := Simd.rightshift_fill a fill

/-! ## B. esl_sse_logf / esl_sse_expf: special values, all 2^32 patterns, any arithmetic -/
/-- sign bit set (negative numbers, -0, -inf, negative-signed NaN) ↦ the all-ones pattern, a NaN -/
theorem logf_negative (L : Lane32Ops) (x : UInt32) (h : 2 ^ 31 ≤ x.toNat) : esl_sse_logf_lane L x = 0xFFFFFFFF := Simd.logf_negative L x h
/-- +0 and positive subnormals (biased exponent 0) ↦ -inf -/
theorem logf_zero_subnormal (L : Lane32Ops) (x : UInt32) (h : x.toNat < 2 ^ 23) : esl_sse_logf_lane L x = 0xff800000 := Simd.logf_zero_subnormal L x h
/-- +inf ↦ +inf, positive NaN ↦ itself -/
theorem logf_inf_nan (L : Lane32Ops) (x : UInt32) (hs : x.toNat < 2 ^ 31) (he : x.toNat / 2 ^ 23 % 256 = 255) :
    esl_sse_logf_lane L x = x := Simd.logf_inf_nan L x hs he
example : (2 : Nat) ^ 31 ≤ (0x80000000 : UInt32).toNat := by decide                       -- -0
example : (0x007fffff : UInt32).toNat < 2 ^ 23 := by decide                                 -- largest subnormal
example : (0x7f800000 : UInt32).toNat < 2 ^ 31 ∧ (0x7f800000 : UInt32).toNat / 2 ^ 23 % 256 = 255 := by decide  -- +inf

theorem expf_underflow (L : Lane32Ops) (x : UInt32) (h : L.le x expf_minlogf = true) : esl_sse_expf_lane L x = 0 := Simd.expf_underflow L x h
theorem expf_overflow (L : Lane32Ops) (x : UInt32) (h : L.gt x expf_maxlogf = true) (h2 : L.le x expf_minlogf = false) :
    esl_sse_expf_lane L x = 0x7f800000 := Simd.expf_overflow L x h h2
theorem expf_cutoffs_in_window :
    0x42af5dc3 ≤ expf_maxlogf.toNat ∧ expf_maxlogf.toNat ≤ 0x42b22000 ∧
    0xc2af5dc3 ≤ expf_minlogf.toNat ∧ expf_minlogf.toNat ≤ 0xc2b0c0a5 := Simd.expf_cutoffs_in_window
theorem expf_nan (L : Lane32Ops) (x : UInt32)
    (hsub : ∀ a b, isNaN32 a = true → isNaN32 (L.sub_ps a b) = true)
    (haddL : ∀ a b, isNaN32 a = true → isNaN32 (L.add_ps a b) = true)
    (haddR : ∀ a b, isNaN32 b = true → isNaN32 (L.add_ps a b) = true)
    (hmulL : ∀ a b, isNaN32 a = true → isNaN32 (L.mul_ps a b) = true)
    (hx : isNaN32 x = true) (hgt : L.gt x expf_maxlogf = false) (hle : L.le x expf_minlogf = false) :
    isNaN32 (esl_sse_expf_lane L x) = true := Simd.expf_nan L x hsub haddL haddR hmulL hx hgt hle

/-- non-vacuity of the `expf` hypotheses: an arithmetic record that propagates NaNs and whose comparisons are false on NaN -/
def nanOps : Lane32Ops :=
  { add_ps := fun a b => if isNaN32 a then a else b, sub_ps := fun a _ => a, mul_ps := fun a _ => a,
    cvtepi32_ps := id, cvttps_epi32 := id,
    lt := fun a b => !isNaN32 a && !isNaN32 b && decide (a.toNat < b.toNat),
    gt := fun a b => !isNaN32 a && !isNaN32 b && decide (a.toNat > b.toNat),
    le := fun a b => !isNaN32 a && !isNaN32 b && decide (a.toNat ≤ b.toNat) }
example : isNaN32 0x7fc00000 = true ∧ nanOps.gt 0x7fc00000 expf_maxlogf = false ∧ nanOps.le 0x7fc00000 expf_minlogf = false := by decide
example : isNaN32 (esl_sse_expf_lane nanOps 0x7fc00000) = true :=
  expf_nan nanOps 0x7fc00000 (fun a _ h => h) (fun a b h => by simp [nanOps, h]) (fun a b h => by simp only [nanOps]; split <;> simp_all)
    (fun a _ h => h) (by decide) (by decide) (by decide)
example : nanOps.gt 0xc2b0c0a6 expf_maxlogf = true ∧ nanOps.le 0xc2b0c0a6 expf_minlogf = false := by decide   -- (toy order on patterns)
example : nanOps.le 0x00000000 expf_minlogf = true := by decide

/- FULL STATEMENT of part B not proved (kept visible): for every normal positive `x`, `|esl_sse_logf x - logf x| ≤ few ulp`, and for
   every `minlogf < x ≤ maxlogf`, `|esl_sse_expf x - expf x| ≤ few ulp` (0 accepted where the true result is subnormal). libm and IEEE
   rounding are opaque to the kernel; this part is MEASURED: quick tier on a stratified sample, thorough tier on all 2^32
   patterns × 4 lane positions (evidence field `exhaustive_logf_expf`, `exhaustive: true`). The theorems above are therefore the
   `_partial` form of the property's first sentence: special values proved, ordinary-range accuracy measured. -/

/-! ## C. vector routines -/
/-- Kahan summation = the exact sum over ℝ -/
theorem sum_eq_real (v : List ℝ) : Vec.sum v = v.sum := Vec.sum_eq_real v
theorem dot_eq_real (v w : List ℝ) : dot v w = (List.zipWith (· * ·) v w).sum := Vec.dot_eq_real v w
section
variable {α : Type} [LinearOrder α] [VOrd α] [LawfulVOrd α]
theorem vmax_spec (v : List α) (h : v ≠ []) : ∃ m, vmax v = some m ∧ m ∈ v ∧ ∀ x ∈ v, x ≤ m := Vec.vmax_spec v h
theorem vmin_spec (v : List α) (h : v ≠ []) : ∃ m, vmin v = some m ∧ m ∈ v ∧ ∀ x ∈ v, m ≤ x := Vec.vmin_spec v h
/-- the FIRST index attaining the maximum -/
theorem argmax_spec (v : List α) (h : v ≠ []) :
    ∃ m, v[argmax v]? = some m ∧ (∀ x ∈ v, x ≤ m) ∧ (∀ (j : Nat) (y : α), j < argmax v → v[j]? = some y → y < m) := Vec.argmax_spec v h
theorem argmin_spec (v : List α) (h : v ≠ []) :
    ∃ m, v[argmin v]? = some m ∧ (∀ x ∈ v, m ≤ x) ∧ (∀ (j : Nat) (y : α), j < argmin v → v[j]? = some y → m < y) := Vec.argmin_spec v h
theorem argmax_nil : argmax ([] : List α) = 0 := rfl
theorem sortIncreasing_spec (v : List α) : (sortIncreasing v).Perm v ∧ (sortIncreasing v).Pairwise (· ≤ ·) := Vec.sortIncreasing_spec v
theorem sortDecreasing_spec (v : List α) : (sortDecreasing v).Perm v ∧ (sortDecreasing v).Pairwise (· ≥ ·) := Vec.sortDecreasing_spec v
end
example : argmax ([1, 3, 3, 2] : List Int) = 1 := by decide
example : argmin ([2, 1, 1] : List Int) = 1 := by decide

theorem norm_of_sum_ne_zero (v : List ℝ) (h : v.sum ≠ 0) : norm v = v.map (· / v.sum) ∧ (norm v).sum = 1 := Vec.norm_of_sum_ne_zero v h
theorem norm_of_sum_zero (v : List ℝ) (h : v.sum = 0) :
    norm v = List.replicate v.length (1 / (v.length : ℝ)) ∧ (v ≠ [] → (norm v).sum = 1) := Vec.norm_of_sum_zero v h
example : ([1, 2, 3] : List ℝ).sum ≠ 0 := by norm_num
example : ([1, -1] : List ℝ).sum = 0 := by norm_num
theorem entropy_eq (p : List ℝ) : entropy p = (p.map fun x => if 0 < x then -(x * Real.logb 2 x) else 0).sum := Vec.entropy_eq p
theorem cdf_spec (v : List ℝ) (h : v ≠ []) : cdf v = some ((List.range v.length).map fun i => (v.take (i + 1)).sum) := Vec.cdf_spec v h
theorem validate_spec (v : List ℝ) (tol : ℝ) (h : v ≠ []) :
    validate v tol = true ↔ (∀ x ∈ v, 0 ≤ x ∧ x ≤ 1) ∧ |v.sum - 1| ≤ tol := Vec.validate_spec v tol h

/-! ## C. log space (extended reals `XR`: -inf, reals, +inf, NaN; the same `logSum` that runs against the C code; the window
    constant of the routine is a parameter: 500 for the double routines, 50 for the float ones) -/
/-- window of `esl_vec_DLogSum` / `esl_vec_FLogSum` -/
def winD : Window := ⟨500, by norm_num⟩
def winF : Window := ⟨50, by norm_num⟩

/-- every entry `-inf` ↦ `-inf`, as the code does (`log 0 + -inf`) -/
theorem logSum_all_ninf [Window] (v : List XR) (hne : v ≠ []) (hv : ∀ x ∈ v, x = XR.ninf) : logSum v = some XR.ninf :=
  Vec.logSum_all_ninf v hne hv
/-- `DLogSum = log Σ exp` over the finite entries, within `n·e^{-500}` (the terms below `max - 500` that the code drops), for
    entries that are `-inf` or any reals — in particular entries hundreds of log units apart -/
theorem logSum_spec (v : List XR) (hv : ∀ x ∈ v, x.isLogP) (hfin : finites v ≠ []) :
    ∃ r : ℝ, @logSum XR (@instVInfXR winD) v = some (XR.fin r) ∧
      |r - Real.log ((finites v).map Real.exp).sum| ≤ v.length * Real.exp (-500) := @Vec.logSum_spec winD v hv hfin
/-- the float routine (window 50): within `n·e^{-50}` -/
theorem logSum_spec_F (v : List XR) (hv : ∀ x ∈ v, x.isLogP) (hfin : finites v ≠ []) :
    ∃ r : ℝ, @logSum XR (@instVInfXR winF) v = some (XR.fin r) ∧
      |r - Real.log ((finites v).map Real.exp).sum| ≤ v.length * Real.exp (-50) := @Vec.logSum_spec winF v hv hfin
theorem logSum_of_max_pinf [Window] (v : List XR) (h : vmax v = some XR.pinf) : logSum v = some XR.pinf := Vec.logSum_of_max_pinf v h
example : (∀ x ∈ [XR.fin (-1000), XR.ninf, XR.fin (-1600)], x.isLogP) ∧ finites [XR.fin (-1000), XR.ninf, XR.fin (-1600)] ≠ [] := by
  constructor
  · intro x hx; simp at hx; rcases hx with h | h | h <;> subst h <;> trivial
  · simp [finites]

/-- `LogNorm` = exact softmax over the reals (`-inf ↦ 0`), summing to 1 -/
theorem logNorm_spec [Window] (v : List XR) (hv : ∀ x ∈ v, x.isLogP) (hfin : finites v ≠ []) :
    logNorm v = some ((softmax v).map XR.fin) ∧ (softmax v).sum = 1 := Vec.logNorm_spec v hv hfin
/-- `RelEntropy`: `+inf` (early return) iff some `p_i > 0` has `q_i = 0`, else `Σ_{p_i>0} p_i log2 (p_i/q_i)` -/
theorem relEntropyGo_spec (p q : List ℝ) (kl : ℝ) :
    relEntropyGo p q kl = if (∃ ab ∈ List.zip p q, 0 < ab.1 ∧ ab.2 = 0) then none else some (kl + (klTerms p q).sum) :=
  Vec.relEntropyGo_spec p q kl

/-- base-2 analogue of `logSum_spec` -/
theorem log2Sum_spec (v : List XR) (hv : ∀ x ∈ v, x.isLogP) (hfin : finites v ≠ []) :
    ∃ r : ℝ, @log2Sum XR (@instVInfXR winD) v = some (XR.fin r) ∧
      |r - Real.logb 2 ((finites v).map fun a => (2 : ℝ) ^ a).sum| ≤ v.length * (2 : ℝ) ^ (-500 : ℝ) / Real.log 2 := @Vec.log2Sum_spec winD v hv hfin
theorem log2Sum_spec_F (v : List XR) (hv : ∀ x ∈ v, x.isLogP) (hfin : finites v ≠ []) :
    ∃ r : ℝ, @log2Sum XR (@instVInfXR winF) v = some (XR.fin r) ∧
      |r - Real.logb 2 ((finites v).map fun a => (2 : ℝ) ^ a).sum| ≤ v.length * (2 : ℝ) ^ (-50 : ℝ) / Real.log 2 := @Vec.log2Sum_spec winF v hv hfin
theorem isum_eq (v : List Int) : isum v = v.sum := Vec.isum_eq v
theorem idot_eq (v w : List Int) : idot v w = (List.zipWith (· * ·) v w).sum := Vec.idot_eq v w

/-! ## C. rounding error (standard model of floating-point arithmetic: `|fl x - x| ≤ u|x|` after every operation; that IEEE
    binary64/32 satisfy it away from overflow/underflow is the trusted fact) -/
/-- `Dot`, evaluated with rounding after every multiplication and addition, is within `((1+u)^(2n) - 1)·Σ|x_i y_i|` of the exact
    dot product (n = length): the "within rounding error" clause for the plain accumulation loops.  (For `Sum` see `kahan_rounding` below; the
    monitor additionally measures `|result - exact| ≤ 3u·Σ|x_i|` on every generated vector.) -/
theorem dot_rounding [Rnd] (v w : List RR) :
    |(dot v w).val - exactDot v w| ≤ ((1 + Rnd.u) ^ (2 * min v.length w.length) - 1) * absDot v w := Vec.dot_rounding v w
/-- **Kahan's compensated summation** (`esl_vec_{D,F}Sum`), with rounding after each of the four operations of the loop body, is
    within `(7u + 19·n·u²)·Σ|x_i|` of the exact sum when `u ≤ 1/64` and `n·u ≤ 1` (binary64: n ≤ 9·10^15): the first-order error
    does not grow with the length — the "compensated summation within rounding error of the exact sum" clause. -/
theorem kahan_rounding [Rnd] (v : List RR) (hu : Rnd.u ≤ 1 / 64) (hn : (v.length : ℝ) * Rnd.u ≤ 1) :
    |(Vec.sum v).val - exactSum v| ≤ (7 * Rnd.u + 19 * v.length * Rnd.u ^ 2) * absSum v := Vec.kahan_rounding v hu hn
/-- non-vacuity: exact arithmetic is a rounding with `u = 0`; so is "round then perturb by at most u" for any u -/
example : Rnd := { fl := id, u := 0, u_nonneg := le_refl _, err := fun x => by simp }

/-! ## C. matrices (esl_matrixops.c): the row pointers `A[i] = A[0] + i*N` tile the `M*N` block exactly — every `A[i][j]` with
    `i < M, j < N` is inside the block, distinct cells are distinct, and every cell of the block is some `A[i][j]`; the flat
    routines (`Set/Scale/Copy/Max`) are the vector routines on the block -/
theorem mat_cell_in_block (M N i j : Nat) (hi : i < M) (hj : j < N) : Mat.cell M N i j = some (i * N + j) := Mat.cell_some M N i j hi hj
theorem mat_cell_inj (N i j i' j' : Nat) (hj : j < N) (hj' : j' < N) (h : i * N + j = i' * N + j') : i = i' ∧ j = j' :=
  Mat.cell_inj N i j i' j' hj hj' h
theorem mat_cell_surj (M N k : Nat) (hk : k < M * N) : ∃ i j, i < M ∧ j < N ∧ Mat.cell M N i j = some k := Mat.cell_surj M N k hk

/-! ## D. the routines of esl_vectorops.c / esl_matrixops.c as REGENERATED from the working tree (`Vec.Gen.*`,
    translate/vec2lean.py): bounds-checked array loops in the `Option` monad (`none` = fault: out-of-bounds access or signed
    overflow).  `int` = `Int32`, `int64_t` = `Int64` with their whole ranges; `v.size` is the `n` argument. -/
section generated
open EaselModel.Vec.Gen

/-- the `int` comparator handed to `qsort` is the three-way comparison of the integer values on ALL of `int` — in particular for
    entries further apart than 2^31, where the idiom `return x1 - x2` is wrong -/
theorem gen_cmp_int (a b : Int32) :
    (qsort_IIncreasing a b < 0 ↔ a.toInt < b.toInt) ∧ (qsort_IIncreasing a b = 0 ↔ a = b) ∧ (0 < qsort_IIncreasing a b ↔ b.toInt < a.toInt) := by
  simpa only [Int32.lt_iff_toInt_lt] using Vec.cmp_incr_spec a b
theorem gen_cmp_int_decr (a b : Int32) :
    (qsort_IDecreasing a b < 0 ↔ b.toInt < a.toInt) ∧ (qsort_IDecreasing a b = 0 ↔ a = b) ∧ (0 < qsort_IDecreasing a b ↔ a.toInt < b.toInt) := by
  simpa only [Int32.lt_iff_toInt_lt] using Vec.cmp_decr_spec a b
theorem gen_cmp_int64 (a b : Int64) :
    (qsort_LIncreasing a b < 0 ↔ a.toInt < b.toInt) ∧ (qsort_LIncreasing a b = 0 ↔ a = b) ∧ (0 < qsort_LIncreasing a b ↔ b.toInt < a.toInt) := by
  have h : qsort_LIncreasing a b = qsort_IIncreasing a b := rfl
  rw [h]; simpa only [Int64.lt_iff_toInt_lt] using Vec.cmp_incr_spec a b
theorem gen_cmp_int64_decr (a b : Int64) :
    (qsort_LDecreasing a b < 0 ↔ b.toInt < a.toInt) ∧ (qsort_LDecreasing a b = 0 ↔ a = b) ∧ (0 < qsort_LDecreasing a b ↔ a.toInt < b.toInt) := by
  have h : qsort_LDecreasing a b = qsort_IDecreasing a b := rfl
  rw [h]; simpa only [Int64.lt_iff_toInt_lt] using Vec.cmp_decr_spec a b

/-- why the comparators must be the three-way `if`: the idiom `return x1 - x2;` (gcc semantics: wrap-around at the element width, then
    truncation to `int`) is the difference of the values only inside a 2^31-wide window; outside it the sign is wrong (`int`) or the
    result is 0 for different entries (`int64_t`).  A tree whose comparators are written that way is translated to exactly these terms,
    and `gen_cmp_int` … `gen_LSortDecreasing` no longer check. -/
theorem cmp_sub_idiom_window (a b : Int32) (c d : Int64) (h : -2147483648 ≤ a.toInt - b.toInt ∧ a.toInt - b.toInt ≤ 2147483647)
    (h' : -2147483648 ≤ c.toInt - d.toInt ∧ c.toInt - d.toInt ≤ 2147483647) :
    Vec.CWrap.toCInt (Vec.CWrap.wsub a b) = a.toInt - b.toInt ∧ Vec.CWrap.toCInt (Vec.CWrap.wsub c d) = c.toInt - d.toInt :=
  ⟨Vec.sub_idiom_window_int a b h, Vec.sub_idiom_window_int64 c d h'⟩
theorem cmp_sub_idiom_wrong :
    (∃ a b : Int32, a < b ∧ 0 < Vec.CWrap.toCInt (Vec.CWrap.wsub a b)) ∧ (∃ a b : Int64, a < b ∧ Vec.CWrap.toCInt (Vec.CWrap.wsub a b) = 0) :=
  ⟨Vec.sub_idiom_wrong_int, Vec.sub_idiom_wrong_int64⟩
example : -2147483648 ≤ (5 : Int32).toInt - (7 : Int32).toInt ∧ (5 : Int32).toInt - (7 : Int32).toInt ≤ 2147483647 := by decide

/-- `esl_vec_{I,L,D,F}Sort{Increasing,Decreasing}`: an ordered permutation, for every vector (`ℝ` for the floating routines) -/
theorem gen_ISortIncreasing (v : Array Int32) :
    ∃ w, esl_vec_ISortIncreasing v v.size = some w ∧ w.toList.Perm v.toList ∧ w.toList.Pairwise (· ≤ ·) := Vec.gen_sortIncreasing v
theorem gen_ISortDecreasing (v : Array Int32) :
    ∃ w, esl_vec_ISortDecreasing v v.size = some w ∧ w.toList.Perm v.toList ∧ w.toList.Pairwise (· ≥ ·) := Vec.gen_sortDecreasing v
theorem gen_LSortIncreasing (v : Array Int64) :
    ∃ w, esl_vec_LSortIncreasing v v.size = some w ∧ w.toList.Perm v.toList ∧ w.toList.Pairwise (· ≤ ·) := Vec.gen_sortIncreasing v
theorem gen_LSortDecreasing (v : Array Int64) :
    ∃ w, esl_vec_LSortDecreasing v v.size = some w ∧ w.toList.Perm v.toList ∧ w.toList.Pairwise (· ≥ ·) := Vec.gen_sortDecreasing v
theorem gen_DSortIncreasing (v : Array ℝ) :
    ∃ w, esl_vec_DSortIncreasing v v.size = some w ∧ w.toList.Perm v.toList ∧ w.toList.Pairwise (· ≤ ·) := Vec.gen_sortIncreasing v
theorem gen_DSortDecreasing (v : Array ℝ) :
    ∃ w, esl_vec_DSortDecreasing v v.size = some w ∧ w.toList.Perm v.toList ∧ w.toList.Pairwise (· ≥ ·) := Vec.gen_sortDecreasing v
theorem gen_FSortIncreasing (v : Array ℝ) :
    ∃ w, esl_vec_FSortIncreasing v v.size = some w ∧ w.toList.Perm v.toList ∧ w.toList.Pairwise (· ≤ ·) := Vec.gen_sortIncreasing v
theorem gen_FSortDecreasing (v : Array ℝ) :
    ∃ w, esl_vec_FSortDecreasing v v.size = some w ∧ w.toList.Perm v.toList ∧ w.toList.Pairwise (· ≥ ·) := Vec.gen_sortDecreasing v
example : (2147483647 : Int32) ≥ (-2147483648 : Int32) := by decide

/-- `Max` / `Min`: for every element type the generated loop IS `vmax` / `vmin` of the list of cells (so it faults exactly on the
    empty vector); on a linear order that is a member of the vector bounding every entry -/
theorem gen_max_eq {α : Type} [CElem α] (v : Array α) :
    esl_vec_IMax v v.size = vmax v.toList ∧ esl_vec_LMax v v.size = vmax v.toList ∧ esl_vec_DMax v v.size = vmax v.toList ∧
      esl_vec_FMax v v.size = vmax v.toList := ⟨Vec.gen_max v, Vec.gen_max v, Vec.gen_max v, Vec.gen_max v⟩
theorem gen_min_eq {α : Type} [CElem α] (v : Array α) :
    esl_vec_IMin v v.size = vmin v.toList ∧ esl_vec_LMin v v.size = vmin v.toList ∧ esl_vec_DMin v v.size = vmin v.toList ∧
      esl_vec_FMin v v.size = vmin v.toList := ⟨Vec.gen_min v, Vec.gen_min v, Vec.gen_min v, Vec.gen_min v⟩
theorem gen_IMax (v : Array Int32) (h : v.size ≠ 0) : ∃ m, esl_vec_IMax v v.size = some m ∧ m ∈ v.toList ∧ ∀ x ∈ v.toList, x ≤ m :=
  Vec.gen_max_spec v h
theorem gen_IMin (v : Array Int32) (h : v.size ≠ 0) : ∃ m, esl_vec_IMin v v.size = some m ∧ m ∈ v.toList ∧ ∀ x ∈ v.toList, m ≤ x :=
  Vec.gen_min_spec v h
theorem gen_LMax (v : Array Int64) (h : v.size ≠ 0) : ∃ m, esl_vec_LMax v v.size = some m ∧ m ∈ v.toList ∧ ∀ x ∈ v.toList, x ≤ m :=
  Vec.gen_max_spec v h
theorem gen_LMin (v : Array Int64) (h : v.size ≠ 0) : ∃ m, esl_vec_LMin v v.size = some m ∧ m ∈ v.toList ∧ ∀ x ∈ v.toList, m ≤ x :=
  Vec.gen_min_spec v h
theorem gen_max_empty {α : Type} [CElem α] : esl_vec_IMax (#[] : Array α) 0 = none := Vec.gen_max #[]
example : (#[1, 2] : Array Int32).size ≠ 0 := by decide

/-- `esl_vec_{I,L}Sum` is wrap-free: if every partial sum is representable the result is the mathematical sum; otherwise the
    routine's behaviour is undefined in C (the model's `none`; UBSan aborts the C side) -/
theorem gen_ISum_exact (v : Array Int32)
    (h : ∀ k, k ≤ v.size → -2147483648 ≤ ((v.toList.take k).map Int32.toInt).sum ∧ ((v.toList.take k).map Int32.toInt).sum ≤ 2147483647) :
    ∃ r, esl_vec_ISum v v.size = some r ∧ r.toInt = (v.toList.map Int32.toInt).sum := Vec.gen_isum_exact v h
theorem gen_LSum_exact (v : Array Int64)
    (h : ∀ k, k ≤ v.size → -9223372036854775808 ≤ ((v.toList.take k).map Int64.toInt).sum ∧ ((v.toList.take k).map Int64.toInt).sum ≤ 9223372036854775807) :
    ∃ r, esl_vec_LSum v v.size = some r ∧ r.toInt = (v.toList.map Int64.toInt).sum := Vec.gen_isum_exact v h
theorem gen_ISum_overflow (v : Array Int32) (k : Nat) (hk : k ≤ v.size)
    (hbad : ¬(-2147483648 ≤ ((v.toList.take k).map Int32.toInt).sum ∧ ((v.toList.take k).map Int32.toInt).sum ≤ 2147483647)) :
    esl_vec_ISum v v.size = none := Vec.gen_isum_overflow v k hk hbad
example : esl_vec_ISum (#[2147483647, -2147483648, 2147483647] : Array Int32) 3 = some 2147483646 := by decide
example : esl_vec_ISum (#[2147483647, 1] : Array Int32) 2 = none := by decide

/-- `esl_vec_{D,F}Sum` as regenerated is the Kahan recurrence `Vec.sum` (to which `sum_eq_real` and `kahan_rounding` apply) -/
theorem gen_DSum {α : Type} [VNum α] (v : Array α) :
    esl_vec_DSum v v.size = some (Vec.sum v.toList) ∧ esl_vec_FSum v v.size = some (Vec.sum v.toList) := ⟨Vec.gen_dsum v, Vec.gen_dsum v⟩
theorem gen_DSum_real (v : Array ℝ) : esl_vec_DSum v v.size = some v.toList.sum := by rw [Vec.gen_dsum, Vec.sum_eq_real]

/-- `ArgMax` / `ArgMin`: for every element type the generated loop (which re-reads `vec[best]`) returns `argmax` / `argmin` of the list
    of cells and never faults; on `int` / `int64_t` that is the FIRST index attaining the extremum -/
theorem gen_argmax_eq {α : Type} [CElem α] (v : Array α) :
    esl_vec_IArgMax v v.size = some (argmax v.toList : Nat) ∧ esl_vec_LArgMax v v.size = some (argmax v.toList : Nat) ∧
    esl_vec_DArgMax v v.size = some (argmax v.toList : Nat) ∧ esl_vec_FArgMax v v.size = some (argmax v.toList : Nat) :=
  ⟨Vec.gen_argmax v, Vec.gen_argmax v, Vec.gen_argmax v, Vec.gen_argmax v⟩
theorem gen_argmin_eq {α : Type} [CElem α] (v : Array α) :
    esl_vec_IArgMin v v.size = some (argmin v.toList : Nat) ∧ esl_vec_LArgMin v v.size = some (argmin v.toList : Nat) ∧
    esl_vec_DArgMin v v.size = some (argmin v.toList : Nat) ∧ esl_vec_FArgMin v v.size = some (argmin v.toList : Nat) :=
  ⟨Vec.gen_argmin v, Vec.gen_argmin v, Vec.gen_argmin v, Vec.gen_argmin v⟩
theorem gen_IArgMax (v : Array Int32) (h : v.size ≠ 0) :
    ∃ (i : Nat) (m : Int32), esl_vec_IArgMax v v.size = some (i : Int) ∧ v.toList[i]? = some m ∧ (∀ x ∈ v.toList, x ≤ m) ∧
      (∀ (j : Nat) (y : Int32), j < i → v.toList[j]? = some y → y < m) := by
  obtain ⟨m, h1, h2, h3⟩ := Vec.argmax_spec v.toList (by intro e; apply h; simpa using congrArg List.length e)
  exact ⟨_, m, Vec.gen_argmax v, h1, h2, h3⟩
theorem gen_IArgMin (v : Array Int32) (h : v.size ≠ 0) :
    ∃ (i : Nat) (m : Int32), esl_vec_IArgMin v v.size = some (i : Int) ∧ v.toList[i]? = some m ∧ (∀ x ∈ v.toList, m ≤ x) ∧
      (∀ (j : Nat) (y : Int32), j < i → v.toList[j]? = some y → m < y) := by
  obtain ⟨m, h1, h2, h3⟩ := Vec.argmin_spec v.toList (by intro e; apply h; simpa using congrArg List.length e)
  exact ⟨_, m, Vec.gen_argmin v, h1, h2, h3⟩
theorem gen_LArgMax (v : Array Int64) (h : v.size ≠ 0) :
    ∃ (i : Nat) (m : Int64), esl_vec_LArgMax v v.size = some (i : Int) ∧ v.toList[i]? = some m ∧ (∀ x ∈ v.toList, x ≤ m) ∧
      (∀ (j : Nat) (y : Int64), j < i → v.toList[j]? = some y → y < m) := by
  obtain ⟨m, h1, h2, h3⟩ := Vec.argmax_spec v.toList (by intro e; apply h; simpa using congrArg List.length e)
  exact ⟨_, m, Vec.gen_argmax v, h1, h2, h3⟩
theorem gen_LArgMin (v : Array Int64) (h : v.size ≠ 0) :
    ∃ (i : Nat) (m : Int64), esl_vec_LArgMin v v.size = some (i : Int) ∧ v.toList[i]? = some m ∧ (∀ x ∈ v.toList, m ≤ x) ∧
      (∀ (j : Nat) (y : Int64), j < i → v.toList[j]? = some y → m < y) := by
  obtain ⟨m, h1, h2, h3⟩ := Vec.argmin_spec v.toList (by intro e; apply h; simpa using congrArg List.length e)
  exact ⟨_, m, Vec.gen_argmin v, h1, h2, h3⟩
example : esl_vec_IArgMax (#[-2147483648, 2147483647, 2147483647, 0] : Array Int32) 4 = some 1 := by decide
example : esl_vec_LArgMin (#[4294967296, 0, -4294967296, -4294967296] : Array Int64) 4 = some 2 := by decide

/-- `esl_vec_{I,L}Dot` is wrap-free when every product and every partial sum is representable -/
theorem gen_IDot_exact (v w : Array Int32) (hsz : v.size = w.size)
    (hp : ∀ p ∈ v.toList.zip w.toList, -2147483648 ≤ p.1.toInt * p.2.toInt ∧ p.1.toInt * p.2.toInt ≤ 2147483647)
    (h : ∀ k, k ≤ v.size → -2147483648 ≤ (((v.toList.zip w.toList).take k).map fun p => p.1.toInt * p.2.toInt).sum ∧
      (((v.toList.zip w.toList).take k).map fun p => p.1.toInt * p.2.toInt).sum ≤ 2147483647) :
    ∃ r, esl_vec_IDot v w v.size = some r ∧ r.toInt = ((v.toList.zip w.toList).map fun p => p.1.toInt * p.2.toInt).sum :=
  Vec.gen_idot_exact v w hsz hp h
theorem gen_LDot_exact (v w : Array Int64) (hsz : v.size = w.size)
    (hp : ∀ p ∈ v.toList.zip w.toList, -9223372036854775808 ≤ p.1.toInt * p.2.toInt ∧ p.1.toInt * p.2.toInt ≤ 9223372036854775807)
    (h : ∀ k, k ≤ v.size → -9223372036854775808 ≤ (((v.toList.zip w.toList).take k).map fun p => p.1.toInt * p.2.toInt).sum ∧
      (((v.toList.zip w.toList).take k).map fun p => p.1.toInt * p.2.toInt).sum ≤ 9223372036854775807) :
    ∃ r, esl_vec_LDot v w v.size = some r ∧ r.toInt = ((v.toList.zip w.toList).map fun p => p.1.toInt * p.2.toInt).sum :=
  Vec.gen_idot_exact v w hsz hp h
example : esl_vec_IDot (#[65536, 65536] : Array Int32) (#[32767, -32767] : Array Int32) 2 = some 0 := by decide
example : esl_vec_IDot (#[65536] : Array Int32) (#[32768] : Array Int32) 1 = none := by decide
/-- `esl_vec_{D,F}Dot` as regenerated is `Vec.dot` (to which `dot_eq_real` and `dot_rounding` apply) -/
theorem gen_DDot {α : Type} [VNum α] (v w : Array α) (h : v.size = w.size) :
    esl_vec_DDot v w v.size = some (dot v.toList w.toList) ∧ esl_vec_FDot v w v.size = some (dot v.toList w.toList) :=
  ⟨Vec.gen_ddot v w h, Vec.gen_ddot v w h⟩

/-- `Reverse` into separate storage and in place (`rev == vec`): the reversed vector, never a fault; reversing twice is the identity.
    The same C text for `double`, `float`, `int`, `int64_t`, `char`. -/
theorem gen_Reverse {α : Type} [CElem α] (v rev : Array α) (hr : rev.size = v.size) :
    (∃ r, esl_vec_IReverse v rev v.size = some r ∧ r.toList = v.toList.reverse) ∧
    (∃ r, esl_vec_LReverse v rev v.size = some r ∧ r.toList = v.toList.reverse) ∧
    (∃ r, esl_vec_DReverse v rev v.size = some r ∧ r.toList = v.toList.reverse) ∧
    (∃ r, esl_vec_FReverse v rev v.size = some r ∧ r.toList = v.toList.reverse) ∧
    (∃ r, esl_vec_CReverse v rev v.size = some r ∧ r.toList = v.toList.reverse) :=
  ⟨Vec.gen_reverse v rev hr, Vec.gen_reverse v rev hr, Vec.gen_reverse v rev hr, Vec.gen_reverse v rev hr, Vec.gen_reverse v rev hr⟩
theorem gen_Reverse_inplace {α : Type} [CElem α] (v : Array α) :
    (∃ r, esl_vec_IReverse_inplace v v.size = some r ∧ r.toList = v.toList.reverse) ∧
    (∃ r, esl_vec_LReverse_inplace v v.size = some r ∧ r.toList = v.toList.reverse) ∧
    (∃ r, esl_vec_DReverse_inplace v v.size = some r ∧ r.toList = v.toList.reverse) ∧
    (∃ r, esl_vec_FReverse_inplace v v.size = some r ∧ r.toList = v.toList.reverse) ∧
    (∃ r, esl_vec_CReverse_inplace v v.size = some r ∧ r.toList = v.toList.reverse) :=
  ⟨Vec.gen_reverse_inplace v, Vec.gen_reverse_inplace v, Vec.gen_reverse_inplace v, Vec.gen_reverse_inplace v, Vec.gen_reverse_inplace v⟩
theorem gen_Reverse_involution {α : Type} [CElem α] (v : Array α) :
    ∃ r, esl_vec_IReverse_inplace v v.size = some r ∧ r.size = v.size ∧ esl_vec_IReverse_inplace r r.size = some v :=
  Vec.gen_reverse_involution v

/-- element-wise routines as regenerated = the list functions of the hand model (`Set`, `Copy`: any element type; the arithmetic ones:
    any floating type, in particular ℝ) -/
theorem gen_Set {α : Type} [CElem α] (v : Array α) (c : α) :
    (∃ r, esl_vec_ISet v v.size c = some r ∧ r.toList = v.toList.map fun _ => c) ∧ (∃ r, esl_vec_LSet v v.size c = some r ∧ r.toList = v.toList.map fun _ => c) ∧
    (∃ r, esl_vec_DSet v v.size c = some r ∧ r.toList = v.toList.map fun _ => c) ∧ (∃ r, esl_vec_FSet v v.size c = some r ∧ r.toList = v.toList.map fun _ => c) :=
  ⟨Vec.gen_set v c, Vec.gen_set v c, Vec.gen_set v c, Vec.gen_set v c⟩
theorem gen_Copy {α : Type} [CElem α] (src dest : Array α) (hd : dest.size = src.size) :
    (∃ r, esl_vec_ICopy src src.size dest = some r ∧ r.toList = src.toList) ∧ (∃ r, esl_vec_LCopy src src.size dest = some r ∧ r.toList = src.toList) ∧
    (∃ r, esl_vec_DCopy src src.size dest = some r ∧ r.toList = src.toList) ∧ (∃ r, esl_vec_FCopy src src.size dest = some r ∧ r.toList = src.toList) ∧
    (∃ r, esl_vec_WCopy src src.size dest = some r ∧ r.toList = src.toList) ∧ (∃ r, esl_vec_BCopy src src.size dest = some r ∧ r.toList = src.toList) :=
  ⟨Vec.gen_copy src dest hd, Vec.gen_copy src dest hd, Vec.gen_copy src dest hd, Vec.gen_copy src dest hd, Vec.gen_copy src dest hd, Vec.gen_copy src dest hd⟩
theorem gen_Scale {α : Type} [VNum α] (v : Array α) (s : α) :
    (∃ r, esl_vec_DScale v v.size s = some r ∧ r.toList = scale v.toList s) ∧ (∃ r, esl_vec_FScale v v.size s = some r ∧ r.toList = scale v.toList s) :=
  ⟨Vec.gen_scale v s, Vec.gen_scale v s⟩
theorem gen_Increment {α : Type} [VNum α] (v : Array α) (x : α) :
    (∃ r, esl_vec_DIncrement v v.size x = some r ∧ r.toList = increment v.toList x) ∧
    (∃ r, esl_vec_FIncrement v v.size x = some r ∧ r.toList = increment v.toList x) := ⟨Vec.gen_increment v x, Vec.gen_increment v x⟩
theorem gen_Add {α : Type} [VNum α] (v w : Array α) (hw : w.size = v.size) :
    (∃ r, esl_vec_DAdd v w v.size = some r ∧ r.toList = add v.toList w.toList) ∧ (∃ r, esl_vec_FAdd v w v.size = some r ∧ r.toList = add v.toList w.toList) :=
  ⟨Vec.gen_add v w hw, Vec.gen_add v w hw⟩
theorem gen_AddScaled {α : Type} [VNum α] (v w : Array α) (c : α) (hw : w.size = v.size) :
    (∃ r, esl_vec_DAddScaled v w c v.size = some r ∧ r.toList = addScaled v.toList w.toList c) ∧
    (∃ r, esl_vec_FAddScaled v w c v.size = some r ∧ r.toList = addScaled v.toList w.toList c) := ⟨Vec.gen_addScaled v w c hw, Vec.gen_addScaled v w c hw⟩
example : (#[1, 2] : Array Int32).size = (#[5, 6] : Array Int32).size := rfl

/-- esl_matrixops.c: `esl_mat_{D,F,I}{Set,Scale,Copy,Max}` and `esl_mat_{W,B}Copy` are the vector routines on the flat `M*N` block `A[0]` -/
theorem gen_mat_flat {α : Type} [CElem α] (A B : Array α) (M N : Int) (c : α) :
    esl_mat_ISet A M N c = esl_vec_ISet A (M * N) c ∧ esl_mat_IScale A M N c = esl_vec_IScale A (M * N) c ∧
    esl_mat_ICopy A M N B = esl_vec_ICopy A (M * N) B ∧ esl_mat_IMax A M N = esl_vec_IMax A (M * N) ∧
    esl_mat_DSet A M N c = esl_vec_DSet A (M * N) c ∧ esl_mat_DScale A M N c = esl_vec_DScale A (M * N) c ∧
    esl_mat_DCopy A M N B = esl_vec_DCopy A (M * N) B ∧ esl_mat_DMax A M N = esl_vec_DMax A (M * N) ∧
    esl_mat_FSet A M N c = esl_vec_FSet A (M * N) c ∧ esl_mat_FScale A M N c = esl_vec_FScale A (M * N) c ∧
    esl_mat_FCopy A M N B = esl_vec_FCopy A (M * N) B ∧ esl_mat_FMax A M N = esl_vec_FMax A (M * N) ∧
    esl_mat_WCopy A M N B = esl_vec_WCopy A (M * N) B ∧ esl_mat_BCopy A M N B = esl_vec_BCopy A (M * N) B := Vec.gen_mat_flat A B M N c

/-- `esl_vec_{I,L}Compare`: `eslOK` (0) exactly when the two vectors are equal, `eslFAIL` (1) otherwise; full 32 / 64-bit equality of
    every cell (a difference only in the sign bit or only above bit 31 is a difference), never a fault -/
theorem gen_ICompare (v w : Array Int32) (h : v.size = w.size) :
    (v = w → esl_vec_ICompare v w v.size = some 0) ∧ (v ≠ w → esl_vec_ICompare v w v.size = some 1) :=
  Vec.gen_icompare (fun a b => by simp [CElem.eq]) v w h
theorem gen_LCompare (v w : Array Int64) (h : v.size = w.size) :
    (v = w → esl_vec_LCompare v w v.size = some 0) ∧ (v ≠ w → esl_vec_LCompare v w v.size = some 1) :=
  Vec.gen_icompare (fun a b => by simp [CElem.eq]) v w h
example : esl_vec_LCompare (#[0, 4294967296] : Array Int64) (#[0, 0] : Array Int64) 2 = some 1 := by decide
example : esl_vec_ICompare (#[-2147483648] : Array Int32) (#[0] : Array Int32) 1 = some 1 := by decide

/-- `esl_vec_{D,F}Compare` as regenerated is the element-wise test `vcompare` built on the model of `esl_{D,F}Compare_old` (easel.c),
    for any floating type; never a fault -/
theorem gen_DCompare {α : Type} [VCmp α] (v w : Array α) (h : v.size = w.size) (tol : α) :
    esl_vec_DCompare v w v.size tol = some (if vcompare v.toList w.toList tol then 0 else 1) ∧
    esl_vec_FCompare v w v.size tol = some (if vcompare v.toList w.toList tol then 0 else 1) := ⟨Vec.gen_dcompare v w h tol, Vec.gen_dcompare v w h tol⟩
/-- … and over the reals: `eslOK` iff every cognate pair is equal, or one is 0 and the other within `tol`, or the relative difference
    `2|a-b|/|a+b|` is at most `tol` (`closeR`); reflexive; symmetric; `tol = 0` is exact equality -/
theorem gen_DCompare_real (v w : Array ℝ) (h : v.size = w.size) (tol : ℝ) :
    esl_vec_DCompare v w v.size tol = some 0 ↔ ∀ p ∈ v.toList.zip w.toList, Vec.closeR p.1 p.2 tol := by
  rw [Vec.gen_dcompare v w h tol, ← Vec.vcompare_real]
  cases vcompare v.toList w.toList tol <;> simp
theorem compare_real_refl (v : Array ℝ) (tol : ℝ) : esl_vec_DCompare v v v.size tol = some 0 := by
  rw [Vec.gen_dcompare v v rfl tol, Vec.vcompare_self]; rfl
theorem compare_real_symm (a b tol : ℝ) : Vec.closeR a b tol → Vec.closeR b a tol := Vec.closeR_symm a b tol
theorem compare_real_tol_zero (a b : ℝ) : Vec.closeR a b 0 ↔ a = b := Vec.closeR_zero a b
/-- behaviour of the scalar test that its documentation does not spell out (kept visible): two infinities compare equal whatever
    their signs, two NaNs compare equal -/
theorem compareOld_inf_nan {α : Type} [VCmp α] (a b tol : α) :
    (VCmp.isInf a = true → VCmp.isInf b = true → compareOld a b tol = true) ∧
    (VCmp.isInf a = false → VCmp.isNaN a = true → VCmp.isNaN b = true → compareOld a b tol = true) := by
  constructor
  · intro ha hb; simp [compareOld, ha, hb]
  · intro h0 ha hb; simp [compareOld, h0, ha, hb]
example : (#[1, 2] : Array ℝ).size = (#[1, 2] : Array ℝ).size := rfl

/-- `Swap`: the two vectors are exchanged, never a fault (the same C text for the four element types) -/
theorem gen_Swap {α : Type} [CElem α] (v w : Array α) (h : w.size = v.size) :
    (∃ r, esl_vec_ISwap v w v.size = some r ∧ r.1 = w ∧ r.2 = v) ∧ (∃ r, esl_vec_LSwap v w v.size = some r ∧ r.1 = w ∧ r.2 = v) ∧
    (∃ r, esl_vec_DSwap v w v.size = some r ∧ r.1 = w ∧ r.2 = v) ∧ (∃ r, esl_vec_FSwap v w v.size = some r ∧ r.1 = w ∧ r.2 = v) :=
  ⟨Vec.gen_swap v w h, Vec.gen_swap v w h, Vec.gen_swap v w h, Vec.gen_swap v w h⟩

/-- the integer element-wise routines are exact over ℤ as long as every result (and, for `AddScaled`, every product) is representable;
    otherwise the C behaviour is undefined (signed overflow; the model's `none`, UBSan abort) -/
theorem gen_IScale_exact (v : Array Int32) (s : Int32) (h : ∀ x ∈ v.toList, -2147483648 ≤ x.toInt * s.toInt ∧ x.toInt * s.toInt ≤ 2147483647) :
    ∃ r, esl_vec_IScale v v.size s = some r ∧ r.toList.map Int32.toInt = v.toList.map fun x => x.toInt * s.toInt := Vec.gen_iscale_exact v s h
theorem gen_LScale_exact (v : Array Int64) (s : Int64)
    (h : ∀ x ∈ v.toList, -9223372036854775808 ≤ x.toInt * s.toInt ∧ x.toInt * s.toInt ≤ 9223372036854775807) :
    ∃ r, esl_vec_LScale v v.size s = some r ∧ r.toList.map Int64.toInt = v.toList.map fun x => x.toInt * s.toInt := Vec.gen_iscale_exact v s h
theorem gen_IIncrement_exact (v : Array Int32) (x : Int32) (h : ∀ y ∈ v.toList, -2147483648 ≤ y.toInt + x.toInt ∧ y.toInt + x.toInt ≤ 2147483647) :
    ∃ r, esl_vec_IIncrement v v.size x = some r ∧ r.toList.map Int32.toInt = v.toList.map fun y => y.toInt + x.toInt := Vec.gen_iincrement_exact v x h
theorem gen_LIncrement_exact (v : Array Int64) (x : Int64)
    (h : ∀ y ∈ v.toList, -9223372036854775808 ≤ y.toInt + x.toInt ∧ y.toInt + x.toInt ≤ 9223372036854775807) :
    ∃ r, esl_vec_LIncrement v v.size x = some r ∧ r.toList.map Int64.toInt = v.toList.map fun y => y.toInt + x.toInt := Vec.gen_iincrement_exact v x h
theorem gen_IAdd_exact (v w : Array Int32) (hw : w.size = v.size)
    (h : ∀ p ∈ v.toList.zip w.toList, -2147483648 ≤ p.1.toInt + p.2.toInt ∧ p.1.toInt + p.2.toInt ≤ 2147483647) :
    ∃ r, esl_vec_IAdd v w v.size = some r ∧ r.toList.map Int32.toInt = List.zipWith (fun x y => x.toInt + y.toInt) v.toList w.toList :=
  Vec.gen_iadd_exact v w hw h
theorem gen_LAdd_exact (v w : Array Int64) (hw : w.size = v.size)
    (h : ∀ p ∈ v.toList.zip w.toList, -9223372036854775808 ≤ p.1.toInt + p.2.toInt ∧ p.1.toInt + p.2.toInt ≤ 9223372036854775807) :
    ∃ r, esl_vec_LAdd v w v.size = some r ∧ r.toList.map Int64.toInt = List.zipWith (fun x y => x.toInt + y.toInt) v.toList w.toList :=
  Vec.gen_iadd_exact v w hw h
theorem gen_IAddScaled_exact (v w : Array Int32) (c : Int32) (hw : w.size = v.size)
    (hm : ∀ y ∈ w.toList, -2147483648 ≤ y.toInt * c.toInt ∧ y.toInt * c.toInt ≤ 2147483647)
    (h : ∀ p ∈ v.toList.zip w.toList, -2147483648 ≤ p.1.toInt + p.2.toInt * c.toInt ∧ p.1.toInt + p.2.toInt * c.toInt ≤ 2147483647) :
    ∃ r, esl_vec_IAddScaled v w c v.size = some r ∧
      r.toList.map Int32.toInt = List.zipWith (fun x y => x.toInt + y.toInt * c.toInt) v.toList w.toList := Vec.gen_iaddScaled_exact v w c hw hm h
theorem gen_LAddScaled_exact (v w : Array Int64) (c : Int64) (hw : w.size = v.size)
    (hm : ∀ y ∈ w.toList, -9223372036854775808 ≤ y.toInt * c.toInt ∧ y.toInt * c.toInt ≤ 9223372036854775807)
    (h : ∀ p ∈ v.toList.zip w.toList, -9223372036854775808 ≤ p.1.toInt + p.2.toInt * c.toInt ∧ p.1.toInt + p.2.toInt * c.toInt ≤ 9223372036854775807) :
    ∃ r, esl_vec_LAddScaled v w c v.size = some r ∧
      r.toList.map Int64.toInt = List.zipWith (fun x y => x.toInt + y.toInt * c.toInt) v.toList w.toList := Vec.gen_iaddScaled_exact v w c hw hm h
example : esl_vec_IScale (#[1073741823, -1073741824] : Array Int32) 2 2 = some #[2147483646, -2147483648] := by decide
example : esl_vec_IScale (#[1073741824] : Array Int32) 1 2 = none := by decide
example : esl_vec_IAddScaled (#[2147483647, -2147483648] : Array Int32) (#[1, -1] : Array Int32) (-1) 2 = some #[2147483646, -2147483647] := by decide
example : esl_vec_IIncrement (#[2147483647] : Array Int32) 1 1 = none := by decide

/-- esl_matrixops.c: `esl_mat_{D,F,I}Compare` are the vector comparisons on the flat `M*N` block -/
theorem gen_mat_Compare_flat {α : Type} [VCmp α] (A B : Array α) (M N : Int) (tol : α) :
    esl_mat_DCompare A B M N tol = esl_vec_DCompare A B (M * N) tol ∧ esl_mat_FCompare A B M N tol = esl_vec_FCompare A B (M * N) tol ∧
    esl_mat_ICompare A B M N = esl_vec_ICompare A B (M * N) :=
  ⟨(Vec.gen_mat_compare_flat A B M N tol).1, (Vec.gen_mat_compare_flat A B M N tol).2, Vec.gen_mat_icompare_flat A B M N⟩

/-! ### the probability / log-space routines over `double`, as REGENERATED from esl_vectorops.c on every run -/
/-- for every element type with the floating-point operations: the regenerated `esl_vec_D{Exp,Exp2,Log,Log2,Entropy,Norm,LogSum,Log2Sum,
    LogNorm,Log2Norm}` compute the functions of the hand model (to which the real-number theorems of parts B and C apply).  `hu`, `hw`
    spell the two places where the hand model uses a class operation for a C sub-expression: `1. / (double) n` and `x > max - 500.` -/
theorem gen_DExpLog {α : Type} [VInf α] (v : Array α) :
    (∃ r, esl_vec_DExp v v.size = some r ∧ r.toList = vexp v.toList) ∧ (∃ r, esl_vec_DExp2 v v.size = some r ∧ r.toList = vexp2 v.toList) ∧
    (∃ r, esl_vec_DLog v v.size = some r ∧ r.toList = vlog v.toList) ∧ (∃ r, esl_vec_DLog2 v v.size = some r ∧ r.toList = vlog2 v.toList) :=
  ⟨Vec.gen_DExp v, Vec.gen_DExp2 v, Vec.gen_DLog v, Vec.gen_DLog2 v⟩
theorem gen_DEntropy {α : Type} [VNum α] (v : Array α) : esl_vec_DEntropy v v.size = some (entropy v.toList) := Vec.gen_DEntropy v
theorem gen_DNorm {α : Type} [VNum α] (hu : ∀ n : Nat, (VNum.uniform n : α) = VNum.ofNat 1 / VNum.ofNat n) (v : Array α) :
    ∃ r, esl_vec_DNorm v v.size = some r ∧ r.toList = norm v.toList := Vec.gen_DNorm hu v
theorem gen_DLogSum {α : Type} [VInf α] (hw : ∀ m x : α, VInf.inWindow m x = VOrd.lt (m - VNum.ofNat 500) x) (v : Array α) :
    esl_vec_DLogSum v v.size = logSum v.toList ∧ esl_vec_DLog2Sum v v.size = log2Sum v.toList := ⟨Vec.gen_DLogSum hw v, Vec.gen_DLog2Sum hw v⟩
theorem gen_DLogNorm {α : Type} [VInf α] (hu : ∀ n : Nat, (VNum.uniform n : α) = VNum.ofNat 1 / VNum.ofNat n)
    (hw : ∀ m x : α, VInf.inWindow m x = VOrd.lt (m - VNum.ofNat 500) x) (v : Array α) :
    (esl_vec_DLogNorm v v.size).map Array.toList = logNorm v.toList ∧ (esl_vec_DLog2Norm v v.size).map Array.toList = log2Norm v.toList :=
  ⟨Vec.gen_DLogNorm hu hw v, Vec.gen_DLog2Norm hu hw v⟩

/-- the two hypotheses hold at the real / extended-real instances -/
theorem real_uniform (n : Nat) : (VNum.uniform n : ℝ) = VNum.ofNat 1 / VNum.ofNat n := by
  show (1 : ℝ) / (n : ℝ) = ((1 : ℕ) : ℝ) / (n : ℝ); simp
section atWinD
attribute [local instance] winD
theorem xr_uniform (n : Nat) : (VNum.uniform n : XR) = VNum.ofNat 1 / VNum.ofNat n := by
  show XR.div (XR.fin 1) (XR.fin n) = XR.div (XR.fin ((1 : ℕ) : ℝ)) (XR.fin (n : ℝ)); simp
theorem xr_window (m x : XR) : VInf.inWindow m x = VOrd.lt (m - VNum.ofNat 500) x := by
  show XR.lt (XR.sub m (XR.fin 500)) x = XR.lt (XR.sub m (XR.fin ((500 : ℕ) : ℝ))) x; simp

/-- the regenerated code meets the real-number specifications: `DNorm` sums to 1, `DEntropy` is `-Σ p log2 p`, `DLogSum` is `log Σ exp`
    within `n e^-500` with `-inf` entries, `DLogNorm` is the softmax -/
theorem gen_DNorm_real (v : Array ℝ) (h : v.toList.sum ≠ 0) :
    ∃ r, esl_vec_DNorm v v.size = some r ∧ r.toList = v.toList.map (· / v.toList.sum) ∧ r.toList.sum = 1 := by
  obtain ⟨r, hr, hl⟩ := Vec.gen_DNorm real_uniform v
  have := Vec.norm_of_sum_ne_zero v.toList h
  exact ⟨r, hr, by rw [hl, this.1], by rw [hl]; exact this.2⟩
theorem gen_DEntropy_real (v : Array ℝ) :
    esl_vec_DEntropy v v.size = some ((v.toList.map fun x => if 0 < x then -(x * Real.logb 2 x) else 0).sum) := by
  rw [Vec.gen_DEntropy, Vec.entropy_eq]
theorem gen_DLogSum_spec (v : Array XR) (hv : ∀ x ∈ v.toList, x.isLogP) (hfin : finites v.toList ≠ []) :
    ∃ r : ℝ, esl_vec_DLogSum v v.size = some (XR.fin r) ∧
      |r - Real.log ((finites v.toList).map Real.exp).sum| ≤ v.toList.length * Real.exp (-500) := by
  rw [Vec.gen_DLogSum xr_window v]; exact Vec.logSum_spec v.toList hv hfin
theorem gen_DLog2Sum_spec (v : Array XR) (hv : ∀ x ∈ v.toList, x.isLogP) (hfin : finites v.toList ≠ []) :
    ∃ r : ℝ, esl_vec_DLog2Sum v v.size = some (XR.fin r) ∧
      |r - Real.logb 2 ((finites v.toList).map fun a => (2 : ℝ) ^ a).sum| ≤ v.toList.length * (2 : ℝ) ^ (-500 : ℝ) / Real.log 2 := by
  rw [Vec.gen_DLog2Sum xr_window v]; exact Vec.log2Sum_spec v.toList hv hfin
/-- all entries `-inf` (and the vector non-empty): the regenerated `DLogSum` returns `-inf`, no NaN from `inf - inf` -/
theorem gen_DLogSum_all_ninf (v : Array XR) (hne : v.toList ≠ []) (hv : ∀ x ∈ v.toList, x = XR.ninf) : esl_vec_DLogSum v v.size = some XR.ninf := by
  rw [Vec.gen_DLogSum xr_window v]; exact Vec.logSum_all_ninf v.toList hne hv
theorem gen_DLogNorm_spec (v : Array XR) (hv : ∀ x ∈ v.toList, x.isLogP) (hfin : finites v.toList ≠ []) :
    (esl_vec_DLogNorm v v.size).map Array.toList = some ((softmax v.toList).map XR.fin) ∧ (softmax v.toList).sum = 1 := by
  rw [Vec.gen_DLogNorm xr_uniform xr_window v]; exact Vec.logNorm_spec v.toList hv hfin
end atWinD
example : (#[1, 2, 3] : Array ℝ).toList.sum ≠ 0 := by norm_num

/-- `esl_vec_{D,F}CDF` as regenerated, over ℝ: output cell `k` is the sum of the first `k+1` inputs — into separate storage and in
    place (`cdf == p`); `n = 0` is outside the routine's domain (it reads `p[0]`: the model faults, as ASan would) -/
theorem gen_DCDF_real (p c : Array ℝ) (hc : c.size = p.size) (h : p.size ≠ 0) :
    (∃ r, esl_vec_DCDF p p.size c = some r ∧ r.size = p.size ∧ ∀ k, k < p.size → r[k]? = some ((p.toList.take (k + 1)).sum)) ∧
    (∃ r, esl_vec_FCDF p p.size c = some r ∧ r.size = p.size ∧ ∀ k, k < p.size → r[k]? = some ((p.toList.take (k + 1)).sum)) :=
  ⟨Vec.gen_dcdf_real p c hc h, Vec.gen_dcdf_real p c hc h⟩
theorem gen_DCDF_inplace_real (p : Array ℝ) (h : p.size ≠ 0) :
    (∃ r, esl_vec_DCDF_inplace p p.size = some r ∧ r.size = p.size ∧ ∀ k, k < p.size → r[k]? = some ((p.toList.take (k + 1)).sum)) ∧
    (∃ r, esl_vec_FCDF_inplace p p.size = some r ∧ r.size = p.size ∧ ∀ k, k < p.size → r[k]? = some ((p.toList.take (k + 1)).sum)) :=
  ⟨Vec.gen_dcdf_inplace_real p h, Vec.gen_dcdf_inplace_real p h⟩
theorem gen_DCDF_empty (c : Array ℝ) : esl_vec_DCDF (#[] : Array ℝ) 0 c = none := rfl
example : (#[0.5, 0.5] : Array ℝ).size ≠ 0 := by decide

/-! ### esl_matrixops.c: what each arithmetic / comparing routine returns on an `M × N` matrix (flat block of `M*N` cells) -/
/-- `esl_mat_{D,F}Scale` multiply every cell by the scalar; `esl_mat_{D,F}Max` return the maximum cell (fault on an empty block, as the
    vector routine); `esl_mat_{D,F}Set` store the value in every cell — never a fault when the block has `M*N` cells -/
theorem gen_mat_spec {α : Type} [VNum α] (A : Array α) (M N : Int) (h : (A.size : Int) = M * N) (s : α) :
    (∃ r, esl_mat_DScale A M N s = some r ∧ r.toList = scale A.toList s) ∧ (∃ r, esl_mat_FScale A M N s = some r ∧ r.toList = scale A.toList s) ∧
    esl_mat_DMax A M N = vmax A.toList ∧ esl_mat_FMax A M N = vmax A.toList ∧
    (∃ r, esl_mat_DSet A M N s = some r ∧ r.toList = A.toList.map fun _ => s) ∧ (∃ r, esl_mat_FSet A M N s = some r ∧ r.toList = A.toList.map fun _ => s) := by
  obtain ⟨_, _, _, _, dSet, dScale, _, dMax, fSet, fScale, _, fMax, _, _⟩ := Vec.gen_mat_flat A A M N s
  refine ⟨?_, ?_, ?_, ?_, ?_, ?_⟩
  · rw [dScale, ← h]; exact (gen_Scale A s).1
  · rw [fScale, ← h]; exact (gen_Scale A s).2
  · rw [dMax, ← h, Vec.max_DI]; exact Vec.gen_max A
  · rw [fMax, ← h, Vec.max_FI]; exact Vec.gen_max A
  · rw [dSet, ← h]; exact (gen_Set A s).2.2.1
  · rw [fSet, ← h]; exact (gen_Set A s).2.2.2
/-- `esl_mat_IScale` is exact over ℤ while every product is representable; `esl_mat_IMax` is the maximum; `esl_mat_ICompare` answers
    `eslOK` (0) exactly for equal matrices and `eslFAIL` (1) otherwise -/
theorem gen_mat_int_spec (A B : Array Int32) (M N : Int) (h : (A.size : Int) = M * N) (hB : A.size = B.size) (s : Int32)
    (hs : ∀ x ∈ A.toList, -2147483648 ≤ x.toInt * s.toInt ∧ x.toInt * s.toInt ≤ 2147483647) :
    (∃ r, esl_mat_IScale A M N s = some r ∧ r.toList.map Int32.toInt = A.toList.map fun x => x.toInt * s.toInt) ∧
    esl_mat_IMax A M N = vmax A.toList ∧
    (A = B → esl_mat_ICompare A B M N = some 0) ∧ (A ≠ B → esl_mat_ICompare A B M N = some 1) := by
  obtain ⟨_, iScale, _, iMax, _⟩ := Vec.gen_mat_flat A A M N s
  refine ⟨?_, ?_, ?_, ?_⟩
  · rw [iScale, ← h]; exact gen_IScale_exact A s hs
  · rw [iMax, ← h]; exact Vec.gen_max A
  · intro e; rw [Vec.gen_mat_icompare_flat A B M N, ← h]; exact (gen_ICompare A B hB).1 e
  · intro e; rw [Vec.gen_mat_icompare_flat A B M N, ← h]; exact (gen_ICompare A B hB).2 e
example : ((#[1, 2, 3, 4, 5, 6] : Array Int32).size : Int) = 2 * 3 := by decide

/-! ### the probability / log-space routines over `float`, as REGENERATED from esl_vectorops.c on every run

The translation keeps the C text's two precisions apart: binary32 cells `α`, and the sub-expressions C's usual arithmetic conversions evaluate
in `double` (`sum != 0.0`, `1. / (float) n`, `vec[i] > 0.`, `vec[i] > max - 50.`, `-1.*denom`) at a second type `ω` (`VMix.widen` exact,
`VMix.narrow` = the one rounding).  The driver runs exactly these definitions at `VMix Float32 Float` against the C functions, bit for bit.
The theorems read them over exact arithmetic, where the two types coincide and both conversions are the identity (`VMix.same`). -/
section genF
attribute [local instance] VMix.same
/-- where the `float` routine's C text is the `double` routine's (up to the libm suffix and a promoted comparison), the two regenerated
    definitions are the same function: `FExp`, `FExp2`, `FLog`, `FLog2`, and — dividing each cell by the Kahan sum, `1/n` cells when the
    sum is zero — `FNorm`; `FEntropy` -/
theorem gen_F_eq_D {α : Type} [VInf α] (v : Array α) (n : Int) :
    esl_vec_FExp v n = esl_vec_DExp v n ∧ esl_vec_FExp2 v n = esl_vec_DExp2 v n ∧ esl_vec_FLog v n = esl_vec_DLog v n ∧
    esl_vec_FLog2 v n = esl_vec_DLog2 v n ∧ esl_vec_FNorm v n = esl_vec_DNorm v n ∧ esl_vec_FEntropy v n = esl_vec_DEntropy v n :=
  ⟨rfl, rfl, rfl, rfl, rfl, rfl⟩
/-- the regenerated `esl_vec_FNorm` performs the DIVISION `vec[i] / sum` on every cell (sum ≠ 0), resp. stores `1/n` (sum = 0) -/
theorem gen_FNorm {α : Type} [VNum α] (hu : ∀ n : Nat, (VNum.uniform n : α) = VNum.ofNat 1 / VNum.ofNat n) (v : Array α) :
    ∃ r, esl_vec_FNorm v v.size = some r ∧ r.toList = norm v.toList ∧
      (VNum.eq (Vec.sum v.toList) (VNum.ofNat 0 : α) = false → r.toList = v.toList.map (· / Vec.sum v.toList)) := by
  obtain ⟨r, hr, hl⟩ := Vec.gen_DNorm hu v
  refine ⟨r, by rw [Vec.norm_FD]; exact hr, hl, fun hz => ?_⟩
  rw [hl]; simp [Vec.norm, hz]
/-- … and so does `esl_vec_DNorm` -/
theorem gen_DNorm_divides {α : Type} [VNum α] (hu : ∀ n : Nat, (VNum.uniform n : α) = VNum.ofNat 1 / VNum.ofNat n) (v : Array α)
    (hz : VNum.eq (Vec.sum v.toList) (VNum.ofNat 0 : α) = false) :
    ∃ r, esl_vec_DNorm v v.size = some r ∧ r.toList = v.toList.map (· / Vec.sum v.toList) := by
  obtain ⟨r, hr, hl⟩ := Vec.gen_DNorm hu v
  exact ⟨r, hr, by rw [hl]; simp [Vec.norm, hz]⟩
theorem gen_FLogSum {α : Type} [VInf α] (hw : ∀ m x : α, VInf.inWindow m x = VOrd.lt (m - VNum.ofNat 50) x) (v : Array α) :
    esl_vec_FLogSum v v.size = logSum v.toList ∧ esl_vec_FLog2Sum v v.size = log2Sum v.toList := ⟨Vec.gen_FLogSum hw v, Vec.gen_FLog2Sum hw v⟩
theorem gen_FLogNorm {α : Type} [VInf α] (hu : ∀ n : Nat, (VNum.uniform n : α) = VNum.ofNat 1 / VNum.ofNat n)
    (hw : ∀ m x : α, VInf.inWindow m x = VOrd.lt (m - VNum.ofNat 50) x) (v : Array α) :
    (esl_vec_FLogNorm v v.size).map Array.toList = logNorm v.toList ∧ (esl_vec_FLog2Norm v v.size).map Array.toList = log2Norm v.toList :=
  ⟨Vec.gen_FLogNorm hu hw v, Vec.gen_FLog2Norm hu hw v⟩

/-- over the reals: `FNorm` divides every cell by the sum and the result sums to 1; `FEntropy` is `-Σ p log2 p` -/
theorem gen_FNorm_real (v : Array ℝ) (h : v.toList.sum ≠ 0) :
    ∃ r, esl_vec_FNorm v v.size = some r ∧ r.toList = v.toList.map (· / v.toList.sum) ∧ r.toList.sum = 1 := by
  rw [Vec.norm_FD]; exact gen_DNorm_real v h
theorem gen_FEntropy_real (v : Array ℝ) :
    esl_vec_FEntropy v v.size = some ((v.toList.map fun x => if 0 < x then -(x * Real.logb 2 x) else 0).sum) := by
  rw [Vec.entropy_FD]; exact gen_DEntropy_real v
section atWinF
attribute [local instance] winF
theorem xr_uniform_F (n : Nat) : (VNum.uniform n : XR) = VNum.ofNat 1 / VNum.ofNat n := by
  show XR.div (XR.fin 1) (XR.fin n) = XR.div (XR.fin ((1 : ℕ) : ℝ)) (XR.fin (n : ℝ)); simp
theorem xr_window_F (m x : XR) : VInf.inWindow m x = VOrd.lt (m - VNum.ofNat 50) x := by
  show XR.lt (XR.sub m (XR.fin 50)) x = XR.lt (XR.sub m (XR.fin ((50 : ℕ) : ℝ))) x; simp
/-- `esl_vec_FLogSum` as regenerated is `log Σ exp` within `n e^-50` (the `float` window), `-inf` entries allowed; all `-inf` ↦ `-inf` -/
theorem gen_FLogSum_spec (v : Array XR) (hv : ∀ x ∈ v.toList, x.isLogP) (hfin : finites v.toList ≠ []) :
    ∃ r : ℝ, esl_vec_FLogSum v v.size = some (XR.fin r) ∧
      |r - Real.log ((finites v.toList).map Real.exp).sum| ≤ v.toList.length * Real.exp (-50) := by
  rw [Vec.gen_FLogSum xr_window_F v]; exact Vec.logSum_spec v.toList hv hfin
theorem gen_FLog2Sum_spec (v : Array XR) (hv : ∀ x ∈ v.toList, x.isLogP) (hfin : finites v.toList ≠ []) :
    ∃ r : ℝ, esl_vec_FLog2Sum v v.size = some (XR.fin r) ∧
      |r - Real.logb 2 ((finites v.toList).map fun a => (2 : ℝ) ^ a).sum| ≤ v.toList.length * (2 : ℝ) ^ (-50 : ℝ) / Real.log 2 := by
  rw [Vec.gen_FLog2Sum xr_window_F v]; exact Vec.log2Sum_spec v.toList hv hfin
theorem gen_FLogSum_all_ninf (v : Array XR) (hne : v.toList ≠ []) (hv : ∀ x ∈ v.toList, x = XR.ninf) : esl_vec_FLogSum v v.size = some XR.ninf := by
  rw [Vec.gen_FLogSum xr_window_F v]; exact Vec.logSum_all_ninf v.toList hne hv
/-- `esl_vec_FLogNorm` as regenerated is the softmax, which sums to 1 -/
theorem gen_FLogNorm_spec (v : Array XR) (hv : ∀ x ∈ v.toList, x.isLogP) (hfin : finites v.toList ≠ []) :
    (esl_vec_FLogNorm v v.size).map Array.toList = some ((softmax v.toList).map XR.fin) ∧ (softmax v.toList).sum = 1 := by
  rw [Vec.gen_FLogNorm xr_uniform_F xr_window_F v]; exact Vec.logNorm_spec v.toList hv hfin
end atWinF
/-- `esl_vec_{D,F}RelEntropy` as regenerated (a loop with an early `return eslINFINITY`): the hand model's `relEntropyGo` for every
    element type — `eslINFINITY` as soon as a cell with `p[i] > 0` meets `q[i] == 0`, otherwise `kl += p[i] * log2(p[i]/q[i])` over the
    cells with `p[i] > 0`; never a fault on vectors of equal length.  `hk` spells the C expression the hand model abbreviates. -/
theorem gen_RelEntropy {α : Type} [VInf α] (hk : ∀ kl x y : α, VNum.klAdd kl x y = kl + x * VNum.log2 (x / y)) (p q : Array α) (h : p.size = q.size) :
    esl_vec_DRelEntropy p q p.size = some ((relEntropyGo p.toList q.toList (VNum.ofNat 0)).getD VInf.inf) ∧
    esl_vec_FRelEntropy p q p.size = some ((relEntropyGo p.toList q.toList (VNum.ofNat 0)).getD VInf.inf) :=
  ⟨Vec.gen_DRelEntropy hk p q h, Vec.gen_FRelEntropy hk p q h⟩
/-- the reals have no infinity: read `eslINFINITY` as an arbitrary token `I` (the other operations are the real ones).  Then the
    regenerated routines return `I` exactly when some `p[i] > 0` has `q[i] = 0`, and `Σ_{p[i]>0} p[i] log2(p[i]/q[i])` otherwise. -/
noncomputable def realWithInf (I : ℝ) : VInf ℝ :=
  { (inferInstance : VNum ℝ) with
    inf := I, neg := fun x => -x, exp := Real.exp, log := Real.log, exp2 := fun x => (2 : ℝ) ^ x, inWindow := fun m x => decide (m - 500 < x) }
theorem gen_RelEntropy_real (I : ℝ) (p q : Array ℝ) (h : p.size = q.size) :
    @esl_vec_DRelEntropy ℝ _ (realWithInf I) p q p.size =
      some (if (∃ ab ∈ List.zip p.toList q.toList, 0 < ab.1 ∧ ab.2 = 0) then I else (klTerms p.toList q.toList).sum) ∧
    @esl_vec_FRelEntropy ℝ _ (realWithInf I) ℝ (VMix.same ℝ) _ p q p.size =
      some (if (∃ ab ∈ List.zip p.toList q.toList, 0 < ab.1 ∧ ab.2 = 0) then I else (klTerms p.toList q.toList).sum) := by
  have hk : ∀ kl x y : ℝ, @VNum.klAdd ℝ (realWithInf I).toVNum kl x y = kl + x * @VNum.log2 ℝ (realWithInf I).toVNum (x / y) := fun _ _ _ => rfl
  have e1 := @Vec.gen_DRelEntropy ℝ (realWithInf I) hk p q h
  have e2 := @Vec.gen_FRelEntropy ℝ (realWithInf I) hk p q h
  have sp := Vec.relEntropyGo_spec p.toList q.toList 0
  have z : (@VNum.ofNat ℝ (realWithInf I).toVNum 0) = (0 : ℝ) := by show ((0 : ℕ) : ℝ) = 0; simp
  refine ⟨e1.trans ?_, e2.trans ?_⟩
  · rw [z]; show some ((relEntropyGo p.toList q.toList 0).getD I) = _
    rw [sp]; split <;> simp
  · rw [z]; show some ((relEntropyGo p.toList q.toList 0).getD I) = _
    rw [sp]; split <;> simp
example : (#[0.5, 0.5] : Array ℝ).size = (#[0.25, 0.75] : Array ℝ).size := rfl
/-- `esl_vec_{D,F}Validate` as regenerated (the statement macros `ESL_FAIL` / `ESL_XFAIL` with their `return` / `goto ERROR` followed; the
    text written to `errbuf` is outside the model): the hand model's `validate` for every element type.  `hn`, `ho` spell the two C
    expressions the hand model abbreviates: `!isfinite(x) || x < 0.0 || x > 1.0` and `fabs(sum - 1.0) > tol`. -/
theorem gen_Validate {α : Type} [VNum α] [VFin α]
    (hn : ∀ x : α, VNum.notProb x = (!(VFin.isFinite x) || VOrd.lt x (VNum.ofNat 0) || VOrd.lt (VNum.ofNat 1) x))
    (ho : ∀ s tol : α, VNum.offOne s tol = VOrd.lt tol (VFin.abs (s - VNum.ofNat 1))) (v : Array α) (tol : α) :
    esl_vec_DValidate v v.size tol = some (if validate v.toList tol then 0 else 1) ∧
    esl_vec_FValidate v v.size tol = some (if validate v.toList tol then 0 else 1) := ⟨Vec.gen_DValidate hn ho v tol, Vec.gen_FValidate hn ho v tol⟩
/-- over the reals (every real is finite, `fabs` is the absolute value): `eslOK` (0) exactly for the empty vector and for vectors with
    every cell in `[0,1]` and `|Σ - 1| ≤ tol`; `eslFAIL` (1) otherwise; never a fault -/
noncomputable def realFin : VFin ℝ := ⟨fun _ => true, fun x => |x|⟩
theorem gen_Validate_real (v : Array ℝ) (tol : ℝ) :
    (v.toList ≠ [] → (@esl_vec_DValidate ℝ _ realFin v v.size tol = some 0 ↔ (∀ x ∈ v.toList, 0 ≤ x ∧ x ≤ 1) ∧ |v.toList.sum - 1| ≤ tol) ∧
      (@esl_vec_FValidate ℝ _ realFin ℝ (VMix.same ℝ) _ realFin v v.size tol = some 0 ↔ (∀ x ∈ v.toList, 0 ≤ x ∧ x ≤ 1) ∧ |v.toList.sum - 1| ≤ tol)) ∧
    (@esl_vec_DValidate ℝ _ realFin v v.size tol = some 0 ∨ @esl_vec_DValidate ℝ _ realFin v v.size tol = some 1) := by
  have hn : ∀ x : ℝ, VNum.notProb x = (!(@VFin.isFinite ℝ realFin x) || VOrd.lt x (VNum.ofNat 0) || VOrd.lt (VNum.ofNat 1) x) := by
    intro x; show decide (x < 0 ∨ x > 1) = (!true || decide (x < ((0 : ℕ) : ℝ)) || decide (((1 : ℕ) : ℝ) < x)); simp
  have ho : ∀ s tol : ℝ, VNum.offOne s tol = VOrd.lt tol (@VFin.abs ℝ realFin (s - VNum.ofNat 1)) := by
    intro s tol; show decide (|s - 1| > tol) = decide (tol < |s - ((1 : ℕ) : ℝ)|); simp
  have e1 := @Vec.gen_DValidate ℝ _ realFin hn ho v tol
  have e2 := @Vec.gen_FValidate ℝ _ realFin hn ho v tol
  refine ⟨fun hne => ⟨?_, ?_⟩, ?_⟩
  · rw [e1, ← Vec.validate_spec v.toList tol hne]; cases validate v.toList tol <;> simp
  · rw [e2, ← Vec.validate_spec v.toList tol hne]; cases validate v.toList tol <;> simp
  · rw [e1]; cases validate v.toList tol <;> simp
example : (#[0.5, 0.5] : Array ℝ).toList ≠ [] := by simp
/-- `esl_vec_{D,F}LogValidate`, `esl_vec_{D,F}Log2Validate` as regenerated (ESL_ALLOC of a scratch copy, Copy, Exp / Exp2, Validate, the
    status passed on through `goto ERROR`): the hand model's `logValidate` / `log2Validate` for every element type; never a fault -/
theorem gen_LogValidate {α : Type} [VInf α] [VFin α]
    (hn : ∀ x : α, VNum.notProb x = (!(VFin.isFinite x) || VOrd.lt x (VNum.ofNat 0) || VOrd.lt (VNum.ofNat 1) x))
    (ho : ∀ s tol : α, VNum.offOne s tol = VOrd.lt tol (VFin.abs (s - VNum.ofNat 1))) (v : Array α) (tol : α) :
    (esl_vec_DLogValidate v v.size tol = some (if logValidate v.toList tol then 0 else 1) ∧
     esl_vec_DLog2Validate v v.size tol = some (if log2Validate v.toList tol then 0 else 1)) ∧
    (esl_vec_FLogValidate v v.size tol = some (if logValidate v.toList tol then 0 else 1) ∧
     esl_vec_FLog2Validate v v.size tol = some (if log2Validate v.toList tol then 0 else 1)) :=
  ⟨Vec.gen_DLogValidate hn ho v tol, Vec.gen_FLogValidate hn ho v tol⟩
/-- over the reals: `esl_vec_DLogValidate` answers `eslOK` exactly when every `exp(v[i])` lies in `[0,1]` and `|Σ exp(v[i]) - 1| ≤ tol` -/
theorem gen_LogValidate_real (v : Array ℝ) (tol : ℝ) (hne : v.toList ≠ []) :
    @esl_vec_DLogValidate ℝ _ (realWithInf 0) realFin v v.size tol = some 0 ↔
      (∀ y ∈ v.toList.map Real.exp, 0 ≤ y ∧ y ≤ 1) ∧ |(v.toList.map Real.exp).sum - 1| ≤ tol := by
  have hn : ∀ x : ℝ, @VNum.notProb ℝ (realWithInf 0).toVNum x =
      (!(@VFin.isFinite ℝ realFin x) || @VOrd.lt ℝ (realWithInf 0).toVNum.toVOrd x (@VNum.ofNat ℝ (realWithInf 0).toVNum 0) ||
        @VOrd.lt ℝ (realWithInf 0).toVNum.toVOrd (@VNum.ofNat ℝ (realWithInf 0).toVNum 1) x) := by
    intro x; show decide (x < 0 ∨ x > 1) = (!true || decide (x < ((0 : ℕ) : ℝ)) || decide (((1 : ℕ) : ℝ) < x)); simp
  have ho : ∀ s tol : ℝ, @VNum.offOne ℝ (realWithInf 0).toVNum s tol =
      @VOrd.lt ℝ (realWithInf 0).toVNum.toVOrd tol (@VFin.abs ℝ realFin (s - @VNum.ofNat ℝ (realWithInf 0).toVNum 1)) := by
    intro s tol; show decide (|s - 1| > tol) = decide (tol < |s - ((1 : ℕ) : ℝ)|); simp
  have e := (@Vec.gen_DLogValidate ℝ (realWithInf 0) realFin hn ho v tol).1
  have lv : @logValidate ℝ (realWithInf 0) v.toList tol = validate (v.toList.map Real.exp) tol := by
    unfold logValidate
    have : v.toList.isEmpty = false := by rw [List.isEmpty_eq_false_iff]; exact hne
    rw [this]; rfl
  refine (show _ = _ from e) ▸ ?_
  rw [lv, ← Vec.validate_spec (v.toList.map Real.exp) tol (by simpa using hne)]
  cases validate (v.toList.map Real.exp) tol <;> simp
/-- the conversion routines as regenerated: cell by cell C's implicit conversion — `(float) d` (`VMix.narrow`, the one rounding),
    `(double) f` (`VMix.widen`, exact), `(T) i` for an `int` cell — never a fault when `dst` has room; and converting `float → double → float`
    gives the vector back whenever every binary32 value is representable in the wide type (`narrow (widen x) = x`) -/
theorem gen_D2F {α ω : Type} [CElem α] [VMix α ω] [VNum ω] (src : Array ω) (dst : Array α) (hd : dst.size = src.size) :
    ∃ r, esl_vec_D2F src src.size dst = some r ∧ r.toList = src.toList.map VMix.narrow := Vec.gen_D2F src dst hd
theorem gen_F2D {α ω : Type} [CElem α] [VMix α ω] [VNum ω] (src : Array α) (dst : Array ω) (hd : dst.size = src.size) :
    ∃ r, esl_vec_F2D src src.size dst = some r ∧ r.toList = src.toList.map VMix.widen := Vec.gen_F2D src dst hd
theorem gen_I2F {α ι : Type} [CElem α] [VInt α ι] (src : Array ι) (dst : Array α) (hd : dst.size = src.size) :
    (∃ r, esl_vec_I2F src src.size dst = some r ∧ r.toList = src.toList.map VInt.ofInt) ∧
    (∃ r, esl_vec_I2D src src.size dst = some r ∧ r.toList = src.toList.map VInt.ofInt) := Vec.gen_I2F src dst hd
theorem gen_F2D_D2F_roundtrip {α ω : Type} [CElem α] [VMix α ω] [VNum ω] (hex : ∀ x : α, VMix.narrow (VMix.widen x : ω) = x)
    (v f : Array α) (d : Array ω) (hd : d.size = v.size) (hf : f.size = v.size) :
    ∃ r, esl_vec_F2D v v.size d = some r ∧ esl_vec_D2F r r.size f = some v := by
  obtain ⟨r, hr, hl⟩ := Vec.gen_F2D v d hd
  have hs : r.size = v.size := by have := congrArg List.length hl; simpa using this
  obtain ⟨r', hr', hl'⟩ := Vec.gen_D2F r f (by omega)
  refine ⟨r, hr, ?_⟩
  rw [hr']; congr 1
  apply Array.toList_inj.mp
  rw [hl', hl, List.map_map]
  have : (VMix.narrow ∘ (VMix.widen : α → ω)) = id := by funext x; exact hex x
  rw [this, List.map_id]
example : ∀ x : ℝ, (@VMix.narrow ℝ ℝ (VMix.same ℝ) (@VMix.widen ℝ ℝ (VMix.same ℝ) x)) = x := fun _ => rfl
example : (#[1, 2, 3] : Array ℝ).toList.sum ≠ 0 := by norm_num
example : VNum.eq (Vec.sum [(1 : ℝ), 2]) (VNum.ofNat 0 : ℝ) = false := by
  rw [Vec.sum_eq_real]; show decide ((1 : ℝ) + (2 + 0) = ((0 : ℕ) : ℝ)) = false; norm_num
end genF

end generated

end EaselModel.Props.C20
