import EaselModel.Generated.Gencode
import EaselModel.Generated.Alphabets
import EaselModel.Gencode.NcbiTables
import EaselModel.Gencode.Lemmas2
import EaselModel.Gencode.OrfLemmas3
import EaselModel.Gencode.OrfDecl2
import EaselModel.Gencode.OrfOrder
import EaselModel.Gencode.TableFacts1
import EaselModel.Gencode.TableFacts2
import EaselModel.Gencode.TableFacts3
import EaselModel.Gencode.TableFacts4
import EaselModel.Gencode.Extras
import EaselModel.Gencode.ReadTotal
import EaselModel.Gencode.WriteTotal
import EaselModel.Gencode.ReadCode
import EaselModel.Gencode.ReadComplete
import EaselModel.Alphabet.Iupac
import EaselModel.Gencode.WholeLemmas
import EaselModel.Gencode.SixFrames
import EaselModel.Gencode.Numbering
import EaselModel.Gencode.HistoryLemmas
import EaselModel.Gencode.FastaLemmas
import EaselModel.Gencode.Total
import EaselModel.Gencode.Dump
/-! # C17 — property theorems (statements + glue only; lemmas live in Gencode/*.lean)

`T.tables` = every row of `esl_transl_tables[]` dumped from the code under check on this run; `Ncbi.pinned` = the
hand-pinned NCBI tables; `A.dna`, `A.amino` = the alphabets dumped from the code (C08). -/
namespace EaselModel.Props.C17
open EaselModel.Alphabet EaselModel.Gencode
-- `T.tables`, `A.dna`, `A.amino`, `codeOf`, `settings` are defined in `Gencode/Builtin.lean`.

/-! ## tables -/

/-- every built-in table, written in NCBI column order (TCAG), is one of the pinned NCBI tables under the same id, and
    every pinned table is offered (the order of the rows in the C array is immaterial): same 64 amino acids / stops, same
    64 start flags — `decide` over all 18 × 128 entries -/
theorem tables_pinned :
    (∀ t ∈ T.tables, (t.id, Ncbi.aasLine t.basic, Ncbi.startsLine t.init) ∈
        Ncbi.pinned.map (fun p => (p.1, p.2.1.toList, p.2.2.toList))) ∧
    (∀ p ∈ Ncbi.pinned.map (fun p => (p.1, p.2.1.toList, p.2.2.toList)),
        p ∈ T.tables.map (fun t => (t.id, Ncbi.aasLine t.basic, Ncbi.startsLine t.init))) := Facts.tables_pinned

/-- `esl_gencode_Set(id)` finds exactly the pinned ids, each once -/
theorem table_ids :
    (T.tables.map (·.id)).Nodup ∧ (∀ id ∈ T.tables.map (·.id), id ∈ Ncbi.pinned.map (·.1)) ∧
    (∀ id ∈ Ncbi.pinned.map (·.1), id ∈ T.tables.map (·.id)) ∧
    Ncbi.pinned.map (·.1) = [1, 2, 3, 4, 5, 6, 9, 10, 11, 12, 13, 14, 16, 21, 22, 23, 24, 25] ∧
    (∀ t ∈ T.tables, setTable T.tables t.id = some (codeOf t)) ∧ (setTable T.tables 1).isSome = true := Facts.table_ids

/-- under each of the three initiator settings every table is a well-formed code in which no initiator codon is a stop
    codon, every entry is an amino acid or the stop code, and the dumped alphabets satisfy the hypotheses below -/
theorem no_initiator_stop :
    NtOK A.dna ∧ A.dna.Kp = 18 ∧ A.amino.unknown = 26 ∧ A.amino.K = 20 ∧
    ∀ t ∈ T.tables, ∀ g ∈ settings (codeOf t), CodeOK g ∧
      ∀ c, c < 64 → (g.basic.getD c 99 < 20 ∨ g.basic.getD c 99 = A.amino.nonresidue) ∧
        (g.isInit.getD c 0 ≠ 0 → g.basic.getD c 99 ≠ A.amino.nonresidue) := Facts.no_initiator_stop

/-- the nucleotide degeneracy rows the translation loop reads are the IUPAC sets: a canonical base stands for itself,
    a degenerate symbol for its documented set (as indices into ACGT), gap / `*` / `~` for nothing -/
theorem expand_is_iupac :
    ∀ a, a < 18 → flags (A.dna.degen.getD a []) =
      (Iupac.denotes .dna ((Iupac.symbols .dna).getD a ' ')).map fun ch => (Iupac.canonical .dna).idxOf ch :=
  Facts.expand_is_iupac

/-- writing any built-in table (under any of the three initiator settings, with or without the Easel comment line) in
    NCBI text form and reading it back gives the same table: same 64 amino acids / stops, same 64 initiator flags
    (the id and description are not part of the NCBI form: `esl_gencode_Read` leaves −1 and ""). The new object starts
    as table 1, as `esl_gencode_Create` makes it. -/
theorem read_write_roundtrip :
    ∀ g1 ∈ (setTable T.tables 1).toList, ∀ t ∈ T.tables, ∀ g ∈ settings (codeOf t), ∀ cm ∈ [true, false],
      (write A.dna A.amino g cm).bind (read A.dna A.amino g1) =
        some { translTable := -1, desc := "", basic := g.basic, isInit := g.isInit } := Facts.read_write_roundtrip

/-- genetic-code objects over the RNA alphabet behave like those over DNA: the RNA alphabet satisfies the hypotheses of the
    general theorems, its degeneracy rows are the IUPAC sets (U for T), "only AUG" marks the same codon, and the NCBI
    column ↦ codon map used by Read/Write is the same (T is read as U) -/
theorem rna_objects_ok :
    NtOK A.rna ∧ A.rna.Kp = 18 ∧
    (∀ a, a < 18 → flags (A.rna.degen.getD a []) =
      (Iupac.denotes .rna ((Iupac.symbols .rna).getD a ' ')).map fun ch => (Iupac.canonical .rna).idxOf ch) ∧
    (∀ g, (setInitiatorOnlyAUG A.rna g).isInit = (setInitiatorOnlyAUG A.dna g).isInit) ∧
    (∀ x, x < 64 → ncbiCodon A.rna x = ncbiCodon A.dna x) := Facts.rna_objects_ok

/-! ## translation of a possibly degenerate codon: ANY table, ANY degeneracy matrix, any triplet of codes (general proof) -/

/-- the model of the triple loop of `esl_gencode_GetTranslation` equals the specification -/
theorem translation_spec (nt aa : Alphabet) (g : Gencode) (hn : NtOK nt) (hg : CodeOK g) (a b c : Nat)
    (ha : a < nt.Kp) (hb : b < nt.Kp) (hc : c < nt.Kp) :
    getTranslation nt aa g a b c = some (specTranslation nt aa g a b c) :=
  getTranslation_eq_spec nt aa g hn hg a b c ha hb hc

/-- a canonical codon translates to that table's entry; a degenerate codon translates to the amino acid (or stop) shared
    by ALL canonical codons it stands for, and to `unknown` (X) as soon as two of them disagree -/
theorem translation_shared (nt aa : Alphabet) (g : Gencode) (hn : NtOK nt) (hg : CodeOK g) (a b c : Nat)
    (ha : a < nt.Kp) (hb : b < nt.Kp) (hc : c < nt.Kp) :
    (allCanonical nt a b c = true → getTranslation nt aa g a b c = some (Int.ofNat (g.basic.getD (16 * a + 4 * b + c) 0))) ∧
    (allCanonical nt a b c = false → ∀ x : Nat, expand nt a b c ≠ [] → (∀ k ∈ expand nt a b c, g.basic.getD k 0 = x) →
        getTranslation nt aa g a b c = some (Int.ofNat x)) ∧
    (allCanonical nt a b c = false → (∃ k1 ∈ expand nt a b c, ∃ k2 ∈ expand nt a b c, g.basic.getD k1 0 ≠ g.basic.getD k2 0) →
        getTranslation nt aa g a b c = some (Int.ofNat aa.unknown)) := by
  rw [getTranslation_eq_spec nt aa g hn hg a b c ha hb hc]
  unfold specTranslation
  refine ⟨fun h => by rw [if_pos h]; rfl, fun h x hne hall => ?_, fun h hex => ?_⟩
  · rw [if_neg (by simp [h])]
    cases hex : expand nt a b c with
    | nil => exact absurd hex hne
    | cons k ks =>
      rw [hex] at hall
      have hk := hall k (by simp)
      simp only []
      rw [if_pos (fun k' hk' => by rw [hall k' (by simp [hk']), hk]), hk]
      rfl
  · rw [if_neg (by simp [h])]
    obtain ⟨k1, h1, k2, h2, hne⟩ := hex
    cases hexp : expand nt a b c with
    | nil => rw [hexp] at h1; cases h1
    | cons k ks =>
      rw [hexp] at h1 h2
      simp only []
      rw [if_neg]
      · rfl
      intro hall
      have e : ∀ k' ∈ k :: ks, g.basic.getD k' 0 = g.basic.getD k 0 := by
        intro k' hk'
        rcases List.mem_cons.mp hk' with rfl | hk'
        · rfl
        · exact hall k' hk'
      exact hne ((e k1 h1).trans (e k2 h2).symm)

/-- a codon counts as an initiator iff ALL canonical codons it stands for are initiators of the table (and it stands
    for at least one) -/
theorem initiator_spec (nt : Alphabet) (g : Gencode) (hn : NtOK nt) (hg : CodeOK g) (a b c : Nat)
    (ha : a < nt.Kp) (hb : b < nt.Kp) (hc : c < nt.Kp) :
    ∃ r, isInitiator nt g a b c = some r ∧ (r ≠ 0 ↔ specInitiator nt g a b c = true) :=
  isInitiator_eq_spec nt g hn hg a b c ha hb hc

/-- the two initiator policies: "any" marks exactly the sense codons; "only AUG" marks exactly ATG = codon 14 -/
theorem initiator_settings (g : Gencode) :
    (setInitiatorAny A.amino g).basic = g.basic ∧ (setInitiatorOnlyAUG A.dna g).basic = g.basic ∧
    (∀ c, c < g.basic.length → ((setInitiatorAny A.amino g).isInit.getD c 0 ≠ 0 ↔ g.basic.getD c 99 < 20)) ∧
    (∀ c, c < 64 → ((setInitiatorOnlyAUG A.dna g).isInit.getD c 0 ≠ 0 ↔ c = 14)) := by
  refine ⟨rfl, rfl, fun c hc => ?_, ?_⟩
  · simp only [setInitiatorAny, List.getD_eq_getElem?_getD, List.getElem?_map, List.getElem?_eq_getElem hc,
      Option.map_some, Option.getD_some, Alphabet.xIsCanonical]
    have hK : A.amino.K = 20 := by decide
    by_cases h : g.basic[c] < 20 <;> simp [h, hK]
  · have : (setInitiatorOnlyAUG A.dna g).isInit = (List.replicate 64 0).set 14 1 := by
      simp only [setInitiatorOnlyAUG]
      have : 16 * A.dna.inmapAt 65 + 4 * A.dna.inmapAt 84 + A.dna.inmapAt 71 = 14 := by decide
      rw [this]
    rw [this]
    decide

/-! ## ORF machine -/

/-- every split of a strand into windows (first window ≥ 2 residues; esl-translate requires ≥ 3) leaves the machine in
    the same final state, hence yields the same ORF list, as a single window: the state carried between
    `esl_gencode_ProcessPiece` calls is exactly what the loop needs -/
theorem window_split_invariant (nt aa : Alphabet) (g : Gencode) (cfg : Cfg) (w : Work) (isRev : Bool) (d : List Nat)
    (k : Nat) (ks : List Nat) (hk : 2 ≤ k) (hs : (k :: ks).sum = d.length) :
    runStrand nt aa g cfg w isRev d (k :: ks) = runStrand nt aa g cfg w isRev d [d.length] :=
  runStrand_split nt aa g cfg w isRev d k ks hk hs

/-- **six-frame translation reports exactly the ORFs of each reading frame.** For ANY table, every DNA sequence of valid
    codes (canonical and degenerate), every minimum length, either strand (`isRev`), every initiator option and EVERY split
    into windows: the machine does not fault, and for each of the three frames of the strand the ORF records it emits
    (coordinates + residues, newest first, in front of whatever the output block held before) are those of
    `frameOrfs`, the sequential one-frame ORF finder `fstep` (open at an initiator — first residue M when initiators are
    required —, close at a stop with end coordinate just before it, keep if ≥ minlen, flush at the end of the strand with
    the end coordinate of the frame's last complete codon) run over that frame's codons, each translated by
    `codonAa`/`specInitiator` (the specification of `translation_spec`/`initiator_spec`). Coordinates are 1-based source
    coordinates: ascending from 1 on the top strand, descending from L on the reverse strand (`dirOf`, frame labels 4–6). -/
theorem orf_stream_eq_spec (nt aa : Alphabet) (g : Gencode) (cfg : Cfg) (hn : NtOK nt) (hg : CodeOK g) (w0 : Work)
    (isRev : Bool) (d : List Nat) (hv : ∀ x ∈ d, x < nt.Kp) (k : Nat) (ks : List Nat) (hk : 2 ≤ k)
    (hs : (k :: ks).sum = d.length) :
    ∃ w', runStrand nt aa g cfg w0 isRev d (k :: ks) = some w' ∧
      ∀ f, f < 3 → recsOf w'.c.out (f + 1 + labelOff isRev) =
        frameOrfs nt aa g cfg (dirOf isRev) (if isRev then (d.length : Int) else 1) d f ++
          recsOf w0.c.out (f + 1 + labelOff isRev) :=
  runStrand_spec nt aa g cfg hn hg w0 isRev d hv k ks hk hs

/-- the per-frame ORF list in declarative form (see `declFrame`, `splitStops`, `segOrf`): **maximal stop-free stretches,
    cut down to start at their first initiator**, of at least the minimum length. With the default "any sense codon
    initiates" setting every non-degenerate codon of a stop-free stretch is an initiator, so the ORF is the whole stretch
    (minus leading codons whose degenerate expansion contains a stop); with `-m`/`-M` it is the initiator-to-stop stretch. -/
theorem orf_frame_declarative (nt aa : Alphabet) (g : Gencode) (cfg : Cfg) (hn : NtOK nt) (hT : TableOK aa g)
    (dir p0 : Int) (d : List Nat) (k : Nat) :
    frameOrfs nt aa g cfg dir p0 d k =
      (declFrame aa cfg dir
        (p0 + (((itemsFrom nt aa g dir p0 d).length + (k + 3 - (itemsFrom nt aa g dir p0 d).length % 3) % 3 : Nat) : Int) * dir - dir)
        (sub k 0 (itemsFrom nt aa g dir p0 d))).reverse :=
  frameOrfs_declarative nt aa g cfg hn hT dir p0 d k

/-- numbering and order of the records: those a strand adds to the output block are numbered consecutively from
    `orfcount + 1` in emission order ("orf1", "orf2", …, continuing over strands and sequences), and their end coordinates
    advance strictly in reading direction. Together with `orf_stream_eq_spec` this determines the output list: the
    three per-frame lists merged by end coordinate. -/
theorem orf_numbering_and_order (nt aa : Alphabet) (g : Gencode) (cfg : Cfg) (hn : NtOK nt) (hg : CodeOK g) (w0 : Work)
    (isRev : Bool) (d : List Nat) (hv : ∀ x ∈ d, x < nt.Kp) (k : Nat) (ks : List Nat) (hk : 2 ≤ k)
    (hs : (k :: ks).sum = d.length) :
    ∃ w' news, runStrand nt aa g cfg w0 isRev d (k :: ks) = some w' ∧
      w'.c.out.map numStop = news ++ w0.c.out.map numStop ∧ w'.c.orfcount = w0.c.orfcount + news.length ∧
      ∃ ub, Chain (dirOf isRev) w0.c.orfcount ub news :=
  runStrand_order nt aa g cfg hn hg w0 isRev d hv k ks hk hs

/-- every built-in table under every initiator setting satisfies the hypothesis `TableOK` of `orf_frame_declarative`
    (no initiator codon is a stop; M and X are not the stop code) -/
theorem builtin_tables_ok : ∀ t ∈ T.tables, ∀ g ∈ settings (codeOf t), TableOK A.amino g := Facts.builtin_tables_ok

/-! ## an independent structural check of the tables (not through the pinned AAs/Starts strings) -/

/-- the tree's table 1 is the standard genetic code, stated by amino acid (`Facts.standardByAminoAcid`: "A ↦ GCA GCC GCG GCT", …,
    "* ↦ TAA TAG TGA"): for each of the 20 amino acids and the stop, the codons translated to it are exactly the listed ones -/
theorem standard_code_by_amino_acid :
    ∀ std ∈ (T.tables.find? (fun t => t.id = 1)).toList, ∀ p ∈ Facts.standardByAminoAcid,
      Facts.codonsOf std p.1 = Facts.words p.2 := Facts.standard_code_by_amino_acid

/-- every table of the tree differs from its table 1 in EXACTLY the codons the NCBI documentation lists for it
    (`Facts.documented`: 2: AGA AGG stop, ATA Met, TGA Trp; 3: ATA Met, CTN Thr, TGA Trp; 4: TGA Trp; 5: AGA AGG Ser, ATA Met,
    TGA Trp; 6: TAA TAG Gln; 9: AAA Asn, AGA AGG Ser, TGA Trp; 10: TGA Cys; 11: none; 12: CTG Ser; 13: AGA AGG Gly, ATA Met,
    TGA Trp; 14: AAA Asn, AGA AGG Ser, TAA Tyr, TGA Trp; 16: TAG Leu; 21: AAA Asn, AGA AGG Ser, ATA Met, TGA Trp; 22: TAG Leu,
    TCA stop; 23: TTA stop; 24: AGA Ser, AGG Lys, TGA Trp; 25: TGA Gly) and has EXACTLY the documented initiation codons;
    all 18 documented tables are offered. This rendering was typed independently of `Ncbi.pinned` and has another shape
    (differences, not 64-letter strings): changing a table entry in the C source and the pinned string in the same wrong
    way does not get past it. -/
theorem tables_differ_as_documented :
    ∀ std ∈ (T.tables.find? (fun t => t.id = 1)).toList,
      (∀ t ∈ T.tables, (t.id, Facts.diffFrom std t, Facts.startsOf t) ∈
        Facts.documented.map (fun d => (d.1, Facts.diffWords d.2.1, Facts.words d.2.2))) ∧
      (∀ d ∈ Facts.documented, d.1 ∈ T.tables.map (·.id)) ∧ T.tables.length = Facts.documented.length ∧
      (T.tables.find? (fun t => t.id = 1)).isSome = true := Facts.tables_differ_as_documented

/-! ## `esl_gencode_Read` on arbitrary bytes; the small public functions -/

/-- TOTALITY OF THE COLUMN LOOP OF `esl_gencode_Read`: with every array access of the C code checked (the five line buffers,
    `inmap[]` of both alphabets, `aa_seen[20]`, `codon_seen[64]`, `basic[64]`, `is_initiator[64]`), for ANY five 64-byte
    tokens the loop never reads or writes out of bounds and computes exactly what the model `readColumns` (hence `read`)
    computes: the outcome of `esl_gencode_Read` on any byte string is `eslOK` with a table or `eslEFORMAT`, never a fault.
    (The line splitting and the five anchored regular expressions before the loop work on the parser's own NUL-terminated
    line; their model `matchLine` is total by construction and tied by the differential run on damaged files.) -/
theorem read_never_faults (nt aa : Alphabet) (hK : nt.K = 4) (hin : nt.inmap.length = 128) (hia : aa.inmap.length = 128)
    (aas mline b1 b2 b3 : List Nat) (h1 : aas.length = 64) (h2 : mline.length = 64) (h3 : b1.length = 64)
    (h4 : b2.length = 64) (h5 : b3.length = 64) (basic ini : List Nat) (hb : basic.length = 64) (hi : ini.length = 64) :
    readColumnsO nt aa aas mline b1 b2 b3 64 (basic, ini, List.replicate 64 0, List.replicate 20 0, 0) =
      some (readColumns nt aa aas mline b1 b2 b3 64 basic ini (List.replicate 64 0) (List.replicate 20 0) 0) :=
  readColumnsO_total nt aa hK hin hia aas mline b1 b2 b3 h1 h2 h3 h4 h5 64 basic ini _ _ 0 (Nat.le_refl _) hb hi
    (by simp) (by simp)

/-- the dumped alphabets and every built-in table satisfy the hypotheses of `read_never_faults` -/
theorem read_never_faults_hyps :
    A.dna.K = 4 ∧ A.rna.K = 4 ∧ A.dna.inmap.length = 128 ∧ A.rna.inmap.length = 128 ∧ A.amino.inmap.length = 128 ∧
    ∀ t ∈ T.tables, t.basic.length = 64 ∧ t.init.length = 64 := by decide +kernel

/-- WHAT `esl_gencode_Read` ACCEPTS IS A GENETIC-CODE TABLE — for ANY bytes of the file (valid, damaged, binary) and whatever
    the new object was initialised with: if the answer is `eslOK` then both arrays have 64 entries, EVERY one of the 64 codons
    has been assigned by a column of the file (nothing of the initial table 1 survives) to one of the 20 amino acids or the
    stop code (`Kp − 2` = `*`), every initiator flag is 0 or 1, the id is −1 and the description empty. -/
theorem read_ok_is_code (nt aa : Alphabet) (init : Gencode) (hi : CodeOK init) (buf : List Nat) (g : Gencode)
    (h : read nt aa init buf = some g) :
    CodeOK g ∧ g.translTable = -1 ∧ g.desc = "" ∧
    ∀ c, c < 64 → (g.basic.getD c 99 < aa.K ∨ g.basic.getD c 99 + 2 = aa.Kp) ∧ g.isInit.getD c 9 ≤ 1 := by
  obtain ⟨a, b, c, d, e⟩ := EaselModel.Gencode.read_ok_is_code nt aa init hi.1 hi.2 buf g h
  exact ⟨⟨a, b⟩, c, d, e⟩

/-- … AND IT ENCODES ALL 20 AMINO ACIDS AND HAS A STOP CODON: for any bytes of the file, in an accepted table every amino-acid
    code `x < 20` is the translation of some codon and some codon translates to the stop code. The C code tests this per COLUMN
    of the file; the proof shows that no column can have overwritten another (64 columns onto 64 codons that are all seen:
    every codon is assigned exactly once), so what the columns announced is what the table holds. With `read_ok_is_code`:
    `esl_gencode_Read` answers `eslOK` only for genuine genetic codes — complete, every entry an amino acid or stop. -/
theorem read_ok_is_complete (nt aa : Alphabet) (hK : nt.K = 4) (hKa : aa.K = 20) (init : Gencode) (hi : CodeOK init)
    (buf : List Nat) (g : Gencode) (h : read nt aa init buf = some g) :
    (∀ x, x < 20 → ∃ c, c < 64 ∧ g.basic.getD c 99 = x) ∧ (∃ c, c < 64 ∧ g.basic.getD c 99 + 2 = aa.Kp) :=
  EaselModel.Gencode.read_ok_is_complete nt aa hK hKa init hi.1 buf g h

/-- TOTALITY OF `esl_gencode_Write`: on a well-formed code object (64 entries in both arrays, every translation an index into
    `aa_abc->sym`, a nucleotide alphabet that digitizes T (U), C, A, G to 0..3) it reads only inside its arrays and produces
    the text, with or without the comment line; every built-in table under every initiator setting, over DNA and RNA,
    is such an object (second part, `decide`) -/
theorem write_never_faults (nt aa : Alphabet) (g : Gencode) (cm : Bool) (hg : CodeOK g)
    (hb : ∀ b ∈ g.basic, b < aa.sym.length) (hn : ∀ c ∈ order, nt.inmapAt c < 4) : (write nt aa g cm).isSome = true :=
  write_isSome nt aa g cm hg.1 hg.2 hb hn

theorem write_never_faults_hyps :
    (∀ nt ∈ [A.dna, A.rna], ∀ c ∈ order, nt.inmapAt c < 4) ∧
    ∀ t ∈ T.tables, ∀ g ∈ settings (codeOf t), CodeOK g ∧ ∀ b ∈ g.basic, b < A.amino.sym.length := by decide +kernel

/-- BOUNDS OF `esl_gencode_DecodeDigicodon` FOR EVERY C `int` (division truncating toward zero): the three reads of
    `nt_abc->sym[]` stay inside the `Kp + 1` bytes of the symbol string exactly when `0 ≤ d` and `d / 16 ≤ Kp`
    (its documented domain `0..63` is inside); every negative `d` reads before the array -/
theorem decode_digicodon_bounds (nt : Alphabet) (h3 : 3 ≤ nt.sym.length) (d : Int) :
    (decodeDigicodon nt d).isSome = true ↔ 0 ≤ d ∧ d / 16 ≤ nt.sym.length := decodeDigicodon_isSome nt h3 d

/-- on its domain `DecodeDigicodon` is the inverse of the codon index `16x + 4y + z`: the three letters it stores digitize
    back to `d` (DNA and RNA alphabets), and they are canonical nucleotides -/
theorem decode_digicodon_inverse :
    ∀ nt ∈ [A.dna, A.rna], ∀ d, d < 64 → ∃ a b c, decodeDigicodon nt (d : Nat) = some [a, b, c] ∧
      16 * nt.inmapAt a + 4 * nt.inmapAt b + nt.inmapAt c = d ∧ nt.inmapAt a < 4 ∧ nt.inmapAt b < 4 ∧ nt.inmapAt c < 4 := by
  intro nt hnt d hd
  have key : ∀ nt ∈ [A.dna, A.rna], ∀ d ∈ List.range 64,
      (match decodeDigicodon nt (d : Nat) with
       | some [a, b, c] => decide (16 * nt.inmapAt a + 4 * nt.inmapAt b + nt.inmapAt c = d ∧ nt.inmapAt a < 4 ∧ nt.inmapAt b < 4 ∧ nt.inmapAt c < 4)
       | _ => false) = true := by decide +kernel
  have := key nt hnt d (List.mem_range.mpr hd)
  split at this
  · rename_i a b c heq
    exact ⟨a, b, c, heq, by simpa using this⟩
  · cases this

/-- BOUNDS OF `esl_gencode_GetTranslation` / `esl_gencode_IsInitiator`: for three codes `< Kp` they never fault
    (`translation_spec`, `initiator_spec`); a first code `≥ Kp` (e.g. the sentinel 255) is read as an index into `degen[]`
    at once: out of bounds. Their contract is "three valid digital residues"; the ORF machine only passes such
    (`orf_stream_eq_spec`: hypothesis `∀ x ∈ d, x < nt.Kp`, which `esl_abc_Digitize` guarantees — C08). -/
theorem translation_out_of_alphabet_faults (nt aa : Alphabet) (g : Gencode) (a b c : Nat) (ha : nt.degen.length ≤ a)
    (hk : nt.K ≤ a) : getTranslation nt aa g a b c = none ∧ isInitiator nt g a b c = none :=
  out_of_alphabet_faults nt aa g a b c ha hk

example : (T.tables.head?.map fun t => (getTranslation A.dna A.amino (codeOf t) 255 0 0, getTranslation A.dna A.amino (codeOf t) 4 255 255)) =
    some (none, some (-1)) := by decide +kernel

/-- `esl_gencode_Compare` answers `eslOK` exactly for equal codes: same alphabet types, (if asked) same id and description,
    same 64 translations and same 64 initiator flags -/
theorem compare_spec (n1 a1 n2 a2 : Nat) (g1 g2 : Gencode) (md : Bool) (h1 : CodeOK g1) (h2 : CodeOK g2) :
    ∃ r, compare n1 a1 n2 a2 g1 g2 md = some r ∧
      (r = true ↔ (n1 = n2 ∧ a1 = a2 ∧ (md = true → g1.translTable = g2.translTable ∧ g1.desc = g2.desc) ∧
        g1.basic = g2.basic ∧ g1.isInit = g2.isInit)) :=
  EaselModel.Gencode.compare_spec n1 a1 n2 a2 g1 g2 md h1.1 h2.1 h1.2 h2.2

/-- WINDOWS SHORTER THAN A CODON: a window of 0, 1 or 2 residues (e.g. a first window of 2) leaves the machine untouched;
    a later window that brings ONE new residue after its 2-residue context processes exactly one codon. Together with
    `window_split_invariant` (any split whose first window has ≥ 2 residues, later windows of any size ≥ 0 … 1, 2, 3, …):
    windows smaller than a codon are handled like any other. -/
theorem short_windows (nt aa : Alphabet) (g : Gencode) (cfg : Cfg) (w : Work) :
    (∀ d : List Nat, d.length < 3 → processPiece nt aa g cfg w d = some w) ∧
    (∀ a b c : Nat, processPiece nt aa g cfg w [a, b, c] = pieceStep nt aa g cfg w a b c) :=
  ⟨fun d h => processPiece_short nt aa g cfg w d h, fun a b c => processPiece_one nt aa g cfg w a b c⟩

/-- `esl_gencode_ProcessOrf`: a record is emitted exactly when the frame is inside an ORF of AT LEAST `minlen` residues (an ORF
    of exactly `minlen` is reported, one of `minlen − 1` is not); it is numbered `orfcount + 1` (its name is "orf<number>"),
    labelled frame `f + 1` on the top strand and `f + 4` on the reverse strand, starts where the ORF was opened, ends one
    residue before the current position in reading direction and carries the residues in reading order; in every case the
    frame is reset, and position, frame counter and strand are untouched -/
theorem process_orf_spec (cfg : Cfg) (w : Core) :
    ((w.getF.inOrf = true ∧ cfg.minlen ≤ (w.getF.rev.length : Int)) → (processOrf cfg w).out =
        { num := w.orfcount + 1, start := w.getF.start, stop := if w.isRev then w.apos + 1 else w.apos - 1,
          frame := w.frame + 1 + (if w.isRev then 3 else 0), aa := w.getF.rev.reverse } :: w.out ∧
      (processOrf cfg w).orfcount = w.orfcount + 1) ∧
    (¬ (w.getF.inOrf = true ∧ cfg.minlen ≤ (w.getF.rev.length : Int)) →
      (processOrf cfg w).out = w.out ∧ (processOrf cfg w).orfcount = w.orfcount) ∧
    (processOrf cfg w).getF = { rev := [], start := 0, inOrf := false } ∧
    (processOrf cfg w).apos = w.apos ∧ (processOrf cfg w).frame = w.frame ∧ (processOrf cfg w).isRev = w.isRev :=
  processOrf_spec cfg w

-- the minimum-length boundary on a whole sequence: ATG AAA TAA has the 2-residue ORF "MK": reported with minlen 2, not with 3;
-- with a first window of only 2 residues and every later window of 1 residue the result is the same
example : (T.tables.head?.map fun t =>
    let g := setInitiatorAny A.amino (codeOf t)
    let d := [0,3,2,0,0,0,3,0,0]
    ((runStrand A.dna A.amino g ⟨false, 2⟩ {} false d [9]).map fun w => recsOf w.c.out 1,
     (runStrand A.dna A.amino g ⟨false, 3⟩ {} false d [9]).map fun w => recsOf w.c.out 1,
     (runStrand A.dna A.amino g ⟨false, 2⟩ {} false d [2, 1, 1, 1, 1, 1, 1, 1]).map fun w => recsOf w.c.out 1)) =
    some (some [⟨1, 6, [10, 8]⟩], some [], some [⟨1, 6, [10, 8]⟩]) := by decide +kernel
example : (decodeDigicodon A.dna 14, decodeDigicodon A.dna 303, decodeDigicodon A.dna 304, decodeDigicodon A.dna (-1)) =
    (some [65, 84, 71], some [0, 84, 84], none, none) := by decide +kernel

/-! ## `GetTranslation` / `IsInitiator` on ANY three byte codes; `DumpAltCodeTable` -/

/-- `esl_gencode_GetTranslation` IS TOTAL ON EXACTLY THESE INPUTS, WITH THIS RESULT — for ANY table, any alphabet and ANY three
    codes (every value an `ESL_DSQ` can hold: residues, gap, nonresidue `*`, missing data `~`, codes ≥ Kp, the sentinel 255),
    in the order in which the C loop dereferences `degen[]`: three canonical residues ⇒ the table entry; else a first code ≥ Kp
    ⇒ read outside `degen[]`; else a first code that stands for no residue (gap / `*` / `~`) ⇒ −1 at once (stored in an
    `ESL_DSQ`: 255), the two other codes are never looked at; else the same for the second, then for the third code; else the
    specification `specTranslation` (shared amino acid, X, or −1 for an empty third code). -/
theorem translation_total (nt aa : Alphabet) (g : Gencode) (hn : NtOK nt) (hg : CodeOK g) (a b c : Nat) :
    getTranslation nt aa g a b c =
      if allCanonical nt a b c = true then some (Int.ofNat (g.basic.getD (16 * a + 4 * b + c) 0))
      else if nt.Kp ≤ a then none else if rowEmpty nt a = true then some (-1)
      else if nt.Kp ≤ b then none else if rowEmpty nt b = true then some (-1)
      else if nt.Kp ≤ c then none else some (specTranslation nt aa g a b c) :=
  getTranslation_total nt aa g hn hg a b c

/-- the same for `esl_gencode_IsInitiator`: FALSE as soon as a code stands for no residue; a read outside `degen[]` exactly
    when a code ≥ Kp is reached before that (for three codes < Kp: `initiator_spec`) -/
theorem initiator_total (nt : Alphabet) (g : Gencode) (hn : NtOK nt) (hg : CodeOK g) (a b c : Nat)
    (hcan : allCanonical nt a b c = false) :
    (nt.Kp ≤ a → isInitiator nt g a b c = none) ∧
    (a < nt.Kp → rowEmpty nt a = true → isInitiator nt g a b c = some 0) ∧
    (a < nt.Kp → rowEmpty nt a = false → nt.Kp ≤ b → isInitiator nt g a b c = none) ∧
    (a < nt.Kp → rowEmpty nt a = false → b < nt.Kp → rowEmpty nt b = true → isInitiator nt g a b c = some 0) ∧
    (a < nt.Kp → rowEmpty nt a = false → b < nt.Kp → rowEmpty nt b = false → nt.Kp ≤ c → isInitiator nt g a b c = none) :=
  isInitiator_total nt g hn hg a b c hcan

/-- in the dumped DNA and RNA alphabets the codes that stand for no residue are exactly gap (4), nonresidue `*` (16) and
    missing data `~` (17); Kp = 18: of the 32 five-bit codes, 18..31 are outside the alphabet -/
theorem empty_rows :
    ∀ nt ∈ [A.dna, A.rna], nt.Kp = 18 ∧ ∀ a, a < 18 → (rowEmpty nt a = true ↔ (a = 4 ∨ a = 16 ∨ a = 17)) := by decide +kernel

-- all 32³ five-bit triplets × the first table: the theorem's right-hand side computed on the regenerated tables agrees with the
-- model on a sample reaching every branch (A, gap, N, 18, 31 in each position)
example : (T.tables.head?.map fun t => ([0, 4, 15, 18, 31].flatMap fun a => [0, 4, 15, 18, 31].flatMap fun b => [0, 4, 15, 18, 31].map fun c =>
    getTranslation A.dna A.amino (codeOf t) a b c)) =
  some [some 8, some (-1), some 26, none, none,  some (-1), some (-1), some (-1), some (-1), some (-1),
        some 26, some (-1), some 26, none, none,  none, none, none, none, none,  none, none, none, none, none,
        some (-1), some (-1), some (-1), some (-1), some (-1),  some (-1), some (-1), some (-1), some (-1), some (-1),
        some (-1), some (-1), some (-1), some (-1), some (-1),  some (-1), some (-1), some (-1), some (-1), some (-1),
        some (-1), some (-1), some (-1), some (-1), some (-1),
        some 26, some (-1), some 26, none, none,  some (-1), some (-1), some (-1), some (-1), some (-1),
        some 26, some (-1), some 26, none, none,  none, none, none, none, none,  none, none, none, none, none,
        none, none, none, none, none,  none, none, none, none, none,  none, none, none, none, none,  none, none, none, none, none,
        none, none, none, none, none,
        none, none, none, none, none,  none, none, none, none, none,  none, none, none, none, none,  none, none, none, none, none,
        none, none, none, none, none] := by decide +kernel

/-- `esl_gencode_DumpAltCodeTable` AS A FUNCTION OF `esl_transl_tables[]`: for ANY table array the text is the two header lines
    followed by one line `"%3d %s"` (id right-aligned in three columns, blank, description) per row, in array order, each
    terminated by a newline; for the rows of the tree (regenerated): ids are 1..99 and print as `"  d"` / `" dd"`, no
    description contains a newline — one line per offered table, and by `table_ids` the ids listed are exactly those
    `esl_gencode_Set` accepts -/
theorem alt_code_table_spec :
    (∀ tabs : List RawTable, dumpAltCodeTable tabs = String.join ((dumpLines tabs).map (· ++ "\n"))) ∧
    (∀ tabs : List RawTable, dumpLines tabs =
      ["id  description", "--- -----------------------------------"] ++ tabs.map fun t => pad3 t.id ++ " " ++ t.desc) ∧
    (∀ t ∈ T.tables, 0 < t.id ∧ t.id < 100 ∧ pad3 t.id = (if t.id < 10 then "  " else " ") ++ toString t.id ∧
      (t.desc.toList.all fun ch => ch ≠ '\n') = true) :=
  ⟨dump_eq_lines, fun _ => rfl, dump_rows_wellformed⟩

/-! ## whole sequences: both strands, `esl-translate` full-length and windowed (`-W`) main loops, option combinations -/

/-- THE REVERSE STRAND, WINDOWS DELIVERED IN REVERSE ORDER: `esl_sqio_ReadWindow` with a negative window size walks the TOP strand
    from its 3' end towards its 5' end; the `i`-th window is the reverse complement of the `k_i` residues ending `done` residues
    before the end plus (after the first window) the 2 residues to their right. For every sequence and every list of window sizes
    (first ≥ 2, sum = L) these are exactly the windows of the reverse-complemented sequence read front to back — so
    `window_split_invariant` / `orf_stream_eq_spec` with `isRev = true` apply to what the windowed reader delivers. -/
theorem reverse_strand_windows (nt : Alphabet) (d : List Nat) (k : Nat) (ks : List Nat) (hk : 2 ≤ k)
    (hs : (k :: ks).sum = d.length) : topSlices nt d 0 (k :: ks) = windows [] (revcomp nt d) (k :: ks) :=
  topSlices_windows nt d k ks hk hs

/-- `esl-translate -W` = `esl-translate`: for every sequence of at least one codon, every window size other than 1 (the program
    uses 4092; 0 stands for "unbounded"), every genetic code and EVERY option combination `esl_gencode_WorkstateCreate` reads
    (`--watson`, `--crick`, `-m`, `-M`, `-l`), the windowed main loop `do_by_windows` (top strand front to back, then the reverse
    strand from the 3' end of the top strand) leaves the work state — emitted ORFs, their numbering, the three frames — exactly
    where the full-length loop `do_by_sequences` leaves it -/
theorem windowed_eq_full_length (nt aa : Alphabet) (g : Gencode) (o : Opts) (W : Nat) (hW : W ≠ 1) (w : Work) (d : List Nat)
    (hL : 3 ≤ d.length) :
    byWindows nt aa g (workstateCreate o) W w d = bySequence nt aa g (workstateCreate o) w d :=
  byWindows_eq_bySequence nt aa g (workstateCreate o) W hW w d hL

/-- `esl_gencode_WorkstateCreate` under ALL option combinations: `--crick` switches the top strand off, `--watson` the reverse
    strand (both together: nothing is translated, any sequence leaves the work state untouched), `-m` or `-M` make the first
    residue of every ORF an M, `-l` is the minimum length; and the genetic code `esl-translate` sets up for `-c <id>` is one of
    the three initiator settings of that table (`-m`: only AUG, `-M`: the table's own, neither: any sense codon), to which
    `no_initiator_stop` / `builtin_tables_ok` apply -/
theorem workstate_options (o : Opts) :
    ((workstateCreate o).doWatson = !o.crick) ∧ ((workstateCreate o).doCrick = !o.watson) ∧
    ((workstateCreate o).usingInit = (o.optm || o.optM)) ∧ (workstateCreate o).minlen = o.l ∧
    (o.watson = true → o.crick = true → ∀ nt aa g w d, bySequence nt aa g (workstateCreate o) w d = some w) ∧
    (∀ t ∈ T.tables, ∃ g ∈ settings (codeOf t), codeForOpts A.dna A.amino T.tables t.id o = some g ∧
      g = (if o.optm = true then setInitiatorOnlyAUG A.dna (codeOf t) else if o.optM = true then codeOf t
           else setInitiatorAny A.amino (codeOf t))) := by
  refine ⟨by unfold workstateCreate; cases o.crick <;> rfl, by unfold workstateCreate; cases o.watson <;> rfl,
    by unfold workstateCreate; cases o.optm <;> cases o.optM <;> rfl, rfl, fun hw hc nt aa g w d => ?_, fun t ht => ?_⟩
  · unfold bySequence workstateCreate
    by_cases h : d.length < 3 <;> simp [h, hw, hc]
  · have hset := Facts.table_ids.2.2.2.2.1 t ht
    unfold codeForOpts
    rw [hset]
    cases o.optm <;> cases o.optM <;> simp [settings]

/-- **SIX-FRAME TRANSLATION OF A WHOLE SEQUENCE** (`esl-translate`'s full-length main loop `do_by_sequences`; by
    `windowed_eq_full_length` also the `-W` loop). For ANY table, every DNA sequence of at least one codon over valid codes,
    EVERY combination of `--watson`, `--crick`, `-m`, `-M`, `-l <n>` and whatever the output block already holds: the loop does
    not fault, and afterwards the records labelled frame 1, 2, 3 are those of the one-frame ORF finder `frameOrfs` over the
    sequence read forward from coordinate 1 (none with `--crick`), the records labelled frame 4, 5, 6 are those of the finder
    over the reverse complement read from coordinate L downwards (none with `--watson`), each list in front of what the block
    held under that label; no record carries any other label. (`frameOrfs` is stated declaratively by `orf_frame_declarative`;
    numbering and order of the records: `orf_numbering_and_order`, strand by strand.) -/
theorem six_frame_translation (nt aa : Alphabet) (g : Gencode) (o : Opts) (hn : NtOK nt) (hg : CodeOK g)
    (hc : ∀ x, x < nt.Kp → (nt.complement.getD []).getD x 255 < nt.Kp) (w0 : Work) (d : List Nat)
    (hv : ∀ x ∈ d, x < nt.Kp) (hL : 3 ≤ d.length) :
    ∃ w', bySequence nt aa g (workstateCreate o) w0 d = some w' ∧
      (∀ f, f < 3 → recsOf w'.c.out (f + 1) =
        (if o.crick = true then [] else frameOrfs nt aa g (workstateCreate o).cfg 1 1 d f) ++ recsOf w0.c.out (f + 1)) ∧
      (∀ f, f < 3 → recsOf w'.c.out (f + 4) =
        (if o.watson = true then [] else frameOrfs nt aa g (workstateCreate o).cfg (-1) (d.length : Int) (revcomp nt d) f) ++
          recsOf w0.c.out (f + 4)) ∧
      (∀ lbl, (lbl = 0 ∨ 7 ≤ lbl) → recsOf w'.c.out lbl = recsOf w0.c.out lbl) :=
  bySequence_spec nt aa g o hn hg hc w0 d hv hL

/-- the dumped DNA and RNA alphabets satisfy the complement hypothesis of `six_frame_translation`: the complement of a valid code
    is a valid code (and complementing twice is the identity) -/
theorem complement_closed :
    ∀ nt ∈ [A.dna, A.rna], ∀ x, x < nt.Kp → (nt.complement.getD []).getD x 255 < nt.Kp ∧
      (nt.complement.getD []).getD ((nt.complement.getD []).getD x 255) 255 = x := by decide +kernel

/-- SEQUENCES SHORTER THAN A CODON (0, 1, 2 residues) are ignored by both main loops: `do_by_sequences` skips them; in
    `do_by_windows` the `ProcessEnd` calls at `eslEOD` run on an idle machine (no frame inside an ORF — the state
    `WorkstateCreate` makes and every completed strand leaves), emit nothing, and leave it idle -/
theorem short_sequences_ignored (nt aa : Alphabet) (g : Gencode) (o : Opts) (W : Nat) (w : Work) (d : List Nat)
    (hL : d.length < 3) (hf : w.c.frame < 3) (hi : Idle w.c) :
    bySequence nt aa g (workstateCreate o) w d = some w ∧
    ∃ w', byWindows nt aa g (workstateCreate o) W w d = some w' ∧ w'.c.out = w.c.out ∧ w'.c.orfcount = w.c.orfcount ∧
      Idle w'.c ∧ w'.c.frame < 3 :=
  short_sequence_noop nt aa g (workstateCreate o) W w d hL hf hi

/-- every completed strand leaves the machine idle with its frame counter in range (the hypotheses of `short_sequences_ignored`
    hold between sequences) -/
theorem strand_leaves_idle (nt aa : Alphabet) (g : Gencode) (cfg : Cfg) (hn : NtOK nt) (hg : CodeOK g) (w0 : Work)
    (isRev : Bool) (d : List Nat) (hv : ∀ x ∈ d, x < nt.Kp) :
    ∃ w', runStrand nt aa g cfg w0 isRev d [d.length] = some w' ∧ Idle w'.c ∧ w'.c.frame < 3 := by
  obtain ⟨w', h1, _, h3, h4⟩ := runStrand_other nt aa g cfg hn hg w0 isRev d hv
  exact ⟨w', h1, h3, h4⟩

/-- A WHOLE FILE, NUMBERING: over all sequences of the file and both strands (whatever the options) the main loop does not fault and
    the records it adds are numbered `orfcount + 1, orfcount + 2, …` in emission order without gap or repeat — from a fresh work
    state: orf1, orf2, …, orf<n> with n the final counter (`Numbered`: newest first `n0 + len, …, n0 + 1`) -/
theorem file_numbering (nt aa : Alphabet) (g : Gencode) (o : Opts) (hn : NtOK nt) (hg : CodeOK g)
    (hc : ∀ x, x < nt.Kp → (nt.complement.getD []).getD x 255 < nt.Kp) (seqs : List (List Nat)) (w0 : Work)
    (hv : ∀ d ∈ seqs, ∀ x ∈ d, x < nt.Kp) :
    ∃ w' news, translateFile (bySequence nt aa g (workstateCreate o)) w0 seqs = some w' ∧
      w'.c.out.map (·.num) = news ++ w0.c.out.map (·.num) ∧ w'.c.orfcount = w0.c.orfcount + news.length ∧
      Numbered w0.c.orfcount news :=
  translateFile_numbering nt aa g (workstateCreate o) hn hg hc seqs w0 hv

/-- A WHOLE FILE, `-W`: for every file of valid sequences of ANY lengths (shorter than a codon included), every window size other
    than 1, every genetic code and option combination, starting from the fresh work state: `esl-translate -W` ends with the same
    ORF records in the same order under the same numbers as `esl-translate` -/
theorem windowed_file_eq_full_length (nt aa : Alphabet) (g : Gencode) (o : Opts) (W : Nat) (hW : W ≠ 1) (hn : NtOK nt)
    (hg : CodeOK g) (hc : ∀ x, x < nt.Kp → (nt.complement.getD []).getD x 255 < nt.Kp) (seqs : List (List Nat))
    (hv : ∀ d ∈ seqs, ∀ x ∈ d, x < nt.Kp) :
    ∃ r r', translateFile (byWindows nt aa g (workstateCreate o) W) {} seqs = some r ∧
      translateFile (bySequence nt aa g (workstateCreate o)) {} seqs = some r' ∧ r.c.out = r'.c.out ∧ r.c.orfcount = r'.c.orfcount :=
  windowed_file nt aa g (workstateCreate o) W hW hn hg hc seqs {} {} ⟨rfl, rfl⟩ ⟨rfl, rfl, rfl⟩ (by decide) ⟨rfl, rfl, rfl⟩
    (by decide) hv

-- non-vacuity: a file of three sequences (one shorter than a codon) through both loops, window size 4
example : (T.tables.head?.map fun t =>
    let o : Opts := ⟨false, false, false, true, 1⟩
    let g := codeOf t
    let seqs := [[0,3,2,0,0,0,3,0,0,1], [0,3], [1,3,2,1,1,1,3,2,0,0]]
    ((translateFile (byWindows A.dna A.amino g (workstateCreate o) 4) {} seqs).map fun w => w.c.out.map (·.num),
     (translateFile (bySequence A.dna A.amino g (workstateCreate o)) {} seqs).map fun w => w.c.out.map (·.num))) =
    some (some [3, 2, 1], some [3, 2, 1]) := by decide +kernel

example : Idle ({} : Work).c ∧ ({} : Work).c.frame < 3 := ⟨⟨rfl, rfl, rfl⟩, by decide⟩

-- non-vacuity: ATGAAATAAC, standard code, default options, minlen 1: frame 1 has MK (1..6); the reverse complement GTTATTTCAT
-- holds no stop in frame 4: VIS (10..2); six ORFs in all (NN 5..10, EI 3..8, LFH 9..1, YF 8..3)
example : (T.tables.head?.map fun t =>
    let o : Opts := ⟨false, false, false, false, 1⟩
    let g := setInitiatorAny A.amino (codeOf t)
    let d := [0,3,2,0,0,0,3,0,0,1]
    (bySequence A.dna A.amino g (workstateCreate o) {} d).map fun w => (recsOf w.c.out 1, recsOf w.c.out 4, w.c.orfcount)) =
    some (some ([⟨1, 6, [10, 8]⟩], [⟨10, 2, [17, 7, 15]⟩], 6)) := by decide +kernel

-- non-vacuity: GGATGAAATAAC (12 nt), windows 5+4+3 from the 3' end: the slices of the top strand, reverse complemented
example : topSlices A.dna [2,2,0,3,2,0,0,0,3,0,0,1] 0 [5, 4, 3] =
    [[2,3,3,0,3], [0,3,3,3,1,0], [1,0,3,1,1]] ∧
    windows [] (revcomp A.dna [2,2,0,3,2,0,0,0,3,0,0,1]) [5, 4, 3] = [[2,3,3,0,3], [0,3,3,3,1,0], [1,0,3,1,1]] := by decide +kernel

/-- THE TEXT PRINTED FOR A RECORD (`esl_gencode_ProcessOrf` without an ORF block → `esl_sqio_Write(…, eslSQFILE_FASTA)`, what
    `esl-translate` prints): the line `>orf<n> source=<name> coords=<start>..<end> length=<n> frame=<f> desc=<desc>`, then residue
    lines which, newlines removed, are exactly the record's residues as amino-acid symbols in order, in ⌈n/60⌉ newline-terminated
    lines; the second part: no symbol of the dumped amino alphabet (nor the filler `?`) is a newline, for any code -/
theorem printed_record_spec (source desc : String) (o : Orf) :
    (∃ lines, fastaOrf A.amino source desc o = strBytes (">" ++ orfName o ++ " " ++ orfDesc source desc o ++ "\n") ++ lines ∧
      lines.filter (· ≠ 10) = o.aa.map (fun x => A.amino.sym.getD x 63) ∧ lines.count 10 = (o.aa.length + 59) / 60) ∧
    (∀ s ∈ A.amino.sym, s ≠ 10) := by
  have hsym : ∀ s ∈ A.amino.sym, s ≠ 10 := by decide +kernel
  refine ⟨fastaOrf_spec A.amino source desc o (fun x _ => ?_), hsym⟩
  rw [List.getD_eq_getElem?_getD]
  cases h : A.amino.sym[x]? with
  | none => simp
  | some s => exact hsym s (List.mem_of_getElem? h)

-- a 61-residue record: two residue lines, 60 + 1
example : ((fastaOrf A.amino "s" "" ⟨1, 1, 183, 1, List.replicate 61 8⟩).count 10,
    ((fastaOrf A.amino "s" "" ⟨1, 1, 183, 1, List.replicate 61 8⟩).reverse.take 3)) = (3, [10, 75, 10]) := by decide +kernel

/-! ## histories of calls on ONE `ESL_GENCODE` object -/

/-- AFTER ANY HISTORY, `esl_gencode_Set(id)` LEAVES EXACTLY TABLE `id`. `Set` is modelled as the code does it — on the existing
    object, field by field, the two arrays by the loop `for (c = 0; c < 64; c++)` — and a history is any list of `Set(id)` (known
    or unknown ids), `SetInitiatorAny`, `SetInitiatorOnlyAUG` and `Read` of arbitrary bytes (the new object replaces the old one
    when Read succeeds). For ANY table array with 64-entry rows, any alphabets, any well-formed start object and ANY history:
    a final `Set(id)` with a known id gives the object `setTable` gives on fresh memory (nothing of an earlier table, policy
    setter or file survives: id, description, 64 translations, 64 initiator flags), with an unknown id it leaves the object
    as the history left it (`eslENOTFOUND`). -/
theorem set_after_any_history (nt aa : Alphabet) (tabs : List RawTable)
    (htabs : ∀ t ∈ tabs, t.basic.length = 64 ∧ t.init.length = 64)
    (hatg : 16 * nt.inmapAt 65 + 4 * nt.inmapAt 84 + nt.inmapAt 71 < 64) (ops : List HOp) (g0 : Gencode) (hg : CodeOK g0) (id : Int) :
    (hrun nt aa tabs g0 (ops ++ [.set id])).1 =
      match setTable tabs id with
      | some g' => g'
      | none => (hrun nt aa tabs g0 ops).1 :=
  set_after_history nt aa tabs htabs hatg ops g0 hg id

/-- … for the tables of the tree, over DNA and RNA: after any history, `Set(t)` leaves `codeOf t` — re-selecting the SAME table
    after a policy setter restores its own initiator flags — and a policy setter after that gives the corresponding one of the
    three `settings` of the table (to which `no_initiator_stop`, `builtin_tables_ok`, `read_write_roundtrip` apply); every
    object a history can produce is well formed -/
theorem set_resets_builtin (ops : List HOp) (g0 : Gencode) (hg : CodeOK g0) :
    ∀ nt ∈ [A.dna, A.rna], ∀ t ∈ T.tables,
      (hrun nt A.amino T.tables g0 (ops ++ [.set t.id])).1 = codeOf t ∧
      (hrun nt A.amino T.tables g0 (ops ++ [.set t.id, .any])).1 = setInitiatorAny A.amino (codeOf t) ∧
      (hrun nt A.amino T.tables g0 (ops ++ [.set t.id, .aug])).1 = setInitiatorOnlyAUG A.dna (codeOf t) ∧
      (hrun nt A.amino T.tables g0 (ops ++ [.set t.id, .aug, .set t.id])).1 = codeOf t ∧
      CodeOK (hrun nt A.amino T.tables g0 ops).1 := by
  intro nt hnt t ht
  have htabs : ∀ t ∈ T.tables, t.basic.length = 64 ∧ t.init.length = 64 := read_never_faults_hyps.2.2.2.2.2
  have hatg : 16 * nt.inmapAt 65 + 4 * nt.inmapAt 84 + nt.inmapAt 71 < 64 := by
    have : ∀ nt ∈ [A.dna, A.rna], 16 * nt.inmapAt 65 + 4 * nt.inmapAt 84 + nt.inmapAt 71 < 64 := by decide +kernel
    exact this nt hnt
  have hset := Facts.table_ids.2.2.2.2.1 t ht
  have key : ∀ ops', (hrun nt A.amino T.tables g0 (ops' ++ [.set t.id])).1 = codeOf t := fun ops' => by
    rw [set_after_history nt A.amino T.tables htabs hatg ops' g0 hg t.id, hset]
  have haug : setInitiatorOnlyAUG nt (codeOf t) = setInitiatorOnlyAUG A.dna (codeOf t) := by
    have := Facts.rna_objects_ok.2.2.2.1 (codeOf t)
    simp only [List.mem_cons, List.not_mem_nil, or_false] at hnt
    rcases hnt with rfl | rfl
    · rfl
    · simp only [setInitiatorOnlyAUG] at this ⊢; rw [this]
  refine ⟨key ops, ?_, ?_, ?_, hrun_codeOK nt A.amino T.tables htabs hatg ops g0 hg⟩
  · have e : ops ++ [HOp.set t.id, HOp.any] = (ops ++ [HOp.set t.id]) ++ [HOp.any] := by simp
    rw [e, hrun_append, key ops]; rfl
  · have e : ops ++ [HOp.set t.id, HOp.aug] = (ops ++ [HOp.set t.id]) ++ [HOp.aug] := by simp
    rw [e, hrun_append, key ops]; exact haug
  · have e : ops ++ [HOp.set t.id, HOp.aug, HOp.set t.id] = (ops ++ [HOp.set t.id, HOp.aug]) ++ [HOp.set t.id] := by simp
    rw [e]; exact key _

/-- the policy setters overwrite ALL 64 flags from the translations alone: their result does not depend on the flags the object
    had (so the order and repetition of policy setters does not matter, only the last one counts) -/
theorem policy_setters_overwrite (nt aa : Alphabet) (g : Gencode) (flags : List Nat) :
    setInitiatorAny aa { g with isInit := flags } = setInitiatorAny aa g ∧
    setInitiatorOnlyAUG nt { g with isInit := flags } = setInitiatorOnlyAUG nt g ∧
    setInitiatorAny aa (setInitiatorOnlyAUG nt g) = setInitiatorAny aa g ∧
    setInitiatorOnlyAUG nt (setInitiatorAny aa g) = setInitiatorOnlyAUG nt g := ⟨rfl, rfl, rfl, rfl⟩

-- non-vacuity: table 1, any, Set(4), only-AUG, Set(7) (unknown: untouched), Set(4) again: the object is table 4 with its own 8 initiators
example : (T.tables.find? (fun t => t.id = 4)).map (fun t4 =>
    ((setTable T.tables 1).map fun g1 =>
      let r := hrun A.dna A.amino T.tables g1 [.any, .set 4, .aug, .set 7, .set 4]
      (decide (r.1 = codeOf t4), r.2.map (·.2), r.2.map fun x => (x.1.translTable, (x.1.isInit.filter (· ≠ 0)).length)))) =
    some (some (true, [true, true, true, false, true], [(1, 61), (4, 8), (4, 1), (4, 1), (4, 8)])) := by decide +kernel

/-! ## non-vacuity -/
-- ATGAAATAAATGCCCTAGG in the standard code, any-initiator, minlen 0, top strand, windows 4+5+10:
-- frame 1: MK (1..6), MP (10..15); frame 2: * K * M P * → "" ; the finder and the machine agree
example : (T.tables.head?.map fun t =>
    let g := setInitiatorAny A.amino (codeOf t)
    let d := [0,3,2,0,0,0,3,0,0,0,3,2,1,1,1,3,0,2,2]
    ((runStrand A.dna A.amino g ⟨false, 0⟩ {} false d [4, 5, 10]).map fun w => recsOf w.c.out 1,
     frameOrfs A.dna A.amino g ⟨false, 0⟩ 1 1 d 0)) =
    some (some [⟨10, 15, [10, 12]⟩, ⟨1, 6, [10, 8]⟩], [⟨10, 15, [10, 12]⟩, ⟨1, 6, [10, 8]⟩]) := by decide +kernel
example : NtOK A.dna := by decide +kernel
example : ∃ t ∈ T.tables, CodeOK (codeOf t) := ⟨_, List.mem_cons_self .., by decide⟩
-- GGR = Gly, TAR = stop, ATH = Ile, MGR = Arg (AGA, AGG, CGA, CGG), YTG ≠ shared in the standard code? (CTG Leu, TTG Leu) = Leu
example : (T.tables.head?.map fun t => [specTranslation A.dna A.amino (codeOf t) 2 2 5, specTranslation A.dna A.amino (codeOf t) 3 0 5,
    specTranslation A.dna A.amino (codeOf t) 0 3 11, specTranslation A.dna A.amino (codeOf t) 7 2 5,
    specTranslation A.dna A.amino (codeOf t) 15 15 15, specTranslation A.dna A.amino (codeOf t) 0 4 0]) =
    some [5, 27, 7, 14, 26, -1] := by decide +kernel

end EaselModel.Props.C17
