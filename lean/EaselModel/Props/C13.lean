import EaselModel.Miniapps.Tools
import EaselModel.Miniapps.ReformatMsaLemmas
import EaselModel.Miniapps.AliLemmas
import EaselModel.Miniapps.Compstruct
import EaselModel.Miniapps.Compalign
import EaselModel.Miniapps.SmallLemmas
import EaselModel.Miniapps.SmallSplit
import EaselModel.Miniapps.Alimerge
/-! # C13 — property theorems about the reference functions of the miniapps (statements + glue only)

The property has two halves. The half a model can express — "for valid inputs the core tools produce what their manual
pages define, as computed independently" — is stated here about executable reference functions
(`EaselModel/Miniapps/*`), which the check ties to the sanitizer-built tool binaries by comparing complete stdout on
generated valid inputs. The other half ("never dies by a signal / sanitizer report / hang for ANY file content and
option combination", 27 entry points) is NOT a theorem: it would need a model of the whole library. It is searched
(support only), and every theorem here is therefore `…`-named plainly but the property as a whole is claimed *partial*. -/
namespace EaselModel.Props.C13
open EaselModel.Miniapps EaselModel.Random

/-! ## FASTA: write ∘ read = id, for every line width -/

/-- Reading back what the FASTA writer produced returns the same names, descriptions and residues, at every line
    width `w ≥ 1` (Easel writes 60): "conversion back returns the original", and the reader is invariant under
    re-wrapping of sequence lines. -/
theorem fasta_read_write (w : Nat) (hw : 0 < w) (rs : List Rec) (h : ∀ r ∈ rs, r.WF) :
    parseLines (renderLines w rs) = rs :=
  parseLines_renderLines w hw rs h

/-- … and therefore two layouts of the same records are read identically -/
theorem fasta_rewrap_invariant (w₁ w₂ : Nat) (h₁ : 0 < w₁) (h₂ : 0 < w₂) (rs : List Rec) (h : ∀ r ∈ rs, r.WF) :
    parseLines (renderLines w₁ rs) = parseLines (renderLines w₂ rs) := by
  rw [parseLines_renderLines w₁ h₁ rs h, parseLines_renderLines w₂ h₂ rs h]

/-- file level (characters, not lines): the text the FASTA writer produces, read back, gives the records -/
theorem fasta_file_read_write (w : Nat) (hw : 0 < w) (rs : List Rec) (h : ∀ r ∈ rs, r.WF) (hd : ∀ r ∈ rs, '\n' ∉ r.desc) :
    parseFasta (renderFasta w rs) = rs := parseFasta_renderFasta w hw rs h hd

/-- file level: cutting the written text into lines gives the written lines back -/
theorem fasta_file_lines (ls : List Line) (h : ∀ l ∈ ls, '\n' ∉ l) : fileLines (unlines ls) = ls :=
  fileLines_unlines ls h

example : (⟨"s1".toList, "a b".toList, "ACGT".toList⟩ : Rec).WF :=
  ⟨by decide, by decide, by decide, by decide, by decide⟩

/-! ## esl-seqstat: the loop computes count, sum, minimum, maximum -/

theorem seqstat_nseq (ls : List Nat) : (stats ls).nseq = ls.length := by
  simp [stats, foldl_statsStep_nseq]

theorem seqstat_nres (ls : List Nat) : (stats ls).nres = ls.sum := by
  simp [stats, foldl_statsStep_nres]

/-- `Smallest` is a lower bound of all lengths and is attained -/
theorem seqstat_small (ls : List Nat) (h : ls ≠ []) :
    (∀ x ∈ ls, (stats ls).small ≤ x) ∧ (stats ls).small ∈ ls := by
  cases ls with
  | nil => exact absurd rfl h
  | cons a t =>
    rw [stats_cons, foldl_statsStep_small _ _ (by simp)]
    refine ⟨?_, ?_⟩
    · intro x hx
      cases List.mem_cons.mp hx with
      | inl e => subst e; exact (foldl_min_le t _).1
      | inr hx => exact (foldl_min_le t _).2 x hx
    · cases foldl_min_mem t a with
      | inl e => simp [e]
      | inr e => simp [e]

/-- `Largest` is an upper bound of all lengths and is attained -/
theorem seqstat_large (ls : List Nat) (h : ls ≠ []) :
    (∀ x ∈ ls, x ≤ (stats ls).large) ∧ (stats ls).large ∈ ls := by
  cases ls with
  | nil => exact absurd rfl h
  | cons a t =>
    rw [stats_cons, foldl_statsStep_large _ _ (by simp)]
    refine ⟨?_, ?_⟩
    · intro x hx
      cases List.mem_cons.mp hx with
      | inl e => subst e; exact (le_foldl_max t _).1
      | inr hx => exact (le_foldl_max t _).2 x hx
    · cases foldl_max_mem t a with
      | inl e => simp [e]
      | inr e => simp [e]

/-- statistics are additive over concatenation of two (non-empty) inputs -/
theorem seqstat_concat (a b : List Nat) (ha : a ≠ []) (hb : b ≠ []) :
    (stats (a ++ b)).nseq = (stats a).nseq + (stats b).nseq ∧
    (stats (a ++ b)).nres = (stats a).nres + (stats b).nres ∧
    (stats (a ++ b)).small = min (stats a).small (stats b).small ∧
    (stats (a ++ b)).large = max (stats a).large (stats b).large := by
  have hab : a ++ b ≠ [] := by simp [ha]
  refine ⟨by simp [seqstat_nseq], by simp [seqstat_nres], ?_, ?_⟩
  · have sab := seqstat_small (a ++ b) hab
    have sa := seqstat_small a ha
    have sb := seqstat_small b hb
    apply Nat.le_antisymm
    · apply Nat.le_min.mpr
      exact ⟨sab.1 _ (List.mem_append_left _ sa.2), sab.1 _ (List.mem_append_right _ sb.2)⟩
    · cases List.mem_append.mp sab.2 with
      | inl h => exact Nat.le_trans (Nat.min_le_left _ _) (sa.1 _ h)
      | inr h => exact Nat.le_trans (Nat.min_le_right _ _) (sb.1 _ h)
  · have sab := seqstat_large (a ++ b) hab
    have sa := seqstat_large a ha
    have sb := seqstat_large b hb
    apply Nat.le_antisymm
    · cases List.mem_append.mp sab.2 with
      | inl h => exact Nat.le_trans (sa.1 _ h) (Nat.le_max_left _ _)
      | inr h => exact Nat.le_trans (sb.1 _ h) (Nat.le_max_right _ _)
    · apply Nat.max_le.mpr
      exact ⟨sab.1 _ (List.mem_append_left _ sa.2), sab.1 _ (List.mem_append_right _ sb.2)⟩

example : stats [14, 4] = { nseq := 2, nres := 18, small := 4, large := 14 } := by decide

/-! ## reverse complement (esl-alirev, esl-sfetch -r, reversed coordinates) -/

/-- reverse complementing twice is the identity on every row over the digital DNA alphabet (all 18 symbols) … -/
theorem alirev_involution_dna (s : List Char) (h : ∀ c ∈ s, c ∈ Abc.dna.syms) :
    revcompSyms .dna (revcompSyms .dna s) = s := revcompSyms_revcompSyms_dna s h

/-- … and over the RNA alphabet -/
theorem alirev_involution_rna (s : List Char) (h : ∀ c ∈ s, c ∈ Abc.rna.syms) :
    revcompSyms .rna (revcompSyms .rna s) = s := revcompSyms_revcompSyms_rna s h

/-- the alignment keeps its length, and column `i` of the result is the complement of column `alen-1-i` -/
theorem alirev_columns (a : Abc) (s : List Char) :
    (revcompSyms a s).length = s.length ∧
    ∀ i (h : i < s.length), (revcompSyms a s)[i]'(by simp [revcompSyms, h]) = a.comp (s[s.length - 1 - i]'(by omega)) :=
  ⟨revcompSyms_length a s, fun i h => revcompSyms_get a s i h⟩

/-- text-mode reverse complement (esl-sfetch -r) is an involution on DNA text (both cases, gaps, `*`), i.e. on every symbol
    it knows except `U`/`u`, which it maps to `A` (proved below: the exclusion is necessary) -/
theorem sfetch_revcomp_involution_partial (s : List Char) (h : ∀ c ∈ s, c ∈ dnaTextSyms) :
    revcompText (revcompText s) = s := revcompText_revcompText s h

theorem sfetch_revcomp_U_not_involutive : revcompText (revcompText ['U']) ≠ ['U'] := by decide

/-- fetched coordinates: `from..to` has `to-from+1` residues and residue `i` is residue `from+i` of the source -/
theorem sfetch_subseq (s : List Char) (f t : Nat) (hf : 1 ≤ f) (hft : f ≤ t) (ht : t ≤ s.length) :
    (subseq s f t).length = t + 1 - f ∧
    ∀ i (hi : i < t + 1 - f), (subseq s f t)[i]'(by rw [subseq_length s f t hf hft ht]; exact hi) = s[f - 1 + i]'(by omega) :=
  ⟨subseq_length s f t hf hft ht, fun i hi => subseq_get s f t i hf hft ht hi⟩

example : subseq "ACGTACGT".toList 3 5 = "GTA".toList := by decide

/-! ## esl-seqrange: the `nproc` ranges partition `1..n` into consecutive chunks whose sizes differ by at most one -/

theorem seqrange_partition (n nproc : Nat) (hp : 0 < nproc) :
    (seqrange n nproc 1).1 = 1 ∧
    (seqrange n nproc nproc).2 = n ∧
    (∀ p, 1 ≤ p → p < nproc → (seqrange n nproc (p + 1)).1 = (seqrange n nproc p).2 + 1) ∧
    (∀ p, 1 ≤ p → p ≤ nproc →
      let r := seqrange n nproc p
      (r.2 + 1 - r.1 = n / nproc ∨ r.2 + 1 - r.1 = n / nproc + 1) ∧ r.1 ≤ r.2 + 1) := by
  have hdiv : n / nproc * nproc ≤ n := Nat.div_mul_le_self n nproc
  have hmod : n - n / nproc * nproc < nproc := by
    have := Nat.mod_lt n hp
    have h2 := Nat.div_add_mod n nproc
    rw [Nat.mul_comm] at h2
    omega
  refine ⟨by simp [seqrange, usedAfter], ?_, ?_, ?_⟩
  · simp only [seqrange, usedAfter_closed]
    rw [Nat.min_eq_right (Nat.le_of_lt hmod), Nat.mul_comm]; omega
  · intro p h1 _; simp [seqrange]
  · intro p h1 h2
    simp only [seqrange, usedAfter_closed]
    generalize n / nproc = q
    generalize n - q * nproc = r
    have e : (p - 1) * q + q = p * q := by
      have := Nat.succ_mul (p - 1) q
      have hp1 : (p - 1).succ = p := by omega
      rw [hp1] at this; omega
    constructor <;> omega

example : seqrange 10 3 1 = (1, 4) ∧ seqrange 10 3 2 = (5, 7) ∧ seqrange 10 3 3 = (8, 10) := by decide

/-! ## esl-selectn: for EVERY generator (any roll function, any state) the output is `m` lines taken from distinct
    positions of the input (a permutation of a sub-list), provided the input has at least `m` lines -/

theorem selectn_selects {α σ : Type} [DecidableEq α] (roll : σ → Nat → Nat × σ) (m : Nat) (lines : List α) (s : σ) :
    ∃ l, l.Sublist lines ∧ (selectn roll m lines s).Perm l := by
  have := reservoir_inv roll m lines 0 s [] [] ⟨[], List.Sublist.refl _, List.Perm.refl _⟩
  simpa [selectn] using this

theorem selectn_count {α σ : Type} (roll : σ → Nat → Nat × σ) (m : Nat) (lines : List α) (s : σ)
    (h : m ≤ lines.length) : (selectn roll m lines s).length = m := by
  have := reservoir_length roll m lines 0 s [] (by simp)
  simp only [selectn, this]; omega

/-- reproducibility with a fixed seed: the output is a function of (seed, m, file) -/
theorem selectn_deterministic (seed m : Nat) (f : List Char) : selectnText seed m f = selectnText seed m f := rfl

/-! ## esl-mask: length unchanged; exactly the requested coordinates change -/

theorem mask_length (o : MaskOpts) (start stop : Int) (s : List Char) : (maskSeq o start stop s).length = s.length :=
  maskSeq_length o start stop s

/-- normal mode without `-l`: position `k` (0-based) is masked iff it is alphabetic and
    `max 0 (start-x) ≤ k ≤ min (n-1) (stop+x)`; every other position is untouched -/
theorem mask_normal (o : MaskOpts) (hr : o.rev = false) (hl : o.lower = false) (start stop : Int) (s : List Char)
    (k : Nat) (h : k < s.length) :
    (maskSeq o start stop s)[k]'(by rw [mask_length]; exact h) =
      if max 0 (start - o.x) ≤ (k : Int) ∧ (k : Int) ≤ min ((s.length : Int) - 1) (stop + o.x) ∧ s[k].isAlpha
      then o.mchar else s[k] := by
  simp only [maskSeq, hr, hl, Bool.false_eq_true, ↓reduceIte]
  rw [maskBetween_get o _ _ s k h]
  by_cases ha : s[k].isAlpha <;> simp [maskFn, ha, hl]

/-- reverse mode (`-r`) without `-l`: positions `0..start-2+x` and `stop+1-x..n-1` are masked, the rest is untouched
    (`start`, `stop` 0-based as computed by the tool) -/
theorem mask_reverse (o : MaskOpts) (hr : o.rev = true) (hl : o.lower = false) (hm : o.mchar.isAlpha = true)
    (start stop : Int) (s : List Char) (k : Nat) (h : k < s.length) :
    (maskSeq o start stop s)[k]'(by rw [mask_length]; exact h) =
      if ((k : Int) ≤ start - 1 + o.x ∨ stop + 1 - o.x ≤ (k : Int)) ∧ s[k].isAlpha then o.mchar else s[k] := by
  have hlen1 : k < (maskBetween o 0 (min ((s.length:Int) - 1) (start - 1 + o.x)) s).length := by
    rw [maskBetween_length]; exact h
  simp only [maskSeq, hr, hl, Bool.false_eq_true, ↓reduceIte]
  rw [maskBetween_get o _ _ _ k hlen1, maskBetween_get o _ _ s k h]
  simp only [maskFn, hl, Bool.false_eq_true, ↓reduceIte]
  have e1 : (0 ≤ (k:Int) ∧ (k:Int) ≤ min ((s.length:Int) - 1) (start - 1 + o.x)) ↔ (k:Int) ≤ start - 1 + o.x := by
    constructor <;> intro _ <;> omega
  have e2 : (max 0 (stop + 1 - o.x) ≤ (k:Int) ∧ (k:Int) ≤ (s.length:Int) - 1) ↔ stop + 1 - o.x ≤ (k:Int) := by
    constructor <;> intro _ <;> omega
  simp only [e1, e2]
  by_cases ha : s[k].isAlpha <;> by_cases h1 : (k:Int) ≤ start - 1 + o.x <;> by_cases h2 : stop + 1 - o.x ≤ (k:Int) <;>
    simp [ha, h1, h2, hm]

example : maskSeq {} 1 2 "ACGT".toList = "AXXT".toList := by decide
example : maskSeq { rev := true } 1 2 "ACGT".toList = "XCGX".toList := by decide

/-! ## esl-alipid: identity = identical residue pairs / min(ungapped lengths); match = aligned pairs / columns with a residue -/

/-- counters are bounded as a fraction requires: `nid ≤ n = min(len1,len2)`, `nmatch ≤ mlen`, hence both percentages ≤ 100 -/
theorem alipid_bounds (a : Abc) (x y : List Char) :
    (pairStats a x y).nid ≤ (pairStats a x y).n ∧ (pairStats a x y).nmatch ≤ (pairStats a x y).mlen ∧
    (pairStats a x y).nid ≤ (pairStats a x y).nmatch := by
  have := pairFold_inv a (x.zip y) ⟨0, 0, 0, 0, 0⟩ (by simp)
  simp only [pairStats, PairId.n] at *
  omega

/-- pairwise identity is symmetric in the two rows -/
theorem alipid_symmetric (a : Abc) (x y : List Char) :
    (pairStats a y x).nid = (pairStats a x y).nid ∧ (pairStats a y x).n = (pairStats a x y).n ∧
    (pairStats a y x).nmatch = (pairStats a x y).nmatch ∧ (pairStats a y x).mlen = (pairStats a x y).mlen := by
  have := pairFold_swap a x y ⟨0, 0, 0, 0, 0⟩
  have e : (⟨0, 0, 0, 0, 0⟩ : PairId).swap = ⟨0, 0, 0, 0, 0⟩ := rfl
  rw [e] at this
  simp only [pairStats, this, PairId.swap, PairId.n]
  exact ⟨trivial, Nat.min_comm _ _, trivial, trivial⟩

example : pairStats .dna "AC-GT".toList "ACNG-".toList = ⟨3, 4, 4, 3, 5⟩ := by decide

/-! ## esl-shuffle: for EVERY generator the shuffled sequence is a permutation of the input (composition preserved);
    with a fixed seed the output is a function of the input (reproducible) -/

theorem shuffle_mono_permutation {α σ : Type} (roll : σ → Nat → Nat × σ) (x : List α) (s : σ) :
    (cshuffle roll x s).1.Perm x := cshuffle_perm roll x s

theorem shuffle_windows_permutation {α σ : Type} (roll : σ → Nat → Nat × σ) (w : Nat) (x : List α) (s : σ) :
    (cshuffleWindows roll w x s).1.Perm x := cshuffleWindows_perm roll w x s

theorem shuffle_kmers_permutation {α σ : Type} (roll : σ → Nat → Nat × σ) (K : Nat) (x : List α) (s : σ) :
    (cshuffleKmers roll K x s).1.Perm x := cshuffleKmers_perm roll K x s

/-- `esl-shuffle -A`: the columns of the shuffled alignment are a permutation of the input columns (every row is
    rearranged by the same permutation), for every roll function -/
theorem shuffle_msa_columns_permutation {σ : Type} (roll : σ → Nat → Nat × σ) (rows : List (List Char)) (s : σ) :
    (cshuffle roll (transposeCols rows) s).1.Perm (transposeCols rows) := msaColShuffle_cols_perm roll rows s

/-- hence lengths and every residue count are preserved -/
theorem shuffle_mono_counts {σ : Type} (roll : σ → Nat → Nat × σ) (x : List Char) (s : σ) (c : Char) :
    (cshuffle roll x s).1.length = x.length ∧ (cshuffle roll x s).1.count c = x.count c :=
  ⟨(cshuffle_perm roll x s).length_eq, (cshuffle_perm roll x s).count_eq c⟩

theorem shuffle_reproducible (seed : Nat) (o : ShufOpts) (recs : List Rec) :
    shuffleText seed o recs = shuffleText seed o recs := rfl

/-! ## esl-reformat: residue-conversion options -/

/-- rows are converted position by position: number of records and every row length are unchanged (aligned output) -/
theorem reformat_afa_shape (o : ReformatOpts) (recs : List Rec) :
    (reformatAfa o recs).length = recs.length ∧
    ∀ i (h : i < recs.length), ((reformatAfa o recs)[i]'(by rw [reformatAfa_length]; exact h)).seq.length = recs[i].seq.length := by
  refine ⟨reformatAfa_length o recs, ?_⟩
  intro i h
  simp [reformatAfa, renameRec_seq]

/-- with no conversion option the residues are untouched … -/
theorem reformat_no_option_identity (al : Bool) (c : Char) : convChar {} al c = c := convChar_id al c

/-- … `-u` is idempotent, and `-r` then `-d` gives back every residue that was not a `U`/`u` -/
theorem reformat_upper_idempotent (c : Char) :
    symconv lowerS upperS (symconv lowerS upperS c) = symconv lowerS upperS c := upper_idem c

theorem reformat_rna_then_dna (c : Char) (h : c ∉ "Uu".toList) :
    symconv "Uu".toList "Tt".toList (symconv "Tt".toList "Uu".toList c) = c := rna_dna c h

/-- `--mingap` / `--nogap`: every row is cut by the same column mask, so the result is still an alignment (equal row
    lengths) and no row grows -/
theorem reformat_gap_columns (keep : List Bool) (r₁ r₂ : List Char) (h : r₁.length = r₂.length) :
    (selectCols keep r₁).length = (selectCols keep r₂).length ∧ (selectCols keep r₁).length ≤ r₁.length :=
  ⟨selectCols_length_eq keep r₁ r₂ h, selectCols_length_le keep r₁⟩

example : (dropGapColumns false [⟨"a".toList, [], "A-C-".toList⟩, ⟨"b".toList, [], "AG--".toList⟩]).map (·.seq) =
    ["A-C".toList, "AG-".toList] := by decide
example : (dropGapColumns true [⟨"a".toList, [], "A-C-".toList⟩, ⟨"b".toList, [], "AG--".toList⟩]).map (·.seq) =
    ["A".toList, "A".toList] := by decide

/-- fasta → afa → fasta: the unaligned FASTA written from an ungapped aligned FASTA, read back, gives the same names and
    residues (`reformatFasta {}` of gap-free records is the identity, and write∘read = id by `fasta_read_write`) -/
theorem reformat_roundtrip (recs : List Rec) (h : ∀ r ∈ recs, r.WF) (hg : ∀ r ∈ recs, ∀ c ∈ r.seq, isGapC c = false) :
    parseLines (renderLines 60 (reformatFasta {} true (parseLines (renderLines 60 recs)))) = recs := by
  rw [parseLines_renderLines 60 (by decide) recs h]
  have e : reformatFasta {} true recs = recs := by
    simp only [reformatFasta]
    apply List.ext_getElem
    · simp
    · intro i h1 h2
      simp only [List.getElem_mapIdx, renameRec]
      have hr : recs[i] ∈ recs := List.getElem_mem _
      have hf : (recs[i].seq.filter fun c => !isGapC c) = recs[i].seq := by
        apply List.filter_eq_self.mpr
        intro c hc; simp [hg _ hr c hc]
      simp only [↓reduceIte, hf]
      have hm : recs[i].seq.map (convChar {} false) = recs[i].seq := by
        conv => rhs; rw [← List.map_id recs[i].seq]
        apply List.map_congr_left
        intro c _; simp [convChar_id]
      rw [hm]
  rw [e, parseLines_renderLines 60 (by decide) recs h]

/-! ## esl-alistat / easel alistat: the reported counts are the recomputed ones -/

theorem alistat_counts (a : Abc) (rows : List (List Char)) (h : rows ≠ []) :
    (aliStats a rows).nseq = rows.length ∧
    (aliStats a rows).nres = (rows.map (rowRlen a)).sum ∧
    (∀ r ∈ rows, (aliStats a rows).small ≤ rowRlen a r ∧ rowRlen a r ≤ (aliStats a rows).large) ∧
    (∃ r ∈ rows, rowRlen a r = (aliStats a rows).small) ∧ (∃ r ∈ rows, rowRlen a r = (aliStats a rows).large) ∧
    (∀ r ∈ rows, rowRlen a r ≤ r.length) := by
  have hne : rows.map (rowRlen a) ≠ [] := by simpa using h
  have hs := seqstat_small _ hne
  have hl := seqstat_large _ hne
  refine ⟨rfl, aliStats_nres a rows, ?_, ?_, ?_, fun r _ => rowRlen_le a r⟩
  · intro r hr
    exact ⟨hs.1 _ (List.mem_map_of_mem hr), hl.1 _ (List.mem_map_of_mem hr)⟩
  · obtain ⟨r, hr, e⟩ := List.mem_map.mp hs.2
    exact ⟨r, hr, e⟩
  · obtain ⟨r, hr, e⟩ := List.mem_map.mp hl.2
    exact ⟨r, hr, e⟩

example : aliStats .dna ["AC-GT".toList, "A--G-".toList] = ⟨2, 5, 6, 2, 4⟩ := by decide

/-! ## esl-translate
The reference function `translateText` is a composition: FASTA reader (above) ∘ the C17 six-frame ORF machine
(`EaselModel.Gencode.runStrand`, whose theorems are `Props/C17.lean`) ∘ FASTA writer, under the hand-pinned NCBI table.
What is added here is only that the composition numbers the ORFs through the whole file and names their source. -/

theorem translate_orf_header (name desc : List Char) (o : EaselModel.Gencode.Orf) :
    (orfRecord name desc o).name = ("orf" ++ toString o.num).toList ∧ (orfRecord name desc o).seq.length = o.aa.length := by
  simp [orfRecord]

/-! ## round 2 additions -/

/-- `esl-sfetch -r -c <to>..<from>` (reversed coordinates AND `-r`): the two reverse-complement steps cancel, the forward
    sub-sequence `from..to` is returned (DNA text without `U`) -/
theorem sfetch_r_and_reversed_coords_cancel (s : List Char) (f t : Nat) (h : ∀ c ∈ s, c ∈ dnaTextSyms) :
    revcompText (revcompText (subseq s f t)) = subseq s f t := by
  apply revcompText_revcompText
  intro c hc
  exact h c (List.mem_of_mem_drop (List.mem_of_mem_take hc))

/-- `esl-shuffle -A -b`: every column of a bootstrap sample is one of the input columns, whatever the generator does
    (a roll of `n` is below `n`) -/
theorem bootstrap_columns_from_input {σ : Type} (roll : σ → Nat → Nat × σ) (hroll : ∀ s n, 0 < n → (roll s n).1 < n)
    (cols : Array (List Char)) (hne : 0 < cols.size) (k : Nat) (s : σ) (acc : List (List Char)) (hacc : ∀ c ∈ acc, c ∈ cols.toList) :
    ∀ c ∈ (bootstrapCols roll cols k s acc).1, c ∈ cols.toList := by
  induction k generalizing s acc with
  | zero => intro c hc; simp only [bootstrapCols, List.mem_reverse] at hc; exact hacc c hc
  | succ k ih =>
    unfold bootstrapCols
    apply ih
    intro c hc
    cases List.mem_cons.mp hc with
    | inr h => exact hacc c h
    | inl e =>
      have hlt := hroll s cols.size hne
      subst e
      simp [Array.getD, hlt]

example : revcompText (revcompText (subseq "ACGTTGCAAG".toList 3 7)) = "GTTGC".toList := by decide

/-- `easel downsample`: the same selection theorem with the 64-bit generator plugged in -/
theorem downsample_selects {α : Type} [DecidableEq α] (m : Nat) (items : List α) (g : EaselModel.Random.Rng64) :
    ∃ l, l.Sublist items ∧ (selectn rollRng64 m items g).Perm l := selectn_selects rollRng64 m items g

/-! ## esl-reformat between alignment formats, with options (`Miniapps/ReformatMsa.lean` = C03 readers/writers ∘ C15 operations)

"reformatting converts between any two compatible formats without changing names or residues (and conversion back returns
the original)" for the alignment branch of the tool, which the round-1/2 check covered only through a monitor. -/
section ReformatMsa
open EaselModel.Msafile EaselModel.Miniapps.Ali

/-- `esl-reformat --namelen 10 phylip|phylips` prints exactly what `esl-reformat phylip|phylips` prints -/
theorem reformat_namelen_default_is_phylip (seq : Bool) (abc : Option Msafile.Abc) (m : FMsa) :
    phylipWriteW 10 seq abc m = phylipWrite seq abc m := phylipWriteW_ten seq abc m

/-- **`--namelen` round trip**: the file written with `--namelen 10` in either PHYLIP flavour, read back in THAT flavour,
    is the alignment (names cut to ten characters, rows exactly): conversion and back returns the original.
    (The seeded change C13-c - interleaved output under `phylips` - breaks this for every alignment wider than 60 columns.) -/
theorem reformat_namelen_roundtrip (seq : Bool) (m : FMsa) (h : PhylipTextWritable m) :
    phylipRead seq (phylipCfg none) (splitLines (phylipWriteW 10 seq none m)) = (.ok (phylipProject (phylipCfg none) m), []) := by
  rw [phylipWriteW_ten]
  cases seq
  · exact phylipRead_write none (phylipCfg none) id _ m (phylipTextWritable_writable m h)
  · exact phylipsRead_write none (phylipCfg none) id _ m (phylipTextWritable_writable m h)

/-- **sequential layout at every name width**: `--namelen n phylips` prints the header and then the sequences one after
    the other, and the residue parts of one sequence's lines, glued together, are its row (upper-cased, `._` as `-`, `~` as `?`
    by the writer's rectification) behind its name cut/padded to `n` columns: residues are never interleaved with another
    sequence's, whatever `n` and however wide the alignment -/
theorem reformat_phylips_row_contiguous (nw : Nat) (m : FMsa) (halen : 1 ≤ m.alen) (idx : Nat)
    (hlen : (m.aseq.getD idx []).length = m.alen) (h0 : ∀ c ∈ m.aseq.getD idx [], c ≠ 0) :
    phylipSequentialLinesW nw none m = phyWrHeader m :: (List.range m.nseq).flatMap (phySeqRowLines nw none m) ∧
    (phySeqRowLines nw none m idx).flatten = padTrunc nw (m.names.getD idx []) ++ [32] ++ phyRectifyText (m.aseq.getD idx []) :=
  ⟨rfl, phySeqRowLines_flatten nw m idx halen hlen h0⟩

/-- the tool is `write ∘ transform ∘ read` on a file that holds one alignment -/
theorem reformat_msa_is_write_transform_read (o : Opts) (infmt outfmt : String) (src : Bytes)
    (rd : List Bytes → Res FMsa × List Bytes) (m : FMsa)
    (hrd : readerOf infmt = some rd) (h1 : rd (splitLines src) = (.ok m, [])) (h2 : rd [] = (.eof, [])) :
    reformatMsa o infmt outfmt src = (transform o m).bind (writeOne o outfmt) :=
  reformatMsa_single o infmt outfmt src rd m hrd h1 h2

/-- **conversion and back** through the tool: aligned FASTA written by the tool, given back to the tool, is reproduced byte for byte -/
theorem reformat_afa_idempotent (m : FMsa) (h : AfaTextWritable m) :
    reformatMsa {} "afa" "afa" (afaWrite none m) = some (afaWrite none m) := by
  have hr : afaRead (afaCfg none) (splitLines (afaWrite none m)) = (.ok (afaProject (afaCfg none) m), []) :=
    afaRead_write none (afaCfg none) id m (afaTextWritable_writable m h)
  rw [reformatMsa_single {} "afa" "afa" _ (afaRead (afaCfg none)) _ (by simp [readerOf]) hr (by simp [afaRead, runLines, afaFinish]),
      transform_no_option]
  simp [writeOne, msafileWriteTool_afa, msafileWrite, afaWrite_project_text m h]

/-- … PHYLIP (either flavour) written by the tool and converted to aligned FASTA by the tool gives the names (first ten
    characters) and rows of the alignment: the AFA rendering of C03's `phylipProject` -/
theorem reformat_phylip_to_afa (seq : Bool) (m : FMsa) (h : PhylipTextWritable m) :
    reformatMsa {} (if seq then "phylips" else "phylip") "afa" (phylipWrite seq none m)
      = some (afaWrite none (phylipProject (phylipCfg none) m)) := by
  cases seq
  · have hr := phylipRead_write none (phylipCfg none) id _ m (phylipTextWritable_writable m h)
    rw [show (if false = true then "phylips" else "phylip") = "phylip" from rfl,
        reformatMsa_single {} "phylip" "afa" _ (phylipRead false (phylipCfg none)) _ (by simp [readerOf]) hr (by decide), transform_no_option]
    simp [writeOne, msafileWriteTool_afa, msafileWrite]
  · have hr := phylipsRead_write none (phylipCfg none) id _ m (phylipTextWritable_writable m h)
    rw [show (if true = true then "phylips" else "phylip") = "phylips" from rfl,
        reformatMsa_single {} "phylips" "afa" _ (phylipRead true (phylipCfg none)) _ (by simp [readerOf]) hr (by decide), transform_no_option]
    simp [writeOne, msafileWriteTool_afa, msafileWrite]

/-- `--namelen n` changes nothing for the eight formats that are not PHYLIP -/
theorem reformat_namelen_ignored_elsewhere (n : Nat) (outfmt : String) (m : FMsa) (h1 : outfmt ≠ "phylip") (h2 : outfmt ≠ "phylips") :
    writeOne { namelen := some n } outfmt m = writeOne {} outfmt m := by
  simp [writeOne, h1, h2]

/-- the residue conversions never change the shape: same number of rows, same row lengths, names untouched -/
theorem reformat_convert_keeps_shape (o : Opts) (m : FMsa) :
    (convertSyms o m).names = m.names ∧ (convertSyms o m).alen = m.alen ∧
    (convertSyms o m).aseq.map List.length = m.aseq.map List.length := by
  have hs : ∀ (a b : Bytes) (x : FMsa), (symConvert a b x).names = x.names ∧ (symConvert a b x).alen = x.alen ∧
      (symConvert a b x).aseq.map List.length = x.aseq.map List.length := by
    intro a b x
    simp [symConvert, Function.comp_def]
  unfold convertSyms
  repeat' split
  all_goals simp only [hs, and_self]

/-! non-vacuity: 2 sequences, 61 columns (two lines per sequence), one name longer than ten characters -/
def exAli61 : FMsa :=
  { alen := 61, names := [[115, 101, 113, 49], [97, 98, 99, 100, 101, 102, 103, 104, 105, 106, 107, 108]],
    aseq := [List.replicate 30 65 ++ [45] ++ List.replicate 30 67, List.replicate 60 71 ++ [63]],
    wgt := [.dflt, .dflt] }

theorem exAli61_writable : PhylipTextWritable exAli61 :=
  { dig := rfl, n1 := by decide, alen1 := by decide, nmax := by decide, amax := by decide
    name_ok := by unfold phyNameOk; decide +kernel
    row_ok := by decide +kernel }

example : (phySeqRowLines 4 none exAli61 1).flatten
    = padTrunc 4 (exAli61.names.getD 1 []) ++ [32] ++ phyRectifyText (exAli61.aseq.getD 1 []) := by decide +kernel
example : phylipRead true (phylipCfg none) (splitLines (phylipWriteW 10 true none exAli61))
    = (.ok (phylipProject (phylipCfg none) exAli61), []) := by decide +kernel
/-- the interleaved rendering of the same alignment is NOT a sequential file of it (what C13-c silently wrote) -/
example : phylipWriteW 10 false none exAli61 ≠ phylipWriteW 10 true none exAli61 := by decide +kernel
example : reformatMsa { namelen := some 10 } "phylips" "phylips" (phylipWrite true none exAli61)
    = some (phylipWrite true none exAli61) := by decide +kernel

end ReformatMsa

/-! ## esl-alimask and esl-alimanip: "masking … and subset-selection tools agree with their definitions"

The tools' own code computes a column mask (esl-alimask) or a row mask (esl-alimanip); applying it is C15's
`ColumnSubset` / `SequenceSubset`.  The complete stdout of both tools is compared with `Ali.alimask` / `Ali.alimanip`. -/
section AliTools
open EaselModel.Msa EaselModel.Miniapps.Ali

/-- **esl-alimask writes the column subset**: whatever mode computed the mask, the alignment written has every row, the RF
    line (and all other per-column annotation, C15 `colFilter`) cut by that one mask, the same sequences under the same
    names and weights, and is well formed; nothing but columns is removed -/
theorem alimask_is_column_subset (nucleic : Bool) (t t' : TMsa) (useme : List Bool) (wf : t.WF) (habc : t.abc = none)
    (hm : useme.length = t.alen) (h : alimaskApply nucleic t useme = some t') :
    t'.rows = t.rows.map (maskFilter useme) ∧ t'.alen = (useme.filter id).length ∧ t'.sqname = t.sqname ∧ t'.nseq = t.nseq ∧
    t'.rf = t.rf.map (maskFilter useme) ∧ t'.wgt = t.wgt ∧ t'.WF :=
  alimaskApply_spec nucleic t t' useme wf habc hm h

/-- **`esl-alimask -t a..b` keeps exactly columns a..b** of every row (1-based, inclusive) -/
theorem alimask_truncate_is_slice (row : Bytes) (a b : Nat) :
    maskFilter (truncMask row.length a b) row = (row.take b).drop (a - 1) := truncMask_slice row a b

example : maskFilter (truncMask 6 2 4) [65, 67, 71, 84, 45, 65] = [67, 71, 84] := by decide

/-- **esl-alimanip's sequence removal keeps the rows it selects**: each of `--seq-k`, `--seq-r`, `--lnfract`, `--lxfract`, `--lmin`, `--lmax`,
    `--rffract`, `--detrunc` is `esl_msa_SequenceSubset` over a computed mask: the selected rows, names and weights in alignment order,
    unchanged; the alignment length, alphabet and mode unchanged; at least one sequence left -/
theorem alimanip_seq_subset_keeps_rows (t t' : TMsa) (useme : List Bool) (h : subsetRows t useme = some t') :
    t'.rows = maskFilter useme t.rows ∧ t'.sqname = maskFilter useme t.sqname ∧ t'.wgt = maskFilter useme t.wgt ∧
    t'.alen = t.alen ∧ t'.nseq = countSelected t useme ∧ t'.nseq ≠ 0 ∧ t'.abc = t.abc ∧ t'.flags = t.flags :=
  subsetRows_spec t t' useme h

/-- `--seq-k <f>` / `--seq-r <f>` select by "the name is listed in <f>" (every listed name must exist, none twice) -/
theorem alimanip_seq_list_is_subset (t t' : TMsa) (seqlist : List Bytes) (doKeep : Bool)
    (h : keepOrRemove t seqlist doKeep false = some t') :
    ∃ idx, seqlist.mapM (fun nm => t.sqname.idxOf? nm) = some idx ∧
      subsetRows t ((List.range t.nseq).map fun i => if idx.contains i then doKeep else !doKeep) = some t' :=
  keepOrRemove_is_subset t t' seqlist doKeep h

/-- `--reorder` / `--k-reorder`: a row and its name move together -/
theorem alimanip_reorder_attached (t : TMsa) (order : List Nat) (i : Nat) (hi : i < order.length) :
    (reorderMsa t order).rows.getD i [] = t.rows.getD (order.getD i 0) [] ∧
    (reorderMsa t order).sqname.getD i [] = t.sqname.getD (order.getD i 0) [] := reorderMsa_attached t order i hi

/-! non-vacuity: three sequences, keep the first and the third -/
def exT : TMsa := { Msa.create 3 4 with rows := [[65, 67, 71, 84], [65, 45, 45, 84], [45, 67, 71, 45]] }
example : (subsetRows exT [true, false, true]).map (·.rows) = some [[65, 67, 71, 84], [45, 67, 71, 45]] := by decide +kernel
example : (alimaskApply false exT [true, false, false, true]).map (·.rows) = some [[65, 84], [65, 84], [45, 45]] := by decide +kernel
example : (keepOrRemove exT [[115, 50], [115, 48]] true true).map (·.sqname) = some [[115, 50], [115, 48]] := by decide +kernel

end AliTools

/-! ## esl-reformat fasta <alignment file>: "without changing names or residues" on the unaligned branch -/
section ReformatMsaToFasta
open EaselModel.Msafile EaselModel.Miniapps.Ali

/-- **no residue is lost or invented by the 60-column line wrapping**: the sequence lines of a record, joined, are the
    (converted) sequence; every line is non-empty and at most 60 long -/
theorem reformat_fasta_lines_are_sequence (name acc desc seq : Bytes) :
    (∃ hdr, fastaRecordB name acc desc seq = hdr ++ (seqLines 60 seq.length seq).flatMap (· ++ [10])) ∧
    (seqLines 60 seq.length seq).flatten = seq ∧ ∀ l ∈ seqLines 60 seq.length seq, 0 < l.length ∧ l.length ≤ 60 := by
  obtain ⟨hdr, h1, h2⟩ := fastaRecordB_body name acc desc seq
  exact ⟨⟨hdr, h1⟩, h2, seqLines_widths 60 (by decide) _ _⟩

/-- the residue options convert position by position (no residue added or dropped) and, with none given, change nothing -/
theorem reformat_fasta_convert_pointwise (o : Opts) (s : Bytes) :
    (convertSeq o s).length = s.length ∧ convertSeq {} s = s := ⟨convertSeq_length o s, convertSeq_no_option s⟩

/-- non-vacuity: two Stockholm alignments in one file; `--rename` numbers run on across alignments; the accession and the
    description follow the name; gap characters `-._~` are removed, an all-gap row gives a header without sequence lines -/
example : reformatMsaToFasta { rename := some (str "n") } "stockholm"
    (str "# STOCKHOLM 1.0\n#=GS s1 AC A1\n#=GS s1 DE d e\ns1 A-c.G\ns2 -._~-\n//\n# STOCKHOLM 1.0\nt1 UU\n//\n")
    = some (str ">n.1 A1 d e\nAcG\n>n.2\n>n.3\nUU\n") := by decide +kernel

end ReformatMsaToFasta

/-! ## esl-alistat with the optional output files (`Miniapps/AlistatInfo.lean`): "alignment statistics equal recomputed counts"

The counters are binary64 (the tool's own arithmetic is mirrored operation by operation and compared byte for byte with the
files the tool writes); what is provable without a theory of rounding is the *structure* of the counting. -/
section AlistatInfo
open EaselModel.Alphabet EaselModel.Miniapps.Ali

/-- every column has exactly `K+1` counters (K residues + gap), whatever the rows contain -/
theorem alistat_column_counters (A : Alphabet) (noAmbig : Bool) (rows : List (List Nat)) (apos : Nat) :
    (columnCounts A noAmbig rows apos).length = A.K + 1 := columnCounts_length A noAmbig rows apos

/-- a canonical residue or a gap is counted in its own cell only; missing data `~` and the nonresidue `*` nowhere -/
theorem alistat_count_cells (A : Alphabet) (ct : List Float) (wt : Float) :
    (∀ x y, x ≤ A.K → y ≠ x → (dCount A ct x wt).getD y 0.0 = ct.getD y 0.0) ∧
    (A.K + 3 ≤ A.Kp → dCount A ct (A.Kp - 1) wt = ct ∧ dCount A ct (A.Kp - 2) wt = ct) :=
  ⟨fun x y hx hy => dCount_canonical A ct x wt hx y hy,
   fun hK => ⟨dCount_missing A ct _ wt hK (Or.inl rfl), dCount_missing A ct _ wt hK (Or.inr rfl)⟩⟩

/-- the `rfpos` column of `--rinfo` / `--icinfo` has one cell per alignment column -/
theorem alistat_rfpos_cells (iamrf : List Bool) : (rfCells iamrf).length = iamrf.length := rfCells_length iamrf

/-- non-vacuity: RNA, `N` is shared out in quarters, `R` in halves over A and G; inserts are counted per RF gap -/
example : viewsRna.a.K = 4 ∧ viewsRna.a.Kp = 18 := by decide +kernel
example : insertCounts viewsRna.a [true, false, false, true] [[0, 1, 4, 2], [0, 4, 4, 2], [3, 3, 3, 3]] = [[0, 0, 0], [1, 0, 2], [0, 0, 0]] := by
  decide +kernel

end AlistatInfo

/-! ## esl-compstruct (`Miniapps/Compstruct.lean`; complete stdout compared) -/
section Compstruct
open EaselModel.Miniapps.Ali

/-- correct pairs never exceed the pairs there are (sensitivity and PPV are at most 100%), for all CT arrays, either rule -/
theorem compstruct_correct_le_pairs (m : Bool) (len : Nat) (kct tct : List Nat) :
    (comparePairs m len kct tct).kcorrect ≤ (comparePairs m len kct tct).kpairs ∧
    (comparePairs m len kct tct).tcorrect ≤ (comparePairs m len kct tct).tpairs := comparePairs_le m len kct tct

/-- the source's side note, proved: under the strict rule the correctly predicted trusted pairs ARE the true predicted pairs -/
theorem compstruct_strict_correct_symmetric (len : Nat) (kct tct : List Nat) :
    (comparePairs false len kct tct).kcorrect = (comparePairs false len kct tct).tcorrect := comparePairs_strict_symm len kct tct

/-- a structure compared with itself scores every pair, under either rule -/
theorem compstruct_self_is_perfect (m : Bool) (len : Nat) (ct : List Nat) :
    (comparePairs m len ct ct).kcorrect = (comparePairs m len ct ct).kpairs := comparePairs_self m len ct

/-- Mathews' rule (`-m`) only relaxes the strict one -/
theorem compstruct_mathews_relaxes (len : Nat) (kct tct : List Nat) :
    (comparePairs false len kct tct).kcorrect ≤ (comparePairs true len kct tct).kcorrect := comparePairs_mathews_ge len kct tct

/-- non-vacuity: trusted `<<..>>`, predicted with the inner pair slipped by one: strict 1/2, Mathews 2/2 -/
example : (EaselModel.Msa.wuss2ct (EaselModel.Msafile.str "<<..>>")).bind (fun k => (EaselModel.Msa.wuss2ct (EaselModel.Msafile.str "<.<.>>")).map fun t =>
    ((comparePairs false 6 k t).kcorrect, (comparePairs true 6 k t).kcorrect, (comparePairs true 6 k t).kpairs)) = some (1, 2, 2) := by
  decide +kernel

end Compstruct

/-! ## esl-alimask -p (`Miniapps/Alimask.lean: ppCounts, ppMask`): binary64/binary32 arithmetic, tied by exact comparison only;
    what is decidable is where the tool STOPS -/
section AlimaskPP
open EaselModel.Msafile EaselModel.Miniapps.Ali

/-- a PP gap under a residue, a character that is no PP class, or a sequence without a PP line stops the tool (no mask) -/
example : (ppCounts EaselModel.Msa.Gen.rnaAbc [str "A"] [some (str ".")] 0).isNone = true := by decide +kernel
example : (ppCounts EaselModel.Msa.Gen.rnaAbc [str "A"] [some (str "x")] 0).isNone = true := by decide +kernel
example : (ppCounts EaselModel.Msa.Gen.rnaAbc [str "A", str "C"] [some (str "9"), none] 0).isNone = true := by decide +kernel
example : (ppCounts EaselModel.Msa.Gen.rnaAbc [str "A", str "-"] [some (str "9"), some (str ".")] 0).isSome = true := by decide +kernel

end AlimaskPP

/-! ## esl-compalign (`Miniapps/Compalign.lean`; default and -c tables compared exactly) -/
section Compalign
open EaselModel.Miniapps.Ali

/-- an alignment compared with itself: every match residue and every insert residue is correct (100% in every column of the table) -/
theorem compalign_self_is_perfect (kp : List (Bool × Nat)) :
    (seqCounts kp kp).2.2.1 = (seqCounts kp kp).1 ∧ (seqCounts kp kp).2.2.2 = (seqCounts kp kp).2.1 := seqCounts_self kp

/-- correct never exceeds counted (every fraction of the table is at most 1), for all position lists -/
theorem compalign_correct_le_counted (kp tp : List (Bool × Nat)) :
    (seqCounts kp tp).2.2.1 ≤ (seqCounts kp tp).1 ∧ (seqCounts kp tp).2.2.2 ≤ (seqCounts kp tp).2.1 := seqCounts_le kp tp

/-- non-vacuity: RF `x.xx`, trusted row `AC-G`, test row `A-CG`: residue 2 moved from the insert after RF 1 to RF 2 -/
example : residuePositions EaselModel.Msa.Gen.rnaAbc [true, false, true, true] [0, 1, 4, 2] = [(true, 1), (false, 1), (true, 3)] := by decide +kernel
example : seqCounts [(true, 1), (false, 1), (true, 3)] [(true, 1), (true, 2), (true, 3)] = (2, 1, 2, 0) := by decide

end Compalign

/-! ## esl-afetch: "fetching returns the requested records" (`Miniapps/Afetch.lean`; complete stdout / output file compared) -/
section Afetch
open EaselModel.Msafile EaselModel.Miniapps.Ali

/-- **without an index** the alignment written is one whose name or accession IS the key (for every reader, every file) -/
theorem afetch_sequential_returns_requested (rd : List Bytes → Res FMsa × List Bytes) (key : Bytes) (fuel : Nat) (ls : List Bytes)
    (m : FMsa) (h : seqFetch rd key fuel ls = some m) : m.name = some key ∨ m.acc = some key := by
  have := seqFetch_matches rd key fuel ls m h
  simpa [keyMatches] using this

/-- … it is the FIRST such alignment of the file: a named record that does not match is passed over, a matching one ends
    the search (what follows it is never parsed, so damage behind the requested record does not matter) -/
theorem afetch_sequential_first_match (rd : List Bytes → Res FMsa × List Bytes) (key : Bytes) (fuel : Nat) (ls rest : List Bytes)
    (m : FMsa) (h : rd ls = (.ok m, rest)) (hn : m.name.isSome = true) :
    seqFetch rd key (fuel + 1) ls = if keyMatches key m then some m else seqFetch rd key fuel rest := by
  by_cases hk : keyMatches key m = true
  · simp [hk, seqFetch_first rd key fuel ls rest m h hn hk]
  · have hk' : keyMatches key m = false := by simpa using hk
    simp [hk', seqFetch_skip rd key fuel ls rest m h hn hk']

/-- **with an index** the record found is a record of the file whose name or accession is the key, names before accessions -/
theorem afetch_indexed_returns_requested (recs : List (FMsa × List Bytes)) (key : Bytes) (r : FMsa × List Bytes)
    (h : ssiFind recs key = some r) : r ∈ recs ∧ (r.1.name = some key ∨ r.1.acc = some key) := by
  have := ssiFind_mem recs key r h
  exact ⟨this.1, by simpa [keyMatches] using this.2⟩

theorem afetch_indexed_name_before_accession (recs : List (FMsa × List Bytes)) (key : Bytes) (r : FMsa × List Bytes)
    (h : recs.find? (fun r => r.1.name == some key) = some r) : ssiFind recs key = some r := ssiFind_name_first recs key r h

/-- **verbatim echo** (index, Stockholm → Stockholm / Pfam → Pfam): the output is the record's own lines from its offset
    up to and including its first `//` line, each ended by one LF — no line of the NEXT record, none dropped, none altered -/
theorem afetch_echo_is_record_text (span : List Bytes) (out : Bytes) (h : regurgitate span = some out) :
    ∃ pre l post, span = pre ++ l :: post ∧ isTerminator l = true ∧ (∀ x ∈ pre, isTerminator x = false) ∧
      out = (pre ++ [l]).flatMap (fun x => x ++ [10]) := regurgitate_eq span out h

/-- non-vacuity: a two-record file; by name, by accession, and the name-vs-accession tie with and without an index -/
def exSto2 : Bytes := str "# STOCKHOLM 1.0\n#=GF ID a1\n#=GF AC b2\ns1 AC\n//\n\n# STOCKHOLM 1.0\n#=GF ID b2\ns1 GG\n  //\n"
example : afetchOne { infmt := "stockholm" } exSto2 (str "b2") = some (str "# STOCKHOLM 1.0\n#=GF ID a1\n#=GF AC b2\n\ns1 AC\n//\n") := by
  decide +kernel
example : (spansOf "stockholm" exSto2).map (fun recs => (ssiFind recs (str "b2")).bind (fun r => regurgitate r.2))
    = some (some (str "\n# STOCKHOLM 1.0\n#=GF ID b2\ns1 GG\n  //\n")) := by decide +kernel
example : (spansOf "stockholm" exSto2).map indexable = some false := by decide +kernel

end Afetch

/-! ## esl-alimerge (in-memory mode; `Miniapps/Alimerge.lean`, complete stdout compared): "the merged alignment restricted to the sequences
    of one input equals that input up to inserted all-gap columns" -/
section Alimerge
open EaselModel.Msafile EaselModel.Miniapps.Ali

/-- **restriction**: whatever gap-count vector `determine_gap_columns_to_add` produced for an input (any vector with one entry per
    alignment position plus one), dropping the added columns from a merged row returns the input row, residue for residue -/
theorem alimerge_restriction (ngapA : List Nat) (gapc : UInt8) (row : Bytes) (h : row.length + 1 ≤ ngapA.length) :
    deflate ngapA (inflate ngapA gapc row) = row := deflate_inflate ngapA gapc row h

/-- the merged row is longer by exactly the number of added columns … -/
theorem alimerge_length (ngapA : List Nat) (gapc : UInt8) (row : Bytes) (h : ngapA.length = row.length + 1) :
    (inflate ngapA gapc row).length = row.length + ngapA.sum := inflate_length ngapA gapc row h

/-- … so the rows (and the RF line) of one input, inflated with that input's vector, stay aligned with each other: the added
    columns are the same columns in every row of the input, and every character added is the gap character -/
theorem alimerge_rows_stay_aligned (ngapA : List Nat) (gapc : UInt8) (r₁ r₂ : Bytes)
    (h₁ : ngapA.length = r₁.length + 1) (h₂ : r₂.length = r₁.length) :
    (inflate ngapA gapc r₁).length = (inflate ngapA gapc r₂).length := by
  rw [inflate_length ngapA gapc r₁ h₁, inflate_length ngapA gapc r₂ (by omega)]; omega

/-- `update_maxgap_and_maxmis`'s counting: an RF line of `clen` consensus columns has `clen + 1` insert regions, and the region widths
    together with the consensus columns account for every column exactly once (so the merged length `clen + Σ maxgap` is a column count) -/
theorem alimerge_insert_regions_partition (rf : Bytes) :
    (insertWidths rf).length = clenOf rf + 1 ∧ (insertWidths rf).sum + clenOf rf = rf.length :=
  ⟨insertWidths_length rf, insertWidths_sum rf⟩

/-- merging adds gap characters and nothing else: every character of a merged row is a character of the input row or the gap character -/
theorem alimerge_adds_only_gaps (ngapA : List Nat) (gapc : UInt8) (row : Bytes) :
    ∀ c ∈ inflate ngapA gapc row, c ∈ row ∨ c = gapc := inflate_mem ngapA gapc row

/-- the width recorded for an insert region is at least its width in every input (one `ESL_MAX` step) -/
theorem alimerge_maxgap_dominates (a b : List Nat) (h : a.length = b.length) (i : Nat) :
    a.getD i 0 ≤ (maxWidths a b).getD i 0 ∧ b.getD i 0 ≤ (maxWidths a b).getD i 0 := maxWidths_ge a b h i

/-- non-vacuity: two alignments with consensus `xxxxx`; the first has a 2-column insert after consensus column 2, the second one
    column in front and two behind: widths (1,0,2,0,0,2); complete output of the tool for this input (checked against the binary) -/
def exM1 : Bytes := str "# STOCKHOLM 1.0\ns1    AC.gG-U\ns2    ACa.GGU\n#=GC RF xx..xxx\n//\n"
def exM2 : Bytes := str "# STOCKHOLM 1.0\nt1    gACGGUcc\nt2    .AC-GU..\n#=GC RF .xxxxx..\n//\n"
example : insertWidths (str "xx..xxx") = [0, 0, 2, 0, 0, 0] ∧ insertWidths (str ".xxxxx..") = [1, 0, 0, 0, 0, 2] := by decide +kernel
example : gapsToAdd (str "xx..xxx") [1, 0, 2, 0, 0, 2] = [1, 0, 0, 0, 0, 0, 0, 2] := by decide +kernel
example : gapsToAdd (str ".xxxxx..") [1, 0, 2, 0, 0, 2] = [0, 0, 0, 2, 0, 0, 0, 0, 0] := by decide +kernel
example : alimerge "stockholm" [exM1, exM2]
    = some (str "# STOCKHOLM 1.0\n\ns1      .AC.gG-U..\ns2      .ACa.GGU..\nt1      gAC..GGUcc\nt2      .AC..-GU..\n#=GC RF .xx..xxx..\n//\n") := by
  decide +kernel

end Alimerge

/-! ## the `--small` (streamed, Pfam-only) paths: `esl_msafile2_RegurgitatePfam` as esl-alimask / esl-alimanip call it
    (`Miniapps/Small.lean`; stdout compared exactly, also with #=GF / #=GS / #=GR / #=GC / comment / blank lines and several records) -/
section Small
open EaselModel.Miniapps.Small

/-- **any configuration** (keep list, skip list, column mask, nothing), any record of header + sequence lines + `//`: the output is the
    header, exactly the lines of the wanted sequences in their order, names and spacing untouched and the text restricted to the kept
    columns, then `//`; `nseq_read` counts every row, `nseq_regurged` the wanted ones; the rest of the file is left for the next call.
    With a keep / skip list this is what the non-small `esl-alimanip --seq-k` / `--seq-r` is defined to do to the rows (sequence subset,
    order kept); with a mask what `esl-alimask` is defined to do (column subset of every row). -/
theorem small_regurgitate_rows (c : Cfg) (ea : Option Nat) (hdr : Line) (r0 : Row) (rs : List Row) (rest : List Line)
    (hh : startsWith hdr "# STOCKHOLM 1." = true) (hnb : isBlankLine hdr = false)
    (hwf : ∀ r ∈ r0 :: rs, r.WF) (hlen : ∀ r ∈ r0 :: rs, ea = none ∨ ea = some r.text.length)
    (hdist : ∀ r ∈ rs, r.name ≠ r0.name) :
    regurgitate c ea (hdr :: (r0 :: rs).map Row.line ++ "//".toList :: rest)
      = .ok (hdr :: (wanted c (r0 :: rs)).map (Row.outLine c) ++ ["//".toList], (r0 :: rs).length, (wanted c (r0 :: rs)).length, rest) :=
  regurgitate_rows c ea hdr r0 rs rest hh hnb hwf hlen hdist

/-- nothing asked for: the record comes out byte for byte as it went in ("conversion … without changing names or residues") -/
theorem small_regurgitate_identity (hdr : Line) (r0 : Row) (rs : List Row) (rest : List Line)
    (hh : startsWith hdr "# STOCKHOLM 1." = true) (hnb : isBlankLine hdr = false)
    (hwf : ∀ r ∈ r0 :: rs, r.WF) (hdist : ∀ r ∈ rs, r.name ≠ r0.name) :
    regurgitate {} none (hdr :: (r0 :: rs).map Row.line ++ "//".toList :: rest)
      = .ok (hdr :: (r0 :: rs).map Row.line ++ ["//".toList], (r0 :: rs).length, (r0 :: rs).length, rest) :=
  regurgitate_identity hdr r0 rs rest hh hnb hwf hdist

/-- one sequence line, any state: the state after it (first name remembered, counters, the emitted line) — the step the two theorems
    above iterate; the two failure tests (`exp_alen`, "two seqs named …") are the hypotheses -/
theorem small_regurgitate_seq_line (c : Cfg) (st : St) (r : Row) (h : r.WF)
    (hlen : st.expAlen = none ∨ st.expAlen = some r.text.length) (hfirst : st.nread ≠ 0 → st.first ≠ some r.name) :
    lineStep c st r.line = .cont (afterRow c st r) := lineStep_row c st r h hlen hfirst

/-- **`--seq-k <list>` and `--seq-r <list>` split the alignment**: with the same list, every row read is regurgitated by exactly one of the
    two runs (so the two outputs together hold each sequence once), and the `--seq-k` output holds exactly the rows named on the list -/
theorem small_seq_k_seq_r_split (l : List Line) (rows : List Row) :
    (wanted { keep := some l } rows).length + (wanted { skip := some l } rows).length = rows.length ∧
    (∀ r ∈ rows, (r ∈ wanted { keep := some l } rows ∧ r ∉ wanted { skip := some l } rows) ∨
                 (r ∉ wanted { keep := some l } rows ∧ r ∈ wanted { skip := some l } rows)) ∧
    (∀ r, r ∈ wanted { keep := some l } rows ↔ r ∈ rows ∧ r.name ∈ l) :=
  ⟨wanted_keep_skip_length l rows, fun r hr => wanted_keep_skip_mem l rows r hr, fun r => wanted_keep_iff l rows r⟩

/-- a masked row is never longer than the row, and a keep list never invents a row -/
theorem small_mask_shrinks (u : List Bool) (t : Line) : (shrink u t).length ≤ t.length := by
  unfold shrink
  have h1 := List.length_filter_le (fun x : Char × Bool => x.2) (t.zip u)
  have h2 : (t.zip u).length ≤ t.length := by simp [List.length_zip]; omega
  simp only [List.length_map]; omega

theorem small_wanted_sublist (c : Cfg) (rows : List Row) : (wanted c rows).Sublist rows := by
  unfold wanted; exact List.filter_sublist

/-- **`esl-reformat --small --informat pfam afa` = the non-small reference on the same rows**, for every option setting
    (`-d -l -n -r -u -x --gapsym --replace --rename`): the streamed two-pass path (`regurgitate_pfam_as_afa`, modelled line by line as
    `reformatSmallAfa`) prints exactly `renderLines 60 (reformatAfa o recs)` — the text `esl-reformat afa` is specified to print
    (same names or `--rename` numbering, residues converted in the same order of conversions, 60 per line). -/
theorem small_reformat_afa_eq_reference (o : ReformatOpts) (hdr : Line) (r0 : Row) (rs : List Row) (rest : List Line)
    (h1 : hdr.all isSpTab' = false) (h2 : startsWith hdr "# STOCKHOLM" = true) (h3 : startsWith hdr "# STOCKHOLM 1." = true)
    (hwf : ∀ r ∈ r0 :: rs, r.WF) (hdist : ∀ r ∈ rs, r.name ≠ r0.name) :
    reformatSmallAfa o (hdr :: (r0 :: rs).map Row.line ++ "//".toList :: rest)
      = some (renderLines 60 (reformatAfa o ((r0 :: rs).map Row.toRec))) :=
  reformatSmallAfa_eq_reference o hdr r0 rs rest h1 h2 h3 hwf hdist

/-- non-vacuity: the header line of every Stockholm file satisfies the three hypotheses; `-r --rename nn` on the two-row record, and a
    record WITH #=GS AC / DE lines (outside the theorem's rows-only shape: accession and description join the header line) -/
example : ("# STOCKHOLM 1.0".toList.all isSpTab' = false) ∧ startsWith "# STOCKHOLM 1.0".toList "# STOCKHOLM" = true
    ∧ startsWith "# STOCKHOLM 1.0".toList "# STOCKHOLM 1." = true := by decide
example : reformatSmallAfa { rna := true, rename := some "nn".toList } ("# STOCKHOLM 1.0".toList :: [" s1   ACGT".toList, "s2 A-TT".toList, "//".toList])
    = some [">nn.1".toList, "ACGU".toList, ">nn.2".toList, "A-UU".toList] := by decide +kernel
example : reformatSmallAfa {} ["# STOCKHOLM 1.0".toList, "#=GS s1 AC X1".toList, "#=GS s1 DE a b".toList, "#=GS s2 DE c".toList, "s1 AC".toList, "s2 GU".toList, "//".toList]
    = some [">s1 X1 a b".toList, "AC".toList, ">s2 c".toList, "GU".toList] := by decide +kernel

/-- **`esl-reformat --small --informat pfam pfam`** (`regurgitate_pfam_as_pfam`, no WUSS option) on the rows of a record, any option setting:
    every sequence line keeps its name and its run of blanks, its residues are converted pointwise by the same `convChar` as in the
    non-small reference ("converts … without changing names or residues"), then `//`; the rest of the file is left for the next record -/
theorem small_reformat_pfam_rows (o : ReformatOpts) (r0 : Row) (rs : List Row) (rest : List Line)
    (hwf : ∀ r ∈ r0 :: rs, r.WF) (hdist : ∀ r ∈ rs, r.name ≠ r0.name)
    (hlen : ∀ r ∈ r0 :: rs, ∀ r' ∈ r0 :: rs, r'.text.length = r.text.length) :
    reformatSmallPfamBody o none none 0 ((r0 :: rs).map Row.line ++ "//".toList :: rest) []
      = some ((r0 :: rs).map (Row.pfamOut o) ++ ["//".toList], rest) := by
  have := pfamBody_rows o (r0 :: rs) none 0 none [] rest hwf ⟨fun _ => hdist, fun h => absurd rfl h⟩
    (fun r hr => ⟨Or.inl rfl, hlen r hr⟩)
  simpa using this

example : reformatSmallPfamOne { upper := true, gapsym := some '-' } ["# STOCKHOLM 1.0".toList, "#=GF ID x".toList, "s1   ac.gu".toList, "#=GR s1 PP 99.99".toList, "//".toList, "next".toList]
    = some (["# STOCKHOLM 1.0".toList, "#=GF ID x".toList, "s1   AC-GU".toList, "#=GR s1 PP 99.99".toList, "//".toList], ["next".toList]) := by decide +kernel

/-- `esl-alistat --small` prints the non-small summary minus the three lines that need the sequences in memory -/
theorem small_alistat_is_projection (ls : List (Bool × String)) :
    renderSmall ls = renderAll (ls.filter (·.1)) := by
  simp [renderSmall, renderAll]

/-- non-vacuity: a two-row record; `--seq-k s2`, `--seq-r s2`, a mask keeping columns 2-3, and the failing case (the first name twice) -/
def exRows : List Row := [⟨"s1".toList, 3, "ACGU".toList⟩, ⟨"s2".toList, 3, "A-GU".toList⟩]
def exRec : List Line := "# STOCKHOLM 1.0".toList :: exRows.map Row.line ++ ["//".toList, "next".toList]
example : ∀ r ∈ exRows, r.WF := by
  intro r hr
  simp [exRows] at hr
  rcases hr with rfl | rfl <;> constructor <;> decide
example : (regurgitate { keep := some ["s2".toList] } none exRec).toOption
    = some (["# STOCKHOLM 1.0".toList, "s2    A-GU".toList, "//".toList], 2, 1, ["next".toList]) := by decide +kernel
example : (regurgitate { skip := some ["s2".toList] } none exRec).toOption
    = some (["# STOCKHOLM 1.0".toList, "s1    ACGU".toList, "//".toList], 2, 1, ["next".toList]) := by decide +kernel
example : (regurgitate { useme := some [false, true, true, false] } (some 4) exRec).toOption
    = some (["# STOCKHOLM 1.0".toList, "s1    CG".toList, "s2    -G".toList, "//".toList], 2, 2, ["next".toList]) := by decide +kernel
example : (regurgitate {} none ("# STOCKHOLM 1.0".toList :: ["s1 AC".toList, "s1 GU".toList, "//".toList])).toOption = none := by decide +kernel
/-- the SS_cons line loses the pairs the mask breaks before it is shrunk (nucleic alphabets only) -/
example : (regurgitate { useme := some [false, true, true, true] } (some 4) ["# STOCKHOLM 1.0".toList, "s1 ACGU".toList, "#=GC SS_cons <..>".toList, "//".toList]).toOption
    = some (["# STOCKHOLM 1.0".toList, "s1 CGU".toList, "#=GC SS_cons :::".toList, "//".toList], 1, 1, []) := by decide +kernel

end Small

end EaselModel.Props.C13
