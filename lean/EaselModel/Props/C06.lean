import EaselModel.Ssi.Reader
import EaselModel.Ssi.History
import EaselModel.Ssi.Auto
import EaselModel.Ssi.Robust
import EaselModel.Ssi.Trunc
import EaselModel.Ssi.Chains
import EaselModel.Ssi.Offsets
/-! # C06 — property theorems (statements + glue only; lemmas live in Ssi/*.lean)

`ns : NewSsi` is the model of the `ESL_NEWSSI` under construction, `ns.WF` says it is what the `esl_newssi_Add*`
calls build in memory from non-empty NUL-free keys, names and numbers in range (Ssi/Writer.lean), `ns.write` is
`esl_newssi_Write` (status, index file left on disk), `Ssi.open` is `esl_ssi_Open` on the file's bytes.
All theorems are for every such index: no bound on the number of files, keys, aliases or on key length
other than the generous `WF` limits (names/keys < 64 KB, < 2^40 keys). -/
namespace EaselModel.Props.C06
open EaselModel.Ssi

/-! ## portable integers -/

/-- `esl_fread_u16/u32/u64/i64/offset ∘ esl_fwrite_…` is the identity on every value of the width
    (offsets and lengths are 64-bit patterns: the whole 63-bit range and beyond). -/
theorem codec_roundtrip (k n : Nat) (hk : k = 2 ∨ k = 4 ∨ k = 8) (hn : n < 256 ^ k) : ntoh (hton k n) = n := by
  rw [ntoh_hton k n hk, Nat.mod_eq_of_lt hn]

example : ntoh (enc64 (2^63 - 1)) = 2^63 - 1 := codec_roundtrip 8 _ (by simp) (by decide)

/-- the bytes written are the big-endian digits, exactly 2/4/8 of them -/
theorem codec_bigendian (k n : Nat) (hk : k = 2 ∨ k = 4 ∨ k = 8) :
    hton k n = (leBytes k n).reverse ∧ (hton k n).length = k :=
  ⟨hton_eq_be k n hk, hton_length k n hk⟩

/-! ## the binary search -/

/-- THIS binary search (left/right/mid arithmetic, `left >= right` exit, `mid == 0` guard) over any non-empty
    strictly `strcmp`-sorted record array returns the index of `key` if it is stored and `eslENOTFOUND` otherwise:
    one-key arrays, probes below the first / above the last key, keys that are prefixes of each other included. -/
theorem bsearch_correct (rdName : Nat → Except St Bytes) (keys : List Bytes) (key : Bytes)
    (hr : ReadsKeys rdName keys) (hs : StrictSorted keys) (hne : 0 < keys.length) :
    (∃ j, ∃ h : j < keys.length, keys[j] = key ∧ bsearchLoop rdName key 0 (keys.length - 1) = .ok j) ∨
    (key ∉ keys ∧ bsearchLoop rdName key 0 (keys.length - 1) = .error .enotfound) :=
  bsearchLoop_correct rdName keys key hr hs hne

example : StrictSorted [[97], [97, 98], [98]] := by unfold StrictSorted; decide

/-! ## Write -/

/-- `Write` succeeds iff ALL keys are distinct — no primary key twice, no alias twice, no alias that is also a
    primary key (`ns.Distinct`, see `write_ok_iff_distinct` for the plain `Nodup` form); then the file on disk is the
    image (header, file records, sorted fixed-width key records). Otherwise it returns `eslEDUP` and no index file is
    left behind. (The cross-class case is the repaired `cross_duplicate()` merge pass.) -/
theorem write_spec (ns : NewSsi) (h : ns.WF) (cur : Option Bytes) [Decidable ns.Distinct] :
    ((ns.write cur).2.1, (ns.write cur).2.2) =
      if ns.Distinct then (none, some ns.image) else (some .edup, none) := by
  have h1 : ¬ (ns.nsecondary > 0 ∧ ns.slen = 0) := by
    rintro ⟨ha, hb⟩
    rw [h.nsecondary] at ha
    obtain ⟨a, hmem⟩ := List.exists_mem_of_length_pos ha
    have := (h.skey a hmem).2.2
    omega
  unfold NewSsi.write
  simp only [h1, ↓reduceIte, h.notWritten, Bool.false_eq_true, writeBytes_internal ns h]
  by_cases hd : ns.Distinct <;> simp [hd]

/-- writing the index succeeds iff all keys — primary keys and aliases together — are distinct -/
theorem write_ok_iff_distinct (ns : NewSsi) (h : ns.WF) (cur : Option Bytes) :
    (ns.write cur).2.1 = none ↔ (ns.pkeys.map (·.key) ++ ns.skeys.map (·.key)).Nodup := by
  classical
  rw [← ns.distinct_iff_nodup]
  have := write_spec ns h cur
  by_cases hd : ns.Distinct
  · simp only [hd, ↓reduceIte, Prod.mk.injEq] at this
    exact ⟨fun _ => hd, fun _ => this.1⟩
  · simp only [hd, ↓reduceIte, Prod.mk.injEq] at this
    exact ⟨fun hn => (by rw [this.1] at hn; cases hn), fun hdd => absurd hdd hd⟩

/-- a duplicate (within a class or across the classes) is reported as `eslEDUP` and leaves no index file -/
theorem write_dup_no_file (ns : NewSsi) (h : ns.WF) (cur : Option Bytes)
    (hdup : ¬ (ns.pkeys.map (·.key) ++ ns.skeys.map (·.key)).Nodup) :
    (ns.write cur).2.1 = some .edup ∧ (ns.write cur).2.2 = none := by
  classical
  have := write_spec ns h cur
  have hd : ¬ ns.Distinct := fun hd => hdup (ns.distinct_iff_nodup.mp hd)
  simp only [hd, ↓reduceIte, Prod.mk.injEq] at this
  exact this

/-- "trying to `_Write()` the `ESL_NEWSSI` more than once": the second call returns `eslEINVAL` and touches nothing — the
    index file is what the first call left (the image, or no file after `eslEDUP`) -/
theorem write_twice (ns : NewSsi) (h : ns.WF) (cur : Option Bytes) :
    ((ns.write cur).1.write (ns.write cur).2.2).2 = (some .einval, (ns.write cur).2.2) := by
  have h1 : ¬ (ns.nsecondary > 0 ∧ ns.slen = 0) := by
    rintro ⟨ha, hb⟩
    rw [h.nsecondary] at ha
    obtain ⟨a, hmem⟩ := List.exists_mem_of_length_pos ha
    have := (h.skey a hmem).2.2
    omega
  unfold NewSsi.write
  simp only [h1, ↓reduceIte, h.notWritten, Bool.false_eq_true]
  cases ns.writeBytes <;> simp [h1]

/-- whenever `Write` leaves a file, the keys were distinct and the file is the image -/
theorem written_file (ns : NewSsi) (h : ns.WF) (cur : Option Bytes) (bytes : Bytes) (hw : (ns.write cur).2.2 = some bytes) :
    ns.Distinct ∧ bytes = ns.image := by
  classical
  have := write_spec ns h cur
  by_cases hd : ns.Distinct
  · simp only [hd, ↓reduceIte, Prod.mk.injEq] at this
    rw [this.2] at hw
    exact ⟨hd, (Option.some.inj hw).symm⟩
  · simp only [hd, ↓reduceIte, Prod.mk.injEq] at this
    rw [this.2] at hw
    cases hw

/-! ## lookups on the written bytes -/

/-- reopening the written index succeeds and reports the counts and the record geometry -/
theorem open_written (ns : NewSsi) (h : ns.WF) (cur : Option Bytes) (bytes : Bytes) (hw : (ns.write cur).2.2 = some bytes) :
    Ssi.open bytes.toArray = .ok ns.opened ∧ ns.opened.nfiles = ns.files.length ∧
      ns.opened.nprimary = ns.pkeys.length ∧ ns.opened.nsecondary = ns.skeys.length := by
  obtain ⟨_, rfl⟩ := written_file ns h cur bytes hw
  exact ⟨open_image h, rfl, rfl, rfl⟩

/-- `esl_ssi_Open`'s documented failures, for ANY file contents: shorter than the magic/flags/offset-size words, or a
    wrong magic number → `eslEFORMAT`; an offset size other than 4 or 8 → `eslERANGE` -/
theorem open_rejects (d : Array UInt8) :
    (d.size < 12 → Ssi.open d = .error .eformat) ∧
    (∀ magic flags offsz, readFields d 0 [4, 4, 4] = some [magic, flags, offsz] →
      (magic ≠ V30MAGIC ∧ magic ≠ V30SWAP → Ssi.open d = .error .eformat) ∧
      ((magic = V30MAGIC ∨ magic = V30SWAP) → offsz ≠ 4 ∧ offsz ≠ 8 → Ssi.open d = .error .erange)) :=
  ⟨open_short d, fun magic flags offsz h =>
    ⟨open_bad_magic d magic flags offsz h, open_bad_offsz d magic flags offsz h⟩⟩

/-- `FindName` returns exactly the stored `(fh, roff, doff, L)` for every stored primary key -/
theorem findName_stored (ns : NewSsi) (h : ns.WF) (cur : Option Bytes) (bytes : Bytes) (hw : (ns.write cur).2.2 = some bytes)
    (k : PKey) (hk : k ∈ ns.pkeys) :
    (Ssi.open bytes.toArray).bind (·.findName k.key) = .ok ⟨k.fnum, k.roff, k.doff, k.len⟩ := by
  obtain ⟨hd, rfl⟩ := written_file ns h cur bytes hw
  rw [open_image h]
  exact findName_primary h hd k hk (FUEL - 1)

/-- `FindName` of an alias returns the record of the primary key it was registered for, for EVERY alias of a written
    index. Hypothesis: the target is a registered primary key (`AddAlias`'s documented precondition — without it the real
    recursion need not terminate). -/
theorem findName_alias (ns : NewSsi) (h : ns.WF) (cur : Option Bytes) (bytes : Bytes)
    (hw : (ns.write cur).2.2 = some bytes)
    (a : SKey) (ha : a ∈ ns.skeys) (k : PKey) (hk : k ∈ ns.pkeys) (hak : a.pkey = k.key) :
    (Ssi.open bytes.toArray).bind (·.findName a.key) = .ok ⟨k.fnum, k.roff, k.doff, k.len⟩ := by
  obtain ⟨hd, rfl⟩ := written_file ns h cur bytes hw
  rw [open_image h]
  exact EaselModel.Ssi.findName_alias h hd a ha k hk hak (FUEL - 2)

/-- every other string is reported as `eslENOTFOUND` -/
theorem findName_absent (ns : NewSsi) (h : ns.WF) (cur : Option Bytes) (bytes : Bytes) (hw : (ns.write cur).2.2 = some bytes)
    (key : Bytes) (hp : ∀ k ∈ ns.pkeys, k.key ≠ key) (hs : ∀ a ∈ ns.skeys, a.key ≠ key) :
    (Ssi.open bytes.toArray).bind (·.findName key) = .error .enotfound := by
  obtain ⟨hd, rfl⟩ := written_file ns h cur bytes hw
  rw [open_image h]
  exact EaselModel.Ssi.findName_absent h hd key hp hs (FUEL - 1)

/-- `FindNumber` enumerates the primary keys in bytewise (`strcmp`) sorted order: there is a strictly increasing
    rearrangement of the stored keys whose `i`-th element is what `FindNumber i` returns (record and key field);
    numbers outside `0..nprimary-1` are `eslENOTFOUND`. -/
theorem findNumber_sorted (ns : NewSsi) (h : ns.WF) (cur : Option Bytes) (bytes : Bytes) (hw : (ns.write cur).2.2 = some bytes) :
    ∃ sorted : List PKey, sorted.Perm ns.pkeys ∧ StrictSorted (sorted.map (·.key)) ∧
      (∀ i (hi : i < sorted.length),
        (Ssi.open bytes.toArray).bind (·.findNumber (i : Int)) =
          .ok (⟨sorted[i].fnum, sorted[i].roff, sorted[i].doff, sorted[i].len⟩, strncpy ns.plen sorted[i].key)
        ∧ cstr (strncpy ns.plen sorted[i].key) = sorted[i].key) ∧
      (∀ i : Int, (i < 0 ∨ i ≥ ns.pkeys.length) → -(2:Int)^63 ≤ i →
        (Ssi.open bytes.toArray).bind (·.findNumber i) = .error .enotfound) := by
  obtain ⟨hd, rfl⟩ := written_file ns h cur bytes hw
  refine ⟨sortPKeys ns.pkeys, sortPKeys_perm ns.pkeys, pkeys_strict h hd, ?_, ?_⟩
  · intro i hi
    rw [open_image h]
    have hk := h.pkey _ (sortP_mem h (List.getElem_mem hi))
    exact ⟨findNumber_image h i hi, cstr_strncpy _ _ hk.2.1 hk.2.2.1⟩
  · intro i hi hi2
    rw [open_image h]
    exact findNumber_out_of_range h i hi hi2

/-- `FileInfo` reports each file's name (directory stripped, as `AddFile` stored it), format, and the line geometry
    set by `SetSubseq` (flag `eslSSI_FASTSUBSEQ` iff both are positive); other handles are `eslEINVAL`. -/
theorem fileInfo_spec (ns : NewSsi) (h : ns.WF) (cur : Option Bytes) (bytes : Bytes) (hw : (ns.write cur).2.2 = some bytes)
    (fh : Nat) :
    (Ssi.open bytes.toArray).bind (·.fileInfo fh) =
      if hfh : fh < ns.files.length then
        .ok { name := strncpy ns.flen ns.files[fh].name, format := ns.files[fh].fmt,
              flags := if ns.files[fh].bpl > 0 ∧ ns.files[fh].rpl > 0 then 1 else 0,
              bpl := ns.files[fh].bpl, rpl := ns.files[fh].rpl }
      else .error .einval := by
  obtain ⟨_, rfl⟩ := written_file ns h cur bytes hw
  rw [open_image h]
  by_cases hfh : fh < ns.files.length
  · simp only [hfh, ↓reduceDIte]
    exact fileInfo_image fh hfh
  · simp only [hfh, ↓reduceDIte]
    exact fileInfo_bad fh (by omega)

/-- `FindSubseq` of a stored primary key (file handle registered, `1 ≤ start ≤ L`): the documented four outcomes
    (`subseqSpec`): data offset unknown or no line geometry → start of data, residue 1; `bpl = rpl+1` → the exact byte
    of residue `start`; otherwise the start of the line holding it. (`start < 1` is rejected: repaired test, DESIGN §7 item 11.) -/
theorem findSubseq_spec (ns : NewSsi) (h : ns.WF) (cur : Option Bytes) (bytes : Bytes) (hw : (ns.write cur).2.2 = some bytes)
    (k : PKey) (hk : k ∈ ns.pkeys) (hfh : k.fnum < ns.files.length) (start : Nat) (h1 : 1 ≤ start) (h2 : start ≤ k.len)
    (hL : k.len < 2^63) :
    (Ssi.open bytes.toArray).bind (·.findSubseq k.key (start : Int)) = .ok (subseqSpec k ns.files[k.fnum] start) := by
  obtain ⟨hd, rfl⟩ := written_file ns h cur bytes hw
  rw [open_image h]
  exact findSubseq_primary h hd k hk hfh start h1 h2 hL

/-- a requested start outside `1..L` (0 and negative values included) is `eslERANGE` -/
theorem findSubseq_erange (ns : NewSsi) (h : ns.WF) (cur : Option Bytes) (bytes : Bytes) (hw : (ns.write cur).2.2 = some bytes)
    (k : PKey) (hk : k ∈ ns.pkeys) (start : Int) (hr : start < 1 ∨ start > (k.len : Int)) (hL : k.len < 2^63) :
    (Ssi.open bytes.toArray).bind (·.findSubseq k.key start) = .error .erange := by
  obtain ⟨hd, rfl⟩ := written_file ns h cur bytes hw
  rw [open_image h]
  exact findSubseq_range h hd k hk start hr hL

/-- `FindSubseq` through an ALIAS: the same documented outcome, computed from the record of the alias's target key and
    the line geometry of the target's file -/
theorem findSubseq_alias (ns : NewSsi) (h : ns.WF) (cur : Option Bytes) (bytes : Bytes) (hw : (ns.write cur).2.2 = some bytes)
    (a : SKey) (ha : a ∈ ns.skeys) (k : PKey) (hk : k ∈ ns.pkeys) (hak : a.pkey = k.key)
    (hfh : k.fnum < ns.files.length) (hL : k.len < 2^63) :
    (∀ start : Nat, 1 ≤ start → start ≤ k.len →
      (Ssi.open bytes.toArray).bind (·.findSubseq a.key (start : Int)) = .ok (subseqSpec k ns.files[k.fnum] start)) ∧
    (∀ start : Int, (start < 1 ∨ start > (k.len : Int)) →
      (Ssi.open bytes.toArray).bind (·.findSubseq a.key start) = .error .erange) := by
  obtain ⟨hd, rfl⟩ := written_file ns h cur bytes hw
  rw [open_image h]
  have hfind : ns.opened.findName a.key = .ok (hitOf k) := EaselModel.Ssi.findName_alias h hd a ha k hk hak (FUEL - 2)
  exact ⟨fun start h1 h2 => findSubseq_of_hit a.key k hfind hfh start h1 h2 hL,
         fun start hr => findSubseq_range_of_hit a.key k hfind start hr hL⟩

/-- `FindSubseq` of a string that is neither a key nor an alias: `eslENOTFOUND`, whatever the requested start -/
theorem findSubseq_absent (ns : NewSsi) (h : ns.WF) (cur : Option Bytes) (bytes : Bytes) (hw : (ns.write cur).2.2 = some bytes)
    (key : Bytes) (hp : ∀ k ∈ ns.pkeys, k.key ≠ key) (hs : ∀ a ∈ ns.skeys, a.key ≠ key) (start : Int) :
    (Ssi.open bytes.toArray).bind (·.findSubseq key start) = .error .enotfound := by
  obtain ⟨hd, rfl⟩ := written_file ns h cur bytes hw
  rw [open_image h]
  exact findSubseq_of_error _ key start _ (EaselModel.Ssi.findName_absent h hd key hp hs (FUEL - 1))

/-! ## the reader on ANY file contents: truncated, corrupted, unsorted -/

/-- `esl_ssi_Open` on ANY byte string succeeds or fails with `eslEFORMAT` / `eslERANGE` (the documented statuses) and
    never reads outside the file; on success it holds `nfiles ≥ 1` file records. -/
theorem open_any_bytes (d : Array UInt8) :
    (∀ e, Ssi.open d = .error e → e = .eformat ∨ e = .erange) ∧
    (∀ s, Ssi.open d = .ok s → s.data = d ∧ 0 < s.nfiles ∧ s.files.length = s.nfiles ∧ (s.offsz = 4 ∨ s.offsz = 8)) :=
  open_status d

/-- **only for those, on any index**: THIS binary search on ANY record array — unsorted, with unreadable records —
    returns an index only if that record holds exactly the probe key, and that index is below `maxidx`;
    otherwise `eslENOTFOUND` or the failure of one of its own reads. It never returns another key's record. -/
theorem bsearch_any_array (rdName : Nat → Except St Bytes) (key : Bytes) (n : Nat) :
    (∀ j, bsearchLoop rdName key 0 (n - 1) = .ok j → rdName j = .ok key ∧ j ≤ n - 1) ∧
    (∀ e, bsearchLoop rdName key 0 (n - 1) = .error e → e = .enotfound ∨ ∃ m, m ≤ n - 1 ∧ rdName m = .error e) := by
  constructor
  · intro j h
    have := bsearchLoop_sound rdName key 0 (n - 1) j h
    exact ⟨this.1, by omega⟩
  · intro e h
    rcases bsearchLoop_error rdName key 0 (n - 1) e h with h1 | ⟨m, hm, hr⟩
    · exact .inl h1
    · exact .inr ⟨m, by omega, hr⟩

/-- `esl_ssi_FindName` on ANY opened byte string (truncated, corrupted, key sections not sorted): an `eslOK` answer
    carries the numbers of a stored primary record whose key field is exactly the probe, or of one reached from the probe
    through stored alias records (`Ssi.Resolves`) — absent or that key's record, never another key's. Every other answer
    is `eslENOTFOUND` or `eslEFORMAT` (or `nohalt`: the alias recursion did not end); no read leaves a buffer
    (key and name buffers carry their own terminator: repaired, DESIGN §7). -/
theorem findName_any_index (s : Ssi) (key : Bytes) :
    (∀ hit, s.findName key = .ok hit → s.Resolves key hit) ∧
    (∀ e, s.findName key = .error e → e = .enotfound ∨ e = .eformat ∨ e = .nohalt) :=
  ⟨fun hit h => findName_sound s FUEL key hit h, fun e h => findName_status s FUEL key e h⟩

/-- **documented status set, no fault**: when no stored alias names another stored alias (`Ssi.NoAliasChain`: true of
    every index `Write` produces, `written_index_no_alias_chain`, and readable off the bytes) `FindName` on an index that
    is otherwise arbitrary (truncated anywhere, unsorted, counts, widths and offsets inconsistent, key fields without
    terminator) ends with `eslOK`, `eslENOTFOUND` or `eslEFORMAT`. -/
theorem findName_no_fault (s : Ssi) (hc : s.NoAliasChain) (key : Bytes) :
    (∃ hit, s.findName key = .ok hit) ∨ s.findName key = .error .enotfound ∨ s.findName key = .error .eformat := by
  cases hf : s.findName key with
  | ok hit => exact .inl ⟨hit, rfl⟩
  | error e =>
    right
    have h1 := findName_status s FUEL key e hf
    have h3 := findName_halts s hc (FUEL - 2) key
    rcases h1 with rfl | rfl | rfl
    · exact .inl rfl
    · exact .inr rfl
    · exact absurd hf h3

/-- non-vacuity of `findName_no_fault`: the condition holds for EVERY index `Write` produces from keys whose alias
    targets are registered -/
theorem written_index_no_alias_chain (ns : NewSsi) (h : ns.WF) (cur : Option Bytes) (bytes : Bytes)
    (hw : (ns.write cur).2.2 = some bytes) (htg : ∀ a ∈ ns.skeys, ∃ k ∈ ns.pkeys, a.pkey = k.key) :
    ∃ s, Ssi.open bytes.toArray = .ok s ∧ s.NoAliasChain := by
  obtain ⟨hd, rfl⟩ := written_file ns h cur bytes hw
  exact ⟨ns.opened, open_image h, image_noAliasChain h hd htg⟩

/-- `esl_ssi_FindNumber` on ANY index, for every `int64_t`: `eslENOTFOUND` exactly outside `0..nprimary-1`; inside,
    the record in that slot or `eslEFORMAT` when the file ends first -/
theorem findNumber_any_index (s : Ssi) (i : Int) (hlo : -(2:Int)^63 ≤ i) (hhi : i < (2:Int)^63) (hn : s.nprimary < 2^63) :
    (s.findNumber i = .error .enotfound ↔ (i < 0 ∨ (s.nprimary : Int) ≤ i)) ∧
    (∀ e, s.findNumber i = .error e → e = .enotfound ∨ e = .eformat) :=
  findNumber_status s i hlo hhi hn

/-- `esl_ssi_FileInfo` for EVERY handle of ANY index that `Open` accepted: a record below `nfiles`, `eslEINVAL` otherwise -/
theorem fileInfo_any_index (d : Array UInt8) (s : Ssi) (h : Ssi.open d = .ok s) (fh : Nat) :
    (fh < s.nfiles → ∃ f, s.fileInfo fh = .ok f ∧ s.files[fh]? = some f) ∧
    (s.nfiles ≤ fh → s.fileInfo fh = .error .einval) :=
  fileInfo_total d s h fh

/-- `esl_ssi_FindSubseq` on ANY byte string that `Open` accepted: `eslOK`, `FindName`'s status, `eslERANGE`,
    `eslEFORMAT` (the file handle stored with the key is not a file of the index) or `eslEINVAL` (fast-subseq flag with
    `rpl = 0` or `bpl = 0`) — it never indexes outside the per-file arrays and never divides by zero (repaired) -/
theorem findSubseq_any_index (d : Array UInt8) (s : Ssi) (ho : Ssi.open d = .ok s) (key : Bytes) (start : Int) (e : St)
    (h : s.findSubseq key start = .error e) :
    (s.findName key = .error e) ∨ e = .erange ∨ e = .eformat ∨ e = .einval :=
  findSubseq_status s ((open_status d).2 s ho).2.2.1 key start e h

/-- **a TRUNCATED index never answers with a wrong record.** Cut the file `Write` produced after ANY number of bytes: if
    `Open` still accepts it and `FindName` answers `eslOK` for some string, the numbers are exactly those stored for that
    string — its own record when it is a primary key, its target's when it is an alias. (Every other answer is
    `eslENOTFOUND` / `eslEFORMAT`: `findName_no_fault`.) -/
theorem truncated_index_never_wrong (ns : NewSsi) (h : ns.WF) (cur : Option Bytes) (bytes : Bytes)
    (hw : (ns.write cur).2.2 = some bytes) (htg : ∀ a ∈ ns.skeys, ∃ k ∈ ns.pkeys, a.pkey = k.key)
    (n : Nat) (s' : Ssi) (ho : Ssi.open (bytes.take n).toArray = .ok s') (key : Bytes) (hit : Hit)
    (hf : s'.findName key = .ok hit) :
    ∃ k ∈ ns.pkeys, hit = ⟨k.fnum, k.roff, k.doff, k.len⟩ ∧ (k.key = key ∨ ∃ a ∈ ns.skeys, a.key = key ∧ a.pkey = k.key) := by
  obtain ⟨hd, rfl⟩ := written_file ns h cur bytes hw
  have g := (trunc_geometry h n s' ho).1
  exact resolves_image h hd htg key hit (g.resolves key hit (findName_sound s' FUEL key hit hf))

/-- ... and enumerates / describes nothing wrong either: on the file cut after ANY `n` bytes (if `Open` still accepts it)
    every `eslOK` answer of `FindNumber` is the answer the intact index gives for that number (`findNumber_sorted`), and
    `FileInfo` answers exactly like the intact index for every handle (`fileInfo_spec`) -/
theorem truncated_index_same_answers (ns : NewSsi) (h : ns.WF) (cur : Option Bytes) (bytes : Bytes)
    (hw : (ns.write cur).2.2 = some bytes) (n : Nat) (s' : Ssi) (ho : Ssi.open (bytes.take n).toArray = .ok s') :
    (∀ i r, s'.findNumber i = .ok r → (Ssi.open bytes.toArray).bind (·.findNumber i) = .ok r) ∧
    (∀ fh, s'.fileInfo fh = (Ssi.open bytes.toArray).bind (·.fileInfo fh)) := by
  obtain ⟨_, rfl⟩ := written_file ns h cur bytes hw
  rw [open_image h]
  exact ⟨fun i r hr => (trunc_geometry h n s' ho).1.findNumber i r hr, fun fh => trunc_fileInfo h n s' ho fh⟩

/-! ## alias → alias chains and cycles (hand-made files, outside `AddAlias`'s precondition): what the code does -/

/-- one call of `esl_ssi_FindName` either answers without recursion (`Ssi.direct`: primary hit, `eslENOTFOUND`,
    `eslEFORMAT`) or calls itself on the string stored with the alias record it found (`Ssi.next`) -/
theorem findName_one_level (s : Ssi) (fuel : Nat) (key : Bytes) :
    s.findNameAux (fuel + 1) key = match s.next key with
      | some k' => s.findNameAux fuel k'
      | none => s.direct key :=
  findNameAux_step s fuel key

/-- **recursion depth on a chain**: if the path `key, next key, next (next key), …` ends at its `d`-th link `last`, the
    C recursion is exactly `d` levels deep and `FindName key` answers what the non-recursive lookup of `last` answers — for
    any index bytes, sorted or not. (`d < 100000`: the model's fuel; a chain of `d` links needs `d` distinct alias records.) -/
theorem findName_chain_depth (s : Ssi) (d : Nat) (key last : Bytes) (hl : s.link key d = some last)
    (he : s.next last = none) (hd : d < FUEL) :
    s.findName key = s.direct last ∧ (∀ fuel, fuel ≤ d → s.findNameAux fuel key = .error .nohalt) :=
  ⟨(findName_depth s d key last hl he).1 FUEL hd, (findName_depth s d key last hl he).2⟩

/-- **a cycle never returns**: if after `n ≥ 1` links the path is back at `key` (an alias naming itself, two aliases
    naming each other, …), `esl_ssi_FindName key` recurses without end — no recursion depth suffices (stack overflow in
    C; the model's `nohalt` for EVERY fuel). Such files are the only ones the damaged-index stream does not run. -/
theorem findName_cycle_never_returns (s : Ssi) (key : Bytes) (n : Nat) (hpos : 0 < n) (hc : s.link key n = some key)
    (fuel : Nat) : s.findNameAux fuel key = .error .nohalt :=
  findName_diverges s key (cycle_never_ends s key n hpos hc) fuel

/-- the smallest cycle: no primary keys, one alias record `a → a` (4 bytes `a\0a\0`) -/
def exLoop : Ssi :=
  { data := #[97, 0, 97, 0], flags := 0, offsz := 8, nfiles := 1, nprimary := 0, nsecondary := 1, flen := 1, plen := 2, slen := 2,
    frecsize := 17, precsize := 28, srecsize := 4, foffset := 0, poffset := 0, soffset := 0, files := [] }

theorem exLoop_next : exLoop.next [97] = some [97] := by
  have hr : rdNameAt #[97, 0, 97, 0] 2 0 4 0 = .ok [97] := by rfl
  have hl : bsearchLoop (rdNameAt #[97, 0, 97, 0] 2 0 4) [97] 0 0 = .ok 0 := by
    rw [bsearchLoop]
    simp only [Nat.add_zero, Nat.zero_div, hr]
    rfl
  have hb : bsearch exLoop.data [97] exLoop.slen exLoop.soffset exLoop.srecsize exLoop.nsecondary = .ok 2 := by
    simp only [bsearch, exLoop, Nat.sub_self, hl]
    rfl
  have hp : bsearch exLoop.data [97] exLoop.plen exLoop.poffset exLoop.precsize exLoop.nprimary = .error .enotfound := by
    unfold bsearch; rfl
  unfold Ssi.next
  rw [hp]
  simp only []
  rw [hb]
  rfl

/-- non-vacuity of `findName_cycle_never_returns` -/
example (fuel : Nat) : exLoop.findNameAux fuel [97] = .error .nohalt :=
  findName_cycle_never_returns exLoop [97] 1 (by decide) (by simp [Ssi.link, exLoop_next]) fuel

/-- non-vacuity of `findName_chain_depth` (`d = 0`: a string that is nowhere in the index; depths 1–3 are run against
    the real code by the damaged-index stream) -/
example : exLoop.findName [98] = exLoop.direct [98] ∧ exLoop.link [98] 0 = some [98] := by
  have hr : rdNameAt #[97, 0, 97, 0] 2 0 4 0 = .ok [97] := by rfl
  have hl : bsearchLoop (rdNameAt #[97, 0, 97, 0] 2 0 4) [98] 0 0 = .error .enotfound := by
    rw [bsearchLoop]
    simp only [Nat.add_zero, Nat.zero_div, hr]
    rfl
  have hn : exLoop.next [98] = none := by
    have hb : bsearch exLoop.data [98] exLoop.slen exLoop.soffset exLoop.srecsize exLoop.nsecondary = .error .enotfound := by
      simp only [bsearch, exLoop, Nat.sub_self, hl]
      rfl
    have hp : bsearch exLoop.data [98] exLoop.plen exLoop.poffset exLoop.precsize exLoop.nprimary = .error .enotfound := by
      unfold bsearch; rfl
    unfold Ssi.next
    rw [hp]
    simp only []
    rw [hb]
    rfl
  exact ⟨(findName_chain_depth exLoop 0 [98] [98] rfl hn (by decide)).1, rfl⟩

/-! ## 63- and 64-bit header offsets: a key section that lies beyond the end of the file -/

/-- Header offsets over the whole 64-bit range: when `poffset` points at or beyond the end of the file — which every value
    ≥ 2^63 does (a negative `off_t`: `fseeko` refuses it, the model reads beyond the end) — `FindName` of ANY string and
    `FindNumber` of every valid number answer `eslEFORMAT` (an index with ≥ 1 primary key); with `soffset` beyond the end, so
    does every probe that is not a primary key. Never a record, never a fault. -/
theorem offsets_beyond_file (s : Ssi) (hp : 0 < s.plen) :
    (0 < s.nprimary → s.data.size ≤ s.poffset →
        (∀ key, s.findName key = .error .eformat) ∧ (∀ i : Nat, i < s.nprimary → s.findNumber (i : Int) = .error .eformat)) ∧
    (0 < s.nsecondary → 0 < s.slen → s.data.size ≤ s.soffset →
        ∀ key, bsearch s.data key s.plen s.poffset s.precsize s.nprimary = .error .enotfound →
          s.findName key = .error .eformat) :=
  ⟨fun hn hb => ⟨fun key => findName_poffset_beyond s hn hp hb (FUEL - 1) key,
                 fun i hi => findNumber_poffset_beyond s hp hb i hi⟩,
   fun hn hl hb key hnp => findName_soffset_beyond s hn hl hb (FUEL - 1) key hnp⟩

/-- non-vacuity: one primary record, `poffset = 2^63` -/
example : ({ exLoop with nprimary := 1, poffset := 2^63 } : Ssi).findName [97] = .error .eformat :=
  ((offsets_beyond_file _ (by decide)).1 (by decide) (by decide)).1 [97]

/-! ## `esl_newssi_AddFile` and duplicate names -/

/-- `AddFile` never looks at the names already registered ("Caller should make sure that the same file isn't registered
    twice; this function doesn't check"): below the limit of 32767 files it ALWAYS succeeds, hands out the next handle,
    appends one record holding the name without its directory, and widens `flen` to the FULL name's length + 1.
    Registering the same name twice therefore gives two handles and two identical records (`fileInfo_spec` reports both). -/
theorem addFile_never_checks_names (ns : NewSsi) (name : Bytes) (fmt : Nat) :
    ns.addFile name fmt =
      if ns.files.length ≥ 32767 then .error .erange
      else .ok ({ ns with flen := if name.length + 1 > ns.flen then name.length + 1 else ns.flen,
                          files := ns.files ++ [{ name := fileTail name, fmt := fmt, bpl := 0, rpl := 0 }] },
                ns.files.length) := rfl

example : ((({} : NewSsi).addFile [102] 1).toOption.bind (fun r => (r.1.addFile [102] 1).toOption)).map (fun r => (r.2, r.1.files.length))
    = some (1, 2) := by decide

/-! ## internal sort = external sort, for every insertion history -/

/-- The bytes of the index (and the status, duplicates included) are the same whether the keys were sorted in
    memory or spilled to the tmp files, sorted bytewise as lines and re-parsed. -/
theorem internal_eq_external (ns : NewSsi) (h : ns.WF) (hx : ns.ExtOK) : ns.toExternal.writeBytes = ns.writeBytes :=
  writeBytes_toExternal ns h hx

/-- For EVERY history of `AddFile/SetSubseq/AddKey/AddAlias` calls with arguments in range (`Op.Valid`: NUL-free
    names, non-empty keys over bytes above TAB/newline, 64-bit numbers), with `max_ram` changed at any points of the
    history (so the switch to the external sort happens anywhere, or never): `Write` returns the status and leaves the
    file that `Write` returns for the in-memory logical content `logical ops`, and that content is well-formed —
    so every theorem above applies to what the history wrote. -/
theorem history_write (ops : List Op) (hv : ∀ op ∈ ops, op.Valid) (hf : (logical ops).files ≠ [])
    (hn : ops.length < 2^40) (cur : Option Bytes) :
    (logical ops).WF ∧ ((run ops).write cur).2 = ((logical ops).write cur).2 :=
  run_write_eq_logical ops hv hf hn cur

/-- THE AUTOMATIC SWITCH. A successful `AddKey`/`AddAlias` leaves the index in external (on-disk) mode iff it already
    was, or `current_newssi_size` — ⌊(78 + (16+flen)·nfiles + (26+plen)·nprimary + (slen+plen)·nsecondary) / 2^20⌋ MB,
    from the counts and field widths before the call — had reached `max_ram` (2048 by default; any value, also ≤ 0,
    when the public field was assigned). `history_write` below quantifies over every history and therefore over every
    point at which this trigger fires, by itself at ≥ 2 GB or through a lowered `max_ram`. -/
theorem auto_switch_trigger (ns ns' : NewSsi) :
    (∀ key fh r d l, ns.addKey key fh r d l = .ok ns' →
        ns'.external = (ns.external || decide ((ns.currentSize : Int) ≥ ns.maxRam))) ∧
    (∀ a k, ns.addAlias a k = .ok ns' →
        ns'.external = (ns.external || decide ((ns.currentSize : Int) ≥ ns.maxRam))) ∧
    ns.currentSize = (78 + (16 + ns.flen) * ns.files.length + (26 + ns.plen) * ns.nprimary
                        + (ns.slen + ns.plen) * ns.nsecondary) / 1048576 :=
  ⟨fun key fh r d l h => addKey_external ns ns' key fh r d l h, fun a k h => addAlias_external ns ns' a k h,
   currentSize_eq ns⟩

/-- the switch is one-way: no call brings an external index back into memory -/
theorem external_is_permanent (ns : NewSsi) (ops : List Op) (h : ns.external = true) :
    (ops.foldl step ns).external = true := by
  induction ops generalizing ns with
  | nil => exact h
  | cons op ops ih => exact ih _ (step_external_mono ns op h)

/-- with the default 2048 MB the trigger fires by itself: 9.5 million 200-byte keys are enough, 9.4 million are not -/
example : ({ plen := 201, nprimary := 9500000 } : NewSsi).maybeExternal.external = true := by decide
example : ({ plen := 201, nprimary := 9400000 } : NewSsi).maybeExternal.external = false := by decide

/-- end to end: after any valid history (external switch anywhere), `Write` succeeds iff all keys (primary keys and
    aliases together) are distinct; and on the bytes it wrote every stored primary key is found with its stored record and every string that
    is neither a key nor an alias is `eslENOTFOUND`. -/
theorem history_index_correct (ops : List Op) (hv : ∀ op ∈ ops, op.Valid) (hf : (logical ops).files ≠ [])
    (hn : ops.length < 2^40) (cur : Option Bytes) :
    (((run ops).write cur).2.1 = none ↔
        ((logical ops).pkeys.map (·.key) ++ (logical ops).skeys.map (·.key)).Nodup) ∧
    (((run ops).write cur).2.1 ≠ none → ((run ops).write cur).2 = (some .edup, none)) ∧
    (∀ bytes, ((run ops).write cur).2.2 = some bytes →
      (∀ k ∈ (logical ops).pkeys,
        (Ssi.open bytes.toArray).bind (·.findName k.key) = .ok ⟨k.fnum, k.roff, k.doff, k.len⟩) ∧
      (∀ key, (∀ k ∈ (logical ops).pkeys, k.key ≠ key) → (∀ a ∈ (logical ops).skeys, a.key ≠ key) →
        (Ssi.open bytes.toArray).bind (·.findName key) = .error .enotfound)) := by
  obtain ⟨hwf, heq⟩ := run_write_eq_logical ops hv hf hn cur
  have h1 : ((run ops).write cur).2.1 = ((logical ops).write cur).2.1 := by rw [heq]
  have h2 : ((run ops).write cur).2.2 = ((logical ops).write cur).2.2 := by rw [heq]
  refine ⟨?_, ?_, ?_⟩
  · rw [h1]; exact write_ok_iff_distinct _ hwf cur
  · intro hne
    rw [h1] at hne
    have hd : ¬ ((logical ops).pkeys.map (·.key) ++ (logical ops).skeys.map (·.key)).Nodup :=
      fun hd => hne ((write_ok_iff_distinct _ hwf cur).mpr hd)
    have := write_dup_no_file _ hwf cur hd
    rw [heq]
    exact Prod.ext this.1 this.2
  · intro bytes hb
    rw [h2] at hb
    exact ⟨fun k hk => findName_stored _ hwf cur bytes hb k hk,
           fun key hp hs => findName_absent _ hwf cur bytes hb key hp hs⟩

/-- after any valid history: every alias whose target is a registered primary key is found with the target's record -/
theorem history_alias (ops : List Op) (hv : ∀ op ∈ ops, op.Valid) (hf : (logical ops).files ≠ [])
    (hn : ops.length < 2^40) (cur : Option Bytes) (bytes : Bytes) (hw : ((run ops).write cur).2.2 = some bytes)
    (a : SKey) (ha : a ∈ (logical ops).skeys) (k : PKey) (hk : k ∈ (logical ops).pkeys) (hak : a.pkey = k.key) :
    (Ssi.open bytes.toArray).bind (·.findName a.key) = .ok ⟨k.fnum, k.roff, k.doff, k.len⟩ := by
  obtain ⟨hwf, heq⟩ := run_write_eq_logical ops hv hf hn cur
  rw [heq] at hw
  exact findName_alias _ hwf cur bytes hw a ha k hk hak

/-- after any valid history: `FindNumber` enumerates the logical content's primary keys in `strcmp` order, and
    `FileInfo` reports the registered files -/
theorem history_enumeration (ops : List Op) (hv : ∀ op ∈ ops, op.Valid) (hf : (logical ops).files ≠ [])
    (hn : ops.length < 2^40) (cur : Option Bytes) (bytes : Bytes) (hw : ((run ops).write cur).2.2 = some bytes) :
    (∃ sorted : List PKey, sorted.Perm (logical ops).pkeys ∧ StrictSorted (sorted.map (·.key)) ∧
      ∀ i (hi : i < sorted.length),
        (Ssi.open bytes.toArray).bind (·.findNumber (i : Int)) =
          .ok (⟨sorted[i].fnum, sorted[i].roff, sorted[i].doff, sorted[i].len⟩, strncpy (logical ops).plen sorted[i].key)
        ∧ cstr (strncpy (logical ops).plen sorted[i].key) = sorted[i].key) ∧
    (∀ fh (hfh : fh < (logical ops).files.length),
      (Ssi.open bytes.toArray).bind (·.fileInfo fh) =
        .ok { name := strncpy (logical ops).flen (logical ops).files[fh].name, format := (logical ops).files[fh].fmt,
              flags := if (logical ops).files[fh].bpl > 0 ∧ (logical ops).files[fh].rpl > 0 then 1 else 0,
              bpl := (logical ops).files[fh].bpl, rpl := (logical ops).files[fh].rpl }) := by
  obtain ⟨hwf, heq⟩ := run_write_eq_logical ops hv hf hn cur
  rw [heq] at hw
  obtain ⟨sorted, h1, h2, h3, _⟩ := findNumber_sorted _ hwf cur bytes hw
  refine ⟨⟨sorted, h1, h2, h3⟩, ?_⟩
  intro fh hfh
  have := fileInfo_spec _ hwf cur bytes hw fh
  simpa [hfh] using this

/-! ## non-vacuity, and the repaired cross-class duplicate -/

/-- a concrete history: one file, keys `a`, `ab`, `b` (a prefix chain), alias `z → ab`, switch to the external sort
    after the first key -/
def exOps : List Op :=
  [.addFile [100, 47, 102] 1, .addKey [97, 98] 0 (2^63 - 1) 4294967296 7, .setMaxRam 0, .addKey [97] 0 1 2 3,
   .addKey [98] 0 4 5 6, .addAlias [122] [97, 98]]

example : ∀ op ∈ exOps, op.Valid := by
  intro op hop
  simp only [exOps, List.mem_cons, List.not_mem_nil, or_false] at hop
  rcases hop with rfl | rfl | rfl | rfl | rfl | rfl <;> simp [Op.Valid, KeyChars]

example : (run exOps).external = true ∧ (logical exOps).external = false := by decide
example : (logical exOps).files ≠ [] := by decide
example : (logical exOps).pkeys.map (·.key) = [[97, 98], [97], [98]] := by decide
example : ((logical exOps).pkeys.map (·.key) ++ (logical exOps).skeys.map (·.key)).Nodup := by decide

/-- the index of the former known finding `C06:cross-class-duplicate`: primary keys `k1`, `k2` and the alias `k2 → k1` -/
def exCross : NewSsi :=
  { files := [{ name := [102], fmt := 1, bpl := 0, rpl := 0 }], flen := 2,
    pkeys := [⟨[107, 49], 0, 1, 2, 3⟩, ⟨[107, 50], 0, 4, 5, 6⟩], plen := 3, nprimary := 2,
    skeys := [⟨[107, 50], [107, 49]⟩], slen := 3, nsecondary := 1 }

theorem exCross_wf : exCross.WF := by
  constructor <;> decide

example : exCross.ExtOK := by
  constructor <;> simp [exCross, KeyChars, NoDelim, isDelim]

/-- each class on its own has distinct keys: only the merge pass can see this duplicate -/
example : (exCross.pkeys.map (·.key)).Nodup ∧ (exCross.skeys.map (·.key)).Nodup := by decide

/-- REGRESSION for the repaired defect (was known finding `C06:cross-class-duplicate`): an alias equal to a primary
    key is reported as `eslEDUP`, in memory and through the external sort, and no index file is left. -/
theorem cross_class_duplicate_rejected :
    (∃ a ∈ exCross.skeys, ∃ k ∈ exCross.pkeys, a.key = k.key) ∧
    (exCross.write (some [])).2 = (some .edup, none) ∧
    (exCross.toExternal.write (some [])).2 = (some .edup, none) := by
  refine ⟨⟨⟨[107, 50], [107, 49]⟩, by decide, ⟨[107, 50], 0, 4, 5, 6⟩, by decide, rfl⟩, ?_, ?_⟩
  · have := write_dup_no_file exCross exCross_wf (some []) (by decide)
    exact Prod.ext this.1 this.2
  · rw [write_toExternal exCross exCross_wf (by constructor <;> simp [exCross, KeyChars, NoDelim, isDelim])]
    have := write_dup_no_file exCross exCross_wf (some []) (by decide)
    exact Prod.ext this.1 this.2

/-- a two-key index cut in the middle of its last primary record (130 of its 154 bytes): non-vacuity of
    `truncated_index_never_wrong` — `Open` still accepts it (cut inside the file section, at 95, it does not); with
    `n ≥ 154` the hypothesis `hf` is `findName_stored` -/
def exTrunc : NewSsi :=
  { files := [{ name := [102], fmt := 1, bpl := 0, rpl := 0 }], flen := 2,
    pkeys := [⟨[107, 49], 0, 1, 2, 3⟩, ⟨[107, 50], 0, 4, 5, 6⟩], plen := 3, nprimary := 2 }

example : exTrunc.WF := by constructor <;> decide
example : (match Ssi.open (exTrunc.image.take 130).toArray with | .ok s => s.nprimary == 2 | .error _ => false) = true := by
  decide +kernel
example : (match Ssi.open (exTrunc.image.take 95).toArray with | .ok _ => false | .error e => e == .eformat) = true := by
  decide +kernel

end EaselModel.Props.C06
