import EaselModel.Ssi.Reader
/-! # C06 — property theorems (statements + glue only; lemmas live in Ssi/*.lean)

`ns : NewSsi` is the model of the `ESL_NEWSSI` under construction, `ns.WF` says it is what the `esl_newssi_Add*`
calls build in memory from non-empty NUL-free keys, names and numbers in range (Ssi/Writer.lean), `ns.write` is
`esl_newssi_Write` (status, index file left on disk), `Ssi.open` is `esl_ssi_Open` on the file's bytes.
All theorems are for every such index: no bound on the number of files, keys, aliases or on key length
other than the generous `WF` limits (names/keys < 64 KB, < 2^40 keys). -/
namespace EaselModel.Props.C06
open EaselModel.Ssi

/-! ## portable integers -/

/-- `esl_fread_u16/u32/u64/i64/offset ∘ esl_fwrite_…` is the identity on every value of the width
    (offsets and lengths are 64-bit patterns: the whole 63-bit range and beyond). -/
theorem codec_roundtrip (k n : Nat) (hk : k = 2 ∨ k = 4 ∨ k = 8) (hn : n < 256 ^ k) : ntoh (hton k n) = n := by
  rw [ntoh_hton k n hk, Nat.mod_eq_of_lt hn]

example : ntoh (enc64 (2^63 - 1)) = 2^63 - 1 := codec_roundtrip 8 _ (by simp) (by decide)

/-- the bytes written are the big-endian digits, exactly 2/4/8 of them -/
theorem codec_bigendian (k n : Nat) (hk : k = 2 ∨ k = 4 ∨ k = 8) :
    hton k n = (leBytes k n).reverse ∧ (hton k n).length = k :=
  ⟨hton_eq_be k n hk, hton_length k n hk⟩

/-! ## the binary search -/

/-- THIS binary search (left/right/mid arithmetic, `left >= right` exit, `mid == 0` guard) over any non-empty
    strictly `strcmp`-sorted record array returns the index of `key` if it is stored and `eslENOTFOUND` otherwise:
    one-key arrays, probes below the first / above the last key, keys that are prefixes of each other included. -/
theorem bsearch_correct (rdName : Nat → Except St Bytes) (keys : List Bytes) (key : Bytes)
    (hr : ReadsKeys rdName keys) (hs : StrictSorted keys) (hne : 0 < keys.length) :
    (∃ j, ∃ h : j < keys.length, keys[j] = key ∧ bsearchLoop rdName key 0 (keys.length - 1) = .ok j) ∨
    (key ∉ keys ∧ bsearchLoop rdName key 0 (keys.length - 1) = .error .enotfound) :=
  bsearchLoop_correct rdName keys key hr hs hne

example : StrictSorted [[97], [97, 98], [98]] := by unfold StrictSorted; decide

/-! ## Write -/

/-- `Write` succeeds iff the primary keys are pairwise distinct and the aliases are pairwise distinct; then the
    file on disk is the image (header, file records, sorted fixed-width key records). Otherwise it returns
    `eslEDUP` and no index file is left behind. (An alias equal to a primary key is NOT detected: known finding
    `C06:cross-class-duplicate`, see `cross_class_duplicate_accepted`.) -/
theorem write_spec (ns : NewSsi) (h : ns.WF) (cur : Option Bytes) [Decidable ns.Distinct] :
    ((ns.write cur).2.1, (ns.write cur).2.2) =
      if ns.Distinct then (none, some ns.image) else (some .edup, none) := by
  have h1 : ¬ (ns.nsecondary > 0 ∧ ns.slen = 0) := by
    rintro ⟨ha, hb⟩
    rw [h.nsecondary] at ha
    obtain ⟨a, hmem⟩ := List.exists_mem_of_length_pos ha
    have := (h.skey a hmem).2.2.1
    omega
  unfold NewSsi.write
  simp only [h1, ↓reduceIte, h.notWritten, Bool.false_eq_true, writeBytes_internal ns h]
  by_cases hd : ns.Distinct <;> simp [hd]

theorem write_ok_iff_distinct (ns : NewSsi) (h : ns.WF) (cur : Option Bytes) :
    (ns.write cur).2.1 = none ↔ (ns.pkeys.map (·.key)).Nodup ∧ (ns.skeys.map (·.key)).Nodup := by
  classical
  have := write_spec ns h cur
  by_cases hd : ns.Distinct
  · simp only [hd, ↓reduceIte, Prod.mk.injEq] at this
    exact ⟨fun _ => hd, fun _ => this.1⟩
  · simp only [hd, ↓reduceIte, Prod.mk.injEq] at this
    exact ⟨fun hn => (by rw [this.1] at hn; cases hn), fun hdd => absurd hdd hd⟩

/-- a duplicate is reported as `eslEDUP` and leaves no index file -/
theorem write_dup_no_file (ns : NewSsi) (h : ns.WF) (cur : Option Bytes)
    (hdup : ¬ ((ns.pkeys.map (·.key)).Nodup ∧ (ns.skeys.map (·.key)).Nodup)) :
    (ns.write cur).2.1 = some .edup ∧ (ns.write cur).2.2 = none := by
  classical
  have := write_spec ns h cur
  have hd : ¬ ns.Distinct := hdup
  simp only [hd, ↓reduceIte, Prod.mk.injEq] at this
  exact this

/-- whenever `Write` leaves a file, the keys were distinct and the file is the image -/
theorem written_file (ns : NewSsi) (h : ns.WF) (cur : Option Bytes) (bytes : Bytes) (hw : (ns.write cur).2.2 = some bytes) :
    ns.Distinct ∧ bytes = ns.image := by
  classical
  have := write_spec ns h cur
  by_cases hd : ns.Distinct
  · simp only [hd, ↓reduceIte, Prod.mk.injEq] at this
    rw [this.2] at hw
    exact ⟨hd, (Option.some.inj hw).symm⟩
  · simp only [hd, ↓reduceIte, Prod.mk.injEq] at this
    rw [this.2] at hw
    cases hw

/-! ## lookups on the written bytes -/

/-- reopening the written index succeeds and reports the counts and the record geometry -/
theorem open_written (ns : NewSsi) (h : ns.WF) (cur : Option Bytes) (bytes : Bytes) (hw : (ns.write cur).2.2 = some bytes) :
    Ssi.open bytes.toArray = .ok ns.opened ∧ ns.opened.nfiles = ns.files.length ∧
      ns.opened.nprimary = ns.pkeys.length ∧ ns.opened.nsecondary = ns.skeys.length := by
  obtain ⟨_, rfl⟩ := written_file ns h cur bytes hw
  exact ⟨open_image h, rfl, rfl, rfl⟩

/-- `FindName` returns exactly the stored `(fh, roff, doff, L)` for every stored primary key -/
theorem findName_stored (ns : NewSsi) (h : ns.WF) (cur : Option Bytes) (bytes : Bytes) (hw : (ns.write cur).2.2 = some bytes)
    (k : PKey) (hk : k ∈ ns.pkeys) :
    (Ssi.open bytes.toArray).bind (·.findName k.key) = .ok ⟨k.fnum, k.roff, k.doff, k.len⟩ := by
  obtain ⟨hd, rfl⟩ := written_file ns h cur bytes hw
  rw [open_image h]
  exact findName_primary h hd k hk (FUEL - 1)

/-- `FindName` of an alias returns the record of the primary key it was registered for.
    Hypotheses: the target is a registered primary key (`AddAlias`'s documented precondition — without it the real
    recursion need not terminate) and the alias is not itself a primary key (known finding: that cross-class
    duplicate is accepted by `Write` and the alias is shadowed). FULL statement without `hnp` fails, see
    `cross_class_duplicate_accepted`. -/
theorem findName_alias_partial (ns : NewSsi) (h : ns.WF) (cur : Option Bytes) (bytes : Bytes)
    (hw : (ns.write cur).2.2 = some bytes)
    (a : SKey) (ha : a ∈ ns.skeys) (k : PKey) (hk : k ∈ ns.pkeys) (hak : a.pkey = k.key)
    (hnp : ∀ k' ∈ ns.pkeys, k'.key ≠ a.key) :
    (Ssi.open bytes.toArray).bind (·.findName a.key) = .ok ⟨k.fnum, k.roff, k.doff, k.len⟩ := by
  obtain ⟨hd, rfl⟩ := written_file ns h cur bytes hw
  rw [open_image h]
  exact findName_alias h hd a ha hnp k hk hak (FUEL - 2)

/-- every other string is reported as `eslENOTFOUND` -/
theorem findName_absent (ns : NewSsi) (h : ns.WF) (cur : Option Bytes) (bytes : Bytes) (hw : (ns.write cur).2.2 = some bytes)
    (key : Bytes) (hp : ∀ k ∈ ns.pkeys, k.key ≠ key) (hs : ∀ a ∈ ns.skeys, a.key ≠ key) :
    (Ssi.open bytes.toArray).bind (·.findName key) = .error .enotfound := by
  obtain ⟨hd, rfl⟩ := written_file ns h cur bytes hw
  rw [open_image h]
  exact EaselModel.Ssi.findName_absent h hd key hp hs (FUEL - 1)

/-- `FindNumber` enumerates the primary keys in bytewise (`strcmp`) sorted order: there is a strictly increasing
    rearrangement of the stored keys whose `i`-th element is what `FindNumber i` returns (record and key field);
    numbers outside `0..nprimary-1` are `eslENOTFOUND`. -/
theorem findNumber_sorted (ns : NewSsi) (h : ns.WF) (cur : Option Bytes) (bytes : Bytes) (hw : (ns.write cur).2.2 = some bytes) :
    ∃ sorted : List PKey, sorted.Perm ns.pkeys ∧ StrictSorted (sorted.map (·.key)) ∧
      (∀ i (hi : i < sorted.length),
        (Ssi.open bytes.toArray).bind (·.findNumber (i : Int)) =
          .ok (⟨sorted[i].fnum, sorted[i].roff, sorted[i].doff, sorted[i].len⟩, strncpy ns.plen sorted[i].key)
        ∧ cstr (strncpy ns.plen sorted[i].key) = sorted[i].key) ∧
      (∀ i : Int, (i < 0 ∨ i ≥ ns.pkeys.length) → -(2:Int)^63 ≤ i →
        (Ssi.open bytes.toArray).bind (·.findNumber i) = .error .enotfound) := by
  obtain ⟨hd, rfl⟩ := written_file ns h cur bytes hw
  refine ⟨sortPKeys ns.pkeys, sortPKeys_perm ns.pkeys, pkeys_strict h hd, ?_, ?_⟩
  · intro i hi
    rw [open_image h]
    have hk := h.pkey _ (sortP_mem h (List.getElem_mem hi))
    exact ⟨findNumber_image h i hi, cstr_strncpy _ _ hk.2.1 hk.2.2.1⟩
  · intro i hi hi2
    rw [open_image h]
    exact findNumber_out_of_range h i hi hi2

/-- `FileInfo` reports each file's name (directory stripped, as `AddFile` stored it), format, and the line geometry
    set by `SetSubseq` (flag `eslSSI_FASTSUBSEQ` iff both are positive); other handles are `eslEINVAL`. -/
theorem fileInfo_spec (ns : NewSsi) (h : ns.WF) (cur : Option Bytes) (bytes : Bytes) (hw : (ns.write cur).2.2 = some bytes)
    (fh : Nat) :
    (Ssi.open bytes.toArray).bind (·.fileInfo fh) =
      if hfh : fh < ns.files.length then
        .ok { name := strncpy ns.flen ns.files[fh].name, format := ns.files[fh].fmt,
              flags := if ns.files[fh].bpl > 0 ∧ ns.files[fh].rpl > 0 then 1 else 0,
              bpl := ns.files[fh].bpl, rpl := ns.files[fh].rpl }
      else .error .einval := by
  obtain ⟨_, rfl⟩ := written_file ns h cur bytes hw
  rw [open_image h]
  by_cases hfh : fh < ns.files.length
  · simp only [hfh, ↓reduceDIte]
    exact fileInfo_image fh hfh
  · simp only [hfh, ↓reduceDIte]
    exact fileInfo_bad fh (by omega)

end EaselModel.Props.C06
