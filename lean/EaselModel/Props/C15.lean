import EaselModel.Msa.LemmasMsa
import EaselModel.Msa.LemmasConv
import EaselModel.Msa.LemmasGaps
import EaselModel.Msa.LemmasTags
import EaselModel.Msa.LemmasWuss
import EaselModel.Msa.LemmasRbb
import EaselModel.Msa.LemmasDyck
import EaselModel.Msa.LemmasFrag
import EaselModel.Msa.LemmasC2W
import EaselModel.Msa.LemmasSsCols
import EaselModel.Msa.LemmasNoPk
import EaselModel.Msa.LemmasC2WSimple
import EaselModel.Msa.LemmasFull
import EaselModel.Msa.LemmasPairs
import EaselModel.Msa.LemmasClass
import EaselModel.Msa.LemmasPk3
import EaselModel.Msa.LemmasRbbOk
/-! # C15 — alignment transformations keep the alignment well formed and the residues intact; WUSS round trips

Property theorems only; proofs are glue on the lemmas of `EaselModel/Msa/Lemmas*.lean`.
The model (`EaselModel/Msa/Model.lean`, `Wuss.lean`) is tied to the working tree by the exact differential run of
`harness/h_msaops.c`; the alphabet tables (`Msa/AbcTables.lean`) are regenerated from the tree on every run. -/
namespace EaselModel.Props.C15
open EaselModel.Msa

/-! ## ColumnSubset: the in-place compaction loop is filter-by-mask on EVERY aligned field -/

/-- One buffer of the in-place loop `for (opos = 0, npos = 0; opos <= alen; opos++)` of `esl_msa_ColumnSubset`:
    for a field of `alen` cells followed by its terminator, what `strlen`/`esl_abc_dsqlen` sees afterwards is exactly
    the cells whose `useme` flag is set, in order (no out-of-bounds access: the result is `some`). -/
theorem compact_is_filter (useme : List Bool) (alen : Nat) (term : UInt8) (s : Bytes)
    (hm : useme.length = alen) (hs : s.length = alen) (hterm : ∀ c ∈ s, c ≠ term) :
    compactField useme alen term s = some (maskFilter useme s) :=
  compactField_eq useme alen term s hm hs hterm

/-- `esl_msa_ColumnSubset` on a well-formed alignment whose alphabet is not DNA/RNA (text mode, amino): status `eslOK`,
    no fault, and the result is `colFilter`: rows, SS/SA/PP, every GR line, SS_cons/SA_cons/PP_cons/RF/MM and every
    GC line went through the same column selection; `alen` is the number of kept columns; nothing else changed. -/
theorem columnSubset_is_filter (m : Msa) (mask : List Bool) (wf : m.WF) (hm : mask.length = m.alen)
    (hnuc : ∀ a, m.abc = some a → a.isNucleic = false) :
    columnSubset m mask = { msa := m.colFilter mask, st := .ok } := by
  have h := columnCompact_eq m mask wf hm
  unfold columnSubset
  cases habc : m.abc with
  | none => simp [h]
  | some a => simp [hnuc a habc, h]

/-- The compaction part for ANY well-formed alignment (for DNA/RNA it runs on the alignment returned by the base-pair
    repair; see `columnSubset_nucleic_partial`). -/
theorem columnCompact_is_filter (m : Msa) (mask : List Bool) (wf : m.WF) (hm : mask.length = m.alen) :
    columnCompact m mask = some (m.colFilter mask) :=
  columnCompact_eq m mask wf hm

/-- DNA/RNA alignments: `esl_msa_ColumnSubset` first repairs the base pairs (`esl_msa_RemoveBrokenBasepairs`, which
    rewrites only SS_cons and the per-sequence SS lines and keeps the alignment well formed) and then applies the
    same column filter to every aligned field of the repaired alignment; if the repair reports an error (an SS line
    that is not balanced WUSS) that status is returned and no column is removed. -/
theorem columnSubset_nucleic (m : Msa) (mask : List Bool) (a : Abc) (wf : m.WF) (habc : m.abc = some a)
    (hn : a.isNucleic = true) (hm : mask.length = m.alen) :
    ((removeBrokenBasepairs m mask).st = .ok →
        columnSubset m mask = { msa := (removeBrokenBasepairs m mask).msa.colFilter mask, st := .ok } ∧
        ((removeBrokenBasepairs m mask).msa.colFilter mask).WF ∧
        ∃ sc ss', (removeBrokenBasepairs m mask).msa = { m with ss_cons := sc, ss := ss' }) ∧
    ((removeBrokenBasepairs m mask).st ≠ .ok → columnSubset m mask = removeBrokenBasepairs m mask) := by
  constructor
  · intro hok
    obtain ⟨wf', hal, hform⟩ := removeBrokenBasepairs_wf m mask wf hok
    have hm' : mask.length = (removeBrokenBasepairs m mask).msa.alen := by rw [hal]; exact hm
    have h := columnCompact_eq _ mask wf' hm'
    exact ⟨by simp [columnSubset, habc, hn, hok, h], colFilter_wf _ mask wf' hm', hform⟩
  · intro hbad
    simp [columnSubset, habc, hn, hbad]

/-- UNCONDITIONAL DNA/RNA `esl_msa_ColumnSubset` for alignments whose SS_cons and per-sequence SS lines are balanced WUSS
    without pseudoknot letters: the base-pair repair cannot fail, the result is the column filter of the repaired
    alignment (only SS lines were rewritten), well formed -/
theorem columnSubset_nucleic_plain (m : Msa) (mask : List Bool) (a : Abc) (wf : m.WF) (habc : m.abc = some a)
    (hn : a.isNucleic = true) (hm : mask.length = m.alen)
    (hc : ∀ b, m.ss_cons = some b → PlainSS b) (hs : ∀ s b, s ∈ m.ss → s = some b → PlainSS b) :
    columnSubset m mask = { msa := (removeBrokenBasepairs m mask).msa.colFilter mask, st := .ok } ∧
    ((removeBrokenBasepairs m mask).msa.colFilter mask).WF ∧
    ∃ sc ss', (removeBrokenBasepairs m mask).msa = { m with ss_cons := sc, ss := ss' } :=
  (columnSubset_nucleic m mask a wf habc hn hm).1 (removeBrokenBasepairs_ok_plain m mask hc hs)

/-- well-formedness (every aligned length = the new `alen`, no embedded terminator, >= 1 sequence, table widths) is
    preserved by the column selection -/
theorem columnSubset_wellformed (m : Msa) (mask : List Bool) (wf : m.WF) (hm : mask.length = m.alen) :
    (m.colFilter mask).WF :=
  colFilter_wf m mask wf hm

/-- residues intact: if every removed column is a gap in a row, the row spells the same ungapped sequence -/
theorem columnSubset_dealign (isGap : UInt8 → Bool) (mask : List Bool) (row : Bytes)
    (hl : mask.length = row.length) (hg : removesOnlyGaps isGap mask row) :
    dealign isGap (maskFilter mask row) = dealign isGap row :=
  dealign_maskFilter isGap mask row hl hg

/-! ## MinimGaps / NoGaps -/

/-- text mode: `esl_msa_MinimGaps` removes exactly the columns that are a gap in every sequence, except (RF rule as
    coded) columns whose RF character is not a gap when `consider_rf` is set and RF is present -/
theorem minimGaps_text_removes_exactly (m : Msa) (gaps : Bytes) (considerRf : Bool) (apos : Nat) (h : apos < m.alen) :
    (minimGapsTextMask m gaps considerRf).getD apos true = false ↔
      ((colOf m.rows apos).all (inGaps gaps) = true ∧
       ¬ (considerRf = true ∧ ∃ rf, m.rf = some rf ∧ inGaps gaps (rf.getD apos 0) = false)) :=
  minimGapsTextMask_spec m gaps considerRf apos h

/-- digital mode: gap = `esl_abc_XIsGap || esl_abc_XIsMissing`; RF protected unless it digitizes to gap or missing -/
theorem minimGaps_digital_removes_exactly (m : Msa) (a : Abc) (considerRf : Bool) (apos : Nat) (h : apos < m.alen) :
    (minimGapsDigitalMask m a considerRf).getD apos true = false ↔
      ((colOf m.rows apos).all (fun x => a.xIsGap x || a.xIsMissing x) = true ∧
       ¬ (considerRf = true ∧ ∃ rf, m.rf = some rf ∧
            (a.cIsGap (rf.getD apos 0) || a.cIsMissing (rf.getD apos 0)) = false)) :=
  minimGapsDigitalMask_spec m a considerRf apos h

/-- `esl_msa_MinimGaps` (text mode, or amino digital): the result is the column filter by that mask, well formed, and
    every row spells the same ungapped sequence as before -/
theorem minimGaps_text_is_filter (m : Msa) (gaps : Bytes) (considerRf : Bool) (wf : m.WF) (hd : m.isDigital = false)
    (hnuc : ∀ a, m.abc = some a → a.isNucleic = false) :
    minimGaps m gaps considerRf = { msa := m.colFilter (minimGapsTextMask m gaps considerRf), st := .ok } ∧
    (m.colFilter (minimGapsTextMask m gaps considerRf)).WF ∧
    ∀ r ∈ m.rows, dealign (inGaps gaps) (maskFilter (minimGapsTextMask m gaps considerRf) r) = dealign (inGaps gaps) r := by
  have hl := minimGapsTextMask_length m gaps considerRf
  refine ⟨?_, colFilter_wf m _ wf hl, fun r hr => ?_⟩
  · simp only [minimGaps, hd, minimGapsText]
    simp [columnSubset_is_filter m _ wf hl hnuc]
  · exact dealign_maskFilter _ _ r (by rw [hl, (wf.rows_ok r hr).1]) (minimGapsTextMask_removesOnlyGaps m gaps considerRf r hr)

theorem minimGaps_digital_is_filter (m : Msa) (a : Abc) (gaps : Bytes) (considerRf : Bool) (wf : m.WF)
    (hd : m.isDigital = true) (habc : m.abc = some a) (hnuc : a.isNucleic = false) :
    minimGaps m gaps considerRf = { msa := m.colFilter (minimGapsDigitalMask m a considerRf), st := .ok } ∧
    (m.colFilter (minimGapsDigitalMask m a considerRf)).WF ∧
    ∀ r ∈ m.rows, dealign (fun x => a.xIsGap x || a.xIsMissing x) (maskFilter (minimGapsDigitalMask m a considerRf) r)
                  = dealign (fun x => a.xIsGap x || a.xIsMissing x) r := by
  have hl := minimGapsDigitalMask_length m a considerRf
  refine ⟨?_, colFilter_wf m _ wf hl, fun r hr => ?_⟩
  · simp only [minimGaps, hd, habc]
    exact columnSubset_is_filter m _ wf hl (fun a' ha' => by rw [habc] at ha'; injection ha' with e; rw [← e]; exact hnuc)
  · exact dealign_maskFilter _ _ r (by rw [hl, (wf.rows_ok r hr).1]) (minimGapsDigitalMask_removesOnlyGaps m a considerRf r hr)

/-- `esl_msa_NoGaps` keeps exactly the columns without any gap; every row of the result is gap free -/
theorem noGaps_text_keeps_exactly (m : Msa) (gaps : Bytes) (apos : Nat) (h : apos < m.alen) :
    (noGapsTextMask m gaps).getD apos false = true ↔ (colOf m.rows apos).any (inGaps gaps) = false :=
  noGapsTextMask_spec m gaps apos h

theorem noGaps_text_is_filter (m : Msa) (gaps : Bytes) (wf : m.WF) (hd : m.isDigital = false)
    (hnuc : ∀ a, m.abc = some a → a.isNucleic = false) :
    noGaps m gaps = { msa := m.colFilter (noGapsTextMask m gaps), st := .ok } ∧
    (m.colFilter (noGapsTextMask m gaps)).WF ∧
    ∀ r ∈ m.rows, ∀ c ∈ maskFilter (noGapsTextMask m gaps) r, inGaps gaps c = false := by
  have hl := noGapsTextMask_length m gaps
  refine ⟨?_, colFilter_wf m _ wf hl, fun r hr => ?_⟩
  · simp only [noGaps, hd, noGapsText]
    simp [columnSubset_is_filter m _ wf hl hnuc]
  · apply maskFilter_noGaps_row _ _ r (by rw [hl, (wf.rows_ok r hr).1])
    intro i hi hm
    rw [(wf.rows_ok r hr).1] at hi
    have := (noGapsTextMask_spec m gaps i hi).mp hm
    rw [List.any_eq_false] at this
    simpa using this _ (colOf_mem m.rows r hr i)

/-! ## esl_sq_FetchFromMSA (esl_sq.c): the ungapped sequence as the library itself extracts it -/

/-- the sequence fetched for a row is its ungapped residues (text: everything but `-_.~`; digital: everything but the
    gap and missing-data codes) -/
theorem fetch_is_ungapped_row (m : Msa) (which : Nat) (wf : m.WF) (hw : which < m.nseq) :
    (fetchFromMSA m which).map (·.seq) = some (dealign (fetchIsGap m) (m.rows.getD which [])) :=
  fetch_seq_eq m which wf hw

/-- residues intact, observed through `esl_sq_FetchFromMSA`: a column selection that removes only gap cells of a row
    (MinimGaps; `minimGaps*_removesOnlyGaps`) leaves the sequence fetched for that row unchanged -/
theorem fetch_after_gap_removal (m : Msa) (mask : List Bool) (which : Nat) (wf : m.WF) (hm : mask.length = m.alen)
    (hw : which < m.nseq) (hg : removesOnlyGaps (fetchIsGap m) mask (m.rows.getD which [])) :
    (fetchFromMSA (m.colFilter mask) which).map (·.seq) = (fetchFromMSA m which).map (·.seq) :=
  fetch_after_gap_removal' m mask which wf hm hw hg

/-! ## SequenceSubset, Clone -/

/-- `esl_msa_SequenceSubset` succeeds iff at least one sequence is selected, and then rows, names, weights, accessions,
    descriptions, SS, SA, PP of the retained sequences are kept in order (filter by the sequence mask), the per-column
    annotation, names and cutoffs are copied, and comments / GF / GC are dropped as documented. The input is unchanged
    (the operation is a function). -/
theorem sequenceSubset_keeps_rows (m : Msa) (useme : List Bool) (b : Msa) (wf : m.WF)
    (h : sequenceSubset m useme = .ok b) :
    b.nseq = countSelected m useme ∧ b.nseq ≠ 0 ∧ b.alen = m.alen ∧ b.flags = m.flags ∧ b.abc = m.abc ∧
    b.rows = maskFilter useme m.rows ∧ b.sqname = maskFilter useme m.sqname ∧ b.wgt = maskFilter useme m.wgt ∧
    b.sqacc = maskFilter useme m.sqacc ∧ b.sqdesc = maskFilter useme m.sqdesc ∧
    b.ss = maskFilter useme m.ss ∧ b.sa = maskFilter useme m.sa ∧ b.pp = maskFilter useme m.pp ∧
    b.ss_cons = m.ss_cons ∧ b.sa_cons = m.sa_cons ∧ b.pp_cons = m.pp_cons ∧ b.rf = m.rf ∧ b.mm = m.mm ∧
    b.name = m.name ∧ b.desc = m.desc ∧ b.acc = m.acc ∧ b.au = m.au ∧ b.cutoff = m.cutoff ∧ b.cutset = m.cutset ∧
    b.comment = [] ∧ b.gf = [] ∧ b.gc = [] := by
  obtain ⟨hn, rfl⟩ := sequenceSubset_ok m useme b h
  have hcut : ∀ (s : Option Bytes), optOk m.alen s → s.map (fun b => b.take m.alen) = s := by
    intro s hs
    cases s with
    | none => rfl
    | some b0 => simp [List.take_of_length_le (Nat.le_of_eq (hs b0 rfl).1)]
  simp [sequenceSubsetMsa, hn, hcut _ wf.ss_cons_ok, hcut _ wf.sa_cons_ok, hcut _ wf.pp_cons_ok, hcut _ wf.rf_ok,
        hcut _ wf.mm_ok]

theorem sequenceSubset_fails_iff_empty (m : Msa) (useme : List Bool) :
    (∃ e, sequenceSubset m useme = .error e) ↔ countSelected m useme = 0 := by
  unfold sequenceSubset
  by_cases h : countSelected m useme = 0 <;> simp [h]

/-- the subset of a well-formed alignment (distinct GS tags, distinct GR tags — what the keyhash of
    `esl_msa_AddGS`/`AppendGR` guarantees) is well formed, including the widths and lengths of the rebuilt tables -/
theorem sequenceSubset_wellformed (m : Msa) (useme : List Bool) (b : Msa) (wf : m.WF)
    (hgs : (m.gs.map (·.1)).Nodup) (hgr : (m.gr.map (·.1)).Nodup) (h : sequenceSubset m useme = .ok b) : b.WF := by
  obtain ⟨hn, rfl⟩ := sequenceSubset_ok m useme b h
  exact sequenceSubsetMsa_wf m useme wf hn hgs hgr

/-- names, weights, rows and per-sequence annotation stay attached to their sequence: the retained old sequence `o`
    is the new sequence `rankOf useme o` (= number of selected sequences before it) in every per-sequence array -/
theorem sequenceSubset_attached {α : Type} (d : α) (useme : List Bool) (xs : List α) (o : Nat) (ho : o < xs.length)
    (hu : useme.getD o false = true) : (maskFilter useme xs).getD (rankOf useme o) d = xs.getD o d :=
  maskFilter_getD_rank d useme xs o ho hu

/-- unparsed GS and GR markup of every retained sequence is carried over, tag by tag, to its new index, and nothing
    else appears there (an empty GR string, possible only when `alen = 0`, is dropped by `esl_strcat`) -/
theorem sequenceSubset_keeps_markup (m : Msa) (useme : List Bool) (b : Msa)
    (hgs : (m.gs.map (·.1)).Nodup) (hgr : (m.gr.map (·.1)).Nodup) (h : sequenceSubset m useme = .ok b)
    (o : Nat) (ho : o < m.nseq) (hu : useme.getD o false = true) (tag : Bytes) :
    tblLookup tag (rankOf useme o) b.gs = tblLookup tag o m.gs ∧
    tblLookup tag (rankOf useme o) b.gr = (tblLookup tag o m.gr).bind (fun v => if v.isEmpty then none else some v) := by
  obtain ⟨_, rfl⟩ := sequenceSubset_ok m useme b h
  exact (subset_tables m useme hgs hgr).2.2.2.2 o ho hu tag

/-- `esl_msa_Clone` / `esl_msa_Copy` duplicate every field (and, being functions, leave the input unchanged) -/
theorem clone_is_identity (m : Msa) : clone m = m := rfl

/-! ## text <-> digital, reverse complement (over the alphabet tables regenerated from the working tree) -/

/-- digital -> text -> digital is the identity (for any alphabet whose `sym`/`inmap` tables agree; the three
    generated alphabets do: `rna_symInmapOk`, `dna_symInmapOk`, `amino_symInmapOk`, by `decide` on the whole table) -/
theorem digital_text_digital (a : Abc) (m : Msa) (wf : m.WF) (hd : m.isDigital = true) (habc : m.abc = some a)
    (hc : m.codesOk a) (ht : a.symInmapOk) :
    (textize m).st = .ok ∧ digitize a (textize m).msa = { msa := m, st := .ok } :=
  digitize_textize a m wf hd habc hc ht

theorem generated_tables_consistent :
    Gen.rnaAbc.symInmapOk ∧ Gen.dnaAbc.symInmapOk ∧ Gen.aminoAbc.symInmapOk :=
  ⟨rna_symInmapOk, dna_symInmapOk, amino_symInmapOk⟩

/-- text -> digital -> text rewrites every residue `c` to the canonical symbol `sym[inmap[c]]` of its code and
    changes nothing else (`canonical_symbol_*` below say what that symbol is for the three alphabets) -/
theorem text_digital_text (a : Abc) (m : Msa) (wf : m.WF) (hd : m.isDigital = false) (habc : m.abc = none)
    (hv : (m.rows.all fun r => r.all a.cIsValid) = true) :
    (digitize a m).st = .ok ∧
    textize (digitize a m).msa =
      { msa := { m with rows := m.rows.map (fun r => r.map (fun c => a.sym.getD (a.digit c).toNat 0)) }, st := .ok } :=
  textize_digitize a m wf hd habc hv

/-- canonical forms: an upper-case symbol of the alphabet is unchanged, a lower-case one is upper-cased, and the gap
    symbols `-`, `.`, `_` all become `-`; `*` and `~` are kept (amino: whole table, by `decide`) -/
theorem canonical_symbol_amino : ∀ n, n < 128 → Gen.aminoAbc.cIsValid (UInt8.ofNat n) = true →
    let c := UInt8.ofNat n
    let r := Gen.aminoAbc.sym.getD (Gen.aminoAbc.digit c).toNat 0
    (isUpper c → r = c) ∧ (isLower c → r = toUpper c) ∧ (c = 0x2d ∨ c = 0x2e ∨ c = 0x5f → r = 0x2d) ∧
    (c = 0x2a ∨ c = 0x7e → r = c) := by decide +kernel

/-- RNA: as above, except for the documented synonyms `T -> U`, `X -> N`, `I -> A` -/
theorem canonical_symbol_rna : ∀ n, n < 128 → Gen.rnaAbc.cIsValid (UInt8.ofNat n) = true →
    let c := UInt8.ofNat n
    let r := Gen.rnaAbc.sym.getD (Gen.rnaAbc.digit c).toNat 0
    ((isUpper c && c != 0x54 && c != 0x58 && c != 0x49) = true → r = c) ∧
    ((isLower c && c != 0x74 && c != 0x78 && c != 0x69) = true → r = toUpper c) ∧
    (c = 0x2d ∨ c = 0x2e ∨ c = 0x5f → r = 0x2d) ∧ (c = 0x2a ∨ c = 0x7e → r = c) := by decide +kernel

/-- DNA: synonyms `U -> T`, `X -> N`, `I -> A` -/
theorem canonical_symbol_dna : ∀ n, n < 128 → Gen.dnaAbc.cIsValid (UInt8.ofNat n) = true →
    let c := UInt8.ofNat n
    let r := Gen.dnaAbc.sym.getD (Gen.dnaAbc.digit c).toNat 0
    ((isUpper c && c != 0x55 && c != 0x58 && c != 0x49) = true → r = c) ∧
    ((isLower c && c != 0x75 && c != 0x78 && c != 0x69) = true → r = toUpper c) ∧
    (c = 0x2d ∨ c = 0x2e ∨ c = 0x5f → r = 0x2d) ∧ (c = 0x2a ∨ c = 0x7e → r = c) := by decide +kernel

/-- reverse-complementing a digital nucleic alignment twice is the identity (rows, SS lines through
    `esl_wuss_reverse`, every other aligned annotation) — for an involutive complement table -/
theorem reverseComplement_twice (a : Abc) (compl : List UInt8) (m : Msa) (hd : m.isDigital = true)
    (habc : m.abc = some a) (hcompl : a.complement = some compl) (hinv : a.complInvolutive compl) (hc : m.codesOk a) :
    (reverseComplement m).st = .ok ∧ reverseComplement (reverseComplement m).msa = { msa := m, st := .ok } :=
  reverseComplement_twice' a compl m hd habc hcompl hinv hc

/-- the generated DNA and RNA complement tables are involutions on the valid codes -/
theorem generated_complement_involutive :
    (∃ c, Gen.rnaAbc.complement = some c ∧ Gen.rnaAbc.complInvolutive c) ∧
    (∃ c, Gen.dnaAbc.complement = some c ∧ Gen.dnaAbc.complInvolutive c) :=
  ⟨rna_complInvolutive, dna_complInvolutive⟩

/-! ## FlushLeftInserts, MarkFragments -/

/-- `esl_msa_FlushLeftInserts` rewrites every row to `flushRow`; on a well-formed alignment each row keeps its length,
    spells the same residues in the same order (only gaps moved), and every consensus (RF non-gap) column keeps its
    own cell; nothing but the rows changes -/
theorem flushLeftInserts_spec (m : Msa) (a : Abc) (rf : Bytes) (wf : m.WF) (hrf : m.rf = some rf) (habc : m.abc = some a)
    (hd : m.isDigital = true) (hg : a.xIsGap a.xGap = true) :
    flushLeftInserts m = { msa := { m with rows := m.rows.map (flushRow a rf m.alen) }, st := .ok } ∧
    ∀ r ∈ m.rows,
      (flushRow a rf m.alen r).length = m.alen ∧
      (flushRow a rf m.alen r).filter (fun x => !a.xIsGap x) = r.filter (fun x => !a.xIsGap x) ∧
      (∀ i, i < m.alen → a.cIsGap (rf.getD i 0) = false → (flushRow a rf m.alen r).getD i 0 = r.getD i 0) := by
  refine ⟨by simp [flushLeftInserts, hrf, habc], fun r hr => ?_⟩
  exact flushRow_spec a hg rf r m.alen (wf.rf_ok rf hrf).1 (wf.rows_ok r hr).1

/-- `esl_msa_MarkFragments_old` on one row (`maskEnds`): same length, same residues in the same order; every cell is
    an old cell or the missing-data symbol (leading / trailing non-residues only) -/
theorem markFragmentsOld_row_spec (isRes : UInt8 → Bool) (miss : UInt8) (hm : isRes miss = false) (r : Bytes) :
    (maskEnds isRes miss r).length = r.length ∧ (maskEnds isRes miss r).filter isRes = r.filter isRes ∧
    ∀ c ∈ maskEnds isRes miss r, c ∈ r ∨ c = miss :=
  maskEnds_spec isRes miss hm r

/-- ... and the operation touches nothing but the rows it flags (`fragSyms`: residue test and missing symbol of the mode) -/
theorem markFragmentsOld_rows (m : Msa) (isFrag : Nat → Bool) :
    markFragmentsOld m isFrag =
      { m with rows := m.rows.map fun r => if isFrag (rawLen m r) then maskEnds (fragSyms m).1 (fragSyms m).2 r else r } :=
  rfl

/-- in the three generated alphabets the gap code is a gap and the missing-data code is not a residue -/
theorem generated_gap_missing_codes :
    (Gen.rnaAbc.xIsGap Gen.rnaAbc.xGap = true ∧ Gen.rnaAbc.xIsResidue Gen.rnaAbc.xMissing = false) ∧
    (Gen.dnaAbc.xIsGap Gen.dnaAbc.xGap = true ∧ Gen.dnaAbc.xIsResidue Gen.dnaAbc.xMissing = false) ∧
    (Gen.aminoAbc.xIsGap Gen.aminoAbc.xGap = true ∧ Gen.aminoAbc.xIsResidue Gen.aminoAbc.xMissing = false) ∧
    isAlnum 0x7e = false := by decide

/-! ## WUSS -/

/-- `esl_wuss2ct` returns `eslOK` iff every symbol is a legal WUSS symbol and every one of the 27 bracket languages —
    class 0: `<>`, `()`, `[]`, `{}` on one stack with matching kinds; classes 1..26: the letter pairs `Aa`..`Zz` — is
    balanced and properly matched, each language judged on its own by the single-stack recogniser `dyckRun`
    (otherwise the status is `eslESYNTAX`) -/
theorem wuss2ct_accepts_iff (ss : Bytes) :
    (∃ ct, wuss2ct ss = some ct) ↔ ((∀ c ∈ ss, legalSym c = true) ∧ ∀ k, k < 27 → balancedClass k ss) :=
  wuss2ct_accepts_iff' ss

/-- `esl_wuss2ct` returned `eslOK`: the table has `len+1` cells and is an involution without fixed points on the
    paired positions, all of them within `1..len` -/
theorem wuss2ct_involution (ss : Bytes) (ct : List Nat) (h : wuss2ct ss = some ct) :
    ct.length = ss.length + 1 ∧
    ∀ i, ct.getD i 0 ≠ 0 →
      1 ≤ i ∧ i ≤ ss.length ∧ 1 ≤ ct.getD i 0 ∧ ct.getD i 0 ≤ ss.length ∧
      ct.getD (ct.getD i 0) 0 = i ∧ ct.getD i 0 ≠ i :=
  wuss2ct_involution' ss ct h

/-- every pair of the table joins an opening symbol with ITS closing symbol: `<>`, `()`, `[]`, `{}` or the same
    pseudoknot letter in upper (left) and lower (right) case — pairs never cross bracket kinds or letters -/
theorem wuss2ct_pairs_matched (ss : Bytes) (ct : List Nat) (h : wuss2ct ss = some ct) (i : Nat)
    (hi : ct.getD i 0 ≠ 0) (hlt : i < ct.getD i 0) : pairOk ss i (ct.getD i 0) :=
  wuss2ct_pairs_matched' ss ct h i hi hlt

/-- for a NESTED pair table (no two pairs cross) `esl_wuss2ct` reads back exactly that table from ANY bracket labelling
    of it (any mixture of the four bracket kinds, any unpaired symbols) -/
theorem wuss2ct_of_labels (ss : Bytes) (ct : List Nat) (hct : CtOk ss.length ct) (hn : Nested ct) (hl : Labels ct ss) :
    wuss2ct ss = some ct :=
  wuss2ct_of_labels' ss ct hct hn hl

/-- on a nested pair table `esl_ct2wuss` never enters its pseudoknot branch; when it returns `eslOK` the string has
    `n` symbols and is a bracket labelling of the table -/
theorem ct2wuss_nested_labels (n : Nat) (ct : List Nat) (hct : CtOk n ct) (hn : Nested ct) (ss : Bytes)
    (h : ct2wuss ct = .ok ss) : ss.length = n ∧ Labels ct ss :=
  ct2wuss_labels n ct hct hn ss h

/-- NESTED ROUND TRIP `wuss2ct (ct2wuss ct) = ct` for every symmetric non-pseudoknotted pair table -/
theorem nested_roundtrip (n : Nat) (ct : List Nat) (hct : CtOk n ct) (hn : Nested ct) (ss : Bytes)
    (h : ct2wuss ct = .ok ss) : wuss2ct ss = some ct :=
  nested_roundtrip' n ct hct hn ss h

/-- UNCONDITIONAL nested round trip: on every symmetric non-pseudoknotted pair table `esl_ct2wuss` succeeds (never
    enters the pseudoknot branch, finds every pair: `npairs == npairs_reached`) and `esl_wuss2ct` of its output is the
    table again -/
theorem nested_roundtrip_total (n : Nat) (ct : List Nat) (hct : CtOk n ct) (hn : Nested ct) :
    ∃ ss, ct2wuss ct = .ok ss ∧ wuss2ct ss = some ct :=
  nested_roundtrip_total' n ct hct hn

/-- the same for `esl_ct2simplewuss` (`<>` for every pair, `.` for unpaired residues): it succeeds on every symmetric
    nested table and `esl_wuss2ct` reads the table back -/
theorem simple_nested_roundtrip_total (n : Nat) (ct : List Nat) (hct : CtOk n ct) (hn : Nested ct) :
    ∃ ss, ct2simplewuss ct = .ok ss ∧ wuss2ct ss = some ct :=
  simple_nested_roundtrip_total' n ct hct hn

/-- NESTED structures, end to end on strings: `esl_msa_RemoveBrokenBasepairsFromSS` succeeds and the SS line it writes
    reads back as EXACTLY the original pairs whose two partners are both retained (`removeBroken_keeps_exactly`
    characterises that table) -/
theorem removeBroken_nested (ss : Bytes) (useme : List Bool) (ct : List Nat) (h : wuss2ct ss = some ct) (hn : Nested ct) :
    ∃ ss', removeBrokenFromSS ss useme = .ok ss' ∧ wuss2ct ss' = some (breakPairs useme 1 ss.length ct) :=
  removeBroken_nested' ss useme ct h hn

/-- "Secondary-structure annotation stays a balanced WUSS string", nested case, through BOTH steps of a DNA/RNA
    `esl_msa_ColumnSubset`: the base-pair repair succeeds, writes a line of the same length spelling exactly the pairs
    with both partners retained, every column that is then removed carries an unpaired symbol, and the compacted line
    is accepted by `esl_wuss2ct` again (that its pairs are the re-indexed retained pairs is checked by the monitors) -/
theorem repaired_then_compacted_balanced (ss : Bytes) (mask : List Bool) (ct : List Nat) (h : wuss2ct ss = some ct)
    (hn : Nested ct) (hm : mask.length = ss.length) :
    ∃ ss', removeBrokenFromSS ss mask = .ok ss' ∧ ss'.length = ss.length ∧
      wuss2ct ss' = some (breakPairs mask 1 ss.length ct) ∧ ∃ ct2, wuss2ct (maskFilter mask ss') = some ct2 :=
  repaired_then_compacted_balanced' ss mask ct h hn hm

/-- the pair table of a balanced WUSS string WITHOUT pseudoknot letters is nested -/
theorem wuss2ct_nopk_nested (ss : Bytes) (hnl : ∀ c ∈ ss, isAlpha c = false) (ct : List Nat) (h : wuss2ct ss = some ct) :
    Nested ct :=
  wuss2ct_nopk_nested' ss hnl ct h

/-- wuss -> ct -> wuss -> ct is the identity on pair tables for every balanced WUSS string without pseudoknot letters:
    `esl_ct2wuss` succeeds on its table and `esl_wuss2ct` reads the same table back -/
theorem nopk_wuss_roundtrip (ss : Bytes) (hnl : ∀ c ∈ ss, isAlpha c = false) (ct : List Nat) (h : wuss2ct ss = some ct) :
    ∃ ss2, ct2wuss ct = .ok ss2 ∧ wuss2ct ss2 = some ct :=
  nested_roundtrip_total' ss.length ct (wuss2ct_ctOk ss ct h) (wuss2ct_nopk_nested' ss hnl ct h)

/-- ... and for such an SS line a DNA/RNA ColumnSubset (repair, then compaction) succeeds, spells after the repair
    exactly the pairs with both partners retained, and leaves a balanced WUSS string -/
theorem nopk_repaired_then_compacted (ss : Bytes) (mask : List Bool) (hnl : ∀ c ∈ ss, isAlpha c = false) (ct : List Nat)
    (h : wuss2ct ss = some ct) (hm : mask.length = ss.length) :
    ∃ ss', removeBrokenFromSS ss mask = .ok ss' ∧ ss'.length = ss.length ∧
      wuss2ct ss' = some (breakPairs mask 1 ss.length ct) ∧ ∃ ct2, wuss2ct (maskFilter mask ss') = some ct2 :=
  repaired_then_compacted_balanced' ss mask ct h (wuss2ct_nopk_nested' ss hnl ct h) hm

/-- PSEUDOKNOTTED ROUND TRIP (any symmetric pair table, crossing pairs allowed): whenever `esl_ct2wuss` returns
    `eslOK`, `esl_wuss2ct` of its output is the same table. (`esl_ct2wuss` may refuse a table whose greedy lettering
    needs more than `A..Z`: documented `eslEINVAL`.) -/
theorem pk_roundtrip (n : Nat) (ct : List Nat) (hct : CtOk n ct) (ss : Bytes) (h : ct2wuss ct = .ok ss) :
    wuss2ct ss = some ct :=
  pk_roundtrip' n ct hct ss h

/-- what `esl_ct2wuss` writes for an arbitrary table: `n` symbols; unpaired positions carry unpaired symbols, every
    pair a bracket pair or an upper/lower letter pair, and pairs that share a stack never cross -/
theorem ct2wuss_is_class_labelling (n : Nat) (ct : List Nat) (hct : CtOk n ct) (ss : Bytes) (h : ct2wuss ct = .ok ss) :
    ss.length = n ∧ ClassLabels ct ss ∧ ClassNested ct ss :=
  ct2wuss_class_labels n ct hct ss h

/-- THE PAIR-SET THEOREM: for ANY balanced WUSS string (pseudoknot letters included) wuss -> ct -> wuss -> ct returns
    the same pair table -/
theorem wuss_ct_wuss_ct_pk (ss ss2 : Bytes) (ct : List Nat) (h1 : wuss2ct ss = some ct) (h2 : ct2wuss ct = .ok ss2) :
    wuss2ct ss2 = some ct :=
  pk_roundtrip' ss.length ct (wuss2ct_ctOk ss ct h1) ss2 h2

/-- `esl_msa_RemoveBrokenBasepairsFromSS` on ANY balanced SS line: when it returns `eslOK`, the line it wrote reads
    back as exactly the original pairs whose two partners are both retained -/
theorem removeBroken_pairs_pk (ss ss' : Bytes) (useme : List Bool) (ct : List Nat) (h : wuss2ct ss = some ct)
    (h2 : removeBrokenFromSS ss useme = .ok ss') :
    wuss2ct ss' = some (breakPairs useme 1 ss.length ct) := by
  have hct := wuss2ct_ctOk ss ct h
  have hb := (breakPairs_ctOk_nested useme ss.length ct hct).1
  simp only [removeBrokenFromSS, h] at h2
  exact pk_roundtrip' ss.length _ hb ss' h2

/-- DNA/RNA `esl_msa_ColumnSubset` on ANY balanced SS line (pseudoknots included), both steps, pair sets included: if
    the repair returns `eslOK`, it spells exactly the retained pairs and the compacted line is read as those pairs
    renumbered to the new columns -/
theorem columnSubset_pairs_pk (ss ss' : Bytes) (mask : List Bool) (ct : List Nat) (h : wuss2ct ss = some ct)
    (hm : mask.length = ss.length) (h2 : removeBrokenFromSS ss mask = .ok ss') :
    ∃ ps, breakPairs mask 1 ss.length ct = tableOf (List.replicate (ss.length + 1) 0) ps ∧
      wuss2ct (maskFilter mask ss') =
        some (tableOf (List.replicate ((maskFilter mask ss').length + 1) 0) (relabelPs (newPos mask) ps)) := by
  have hct := wuss2ct_ctOk ss ct h
  have hb := (breakPairs_ctOk_nested mask ss.length ct hct).1
  have h2' := h2
  simp only [removeBrokenFromSS, h] at h2'
  obtain ⟨hlen, hlab, _⟩ := ct2wuss_class_labels ss.length _ hb ss' h2'
  have h3 := pk_roundtrip' ss.length _ hb ss' h2'
  have hrem : removesOnlyGaps isUnpairedSym mask ss' := by
    apply removesOnlyGaps_of_forall
    intro i h1' h2'' h3'
    have hz : (breakPairs mask 1 ss.length ct).getD (i+1) 0 = 0 := by
      rw [breakPairs_spec' mask ss.length ct hct (i+1), if_neg]
      intro hc
      have := hc.2.1
      simp only [Nat.add_sub_cancel] at this
      have h4 : mask.getD i false = false := by
        simp only [List.getD_eq_getElem?_getD, List.getElem?_eq_getElem h1', Option.getD_some] at h3' ⊢
        exact h3'
      rw [h4] at this; cases this
    have := (hlab (i+1) (by omega) (by omega)).1 hz
    simpa using this
  obtain ⟨ps, hp1, hp2⟩ := compacted_pairs' ss' mask (by rw [hm, hlen]) hrem _ h3
  rw [hlen] at hp1
  exact ⟨ps, hp1, hp2⟩

/-- READING HALF OF THE PSEUDOKNOTTED ROUND TRIP: for ANY symmetric pair table (crossing pairs allowed) and any string
    that labels every pair with a bracket pair or an upper/lower-case letter pair and every unpaired position with an
    unpaired symbol, such that pairs sharing a stack (all brackets; one letter) never cross, `esl_wuss2ct` returns
    exactly that table -/
theorem wuss2ct_of_class_labels (ss : Bytes) (ct : List Nat) (hct : CtOk ss.length ct) (hcn : ClassNested ct ss)
    (hl : ClassLabels ct ss) : wuss2ct ss = some ct :=
  wuss2ct_of_class_labels' ss ct hct hcn hl

/-- RE-INDEXED PAIR SET AFTER COMPACTION, for ANY balanced WUSS string (pseudoknot letters included): if every removed
    column carries an unpaired symbol, `esl_wuss2ct` reads from the compacted line exactly the pairs of the original
    line with each position `p` renumbered to `newPos mask p` (its rank among the kept columns).  `tableOf z ps` is the
    table `ct[l] = r, ct[r] = l` of the pair list `ps`. -/
theorem compacted_pairs (ss : Bytes) (mask : List Bool) (hm : mask.length = ss.length)
    (hrem : removesOnlyGaps isUnpairedSym mask ss) (ct : List Nat) (h : wuss2ct ss = some ct) :
    ∃ ps, ct = tableOf (List.replicate (ss.length + 1) 0) ps ∧
      wuss2ct (maskFilter mask ss) =
        some (tableOf (List.replicate ((maskFilter mask ss).length + 1) 0) (relabelPs (newPos mask) ps)) :=
  compacted_pairs' ss mask hm hrem ct h

/-- `newPos` sends every kept column to its new index (1-based): the first kept column to 1, the next to 2, ... -/
theorem newPos_agrees (mask : List Bool) : Agree (newPos mask) 1 1 mask := agree_newPosFrom mask 1 1

/-- DNA/RNA `esl_msa_ColumnSubset` on an SS line without pseudoknot letters, BOTH steps, pair sets included: the repair
    succeeds and spells exactly the pairs with both partners retained (`breakPairs`), and the compacted line is read
    as those same pairs renumbered to the new columns -/
theorem nopk_columnSubset_pairs (ss : Bytes) (mask : List Bool) (hnl : ∀ c ∈ ss, isAlpha c = false) (ct : List Nat)
    (h : wuss2ct ss = some ct) (hm : mask.length = ss.length) :
    ∃ ss' ps, removeBrokenFromSS ss mask = .ok ss' ∧ ss'.length = ss.length ∧
      breakPairs mask 1 ss.length ct = tableOf (List.replicate (ss.length + 1) 0) ps ∧
      wuss2ct (maskFilter mask ss') =
        some (tableOf (List.replicate ((maskFilter mask ss').length + 1) 0) (relabelPs (newPos mask) ps)) := by
  have hn := wuss2ct_nopk_nested' ss hnl ct h
  have hct := wuss2ct_ctOk ss ct h
  have hb := breakPairs_ctOk_nested mask ss.length ct hct
  obtain ⟨ss', h1⟩ := ct2wuss_nested_ok ss.length _ hb.1 (hb.2 hn)
  obtain ⟨hlen, hlab⟩ := ct2wuss_labels ss.length _ hb.1 (hb.2 hn) ss' h1
  have h2 := wuss2ct_of_labels' ss' _ (by rw [hlen]; exact hb.1) (hb.2 hn) hlab
  have hrem : removesOnlyGaps isUnpairedSym mask ss' := by
    apply removesOnlyGaps_of_forall
    intro i h1' h2' h3
    have hz : (breakPairs mask 1 ss.length ct).getD (i+1) 0 = 0 := by
      rw [breakPairs_spec' mask ss.length ct hct (i+1), if_neg]
      intro hc
      have := hc.2.1
      simp only [Nat.add_sub_cancel] at this
      have h4 : mask.getD i false = false := by
        simp only [List.getD_eq_getElem?_getD, List.getElem?_eq_getElem h1', Option.getD_some] at h3 ⊢
        exact h3
      rw [h4] at this; cases this
    have := (hlab (i+1) (by omega) (by omega)).1 hz
    simpa using this
  obtain ⟨ps, hp1, hp2⟩ := compacted_pairs' ss' mask (by rw [hm, hlen]) hrem _ h2
  rw [hlen] at hp1
  exact ⟨ss', ps, by simp [removeBrokenFromSS, h, h1], hlen, hp1, hp2⟩

/-- ... in particular for the table of any bracket-only WUSS string: wuss -> ct -> wuss -> ct returns the same table
    whenever the table of the string is nested (the hypothesis `hn`; with pseudoknot letters the tables need not be
    nested and the round trip is PARTIAL: compared on every run against an independent reader, not proved) -/
theorem wuss_ct_wuss_ct (ss ss2 : Bytes) (ct : List Nat) (h1 : wuss2ct ss = some ct) (hn : Nested ct)
    (h2 : ct2wuss ct = .ok ss2) : wuss2ct ss2 = some ct :=
  nested_roundtrip' ss.length ct (wuss2ct_ctOk ss ct h1) hn ss2 h2

/-- `esl_msa_RemoveBrokenBasepairsFromSS`: on a balanced WUSS string the pair table handed to `esl_ct2wuss` holds
    EXACTLY the original pairs whose two partners are both retained (every other position is unpaired).
    (That the re-encoded string spells the same table is the `ct2wuss` round trip: checked on every run by the
    monitors against an independent WUSS reader; not proved — see `level_note`.) -/
theorem removeBroken_keeps_exactly (ss : Bytes) (useme : List Bool) (ct : List Nat) (h : wuss2ct ss = some ct) :
    removeBrokenFromSS ss useme = ct2wuss (breakPairs useme 1 ss.length ct) ∧
    ∀ i, (breakPairs useme 1 ss.length ct).getD i 0 =
      if ct.getD i 0 ≠ 0 ∧ useme.getD (i-1) false = true ∧ useme.getD (ct.getD i 0 - 1) false = true
      then ct.getD i 0 else 0 := by
  refine ⟨by simp [removeBrokenFromSS, h], fun i => ?_⟩
  exact breakPairs_spec' useme ss.length ct (wuss2ct_ctOk ss ct h) i

/-- an unbalanced SS line is left untouched and reported as `eslESYNTAX` -/
theorem removeBroken_rejects_unbalanced (ss : Bytes) (useme : List Bool) (h : wuss2ct ss = none) :
    removeBrokenFromSS ss useme = .error .esyntax := by
  simp [removeBrokenFromSS, h]

/-- `esl_ct2wuss` / `esl_ct2simplewuss`, when they succeed, write exactly `n` symbols and no NUL -/
theorem ct2wuss_shape (simple : Bool) (ct : List Nat) (ss : Bytes) (h : ct2wussGen simple ct = .ok ss) :
    ss.length = ct.length - 1 ∧ ∀ c ∈ ss, c ≠ 0 :=
  ct2wussGen_shape simple ct ss h

/-- `esl_wuss_full` on a balanced WUSS string without pseudoknot letters: succeeds, same length, same pair table -/
theorem wussFull_nopk (ss : Bytes) (hnl : ∀ c ∈ ss, isAlpha c = false) (ct : List Nat) (h : wuss2ct ss = some ct) :
    ∃ full, wussFull ss = .ok full ∧ full.length = ss.length ∧ wuss2ct full = some ct :=
  wussFull_nopk' ss hnl ct h

/-- `esl_wuss_reverse` is an involution on every string -/
theorem wussReverse_involutive (ss : Bytes) : wussReverse (wussReverse ss) = ss :=
  wussReverse_wussReverse ss

/-! ## non-vacuity -/

def exMsa : Msa :=
  { Msa.create 2 4 with rows := [[0x41, 0x2d, 0x43, 0x47], [0x41, 0x2d, 0x2d, 0x47]],
                        ss_cons := some [0x3c, 0x2e, 0x2e, 0x3e], rf := some [0x78, 0x2e, 0x78, 0x78],
                        gc := [([0x66], [0x31, 0x32, 0x33, 0x34])] }

example : (columnSubset exMsa [true, false, true, true]).msa.rows = [[0x41, 0x43, 0x47], [0x41, 0x2d, 0x47]] := by decide
example : (columnSubset exMsa [true, false, true, true]).msa.gc = [([0x66], [0x31, 0x33, 0x34])] := by decide
example : removesOnlyGaps (· == 0x2d) [true, false, true, true] [0x41, 0x2d, 0x43, 0x47] := by simp [removesOnlyGaps]
example : (sequenceSubset exMsa [false, true]).toOption.map (·.rows) = some [[0x41, 0x2d, 0x2d, 0x47]] := by decide
example : wuss2ct [0x3c, 0x41, 0x3e, 0x61] = some [0, 3, 4, 1, 2] := by decide
example : (ct2wuss [0, 8, 3, 2, 0, 6, 5, 0, 1]).toOption = some [0x28, 0x3c, 0x3e, 0x2c, 0x3c, 0x3e, 0x2c, 0x29] ∧
    wuss2ct [0x28, 0x3c, 0x3e, 0x2c, 0x3c, 0x3e, 0x2c, 0x29] = some [0, 8, 3, 2, 0, 6, 5, 0, 1] := by decide
example : balancedClass 0 [0x3c, 0x41, 0x3e, 0x61] ∧ balancedClass 1 [0x3c, 0x41, 0x3e, 0x61] := by
  unfold balancedClass; decide
example : ¬ balancedClass 0 [0x3c, 0x29] := by unfold balancedClass; decide
example : (List.range 6).map (newPos [true, false, true, true, false]) = [0, 1, 2, 2, 3, 4] := by decide
example : (ct2wuss [0, 3, 4, 1, 2]).toOption = some [0x3c, 0x41, 0x3e, 0x61] := by decide

end EaselModel.Props.C15
